"""Correspondence for the sequential-history properties (C01, C02, C03, C05, C09, C13, C14):
real inline DB (through harness/overlay/inline_db) vs Lean concrete model vs Lean abstract spec."""
import json, os, shutil
import common as C
from runner import Violation

GUARD = "1"   # store.Guarded is wired in (fix for the zombie-write defect); model flag `guardWrites`

SEQ_TIES = ["core_Store", "core_storeToTx", "core_Get", "core_getFileFromTx", "core_GetFiles", "core_getFilesFromTx",
            "core_mergeFiles", "core_UpdateTx", "core_DeleteTx", "core_DeleteOld", "core_Load", "core_New",
            "store_Set", "store_Get", "store_GetKeys", "store_Delete", "store_Guarded_Set", "store_Guarded_Delete",
            "store_Guarded_checkTx", "store_getContent", "seq_LockHorizon", "seq_UnlockHorizon", "di_Store", "di_StoreService", "tx_Begin", "tx_Commit", "tx_Rollback",
            "cleaner_DeleteOld", "cleaner_DeleteFiles", "cleaner_deleteFile", "cleaner_DeleteFilesAsync",
            "txrepo_Get", "txrepo_Delete", "txrepo_Store", "txrepo_Oldest", "model_File_Latest", "model_GetTxId",
            "txs_Get", "txs_Put", "txs_Delete", "txm_PushBack", "txm_File", "txm_Files", "txm_Clear",
            "list_PushBack", "list_PopBack", "list_PopFront", "node_Delete", "node_DeleteLink", "node_insert",
            "file_binarySearch", "file_IterateBeforeSeq", "file_PopFront", "file_PopBack", "file_PushBack",
            "file_Latest", "file_LastBefore", "seq_After", "seq_Before", "seq_Zero", "seq_Next",
            "inline_New", "inline_Close", "inline_tx_Commit", "inline_tx_Rollback", "inline_Begin",
            "roottx_Set", "roottx_Delete", "roottx_Get", "roottx_GetKeys"]

SEQ_TRUSTED = [
    "Lean 4.33.0 kernel; axioms per theorem under coverage.theorems (allowed: propext, Classical.choice, Quot.sound)",
    "concrete model FsDb/Model/Sys.lean (hand-written; maps as functions + key domain; uuids as first-seen indices; Go map iteration order abstracted; Badger/FS as record lists) — tied to the code by the skeleton texts of every modelled function (FsDb/Tie) and by this differential run",
    "abstract spec FsDb/Spec/Iso.lean is the meaning of the property (audit by eye)",
    "harness harness/overlay/inline_db (real pkg/inline/db on Badger + real files; GC period 1h, explicit gc/drain ops; pool quiescence by verif counters)",
    "Badger, the OS file system, google/uuid, omap: modelled (DESIGN §10)",
]


def split_histories(ops):
    """indices of `sys new` lines"""
    return [i for i, l in enumerate(ops) if l.startswith("sys new")]


def run_impl(ctx, profile, nhist, corpus_path=None, tag=""):
    env = {"VERIF_OUT": ctx.rd, "VERIF_SEED": ctx.seed, "VERIF_TIER": ctx.tier, "VERIF_PROFILE": profile,
           "VERIF_HISTORIES": nhist, "VERIF_GUARD_WRITES": GUARD}
    if corpus_path:
        env["VERIF_CORPUS"] = corpus_path
    rc, out = C.go_test("./pkg/inline/db", "TestVerifSeq", env, timeout=3000)
    pfx = os.path.join(ctx.rd, profile)
    if rc != 0 or not os.path.exists(pfx + ".stats.json"):
        return None, out
    with open(pfx + ".both", "wb") as fo, open(pfx + ".ops", "rb") as fi:
        import subprocess
        p = subprocess.run([C.DRIVER], stdin=fi, stdout=fo, stderr=subprocess.PIPE)
        if p.returncode != 0:
            raise C.MachineryError("driver crashed: " + p.stderr.decode(errors="replace")[-1000:])
    ops = C.read_lines(pfx + ".ops")
    impl = C.read_lines(pfx + ".impl")
    both = C.read_lines(pfx + ".both")
    model = [b.split("\t")[0] for b in both]
    spec = [b.split("\t")[1] if "\t" in b else "" for b in both]
    stats = json.load(open(pfx + ".stats.json"))
    return (ops, impl, model, spec, stats), out


def first_bad(ops, impl, model, spec):
    """(index, kind): first line where impl differs from spec (property) or from model (tie)"""
    n = min(len(ops), len(impl), len(model), len(spec))
    for i in range(n):
        if not ops[i]:
            continue
        if impl[i] != spec[i]:
            return i, "spec"
        if impl[i] != model[i]:
            return i, "model"
    return None, None


def shrink(ctx, profile, history, kind):
    """delta debugging on op lines; candidates are evaluated in batches through the corpus mechanism"""
    cur = history
    rounds = 0
    while rounds < 12 and len(cur) > 2:
        rounds += 1
        n = len(cur)
        cands = []
        chunk = max(1, n // 8)
        for st in range(0, n, chunk):
            c = cur[:st] + cur[st + chunk:]
            if c and c != cur:
                cands.append(c)
        if chunk > 1:
            for st in range(n):
                if len(cands) > 60:
                    break
                cands.append(cur[:st] + cur[st + 1:])
        cp = os.path.join(ctx.rd, "shrink.corpus")
        with open(cp, "w") as f:
            for c in cands:
                f.write("\n".join(c) + "\n\n")
        res, _ = run_impl(ctx, profile, -1, corpus_path=cp)
        if res is None:
            break
        ops, impl, model, spec, _ = res
        starts = split_histories(ops) + [len(ops)]
        better = None
        for h in range(len(starts) - 1):
            a, b = starts[h], starts[h + 1]
            i, k = first_bad(ops[a:b], impl[a:b], model[a:b], spec[a:b])
            # a candidate in which the harness rejects a line (`bad-op`: the deletion broke the protocol,
            # e.g. an operation through a transaction whose Begin was removed) is not a history
            if i is not None and k == kind and "bad-op" not in impl[a:a + i + 1]:
                cand = [l for l in ops[a + 1:a + i + 1] if l]
                if better is None or len(cand) < len(better):
                    better = cand
        if better is None or len(better) >= len(cur):
            if chunk == 1:
                break
            continue
        cur = better
    return cur


def correspond(ctx, prop, profile, nhist_quick, nhist_thorough, what, need_answers=(), corpus=None):
    nhist = nhist_thorough if ctx.thorough else nhist_quick
    corpus_path = os.path.join(C.VERIF, "corpus", corpus) if corpus else None
    if corpus_path and not os.path.exists(corpus_path):
        corpus_path = None
    res, out = run_impl(ctx, profile, nhist, corpus_path=corpus_path)
    if res is None:
        rp = C.write_replay(prop, "harness-failure", {"property": prop, "kind": "impl-run-failed",
                            "go_test_output": out[-8000:], "repo": C.repo_head()})
        return {"violations": [Violation("impl-run-failed", "the real database failed to build or to run the generated histories: "
                                         + out.strip().split("\n")[-1][:200], rp)], "coverage": {"evaluations": 0}}
    ops, impl, model, spec, stats = res
    violations = []
    i, kind = first_bad(ops, impl, model, spec)
    if i is not None:
        starts = split_histories(ops)
        st = max(s for s in starts if s <= i)
        hist = [l for l in ops[st + 1:i + 1] if l]
        small = shrink(ctx, profile, hist, kind)
        # re-run the minimised history to record the three answer streams
        cp = os.path.join(ctx.rd, "min.corpus")
        with open(cp, "w") as f:
            f.write("\n".join(small) + "\n")
        res2, _ = run_impl(ctx, profile, -1, corpus_path=cp)
        streams = {}
        if res2:
            o2, i2, m2, s2, _ = res2
            streams = {"ops": o2, "impl": i2, "model": m2, "spec": s2}
        payload = {"property": prop, "kind": "history", "differs_from": kind,
                   "correspondence": what, "failed_op": ops[i], "impl": impl[i], "model": model[i], "spec": spec[i],
                   "history": small, "original_history_len": len(hist), "streams": streams,
                   "seed": ctx.seed, "tier": ctx.tier, "profile": profile, "repo": C.repo_head()}
        rp = C.write_replay(prop, "history", payload)
        if kind == "spec":
            violations.append(Violation(prop.lower() + "-history", "history of %d ops: `%s` answered `%s` by the real database, the specification says `%s`"
                                        % (len(small), ops[i][:60], impl[i][:80], spec[i][:80]), rp))
        else:
            violations.append(Violation(prop.lower() + "-model-tie", "real database and concrete Lean model disagree (`%s`: impl `%s`, model `%s`) while the spec agrees with the implementation: the model the theorems are about no longer describes the code"
                                        % (ops[i][:60], impl[i][:80], model[i][:80]), rp, found_input=False))
    ans = stats.get("answers_by_kind", {})
    missing = [a for a in need_answers if not ans.get(a)]
    if missing and not violations:
        raise C.MachineryError("degenerate generator distribution for %s: no %s answers in %d lines" % (prop, missing, stats["lines"]))
    nontrivial = stats["histories"]
    samples = []
    starts = split_histories(ops)
    if starts:
        a = starts[min(1, len(starts) - 1)]
        samples.append({"history_prefix": ops[a:a + 30], "impl": impl[a:a + 30], "spec": spec[a:a + 30]})
    cov = {"evaluations": stats["lines"], "distinct_nontrivial": nontrivial,
           "rule": "generated histories (profile %s) executed on the real inline database; every op line answered by implementation, concrete model and abstract spec and compared; distinct_nontrivial counts histories (each has 20-65 base ops over 1-6 keys, up to 5 simultaneously open transactions of mixed levels; observer reads after each step)" % profile,
           "traces_validated_against_impl": stats["lines"], "distribution": stats, "samples": samples,
           "summary": "%d histories / %d op lines: impl = model = spec" % (stats["histories"], stats["lines"])}
    return {"violations": violations, "coverage": cov}


def corpus_violations(ctx, prop, profile, histories, what):
    """extra hand-built histories through impl / model / spec; returns (violations, lines)"""
    cp = os.path.join(ctx.rd, profile + ".corpus")
    with open(cp, "w") as f:
        for h in histories:
            f.write("\n".join(h) + "\n\n")
    res, out = run_impl(ctx, profile, -1, corpus_path=cp)
    if res is None:
        rp = C.write_replay(prop, "harness-failure", {"property": prop, "kind": "impl-run-failed", "go_test_output": out[-6000:]})
        return [Violation("impl-run-failed", "the real database failed to run the %s histories: %s" % (profile, out.strip().split("\n")[-1][:160]), rp)], 0
    ops, impl, model, spec, stats = res
    i, kind = first_bad(ops, impl, model, spec)
    if i is None:
        return [], stats["lines"]
    starts = split_histories(ops)
    st = max(x for x in starts if x <= i)
    hist = [l for l in ops[st + 1:i + 1] if l]
    payload = {"property": prop, "kind": "history", "differs_from": kind, "correspondence": what, "failed_op": ops[i], "impl": impl[i][:2000],
               "model": model[i][:2000], "spec": spec[i][:2000], "history_len": len(hist), "history_head": hist[:12], "history_tail": hist[-12:],
               "profile": profile, "repo": C.repo_head()}
    rp = C.write_replay(prop, "history-" + profile, payload)
    return [Violation(prop.lower() + "-" + profile, "%s: history of %d ops: `%s` answered `%s` by the real database, the specification says `%s`"
                      % (what, len(hist), ops[i][:60], impl[i][:100], spec[i][:100]), rp, found_input=(kind == "spec"))], stats["lines"]


def replay(ctx, path, profile):
    p = json.load(open(path))
    if p.get("kind") != "history":
        print(json.dumps(p, indent=1)[:4000])
        return 0
    cp = os.path.join(ctx.rd, "replay.corpus")
    with open(cp, "w") as f:
        f.write("\n".join(p["history"]) + "\n")
    C.build_driver()
    res, out = run_impl(ctx, profile, -1, corpus_path=cp)
    if res is None:
        print(out[-3000:])
        return 1
    ops, impl, model, spec, _ = res
    for a, b, c, d in zip(ops, impl, model, spec):
        if a:
            print("%-40s impl=%-28s model=%-28s spec=%s" % (a[:40], b[:28], c[:28], d[:28]))
    i, kind = first_bad(ops, impl, model, spec)
    if i is None:
        print("replay: no disagreement on the current tree")
        return 0
    print("VIOLATION property=%s replay=%s" % (ctx.prop, path))
    return 1
