"""Generic line-protocol correspondence: Go overlay test writes <pfx>.ops/<pfx>.impl/<pfx>.stats.json,
the Lean driver answers the same ops, outputs are compared line by line."""
import json, os
import common as C
from runner import Violation


def line_corr(ctx, prop, pkg, test, pfx, env=None, script_start=None, what="", race=False, timeout=3000):
    rd = ctx.rd
    e = {"VERIF_OUT": rd, "VERIF_SEED": ctx.seed, "VERIF_TIER": ctx.tier}
    e.update(env or {})
    rc, out = C.go_test(pkg, test, e, race=race, timeout=timeout)
    ops_p, impl_p, model_p = [os.path.join(rd, pfx + "." + x) for x in ("ops", "impl", "model")]
    stats_p = os.path.join(rd, pfx + ".stats.json")
    if rc != 0 or not os.path.exists(stats_p):
        rp = C.write_replay(prop, pfx + "-harness-failure", {"property": prop, "kind": "impl-run-failed",
                            "go_test_output": out[-8000:], "repo": C.repo_head()})
        return [Violation(pfx + "-impl-run-failed", "the real code failed to build or to run the %s scripts (panic/timeout/build error): %s"
                          % (pfx, out.strip().split("\n")[-1][:200]), rp)], {"lines": 0}, [], out
    C.run_driver(ops_p, model_p)
    stats = json.load(open(stats_p))
    d = C.first_diff(impl_p, model_p)
    violations = []
    ops = C.read_lines(ops_p)
    impl = C.read_lines(impl_p)
    if d is not None:
        model = C.read_lines(model_p)
        st = script_start(ops, d) if script_start else max(0, d - 30)
        payload = {"property": prop, "kind": "correspondence", "correspondence": what,
                   "first_diff_line": d, "op": ops[d] if d < len(ops) else None,
                   "impl": impl[d] if d < len(impl) else None, "model": model[d] if d < len(model) else None,
                   "script": ops[st:d + 1], "impl_out": impl[st:d + 1], "model_out": model[st:d + 1],
                   "seed": ctx.seed, "tier": ctx.tier, "repo": C.repo_head()}
        rp = C.write_replay(prop, pfx + "-diff", payload)
        violations.append(Violation(pfx + "-diff", "op `%s`: real code answered `%s`, model/spec says `%s`"
                                    % (payload["op"], str(payload["impl"])[:120], str(payload["model"])[:120]), rp))
    samples = [{"op": ops[i], "answer": impl[i]} for i in range(0, min(len(ops) - 1, 4000), max(1, min(len(ops) - 1, 4000) // 8))][:8]
    return violations, stats, samples, out


def replay_script(ctx, path):
    p = json.load(open(path))
    if p.get("kind") != "correspondence":
        print(json.dumps(p, indent=1)[:4000])
        return 0
    rd = ctx.rd
    with open(os.path.join(rd, "replay.ops"), "w") as f:
        f.write("\n".join(p["script"]) + "\n")
    C.build_driver()
    C.run_driver(os.path.join(rd, "replay.ops"), os.path.join(rd, "replay.model"))
    print("script:", p["script"])
    print("model answers now :", open(os.path.join(rd, "replay.model")).read().split("\n")[:-1])
    print("recorded impl     :", p["impl_out"])
    return 0
