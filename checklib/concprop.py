"""Enforced-schedule exploration on the real database + linearizability against the Lean spec."""
import json, os, subprocess
import common as C
from runner import Violation


def run_conc(ctx, profile, maxruns, schedules=None):
    env = {"VERIF_OUT": ctx.rd, "VERIF_SEED": ctx.seed, "VERIF_PROFILE": profile, "VERIF_MAXRUNS": maxruns,
           "VERIF_GEN": 60 if ctx.thorough else 12, "VERIF_GENRUNS": 30 if ctx.thorough else 10}
    if schedules:
        env["VERIF_SCHEDULES"] = schedules
    rc, out = C.go_test("./pkg/inline/db", "TestVerifConc", env, timeout=3000)
    p = os.path.join(ctx.rd, profile + ".runs.jsonl")
    if rc != 0 or not os.path.exists(os.path.join(ctx.rd, profile + ".conc.stats.json")):
        return None, out
    runs = [json.loads(l) for l in open(p) if l.strip()]
    for r in runs:
        for f in ("setup", "setup_res", "final", "final_res", "ops", "trace", "sched", "cands"):
            if r.get(f) is None:
                r[f] = []
    return runs, out


def explain(ctx, runs, tag):
    """for every run: is there a candidate linearization whose Spec answers equal the observed ones?"""
    ops_p = os.path.join(ctx.rd, tag + ".lin.ops")
    index = []   # (run idx, cand idx, start line, expected list)
    with open(ops_p, "w") as f:
        line = 0
        for ri, r in enumerate(runs):
            if r.get("hang"):
                continue
            for ci, cand in enumerate(r["cands"] or []):
                lines = ["sys new 1"] + ["sys " + l for l in r["setup"]] + ["sys " + r["ops"][i]["op"] for i in cand] + ["sys " + l for l in r["final"]]
                exp = ["ok"] + r["setup_res"] + [r["ops"][i]["res"] for i in cand] + r["final_res"]
                f.write("\n".join(lines) + "\n")
                index.append((ri, ci, line, exp))
                line += len(lines)
    out_p = os.path.join(ctx.rd, tag + ".lin.out")
    with open(ops_p, "rb") as fi, open(out_p, "wb") as fo:
        p = subprocess.run([C.DRIVER], stdin=fi, stdout=fo, stderr=subprocess.PIPE)
        if p.returncode != 0:
            raise C.MachineryError("driver crashed")
    both = C.read_lines(out_p)
    explained, relaxed = {}, {}
    for ri, ci, start, exp in index:
        if explained.get(ri) is not None:
            continue
        spec = [b.split("\t")[1] if "\t" in b else b for b in both[start:start + len(exp)]]
        if spec == exp:
            explained[ri] = ci
        elif ri not in relaxed and all(a == b or keys_subset(a, b) for a, b in zip(exp, spec)):
            relaxed[ri] = ci
    for ri in explained:
        relaxed.pop(ri, None)
    explain.relaxed = relaxed
    return explained, len(index)



# ---- free-running stress with specification-derived oracles ------------------------------------------------

STRESS = {  # property -> (programs, oracle prefixes that are violations of THIS property)
    "C06": (["register", "pair"], ("read-missing", "register-", "pair-invented", "pair-error", "gc-error", "register-error", "pair-hang", "register-hang", "pair-panic", "register-panic")),
    "C07": (["counter"], ("lost-update", "counter-")),
    "C08": (["pair", "beginrace"], ("snapshot-", "beginrace-", "begin-error")),
    "C09": (["beginrace", "pair"], ("snapshot-missing", "snapshot-unstable", "read-missing", "gc-error")),
}


def stress(ctx, prop, ms=None, race=False):
    """returns (violations, coverage)"""
    progs, mine = STRESS[prop]
    ms = ms or (3000 if ctx.thorough else 700)
    viol, total, ran = [], 0, []
    for prog in progs:
        rc, out = C.go_test("./pkg/inline/db", "TestVerifConcStress", {"VERIF_OUT": ctx.rd, "VERIF_STRESS_MS": ms, "VERIF_STRESS": prog},
                            race=race, timeout=1200)
        sp = os.path.join(ctx.rd, "stress.json")
        if (rc != 0 and "DATA RACE" not in out) or not os.path.exists(sp):
            rp = C.write_replay(prop, "stress-failed", {"property": prop, "kind": "impl-run-failed", "go_test_output": out[-6000:]})
            viol.append(Violation("stress-run-failed", "the free-running stress `%s` failed to run: %s" % (prog, out.strip().split("\n")[-1][:160]), rp))
            continue
        st = json.load(open(sp))
        os.remove(sp)
        total += st.get("ops", 0)
        ran.append(prog)
        seen = set()
        for b in st.get("bad") or []:
            if not b["oracle"].startswith(mine) or b["oracle"] in seen:
                continue
            seen.add(b["oracle"])
            rp = C.write_replay(prop, "stress-" + b["oracle"], {"property": prop, "kind": "stress", "program": prog, "oracle": b["oracle"],
                                "observed": [x for x in st["bad"] if x["oracle"] == b["oracle"]][:5], "ms": ms,
                                "replay_env": "VERIF_STRESS=%s VERIF_STRESS_MS=%d go test -tags verif -run TestVerifConcStress ./pkg/inline/db (free-running goroutines: re-run until it shows)" % (prog, ms),
                                "repo": C.repo_head()})
            viol.append(Violation("%s-stress-%s" % (prop.lower(), b["oracle"]), "free-running stress `%s` on the real database: %s" % (prog, b["what"][:400]), rp))
    return viol, {"stress_programs": ran, "stress_operations": total, "stress_ms_per_program": ms,
                  "stress_rule": "free-running goroutines (no scheduler) on the real database with the collector running all the time; oracles derived from Spec.Iso for these programs: snapshot sees all-or-nothing of every commit and re-reads stably, a key that always has a value is never missing, the counter equals the number of successful snapshot commits, a single-key register is linearizable"}


# ---- the same schedule in the small-step Lean model (Model/Conc) --------------------------------------------

SS_LABEL = {"uget.afterLookup": "uget.afterLookup", "ukeys.afterLookup": "ukeys.afterLookup", "gc.horizon": "gc.horizon",
            "gc.collected": "gc.collected", "begin.start": "begin.start", "txrepo.store": "txrepo.store", "utx.start": "utx.start"}
SS_STAY = {"utx.betweenAB", "utx.seqB"}          # inside the commit's critical section: one step of the model
SS_ENTRY = {"begin.start"}                       # labels of entry program counters: reached by the call itself


def smallstep_cmds(run):
    """driver commands + expected answers replaying one enforced run; None if the run is outside the
    model's reach (an actor was blocked on a lock of the real code, or a persistent-mutation yield point)"""
    tr = run["trace"]
    if run.get("hang") or any(t.startswith("blocked") for t in tr):
        return None
    actors = []
    for t in tr:
        f = t.split()
        if f[0] in ("step", "inv", "ret", "done") and f[1] not in actors:
            actors.append(f[1])
    tid = {a: i + 1 for i, a in enumerate(actors)}
    cmds, exp = ["conc new"], ["ok"]
    for op, res in zip(run["setup"], run["setup_res"]):
        cmds += ["conc call 0 " + op, "conc until 0 ret"]
        exp += ["ok", "ret:" + res]
    n = len(tr)
    i = 0
    while i < n:
        f = tr[i].split()
        if f[0] != "step":
            i += 1
            continue
        a = f[1]
        # the segment of `a`: its inv/ret lines up to its next park / end
        j = i + 1
        called = False
        while j < n and not tr[j].startswith(("step ", "done ", "blocked ")):
            g = tr[j].split(None, 2)
            if g[1] != a:
                return None
            if g[0] == "inv":
                cmds.append("conc call %d %s" % (tid[a], g[2])); exp.append("ok"); called = True
            elif g[0] == "ret":
                cmds.append("conc until %d ret" % tid[a]); exp.append("ret:" + g[2]); called = False
            j += 1
        # where does `a` park next?
        q = None
        for k in range(j, n):
            h = tr[k].split()
            if h[0] == "step" and h[1] == a:
                q = h[3]
                break
            if h[0] == "done" and h[1] == a:
                break
        if q and not q.startswith("op:"):
            if q.startswith("mut:"):
                return None
            if q in SS_STAY and called:      # straight from the call into UpdateTx's critical section: txRepo.Delete is done
                cmds.append("conc until %d utx.start" % tid[a]); exp.append("at:utx.start")
            elif q in SS_STAY or (q in SS_ENTRY and called):
                cmds.append("conc at %d" % tid[a]); exp.append("utx.start" if q in SS_STAY else SS_LABEL[q])
            elif q in SS_LABEL:
                cmds.append("conc until %d %s" % (tid[a], SS_LABEL[q])); exp.append("at:" + SS_LABEL[q])
            else:
                return None
        i = j
    for op, res in zip(run["final"], run["final_res"]):
        cmds += ["conc call 0 " + op, "conc until 0 ret"]
        exp += ["ok", "ret:" + res]
    st = run.get("storage") or []
    if len(st) == 2 and st[0] == "ok":
        # the storage after the run: every deletion job executed, then the content files that exist
        cmds += ["conc call 0 drain", "conc until 0 ret", "conc tree"]
        exp += ["ok", "ret:ok", st[1]]
    return cmds, exp


def run_conc_cmds(ctx, tag, batches):
    """batches: list of (cmds, exp); returns for each the index of the first mismatch (or None) and the model's answer"""
    ops_p = os.path.join(ctx.rd, tag + ".ss.ops")
    with open(ops_p, "w") as f:
        for cmds, _ in batches:
            f.write("\n".join(cmds) + "\n")
    out_p = os.path.join(ctx.rd, tag + ".ss.out")
    with open(ops_p, "rb") as fi, open(out_p, "wb") as fo:
        p = subprocess.run([C.DRIVER], stdin=fi, stdout=fo, stderr=subprocess.PIPE)
        if p.returncode != 0:
            raise C.MachineryError("driver crashed (conc)")
    got = C.read_lines(out_p)
    res, start = [], 0
    for cmds, exp in batches:
        bad = None
        for k, e in enumerate(exp):
            g = got[start + k] if start + k < len(got) else "<eof>"
            if e is not None and g != e:
                bad = (k, g)
                break
        res.append(bad)
        start += len(cmds)
    return res


POOL = 99   # model thread standing for the worker pool of the real database


def with_pool_runs(cmds, exp, positions):
    """the same replay with the worker pool draining its queue before the commands at `positions`"""
    c2, e2 = [], []
    for k, (c, e) in enumerate(zip(cmds, exp)):
        if k in positions:
            c2 += ["conc call %d drain" % POOL, "conc until %d ret" % POOL]
            e2 += [None, None]
        c2.append(c)
        e2.append(e)
    return c2, e2


def smallstep(ctx, runs, tag):
    """returns (number of runs replayed, list of (run index, command, expected, model's answer)).
    The worker pool of the real database runs its deletion jobs whenever it likes (it is not one of the
    scheduled actors): a replay that disagrees is tried again with the pool draining its queue before
    every command, and before each single command; only a run no placement explains is reported."""
    index = []
    for ri, r in enumerate(runs):
        ce = smallstep_cmds(r)
        if ce is not None:
            index.append((ri, ce[0], ce[1]))
    first = run_conc_cmds(ctx, tag, [(c, e) for _, c, e in index])
    bad = []
    for (ri, cmds, exp), b in zip(index, first):
        if b is None:
            continue
        n = len(cmds)
        variants = [set(range(1, n))] + [{k} for k in range(1, n)]
        batches = [with_pool_runs(cmds, exp, v) for v in variants]
        res = run_conc_cmds(ctx, tag + "-pool", batches)
        if all(x is not None for x in res):
            bad.append((ri, cmds[b[0]], exp[b[0]], b[1]))
    return len(index), bad

def keys_subset(impl, spec):
    """known finding C06-getkeys-reclaim-window: GetKeys may omit keys (never invent one)"""
    if not (impl.startswith("keys:") and spec.startswith("keys:")):
        return False
    a = set(x for x in impl[5:].split(",") if x)
    b = set(x for x in spec[5:].split(",") if x)
    return a < b


def correspond(ctx, prop, profile, quick_runs, thorough_runs, what, witnesses=None):
    maxruns = thorough_runs if ctx.thorough else quick_runs
    allruns = []
    violations = []
    if witnesses:
        wr, out = run_conc(ctx, profile, 1, schedules=witnesses)
        if wr is None:
            return fail(prop, out)
        allruns += wr
    runs, out = run_conc(ctx, profile, maxruns)
    if runs is None:
        return fail(prop, out)
    allruns += runs
    explained, ncands = explain(ctx, allruns, profile)
    bad = []
    for ri, r in enumerate(allruns):
        if r.get("hang"):
            bad.append((ri, "hang"))
        elif ri not in explained:
            if ri in getattr(explain, "relaxed", {}):
                bad.append((ri, "getkeys-omits-key"))
            else:
                bad.append((ri, "not-linearizable"))
    seen_sig = set()
    for ri, why in bad:
        r = allruns[ri]
        sig = "%s-%s-%s" % (prop.lower(), r["scenario"], why)
        if why == "getkeys-omits-key":
            sig = "C06-getkeys-reclaim-window"
        if sig in seen_sig:
            continue
        seen_sig.add(sig)
        # pick the shortest failing schedule of that scenario/kind as the replay
        same = [allruns[i] for i, w in bad if w == why and allruns[i]["scenario"] == r["scenario"]]
        r = min(same, key=lambda x: len(x["sched"]))
        payload = {"property": prop, "kind": "schedule", "why": why, "scenario": r["scenario"], "schedule": r["sched"],
                   "trace": r["trace"], "setup": r["setup"], "ops": r["ops"], "final": r["final"], "final_res": r["final_res"],
                   "stacks": r.get("stacks", "")[:20000], "correspondence": what,
                   "replay_env": "VERIF_SCHEDULES=%s:%s" % (r["scenario"], ",".join(r["sched"])), "repo": C.repo_head()}
        rp = C.write_replay(prop, "%s-%s" % (r["scenario"], why), payload)
        if why == "getkeys-omits-key":
            obs = "; ".join("%s:%s→%s" % (o["actor"], o["op"], o["res"]) for o in r["ops"])
            msg = "GetKeys omits a key that had a value throughout the call when its version is reclaimed between the lookup and the content-record read (scenario %s, schedule %s) [%s]" % (r["scenario"], " ".join(r["sched"]), obs)
        elif why == "hang":
            msg = "scenario %s, schedule %s: the operations did not return (deadlock / lost wake-up)" % (r["scenario"], " ".join(r["sched"]))
        else:
            obs = "; ".join("%s:%s→%s" % (o["actor"], o["op"], o["res"]) for o in r["ops"])
            msg = "scenario %s, schedule %s: no sequential order of the operations explains the answers under the specification [%s | final %s]" % (
                r["scenario"], " ".join(r["sched"]), obs, r["final_res"])
        violations.append(Violation(sig, msg, rp))
    # the same schedules in the small-step Lean model: it must predict every answer exactly
    ss_n, ss_bad = smallstep(ctx, allruns, profile)
    bad_runs = set(ri for ri, _ in bad)
    for ri, cmd, want, got in ss_bad:
        if ri in bad_runs:
            continue          # already reported as a property violation
        r = allruns[ri]
        sig = "%s-%s-smallstep-tie" % (prop.lower(), r["scenario"])
        if sig in seen_sig:
            continue
        seen_sig.add(sig)
        payload = {"property": prop, "kind": "smallstep-tie", "scenario": r["scenario"], "schedule": r["sched"], "trace": r["trace"],
                   "command": cmd, "real_database": want, "small_step_model": got, "setup": r["setup"], "ops": r["ops"],
                   "note": "the run is linearizable, but the small-step model Model/Conc (the object of C06_linearizable) predicts another answer under the same schedule: its steps no longer describe the code",
                   "replay_env": "VERIF_SCHEDULES=%s:%s" % (r["scenario"], ",".join(r["sched"])), "repo": C.repo_head()}
        rp = C.write_replay(prop, "%s-smallstep-tie" % r["scenario"], payload)
        violations.append(Violation(sig, "scenario %s, schedule %s: the real database answered `%s` where the small-step model answers `%s` to `%s` under the same schedule (tie of Model/Conc broken)"
                                    % (r["scenario"], " ".join(r["sched"]), want, got, cmd), rp, found_input=False))
    sv, scov = stress(ctx, prop) if prop in STRESS else ([], {})
    violations += sv
    distinct = len(set((r["scenario"], tuple(r["trace"])) for r in allruns))
    nontriv = len(set((r["scenario"], tuple(r["trace"])) for r in allruns if any(t.startswith("blocked") for t in r["trace"]) or len(set(r["sched"])) > 1))
    by_sc = {}
    for r in allruns:
        by_sc[r["scenario"]] = by_sc.get(r["scenario"], 0) + 1
    samples = [{"scenario": r["scenario"], "schedule": " ".join(r["sched"]),
                "answers": ["%s:%s→%s" % (o["actor"], o["op"], o["res"]) for o in r["ops"]], "final": r["final_res"]}
               for r in allruns[:3]]
    cov = {"evaluations": len(allruns), "distinct_nontrivial": nontriv,
           "rule": "schedules of small client programs (fixed scenarios + generated ones: 2-3 actors, autocommit / RU / RC / snapshot transactions, collector, pool drain over two keys) enforced on the real inline database at the verif hook points and operation boundaries (stateless DFS over actor choices, random order beyond the first); distinct = different event trace, non-trivial = at least two actors interleaved; every run's answers must be explained by some linearization under Spec.Iso (%d candidate linearizations evaluated by the Lean driver)" % ncands,
           "traces_validated_against_impl": len(allruns), "distribution": {"runs_by_scenario": by_sc, "distinct_traces": distinct},
           "samples": samples, "smallstep_model_replays": ss_n, "stress": scov,
           "smallstep_rule": "every enforced run without a goroutine blocked on a lock of the real code is replayed in the small-step Lean model Model/Conc under the same schedule (hook points = program counters); every answer of every operation must be the one the model computes",
           "summary": "%d enforced schedules, all linearizable; %d replayed step by step in the small-step model with equal answers; %d free-running stress operations within the oracles" % (len(allruns), ss_n, scov.get("stress_operations", 0))}
    return {"violations": violations, "coverage": cov}


def fail(prop, out):
    rp = C.write_replay(prop, "harness-failure", {"property": prop, "kind": "impl-run-failed", "go_test_output": out[-8000:]})
    return {"violations": [Violation("impl-run-failed", "the concurrent scenarios failed to run on the real database: " + out.strip().split("\n")[-1][:200], rp)],
            "coverage": {"evaluations": 0}}


def replay(ctx, path, profile):
    p = json.load(open(path))
    if p.get("kind") != "schedule":
        print(json.dumps(p, indent=1)[:4000])
        return 0
    C.build_driver()
    runs, out = run_conc(ctx, profile, 1, schedules="%s:%s" % (p["scenario"], ",".join(p["schedule"])))
    if runs is None:
        print(out[-3000:])
        return 1
    explained, _ = explain(ctx, runs, "replay")
    for ri, r in enumerate(runs):
        print("\n".join(r["trace"]))
        print("final:", r["final_res"], "hang:", r.get("hang"), "explained:", ri in explained)
        if r.get("hang") or ri not in explained:
            print("VIOLATION property=%s replay=%s" % (ctx.prop, path))
            return 1
    return 0
