"""Shared infrastructure of the checks: paths, Go/Lean invocation, audit, evidence, findings."""
import json, os, re, shutil, subprocess, sys, time, hashlib

VERIF = os.path.dirname(os.path.dirname(os.path.abspath(__file__)))
REPO = os.environ.get("VERIF_REPO", "/repo")
LEAN = os.path.join(VERIF, "lean")
BUILD = os.path.join(VERIF, "build")
EVID = os.path.join(VERIF, "evidence")
DRIVER = os.path.join(LEAN, ".lake", "build", "bin", "fsdb-driver")
ALLOWED_AXIOMS = {"propext", "Classical.choice", "Quot.sound"}
FORBIDDEN = re.compile(r"\b(sorry|admit|native_decide|bv_decide|implemented_by|unsafe)\b|^axiom |maxHeartbeats 0")

# overlay directory name -> package directory inside /repo
OVERLAYS = {
    "model_core": "internal/model/core",
    "repo_file": "internal/repository/file",
    "config": "config",
    "adapter_errors": "internal/adapter/errors",
    "iso_level": "internal/adapter/iso_level",
    "streamreader": "internal/utils/grpc/streamreader",
    "streamwriter": "internal/utils/grpc/streamwriter",
    "async": "internal/utils/async",
    "wpool": "internal/utils/wpool",
    "usecase_core": "internal/usecase/core",
    "content": "internal/repository/content",
    "inline_db": "pkg/inline/db",
    "app": "internal/app",
    "root": ".",
}


class MachineryError(Exception):
    pass


def goenv():
    e = dict(os.environ)
    e.update(GOFLAGS="-mod=mod", GOPROXY="off", GOSUMDB="off", GOTOOLCHAIN="local",
             CGO_ENABLED=e.get("CGO_ENABLED", "1"))
    return e


def sh(cmd, cwd=None, env=None, timeout=None, input=None):
    """run, return (rc, stdout+stderr)"""
    p = subprocess.run(cmd, cwd=cwd, env=env, timeout=timeout, input=input,
                       stdout=subprocess.PIPE, stderr=subprocess.STDOUT, text=True, errors="replace")
    return p.returncode, p.stdout


def rundir(prop):
    d = os.path.join(BUILD, "run-" + prop)
    shutil.rmtree(d, ignore_errors=True)
    os.makedirs(d, exist_ok=True)
    return d


def write_overlay(extra=None):
    """overlay json mapping every harness overlay file into its /repo package"""
    rep = {}
    base = os.path.join(VERIF, "harness", "overlay")
    for name, pkg in OVERLAYS.items():
        d = os.path.join(base, name)
        if not os.path.isdir(d):
            continue
        for fn in sorted(os.listdir(d)):
            if fn.endswith(".go"):
                rep[os.path.join(REPO, pkg, fn)] = os.path.join(d, fn)
    if extra:
        rep.update(extra)
    os.makedirs(BUILD, exist_ok=True)
    p = os.path.join(BUILD, "ov.json")
    with open(p, "w") as f:
        json.dump({"Replace": rep}, f, indent=1)
    return p


def go_test(pkg, run, env_extra, tags="verif", timeout=3600, race=False, extra_args=None):
    """go test of a /repo package from /repo's *current working tree* with harness files overlaid"""
    ov = write_overlay()
    env = goenv()
    env.update({k: str(v) for k, v in env_extra.items()})
    cmd = ["go", "test", "-count=1", "-vet=off", "-tags", tags, "-overlay", ov, "-run", run,
           "-timeout", "%ds" % timeout]
    if race:
        cmd.append("-race")
    cmd += [pkg]
    if extra_args:
        cmd += extra_args
    rc, out = sh(cmd, cwd=REPO, env=env, timeout=timeout + 60)
    return rc, out


# ----------------------------------------------------------------------------------------------
# Lean side

def extract():
    """regenerate lean/FsDb/Generated/*.lean from /repo's working tree (old output removed first)"""
    gen = os.path.join(LEAN, "FsDb", "Generated")
    os.makedirs(gen, exist_ok=True)
    for fn in os.listdir(gen):
        os.remove(os.path.join(gen, fn))
    rc, out = sh(["go", "run", ".", "-repo", REPO, "-out", gen], cwd=os.path.join(VERIF, "extract"),
                 env=goenv(), timeout=600)
    if rc != 0:
        raise MachineryError("extractor failed:\n" + out)
    out += lockx(gen)
    return out


LOCKX_EXPLAIN = os.path.join(BUILD, "lockx.explain.json")
LOCKX_DUMP = os.path.join(BUILD, "lockx.dump.txt")


def lockx(gen):
    """C15: regenerate the lock skeletons (Generated/Locks.lean) from /repo's working tree.
    A translator failure is not fatal for the other properties: the stub it leaves is rejected
    by the C15 obligation."""
    os.makedirs(BUILD, exist_ok=True)
    for f in (LOCKX_EXPLAIN, LOCKX_DUMP):
        if os.path.exists(f):
            os.remove(f)
    target = os.path.join(gen, "Locks.lean")
    rc, out = sh(["go", "run", ".", "-repo", REPO, "-config", "locks.json", "-out", target,
                  "-explain", LOCKX_EXPLAIN, "-dump", LOCKX_DUMP], cwd=os.path.join(VERIF, "lockx"),
                 env=goenv(), timeout=900)
    if rc != 0 or not os.path.exists(target):
        with open(target, "w") as f:
            f.write("import FsDb.Model.Lockset\n/- STUB: /verif/lockx failed on the current tree -/\n"
                    "namespace FsDb.Generated.Locks\nopen FsDb.Lockset\n"
                    "def lockNames : List String := []\ndef f0 : Stmt := .bad\ndef funcs : List Stmt := [f0]\n"
                    "def funcNames : List String := [\"lockx failed\"]\ndef notes : List String := []\n"
                    "end FsDb.Generated.Locks\n")
        with open(LOCKX_EXPLAIN, "w") as f:
            json.dump({"failing": [{"Root": "lockx", "Why": "translator failed: " + out[-1500:]}], "roots": 0, "locks": 0, "notes": []}, f)
    return out


def lake_build(targets, timeout=3000):
    rc, out = sh(["lake", "build"] + targets, cwd=LEAN, timeout=timeout)
    return rc, out


def failed_modules(lake_out):
    mods = []
    for m in re.finditer(r"^- (\S+)$", lake_out, re.M):
        mods.append(m.group(1))
    for m in re.finditer(r"^✖ \[\d+/\d+\] Building (\S+)", lake_out, re.M):
        if m.group(1) not in mods:
            mods.append(m.group(1))
    return mods


def build_driver():
    rc, out = lake_build(["fsdb-driver"])
    if rc != 0:
        raise MachineryError("driver build failed:\n" + out[-4000:])


def run_driver(ops_path, out_path, timeout=3600):
    with open(ops_path, "rb") as fi, open(out_path, "wb") as fo:
        p = subprocess.run([DRIVER], stdin=fi, stdout=fo, stderr=subprocess.PIPE, timeout=timeout)
    if p.returncode != 0:
        raise MachineryError("lean driver crashed: " + p.stderr.decode(errors="replace")[-2000:])


def theorem_names(lean_file):
    """(namespace-qualified) names of the theorems declared in a Properties/Tie file"""
    src = open(lean_file).read()
    src_nc = re.sub(r"/-.*?-/", "", src, flags=re.S)
    src_nc = re.sub(r"--.*", "", src_nc)
    ns = re.search(r"^namespace (\S+)", src_nc, re.M)
    pre = (ns.group(1) + ".") if ns else ""
    return [pre + m.group(1) for m in re.finditer(r"^theorem (\S+)", src_nc, re.M)]


def forbidden_tokens(paths):
    hits = []
    for p in paths:
        src = open(p).read()
        src_nc = re.sub(r"/-.*?-/", lambda m: "\n" * m.group(0).count("\n"), src, flags=re.S)
        for i, line in enumerate(src_nc.split("\n"), 1):
            line = re.sub(r"--.*", "", line)
            if FORBIDDEN.search(line):
                hits.append("%s:%d: %s" % (os.path.relpath(p, VERIF), i, line.strip()))
    return hits


def lean_sources():
    out = []
    for root, _, files in os.walk(os.path.join(LEAN, "FsDb")):
        for f in files:
            if f.endswith(".lean"):
                out.append(os.path.join(root, f))
    out.append(os.path.join(LEAN, "Driver.lean"))
    return sorted(out)


def audit(modules, rd):
    """`#print axioms` of every theorem of the given modules; returns list of {name, axioms}"""
    names, imports = [], []
    for mod in modules:
        path = os.path.join(LEAN, mod.replace(".", "/") + ".lean")
        imports.append("import " + mod)
        names += theorem_names(path)
    af = os.path.join(rd, "Audit.lean")
    with open(af, "w") as f:
        f.write("\n".join(imports) + "\n")
        for n in names:
            f.write("#print axioms %s\n" % n)
    rc, out = sh(["lake", "env", "lean", af], cwd=LEAN, timeout=1800)
    if rc != 0:
        raise MachineryError("audit failed:\n" + out[-3000:])
    res = {}
    flat = re.sub(r"\n\s+", " ", out)
    for line in flat.split("\n"):
        m = re.match(r"'(\S+)' depends on axioms: \[(.*)\]", line)
        if m:
            res[m.group(1)] = [a.strip() for a in m.group(2).split(",") if a.strip()]
            continue
        m = re.match(r"'(\S+)' does not depend on any axioms", line)
        if m:
            res[m.group(1)] = []
    thms, bad = [], []
    for n in names:
        if n not in res:
            raise MachineryError("audit: no axioms line for " + n + "\n" + out[-2000:])
        thms.append({"name": n, "axioms": res[n]})
        extra = [a for a in res[n] if a not in ALLOWED_AXIOMS]
        if extra:
            bad.append("%s uses %s" % (n, extra))
    tok = forbidden_tokens(lean_sources())
    if tok:
        bad += tok
    # the toolchain's independent re-checker replays the compiled modules through the kernel once more
    rc, out = sh(["lake", "env", "leanchecker"] + list(modules), cwd=LEAN, timeout=1800)
    if rc != 0:
        bad.append("leanchecker rejects %s: %s" % (modules, out.strip().split("\n")[-1][:200]))
    return thms, bad


# ----------------------------------------------------------------------------------------------
# comparison, replay, evidence, findings

def first_diff(a_path, b_path):
    """index (0-based) of the first differing line, or None; also returns line counts"""
    with open(a_path, errors="replace") as fa, open(b_path, errors="replace") as fb:
        i = 0
        while True:
            la, lb = fa.readline(), fb.readline()
            if not la and not lb:
                return None
            if la != lb:
                return i
            i += 1


def read_lines(path):
    with open(path, errors="replace") as f:
        return f.read().split("\n")


def write_replay(prop, name, payload):
    d = os.path.join(BUILD, "replays")
    os.makedirs(d, exist_ok=True)
    p = os.path.join(d, "%s-%s.json" % (prop, name))
    with open(p, "w") as f:
        json.dump(payload, f, indent=1)
    return p


def known_findings(prop):
    p = os.path.join(VERIF, "known_findings.json")
    if not os.path.exists(p):
        return []
    return [e for e in json.load(open(p)) if e.get("property") == prop and e.get("status") == "open"]


def write_evidence(prop, tier, seed, level, coverage, assumptions, wall, violations):
    os.makedirs(EVID, exist_ok=True)
    ev = {"property_id": prop, "tier": tier, "seed": seed, "level": level, "coverage": coverage,
          "assumptions": assumptions, "wall_s": round(wall, 2), "violations": violations}
    with open(os.path.join(EVID, prop + ".json"), "w") as f:
        json.dump(ev, f, indent=1)


def repo_head():
    rc, out = sh(["git", "-C", REPO, "rev-parse", "--short", "HEAD"])
    rc2, st = sh(["git", "-C", REPO, "status", "--porcelain"])
    return out.strip() + ("+dirty" if st.strip() else "")
