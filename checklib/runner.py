"""Generic pipeline: extract -> prove (+audit) -> correspond -> (search) -> findings -> evidence."""
import importlib, json, os, re, sys, time, traceback
import common as C


class Ctx:
    def __init__(self, prop, tier, seed):
        self.prop, self.tier, self.seed = prop, tier, seed
        self.rd = C.rundir(prop)
        self.thorough = tier == "thorough"
        self.broken = []          # names of broken proof obligations / ties
        self.log = []

    def note(self, s):
        self.log.append(s)
        print("[%s] %s" % (self.prop, s), flush=True)


class Violation:
    def __init__(self, name, what, replay, found_input=True, signature=None):
        self.name, self.what, self.replay, self.found_input = name, what, replay, found_input
        self.signature = signature or name


def locate_failed_theorems(lake_out):
    """map `error: FsDb/X/Y.lean:LINE:COL` to the theorem enclosing that line"""
    names = []
    for m in re.finditer(r"error: (FsDb/\S+\.lean):(\d+):\d+", lake_out):
        path, line = os.path.join(C.LEAN, m.group(1)), int(m.group(2))
        if not os.path.exists(path):
            continue
        best = None
        for i, l in enumerate(open(path).read().split("\n"), 1):
            mm = re.match(r"(theorem|def|example|instance)\s+(\S+)?", l)
            if mm and i <= line:
                best = "%s:%s" % (m.group(1), mm.group(2) or "example@%d" % i)
        if best and best not in names:
            names.append(best)
    return names


def setup():
    t0 = time.time()
    C.extract()
    rc, out = C.lake_build(["FsDb", "fsdb-driver"])
    print(out[-3000:])
    if rc != 0:
        print("setup: lake build failed")
        return 2
    print("setup ok in %.1fs" % (time.time() - t0))
    return 0


def main(argv):
    if not argv:
        print(__doc__)
        return 2
    if argv[0] == "setup":
        return setup()
    prop = argv[0].upper()
    replay = None
    tier = os.environ.get("VERIF_TIER", "quick")
    if len(argv) >= 3 and argv[1] == "--replay":
        replay = argv[2]
    elif len(argv) >= 2:
        tier = argv[1]
    seed = int(os.environ.get("VERIF_SEED", "1"))
    try:
        mod = importlib.import_module("props." + prop.lower())
    except ImportError:
        print("no check for", prop)
        return 2
    ctx = Ctx(prop, tier, seed)
    t0 = time.time()
    try:
        if replay:
            return mod.replay(ctx, replay)
        return run(ctx, mod, t0)
    except C.MachineryError as e:
        print("MACHINERY-ERROR property=%s: %s" % (prop, e))
        return 2
    except Exception:
        traceback.print_exc()
        print("MACHINERY-ERROR property=%s (exception)" % prop)
        return 2


def run(ctx, mod, t0):
    prop = ctx.prop
    # 1. regenerate facts from /repo's working tree
    C.extract()
    # 2. prove: (a) ties of the anchored functions, (b) property modules
    obligations_broken = []
    ties = list(getattr(mod, "TIES", []))
    # … and of the function sets of the packages those functions live in
    try:
        tg = json.load(open(os.path.join(C.VERIF, "extract", "targets.json")))
        where = {x["name"]: os.path.dirname(x["file"]) for x in tg if not x["func"].startswith("funcs:")}
        for t in list(ties):
            if t in where:
                pk = "pkg_" + (where[t].replace("/", "_") if where[t] else "root")
                if pk not in ties:
                    ties.append(pk)
    except Exception as e:
        raise C.MachineryError("targets.json: %s" % e)
    out = ""
    if ties:
        rc, out_t = C.lake_build(["FsDb.Tie.Skel", "FsDb.Tie.Tables"])
        if rc != 0:
            failed = C.failed_modules(out_t)
            if [m for m in failed if m not in ("FsDb.Tie.Skel", "FsDb.Tie.Tables")] or not failed:
                raise C.MachineryError("tie build failed outside FsDb.Tie.Skel:\n" + out_t[-3000:])
            broken_all = [n.split(":")[-1] for n in locate_failed_theorems(out_t)]
            mine = [n for n in broken_all if n in ["tie_" + t for t in ties]]
            if mine:
                obligations_broken += ["FsDb.Tie." + n for n in mine]
                out += out_t
    lean_modules = list(mod.LEAN_MODULES)
    rc, out_p = C.lake_build(lean_modules + ["fsdb-driver"])
    if rc != 0:
        failed = C.failed_modules(out_p)
        hard = [m for m in failed if not re.match(r"FsDb\.(Generated|Tie|Properties)\b", m)]
        if hard or not failed:
            raise C.MachineryError("lake build failed outside Generated/Tie/Properties: %s\n%s"
                                   % (hard, out_p[-3000:]))
        obligations_broken += locate_failed_theorems(out_p) or failed
        out += out_p
        C.build_driver()
    if obligations_broken:
        ctx.note("proof obligations / ties broken: %s" % obligations_broken)
        ctx.broken = obligations_broken
        with open(os.path.join(ctx.rd, "lake.log"), "w") as f:
            f.write(out)
    # 3. audit (only the modules that built)
    thms, bad = [], []
    if not obligations_broken:
        thms, bad = C.audit(lean_modules, ctx.rd)
        thms += [{"name": "FsDb.Tie.tie_" + t, "axioms": [], "kind": "tie (rfl)"} for t in ties]
        if bad:
            raise C.MachineryError("audit: " + "; ".join(bad))
    # 4. correspondence (and, after a break, the search).  Violations that are open known findings do not
    #    count as "a failing input was found" for a broken obligation: they are there on the unchanged tree too.
    known = C.known_findings(prop)
    is_known = lambda v: any(e["id"] == v.signature for e in known)
    res = mod.correspond(ctx)
    violations = list(res.get("violations", []))
    if obligations_broken and not [v for v in violations if not is_known(v)] and hasattr(mod, "search"):
        ctx.note("searching for a failing input after broken obligation")
        res2 = mod.search(ctx)
        seen = set(v.signature for v in violations)
        violations += [v for v in res2.get("violations", []) if v.signature not in seen]
        res.setdefault("coverage", {})["search"] = res2.get("coverage", {})
    if obligations_broken and not [v for v in violations if not is_known(v)]:
        payload = {"property": prop, "kind": "broken-obligation", "no_failing_input_found": True,
                   "broken": obligations_broken, "lake_log_tail": out[-6000:],
                   "repo": C.repo_head(), "tier": ctx.tier, "seed": ctx.seed}
        rp = C.write_replay(prop, "obligation", payload)
        violations.append(Violation("obligation", "theorem/tie no longer checks: %s" % obligations_broken,
                                    rp, found_input=False))
    # 5. known findings
    reported, matched = [], []
    for v in violations:
        if is_known(v):
            matched.append(v)
        else:
            reported.append(v)
    for v in matched:
        print("KNOWN-FINDING: property=%s %s" % (prop, v.what))
    # 6. evidence
    cov = res.get("coverage", {})
    n_obl = len(thms) if thms else len(obligations_broken) + 1
    cov.setdefault("obligations", n_obl + len(cov.get("ties", [])) * 0)
    cov.setdefault("discharged", len(thms) if not obligations_broken else 0)
    cov.setdefault("checker_cmd", "cd lean && lake build " + " ".join(lean_modules)
                   + "  # + `#print axioms` audit of every theorem, forbidden-token grep")
    cov.setdefault("trusted_base", mod.TRUSTED_BASE)
    cov["theorems"] = thms
    cov["broken_obligations"] = obligations_broken
    cov["known_findings_matched"] = [v.signature for v in matched]
    cov["repo"] = C.repo_head()
    C.write_evidence(prop, ctx.tier, ctx.seed, mod.LEVEL, cov, mod.ASSUMPTIONS,
                     time.time() - t0, len(reported))
    for v in reported:
        tail = "" if v.found_input else " no-failing-input-found"
        print("VIOLATION property=%s replay=%s%s" % (prop, v.replay, tail))
        print("  what: " + v.what)
    if reported:
        return 1
    print("[%s] ok: %d theorems audited, %s" % (prop, len(thms), cov.get("summary", "")))
    return 0
