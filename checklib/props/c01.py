"""C01 — sequential-history correspondence + theorems (see DESIGN.md §9 C01)."""
import seqprop

LEVEL = "proof"
LEAN_MODULES = ["FsDb.Properties.C01"]
TIES = seqprop.SEQ_TIES
TRUSTED_BASE = seqprop.SEQ_TRUSTED
ASSUMPTIONS = ["operations are issued one at a time (the property quantifies over sequential histories)",
               "fault-free storage"]
PROFILE = "c01"
QUICK, THOROUGH = 60, 1500
WHAT = 'C01 autocommit histories (Set/SetReader/Create/Delete/Get/GetReader/GetKeys; contents around 2048/32768 boundaries)'
NEED = ['v:', 'e:NotFound', 'e:EmptyKey', 'keys:']
CORPUS = None


def correspond(ctx):
    return seqprop.correspond(ctx, "C01", PROFILE, QUICK, THOROUGH, WHAT, need_answers=NEED, corpus=CORPUS)


def search(ctx):
    ctx.thorough = True
    return correspond(ctx)


def replay(ctx, path):
    return seqprop.replay(ctx, path, PROFILE)
