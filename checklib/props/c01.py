"""C01 — sequential-history correspondence + theorems (see DESIGN.md §9 C01)."""
import json, os
import common as C
import seqprop
from runner import Violation

LEVEL = "proof"
LEAN_MODULES = ["FsDb.Properties.C01"]
TIES = seqprop.SEQ_TIES
TRUSTED_BASE = seqprop.SEQ_TRUSTED
ASSUMPTIONS = ["operations are issued one at a time (the property quantifies over sequential histories)",
               "fault-free storage"]
PROFILE = "c01"
QUICK, THOROUGH = 60, 1500
WHAT = 'C01 autocommit histories (Set/SetReader/Create/Delete/Get/GetReader/GetKeys; contents around 2048/32768 boundaries)'
NEED = ['v:', 'e:NotFound', 'e:EmptyKey', 'keys:']
CORPUS = None


def held_readers(ctx):
    """a reader obtained from GetReader and drained late (after overwrite / delete + collector + cleanup)"""
    rc, out = C.go_test("./pkg/inline/db", "TestVerifHeldReader", {"VERIF_OUT": ctx.rd}, timeout=1200)
    p = os.path.join(ctx.rd, "heldreader.json")
    if rc != 0 or not os.path.exists(p):
        rp = C.write_replay("C01", "heldreader-failed", {"property": "C01", "kind": "impl-run-failed", "go_test_output": out[-6000:]})
        return [Violation("impl-run-failed", "the held-reader scenario failed to run: " + out.strip().split("\n")[-1][:160], rp)], 0
    d = json.load(open(p))
    v = []
    if d.get("bad"):
        rp = C.write_replay("C01", "heldreader", {"property": "C01", "kind": "held-reader", "observed": d["bad"][:10],
                            "replay_env": "VERIF_OUT=<dir> go test -tags verif -run TestVerifHeldReader ./pkg/inline/db"})
        v.append(Violation("c01-held-reader", "a reader obtained from GetReader did not deliver the value the key had when it was obtained: " + d["bad"][0], rp))
    return v, d.get("cases", 0)


def correspond(ctx):
    res = seqprop.correspond(ctx, "C01", PROFILE, QUICK, THOROUGH, WHAT, need_answers=NEED, corpus=CORPUS)
    v, n = held_readers(ctx)
    res["violations"] = list(res.get("violations", [])) + v
    res.setdefault("coverage", {})["held_reader_cases"] = n
    return res


def search(ctx):
    ctx.thorough = True
    return correspond(ctx)


def replay(ctx, path):
    return seqprop.replay(ctx, path, PROFILE)
