"""C04 — a crash at any point loses nothing acknowledged and exposes nothing uncommitted."""
import json, os, subprocess
import common as C
import seqprop
from runner import Violation

LEVEL = "proof"
LEAN_MODULES = ["FsDb.Properties.C04"]
TIES = ["store_Set", "store_Delete", "core_Store", "core_UpdateTx", "core_Load", "cleaner_deleteFile", "cleaner_DeleteFiles",
        "badger_Set", "badger_Delete", "badger_RunTransaction", "content_Store", "inline_New", "inline_Close", "app_New",
        "repo_file_Set", "repo_cf_Store", "repo_cf_Delete", "repo_file_Delete"]
TRUSTED_BASE = [
    "Lean 4.33.0 kernel for the theorems listed (C04_crash_cut: every cut of every operation's persistent-mutation sequence recovers to the acknowledged state or that plus the whole operation in flight, on the concrete model); for the enumeration on the real code the allowed post-crash states are computed by the Lean specification (Spec.Iso through the driver): the state after the acknowledged operations, or that plus the operation in flight, then `reopen` in a fresh process",
    "crash = SIGKILL of the process immediately before its n-th persistent mutation (verif hook Mut at mkdir/create/write/close/remove/Badger set/delete/batch); power loss is out of scope (the property says 'the process is killed')",
    "Badger: a committed Update survives process kill, an uncommitted one leaves nothing (trusted, exercised)",
    "the ORDER and granularity of persistent mutations is modelled (Proofs/Crash.lean, Model/Persist.lean) and tied three ways: skeleton texts, the per-content-id lifecycle of the observed mutation traces judged by the Lean model (driver `life`), and the crash enumeration itself",
    "tie: skeleton texts of store.Set/Delete, core.Store, UpdateTx (one RunTransaction), Load, deleteFile, the Badger manager, content.Store",
]
ASSUMPTIONS = ["process kill, not power loss", "the OS keeps written file data across a process kill"]


def spec_states(ctx, cands):
    """cands: list of (ops list); returns list of observer outputs per candidate"""
    ops_p = os.path.join(ctx.rd, "c04.spec.ops")
    spans = []
    with open(ops_p, "w") as f:
        line = 0
        for ops, keys in cands:
            lines = ["sys new 1"] + ["sys " + o for o in ops] + ["sys reopen 1"] + ["sys g 0 %s" % k for k in keys] + ["sys k 0"]
            f.write("\n".join(lines) + "\n")
            spans.append((line + 1 + len(ops) + 1, len(keys) + 1))
            line += len(lines)
    out_p = os.path.join(ctx.rd, "c04.spec.out")
    with open(ops_p, "rb") as fi, open(out_p, "wb") as fo:
        subprocess.run([C.DRIVER], stdin=fi, stdout=fo, stderr=subprocess.PIPE)
    both = C.read_lines(out_p)
    return [[b.split("\t")[1] if "\t" in b else b for b in both[st:st + n]] for st, n in spans]


def short(state):
    """a recovered / allowed state for the VIOLATION line (the replay file has it in full)"""
    out = []
    for x in state:
        if x.startswith("keys:") and len(x) > 120:
            ks = x[5:].split(",")
            x = "keys:(%d keys: %s,…,%s)" % (len(ks), ks[0], ks[-1])
        out.append(x)
    return out


def correspond(ctx):
    nw = 12 if ctx.thorough else 2
    rc, out = C.go_test("./pkg/inline/db", "TestVerifC04$", {"VERIF_OUT": ctx.rd, "VERIF_SEED": ctx.seed, "VERIF_WORKLOADS": nw,
                                                              "VERIF_TIER": ctx.tier, "VERIF_C04_BIGTX": 1600 if ctx.thorough else 1200}, timeout=6000)
    sp = os.path.join(ctx.rd, "c04.stats.json")
    if rc != 0 or not os.path.exists(sp):
        rp = C.write_replay("C04", "harness-failure", {"property": "C04", "kind": "impl-run-failed", "go_test_output": out[-6000:]})
        return {"violations": [Violation("impl-run-failed", "crash enumeration failed to run: " + out.strip().split("\n")[-1][:200], rp)], "coverage": {"evaluations": 0}}
    stats = json.load(open(sp))
    keys = stats["keys"]
    cuts = [json.loads(l) for l in open(os.path.join(ctx.rd, "c04.cuts.jsonl")) if l.strip()]
    cands = []
    for c in cuts:
        acked = [a.split(" => ")[0] for a in (c["acked"] or [])]
        cands.append((acked, keys))
        cands.append((acked + ([c["inflight"]] if c["inflight"] else []), keys))
    states = spec_states(ctx, cands)
    violations, kinds = [], {}
    for i, c in enumerate(cuts):
        sa, sb = states[2 * i], states[2 * i + 1]
        st = c.get("state") or []
        if not st and not c.get("err"):
            # neither a state nor an error: the recovering child process never ran (not a verdict about the code)
            raise C.MachineryError("crash enumeration: the recovering process of workload %s cut %s produced nothing (even after retries)" % (c.get("workload"), c.get("cut")))
        why = None
        if c.get("err"):
            why = "reopen-failed"
        elif st != sa and st != sb:
            why = "state"
        elif (c.get("state2") or []) != st:
            why = "second-reopen-differs"
        k = "inflight-visible" if (st == sb and sb != sa) else ("inflight-absent" if sb != sa else "no-inflight-effect")
        kinds[k] = kinds.get(k, 0) + 1
        if why and why not in [v.signature for v in violations]:
            payload = {"property": "C04", "kind": "crash-cut", "why": why, "workload_ops": stats["workloads"][c["workload"]]["ops"],
                       "cut_before_mutation": c["cut"], "recovery_cut": c.get("recovery_cut", 0), "acked": c["acked"], "inflight": c["inflight"],
                       "recovered_state": st, "second_reopen": c.get("state2"), "allowed_without_inflight": sa, "allowed_with_inflight": sb,
                       "observers": ["g 0 " + k for k in keys] + ["k 0"], "err": c.get("err", ""), "seed": ctx.seed}
            rp = C.write_replay("C04", why, payload)
            violations.append(Violation(why, "workload %d killed before mutation %d%s: recovered state %s is neither the acknowledged state %s nor that plus the in-flight `%s` %s%s"
                                        % (c["workload"], c["cut"], (" (recovery killed before its mutation %d)" % c["recovery_cut"]) if c.get("recovery_cut") else "",
                                           short(st), short(sa), c["inflight"], short(sb), (" — reopen error: " + c["err"]) if c.get("err") else ""), rp))
    life = lifecycles(ctx, len(stats["workloads"]))
    for wl, cid, seq in life["bad"][:1]:
        rp = C.write_replay("C04", "mutation-order", {"property": "C04", "kind": "mutation-order", "workload_ops": stats["workloads"][wl]["ops"],
                            "content_id": cid, "observed_mutations": seq,
                            "modelled_order": "file cf rec rec* rm delcf delrec | rec rec* (tombstone)", "seed": ctx.seed})
        violations.append(Violation("mutation-order", "workload %d: the persistent mutations of content %s came in the order `%s`, which the crash-point model (Persist.ok) does not allow: a crash between them can expose a partial content or lose a live one"
                                    % (wl, cid[:8], " ".join(seq)), rp, found_input=True))
    nontriv = sum(1 for c in cuts if c["acked"])
    cov = {"evaluations": len(cuts), "distinct_nontrivial": nontriv,
           "rule": "every cut point of %d workloads (14-27 autocommit and transactional ops each incl. Create/SetReader, collector passes; the last workload is ONE transaction writing 1200/1600 new keys + a delete, of which the cuts around its commit and a sample of earlier ones are taken): SIGKILL before the n-th persistent mutation for EVERY n, reopen in a fresh process, dump Get of all keys + GetKeys, reopen again%s; distinct = (workload, cut[, recovery cut]); non-trivial = at least one operation had been acknowledged" % (
               len(stats["workloads"]), "; thorough: the recovery itself is killed before each of ITS mutations and recovered again" if ctx.thorough else ""),
           "exhaustive": True, "traces_validated_against_impl": len(cuts),
           "distribution": {"cuts_by_inflight_outcome": kinds, "mutations_per_workload": [w["mutations"] for w in stats["workloads"]],
                            "content_lifecycles_checked": life["checked"], "lifecycle_shapes": life["shapes"]},
           "samples": [{"ops": stats["workloads"][0]["ops"], "cut": cuts[len(cuts) // 2]["cut"], "acked": cuts[len(cuts) // 2]["acked"],
                        "inflight": cuts[len(cuts) // 2]["inflight"], "state": cuts[len(cuts) // 2]["state"]}],
           "summary": "%d crash points: every recovered state allowed (%s)" % (len(cuts), kinds)}
    return {"violations": violations, "coverage": cov}


KIND = {"bset-cf": "cf", "bset-rec": "rec", "remove": "rm", "bdel-cf": "delcf", "bdel-rec": "delrec"}


def lifecycles(ctx, nw):
    """per content id, the order of its persistent mutations in the uninterrupted run of every workload,
    judged by the Lean model of the order (Persist.ok, driver command `life`)"""
    seqs = []
    for w in range(nw):
        p = os.path.join(ctx.rd, "c04.muts.%d" % w)
        if not os.path.exists(p):
            raise C.MachineryError("no mutation log for workload %d" % w)
        per = {}
        for line in C.read_lines(p):
            f = line.split()
            if len(f) < 3 or f[2] == "-":
                continue
            kind, cid = f[1], f[2]
            ks = per.setdefault(cid, [])
            if kind in ("create", "write"):
                continue                      # the file counts when it is complete (closed)
            if kind == "close":
                ks.append("file")
            elif kind in KIND:
                ks.append(KIND[kind])
        for cid, ks in per.items():
            if ks:
                seqs.append((w, cid, ks))
    ops_p, out_p = os.path.join(ctx.rd, "c04.life.ops"), os.path.join(ctx.rd, "c04.life.out")
    with open(ops_p, "w") as f:
        for _, _, ks in seqs:
            f.write("life " + " ".join(ks) + "\n")
    C.run_driver(ops_p, out_p)
    ans = [l for l in C.read_lines(out_p)]
    bad, shapes = [], {}
    for (w, cid, ks), a in zip(seqs, ans):
        shapes[" ".join(ks)] = shapes.get(" ".join(ks), 0) + 1
        if a != "ok":
            bad.append((w, cid, ks))
    if not seqs:
        raise C.MachineryError("no content lifecycles observed")
    return {"checked": len(seqs), "bad": bad, "shapes": shapes}


def search(ctx):
    ctx.thorough = True
    ctx.tier = "thorough"
    return correspond(ctx)


def replay(ctx, path):
    print(json.dumps(json.load(open(path)), indent=1)[:6000])
    return 0
