"""C05 — reopening preserves the committed state; later writes keep winning; several DBs per process."""
import json, os, subprocess
import common as C
import seqprop
from runner import Violation

LEVEL = "proof"
LEAN_MODULES = ["FsDb.Properties.C05"]
TIES = ["core_Load", "seq_Set", "seq_Next", "inline_New", "inline_Close", "repo_file_GetAll", "codec_unmarshalFile",
        "dirrepo_New", "app_New", "app_Stop", "core_Store", "core_storeToTx", "core_UpdateTx", "core_DeleteTx", "tx_Commit",
        "tx_Rollback", "tx_Begin", "repo_file_Set", "badger_RunTransaction", "badger_Set", "cleaner_deleteFile"]
TRUSTED_BASE = seqprop.SEQ_TRUSTED + ["multi-database process model: the driver threads one process-global counter through all databases (Driver/Main.lean stepMdb); each segment between restarts runs in a fresh OS process"]
ASSUMPTIONS = ["clean Close before Open (crashes are C04)", "fault-free storage"]


def correspond(ctx):
    nh = 300 if ctx.thorough else 25
    rc, out = C.go_test("./pkg/inline/db", "TestVerifC05$", {"VERIF_OUT": ctx.rd, "VERIF_SEED": ctx.seed, "VERIF_HISTORIES": nh}, timeout=3000)
    pfx = os.path.join(ctx.rd, "c05")
    if rc != 0 or not os.path.exists(pfx + ".stats.json"):
        rp = C.write_replay("C05", "harness-failure", {"property": "C05", "kind": "impl-run-failed", "go_test_output": out[-6000:]})
        return {"violations": [Violation("impl-run-failed", "multi-database histories failed to run: " + out.strip().split("\n")[-1][:200], rp)], "coverage": {"evaluations": 0}}
    with open(pfx + ".both", "wb") as fo, open(pfx + ".ops", "rb") as fi:
        p = subprocess.run([C.DRIVER], stdin=fi, stdout=fo, stderr=subprocess.PIPE)
        if p.returncode != 0:
            raise C.MachineryError("driver crashed")
    ops, impl, both = C.read_lines(pfx + ".ops"), C.read_lines(pfx + ".impl"), C.read_lines(pfx + ".both")
    model = [b.split("\t")[0] for b in both]
    spec = [b.split("\t")[1] if "\t" in b else "" for b in both]
    stats = json.load(open(pfx + ".stats.json"))
    violations = []
    i, kind = seqprop.first_bad(ops, impl, model, spec)
    if i is not None:
        starts = [j for j, l in enumerate(ops) if l == "mdb new"]
        st = max(s for s in starts if s <= i)
        hist = ops[st + 1:i + 1]
        payload = {"property": "C05", "kind": "mdb-history", "differs_from": kind, "failed_op": ops[i], "impl": impl[i],
                   "model": model[i], "spec": spec[i], "history": hist, "impl_out": impl[st + 1:i + 1], "spec_out": spec[st + 1:i + 1],
                   "seed": ctx.seed, "repo": C.repo_head()}
        rp = C.write_replay("C05", "history", payload)
        if kind == "spec":
            violations.append(Violation("c05-history", "multi-database history of %d ops: `%s` answered `%s`, the specification (committed state survives reopen, later writes win) says `%s`"
                                        % (len(hist), ops[i], impl[i][:60], spec[i][:60]), rp))
        else:
            violations.append(Violation("c05-model-tie", "real database and concrete model disagree on `%s` (impl `%s`, model `%s`)" % (ops[i], impl[i][:60], model[i][:60]), rp, found_input=False))
    cov = {"evaluations": stats["lines"], "distinct_nontrivial": stats["histories"],
           "rule": "histories over 1-3 databases (autocommit and transactional Set/Delete of all four levels, Commit/Rollback, gc, Close/Open at random positions also with transactions open, process restarts = fresh OS processes), observer reads after every step; the witness of the repaired counter defect runs first; non-trivial = every history (each has >= 1 restart and >= 1 reopen)",
           "traces_validated_against_impl": stats["lines"], "distribution": stats,
           "samples": [{"history_prefix": ops[:25], "impl": impl[:25]}],
           "summary": "%d histories / %d lines / %d process restarts: impl = model = spec" % (stats["histories"], stats["lines"], stats["restarts"])}
    return {"violations": violations, "coverage": cov}


def search(ctx):
    ctx.thorough = True
    return correspond(ctx)


def replay(ctx, path):
    print(json.dumps(json.load(open(path)), indent=1)[:5000])
    return 0
