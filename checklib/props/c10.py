"""C10 — a failed or aborted write leaves no trace; no-space continuation is exact."""
import json, os
import common as C
from runner import Violation

LEVEL = "proof"
LEAN_MODULES = ["FsDb.Properties.C10"]
TIES = ["content_Store", "content_bufWriter_Write", "model_NotEnoughSpace_Reader", "store_Set", "streamreader_Read",
        "streamwriter_Write", "streamwriter_Close", "grpc_SetFile", "external_SetReader", "external_Create",
        "inline_SetReader", "inline_Create", "model_Dirs_Iterate", "core_Store"]
TRUSTED_BASE = [
    "Lean 4.33.0 kernel; axioms per theorem under coverage.theorems",
    "model FsDb/Model/Copy.lean: a root accepts the first `cap` bytes (partial or whole-chunk granularity), io.Copy chunking; the order store.Set writes content / content record / version is part of FsDb/Model/Sys.lean",
    "the stages of a failing store.Set (nothing persistent / content file / content file + fileContent record) and what each leaves behind are modelled (Properties/C10.lean setFailed); which stage a concrete fault reaches is observed, not proved",
    "fault injection on the real code through the verif hooks FaultWrite (ENOSPC after k bytes of a file) and DiskFree (reported free space per root); 'connection breaks' is injected as context cancellation / source reader error, not as a TCP reset",
    "tie: skeleton texts of content.Store, bufWriter.Write, NotEnoughSpaceError.Reader, store.Set, streamreader.Read, streamwriter, SetFile handler, external SetReader/Create, inline SetReader/Create",
]
ASSUMPTIONS = ["write(2) stores a prefix of the buffer on ENOSPC", "gRPC surfaces a cancelled/broken stream as a non-EOF Recv error"]


def allowed_nospace(f):
    # c10 nospace <nroots> <len> <c1> <c2> <partial> <lastHasRoom>
    nroots, ln, c1, c2 = int(f[2]), int(f[3]), int(f[4]), int(f[5])
    last_room = f[7] == "true"
    if last_room:
        return {"ok new"}
    caps = [c1] + ([c2] if nroots == 3 else []) + [ln // 2]
    if any(c >= ln for c in caps):
        return {"ok new", "e:NoFreeSpace old"}     # depends on the (random) order the roots are tried in
    return {"e:NoFreeSpace old"}


def correspond(ctx):
    violations, total, dist = [], 0, {}
    # (a) gRPC: reader error / context cancellation at every chunk boundary
    rc, out = C.go_test("./internal/app", "TestVerifC10Grpc", {"VERIF_OUT": ctx.rd, "VERIF_TIER": ctx.tier}, timeout=3000)
    p = os.path.join(ctx.rd, "c10g")
    if rc != 0 or not os.path.exists(p + ".stats.json"):
        rp = C.write_replay("C10", "grpc-run-failed", {"property": "C10", "kind": "impl-run-failed", "output": out[-6000:]})
        violations.append(Violation("c10-grpc-run-failed", "gRPC fault injection failed to run: " + out.strip().split("\n")[-1][:160], rp))
    else:
        ops, impl = C.read_lines(p + ".ops"), C.read_lines(p + ".impl")
        for o, r in zip(ops, impl):
            if not o:
                continue
            total += 1
            dist[r.split("(")[0]] = dist.get(r.split("(")[0], 0) + 1
            if r != "err old" and not any(v.signature == "c10-grpc-trace" for v in violations):
                rp = C.write_replay("C10", "grpc-fault", {"property": "C10", "kind": "fault", "case": o, "observed": r, "expected": "err old"})
                violations.append(Violation("c10-grpc-trace", "upload through the gRPC client with fault `%s`: writer got `%s`, the key then read `%s` (expected: an error and the old value)"
                                            % (o, r.split()[0], " ".join(r.split()[1:])), rp))
    # (c) the metadata store refuses a write at stage 2 / stage 3 of store.Set, or a Commit's batch
    rc, out = C.go_test("./pkg/inline/db", "TestVerifC10Meta", {"VERIF_OUT": ctx.rd}, timeout=1200)
    mp = os.path.join(ctx.rd, "c10meta.json")
    if rc != 0 or not os.path.exists(mp):
        rp = C.write_replay("C10", "meta-run-failed", {"property": "C10", "kind": "impl-run-failed", "output": out[-6000:]})
        violations.append(Violation("c10-meta-run-failed", "metadata fault injection failed to run: " + out.strip().split("\n")[-1][:160], rp))
    else:
        md = json.load(open(mp))
        total += md.get("cases", 0)
        dist["metadata-fault cases"] = md.get("cases", 0)
        if md.get("bad"):
            rp = C.write_replay("C10", "meta-fault", {"property": "C10", "kind": "metadata-fault", "observed": md["bad"][:12],
                                "replay_env": "VERIF_OUT=<dir> go test -tags verif -run TestVerifC10Meta ./pkg/inline/db"})
            violations.append(Violation("c10-meta-trace", "a write whose metadata write was refused left a trace: " + md["bad"][0][:400], rp))
    # (b) inline: reader errors and ENOSPC with continuation
    rc, out = C.go_test("./pkg/inline/db", "TestVerifC10Inline", {"VERIF_OUT": ctx.rd, "VERIF_TIER": ctx.tier}, timeout=3000)
    p = os.path.join(ctx.rd, "c10i")
    if rc != 0 or not os.path.exists(p + ".stats.json"):
        rp = C.write_replay("C10", "inline-run-failed", {"property": "C10", "kind": "impl-run-failed", "output": out[-6000:]})
        violations.append(Violation("c10-inline-run-failed", "inline fault injection failed to run: " + out.strip().split("\n")[-1][:160], rp))
    else:
        ops, impl = C.read_lines(p + ".ops"), C.read_lines(p + ".impl")
        for o, r in zip(ops, impl):
            if not o:
                continue
            total += 1
            dist[r.split("(")[0]] = dist.get(r.split("(")[0], 0) + 1
            f = o.split()
            allowed = {"err old"} if f[1] == "readerr" else ({"err old", "ok new"} if f[1] == "createcancel" else allowed_nospace(f))
            if r not in allowed and not any(v.signature == "c10-inline-" + f[1] for v in violations):
                rp = C.write_replay("C10", "inline-" + f[1], {"property": "C10", "kind": "fault", "case": o, "observed": r, "allowed": sorted(allowed),
                                    "legend": "c10 nospace <roots> <content length> <capacity of root 1> <capacity of root 2> <partial write> <root with most free space has room>"})
                violations.append(Violation("c10-inline-" + f[1], "inline write with fault `%s`: observed `%s`, allowed %s" % (o, r, sorted(allowed)), rp))
    cov = {"evaluations": total, "distinct_nontrivial": total,
           "rule": "every line is a distinct (content length, fault position / capacities, fault kind, entry point) case; gRPC: lengths {1,2049,5000,32769,102400,…} x positions {0,1,len/2,len-1, chunk boundaries ±1} x {reader error, context cancel}; inline: reader errors at {0,1,len/2,len-1,32767,32768} and ENOSPC on 2-3 roots with capacities {0,1,50,32767,32768,32769,40000,70000} x {partial, all-or-nothing} x {largest root has room or not} through Set/SetReader/Create; Create whose caller context is cancelled after k bytes (the rest still written, then Close): error + old value or nil + whole content, and no Get in between reads a part",
           "traces_validated_against_impl": total, "distribution": dist,
           "samples": [{"case": "c10 nospace 2 100000 32768 0 true true", "expected": "ok new"}],
           "summary": "%d fault cases: %s" % (total, dist)}
    return {"violations": violations, "coverage": cov}


def search(ctx):
    ctx.tier = "thorough"
    ctx.thorough = True
    return correspond(ctx)


def replay(ctx, path):
    print(json.dumps(json.load(open(path)), indent=1)[:4000])
    return 0
