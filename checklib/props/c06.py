"""C06 — enforced schedules on the real database, linearizability against the Lean spec; theorems in Properties/C06."""
import concprop, seqprop

LEVEL = "proof"
LEAN_MODULES = ["FsDb.Properties.C06"]
TIES = seqprop.SEQ_TIES
TRUSTED_BASE = seqprop.SEQ_TRUSTED + [
    "small-step model FsDb/Model/Conc.lean (hand-written): one step = one critical section under a lock of usecase/core or the registry / one Badger access / one file operation; Commit/Rollback are two steps (txRepo.Delete, then UpdateTx/DeleteTx; in between the collector's horizon ignores the transaction); two contractions (in-flight content under a private id; Begin's draw + registration one step, both under the horizon mutex); the registry record of a transaction inside Commit stays in the model state as a ghost; one goroutine per transaction; Go sync primitives as in DESIGN §6 (modelled)",
    "tie of the step granularity: skeleton texts, linearizability of every enforced run against Spec.Iso, step-by-step replay of every enforced run in the small-step model (hook points = program counters; the uncontrolled worker pool is placed by search), free-running stress with specification-derived oracles",
    "hook scheduler (harness/overlay/inline_db/zz_verif_conc_test.go): schedules are enforced only at the verif hook points and operation boundaries; windows without a hook are reached by the stress only",
]
ASSUMPTIONS = ["each transaction is used by one goroutine at a time", "fault-free storage"]
PROFILE = "c06"
QUICK, THOROUGH = 60, 600
WHAT = 'C06: autocommit/RU/RC operations, GC and rollback interleaved at hook points; answers vs linearizations under Spec.Iso'
WITNESSES = "read-vs-overwrite-gc:R,R,R,W,G,G,G,R;ru-read-vs-rollback:W,R,W,R,W,W,R,R"


def correspond(ctx):
    return concprop.correspond(ctx, "C06", PROFILE, QUICK, THOROUGH, WHAT, witnesses=WITNESSES)


def search(ctx):
    ctx.thorough = True
    return correspond(ctx)


def replay(ctx, path):
    return concprop.replay(ctx, path, PROFILE)
