"""C09 — sequential-history correspondence + theorems (see DESIGN.md §9 C09)."""
import seqprop

LEVEL = "proof"
LEAN_MODULES = ["FsDb.Properties.C09"]
TIES = seqprop.SEQ_TIES
TRUSTED_BASE = seqprop.SEQ_TRUSTED
ASSUMPTIONS = ["operations are issued one at a time (the property quantifies over sequential histories)",
               "fault-free storage"]
PROFILE = "c09"
QUICK, THOROUGH = 40, 1500
WHAT = 'C09 histories with gc + drain before every op (twin of the gc-free history through the spec, which ignores gc)'
NEED = ['v:', 'keys:']
CORPUS = None


def correspond(ctx):
    return seqprop.correspond(ctx, "C09", PROFILE, QUICK, THOROUGH, WHAT, need_answers=NEED, corpus=CORPUS)


def search(ctx):
    ctx.thorough = True
    return correspond(ctx)


def replay(ctx, path):
    return seqprop.replay(ctx, path, PROFILE)
