"""C09 — sequential-history correspondence + theorems (see DESIGN.md §9 C09)."""
import seqprop, concprop

LEVEL = "proof"
LEAN_MODULES = ["FsDb.Properties.C09"]
TIES = seqprop.SEQ_TIES
TRUSTED_BASE = seqprop.SEQ_TRUSTED
ASSUMPTIONS = ["the theorems quantify over histories of atomic steps (collector passes at any position); collector passes running CONCURRENTLY with Begin / reads / overwrites are covered by the small-step theorem of C06 and exercised here by a free-running stress",
               "fault-free storage"]
PROFILE = "c09"
QUICK, THOROUGH = 40, 1500
WHAT = 'C09 histories with gc + drain before every op (twin of the gc-free history through the spec, which ignores gc)'
NEED = ['v:', 'keys:']
CORPUS = None


def correspond(ctx):
    res = seqprop.correspond(ctx, "C09", PROFILE, QUICK, THOROUGH, WHAT, need_answers=NEED, corpus=CORPUS)
    sv, scov = concprop.stress(ctx, "C09")
    res["violations"] = list(res.get("violations", [])) + sv
    res.setdefault("coverage", {})["stress"] = scov
    return res


def search(ctx):
    ctx.thorough = True
    return correspond(ctx)


def replay(ctx, path):
    return seqprop.replay(ctx, path, PROFILE)
