"""C17 — content files live in bounded sub-directories of the configured roots."""
import json, os
import common as C
import corr
from runner import Violation

LEVEL = "proof"
LEAN_MODULES = ["FsDb.Properties.C17"]
TIES = ["diruc_Get", "dirrepo_New", "dirrepo_Get", "dirrepo_Create", "dirrepo_Add", "dirrepo_Remove", "dirrepo_GetRoots",
        "model_ParseDir", "model_Dir_Path", "model_Dirs_Iterate", "store_Set", "cleaner_deleteFile", "config_Storage_Valid", "config_constants"]
TRUSTED_BASE = [
    "Lean 4.33.0 kernel; axioms per theorem under coverage.theorems",
    "model FsDb/Model/Dir.lean: a directory = (entry count, registered?); directories are interchangeable (uuid names); the random choice among candidates is an INPUT of the model (the observed choice must be a legal candidate)",
    "tie: skeleton texts of dir.Get, dir.Repo.{New,Get,Create,Add,Remove,GetRoots}, ParseDir, Dirs.Iterate, store.Set, deleteFile, Storage.Valid + generated minDirCount; walk of the real storage roots after every operation",
]
ASSUMPTIONS = ["operations are issued one at a time", "nobody else writes into the storage roots"]


def correspond(ctx):
    v, stats, samples, _ = corr.line_corr(ctx, "C17", "./pkg/inline/db", "TestVerifC17$", "c17",
                                          env={"VERIF_HISTORIES": 12 if ctx.thorough else 3},
                                          what="C17 dir: walk of the real storage roots (placement + per-directory entry counts) vs Lean Dir model; observed directory choices must be legal candidates")
    n = stats.get("lines", 0)
    for what in (stats.get("reuse_bad") or [])[:1]:
        rp = C.write_replay("C17", "reuse", {"property": "C17", "kind": "reuse-scenario", "observed": stats.get("reuse_bad"),
                            "scenario": "1 root, limit 100: 101 Sets (the first directory fills, a second one is created), 60 Deletes of keys of the first + collector + drain, 40 Sets; the first directory must receive some of them (probability of a false alarm 2^-40); dropped-root: 2 roots, 60 Sets, reopen with the first root only, 60 Deletes + collector + drain, 60 Sets: none may land under the dropped root"})
        pre = ("content stored outside the configured roots: " if what.startswith("dropped root")
               else "a directory that regained room through deletions is not used again: ")
        v.append(Violation("c17-reuse", pre + what, rp))
    if not v and stats.get("max_entries_seen", 0) < 100:
        raise C.MachineryError("degenerate C17 run: no directory reached the limit (max entries seen %s)" % stats.get("max_entries_seen"))
    cov = {"evaluations": n, "distinct_nontrivial": stats.get("histories", 0) + stats.get("new_dirs", 0),
           "rule": "histories of 300-980 steps (90% tiny writes, 6% delete-batch + collect + drain, 4% reopen) over 1-3 roots with the directory limit 100; after every step the roots are walked and the differences become model ops; non-trivial counts histories plus directories created by rotation (a run in which no directory reaches the limit is rejected as degenerate)",
           "traces_validated_against_impl": n, "distribution": stats, "samples": samples,
           "summary": "%d walk/model lines agree; %d directories created, fullest directory %d entries" % (n, stats.get("new_dirs", 0), stats.get("max_entries_seen", 0))}
    return {"violations": v, "coverage": cov}


def search(ctx):
    ctx.thorough = True
    return correspond(ctx)


def replay(ctx, path):
    return corr.replay_script(ctx, path)
