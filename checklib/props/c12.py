"""C12 — created file = concatenation of writes; Close always returns."""
import json, os
import common as C
from runner import Violation

LEVEL = "proof"
LEAN_MODULES = ["FsDb.Properties.C12"]
TIES = ["async_Read", "async_Write", "async_Close", "async_SetError", "async_checkErr", "async_NewReadWriter",
        "inline_Create", "streamwriter_Write", "streamwriter_Close", "external_Create"]
TRUSTED_BASE = [
    "Lean 4.33.0 kernel; axioms per theorem under coverage.theorems",
    "model FsDb/Model/Async.lean: small-step semantics of sync.Mutex / sync.Cond (ticket taken under the lock, Signal/Broadcast wake only enqueued waiters, no spurious wake-ups) / WaitGroup / atomic flag (modelled, DESIGN §6); bytes.Buffer as a byte list; read size = min(cap, available)",
    "tie: skeleton texts of readWriter.{Read,Write,Close,SetError,checkErr}, inline Create, streamwriter, external Create; enforced schedules on the real readWriter (hook points rd.beforeWait, cl.start + operation boundaries)",
    "liveness is a theorem of the model (C12_close_returns: every step of either goroutine decreases a natural number, no fairness assumed); that the Go scheduler keeps running a goroutine that can run is trusted",
]
ASSUMPTIONS = ["one writer goroutine per created file", "the storing side reads until io.EOF (io.Copy)"]
WITNESSES = "3,0,3:W,S,S,S,W,W,W,W,W;:S,W,W,S;:W,S,W,S"


def run(ctx, maxruns, schedules=None):
    env = {"VERIF_OUT": ctx.rd, "VERIF_SEED": ctx.seed, "VERIF_MAXRUNS": maxruns}
    if schedules:
        env["VERIF_SCHEDULES"] = schedules
    rc, out = C.go_test("./internal/utils/async", "TestVerifC12", env, timeout=3000)
    p = os.path.join(ctx.rd, "c12.runs.jsonl")
    if rc != 0 or not os.path.exists(os.path.join(ctx.rd, "c12.stats.json")):
        return None, out
    return [json.loads(l) for l in open(p) if l.strip()], out


def correspond(ctx):
    runs, out = run(ctx, 1, WITNESSES)
    if runs is None:
        rp = C.write_replay("C12", "harness-failure", {"property": "C12", "kind": "impl-run-failed", "go_test_output": out[-6000:]})
        return {"violations": [Violation("impl-run-failed", "real readWriter failed to run: " + out.strip().split("\n")[-1][:200], rp)], "coverage": {"evaluations": 0}}
    more, out = run(ctx, 400 if ctx.thorough else 40)
    if more is None:
        rp = C.write_replay("C12", "harness-failure", {"property": "C12", "kind": "impl-run-failed", "go_test_output": out[-6000:]})
        return {"violations": [Violation("impl-run-failed", "real readWriter failed to run: " + out.strip().split("\n")[-1][:200], rp)], "coverage": {"evaluations": 0}}
    runs += more
    violations, seen = [], set()
    for r in runs:
        why = None
        if r["hang"]:
            why = "hang"
        elif not r["equal"] and not r["close_err"]:
            why = "truncated"
        if why and why not in seen:
            seen.add(why)
            payload = {"property": "C12", "kind": "schedule", "why": why, "script": r["script"], "schedule": r["sched"],
                       "trace": r["trace"], "consumed": r["consumed"], "expected": r["expected"], "stacks": r.get("stacks", "")[:8000],
                       "replay_env": "VERIF_SCHEDULES=%s:%s" % (",".join(map(str, r["script"] or [])), ",".join(r["sched"]))}
            rp = C.write_replay("C12", why, payload)
            msg = ("writes of sizes %s, schedule %s: Close never returned (lost wake-up / deadlock)" % (r["script"], " ".join(r["sched"]))
                   if why == "hang" else
                   "writes of sizes %s, schedule %s: Close returned nil but the storing side consumed %d of %d bytes%s" % (r["script"], " ".join(r["sched"]), r["consumed"], r["expected"],
                                                                                                                  " and their content is not the concatenation of the writes" if r["consumed"] == r["expected"] else ""))
            violations.append(Violation("c12-" + why, msg, rp))
    # free-running stress (content equality), with the race detector in the thorough tier / search
    race = ctx.thorough
    rounds = 600 if ctx.thorough else 150
    rc, out = C.go_test("./internal/utils/async", "TestVerifC12Stress", {"VERIF_OUT": ctx.rd, "VERIF_SEED": ctx.seed, "VERIF_ROUNDS": rounds}, race=race, timeout=3000)
    sp = os.path.join(ctx.rd, "c12.stress.json")
    stress = json.load(open(sp)) if os.path.exists(sp) else None
    if stress is None or (rc != 0 and "DATA RACE" not in out):
        rp = C.write_replay("C12", "stress-failure", {"property": "C12", "kind": "impl-run-failed", "go_test_output": out[-6000:]})
        violations.append(Violation("c12-stress-failed", "free-running writer/storer stress failed to run: " + out.strip().split("\n")[-1][:160], rp))
    else:
        if stress["bad"]:
            b = stress["bad"][0]
            rp = C.write_replay("C12", "stress", {"property": "C12", "kind": "stress", "bad": stress["bad"][:5], "seed": ctx.seed,
                                "replay_env": "VERIF_ROUNDS=%d VERIF_SEED=%d go test -run TestVerifC12Stress" % (rounds, ctx.seed)})
            violations.append(Violation("c12-stress-content", "free-running writer/storer, round %d (%d writes): Close returned but the storing side got %s bytes, expected %d (first difference at offset %d)"
                                        % (b["Round"], b["Writes"], b["Got"], b["Want"], b["FirstDiff"]), rp))
        if stress.get("store_failure_bad"):
            rp = C.write_replay("C12", "store-failure", {"property": "C12", "kind": "store-failure", "observed": stress["store_failure_bad"][:8]})
            violations.append(Violation("c12-store-failure", "read-writer whose storing side fails: " + stress["store_failure_bad"][0], rp))
        if "DATA RACE" in out:
            rp = C.write_replay("C12", "race", {"property": "C12", "kind": "race", "report": out[:6000]})
            violations.append(Violation("c12-race", "data race between Write and the storing side's Read (race detector report in the replay)", rp))
    # Create through BOTH clients (inline: the read-writer above; gRPC: the stream writer): contents of many sizes
    # written in pieces (also empty ones) from ONE reused buffer, then read back
    import importlib
    c11 = importlib.import_module("props.c11")
    def hx(x):
        return x.encode().hex()
    h = []
    for i, size in enumerate([9, 100, 2047, 2048, 2049, 3000, 4096, 5000, 32767, 32768, 40000, 100000] + ([700001, 3 * 2**20] if ctx.thorough else [])):
        k = hx("f%d" % i)
        h += ["s 0 %s %d create" % (k, 10**12 + size), "g 0 %s" % k]
        if i % 3 == 0:
            h += ["b %d RC" % (i + 1), "s %d %s %d create" % (i + 1, k, 10**12 + size + 1), "g %d %s" % (i + 1, k), "c %d" % (i + 1), "g 0 %s" % k]
    cp = os.path.join(ctx.rd, "c12create.corpus")
    with open(cp, "w") as f:
        f.write("\n".join(h) + "\n")
    r, err = c11.replay_grpc(ctx, "c12create", -1, cp)
    created = 0
    if r is None:
        rp = C.write_replay("C12", "create-run-failed", {"property": "C12", "kind": "impl-run-failed", "output": err[-6000:]})
        violations.append(Violation("c12-create-run-failed", "Create through the clients failed to run: " + err.strip().split("\n")[-1][:160], rp))
    else:
        gops, gimpl, gspec, inline = r
        iops, iimpl, imodel, ispec, _ = inline
        for name, ops_, impl_, spec_ in (("inline", iops, iimpl, ispec), ("gRPC", gops, gimpl, gspec)):
            created += sum(1 for o in ops_ if " create" in o)
            for j in range(min(len(ops_), len(impl_), len(spec_))):
                if ops_[j] and impl_[j] != spec_[j]:
                    payload = {"property": "C12", "kind": "create-history", "client": name, "failed_op": ops_[j], "answer": impl_[j], "expected": spec_[j],
                               "history": ops_[1:j + 1], "note": "content number 10^12+n = n bytes; written by Create in pieces from one reused buffer"}
                    rp = C.write_replay("C12", "create-" + name, payload)
                    violations.append(Violation("c12-create-" + name, "Create through the %s client, history of %d ops: `%s` answered `%s`, expected `%s` (Close returned nil, the content is not the concatenation of the writes)"
                                                % (name, j, ops_[j][:60], impl_[j][:60], spec_[j][:60]), rp))
                    break
    distinct = len(set((tuple(r["script"] or []), tuple(r["trace"])) for r in runs))
    nontriv = len(set((tuple(r["script"] or []), tuple(r["trace"])) for r in runs if len(set(r["sched"])) > 1))
    cov = {"evaluations": len(runs), "distinct_nontrivial": nontriv,
           "rule": "enforced schedules of writer (Write sizes from {0,1,3,5,32767,32768,32769}, then Close) and storing goroutine on the real readWriter, stateless DFS over actor choices at operation boundaries and hook points; distinct = different event trace; non-trivial = both actors stepped; the two repaired witness schedules are replayed first",
           "traces_validated_against_impl": len(runs), "distribution": {"distinct_traces": distinct},
           "samples": [{"script": r["script"], "schedule": " ".join(r["sched"]), "consumed": r["consumed"], "expected": r["expected"], "hang": r["hang"]} for r in runs[:4]],
           "stress_rounds": (stress or {}).get("completed", 0), "stress_race_detector": race, "creates_through_clients": created,
           "summary": "%d enforced schedules + %d free-running rounds: Close returned, content = concatenation" % (len(runs), (stress or {}).get("completed", 0))}
    return {"violations": violations, "coverage": cov}


def search(ctx):
    ctx.thorough = True
    return correspond(ctx)


def replay(ctx, path):
    p = json.load(open(path))
    if p.get("kind") != "schedule":
        print(json.dumps(p, indent=1)[:3000]); return 0
    runs, out = run(ctx, 1, "%s:%s" % (",".join(map(str, p["script"] or [])), ",".join(p["schedule"])))
    for r in runs or []:
        print("\n".join(r["trace"])); print("hang", r["hang"], "consumed", r["consumed"], "of", r["expected"])
        if r["hang"] or (not r["equal"] and not r["close_err"]):
            print("VIOLATION property=C12 replay=%s" % path); return 1
    return 0
