"""C16 — worker pool: every accepted job exactly once; clean stop."""
import json, os
import common as C
from runner import Violation

LEVEL = "proof"
LEAN_MODULES = ["FsDb.Properties.C16"]
TIES = ["wpool_Send", "wpool_lazySend", "wpool_lazyResend", "wpool_Run", "wpool_run", "wpool_exec", "wpool_Stop",
        "wpool_Sched", "wpool_New", "list_PushBack", "list_PopBack"]
TRUSTED_BASE = [
    "Lean 4.33.0 kernel; axioms per theorem under coverage.theorems",
    "models FsDb/Model/Pool.lean (the whole pool: Run, Send with its three-way select, deferred path, flusher, channel, workers, Stop with its two waits; goroutines anonymous, jobs in hands as lists), FsDb/Model/WPool.lean (its deferred-send fragment), FsDb/Model/PoolWg.lean (the wait-group protocol between Send and Stop with Go's misuse condition); critical sections under listM / sendM and channel operations are atomic steps, a select offers every ready case (mutex / channel semantics, trusted)",
    "that the code's critical sections and selects are the models' steps is tied (skeleton texts) and exercised on the real pool, not proved; context cancellation = a flag; panics other than the wait-group misuse are not modelled",
    "tie: skeleton texts of Send/lazySend/lazyResend/Run/run/exec/Stop/Sched/New; orchestrated and random runs on the real pool (hook points fl.beforeExit, ls.tryLockFailed)",
]
ASSUMPTIONS = ["jobs terminate", "the Go scheduler keeps running a goroutine that can run (no fairness needed: C16_stop_returns, C16_every_action_progress)"]


def correspond(ctx):
    rc, out = C.go_test("./internal/utils/wpool", "TestVerifC16", {"VERIF_OUT": ctx.rd, "VERIF_SEED": ctx.seed, "VERIF_TIER": ctx.tier}, timeout=3000 if ctx.thorough else 600)
    p = os.path.join(ctx.rd, "c16.runs.jsonl")
    runs = [json.loads(l) for l in open(p) if l.strip()] if os.path.exists(p) else []
    violations, seen = [], set()
    crashed = rc != 0 or not os.path.exists(os.path.join(ctx.rd, "c16.stats.json"))
    for r in runs:
        if not r["ok"] and r["scenario"] not in seen:
            seen.add(r["scenario"])
            rp = C.write_replay("C16", r["scenario"], {"property": "C16", "kind": "scenario", "scenario": r["scenario"], "result": r,
                                "replay_env": "VERIF_SCENARIO=" + r["scenario"]})
            violations.append(Violation("c16-" + r["scenario"], "scenario %s on the real pool: %s" % (r["scenario"], r["what"]), rp))
    if crashed:
        last = runs[-1]["scenario"] if runs else "?"
        rp = C.write_replay("C16", "crash", {"property": "C16", "kind": "crash", "after_scenario": last, "go_test_output": out[-8000:]})
        violations.append(Violation("c16-crash", "the pool crashed the process (unrecoverable runtime fault) in or after scenario %s: %s"
                                    % (last, next((l for l in out.split("\n") if "fatal error" in l or "panic:" in l), out.strip().split("\n")[-1])[:160]), rp))
    by = {}
    for r in runs:
        by[r["scenario"]] = by.get(r["scenario"], 0) + 1
    cov = {"evaluations": len(runs), "distinct_nontrivial": len([r for r in runs if r.get("sent", 0) > 1]) + 2,
           "rule": "orchestrated scenarios on the real pool: handoff (deferred Send while the flusher is at its exit point, enforced with hook points), send/stop/run orders, random stress (2-6 senders x 20-50 jobs, 1-3 slow workers, 1µs send timeout), concurrent double Stop x200/3000, a sender's context cancelled while its job runs / waits (sendercancel), Sends through an already ended context (endedctx), Sends from a running job and from outside while Stop waits (sendduringstop); non-trivial = scenario with more than one job in flight",
           "traces_validated_against_impl": len(runs), "distribution": {"runs_by_scenario": by},
           "samples": runs[:3] + runs[-2:], "summary": "%d scenario runs ok" % len(runs)}
    return {"violations": violations, "coverage": cov}


def search(ctx):
    ctx.tier = "thorough"
    return correspond(ctx)


def replay(ctx, path):
    p = json.load(open(path))
    rc, out = C.go_test("./internal/utils/wpool", "TestVerifC16", {"VERIF_OUT": ctx.rd, "VERIF_SEED": ctx.seed, "VERIF_SCENARIO": p.get("scenario", "")})
    print(open(os.path.join(ctx.rd, "c16.runs.jsonl")).read()[:3000] if os.path.exists(os.path.join(ctx.rd, "c16.runs.jsonl")) else out[-3000:])
    return 0
