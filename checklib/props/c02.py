"""C02 — sequential-history correspondence + theorems (see DESIGN.md §9 C02)."""
import seqprop

LEVEL = "proof"
LEAN_MODULES = ["FsDb.Properties.C02"]
TIES = seqprop.SEQ_TIES
TRUSTED_BASE = seqprop.SEQ_TRUSTED
ASSUMPTIONS = ["operations are issued one at a time (the property quantifies over sequential histories)",
               "fault-free storage"]
PROFILE = "c02"
QUICK, THOROUGH = 60, 2500
WHAT = 'C02 isolation histories: all four levels + autocommit, observers read every key after every step, gc at random positions'
NEED = ['v:', 'e:NotFound', 'keys:']
CORPUS = None


def correspond(ctx):
    return seqprop.correspond(ctx, "C02", PROFILE, QUICK, THOROUGH, WHAT, need_answers=NEED, corpus=CORPUS)


def search(ctx):
    ctx.thorough = True
    return correspond(ctx)


def replay(ctx, path):
    return seqprop.replay(ctx, path, PROFILE)
