"""C02 — sequential-history correspondence + theorems (see DESIGN.md §9 C02)."""
import seqprop

LEVEL = "proof"
LEAN_MODULES = ["FsDb.Properties.C02"]
TIES = seqprop.SEQ_TIES
TRUSTED_BASE = seqprop.SEQ_TRUSTED
ASSUMPTIONS = ["operations are issued one at a time (the property quantifies over sequential histories)",
               "fault-free storage"]
PROFILE = "c02"
QUICK, THOROUGH = 60, 2500
WHAT = 'C02 isolation histories: all four levels + autocommit, observers read every key after every step, gc at random positions'
NEED = ['v:', 'e:NotFound', 'keys:']
CORPUS = None


def scale_histories(ctx):
    """histories that are large in ONE dimension each (the generated ones are small in all): many keys, many
    versions of one key under a pinned snapshot, many open transactions, keys with unusual bytes / lengths"""
    def hx(x):
        return (x if isinstance(x, bytes) else x.encode()).hex()
    big = 3 if ctx.thorough else 1
    k = hx("k")
    # (a) many keys: GetKeys and snapshot reads over 1 100 keys, half of them deleted again
    n = 1100 * big
    a = ["b 1 RR"] + ["s 0 %s %d set" % (hx("key-%05d" % i), 5000 + i) for i in range(n)] + ["b 2 SER", "k 0", "k 1", "k 2"] + \
        ["d 0 %s" % hx("key-%05d" % i) for i in range(0, n, 2)] + ["k 0", "k 2", "b 3 RU", "k 3", "g 2 %s" % hx("key-00000"), "gc", "k 0", "k 2", "r 1", "c 2", "r 3", "gc", "k 0"]
    # (b) many versions of one key: a snapshot pins them, later ones are collected around it
    m = 1050 * big
    b = ["s 0 %s 100 set" % k] + ["s 0 %s %d set" % (k, 6000 + i) for i in range(m // 2)] + ["b 1 SER", "g 1 %s" % k] + \
        ["s 0 %s %d set" % (k, 8000 + i) for i in range(m // 2)] + ["gc", "g 1 %s" % k, "g 0 %s" % k, "b 2 RR", "g 2 %s" % k, "s 0 %s 9999 set" % k,
         "gc", "g 1 %s" % k, "g 2 %s" % k, "r 1", "gc", "g 2 %s" % k, "g 0 %s" % k, "r 2", "drain", "gc", "drain", "tree"]
    # (c) many open transactions of all levels, each with own writes, committed / rolled back in mixed order
    t = 60 * big
    lv = ["RU", "RC", "RR", "SER"]
    c = ["s 0 %s 100 set" % k] + ["b %d %s" % (i + 1, lv[i % 4]) for i in range(t)]
    for i in range(t):
        c += ["s %d %s %d set" % (i + 1, hx("k%d" % (i % 7)), 7000 + i)]
        if i % 5 == 0:
            c += ["g %d %s" % (((i * 7) % t) + 1, hx("k%d" % (i % 7)))]
    for i in range(t):
        c += [("c %d" if i % 3 else "r %d") % (((i * 11) % t) + 1)]
        if i % 6 == 0:
            c += ["g 0 %s" % hx("k%d" % (i % 7)), "k 0", "gc"]
    c += ["k 0"] + ["g 0 %s" % hx("k%d" % j) for j in range(7)]
    # (d) unusual keys: non-UTF-8 bytes, path-like, very long, one byte, keys that are prefixes of each other
    ks = [b"\xff\xfe\x00\x01", b"../../etc/passwd", b"a/b/c", b"a", b"a\x00", b"a\x00b", b" ", b"\n", "ключ-日本語".encode(), b"x" * 3000, b"x" * 3001, b"file/", b"fileContent/x"]
    d = []
    for i, kk in enumerate(ks):
        d += ["s 0 %s %d %s" % (hx(kk), 9100 + i, ["set", "reader", "create"][i % 3])]
    d += ["k 0"] + ["g 0 %s" % hx(kk) for kk in ks] + ["b 1 SER"] + ["d 0 %s" % hx(kk) for kk in ks[::2]] + ["k 0", "k 1", "reopen 0", "k 0"] + ["g 0 %s" % hx(kk) for kk in ks]
    return [a, b, c, d]


def correspond(ctx):
    res = seqprop.correspond(ctx, "C02", PROFILE, QUICK, THOROUGH, WHAT, need_answers=NEED, corpus=CORPUS)
    v, n = seqprop.corpus_violations(ctx, "C02", "c02scale", scale_histories(ctx), "histories large in one dimension (keys / versions / open transactions / unusual keys)")
    res["violations"] = list(res.get("violations", [])) + v
    res.setdefault("coverage", {})["scale_history_lines"] = n
    return res


def search(ctx):
    ctx.thorough = True
    return correspond(ctx)


def replay(ctx, path):
    return seqprop.replay(ctx, path, PROFILE)
