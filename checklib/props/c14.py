"""C14 — sequential-history correspondence + theorems (see DESIGN.md §9 C14)."""
import seqprop

LEVEL = "proof"
LEAN_MODULES = ["FsDb.Properties.C14"]
TIES = seqprop.SEQ_TIES
TRUSTED_BASE = seqprop.SEQ_TRUSTED
ASSUMPTIONS = ["operations are issued one at a time (the property quantifies over sequential histories)",
               "fault-free storage"]
PROFILE = "c14"
QUICK, THOROUGH = 50, 2000
WHAT = 'C14 histories ending in quiescence (all transactions ended, drain, gc, drain) and a walk of the storage roots, again after reopen'
NEED = ['files:']
CORPUS = 'seq_c13.txt'


def correspond(ctx):
    return seqprop.correspond(ctx, "C14", PROFILE, QUICK, THOROUGH, WHAT, need_answers=NEED, corpus=CORPUS)


def search(ctx):
    ctx.thorough = True
    return correspond(ctx)


def replay(ctx, path):
    return seqprop.replay(ctx, path, PROFILE)
