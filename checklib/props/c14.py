"""C14 — sequential-history correspondence + theorems (see DESIGN.md §9 C14)."""
import seqprop

LEVEL = "proof"
LEAN_MODULES = ["FsDb.Properties.C14"]
TIES = seqprop.SEQ_TIES
TRUSTED_BASE = seqprop.SEQ_TRUSTED
ASSUMPTIONS = ["operations are issued one at a time (the property quantifies over sequential histories)",
               "fault-free storage"]
PROFILE = "c14"
QUICK, THOROUGH = 50, 2000
WHAT = 'C14 histories ending in quiescence (all transactions ended, drain, gc, drain) and a walk of the storage roots, again after reopen'
NEED = ['files:']
CORPUS = 'seq_c13.txt'


def big_jobs():
    """deletion jobs of more than 1000 versions (the cleaner cuts a job into chunks of 1000): a rolled-back
    transaction, a committed one whose writes supersede each other, a reopen with >1000 superseded versions"""
    def hx(x):
        return x.encode().hex()
    k = hx("k")
    h1 = ["s 0 %s 300 set" % k, "b 1 RC"] + ["s 1 %s %d set" % (hx("r%d" % (i % 40)), 20000 + i) for i in range(1300)] + \
         ["r 1", "drain", "gc", "drain", "g 0 %s" % k, "k 0", "tree"]
    h2 = ["b 1 SER"] + ["s 1 %s %d set" % (k, 30000 + i) for i in range(1150)] + ["c 1", "drain", "gc", "drain", "g 0 %s" % k, "tree"]
    h3 = ["s 0 %s %d set" % (k, 40000 + i) for i in range(1301)] + ["reopen 0", "drain", "g 0 %s" % k, "tree"]
    return [h1, h2, h3]


def correspond(ctx):
    res = seqprop.correspond(ctx, "C14", PROFILE, QUICK, THOROUGH, WHAT, need_answers=NEED, corpus=CORPUS)
    v, n = seqprop.corpus_violations(ctx, "C14", "c14big", big_jobs(), "deletion jobs of more than 1000 versions")
    res["violations"] = list(res.get("violations", [])) + v
    res.setdefault("coverage", {})["big_job_lines"] = n
    return res


def search(ctx):
    ctx.thorough = True
    return correspond(ctx)


def replay(ctx, path):
    return seqprop.replay(ctx, path, PROFILE)
