"""C15 — concurrent use of one database is free of data races."""
import json, os, re
import common as C
from runner import Violation

LEVEL = "proof"
LEAN_MODULES = ["FsDb.Properties.C15"]
TIES = ["di_New", "di_Store", "di_StoreService", "store_Set", "txrepo_Store", "txrepo_Delete", "txrepo_Oldest", "txrepo_Get",
        "core_Store", "core_Get", "core_getFileFromTx", "core_UpdateTx", "core_DeleteTx", "core_DeleteOld",
        "txs_Get", "txs_Put", "txs_Delete", "async_Read", "async_Write", "async_Close", "async_SetError", "async_checkErr"]
TRUSTED_BASE = [
    "Lean 4.33.0 kernel; axioms per theorem under coverage.theorems (propext, Quot.sound only)",
    "translator /verif/lockx (go/packages + go/types): Go source -> lock skeletons (acq/rel/need, all statically resolvable fs_db calls inlined, interface calls resolved to the unique / DI-bound implementation, goroutine bodies and escaping closures as roots of their own); object identity is the text of the access path inside one root; panics are not modelled",
    "guard table /verif/lockx/locks.json: which mutex protects which field, which types are owned by which monitor, which structs are per-call (confined) or immutable after construction; its `exempt_uses` (listed under coverage.exemptions with their reasons) are orderings by WaitGroup / publication that the lockset discipline cannot express and that are trusted",
    "the construction phase (inline New / di.New, before the handle is returned) is single-threaded; publication of the handle to other goroutines is ordered by the client (trusted)",
    "dependencies (Badger, omap, gRPC, bytes.Buffer, math/rand) are not analysed: Badger and gRPC are used through their concurrency-safe APIs; omap's Load/Store/Delete lock internally, its iterator does not (guarded by the registry mutex); math/rand.Rand is guarded by randM",
    "Go memory model: Unlock n synchronises-before Lock n+1 (and RUnlock before a later Lock): the release/acquire pair the theorem exhibits orders the two accesses",
    "race detector runs (inline and gRPC workloads, collector alongside) are the search for a concrete failing schedule, not part of the proof",
]
ASSUMPTIONS = ["each transaction handle is used by one goroutine at a time (as the property states)",
               "Close is not called concurrently with other operations on the same handle"]


def races_in(out):
    """split race detector output into reports; signature = innermost fs_db frames of the two accesses"""
    reps = []
    for blk in re.split(r"(?m)^={18}\n", out):
        if "WARNING: DATA RACE" not in blk:
            continue
        frames = re.findall(r"^\s+(github\.com/glebziz/fs_db[^\s(]*|[\w./*()\[\]]+)\(.*\)\n\s+(\S+):(\d+)", blk, re.M)
        mine = [("%s %s:%s" % (f, os.path.basename(p), l)) for f, p, l in frames if "/repo/" in p or "glebziz/fs_db" in f]
        mine = [m for m in mine if "zz_verif" not in m]
        sig = " | ".join(mine[:2]) if mine else "unknown"
        reps.append((sig, blk.strip()[:6000]))
    return reps


def run_races(ctx, rounds_inline, rounds_grpc, seeds):
    found, stats, outs = {}, {"inline_rounds": 0, "grpc_rounds": 0, "inline_ops": 0, "grpc_ops": 0}, []
    for seed in seeds:
        for pkg, test, rounds, key in (("./pkg/inline/db", "TestVerifC15$", rounds_inline, "inline"),
                                       ("./internal/app", "TestVerifC15Grpc$", rounds_grpc, "grpc")):
            env = {"VERIF_OUT": ctx.rd, "VERIF_SEED": seed, "VERIF_ROUNDS": rounds, "GORACE": "halt_on_error=0"}
            rc, out = C.go_test(pkg, test, env, race=True, timeout=3000)
            sp = os.path.join(ctx.rd, "c15.stats.json" if key == "inline" else "c15g.stats.json")
            races = races_in(out)
            if os.path.exists(sp):
                st = json.load(open(sp))
                stats[key + "_rounds"] += st["rounds"]
                stats[key + "_ops"] += st["ops"]
                os.remove(sp)
            elif not races:
                return None, stats, out
            for sig, rep in races:
                found.setdefault(sig, (rep, "VERIF_OUT=<dir> VERIF_ROUNDS=%d go test -race -count=1 -vet=off -tags verif -overlay build/ov.json %s -run '%s'" % (rounds, pkg, test)))
            if rc != 0 and not races:
                return None, stats, out
    # the read-writer of Create alone, free-running writer vs storing goroutine
    rounds = 150 if rounds_inline <= 8 else 600
    rc, out = C.go_test("./internal/utils/async", "TestVerifC12Stress", {"VERIF_OUT": ctx.rd, "VERIF_SEED": seeds[0], "VERIF_ROUNDS": rounds}, race=True, timeout=3000)
    for sig, rep in races_in(out):
        found.setdefault(sig, (rep, "VERIF_OUT=<dir> VERIF_ROUNDS=%d go test -race -count=1 -vet=off -tags verif -overlay build/ov.json ./internal/utils/async -run TestVerifC12Stress" % rounds))
    stats["readwriter_rounds"] = rounds
    return found, stats, ""


def lockx_info():
    if not os.path.exists(C.LOCKX_EXPLAIN):
        return {"failing": [{"Root": "lockx", "Why": "no output"}], "roots": 0, "locks": 0, "notes": []}
    d = json.load(open(C.LOCKX_EXPLAIN))
    d["failing"] = d.get("failing") or []
    d["notes"] = d.get("notes") or []
    return d


def correspond(ctx, deep=False):
    info = lockx_info()
    thorough = ctx.thorough or deep
    found, stats, err = run_races(ctx, 40 if thorough else 8, 12 if thorough else 3, [ctx.seed, ctx.seed + 1] if thorough else [ctx.seed])
    violations = []
    if found is None:
        rp = C.write_replay("C15", "harness-failure", {"property": "C15", "kind": "impl-run-failed", "go_test_output": err[-8000:]})
        violations.append(Violation("impl-run-failed", "the concurrent workload failed to build or run: " + err.strip().split("\n")[-1][:200], rp))
        found = {}
    for i, (sig, (rep, cmd)) in enumerate(sorted(found.items())):
        rp = C.write_replay("C15", "race-%d" % i, {"property": "C15", "kind": "race", "signature": sig, "report": rep, "replay_cmd": cmd,
                                                   "static_diagnosis": info["failing"][:10], "repo": C.repo_head()})
        violations.append(Violation("c15-race", "data race reported by the Go race detector: " + sig, rp, signature="c15-race:" + sig))
    ex = [n for n in info["notes"] if n.startswith("exempt:")]
    cov = {"evaluations": stats["inline_ops"] + stats["grpc_ops"],
           "distinct_nontrivial": stats["inline_rounds"] + stats["grpc_rounds"],
           "rule": "static side: every root's lock skeleton regenerated from /repo and accepted by the Lean checker in the kernel (C15_code_disciplined); dynamic side (search only): rounds of 8 goroutines x 25 mixed first-use operations + collector on one inline handle and 6 client goroutines x 15 operations + collector against a real gRPC server, under the race detector; distinct_nontrivial counts rounds (each a fresh database, different first operations)",
           "traces_validated_against_impl": stats["inline_rounds"] + stats["grpc_rounds"],
           "roots": info["roots"], "locks": info["locks"], "static_failing_roots": info["failing"][:20],
           "exemptions": ex, "unresolved_dynamic_calls": [n for n in info["notes"] if "unresolved" in n or "no unique" in n][:40],
           "distribution": stats,
           "summary": "%d roots / %d mutex names accepted by the checker; %d+%d race-detector rounds clean" % (info["roots"], info["locks"], stats["inline_rounds"], stats["grpc_rounds"])}
    return {"violations": violations, "coverage": cov}


def search(ctx):
    """a proof obligation broke: look harder for a schedule the race detector can witness"""
    res = correspond(ctx, deep=True)
    if not res["violations"]:
        info = lockx_info()
        why = "; ".join("%s: %s" % (f["Root"], f["Why"]) for f in info["failing"][:4]) or "see lake log"
        rp = C.write_replay("C15", "obligation", {"property": "C15", "kind": "broken-obligation", "no_failing_input_found": True,
                            "broken": ctx.broken, "static_diagnosis": info["failing"], "repo": C.repo_head(),
                            "note": "the lock-discipline obligation no longer checks for the roots listed under static_diagnosis; the race detector runs did not witness a race"})
        res["violations"].append(Violation("obligation", "lock discipline no longer proved (%s): %s" % (", ".join(ctx.broken)[:200], why[:600]), rp, found_input=False))
    return res


def replay(ctx, path):
    p = json.load(open(path))
    print(json.dumps({k: v for k, v in p.items() if k != "report"}, indent=1)[:3000])
    if p.get("kind") != "race":
        return 0
    print(p["report"][:4000])
    found, stats, err = run_races(ctx, 40, 12, [ctx.seed])
    if found:
        print("VIOLATION property=C15 replay=%s" % path)
        return 1
    print("replay: no race witnessed on the current tree in %s" % stats)
    return 0
