"""C07 — enforced schedules on the real database, linearizability against the Lean spec; theorems in Properties/C07."""
import concprop, seqprop

LEVEL = "proof"
LEAN_MODULES = ["FsDb.Properties.C07"]
TIES = seqprop.SEQ_TIES
TRUSTED_BASE = seqprop.SEQ_TRUSTED + [
    "small-step model FsDb/Model/Conc.lean (hand-written): one step = one critical section under a lock of usecase/core or the registry / one Badger access / one file operation; Commit/Rollback are two steps (txRepo.Delete, then UpdateTx/DeleteTx; in between the collector's horizon ignores the transaction); two contractions (in-flight content under a private id; Begin's draw + registration one step, both under the horizon mutex); the registry record of a transaction inside Commit stays in the model state as a ghost; one goroutine per transaction; Go sync primitives as in DESIGN §6 (modelled)",
    "tie of the step granularity: skeleton texts, linearizability of every enforced run against Spec.Iso, step-by-step replay of every enforced run in the small-step model (hook points = program counters; the uncontrolled worker pool is placed by search), free-running stress with specification-derived oracles",
    "hook scheduler (harness/overlay/inline_db/zz_verif_conc_test.go): schedules are enforced only at the verif hook points and operation boundaries; windows without a hook are reached by the stress only",
]
ASSUMPTIONS = ["each transaction is used by one goroutine at a time", "fault-free storage"]
PROFILE = "c07"
QUICK, THOROUGH = 60, 600
WHAT = 'C07: 2-3 snapshot committers with intersecting write sets (+ autocommit writer); all interleavings of the commit steps'
WITNESSES = '2ser-1key:T1,T1,T1,T1,T1,T2,T2,T2,T2,T2,T1,T2'


def correspond(ctx):
    return concprop.correspond(ctx, "C07", PROFILE, QUICK, THOROUGH, WHAT, witnesses=WITNESSES)


def search(ctx):
    ctx.thorough = True
    return correspond(ctx)


def replay(ctx, path):
    return concprop.replay(ctx, path, PROFILE)
