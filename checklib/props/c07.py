"""C07 — enforced schedules on the real database, linearizability against the Lean spec; theorems in Properties/C07."""
import concprop, seqprop

LEVEL = "proof"
LEAN_MODULES = ["FsDb.Properties.C07"]
TIES = seqprop.SEQ_TIES
TRUSTED_BASE = seqprop.SEQ_TRUSTED + [
    "a critical section under an exclusive lock is one atomic step of the model; Go sync primitives as in DESIGN §6 (modelled)",
    "hook scheduler (harness/overlay/inline_db/zz_verif_conc_test.go): schedules are enforced only at the verif hook points and operation boundaries",
]
ASSUMPTIONS = ["each transaction is used by one goroutine at a time", "fault-free storage"]
PROFILE = "c07"
QUICK, THOROUGH = 60, 600
WHAT = 'C07: 2-3 snapshot committers with intersecting write sets (+ autocommit writer); all interleavings of the commit steps'
WITNESSES = '2ser-1key:T1,T1,T1,T1,T1,T2,T2,T2,T2,T2,T1,T2'


def correspond(ctx):
    return concprop.correspond(ctx, "C07", PROFILE, QUICK, THOROUGH, WHAT, witnesses=WITNESSES)


def search(ctx):
    ctx.thorough = True
    return correspond(ctx)


def replay(ctx, path):
    return concprop.replay(ctx, path, PROFILE)
