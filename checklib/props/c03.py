"""C03 — sequential-history correspondence + theorems (see DESIGN.md §9 C03)."""
import seqprop

LEVEL = "proof"
LEAN_MODULES = ["FsDb.Properties.C03"]
TIES = seqprop.SEQ_TIES
TRUSTED_BASE = seqprop.SEQ_TRUSTED
ASSUMPTIONS = ["operations are issued one at a time (the property quantifies over sequential histories)",
               "fault-free storage"]
PROFILE = "c03"
QUICK, THOROUGH = 60, 2500
WHAT = 'C03 commit/rollback histories biased to overlapping write sets; autocommit reads after every step'
NEED = ['e:TxSerialization', 'v:']
CORPUS = None


def correspond(ctx):
    return seqprop.correspond(ctx, "C03", PROFILE, QUICK, THOROUGH, WHAT, need_answers=NEED, corpus=CORPUS)


def search(ctx):
    ctx.thorough = True
    return correspond(ctx)


def replay(ctx, path):
    return seqprop.replay(ctx, path, PROFILE)
