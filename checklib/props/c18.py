"""C18 — snapshot lookup / collect on the per-key store."""
import json, os
import common as C
from runner import Violation

LEVEL = "proof"
LEAN_MODULES = ["FsDb.Properties.C18"]
TIES = ["file_binarySearch", "file_IterateBeforeSeq", "file_PopFront", "file_PopBack", "file_PushBack",
        "file_Latest", "file_LastBefore", "seq_After", "seq_Before", "seq_Zero"]
TRUSTED_BASE = [
    "Lean 4.33.0 kernel; axioms per theorem listed under coverage.theorems (allowed: propext, Classical.choice, Quot.sound)",
    "model FsDb/Model/VFile.lean: doubly linked list with sentinel + node pool abstracted to List Ver (modelled, not verified)",
    "tie: extract/ (go/ast skeleton text of file.go functions = Tie/Expected.lean) and the differential run below",
    "correspondence harness harness/overlay/model_core (drives the real core.Transaction/file/List/Node/Pool in-process)",
    "uint64 sequence numbers modelled as Nat (no wrap-around)",
]
ASSUMPTIONS = ["sequence numbers are pushed in strictly increasing order and are non-zero (system invariant, C02/C09)",
               "a GC horizon is never itself a version number (same counter; witness theorem C18_horizon_is_version_witness)"]


def script_of(ops, idx):
    """the ops of the script containing line idx: from the last `vf new` before it"""
    start = idx
    while start > 0 and not ops[start].startswith("vf new"):
        start -= 1
    return start


def correspond(ctx):
    rd = ctx.rd
    rc, out = C.go_test("./internal/model/core", "TestVerifC18",
                        {"VERIF_OUT": rd, "VERIF_SEED": ctx.seed, "VERIF_TIER": ctx.tier})
    violations = []
    ops_p, impl_p, model_p = [os.path.join(rd, "c18." + x) for x in ("ops", "impl", "model")]
    if rc != 0 or not os.path.exists(os.path.join(rd, "c18.stats.json")):
        # the real code panicked / failed to build: that is a finding about the implementation
        rp = C.write_replay("C18", "harness-failure", {"property": "C18", "kind": "impl-run-failed",
                            "go_test_output": out[-6000:], "repo": C.repo_head()})
        return {"violations": [Violation("impl-run-failed", "real per-key store failed to run the op scripts (panic/build error)", rp)],
                "coverage": {"evaluations": 0}}
    C.run_driver(ops_p, model_p)
    stats = json.load(open(os.path.join(rd, "c18.stats.json")))
    d = C.first_diff(impl_p, model_p)
    samples = []
    ops = C.read_lines(ops_p)
    if d is not None:
        impl, model = C.read_lines(impl_p), C.read_lines(model_p)
        st = script_of(ops, d)
        payload = {"property": "C18", "kind": "correspondence", "correspondence": "C18 vf-script: impl vs Lean model (model proven = spec by C18_lastBefore / C18_collect_exact)",
                   "first_diff_line": d, "op": ops[d], "impl": impl[d], "model": model[d],
                   "script": ops[st:d + 1], "impl_out": impl[st:d + 1], "model_out": model[st:d + 1],
                   "seed": ctx.seed, "tier": ctx.tier, "repo": C.repo_head()}
        rp = C.write_replay("C18", "diff", payload)
        violations.append(Violation("vf-diff", "op `%s`: real store answered %s, proven spec says %s" % (ops[d], impl[d], model[d]), rp))
    # a few sample scripts for the evidence
    st = script_of(ops, min(len(ops) - 2, 5000))
    samples.append({"script": ops[st:st + 25], "answers": C.read_lines(impl_p)[st:st + 25]})
    cov = {
        "evaluations": stats["lines"],
        "distinct_nontrivial": stats["subsets_nontrivial"] + stats["random_scripts"],
        "rule": "every op line is answered by the real structure and by the Lean model and compared byte for byte; "
                "exhaustive part: all subsets of a %d-element domain x all probes x all horizons (non-trivial = subset with >= 2 versions); "
                "random part: %d scripts (push/popf/popb/collect/lb/latest/dump, lists up to %d, recycled nodes)" % (
                    stats["exhaustive_domain"], stats["random_scripts"], stats["longest_list"]),
        "exhaustive": False,
        "traces_validated_against_impl": stats["lines"],
        "distribution": stats,
        "samples": samples,
        "summary": "%d op lines agreed" % stats["lines"] if d is None else "diff at line %d" % d,
    }
    return {"violations": violations, "coverage": cov}


def search(ctx):
    ctx.tier = "thorough"
    ctx.thorough = True
    return correspond(ctx)


def replay(ctx, path):
    p = json.load(open(path))
    if p.get("kind") != "correspondence":
        print(json.dumps(p, indent=1)[:3000])
        return 0
    rd = ctx.rd
    with open(os.path.join(rd, "replay.ops"), "w") as f:
        f.write("\n".join(p["script"]) + "\n")
    print("replay is a vf script; model answers:")
    C.build_driver()
    C.run_driver(os.path.join(rd, "replay.ops"), os.path.join(rd, "replay.model"))
    print(open(os.path.join(rd, "replay.model")).read())
    print("recorded impl answers:", p["impl_out"])
    return 0
