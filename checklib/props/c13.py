"""C13 — sequential-history correspondence + theorems (see DESIGN.md §9 C13)."""
import seqprop

LEVEL = "proof"
LEAN_MODULES = ["FsDb.Properties.C13"]
TIES = seqprop.SEQ_TIES
TRUSTED_BASE = seqprop.SEQ_TRUSTED
ASSUMPTIONS = ["operations are issued one at a time (the property quantifies over sequential histories)",
               "fault-free storage"]
PROFILE = "c13"
QUICK, THOROUGH = 60, 2500
WHAT = 'C13 histories with 30% of transactional ops through finished handles, RU observers, reopen'
NEED = ['e:TxNotFound', 'v:']
CORPUS = 'seq_c13.txt'


def correspond(ctx):
    return seqprop.correspond(ctx, "C13", PROFILE, QUICK, THOROUGH, WHAT, need_answers=NEED, corpus=CORPUS)


def search(ctx):
    ctx.thorough = True
    return correspond(ctx)


def replay(ctx, path):
    return seqprop.replay(ctx, path, PROFILE)
