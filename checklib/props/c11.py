"""C11 — the gRPC client is indistinguishable from the inline client."""
import json, os, subprocess
import common as C
import corr, seqprop
from runner import Violation

LEVEL = "proof"
LEAN_MODULES = ["FsDb.Properties.C11"]
TIES = ["errors_Error", "errors_ClientError", "errors_errorToPbError", "errors_detailsToError", "iso_Convert",
        "iso_ConvertToGrpc", "external_Create", "external_SetReader", "external_Set", "external_Get", "external_GetReader",
        "external_GetKeys", "external_Delete", "external_Begin", "external_tx_ctx", "external_tx_Commit", "external_tx_Rollback",
        "grpc_SetFile", "grpc_GetFile", "srv_ContextInterceptor", "srv_ContextStreamInterceptor", "streamwriter_Write",
        "streamwriter_Close", "streamwriter_sendErr", "streamwriter_New", "streamreader_Read", "di_StoreService", "app_New"]
TRUSTED_BASE = [
    "Lean 4.33.0 kernel; axioms per theorem under coverage.theorems",
    "models FsDb/Model/Wire.lean (error sets, codes, levels, chunked writer/reader) and FsDb/Model/Rpc.lean (a call = client encoding, the server's handler on the same use cases as the inline client, server encoding, client decoding); gRPC itself (ordered delivery, metadata transport, MESSAGE-SIZE LIMITS), protobuf and the interceptors are NOT modelled: validated by replaying generated histories through a real server on loopback",
    "tie: skeleton texts of the adapter functions, the external client, the server handlers, the interceptors; differential runs (a) error mapping over all 256 subsets x 3 wrappings through proto marshal/unmarshal, (b) the op files of the inline correspondence replayed through pkg/external against internal/app and compared with the specification",
]
ASSUMPTIONS = ["gRPC delivers stream messages in order and reliably on an unbroken connection"]


def replay_grpc(ctx, profile, nhist, corpus=None):
    """generate ops with the inline harness, replay them through the gRPC client, compare with the spec"""
    res, out = seqprop.run_impl(ctx, profile, nhist, corpus_path=corpus)
    if res is None:
        return None, "inline generation failed: " + out[-500:]
    ops_p = os.path.join(ctx.rd, profile + ".ops")
    rc, out = C.go_test("./internal/app", "TestVerifGrpcReplay", {"VERIF_OUT": ctx.rd, "VERIF_OPS": ops_p}, timeout=3000)
    pfx = os.path.join(ctx.rd, profile + ".grpc")
    if rc != 0 or not os.path.exists(pfx + ".stats.json"):
        return None, out
    with open(pfx + ".both", "wb") as fo, open(pfx + ".ops", "rb") as fi:
        p = subprocess.run([C.DRIVER], stdin=fi, stdout=fo, stderr=subprocess.PIPE)
    ops, impl, both = C.read_lines(pfx + ".ops"), C.read_lines(pfx + ".impl"), C.read_lines(pfx + ".both")
    spec = [b.split("\t")[1] if "\t" in b else "" for b in both]
    return (ops, impl, spec, res), ""


def sizes_corpus(ctx):
    """histories whose MESSAGES are large although every content is small: many keys (one GetKeys response
    carries all of them), long keys (echoed in the GetFile header, sent in the SetFile header), inside and
    outside transactions of every level"""
    def hx(s):
        return s.encode().hex()
    hs = []
    nkeys = 1500 if ctx.thorough else 400
    h = []
    for i in range(nkeys):
        h.append("s 0 %s %d %s" % (hx("key-%05d-%s" % (i, "x" * (i % 23))), 4000 + i % 7, ["set", "reader", "create"][i % 3]))
        if i in (3, 40, 110, 250):
            h.append("k 0")
    h += ["k 0", "b 1 RU", "k 1", "b 2 RC", "k 2", "b 3 RR", "k 3", "b 4 SER", "d 4 " + hx("key-00007-xxxxxxx"), "k 4", "c 4", "k 0",
          "g 0 " + hx("key-00399-" + "x" * (399 % 23)), "r 1", "c 2", "c 3", "k 0"]
    hs.append(h)
    h = []
    for n in ([100, 1000, 4000, 4090, 4100, 5000, 20000] + ([66000, 300000] if ctx.thorough else [])):
        k = hx(("L%d-" % n) + "y" * n)
        h += ["s 0 %s 4001 set" % k, "g 0 %s" % k, "b 1 RR", "s 1 %s 4002 reader" % k, "g 1 %s" % k, "k 1", "c 1", "g 0 %s" % k, "k 0", "d 0 %s" % k, "g 0 %s" % k]
    hs.append(h)
    # big CONTENTS (content number 10^12 + size): written by every method, read directly and through transactions
    big = [5 * 2**20 + 1, 9 * 2**20] + ([20 * 2**20 + 123] if ctx.thorough else [])
    h = []
    for i, size in enumerate(big):
        k = hx("big%d" % i)
        h += ["s 0 %s %d %s" % (k, 10**12 + size, ["create", "reader", "set"][i % 3]), "g 0 %s" % k, "g 0 %s" % k, "g 0 %s" % k,
              "b 1 SER", "g 1 %s" % k, "s 1 %s %d reader" % (k, 10**12 + size + 7), "g 1 %s" % k, "c 1", "g 0 %s" % k]
    hs.append(h)
    cp = os.path.join(ctx.rd, "c11sizes.corpus")
    with open(cp, "w") as f:
        for h in hs:
            f.write("\n".join(h) + "\n\n")
    return cp


def limit_corpora(ctx):
    """the open known findings C11-getkeys-over-4MiB / C11-key-over-4MiB: one protobuf message carries all
    keys (GetKeysResponse) or a whole key (SetFile / GetFile header); gRPC's default limit is 4 MiB per
    message.  Exercised on every run so that the findings are re-confirmed, not remembered."""
    def hx(s):
        return s.encode().hex()
    a = ["s 0 %s 4001 set" % hx(("K%03d-" % i) + "z" * 65000) for i in range(70)] + ["k 0"]
    big = hx("B-" + "q" * (5 * 1024 * 1024))
    b = ["s 0 %s 4003 set" % big]
    out = []
    for name, h in (("c11limitkeys", a), ("c11limitkey", b)):
        cp = os.path.join(ctx.rd, name + ".corpus")
        with open(cp, "w") as f:
            f.write("\n".join(h) + "\n")
        out.append((name, -1, -1, cp))
    return out


KNOWN_LIMIT = {"c11limitkeys": ("C11-getkeys-over-4MiB", "k"), "c11limitkey": ("C11-key-over-4MiB", "s")}


def correspond(ctx):
    violations = []
    # (a) error mapping
    v, stats, samples, _ = corr.line_corr(ctx, "C11", "./internal/adapter/errors", "TestVerifC11Errors", "c11e",
                                          what="C11 error mapping: Error -> status proto bytes -> ClientError vs Wire.roundTrip / Wire.clientFromCode")
    violations += v
    total = stats.get("lines", 0)
    hist = 0
    # (b) histories through the gRPC client
    profiles = [("c01", 10, 60, None), ("c02", 8, 60, None), ("c13", 8, 60, os.path.join(C.VERIF, "corpus", "seq_c13.txt")),
                ("c11sizes", -1, -1, sizes_corpus(ctx))] + limit_corpora(ctx)
    for profile, q, t, corpus in profiles:
        r, err = replay_grpc(ctx, profile, t if ctx.thorough else q, corpus)
        if r is None:
            rp = C.write_replay("C11", "grpc-run-failed", {"property": "C11", "kind": "impl-run-failed", "output": err[-6000:]})
            violations.append(Violation("c11-grpc-run-failed", "replay through the gRPC client failed to run (%s): %s" % (profile, err.strip().split("\n")[-1][:160]), rp))
            continue
        ops, impl, spec, inline = r
        total += len(ops)
        hist += sum(1 for l in ops if l.startswith("sys new"))
        for i in range(min(len(ops), len(impl), len(spec))):
            if ops[i] and impl[i] != spec[i]:
                starts = [j for j, l in enumerate(ops) if l.startswith("sys new") and j <= i]
                st = starts[-1] if starts else 0
                payload = {"property": "C11", "kind": "grpc-history", "profile": profile, "failed_op": ops[i], "grpc": impl[i], "spec": spec[i],
                           "history": ops[st + 1:i + 1], "grpc_out": impl[st + 1:i + 1], "spec_out": spec[st + 1:i + 1], "seed": ctx.seed}
                payload["history"] = [l[:200] + ("…(%d chars)" % len(l) if len(l) > 200 else "") for l in payload["history"]] if profile.startswith("c11limit") else payload["history"]
                rp = C.write_replay("C11", "grpc-history-" + profile, payload)
                if profile in KNOWN_LIMIT and ops[i].split()[1] == KNOWN_LIMIT[profile][1] and impl[i] == "e:NoFreeSpace" and not spec[i].startswith("e:"):
                    what = {"c11limitkeys": "GetKeys through the gRPC client fails with ErrNoFreeSpace once the keys total more than 4 MiB (70 keys of 65 005 bytes; one GetKeysResponse message carries all keys, gRPC's default receive limit) while the inline client lists them",
                            "c11limitkey": "Set through the gRPC client with a key of 5 MiB fails with ErrNoFreeSpace (the SetFile header message exceeds the server's default 4 MiB receive limit) while the inline client stores it"}[profile]
                    violations.append(Violation(KNOWN_LIMIT[profile][0], what, rp))
                    break
                violations.append(Violation("c11-grpc-" + profile, "history of %d ops through the gRPC client: `%s` answered `%s`, the inline client / specification answers `%s`"
                                            % (i - st, ops[i][:60], impl[i][:60], spec[i][:60]), rp))
                break
    # (c) uploads whose source fails (with different errors) or whose context is cancelled: the inline client
    #     reports an error and the key keeps its value (C10_failed_write_no_trace, C10's inline faults); so must gRPC
    rc, out = C.go_test("./internal/app", "TestVerifC10Grpc", {"VERIF_OUT": ctx.rd, "VERIF_TIER": ctx.tier}, timeout=3000)
    fp = os.path.join(ctx.rd, "c10g")
    nfault = 0
    if rc != 0 or not os.path.exists(fp + ".stats.json"):
        rp = C.write_replay("C11", "grpc-fault-run-failed", {"property": "C11", "kind": "impl-run-failed", "output": out[-6000:]})
        violations.append(Violation("c11-grpc-fault-run-failed", "failed uploads through the gRPC client failed to run: " + out.strip().split("\n")[-1][:160], rp))
    else:
        for o, r in zip(C.read_lines(fp + ".ops"), C.read_lines(fp + ".impl")):
            if not o:
                continue
            nfault += 1
            if r != "err old":
                rp = C.write_replay("C11", "grpc-failed-upload", {"property": "C11", "kind": "fault", "case": o, "grpc": r, "inline": "err old"})
                violations.append(Violation("c11-grpc-failed-upload", "upload with fault `%s`: through the gRPC client the writer got `%s` and the key then read `%s`; the inline client reports an error and keeps the old value"
                                            % (o, r.split()[0], " ".join(r.split()[1:])), rp))
                break
    total += nfault
    cov = {"evaluations": total, "distinct_nontrivial": hist + 256,
           "rule": "(a) all 256 subsets of the 8 sentinels x 3 wrappings (errors.Join, %w chain, custom Is) + 11 bare gRPC codes; (b) histories of the C01 (contents across the 2048-byte chunk boundary, Set/SetReader/Create), C02 (all levels) and C13 (late use) generators executed through pkg/external against internal/app on 127.0.0.1, every answer compared with the specification (= the inline client's answers, which the same run also checks); non-trivial = histories + error subsets; (c) uploads whose source fails with one of four errors (a plain error, io.ErrUnexpectedEOF, an error wrapping io.EOF, io.ErrClosedPipe) or whose context is cancelled at every chunk boundary: error + old value, as inline",
           "traces_validated_against_impl": total, "samples": samples,
           "summary": "%d error-mapping lines + %d histories + %d failed uploads through gRPC agree with the specification" % (stats.get("lines", 0), hist, nfault)}
    return {"violations": violations, "coverage": cov}


def search(ctx):
    ctx.thorough = True
    return correspond(ctx)


def replay(ctx, path):
    print(json.dumps(json.load(open(path)), indent=1)[:5000])
    return 0
