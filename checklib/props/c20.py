"""C20 — configuration precedence and validation."""
import common as C
import corr

LEVEL = "proof"
LEAN_MODULES = ["FsDb.Properties.C20"]
TIES = ["config_ParseConfig", "config_ParseEnv", "config_Storage_ParseEnv", "config_WPool_ParseEnv",
        "config_Storage_Valid", "config_env_names", "config_defaults", "config_defaultConfig",
        "config_type_Storage", "config_type_WPool", "config_type_Config", "config_constants"]
TRUSTED_BASE = [
    "Lean 4.33.0 kernel; axioms per theorem under coverage.theorems",
    "model FsDb/Model/Config.lean: values abstracted to provenance tokens (default/file/env/zero/clamped)",
    "parsers strconv.Atoi, strconv.ParseUint, time.ParseDuration, gopkg.in/yaml.v2 are parameters with the contract 'malformed => error' (trusted; exercised by the run)",
    "tie: skeleton texts of ParseConfig/ParseEnv(3)/Valid, const blocks, defaultConfig, struct tags; generated constants; differential run of the real ParseConfig+Valid",
]
ASSUMPTIONS = ["'malformed' means: rejected by the respective Go parser (non-numeric, negative for unsigned, duration without unit, YAML type mismatch)"]


def correspond(ctx):
    v, stats, samples, _ = corr.line_corr(ctx, "C20", "./config", "TestVerifC20", "c20",
                                          what="C20 cfg: real config.ParseConfig + Storage.Valid vs Lean Config.load (proven: C20_precedence, C20_no_file, C20_malformed_is_error, C20_valid)")
    n = stats.get("lines", 0)
    o = stats.get("outcomes", {})
    cov = {"evaluations": n, "distinct_nontrivial": n - 1,
           "rule": "distinct layer combinations (file layer absent/present/zero/malformed x env layer unset/empty/present/malformed per setting, with and without a config file): all single and pairwise variations + random; thorough adds the full 6^7 product of the property's six states; every line is distinct (deduplicated), non-trivial = not the all-default line",
           "exhaustive": False, "traces_validated_against_impl": n, "distribution": stats, "samples": samples,
           "summary": "%d configurations agreed (%s)" % (n, o)}
    return {"violations": v, "coverage": cov}


def search(ctx):
    ctx.tier = "thorough"
    return correspond(ctx)


def replay(ctx, path):
    return corr.replay_script(ctx, path)
