"""C19 — version records round-trip and keep their on-disk format."""
import os
import common as C
import corr
from runner import Violation

LEVEL = "proof"
LEAN_MODULES = ["FsDb.Properties.C19"]
TIES = ["codec_fileLen", "codec_marshalFile", "codec_unmarshalFile", "repo_file_key", "repo_file_Set",
        "repo_file_GetAll", "repo_cf_key", "codec_constants"]
TRUSTED_BASE = [
    "Lean 4.33.0 kernel; axioms per theorem under coverage.theorems (allowed: propext, Classical.choice, Quot.sound)",
    "model FsDb/Model/Codec.lean (bytes = UInt8, seq = Nat < 2^64, ids = 16 raw bytes, canonical uuid text only)",
    "google/uuid Parse/String modelled for the canonical 8-4-4-4-12 lower-case form only (other accepted spellings are outside the property)",
    "tie: generated constants (uuidLen,timeLen,fileLenWithoutKey) + skeleton texts of marshalFile/unmarshalFile/key/Set/GetAll; differential run through Repo.Set / Repo.GetAll",
]
ASSUMPTIONS = ["transaction and content ids are canonical uuids (the property's premise)"]
GOLDEN = os.path.join(C.VERIF, "corpus", "c19_golden.txt")


def correspond(ctx):
    v, stats, samples, _ = corr.line_corr(ctx, "C19", "./internal/repository/file", "TestVerifC19", "c19",
                                          env={"VERIF_GOLDEN": GOLDEN},
                                          what="C19 enc/dec: Repo.Set/Repo.GetAll of the real code vs Lean Codec.repoSet/decode (proven: C19_roundtrip, C19_layout, C19_reject_iff)")
    # the golden vectors must still produce the committed expectations
    exp_p = os.path.join(C.VERIF, "corpus", "c19_golden.expected")
    if not v and os.path.exists(exp_p):
        ops = C.read_lines(os.path.join(ctx.rd, "c19.ops"))
        impl = C.read_lines(os.path.join(ctx.rd, "c19.impl"))
        gold = [l for l in C.read_lines(GOLDEN) if l.strip()]
        exp = [l for l in C.read_lines(exp_p) if l.strip()]
        n = len(gold)
        tail_ops, tail_impl = [o for o in ops if o][-n:], [o for o in impl if o][-n:]
        if tail_ops != gold or tail_impl != exp:
            bad = next((i for i in range(n) if i >= len(tail_impl) or tail_impl[i] != exp[i]), 0)
            rp = C.write_replay("C19", "golden", {"property": "C19", "kind": "golden", "vector": gold[bad],
                                "expected": exp[bad], "impl": tail_impl[bad] if bad < len(tail_impl) else None})
            v.append(Violation("c19-golden", "record written in the release layout no longer decodes to the same values: %s" % gold[bad][:80], rp))
    n = stats.get("lines", 0)
    k = stats.get("ops_by_kind", {})
    cov = {"evaluations": n, "distinct_nontrivial": k.get("enc", 0) + k.get("dec_len_ge40", 0),
           "rule": "boundary records (seq in {0,1,255,256,2^32±1,2^63,2^64-1,…} x id patterns x key lengths 0..300), byte strings of every length 0..80, random records and random/malformed byte strings, golden vectors; non-trivial = encodes and decodes of accepted length",
           "traces_validated_against_impl": n, "distribution": stats, "samples": samples,
           "summary": "%d enc/dec lines agreed" % n}
    return {"violations": v, "coverage": cov}


def search(ctx):
    ctx.tier = "thorough"
    return correspond(ctx)


def replay(ctx, path):
    return corr.replay_script(ctx, path)
