package main

// data tables (filled in per property: codec constants, error tables, config table, ...)
func writeTables(repo, out string) error {
	return nil
}
