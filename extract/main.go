// Fact extractor: re-reads /repo's working tree (go/parser + go/ast only) and writes Lean files
// with (1) normalised skeleton texts of the anchored functions and (2) data tables (constants,
// switch tables) that the Lean models are parameterised by.  Deliberately dumb and name based:
// a rename in /repo breaks a Tie theorem instead of being silently accepted.
package main

import (
	"bytes"
	"encoding/json"
	"flag"
	"fmt"
	"go/ast"
	"go/parser"
	"go/printer"
	"go/token"
	"os"
	"path/filepath"
	"regexp"
	"sort"
	"strings"
)

type target struct {
	Name string `json:"name"` // Lean identifier
	File string `json:"file"` // path relative to repo root
	Recv string `json:"recv"` // receiver type name ("" for plain functions)
	Func string `json:"func"`
}

var ws = regexp.MustCompile(`\s+`)

func leanStr(s string) string {
	var b strings.Builder
	b.WriteByte('"')
	for _, r := range s {
		switch r {
		case '\\':
			b.WriteString(`\\`)
		case '"':
			b.WriteString(`\"`)
		case '\n':
			b.WriteString(`\n`)
		case '\t':
			b.WriteString(`\t`)
		default:
			b.WriteRune(r)
		}
	}
	b.WriteByte('"')
	return b.String()
}

func recvName(fd *ast.FuncDecl) string {
	if fd.Recv == nil || len(fd.Recv.List) == 0 {
		return ""
	}
	t := fd.Recv.List[0].Type
	for {
		switch x := t.(type) {
		case *ast.StarExpr:
			t = x.X
		case *ast.IndexExpr:
			t = x.X
		case *ast.IndexListExpr:
			t = x.X
		case *ast.Ident:
			return x.Name
		default:
			return "?"
		}
	}
}

func isMsgCall(c *ast.CallExpr) bool {
	if se, ok := c.Fun.(*ast.SelectorExpr); ok {
		if id, ok := se.X.(*ast.Ident); ok {
			return id.Name == "fmt" || id.Name == "slog"
		}
	}
	return false
}

// skeleton = printed function (signature + body), comments dropped, message strings of
// fmt.* / slog.* calls replaced, whitespace collapsed.
func skeleton(fset *token.FileSet, fd *ast.FuncDecl) string {
	ast.Inspect(fd, func(n ast.Node) bool {
		if c, ok := n.(*ast.CallExpr); ok && isMsgCall(c) {
			for i, a := range c.Args {
				if bl, ok := a.(*ast.BasicLit); ok && bl.Kind == token.STRING {
					c.Args[i] = &ast.BasicLit{Kind: token.STRING, Value: `"_"`}
				}
			}
		}
		return true
	})
	fd.Doc = nil
	var buf bytes.Buffer
	_ = printer.Fprint(&buf, fset, fd)
	return strings.TrimSpace(ws.ReplaceAllString(buf.String(), " "))
}

// declSkeleton prints the const/var/type declaration group that declares `name`.
func declSkeleton(fset *token.FileSet, f *ast.File, name string) string {
	for _, d := range f.Decls {
		gd, ok := d.(*ast.GenDecl)
		if !ok {
			continue
		}
		for _, s := range gd.Specs {
			found := false
			switch x := s.(type) {
			case *ast.ValueSpec:
				for _, n := range x.Names {
					found = found || n.Name == name
				}
			case *ast.TypeSpec:
				found = x.Name.Name == name
			}
			if found {
				gd.Doc = nil
				var buf bytes.Buffer
				_ = printer.Fprint(&buf, fset, gd)
				return strings.TrimSpace(ws.ReplaceAllString(buf.String(), " "))
			}
		}
	}
	return "<<missing decl: " + name + ">>"
}

func findFunc(f *ast.File, recv, name string) *ast.FuncDecl {
	for _, d := range f.Decls {
		if fd, ok := d.(*ast.FuncDecl); ok && fd.Name.Name == name && recvName(fd) == recv {
			return fd
		}
	}
	return nil
}

// funcList: the functions and methods declared in the non-test files of a package directory
// ("recv.Name" per line, sorted): a new method can change behaviour through an interface
// (io.ReaderFrom, fmt.Stringer, …) without touching any function the model was written against
func funcList(dir string) string {
	ents, err := os.ReadDir(dir)
	if err != nil {
		return "<<missing dir>>"
	}
	var names []string
	for _, e := range ents {
		n := e.Name()
		if e.IsDir() || !strings.HasSuffix(n, ".go") || strings.HasSuffix(n, "_test.go") {
			continue
		}
		f, err := parser.ParseFile(token.NewFileSet(), filepath.Join(dir, n), nil, 0)
		if err != nil {
			names = append(names, "<<parse error: "+n+">>")
			continue
		}
		for _, d := range f.Decls {
			fd, ok := d.(*ast.FuncDecl)
			if !ok {
				continue
			}
			recv := ""
			if fd.Recv != nil && len(fd.Recv.List) > 0 {
				t := fd.Recv.List[0].Type
				if st, ok := t.(*ast.StarExpr); ok {
					t = st.X
				}
				if ix, ok := t.(*ast.IndexExpr); ok {
					t = ix.X
				}
				if ix, ok := t.(*ast.IndexListExpr); ok {
					t = ix.X
				}
				if id, ok := t.(*ast.Ident); ok {
					recv = id.Name
				}
			}
			names = append(names, recv+"."+fd.Name.Name)
		}
	}
	sort.Strings(names)
	return strings.Join(names, "\n")
}

func main() {
	repo := flag.String("repo", "/repo", "repository root")
	out := flag.String("out", "", "output directory for Generated/*.lean")
	expected := flag.String("expected", "", "if set: write Tie/Expected*.lean + Tie theorems there instead")
	flag.Parse()
	exe, _ := os.Getwd()
	var targets []target
	b, err := os.ReadFile(filepath.Join(exe, "targets.json"))
	if err != nil {
		fmt.Fprintln(os.Stderr, err)
		os.Exit(2)
	}
	if err := json.Unmarshal(b, &targets); err != nil {
		fmt.Fprintln(os.Stderr, err)
		os.Exit(2)
	}
	sort.SliceStable(targets, func(i, j int) bool { return targets[i].Name < targets[j].Name })
	fset := token.NewFileSet()
	files := map[string]*ast.File{}
	skel := map[string]string{}
	for _, t := range targets {
		p := filepath.Join(*repo, t.File)
		if strings.HasPrefix(t.Func, "funcs:") {
			skel[t.Name] = funcList(p)
			continue
		}
		// re-parse per target: skeleton() mutates the AST
		f, err := parser.ParseFile(fset, p, nil, 0)
		if err != nil {
			skel[t.Name] = "<<parse error: " + filepath.Base(p) + ">>"
			continue
		}
		files[p] = f
		if strings.HasPrefix(t.Func, "decl:") {
			skel[t.Name] = declSkeleton(fset, f, strings.TrimPrefix(t.Func, "decl:"))
			continue
		}
		fd := findFunc(f, t.Recv, t.Func)
		if fd == nil {
			skel[t.Name] = "<<missing: " + t.Recv + "." + t.Func + ">>"
			continue
		}
		skel[t.Name] = skeleton(fset, fd)
	}
	if *expected != "" {
		var e, th bytes.Buffer
		e.WriteString("/- Skeletons of the anchored functions the hand-written models were built from.\n   Written by `extract -expected`, then reviewed and committed (never regenerated by a check). -/\nnamespace FsDb.Tie.Expected\n\n")
		th.WriteString("import FsDb.Generated.Skel\nimport FsDb.Tie.Expected\n/- One tie theorem per anchored function: the code the model was written against is the code in /repo now. -/\nnamespace FsDb.Tie\n\n")
		for _, t := range targets {
			fmt.Fprintf(&e, "def %s : String :=\n  %s\n\n", t.Name, leanStr(skel[t.Name]))
			fmt.Fprintf(&th, "theorem tie_%s : Generated.Skel.%s = Expected.%s := rfl\n", t.Name, t.Name, t.Name)
		}
		e.WriteString("end FsDb.Tie.Expected\n")
		th.WriteString("\nend FsDb.Tie\n")
		must(os.WriteFile(filepath.Join(*expected, "Expected.lean"), e.Bytes(), 0o644))
		must(os.WriteFile(filepath.Join(*expected, "Skel.lean"), th.Bytes(), 0o644))
		return
	}
	var g bytes.Buffer
	g.WriteString("/- GENERATED by /verif/extract from /repo's working tree on every check run. Do not edit. -/\nnamespace FsDb.Generated.Skel\n\n")
	for _, t := range targets {
		fmt.Fprintf(&g, "def %s : String :=\n  %s\n\n", t.Name, leanStr(skel[t.Name]))
	}
	g.WriteString("end FsDb.Generated.Skel\n")
	must(writeIfChanged(filepath.Join(*out, "Skel.lean"), g.Bytes()))
	must(writeTables(*repo, *out))
}

func writeIfChanged(p string, b []byte) error {
	return os.WriteFile(p, b, 0o644)
}

func must(err error) {
	if err != nil {
		fmt.Fprintln(os.Stderr, err)
		os.Exit(2)
	}
}
