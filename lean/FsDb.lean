import FsDb.Model.VFile
import FsDb.Proofs.VFile
import FsDb.Properties.C18
