import FsDb.Model.VFile
import FsDb.Proofs.VFile
import FsDb.Properties.C18
import FsDb.Properties.C19
import FsDb.Properties.C20
import FsDb.Proofs.Refine
