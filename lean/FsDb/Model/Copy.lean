/-
  Model of the content write with no-space continuation
  (internal/repository/content/store.go `Store`, internal/usecase/store/set.go retry loop).

  A content is a byte list.  `io.Copy` hands it to the file in chunks of `chunk` bytes (32 KiB); a
  root with capacity `cap` accepts exactly the first `cap` bytes of what is written to it (a write
  that crosses the limit is partial when `part`, otherwise it writes nothing of its chunk), then
  fails with ENOSPC.  On failure the remaining source is: the file written so far, the rest of the
  failed chunk, the unread rest.  `replayWhole = true` is the pin (the whole failed chunk is
  replayed although a part of it is already in the file).  Core Lean only.
-/
namespace FsDb.Copy

/-- how many bytes of `src` end up in a file that can take `cap` bytes, writing in chunks -/
def accepted (chunk cap : Nat) (part : Bool) (len : Nat) : Nat :=
  if len ≤ cap then len
  else if part then cap
  else cap / chunk * chunk        -- whole chunks only

/-- start of the chunk during which the write failed -/
def failedChunkStart (chunk cap : Nat) : Nat := cap / chunk * chunk

/-- one attempt on a root: either the complete content was stored (`none` = nothing left to do) or
    the source for the next attempt -/
def attempt (replayWhole : Bool) (chunk cap : Nat) (part : Bool) (src : List Nat) :
    List Nat × Option (List Nat) :=
  let a := accepted chunk cap part src.length
  let file := src.take a
  if src.length ≤ cap then (file, none)
  else
    let middleFrom := if replayWhole then failedChunkStart chunk cap else a
    (file, some (file ++ src.drop middleFrom))

/-- the retry loop of `store.Set` over the candidate roots that are tried (capacities in order) -/
def store (replayWhole : Bool) (chunk : Nat) (part : Bool) : List Nat → List Nat → Option (List Nat)
  | _, [] => none                                  -- ErrNoFreeSpace
  | src, cap :: caps =>
    match attempt replayWhole chunk cap part src with
    | (file, none) => some file
    | (_, some src') => store replayWhole chunk part src' caps

end FsDb.Copy
