/-
  Model of the per-key version store of fs_db
  (internal/model/core/{file,list,node}.go, internal/model/sequence/sequence.go).

  The doubly linked list with sentinel is abstracted to a `List Ver` (oldest first);
  the array mirror `arr` used by the binary search is kept as a second list so that
  "arr mirrors l" is an invariant that has to be *proved*, not assumed.
  Core Lean only (this file is linked into the driver executable).
-/
namespace FsDb

/-- A version record: `model.File` (Key, TxId, ContentId, Seq). Transaction and content ids
    are uuids in the code; the model uses first-seen indices (`Nat`). -/
structure Ver where
  key : String
  tx  : Nat
  cid : Nat
  seq : Nat
  /-- ghost: the content number stored under `cid` (`none` = tombstone written by Delete). The code
      finds it through the `fileContent/<cid>` record; `Sys.Inv.stor` proves the two agree. -/
  val : Option Nat := none
deriving DecidableEq, Repr, Inhabited

/-- `binarySearch` of file.go:124-142, same three branches, same slice bounds
    (`arr[:n]`, `arr[n+1:]`). `Seq.Before(o)` is `<`. -/
def bsearch (arr : List Ver) (s : Nat) : Option Ver :=
  if h : arr.length = 0 then none
  else
    let n := arr.length / 2
    have hn : n < arr.length := by omega
    if ¬ (arr[n].seq < s) then
      bsearch (arr.take n) s
    else if h1 : n = arr.length - 1 then
      some arr[n]
    else
      have hn1 : n + 1 < arr.length := by omega
      if ¬ (arr[n+1].seq < s) then some arr[n]
      else bsearch (arr.drop (n+1)) s
termination_by arr.length
decreasing_by
  · simp [List.length_take]; omega
  · simp [List.length_drop]; omega

/-- The abstract meaning of a snapshot lookup: newest version strictly before `s`. -/
def lastBeforeSpec (l : List Ver) (s : Nat) : Option Ver :=
  (l.filter (fun v => v.seq < s)).getLast?

/-- `IterateBeforeSeq(hz)` + `PopFront` as used by `core.DeleteOld` (file.go:108-122,
    delete_old.go:20-29): pop the front while it has a successor whose seq is non-zero and
    not after `hz`. Returns (collected versions in pop order, remaining list). -/
def collect : List Ver → Nat → List Ver × List Ver
  | a :: b :: rest, hz =>
    if b.seq ≠ 0 ∧ ¬ (b.seq > hz) then
      let r := collect (b :: rest) hz
      (a :: r.1, r.2)
    else ([], a :: b :: rest)
  | l, _ => ([], l)

/-- `core.file`: list + array mirror + `withoutSearch`. -/
structure VFile where
  l   : List Ver := []
  arr : List Ver := []
  ws  : Bool := false
deriving DecidableEq, Repr, Inhabited

namespace VFile

/-- file.go:52-62 -/
def pushBack (f : VFile) (v : Ver) : VFile :=
  { f with l := f.l ++ [v], arr := if f.ws then f.arr else f.arr ++ [v] }

/-- file.go:64-75 -/
def popBack (f : VFile) : Option Ver × VFile :=
  match f.l.getLast? with
  | none => (none, f)
  | some v => (some v, { f with l := f.l.dropLast, arr := if f.ws then f.arr else f.arr.dropLast })

/-- file.go:77-89: `copy(arr, arr[1:]); arr = arr[:len-1]` is `tail`. -/
def popFront (f : VFile) : Option Ver × VFile :=
  match f.l with
  | [] => (none, f)
  | v :: t => (some v, { f with l := t, arr := if f.ws then f.arr else f.arr.tail })

/-- file.go:91-97 (`Seq = 0` means "no version"). -/
def latest (f : VFile) : Option Ver := f.l.getLast?

/-- file.go:99-105 -/
def lastBefore (f : VFile) (s : Nat) : Option Ver :=
  if f.arr.length = 0 then none else bsearch f.arr s

/-- `DeleteOld` on one key: iterate + pop front (each pop also shifts `arr`). -/
def collectOld (f : VFile) (hz : Nat) : List Ver × VFile :=
  let r := collect f.l hz
  (r.1, { f with l := r.2, arr := if f.ws then f.arr else f.arr.drop r.1.length })

end VFile

/-- strictly increasing sequence numbers -/
def SortedSeq (l : List Ver) : Prop := l.Pairwise (fun a b => a.seq < b.seq)

structure VFile.WF (f : VFile) : Prop where
  sorted : SortedSeq f.l
  mirror : f.ws = false → f.arr = f.l
  pos    : ∀ v ∈ f.l, v.seq ≠ 0

end FsDb
