import FsDb.Model.Sys
import FsDb.Model.Wire
/-
  The gRPC facade (`pkg/external` client ↔ `internal/app` server) over the sequential system:
  a call is encoded by the client (isolation level → wire enum, content → chunks of the stream
  writer, transaction id → metadata), executed by the server's handler on the SAME use cases the
  inline client calls, and its answer is encoded by the server (error → status code + detail,
  content → chunks) and decoded by the client (status → sentinel class, chunks → bytes).
  The transport itself (gRPC delivers the messages of a call in order, metadata unchanged) is
  trusted.  Core Lean only.
-/
namespace FsDb.Rpc
open FsDb

/-- the sentinels wrapped by the error value the use-case layer returns for an error class
    (`fmt.Errorf("…: %w", err)` chains keep exactly the sentinel; `other`: none of them) -/
def errSet : Err → Wire.ErrSet
  | .notFound => [.notFound]
  | .emptyKey => [.emptyKey]
  | .txNotFound => [.txNotFound]
  | .txSerialization => [.txSerialization]
  | .txAlreadyExists => [.txAlreadyExists]
  | .noFreeSpace => [.noFreeSpace]
  | .other => []

/-- the class `errors.Is` finds on the client side -/
def ofSentinel : Wire.Sentinel → Err
  | .notFound => .notFound
  | .emptyKey => .emptyKey
  | .txNotFound => .txNotFound
  | .txSerialization => .txSerialization
  | .txAlreadyExists => .txAlreadyExists
  | .noFreeSpace => .noFreeSpace
  | .headerNotFound => .other
  | .unknown => .other

def lvlToWire : Level → Wire.Lvl
  | .ru => .ru | .rc => .rc | .rr => .rr | .ser => .ser
def lvlOfWire : Wire.Lvl → Level
  | .ru => .ru | .rc => .rc | .rr => .rr | .ser => .ser

/-- what travels in the answer of a call -/
inductive Reply
  | ok
  | status (code : Wire.Code) (detail : Wire.Sentinel)
  | chunks (cs : List (List Nat))     -- GetFile: the content stream
  | keys (ks : List Key)
  | files (cs : List Nat)
  | bad

/-- the bytes of a content (contents are opaque numbers in `Sys`; `payload` gives their bytes) and
    the number of a byte string: `ident (payload c) = c` is all that is assumed of them -/
structure Codec where
  payload : Nat → List Nat
  ident : List Nat → Nat
  chunk : Nat
  chunk_pos : 0 < chunk
  ident_payload : ∀ c, ident (payload c) = c

def streamOf (cd : Codec) (bytes : List Nat) : List (List Nat) :=
  (Wire.Writer.write cd.chunk {} bytes).close

/-- server side: the handler's answer on the wire -/
def encodeReply (cd : Codec) : Out → Reply
  | .ok => .ok
  | .err e => .status (Wire.serverCode (errSet e)) (Wire.serverDetail (errSet e))
  | .val c => .chunks (streamOf cd (cd.payload c))
  | .keys ks => .keys ks
  | .files cs => .files cs
  | .bad => .bad

/-- client side: what the caller of `pkg/external` gets -/
def decodeReply (cd : Codec) : Reply → Out
  | .ok => .ok
  | .status _ detail => .err (ofSentinel (Wire.clientFromDetail detail))
  | .chunks cs => .val (cd.ident (Wire.readAll cs))
  | .keys ks => .keys ks
  | .files cs => .files cs
  | .bad => .bad

/-- what travels in the request: the operation with the level as wire enum and the content as the
    client's chunk stream -/
inductive Request
  | begin (t : Nat) (lvl : Nat)
  | set (t : Nat) (k : Key) (chunks : List (List Nat))
  | other (op : Op)

def encodeReq (cd : Codec) : Op → Request
  | .begin t l => .begin t (Wire.toGrpc (lvlToWire l))
  | .set t k c => .set t k (streamOf cd (cd.payload c))
  | op => .other op

def decodeReq (cd : Codec) : Request → Op
  | .begin t n => .begin t (lvlOfWire (Wire.fromGrpc n))
  | .set t k cs => .set t k (cd.ident (Wire.readAll cs))
  | .other op => op

/-- one call through the gRPC client against a server whose state is `s` -/
def call (cd : Codec) (s : Sys) (op : Op) : Sys × Out :=
  let r := s.step (decodeReq cd (encodeReq cd op))
  (r.1, decodeReply cd (encodeReply cd r.2))

def run (cd : Codec) (s : Sys) : List Op → Sys × List Out
  | [] => (s, [])
  | op :: ops =>
    let r := call cd s op
    let r2 := run cd r.1 ops
    (r2.1, r.2 :: r2.2)

/-! ### the transport with a message-size limit

gRPC refuses a message larger than the receiver's limit (4 MiB by default, on both sides) with
ResourceExhausted, which the client maps to ErrNoFreeSpace.  Two kinds of message grow with the
caller's data: the header of a request carries the key, and the answer of GetKeys carries every
key in ONE message; contents travel in chunks of `chunk` bytes (assumed below the limit). -/

def keySize (k : Key) : Nat := k.utf8ByteSize

def reqKey : Op → Option Key
  | .set _ k _ => some k
  | .del _ k => some k
  | .get _ k => some k
  | _ => none

def reqFits (lim : Nat) (op : Op) : Bool :=
  match reqKey op with
  | some k => keySize k ≤ lim
  | none => true

def replyFits (lim : Nat) : Out → Bool
  | .keys ks => (ks.map keySize).sum ≤ lim
  | _ => true

/-- one call over the limited transport: a request over the limit is refused by the server before
    the handler runs; an answer over the limit is refused by the client after the handler has run -/
def callLim (cd : Codec) (lim : Nat) (s : Sys) (op : Op) : Sys × Out :=
  if reqFits lim op then
    let r := s.step (decodeReq cd (encodeReq cd op))
    if replyFits lim r.2 then (r.1, decodeReply cd (encodeReply cd r.2))
    else (r.1, .err .noFreeSpace)
  else (s, .err .noFreeSpace)

def runLim (cd : Codec) (lim : Nat) (s : Sys) : List Op → Sys × List Out
  | [] => (s, [])
  | op :: ops =>
    let r := callLim cd lim s op
    let r2 := runLim cd lim r.1 ops
    (r2.1, r.2 :: r2.2)

/-- every message of the history fits -/
def Fits (lim : Nat) (s : Sys) : List Op → Prop
  | [] => True
  | op :: ops => reqFits lim op = true ∧ replyFits lim (s.step op).2 = true ∧ Fits lim (s.step op).1 ops

end FsDb.Rpc
