/-
  The wait-group protocol between `Pool.Send` and `Pool.Stop` (internal/utils/wpool/send.go, stop.go).
  Go's `sync.WaitGroup` panics ("WaitGroup is reused before previous Wait has returned" / "Add called
  concurrently with Wait") when an `Add` that starts from a zero counter happens while a `Wait` is in
  progress.  `guarded = true` is the repaired code: a Send checks the context and adds itself under
  `sendM.RLock`, Stop cancels under `sendM.Lock` before it waits.  `guarded = false` is the pin: the
  Send adds itself first and looks at the context afterwards.  Core Lean only.
-/
namespace FsDb.PoolWg

structure St where
  running : Bool := true      -- the pool's context is not cancelled
  waiting : Bool := false     -- a Stop is inside sendWg.Wait()
  counter : Nat := 0          -- the wait group's counter
  misuse  : Bool := false     -- an Add from zero happened while a Wait was in progress: Go panics
deriving DecidableEq, Repr

inductive Act
  | sendEnter     -- a Send registers itself (or, when guarded and the pool is stopped, returns at once)
  | sendLeave     -- a registered Send returns: Done()
  | stopCancel    -- Stop: cancel(); sendWg.Wait() begins
  | stopWaited    -- the Wait returns (the counter is zero)
  | run           -- Run after a completed Stop
deriving DecidableEq, Repr

def step (guarded : Bool) (s : St) : Act → Option St
  | .sendEnter =>
    if guarded && !s.running then some s
    else some { s with counter := s.counter + 1, misuse := s.misuse || (s.waiting && s.counter == 0) }
  | .sendLeave => if 0 < s.counter then some { s with counter := s.counter - 1 } else none
  | .stopCancel => if s.running then some { s with running := false, waiting := true } else none
  | .stopWaited => if s.waiting ∧ s.counter = 0 then some { s with waiting := false } else none
  | .run => if !s.running ∧ !s.waiting then some { s with running := true } else none

def run (guarded : Bool) (s : St) : List Act → St
  | [] => s
  | a :: as => run guarded ((step guarded s a).getD s) as

end FsDb.PoolWg
