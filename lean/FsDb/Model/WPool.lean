/-
  Model of the deferred-send path of `internal/utils/wpool` (lazy_send.go): senders whose direct
  channel send timed out push their event on a list and try to start the flusher goroutine; the
  flusher pops events and delivers them to the channel until the list is empty.

  Everything a sender does on the deferred path happens under `listM`, and so does the flusher's
  pop: those critical sections are atomic steps of the model (mutex semantics, trusted; the code
  structure is tied by the skeleton texts).  `exitUnderList = true` is the repaired flusher (it
  releases `lazySendM` while still holding `listM`); `false` is the pin (a separate, later step).
  Core Lean only.
-/
namespace FsDb.WPool

/-- program counter of the flusher goroutine -/
inductive FPc
  | off                 -- not running (lazySendM free)
  | loop                -- about to lock the list and pop
  | sending (j : Nat)   -- popped `j`, delivering it to the channel
  | exiting             -- pin only: found the list empty, listM released, lazySendM still held
deriving DecidableEq, Repr

structure St where
  toSend    : List Nat := []     -- events whose Send will take the deferred path (any interleaving)
  list      : List Nat := []     -- the deferred list (`el`)
  lazyM     : Bool := false      -- lazySendM held
  fpc       : FPc := .off
  delivered : List Nat := []     -- events handed to the channel
deriving DecidableEq, Repr

inductive Act | send | flush
deriving DecidableEq, Repr

def step (exitUnderList : Bool) (st : St) : Act → Option St
  | .send =>                                                     -- lazySend: push + lazyResend, under listM
    match st.toSend with
    | [] => none
    | j :: rest =>
      if st.lazyM then some { st with toSend := rest, list := j :: st.list }           -- TryLock fails
      else some { st with toSend := rest, list := j :: st.list, lazyM := true, fpc := .loop }
  | .flush =>
    match st.fpc with
    | .off => none
    | .loop =>                                                   -- lock list, PopBack (LIFO), unlock
      match st.list with
      | [] => if exitUnderList then some { st with lazyM := false, fpc := .off }
              else some { st with fpc := .exiting }
      | j :: rest => some { st with list := rest, fpc := .sending j }
    | .sending j => some { st with delivered := j :: st.delivered, fpc := .loop }     -- p.ch <- event
    | .exiting => some { st with lazyM := false, fpc := .off }

def run (e : Bool) (st : St) : List Act → Option St
  | [] => some st
  | a :: as => match step e st a with
    | some st' => run e st' as
    | none => none

def init (jobs : List Nat) : St := { toSend := jobs }

/-- nothing can move -/
def quiescent (e : Bool) (st : St) : Bool := (step e st .send).isNone && (step e st .flush).isNone

/-- all events, wherever they are -/
def inFlight (st : St) : List Nat :=
  st.toSend ++ st.list ++ (match st.fpc with | .sending j => [j] | _ => []) ++ st.delivered

end FsDb.WPool
