/-
  Model of directory placement and rotation:
    internal/usecase/dir/get.go (Get), internal/repository/dir/{repository,get,create,add,remove,get_roots}.go,
    the directory choice of store.Set and the re-activation in cleaner.deleteFile.
  A directory is abstracted to (number of entries, active?) — directories are uuid-named and
  interchangeable; a root is the list of its directories.  Core Lean only.
-/
namespace FsDb.Dir

structure D where
  count  : Nat
  active : Bool
deriving DecidableEq, Repr

abbrev Root := List D

/-- `dir.Get` for one root: make sure there is an active directory, then replace every active
    directory that is full by a fresh one (the full one is taken out of the registry) -/
def getRoot (max : Nat) (r : Root) : Root :=
  let r1 := if r.any (·.active) then r else r ++ [⟨0, true⟩]
  let full := r1.filter (fun d => d.active && decide (max ≤ d.count))
  r1.map (fun d => if d.active && decide (max ≤ d.count) then { d with active := false } else d)
    ++ full.map (fun _ => ⟨0, true⟩)

/-- the candidates `dir.Get` returns for a root: the active directories (all below `max`) -/
def candidates (r : Root) : List D := r.filter (·.active)

/-- put one file into an active directory of the root that currently has `c` entries -/
def putAt : Root → Nat → Option Root
  | [], _ => none
  | d :: t, c => if d.active && d.count == c then some ({ d with count := c + 1 } :: t)
                 else (putAt t c).map (d :: ·)

/-- remove one file from a directory with `c` entries: the directory is registered again -/
def delAt : Root → Nat → Option Root
  | [], _ => none
  | d :: t, c => if d.count == c && c > 0 then some (⟨c - 1, true⟩ :: t)
                 else (delAt t c).map (d :: ·)

structure St where
  max   : Nat
  roots : List Root

def St.get (s : St) : St := { s with roots := s.roots.map (getRoot s.max) }

def updateNth (l : List Root) (i : Nat) (f : Root → Option Root) : Option (List Root) :=
  match l, i with
  | [], _ => none
  | r :: t, 0 => (f r).map (· :: t)
  | r :: t, i + 1 => (updateNth t i f).map (r :: ·)

/-- `store.Set`: dir.Get (rotation on every root), then the file goes to the observed directory -/
def St.put (s : St) (root c : Nat) : Option St :=
  let s1 := s.get
  (updateNth s1.roots root (fun r => putAt r c)).map (fun rs => { s1 with roots := rs })

def St.del (s : St) (root c : Nat) : Option St :=
  (updateNth s.roots root (fun r => delAt r c)).map (fun rs => { s with roots := rs })

/-- reopen: every uuid-named directory found under a root is registered as active -/
def St.reopen (s : St) : St := { s with roots := s.roots.map (fun r => r.map (fun d => { d with active := true })) }

end FsDb.Dir
