/-
  Model of config.ParseConfig / ParseEnv / Storage.Valid (config/config.go).
  Each of the seven settings has a file layer and an environment layer.  Concrete values are
  abstracted to *tokens* (which layer the effective value came from); the parsers
  (strconv.Atoi, ParseUint, time.ParseDuration, yaml.v2) are parameters with the contract
  "malformed ⇒ error" (trusted, exercised by the correspondence run).
-/
namespace FsDb.Config

inductive FileL | absent | present | zero | malformed
deriving DecidableEq, Repr
-- `zero`: present in the file with the zero value ("" / [] / 0)

inductive EnvL | unset | empty | present | malformed | zero
deriving DecidableEq, Repr
-- `zero`: set to a well-formed zero ("0", "0s"); only the numeric / duration settings can have it
-- (for the string settings an empty value is `empty`: ignored)

/-- where the effective value came from -/
inductive Tok | D | F | E | Z | C
deriving DecidableEq, Repr
-- D default, F file, E environment, Z zero value (from the file, or a zero in the environment),
-- C clamped to the minimum (100)

structure Setting where
  file : FileL
  env  : EnvL
deriving DecidableEq, Repr

/-- the seven settings in the order `ParseEnv` consults them -/
structure Layers where
  port : Setting
  dbPath : Setting
  dirCount : Setting
  rootDirs : Setting
  gcPeriod : Setting
  numWorkers : Setting
  sendDuration : Setting
deriving DecidableEq, Repr

def Layers.toList (l : Layers) : List Setting :=
  [l.port, l.dbPath, l.dirCount, l.rootDirs, l.gcPeriod, l.numWorkers, l.sendDuration]

inductive Err | decode | envParse | emptyDbPath | emptyRootDirs
deriving DecidableEq, Repr

/-- value after the file layer: `conf := defaultConfig; yaml.Decode(&conf)` -/
def afterFile (s : Setting) : Tok :=
  match s.file with
  | .absent => .D
  | .present => .F
  | .zero => .Z
  | .malformed => .D  -- never observed: a malformed file aborts ParseConfig

/-- `if env, ok := os.LookupEnv(..); ok && env != "" { parse }` -/
def afterEnv (s : Setting) : Except Err Tok :=
  match s.env with
  | .unset | .empty => .ok (afterFile s)
  | .present => .ok .E
  | .zero => .ok .Z                      -- a parsed zero is a value like any other: it wins
  | .malformed => .error .envParse

structure Eff where
  port : Tok
  dbPath : Tok
  dirCount : Tok
  rootDirs : Tok
  gcPeriod : Tok
  numWorkers : Tok
  sendDuration : Tok
deriving DecidableEq, Repr

/-- `ParseConfig(confFile)`; `hasFile = false` models `confFile == ""` (file layers ignored) -/
def parseConfig (hasFile : Bool) (l0 : Layers) : Except Err Eff :=
  let strip (s : Setting) : Setting := if hasFile then s else { s with file := .absent }
  let l : Layers := ⟨strip l0.port, strip l0.dbPath, strip l0.dirCount, strip l0.rootDirs,
                     strip l0.gcPeriod, strip l0.numWorkers, strip l0.sendDuration⟩
  if l.toList.any (fun s => s.file == .malformed) then .error .decode
  else do
    let port ← afterEnv l.port
    let dbPath ← afterEnv l.dbPath
    let dirCount ← afterEnv l.dirCount
    let rootDirs ← afterEnv l.rootDirs
    let gcPeriod ← afterEnv l.gcPeriod
    let numWorkers ← afterEnv l.numWorkers
    let sendDuration ← afterEnv l.sendDuration
    pure ⟨port, dbPath, dirCount, rootDirs, gcPeriod, numWorkers, sendDuration⟩

/-- which tokens denote a directory limit below `minDirCount = 100`
    (harness values: file value 50, zero value 0; default 1_000_000 and env value 200 are not) -/
def belowMin (t : Tok) : Bool := t == .F || t == .Z

/-- `Storage.Valid` -/
def valid (e : Eff) : Except Err Eff :=
  if e.dbPath == .Z then .error .emptyDbPath
  else
    let e' := if belowMin e.dirCount then { e with dirCount := .C } else e
    if e.rootDirs == .Z then .error .emptyRootDirs else .ok e'

def load (hasFile : Bool) (l : Layers) : Except Err Eff := parseConfig hasFile l >>= valid

end FsDb.Config
