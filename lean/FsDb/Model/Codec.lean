/-
  Model of the persisted version record (internal/repository/file/conversion.go, set.go,
  get_all.go, repository.go `key`) and of the canonical uuid text form used for ids.
  Bytes are `UInt8`; the 64-bit sequence is a `Nat` below 2^64 (little-endian bytes are
  computed arithmetically so that the proofs stay inside `omega`, no bit-blasting).
-/
namespace FsDb.Codec

abbrev Bytes := List UInt8

def uuidLen : Nat := 16
def timeLen : Nat := 8
def fileLenWithoutKey : Nat := 2 * uuidLen + timeLen

/-- `binary.LittleEndian.PutUint64` -/
def le64 (n : Nat) : Bytes :=
  [UInt8.ofNat (n % 256), UInt8.ofNat (n / 256 % 256), UInt8.ofNat (n / 65536 % 256),
   UInt8.ofNat (n / 16777216 % 256), UInt8.ofNat (n / 4294967296 % 256),
   UInt8.ofNat (n / 1099511627776 % 256), UInt8.ofNat (n / 281474976710656 % 256),
   UInt8.ofNat (n / 72057594037927936 % 256)]

/-- `binary.LittleEndian.Uint64` (on the first 8 bytes; missing bytes count as 0 — never used
    on shorter input because `decode` checks the length first) -/
def fromLe64 (bs : Bytes) : Nat :=
  let b (i : Nat) : Nat := (bs.getD i 0).toNat
  b 0 + 256 * b 1 + 65536 * b 2 + 16777216 * b 3 + 4294967296 * b 4 + 1099511627776 * b 5
    + 281474976710656 * b 6 + 72057594037927936 * b 7

/-- a version record with binary ids -/
structure Rec where
  seq : Nat
  tx  : Bytes
  cid : Bytes
  key : Bytes
deriving DecidableEq, Repr

/-- `marshalFile`: seq (8 bytes LE) ++ tx id (16) ++ content id (16) ++ raw key -/
def encode (r : Rec) : Bytes := le64 r.seq ++ r.tx ++ r.cid ++ r.key

/-- `unmarshalFile`: rejects anything shorter than the fixed header -/
def decode (bs : Bytes) : Option Rec :=
  if bs.length < fileLenWithoutKey then none
  else some { seq := fromLe64 (bs.take timeLen),
              tx := (bs.drop timeLen).take uuidLen,
              cid := (bs.drop (timeLen + uuidLen)).take uuidLen,
              key := bs.drop fileLenWithoutKey }

/-! ### canonical uuid text (google/uuid `String` / `Parse` restricted to the canonical form) -/

def hexDigit (n : Nat) : Char :=
  if n < 10 then Char.ofNat (48 + n) else Char.ofNat (87 + n)

def hexVal (c : Char) : Option Nat :=
  let n := c.toNat
  if 48 ≤ n ∧ n ≤ 57 then some (n - 48)
  else if 97 ≤ n ∧ n ≤ 102 then some (n - 87)
  else if 65 ≤ n ∧ n ≤ 70 then some (n - 55)
  else none

def fmtByte (b : UInt8) : List Char := [hexDigit (b.toNat / 16), hexDigit (b.toNat % 16)]

def parseByte (hi lo : Char) : Option UInt8 :=
  match hexVal hi, hexVal lo with
  | some h, some l => some (UInt8.ofNat (h * 16 + l))
  | _, _ => none

def fmtBytes : Bytes → List Char
  | [] => []
  | b :: t => fmtByte b ++ fmtBytes t

def parseHex : List Char → Option Bytes
  | [] => some []
  | [_] => none
  | hi :: lo :: t =>
    match parseByte hi lo, parseHex t with
    | some b, some r => some (b :: r)
    | _, _ => none

/-- 8-4-4-4-12 -/
def formatUuid (b : Bytes) : List Char :=
  fmtBytes (b.take 4) ++ ['-'] ++ fmtBytes ((b.drop 4).take 2) ++ ['-'] ++
  fmtBytes ((b.drop 6).take 2) ++ ['-'] ++ fmtBytes ((b.drop 8).take 2) ++ ['-'] ++
  fmtBytes (b.drop 10)

def parseUuid (s : List Char) : Option Bytes :=
  if s.length ≠ 36 then none
  else if s.getD 8 ' ' ≠ '-' ∨ s.getD 13 ' ' ≠ '-' ∨ s.getD 18 ' ' ≠ '-' ∨ s.getD 23 ' ' ≠ '-' then none
  else
    match parseHex (s.take 8), parseHex ((s.drop 9).take 4), parseHex ((s.drop 14).take 4),
          parseHex ((s.drop 19).take 4), parseHex (s.drop 24) with
    | some a, some b, some c, some d, some e => some (a ++ b ++ c ++ d ++ e)
    | _, _, _, _, _ => none

/-- Badger key of a version record: `"file/" + contentId` (repository.go) -/
def fileKey (cid : Bytes) : List Char := "file/".toList ++ formatUuid cid

/-- `Repo.Set`: (key, value); the Go code rejects ids that are not uuids — in the model ids are
    binary and the guard is the length. -/
def repoSet (r : Rec) : Option (List Char × Bytes) :=
  if r.tx.length = uuidLen ∧ r.cid.length = uuidLen then some (fileKey r.cid, encode r) else none

end FsDb.Codec
