/-
  Models of the gRPC glue: error mapping (internal/adapter/errors), isolation-level mapping
  (internal/adapter/iso_level), chunked stream writer / reader
  (internal/utils/grpc/streamwriter, streamreader).  Core Lean only.
-/
namespace FsDb.Wire

/-! ### error classes -/

/-- the exported sentinel errors a caller can test with `errors.Is` -/
inductive Sentinel
  | unknown | noFreeSpace | notFound | emptyKey | headerNotFound | txNotFound | txAlreadyExists | txSerialization
deriving DecidableEq, Repr

/-- an error value, abstracted to the set of sentinels it wraps (`errors.Is` is the only observation,
    so any `%w` / `errors.Join` wrapping collapses to this) -/
abbrev ErrSet := List Sentinel

/-- gRPC status codes used -/
inductive Code
  | resourceExhausted | notFound | invalidArgument | aborted | alreadyExists | failedPrecondition | internal | other
deriving DecidableEq, Repr

/-- `Error`: status code by the first matching sentinel in the order of the switch -/
def serverCode (e : ErrSet) : Code :=
  if .noFreeSpace ∈ e then .resourceExhausted
  else if .notFound ∈ e then .notFound
  else if .emptyKey ∈ e then .invalidArgument
  else if .txNotFound ∈ e then .aborted
  else if .txAlreadyExists ∈ e then .alreadyExists
  else if .txSerialization ∈ e then .failedPrecondition
  else .internal

/-- `errorToPbError`: detail code by the first matching sentinel (default: ErrUnknown) -/
def serverDetail (e : ErrSet) : Sentinel :=
  if .noFreeSpace ∈ e then .noFreeSpace
  else if .notFound ∈ e then .notFound
  else if .emptyKey ∈ e then .emptyKey
  else if .headerNotFound ∈ e then .headerNotFound
  else if .txNotFound ∈ e then .txNotFound
  else if .txAlreadyExists ∈ e then .txAlreadyExists
  else if .txSerialization ∈ e then .txSerialization
  else .unknown

/-- `ClientError` when the status carries the detail (it always does for errors made by `Error`) -/
def clientFromDetail (d : Sentinel) : Sentinel := d

/-- `ClientError` when the status carries no detail (errors made by gRPC itself) -/
def clientFromCode : Code → Sentinel
  | .invalidArgument => .emptyKey
  | .notFound => .notFound
  | .alreadyExists => .txAlreadyExists
  | .resourceExhausted => .noFreeSpace
  | .failedPrecondition => .txSerialization
  | .aborted => .txNotFound
  | .internal => .unknown
  | .other => .unknown

/-- what the caller of the gRPC client observes for a server-side error -/
def roundTrip (e : ErrSet) : Sentinel := clientFromDetail (serverDetail e)

/-! ### isolation levels -/

inductive Lvl | ru | rc | rr | ser
deriving DecidableEq, Repr

/-- `ConvertToGrpc` then `Convert` (the wire enum has the same four values) -/
def toGrpc (l : Lvl) : Nat := match l with | .ru => 0 | .rc => 1 | .rr => 2 | .ser => 3
def fromGrpc (n : Nat) : Lvl := match n with | 0 => .ru | 1 => .rc | 2 => .rr | 3 => .ser | _ => .rc

/-! ### chunked stream -/

/-- the stream writer: buffer writes, emit full chunks of `cs` bytes, the rest at Close -/
structure Writer where
  buf : List Nat := []
  sent : List (List Nat) := []

def emitFull (cs : Nat) (fuel : Nat) (buf : List Nat) (sent : List (List Nat)) : List Nat × List (List Nat) :=
  match fuel with
  | 0 => (buf, sent)
  | fuel + 1 => if cs ≤ buf.length ∧ 0 < cs then emitFull cs fuel (buf.drop cs) (sent ++ [buf.take cs]) else (buf, sent)

def Writer.write (cs : Nat) (w : Writer) (p : List Nat) : Writer :=
  let r := emitFull cs (w.buf.length + p.length + 1) (w.buf ++ p) w.sent
  { buf := r.1, sent := r.2 }

def Writer.close (w : Writer) : List (List Nat) := if w.buf.isEmpty then w.sent else w.sent ++ [w.buf]

/-- the stream reader: concatenate the received chunks -/
def readAll (chunks : List (List Nat)) : List Nat := chunks.flatten

end FsDb.Wire
