/-
  Model of the whole worker pool `internal/utils/wpool` (pool.go, run.go, send.go, lazy_send.go,
  stop.go): Run / Send (direct, or deferred after the timeout) / the flusher goroutine / the workers /
  Stop, as one small-step transition system.  `Model/WPool` is its deferred-send fragment.

  Goroutines are anonymous: a job "in the hand" of a goroutine is an element of a list (`sel`: Sends
  inside their `select`; `lazy`: Sends whose timeout fired, about to run `lazySend`; `execing`: jobs a
  worker is executing), idle / exited workers are counted.  A `select` offers every case that is
  ready: `ctx.Done()` once the context is cancelled, `ch <- e` while the channel has room, the timeout
  always.  Critical sections under `listM` are steps; a Send's check-and-register (under `sendM`, which
  Stop takes to cancel) is one step.  `sendWg` = Sends not yet returned + a running flusher; `runWg` = workers not yet exited.  Core Lean only.
-/
namespace FsDb.Pool

inductive FPc
  | off | loop | sending (j : Nat)
deriving DecidableEq, Repr

inductive StopPc
  | idle          -- no Stop in progress
  | cancelled     -- ctx cancelled, waiting for sendWg
  | waitedSend    -- waiting for runWg
deriving DecidableEq, Repr

structure St where
  nw : Nat                      -- NumWorkers
  cap : Nat                     -- channel capacity (2 * NumWorkers)
  running : Bool := false       -- p.ctx not cancelled
  runM : Bool := false          -- runM held: between Run and the end of Stop
  sel : List Nat := []
  lazy : List Nat := []
  ch : List Nat := []
  list : List Nat := []
  lazyM : Bool := false
  fpc : FPc := .off
  idleW : Nat := 0
  exitedW : Nat := 0
  execing : List Nat := []
  accepted : List Nat := []
  executed : List Nat := []
  dropped : List Nat := []      -- jobs given up because the pool was being stopped
  stop : StopPc := .idle
deriving Repr

inductive Act
  | run
  | send (j : Nat)          -- Send(e): under sendM.RLock: ctx.Err() check, sendWg.Add; accepted
  | selPush (j : Nat)       -- select: ch <- e
  | selDone (j : Nat)       -- select: <-ctx.Done()
  | selTimeout (j : Nat)    -- select: <-time.After(SendDuration)
  | lazyPush (j : Nat)      -- lazySend: push under listM, lazyResend (TryLock lazySendM, start the flusher)
  | flush                   -- flusher: pop under listM (or decide to exit); or deliver to the channel
  | flushDone               -- flusher's select: <-ctx.Done()
  | take                    -- worker: e := <-ch
  | finish (j : Nat)        -- worker: e.Fn returned
  | workerExit              -- worker's select: <-ctx.Done()
  | stop                    -- next step of Stop
deriving DecidableEq, Repr

def hand : FPc → List Nat
  | .sending j => [j]
  | _ => []

def step (s : St) : Act → Option St
  | .run =>
    if s.runM then some s          -- "worker pool already running"
    else some { s with runM := true, running := true, ch := [], idleW := s.nw, exitedW := 0 }
  | .send j =>
    if s.running then some { s with accepted := j :: s.accepted, sel := j :: s.sel }
    else some s                     -- ctx.Err() != nil: the event is not accepted
  | .selPush j =>
    if j ∈ s.sel ∧ s.ch.length < s.cap then some { s with sel := s.sel.erase j, ch := s.ch ++ [j] } else none
  | .selDone j =>
    if j ∈ s.sel ∧ !s.running then some { s with sel := s.sel.erase j, dropped := j :: s.dropped } else none
  | .selTimeout j =>
    if j ∈ s.sel then some { s with sel := s.sel.erase j, lazy := j :: s.lazy } else none
  | .lazyPush j =>
    if j ∈ s.lazy then
      if s.lazyM then some { s with lazy := s.lazy.erase j, list := j :: s.list }
      else some { s with lazy := s.lazy.erase j, list := j :: s.list, lazyM := true, fpc := .loop }
    else none
  | .flush =>
    match s.fpc with
    | .off => none
    | .loop =>
      match s.list with
      | [] => some { s with lazyM := false, fpc := .off }
      | j :: rest => some { s with list := rest, fpc := .sending j }
    | .sending j => if s.ch.length < s.cap then some { s with ch := s.ch ++ [j], fpc := .loop } else none
  | .flushDone =>
    match s.fpc with
    | .sending j => if !s.running then some { s with lazyM := false, fpc := .off, dropped := j :: s.dropped } else none
    | _ => none
  | .take =>
    match s.ch with
    | j :: rest => if 0 < s.idleW then some { s with ch := rest, idleW := s.idleW - 1, execing := j :: s.execing } else none
    | [] => none
  | .finish j =>
    if j ∈ s.execing then some { s with execing := s.execing.erase j, executed := j :: s.executed, idleW := s.idleW + 1 } else none
  | .workerExit =>
    if 0 < s.idleW ∧ !s.running then some { s with idleW := s.idleW - 1, exitedW := s.exitedW + 1 } else none
  | .stop =>
    match s.stop with
    | .idle => if s.runM ∧ s.running then some { s with running := false, stop := .cancelled } else none
    | .cancelled =>        -- sendWg.Wait(): every Send returned, no flusher running
      if s.sel = [] ∧ s.lazy = [] ∧ s.fpc = .off then some { s with stop := .waitedSend } else none
    | .waitedSend =>       -- runWg.Wait(); close(ch); el.Clear(); runM.Unlock()
      if s.idleW = 0 ∧ s.execing = [] then
        some { s with dropped := s.ch ++ s.list ++ s.dropped, ch := [], list := [], runM := false, stop := .idle }
      else none

def run (s : St) : List Act → St
  | [] => s
  | a :: as => run ((step s a).getD s) as

def init (nw : Nat) : St := { nw := nw, cap := 2 * nw }

/-- every place a job can be -/
def places (s : St) : List Nat :=
  s.sel ++ s.lazy ++ s.ch ++ s.list ++ hand s.fpc ++ s.execing ++ s.executed ++ s.dropped

end FsDb.Pool
