/-
  Small-step model of `internal/utils/async.readWriter` as used by inline `Create`:
  a writer goroutine (Write* then Close) and the storing goroutine (a loop of `Read(32 KiB)` until
  EOF) over a mutex, a condition variable, the `closed` flag, a byte buffer and the wait group.

  `loopRecheck = true, closeLocked = true`  : the repaired code (Read re-checks in a `for`, Close sets
                                              `closed` under the mutex)
  `loopRecheck = false`                     : the pin's `if` (no re-check after the wake-up)
  `closeLocked = false`                     : the pin's Close (flag + broadcast without the mutex)
  Every step is the code between two hook points (DESIGN Appendix A.2).  Core Lean only.
-/
namespace FsDb.Async

inductive Owner | none | w | s
deriving DecidableEq, Repr

/-- program counter of the storing goroutine -/
inductive SPc | idle | check | enqueue | sleep | relock | take | done
deriving DecidableEq, Repr

/-- program counter of the writer / closer -/
inductive WPc | ready | append | signal | closeStore | bcast | waitDone | returned
deriving DecidableEq, Repr

structure Cfg where
  loopRecheck : Bool := true
  closeLocked : Bool := true
  cap : Nat := 4          -- read buffer size (32 KiB in io.Copy; any positive number)
deriving DecidableEq, Repr

structure St where
  m : Owner := .none
  closed : Bool := false
  buf : List Nat := []
  spc : SPc := .idle
  wpc : WPc := .ready
  script : List (List Nat) := []     -- chunks still to be written
  written : List Nat := []           -- ghost: everything appended so far
  consumed : List Nat := []          -- what the storer has read
deriving DecidableEq, Repr

inductive Who | W | S
deriving DecidableEq, Repr

/-- `Signal` / `Broadcast`: wake the storer if it sleeps (it then has to re-acquire the mutex) -/
def wake (st : St) : St := if st.spc = .sleep then { st with spc := .relock } else st

/-- one step of an actor; `none` = not enabled (blocked) -/
def step (cfg : Cfg) (st : St) : Who → Option St
  | .S =>
    match st.spc with
    | .idle => if st.m = .none then some { st with m := .s, spc := .check } else none            -- rd.lock
    | .check =>                                                                                    -- rd.check
      if !st.closed && st.buf.isEmpty then some { st with spc := .enqueue }                        -- decided to wait
      else some { st with spc := .take }
    | .enqueue => some { st with m := .none, spc := .sleep }                                       -- cv.Wait: ticket + unlock + sleep
    | .sleep => none
    | .relock =>                                                                                   -- wake-up: re-lock
      if st.m = .none then some { st with m := .s, spc := if cfg.loopRecheck then .check else .take } else none
    | .take =>                                                                                     -- buf.Read + unlock
      if st.buf.isEmpty then some { st with m := .none, spc := .done }                             -- io.EOF
      else some { st with m := .none, spc := .idle, consumed := st.consumed ++ st.buf.take cfg.cap,
                          buf := st.buf.drop cfg.cap }
    | .done => none
  | .W =>
    match st.wpc with
    | .ready =>
      match st.script with
      | _ :: _ => if st.m = .none then some { st with m := .w, wpc := .append } else none          -- wr.lock
      | [] =>
        if cfg.closeLocked then
          if st.m = .none then some { st with m := .w, wpc := .closeStore } else none              -- cl.lock
        else some { st with closed := true, wpc := .bcast }                                        -- pin: store without mutex
    | .append =>                                                                                   -- wr.append + unlock
      match st.script with
      | c :: rest => some { st with buf := st.buf ++ c, written := st.written ++ c, script := rest,
                                    m := .none, wpc := .signal }
      | [] => none
    | .signal => some { wake st with wpc := .ready }                                                -- wr.signal
    | .closeStore => some { st with closed := true, m := .none, wpc := .bcast }                    -- cl.store + unlock
    | .bcast => some { wake st with wpc := .waitDone }                                              -- cl.broadcast
    | .waitDone => if st.spc = .done then some { st with wpc := .returned } else none              -- cl.wait
    | .returned => none

def run (cfg : Cfg) (st : St) : List Who → Option St
  | [] => some st
  | a :: as => match step cfg st a with
    | some st' => run cfg st' as
    | none => none

def init (script : List (List Nat)) : St := { script := script }

/-- nobody can move -/
def stuck (cfg : Cfg) (st : St) : Bool := (step cfg st .W).isNone && (step cfg st .S).isNone

end FsDb.Async
