/-
  C15: lock discipline.  Two layers.

  (1) A *static checker* over the lock skeleton of a Go function (regenerated from /repo's source
      on every run by /verif/lockx): the skeleton is a structured statement whose leaves are
      `acq l w` (Lock / RLock of the mutex named `l`), `rel l w` (Unlock / RUnlock) and `need l w`
      ("this statement reads (w = false) or writes (w = true) state that the guard table assigns
      to mutex `l`").  `check` computes the set of held locks along every path at once, demands
      that joins agree, that every `need` is covered and that a function returns with what it was
      entered with.  `Exec` is the path semantics the checker is proved sound for.

  (2) A *global* trace semantics: threads interleave their events; an acquisition respects the
      mutual exclusion of sync.Mutex / sync.RWMutex.  Theorem (Proofs/Lockset): two `need`s of
      the same lock by different threads, one of them a write, always have a release by the first
      thread and a later acquisition by the second between them -- the synchronisation edge the Go
      memory model requires, so they are ordered by happens-before and are not a data race.

  Core Lean only.
-/
namespace FsDb.Lockset

abbrev Lock := Nat

/-- what one goroutine does that matters for lock discipline -/
inductive Ev
  | acq (l : Lock) (w : Bool)     -- w: exclusive (Lock) / shared (RLock)
  | rel (l : Lock) (w : Bool)
  | need (l : Lock) (w : Bool)    -- access to state guarded by `l`; w: write
deriving DecidableEq, Repr

/-- the locks a goroutine holds, with their mode; kept sorted so that equal sets are equal lists -/
abbrev LS := List (Lock × Bool)

def LS.holds (L : LS) (l : Lock) : Bool := L.any (fun e => e.1 == l)

def LS.insert (L : LS) (e : Lock × Bool) : LS :=
  match L with
  | [] => [e]
  | x :: xs => if e.1 ≤ x.1 then e :: x :: xs else x :: LS.insert xs e

/-- `need l w` is covered: the lock is held exclusively, or shared for a read -/
def LS.covers (L : LS) (l : Lock) (w : Bool) : Bool := L.contains (l, true) || (!w && L.contains (l, false))

/-- one event against the goroutine's own lockset; `none`: undisciplined -/
def LS.step (L : LS) : Ev → Option LS
  | .acq l w => if L.holds l then none else some (L.insert (l, w))     -- Go mutexes are not re-entrant
  | .rel l w => if L.contains (l, w) then some (L.filter (fun e => e != (l, w))) else none
  | .need l w => if L.covers l w then some L else none

def LS.run (L : LS) : List Ev → Option LS
  | [] => some L
  | e :: es => match L.step e with
    | none => none
    | some L' => LS.run L' es

/-- lock skeleton of a function body -/
inductive Stmt
  | skip
  | ev (e : Ev)
  | seq (a b : Stmt)
  | alt (a b : Stmt)            -- if / switch / select: one of
  | loop (body : Stmt)          -- for / range: any number of iterations
  | scope (body fin : Stmt)     -- `defer fin` followed by `body`: `fin` runs when `body` completes or returns
  | frame (body : Stmt)         -- an inlined call: `return` ends the frame
  | block (body : Stmt)         -- switch / select: `break` ends the block
  | ret
  | brk
  | cont
  | bad                         -- something the translator does not understand: never accepted
deriving Repr

/-- how a path through a statement ends -/
inductive Out | normal | ret | brk | cont
deriving DecidableEq, Repr

/-- path semantics: the events of one execution of the statement and how it ended -/
inductive Exec : Stmt → List Ev → Out → Prop
  | skip : Exec .skip [] .normal
  | ev (e) : Exec (.ev e) [e] .normal
  | seqN {a b p q o} : Exec a p .normal → Exec b q o → Exec (.seq a b) (p ++ q) o
  | seqA {a b p o} : Exec a p o → o ≠ .normal → Exec (.seq a b) p o
  | altL {a b p o} : Exec a p o → Exec (.alt a b) p o
  | altR {a b p o} : Exec b p o → Exec (.alt a b) p o
  | loop0 {a} : Exec (.loop a) [] .normal
  | loopN {a p q o} : Exec a p .normal → Exec (.loop a) q o → Exec (.loop a) (p ++ q) o
  | loopC {a p q o} : Exec a p .cont → Exec (.loop a) q o → Exec (.loop a) (p ++ q) o
  | loopB {a p} : Exec a p .brk → Exec (.loop a) p .normal
  | loopR {a p} : Exec a p .ret → Exec (.loop a) p .ret
  | scopeN {a f p q o} : Exec a p .normal → Exec f q o → Exec (.scope a f) (p ++ q) o
  | scopeR {a f p q} : Exec a p .ret → Exec f q .normal → Exec (.scope a f) (p ++ q) .ret
  | frameN {a p} : Exec a p .normal → Exec (.frame a) p .normal
  | frameR {a p} : Exec a p .ret → Exec (.frame a) p .normal
  | blockN {a p} : Exec a p .normal → Exec (.block a) p .normal
  | blockB {a p} : Exec a p .brk → Exec (.block a) p .normal
  | blockR {a p} : Exec a p .ret → Exec (.block a) p .ret
  | blockC {a p} : Exec a p .cont → Exec (.block a) p .cont
  | ret : Exec .ret [] .ret
  | brk : Exec .brk [] .brk
  | cont : Exec .cont [] .cont

/-- result of the static checker: for each way a statement can end, the one lockset every path
    ending that way holds (`none`: no path ends that way) -/
structure Res where
  norm : Option LS := none
  ret  : Option LS := none
  brk  : Option LS := none
  cont : Option LS := none
deriving DecidableEq, Repr

def Res.get (r : Res) : Out → Option LS
  | .normal => r.norm
  | .ret => r.ret
  | .brk => r.brk
  | .cont => r.cont

/-- join of two path sets: they must agree -/
def mergeO : Option LS → Option LS → Option (Option LS)
  | none, y => some y
  | some x, none => some (some x)
  | some x, some y => if x = y then some (some x) else none

def Res.merge (a b : Res) : Option Res :=
  match mergeO a.norm b.norm, mergeO a.ret b.ret, mergeO a.brk b.brk, mergeO a.cont b.cont with
  | some n, some r, some k, some c => some { norm := n, ret := r, brk := k, cont := c }
  | _, _, _, _ => none

/-- `none` or exactly `L` -/
def okEq (x : Option LS) (L : LS) : Bool :=
  match x with
  | none => true
  | some L' => L' == L

/-- the static checker; `none`: rejected -/
def check : Stmt → LS → Option Res
  | .skip, L => some { norm := some L }
  | .ev e, L =>
    match L.step e with
    | none => none
    | some L' => some { norm := some L' }
  | .seq a b, L =>
    match check a L with
    | none => none
    | some ra =>
      match ra.norm with
      | none => some ra
      | some L1 =>
        match check b L1 with
        | none => none
        | some rb => Res.merge { ra with norm := none } rb
  | .alt a b, L =>
    match check a L, check b L with
    | some ra, some rb => Res.merge ra rb
    | _, _ => none
  | .loop a, L =>
    match check a L with
    | none => none
    | some ra => if okEq ra.norm L && okEq ra.cont L && okEq ra.brk L then some { norm := some L, ret := ra.ret } else none
  | .scope a f, L =>
    match check a L with
    | none => none
    | some ra =>
      if ra.brk.isSome || ra.cont.isSome then none else
      let rn : Option Res := match ra.norm with
        | none => some {}
        | some L1 => check f L1
      let rr : Option Res := match ra.ret with
        | none => some {}
        | some L2 =>
          match check f L2 with
          | none => none
          | some rf => if rf.ret.isSome || rf.brk.isSome || rf.cont.isSome then none else some { ret := rf.norm }
      match rn, rr with
      | some x, some y => Res.merge x y
      | _, _ => none
  | .frame a, L =>
    match check a L with
    | none => none
    | some ra =>
      if ra.brk.isSome || ra.cont.isSome then none else
      match mergeO ra.norm ra.ret with
      | none => none
      | some n => some { norm := n }
  | .block a, L =>
    match check a L with
    | none => none
    | some ra =>
      match mergeO ra.norm ra.brk with
      | none => none
      | some n => some { norm := n, ret := ra.ret, cont := ra.cont }
  | .ret, L => some { ret := some L }
  | .brk, L => some { brk := some L }
  | .cont, L => some { cont := some L }
  | .bad, _ => none

/-- a root (API entry point, goroutine body, escaping closure) is accepted when it is disciplined
    from the empty lockset and gives back everything it took -/
def rootOk (body : Stmt) : Bool :=
  match check body [] with
  | none => false
  | some r => okEq r.norm [] && okEq r.ret [] && r.brk.isNone && r.cont.isNone

/-- complete executions of a root -/
def RootPath (body : Stmt) (p : List Ev) : Prop := Exec body p .normal ∨ Exec body p .ret

/-! ### global semantics -/

abbrev Thread := Nat

/-- the locksets of all goroutines -/
abbrev Held := Thread → LS

/-- sync.Mutex / sync.RWMutex: an exclusive acquisition needs the lock free, a shared one needs
    no exclusive holder -/
def compat (H : Held) (t : Thread) (l : Lock) (w : Bool) : Prop :=
  ∀ t', t' ≠ t → (l, true) ∉ H t' ∧ (w = true → (l, false) ∉ H t')

def Held.set (H : Held) (t : Thread) (L : LS) : Held := fun t' => if t' = t then L else H t'

/-- a trace all goroutines can produce: every event is disciplined in its own goroutine's lockset
    and acquisitions respect mutual exclusion -/
inductive GValid : Held → List (Thread × Ev) → Prop
  | nil {H} : GValid H []
  | cons {H t e L' tr} : (H t).step e = some L' →
      (∀ l w, e = .acq l w → compat H t l w) →
      GValid (H.set t L') tr → GValid H ((t, e) :: tr)

/-- the system: every goroutine has a remaining program (any sequence of calls, any path through
    each); a step fires the next event of one goroutine -- an acquisition only if the mutex allows
    it.  No discipline is assumed here: an uncovered access simply happens. -/
inductive Run : Held → (Thread → List Ev) → List (Thread × Ev) → Prop
  | nil {H Q} : Run H Q []
  | cons {H Q t e rest tr} : Q t = e :: rest →
      (∀ l w, e = .acq l w → compat H t l w) →
      Run (H.set t (((H t).step e).getD (H t))) (fun t' => if t' = t then rest else Q t') tr →
      Run H Q ((t, e) :: tr)

/-- mutual exclusion as a state invariant -/
def Excl (H : Held) : Prop :=
  ∀ t t' l, t ≠ t' → (l, true) ∈ H t → ∀ w, (l, w) ∉ H t'

end FsDb.Lockset
