import FsDb.Model.SysSteps
/-
  Small-step model of CONCURRENT clients of one database (C06, C07, C08).

  Every public operation is a sequence of steps; a step is one critical section of the real code
  (everything done while a lock of `usecase/core` or the registry is held), one Badger access or one
  file operation.  Between two steps of a goroutine any other goroutine may run.  The shared state is
  the sequential model `Sys` itself (version lists, all-store, registry, records, deletion queue,
  counter) plus the horizon mutex of `internal/model/sequence`; locals live in the program counter.

    store.Guarded.Set → store.Set   setGuard (registry) · setContent (content file + fileContent
                                    record under a private fresh id) · setStore (core.Store: number,
                                    version record, push; one critical section)
    store.Guarded.Delete → Delete   delGuard · delStore
    store.Get                       getReg (registry) · getOwn (own list, tx.RLock) · getBase (main /
                                    all-store list, RLock) · getContent (fileContent record; on a miss
                                    look the key up again: getOwn · getBase with the old content id)
    store.GetKeys                   keysReg · keysOwn · keysBase · keysContent (one record per step)
    transaction.Begin               beginLock (horizon mutex; number drawn and registered) · beginUnlock
    transaction.Commit / Rollback   commitDereg / rollbackDereg (txRepo.Delete: the registry entry goes) ·
                                    commitRun / rollbackRun (UpdateTx / DeleteTx + hand-over of the
                                    delete list)
    cleaner.DeleteOld               gcHorizon (under the horizon mutex) · gcCollect (core.DeleteOld with
                                    the horizon computed earlier) · gcDelete (one deleteFile per step)
    worker pool                     workTake (one job) · workDelete (one deleteFile per step)

  Modelling decisions (part of the trusted base, DESIGN §9 C06):
  * a critical section under an exclusive lock is one step; an in-flight content (setContent) lives
    under an id nobody else knows until setStore publishes it, so its id is drawn at setStore;
  * Commit/Rollback are two steps, as in the code: `txRepo.Delete` removes the registry entry, then
    `UpdateTx` / `DeleteTx` run.  In between the transaction is in `closing`: the shared `Sys` keeps
    its registry record (a ghost: only the owner may name the transaction, and the owner is inside
    Commit), but `txRepo.Oldest` — the collector's horizon — no longer sees it (`liveReg`), so the
    collector may take what only that transaction could still see;
  * Begin: drawing the number and registering are one step (both happen under the horizon mutex and
    the entry is read only by the owner afterwards and by the collector under the same mutex);
  * every transaction is used by the goroutine that began it (`owner`), as C06/C15 require.

  Ghost state (no influence on the steps): `lin`, the log of state-changing operations in the order
  of their linearization points with the answers of the ATOMIC model; per thread `wit`, the atomic
  model's answer at the linearization point of the current invocation, and `invAt`/`witAt`, the
  length of `lin` at the invocation and at that point.  Core Lean only.
-/
namespace FsDb.Conc
open FsDb

inductive Pc
  | idle
  | ret (o : Out)
  | setGuard (t : Nat) (k : Key) (c : Nat)
  | setContent (t : Nat) (k : Key) (c : Nat)
  | setStore (t : Nat) (k : Key) (c : Nat)
  | delGuard (t : Nat) (k : Key)
  | delStore (t : Nat) (k : Key)
  | getReg (t : Nat) (k : Key)
  | getOwn (tx : TxRec) (k : Key) (prev : Option Nat)
  | getBase (tx : TxRec) (k : Key) (own : Option Ver) (prev : Option Nat)
  | getContent (tx : TxRec) (k : Key) (v : Ver)
  | keysReg (t : Nat)
  | keysOwn (tx : TxRec)
  | keysBase (tx : TxRec) (own : List (Key × Ver))
  | keysContent (todo : List Ver) (acc : List Key)
  | beginLock (t : Nat) (lvl : Level)
  | beginUnlock (o : Out)
  | commitDereg (t : Nat)
  | commitRun (t : Nat)
  | rollbackDereg (t : Nat)
  | rollbackRun (t : Nat)
  | gcHorizon
  | gcCollect (hz : Nat)
  | gcDelete (todo : List Ver)
  | workTake
  | workDelete (todo : List Ver)
deriving DecidableEq, Repr

structure Thread where
  pc    : Pc := .idle
  op    : Option Op := none      -- ghost: the current invocation
  wit   : Option Out := none     -- ghost: the atomic model's answer at the linearization point
  invAt : Nat := 0               -- ghost: |lin| at the invocation
  witAt : Nat := 0               -- ghost: |lin| at the linearization point
deriving Repr

structure St where
  sys    : Sys := {}
  hzLock : Option Nat := none                  -- holder of sequence.horizonM
  closing : List Nat := []                     -- transactions between txRepo.Delete and UpdateTx / DeleteTx
  busy   : List (Nat × List Ver) := []         -- ghost: deletion jobs in execution, by thread
  owner  : Nat → Option Nat := fun _ => none   -- which goroutine began a transaction
  thr    : Nat → Thread := fun _ => {}
  lin    : List (Nat × EOp × Out) := []        -- ghost: linearization log (+ numbers drawn for nothing)

def St.setThr (σ : St) (i : Nat) (th : Thread) : St :=
  { σ with thr := fun j => if j = i then th else σ.thr j }

/-- thread `i` moves on; ghost fields unchanged -/
def St.goto (σ : St) (i : Nat) (pc : Pc) : St := σ.setThr i { σ.thr i with pc := pc }

/-- a read-only linearization point: the witness is the atomic model's answer on the current state -/
def St.witness (σ : St) (i : Nat) (pc : Pc) (w : Out) : St :=
  σ.setThr i { σ.thr i with pc := pc, wit := some w, witAt := σ.lin.length }

/-- a state-changing linearization point: new shared state, the operation and the atomic model's
    answer are appended to the log -/
def St.linearize (σ : St) (i : Nat) (sys' : Sys) (op : Op) (w : Out) (pc : Pc) : St :=
  { σ with sys := sys', lin := σ.lin ++ [(i, .op op, w)],
           thr := fun j => if j = i then { σ.thr i with pc := pc, wit := some w, witAt := σ.lin.length + 1 }
                           else σ.thr j }

def allowed (σ : St) (i t : Nat) : Bool := t = mainTx || σ.owner t = some i

/-- what `core.Get` reads in its second critical section, by level -/
def baseRead (s : Sys) (tx : TxRec) (k : Key) : Option Ver :=
  match tx.level with
  | .ru => Sys.latest (s.all k)
  | .rc => Sys.latest (s.main k)
  | .rr | .ser => Sys.lastBefore (s.main k) tx.seq

/-- … and in its first (no own read at ReadUncommitted: the all-store is the only source) -/
def ownRead (s : Sys) (tx : TxRec) (k : Key) : Option Ver :=
  match tx.level with
  | .ru => none
  | _ => s.ownLatest tx.id k

def lookupKV (l : List (Key × Ver)) (k : Key) : Option Ver := (l.find? (·.1 = k)).map (·.2)

/-- the physical effect of `core.Store` after the content was stored (no registry check here) -/
def storeSet (s : Sys) (t : Nat) (k : Key) (c : Nat) : Sys :=
  let cid := s.nextCid
  ({ s with nextCid := cid + 1, cfs := s.cfs ++ [(cid, c)] } : Sys).coreStore t k cid (some c)

def storeDel (s : Sys) (t : Nat) (k : Key) : Sys :=
  let cid := s.nextCid
  ({ s with nextCid := cid + 1 } : Sys).coreStore t k cid none

/-- one step of thread `i`; `none`: not enabled (idle, or waiting for the horizon mutex) -/
def step (σ : St) (i : Nat) : Option St :=
  let s := σ.sys
  match (σ.thr i).pc with
  | .idle => none
  | .ret _ => some (σ.goto i .idle)
  -- Set
  | .setGuard t k c =>
    if (s.regGet t).isNone then some (σ.linearize i s (.set t k c) (s.set t k c).2 (.ret (.err .txNotFound)))
    else if k = "" then some (σ.linearize i s (.set t k c) (s.set t k c).2 (.ret (.err .emptyKey)))
    else some (σ.goto i (.setContent t k c))
  | .setContent t k c => some (σ.goto i (.setStore t k c))
  | .setStore t k c => some (σ.linearize i (storeSet s t k c) (.set t k c) (s.set t k c).2 (.ret .ok))
  -- Delete
  | .delGuard t k =>
    if (s.regGet t).isNone then some (σ.linearize i s (.del t k) (s.del t k).2 (.ret (.err .txNotFound)))
    else some (σ.goto i (.delStore t k))
  | .delStore t k => some (σ.linearize i (storeDel s t k) (.del t k) (s.del t k).2 (.ret .ok))
  -- Get
  | .getReg t k =>
    match s.regGet t with
    | none => some (σ.witness i (.ret (.err .txNotFound)) (s.get t k))
    | some tx => some (σ.goto i (.getOwn tx k none))
  | .getOwn tx k prev => some (σ.goto i (.getBase tx k (ownRead s tx k) prev))
  | .getBase tx k own prev =>
    match Sys.newer own (baseRead s tx k) with
    | none => some (σ.witness i (.ret (.err .notFound)) (s.get tx.id k))
    | some v =>
      if prev = some v.cid then some (σ.witness i (.ret (.err .notFound)) (s.get tx.id k))
      else some (σ.witness i (.getContent tx k v) (s.get tx.id k))
  | .getContent tx k v =>
    match s.hasContent v.cid with
    | some c => some (σ.goto i (.ret (.val c)))
    | none => some (σ.goto i (.getOwn tx k (some v.cid)))
  -- GetKeys
  | .keysReg t =>
    match s.regGet t with
    | none => some (σ.witness i (.ret (.err .txNotFound)) (s.getKeys t))
    | some tx => some (σ.goto i (.keysOwn tx))
  | .keysOwn tx =>
    some (σ.goto i (.keysBase tx (s.dom.filterMap (fun k => (ownRead s tx k).map (fun v => (k, v))))))
  | .keysBase tx own =>
    let files := s.dom.filterMap (fun k => Sys.newer (lookupKV own k) (baseRead s tx k))
    some (σ.witness i (.keysContent files []) (s.getKeys tx.id))
  | .keysContent [] acc => some (σ.goto i (.ret (.keys (Sys.sortKeys acc))))
  | .keysContent (v :: todo) acc =>
    some (σ.goto i (.keysContent todo (if (s.hasContent v.cid).isSome then acc ++ [v.key] else acc)))
  -- Begin
  | .beginLock t lvl =>
    if σ.hzLock.isSome then none
    else
      let r := s.begin t lvl
      some { σ.linearize i r.1 (.begin t lvl) r.2 (.beginUnlock r.2) with hzLock := some i }
  | .beginUnlock o => some { σ.goto i (.ret o) with hzLock := none }
  -- Commit / Rollback
  | .commitDereg t =>
    if t ≠ mainTx ∧ (s.reg.find? (·.id = t)).isSome then some { σ.goto i (.commitRun t) with closing := t :: σ.closing }
    else let r := s.commit t; some (σ.linearize i r.1 (.commit t) r.2 (.ret r.2))
  | .commitRun t =>
    let r := s.commit t
    some { σ.linearize i r.1 (.commit t) r.2 (.ret r.2) with closing := σ.closing.filter (· ≠ t) }
  | .rollbackDereg t =>
    if t ≠ mainTx ∧ (s.reg.find? (·.id = t)).isSome then some { σ.goto i (.rollbackRun t) with closing := t :: σ.closing }
    else let r := s.rollback t; some (σ.linearize i r.1 (.rollback t) r.2 (.ret r.2))
  | .rollbackRun t =>
    let r := s.rollback t
    some { σ.linearize i r.1 (.rollback t) r.2 (.ret r.2) with closing := σ.closing.filter (· ≠ t) }
  -- cleaner.DeleteOld
  | .gcHorizon =>
    if σ.hzLock.isSome then none
    else
      -- txRepo.Oldest over the registry WITHOUT the transactions inside Commit / Rollback; the log
      -- gets the collector's entry and the counter's value (a number may have been drawn although
      -- the specification still has a transaction open)
      let s' := gcDrawX s σ.closing
      let σ' := σ.linearize i s' .gc .ok (.gcCollect (gcHzX s σ.closing))
      some { σ' with lin := σ'.lin ++ [(i, .tick s'.counter, .ok)] }
  | .gcCollect hz =>
    let dels := delsAt s hz
    some { σ.goto i (.gcDelete dels) with sys := collectAt s hz, busy := σ.busy ++ [(i, dels)] }
  | .gcDelete [] => some { σ.goto i (.ret .ok) with busy := σ.busy.filter (·.1 ≠ i) }
  | .gcDelete (v :: todo) => some { σ.goto i (.gcDelete todo) with sys := delOne s v }
  -- worker pool
  | .workTake =>
    match s.pending with
    | [] => some (σ.linearize i s .drain .ok (.ret .ok))
    | job :: rest => some { σ.goto i (.workDelete job) with sys := { s with pending := rest }, busy := σ.busy ++ [(i, job)] }
  | .workDelete [] => some { σ.goto i .workTake with busy := σ.busy.filter (·.1 ≠ i) }
  | .workDelete (v :: todo) => some { σ.goto i (.workDelete todo) with sys := delOne s v }

/-- first program counter of an operation -/
def entry : Op → Option Pc
  | .begin t l => some (.beginLock t l)
  | .set t k c => some (.setGuard t k c)
  | .del t k => some (.delGuard t k)
  | .get t k => some (.getReg t k)
  | .keys t => some (.keysReg t)
  | .commit t => some (.commitDereg t)
  | .rollback t => some (.rollbackDereg t)
  | .gc => some .gcHorizon
  | .drain => some .workTake
  | .reopen _ => none      -- Close/Open are not concurrent operations
  | .tree => none

/-- the transaction an operation names -/
def txOf : Op → Nat
  | .set t _ _ | .del t _ | .get t _ | .keys t | .commit t | .rollback t => t
  | _ => mainTx

/-- thread `i` calls `op`: it must be idle; a transaction is used by the goroutine that began it;
    `Begin` returns an id nobody has used -/
def invoke (σ : St) (i : Nat) (op : Op) : Option St :=
  if (σ.thr i).pc ≠ .idle then none else
  match entry op with
  | none => none
  | some pc =>
    let th : Thread := { pc := pc, op := some op, wit := none, invAt := σ.lin.length, witAt := σ.lin.length }
    match op with
    | .begin t _ =>
      if t = mainTx ∨ (σ.owner t).isSome then none
      else some { σ.setThr i th with owner := fun t' => if t' = t then some i else σ.owner t' }
    | _ => if allowed σ i (txOf op) then some (σ.setThr i th) else none

inductive Act
  | call (i : Nat) (op : Op)
  | run (i : Nat)
deriving Repr

/-- a disabled action leaves the state unchanged: every list of actions is a schedule -/
def next (σ : St) : Act → St
  | .call i op => (invoke σ i op).getD σ
  | .run i => (step σ i).getD σ

def exec (σ : St) (acts : List Act) : St := acts.foldl next σ

end FsDb.Conc
