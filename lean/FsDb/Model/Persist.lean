/-
  The order of persistent mutations per stored content (content id), as the crash-point model
  (`Proofs/Crash.lean`) assumes it and as the crash harness observes it on the real code:

    content file complete → fileContent record → version record → … →
    content file removed → fileContent record deleted → version record deleted

  A tombstone (Delete) has only its version record; the cleaner never deletes it (no fileContent
  record ⇒ `deleteFile` returns).  A version record may be re-written by commits (re-tag) any
  number of times while it exists.  Core Lean only.
-/
namespace FsDb.Persist

inductive K
  | file     -- content file created, written and closed
  | cf       -- Badger set fileContent/<cid>
  | vrec     -- Badger set file/<cid> (first write or a commit's re-tag)
  | rm       -- content file removed
  | delcf    -- Badger delete fileContent/<cid>
  | delrec   -- Badger delete file/<cid>
deriving DecidableEq, Repr

/-- position in the lifecycle -/
inductive P | new | hasFile | hasCf | live | tomb | noFile | noCf | gone
deriving DecidableEq, Repr

def next : P → K → Option P
  | .new, .file => some .hasFile
  | .new, .vrec => some .tomb           -- Delete: a version record without content
  | .hasFile, .cf => some .hasCf
  | .hasCf, .vrec => some .live
  | .live, .vrec => some .live          -- re-tag by a commit
  | .tomb, .vrec => some .tomb
  | .live, .rm => some .noFile
  | .noFile, .delcf => some .noCf
  | .noCf, .delrec => some .gone
  | _, _ => none

def run (p : P) : List K → Option P
  | [] => some p
  | k :: ks => match next p k with
    | none => none
    | some p' => run p' ks

/-- is this sequence of mutations of one content id in the modelled order? -/
def ok (ks : List K) : Bool := (run .new ks).isSome

def parse : String → Option K
  | "file" => some .file
  | "cf" => some .cf
  | "rec" => some .vrec
  | "rm" => some .rm
  | "delcf" => some .delcf
  | "delrec" => some .delrec
  | _ => none

/-- a content is *readable* (listed by GetKeys / returned by Get) only in position `live`; there the
    file is complete and its fileContent record exists -/
def readable : P → Bool
  | .live => true
  | _ => false

end FsDb.Persist
