import FsDb.Model.Sys
/-
  Sub-steps of the background operations of `Model/Sys` (one persistent or in-memory critical
  section each), shared by the proofs about the sequential model (`Sys.gc` and `Sys.drain` are
  compositions of them) and by the small-step concurrency model `Model/Conc`.  Core Lean only.
-/
namespace FsDb
open Sys

/-- one `cleaner.deleteFile`: content file + fileContent record, then the version record; a missing
    fileContent record ⇒ nothing happens -/
def delOne (s : Sys) (v : Ver) : Sys :=
  match s.hasContent v.cid with
  | none => s
  | some _ => { s with cfs := s.cfs.filter (·.1 ≠ v.cid), recs := s.recs.filter (·.cid ≠ v.cid) }

/-- the collector's horizon: first registered transaction's number, else a fresh number -/
def gcHz (c : Sys) : Nat := match c.reg.head? with | some tx => tx.seq | none => c.counter + 1

/-- the horizon step of `cleaner.DeleteOld`: when no transaction is registered the fresh number is
    drawn (the counter advances) -/
def gcDraw (c : Sys) : Sys := match c.reg.head? with | some _ => c | none => { c with counter := c.counter + 1 }

/-- the registry as `txRepo.Oldest` finds it while the transactions `cl` are inside Commit / Rollback:
    `txRepo.Delete` has already removed them (their UpdateTx / DeleteTx is still to come) -/
def liveReg (c : Sys) (cl : List Nat) : List TxRec := c.reg.filter (fun r => !cl.contains r.id)

/-- the horizon step with transactions inside Commit / Rollback -/
def gcHzX (c : Sys) (cl : List Nat) : Nat :=
  match (liveReg c cl).head? with | some tx => tx.seq | none => c.counter + 1

def gcDrawX (c : Sys) (cl : List Nat) : Sys :=
  match (liveReg c cl).head? with | some _ => c | none => { c with counter := c.counter + 1 }

/-- the counter is raised to `n` (by another database of the process, or by a number drawn without
    any effect on this database); it never goes down -/
def Sys.tick (c : Sys) (n : Nat) : Sys := { c with counter := max c.counter n }

/-- operations interleaved with counter advances -/
inductive EOp
  | op (o : Op)
  | tick (n : Nat)
deriving DecidableEq, Repr

/-- what `core.DeleteOld(MainTxId, hz)` returns: per key the versions collected at horizon `hz` -/
def delsAt (c : Sys) (hz : Nat) : List Ver := c.dom.flatMap (fun k => (collect (c.main k) hz).1)

/-- the state after `core.DeleteOld(MainTxId, hz)`: lists collected, links removed, nothing deleted yet -/
def collectAt (c : Sys) (hz : Nat) : Sys :=
  { c with main := fun k => (collect (c.main k) hz).2, all := removeLinks c.all (delsAt c hz) }

end FsDb
