import FsDb.Model.VFile
/-
  Executable model of the sequential system:
    internal/usecase/core     (Store, Get, GetFiles, UpdateTx, DeleteTx, DeleteOld, Load)
    internal/usecase/store    (Set, Get, GetKeys, Delete, Guarded)
    internal/usecase/transaction (Begin, Commit, Rollback)
    internal/usecase/cleaner  (DeleteOld, DeleteFiles, deleteFile, DeleteFilesAsync)
    internal/repository/transaction (registry)
    internal/model/sequence   (process-global counter)
  Names follow the Go functions.  Go maps are functions (`Key → …`, `TxId → Option …`) plus the list
  `dom` of all keys ever written (map iteration order is unobservable sequentially: results are
  sorted or per-key).  Core Lean only.
-/
namespace FsDb

abbrev Key := String

inductive Level | ru | rc | rr | ser
deriving DecidableEq, Repr, Inhabited

def Level.snapshot : Level → Bool
  | .rr | .ser => true
  | _ => false

/-- `model.Transaction` as kept by the registry -/
structure TxRec where
  id    : Nat
  level : Level
  seq   : Nat
deriving DecidableEq, Repr

/-- transaction id `0` is `MainTxId` -/
def mainTx : Nat := 0

abbrev Store := Key → List Ver

def Store.empty : Store := fun _ => []

def upd (f : Store) (k : Key) (l : List Ver) : Store := fun k' => if k' = k then l else f k'

/-- error classes observable through `errors.Is` -/
inductive Err | notFound | emptyKey | txNotFound | txSerialization | txAlreadyExists | noFreeSpace | other
deriving DecidableEq, Repr

inductive Out
  | ok
  | err (e : Err)
  | val (content : Nat)
  | keys (ks : List Key)
  | files (cs : List Nat)
  | bad            -- precondition of the protocol violated by the harness (never a default)
deriving DecidableEq, Repr

structure Sys where
  counter : Nat := 0                          -- sequence.seq
  main    : Store := Store.empty              -- txStore[MainTxId]
  txs     : Nat → Option Store := fun _ => none  -- other entries of txStore (created on demand by Store)
  all     : Store := Store.empty              -- allStore (links)
  reg     : List TxRec := []                  -- registry, insertion order (omap)
  dom     : List Key := []                    -- every key ever written
  nextCid : Nat := 1                          -- content ids (uuids in the code; fresh by construction)
  cfs     : List (Nat × Nat) := []            -- fileContent/ records: content id ↦ content number
  recs    : List Ver := []                    -- file/ records (Badger), keyed by content id
  pending : List (List Ver) := []             -- delete jobs handed to the worker pool, not yet run

namespace Sys

def txStore (s : Sys) (t : Nat) : Option Store := if t = mainTx then some s.main else s.txs t

def setTxStore (s : Sys) (t : Nat) (st : Store) : Sys :=
  if t = mainTx then { s with main := st }
  else { s with txs := fun t' => if t' = t then some st else s.txs t' }

def dropTxStore (s : Sys) (t : Nat) : Sys := { s with txs := fun t' => if t' = t then none else s.txs t' }

def addDom (s : Sys) (k : Key) : Sys := if k ∈ s.dom then s else { s with dom := s.dom ++ [k] }

def latest (l : List Ver) : Option Ver := l.getLast?

/-- `lastBefore` through the binary search (search-enabled stores keep `arr = l`; C18). -/
def lastBefore (l : List Ver) (b : Nat) : Option Ver := if l.length = 0 then none else bsearch l b

/-- `model.File.Latest`: the one with the larger seq; on a tie the *argument* (`o`). -/
def newer (f o : Option Ver) : Option Ver :=
  match f, o with
  | some a, some b => if a.seq > b.seq then some a else some b
  | some a, none => some a
  | none, o => o

/-- registry lookup `txRepo.Get`: main ⇒ default level (ReadCommitted) -/
def regGet (s : Sys) (t : Nat) : Option TxRec :=
  if t = mainTx then some ⟨mainTx, .rc, 0⟩ else s.reg.find? (·.id = t)

/-- the transaction's own latest version of `k` (`txStore.Get(txId)` then `File(key).Latest()`) -/
def ownLatest (s : Sys) (t : Nat) (k : Key) : Option Ver :=
  match s.txStore t with
  | some st => latest (st k)
  | none => none

/-- `core.Get` after the level → filter switch of `store.Get` -/
def coreGet (s : Sys) (tx : TxRec) (k : Key) : Option Ver :=
  match tx.level with
  | .ru => latest (s.all k)
  | .rc => newer (s.ownLatest tx.id k) (latest (s.main k))
  | .rr | .ser => newer (s.ownLatest tx.id k) (lastBefore (s.main k) tx.seq)

def hasContent (s : Sys) (cid : Nat) : Option Nat := (s.cfs.find? (·.1 = cid)).map (·.2)

/-- `store.Get`: registry → core.Get → fileContent record → content -/
def get (s : Sys) (t : Nat) (k : Key) : Out :=
  match s.regGet t with
  | none => .err .txNotFound
  | some tx =>
    match s.coreGet tx k with
    | none => .err .notFound
    | some v =>
      match s.hasContent v.cid with
      | none => .err .notFound        -- tombstone: no fileContent record
      | some c => .val c

/-- insertion sort on keys (`sort.Strings`; bytewise = code-point order for valid UTF-8) -/
def insertKey (k : Key) : List Key → List Key
  | [] => [k]
  | h :: t => if k ≤ h then k :: h :: t else h :: insertKey k t

def sortKeys (l : List Key) : List Key := l.foldr insertKey []

/-- does `store.GetKeys` list `k` for this reader? (GetFiles + merge per key is `coreGet` per key;
    versions without a fileContent record are skipped) -/
def listed (s : Sys) (tx : TxRec) (k : Key) : Bool :=
  match s.coreGet tx k with
  | none => false
  | some v => (s.hasContent v.cid).isSome

/-- `store.GetKeys` -/
def getKeys (s : Sys) (t : Nat) : Out :=
  match s.regGet t with
  | none => .err .txNotFound
  | some tx => .keys (sortKeys (s.dom.filter (s.listed tx)))

/-- `core.Store`: seq := Next(); Badger set; push to the tx list and the all-store -/
def coreStore (s : Sys) (t : Nat) (k : Key) (cid : Nat) (val : Option Nat) : Sys :=
  let sq := s.counter + 1
  let v : Ver := ⟨k, t, cid, sq, val⟩
  let st := (s.txStore t).getD Store.empty
  let s := { s with counter := sq }
  let s := s.setTxStore t (upd st k (st k ++ [v]))
  let s := { s with all := upd s.all k (s.all k ++ [v]), recs := s.recs ++ [v] }
  s.addDom k

/-- `store.Guarded.Set` + `store.Set` (registry check; content stored first, then the fileContent
    record, then the version) -/
def set (s : Sys) (t : Nat) (k : Key) (content : Nat) : Sys × Out :=
  if (s.regGet t).isNone then (s, .err .txNotFound)   -- store.Guarded (tx_guard.go)
  else if k = "" then (s, .err .emptyKey)
  else
    let cid := s.nextCid
    let s := { s with nextCid := cid + 1, cfs := s.cfs ++ [(cid, content)] }
    (s.coreStore t k cid (some content), .ok)

/-- `store.Guarded.Delete` + `store.Delete`: a version with a fresh content id and no fileContent
    record (tombstone) -/
def del (s : Sys) (t : Nat) (k : Key) : Sys × Out :=
  if (s.regGet t).isNone then (s, .err .txNotFound)
  else
    let cid := s.nextCid
    let s := { s with nextCid := cid + 1 }
    (s.coreStore t k cid none, .ok)

/-- `transaction.Begin` -/
def begin (s : Sys) (t : Nat) (lvl : Level) : Sys × Out :=
  if t = mainTx ∨ s.reg.any (·.id = t) then (s, .bad)
  else ({ s with counter := s.counter + 1, reg := s.reg ++ [⟨t, lvl, s.counter + 1⟩] }, .ok)

/-- unlink from the all-store (links are identified by content id) -/
def removeLinks (all : Store) (vs : List Ver) : Store :=
  fun k => (all k).filter (fun l => ¬ vs.any (fun v => v.cid = l.cid))

/-- keys the transaction wrote (`tx.Files()`; non-empty lists) -/
def written (dom : List Key) (st : Store) : List Key := dom.filter (fun k => st k ≠ [])
/-- the last version of every written key: these are published -/
def lastsOf (dom : List Key) (st : Store) : List Ver := (written dom st).filterMap (fun k => latest (st k))
/-- the earlier versions of every written key: superseded inside the transaction -/
def oldsOf (dom : List Key) (st : Store) : List Ver := (written dom st).flatMap (fun k => (st k).dropLast)
/-- the write-write conflict test of `UpdateTx` -/
def conflictOf (tx : TxRec) (dom : List Key) (main st : Store) : Bool :=
  tx.level.snapshot && (written dom st).any (fun k =>
    match latest (main k) with
    | some m => m.seq > tx.seq
    | none => false)
/-- re-tagging of a published version: main transaction, the commit's sequence number -/
def retag (sq : Nat) (v : Ver) : Ver := { v with tx := mainTx, seq := sq }

/-- `core.UpdateTx` (commit), one critical section under the main and all-store write locks:
    conflict test per written key against `main.Latest`; the last version of every written key is
    published (re-tagged to main, all with ONE fresh sequence number, one Badger batch), the earlier
    ones go to the delete list; on a conflict everything goes to the delete list and no number is
    drawn.  Old links leave the all-store in both outcomes.  Returns the delete list. -/
def updateTx (s : Sys) (tx : TxRec) : Sys × List Ver × Bool :=
  match s.txs tx.id with
  | none => (s, [], true)
  | some st =>
    let lasts := lastsOf s.dom st
    let olds := oldsOf s.dom st
    let s' := { s with txs := fun t' => if t' = tx.id then none else s.txs t',
                       all := removeLinks s.all (lasts ++ olds) }
    if conflictOf tx s.dom s.main st then (s', olds ++ lasts, false)
    else if lasts.isEmpty then (s', olds, true)
    else
      let pub := lasts.map (retag (s.counter + 1))
      ({ s' with counter := s.counter + 1,
                 main := fun k => s.main k ++ pub.filter (·.key = k),
                 all := fun k => s'.all k ++ pub.filter (·.key = k),
                 recs := s.recs.map (fun r => match pub.find? (·.cid = r.cid) with | some p => p | none => r) },
       olds, true)

/-- `transaction.Commit` -/
def commit (s : Sys) (t : Nat) : Sys × Out :=
  if t = mainTx then (s, .err .txNotFound) else
  match s.reg.find? (·.id = t) with
  | none => (s, .err .txNotFound)
  | some tx =>
    let s := { s with reg := s.reg.filter (·.id ≠ t) }
    let r := s.updateTx tx
    let s := if r.2.1.isEmpty then r.1 else { r.1 with pending := r.1.pending ++ [r.2.1] }
    (s, if r.2.2 then .ok else .err .txSerialization)

/-- `core.DeleteTx` + `transaction.Rollback` (unknown id ⇒ ok, nothing happens) -/
def rollback (s : Sys) (t : Nat) : Sys × Out :=
  if t = mainTx then (s, .ok) else
  match s.reg.find? (·.id = t) with
  | none => (s, .ok)
  | some _ =>
    let s := { s with reg := s.reg.filter (·.id ≠ t) }
    match s.txs t with
    | none => (s, .ok)
    | some st =>
      let s := s.dropTxStore t
      let dels := s.dom.flatMap (fun k => st k)
      let s := { s with all := removeLinks s.all dels }
      (if dels.isEmpty then s else { s with pending := s.pending ++ [dels] }, .ok)

/-- `cleaner.deleteFile` for a list: missing fileContent record ⇒ nothing (the version record stays!) -/
def deleteFiles (s : Sys) (vs : List Ver) : Sys :=
  vs.foldl (fun s v =>
    match s.hasContent v.cid with
    | none => s
    | some _ => { s with cfs := s.cfs.filter (·.1 ≠ v.cid), recs := s.recs.filter (·.cid ≠ v.cid) }) s

/-- `cleaner.DeleteOld`: horizon = first registered open transaction's seq, else a fresh `Next`;
    per key `collect`; synchronous `DeleteFiles`. -/
def gc (s : Sys) : Sys × Out :=
  let hz := match s.reg.head? with
    | some tx => tx.seq
    | none => s.counter + 1
  let s := match s.reg.head? with
    | some _ => s
    | none => { s with counter := s.counter + 1 }
  let dels := s.dom.flatMap (fun k => (collect (s.main k) hz).1)
  let main' : Store := fun k => (collect (s.main k) hz).2
  let s := { s with main := main', all := removeLinks s.all dels }
  (s.deleteFiles dels, .ok)

/-- wait for the worker pool: run every pending delete job -/
def drain (s : Sys) : Sys × Out :=
  let s' := s.pending.foldl (fun s job => s.deleteFiles job) s
  ({ s' with pending := [] }, .ok)

/-- `Close` + `Open`: in-memory state is rebuilt by `core.Load` from the Badger records:
    per key the main record with the highest seq survives, everything else is scheduled for
    deletion; the process counter is raised to the highest surviving seq (`sequence.Set`). -/
def reopen (s : Sys) (freshProcess : Bool) : Sys × Out :=
  let mains := s.recs.filter (·.tx = mainTx)
  let winner (k : Key) : Option Ver :=
    (mains.filter (·.key = k)).foldl (fun acc v => match acc with
      | none => some v
      | some a => if v.seq < a.seq then some a else some v) none
  let keep := s.dom.filterMap winner
  let dels := s.recs.filter (fun r => ¬ keep.any (fun w => w.cid = r.cid))
  let maxSeq := keep.foldl (fun m v => max m v.seq) 1
  let counter0 := if freshProcess then 0 else s.counter
  let counter := max counter0 maxSeq      -- sequence.Set raises the counter, never lowers it
  let st : Store := fun k => (winner k).toList
  let s' : Sys := { s with counter := counter, main := st, all := st, txs := fun _ => none, reg := [],
                           pending := if dels.isEmpty then [] else [dels] }
  (s', .ok)

/-- walk of the storage roots: content numbers of all content files (sorted).  In fault-free
    operation a content file exists iff its fileContent record exists. -/
def tree (s : Sys) : Out := .files ((s.cfs.map (·.2)).mergeSort (· ≤ ·))

end Sys

/-- operations of the sequential line protocol -/
inductive Op
  | begin (t : Nat) (lvl : Level)
  | set (t : Nat) (k : Key) (c : Nat)
  | del (t : Nat) (k : Key)
  | get (t : Nat) (k : Key)
  | keys (t : Nat)
  | commit (t : Nat)
  | rollback (t : Nat)
  | gc
  | drain
  | reopen (fresh : Bool)
  | tree
deriving DecidableEq, Repr

def Sys.step (s : Sys) : Op → Sys × Out
  | .begin t l => s.begin t l
  | .set t k c => s.set t k c
  | .del t k => s.del t k
  | .get t k => (s, s.get t k)
  | .keys t => (s, s.getKeys t)
  | .commit t => s.commit t
  | .rollback t => s.rollback t
  | .gc => s.gc
  | .drain => s.drain
  | .reopen f => s.reopen f
  | .tree => (s, s.tree)

def Sys.run (s : Sys) : List Op → Sys × List Out
  | [] => (s, [])
  | op :: ops =>
    let r := s.step op
    let r2 := r.1.run ops
    (r2.1, r.2 :: r2.2)

end FsDb
