import FsDb.Model.VFile
import FsDb.Model.Codec
import FsDb.Model.Config
import FsDb.Model.Sys
import FsDb.Spec.Iso
import FsDb.Model.Wire
import FsDb.Model.Dir
import FsDb.Model.Persist
import FsDb.Model.Conc
/-!
  Line-protocol driver: one operation per line on stdin, one answer per line on stdout.
  Imports model/spec modules only (core Lean) so that it links as an executable.
-/
namespace FsDb.Driver
open FsDb

structure St where
  vf : VFile := {}
  sys : Sys := {}
  spec : Spec.State := {}
  -- C05: several databases sharing the process-global sequence counter
  dirs : Dir.St := { max := 100, roots := [] }
  gcounter : Nat := 0
  mdbs : List (Nat × Sys × Spec.State × Bool) := []     -- db id ↦ (model, spec, open?)
  conc : Conc.St := {}                                   -- C06: small-step concurrency model

def showVer (v : Option Ver) : String :=
  match v with
  | none => "-"
  | some v => toString v.seq

def showSeqs (l : List Ver) : String :=
  "[" ++ ",".intercalate (l.map (fun v => toString v.seq)) ++ "]"

/-- C18 sub-protocol (`vf …`). -/
def stepVF (f : VFile) (args : List String) : VFile × String :=
  match args with
  | ["new", ws] => ({ ws := ws == "1" }, "ok")
  | ["push", n] =>
    match n.toNat? with
    | some k => (f.pushBack ⟨"k", 0, k, k, none⟩, "ok")
    | none => (f, "bad-op")
  | ["popf"] => let r := f.popFront; (r.2, showVer r.1)
  | ["popb"] => let r := f.popBack; (r.2, showVer r.1)
  | ["latest"] => (f, showVer f.latest)
  | ["lb", s] =>
    match s.toNat? with
    | some k => (f, showVer (f.lastBefore k))
    | none => (f, "bad-op")
  | ["collect", hz] =>
    match hz.toNat? with
    | some k => let r := f.collectOld k; (r.2, showSeqs r.1)
    | none => (f, "bad-op")
  | ["dump"] => (f, showSeqs f.l ++ " " ++ (if f.ws then "-" else showSeqs f.arr))
  | _ => (f, "bad-op")

def hexOf (bs : Codec.Bytes) : String := String.ofList (Codec.fmtBytes bs)

def unhex (s : String) : Option Codec.Bytes := if s == "-" then some [] else Codec.parseHex s.toList

def hexOrDash (bs : Codec.Bytes) : String := if bs.isEmpty then "-" else hexOf bs

/-- C19 sub-protocol (`enc …`, `dec …`). -/
def stepCodec (args : List String) : String :=
  match args with
  | ["enc", seq, tx, cid, key] =>
    match seq.toNat?, unhex tx, unhex cid, unhex key with
    | some n, some t, some c, some k =>
      match Codec.repoSet ⟨n, t, c, k⟩ with
      | some (bk, v) => String.ofList bk ++ " " ++ hexOf v
      | none => "err"
    | _, _, _, _ => "bad-op"
  | ["dec", hex] =>
    match unhex hex with
    | some bs =>
      match Codec.decode bs with
      | some r => s!"{r.seq} {String.ofList (Codec.formatUuid r.tx)} {String.ofList (Codec.formatUuid r.cid)} {hexOrDash r.key}"
      | none => "err"
    | none => "bad-op"
  | _ => "bad-op"

def cfgSetting (s : String) : Option Config.Setting :=
  match s.toList with
  | [f, e] =>
    let fl : Option Config.FileL := match f with
      | 'a' => some .absent | 'p' => some .present | 'z' => some .zero | 'm' => some .malformed | _ => none
    let el : Option Config.EnvL := match e with
      | 'u' => some .unset | 'e' => some .empty | 'p' => some .present | 'm' => some .malformed | 'z' => some .zero | _ => none
    match fl, el with
    | some a, some b => some ⟨a, b⟩
    | _, _ => none
  | _ => none

def cfgTok : Config.Tok → String
  | .D => "D" | .F => "F" | .E => "E" | .Z => "Z" | .C => "C"

/-- C20 sub-protocol (`cfg file|nofile s1 … s7`). -/
def stepCfg (args : List String) : String :=
  match args with
  | [hf, a, b, c, d, e, f, g] =>
    match cfgSetting a, cfgSetting b, cfgSetting c, cfgSetting d, cfgSetting e, cfgSetting f, cfgSetting g with
    | some a, some b, some c, some d, some e, some f, some g =>
      if hf != "file" && hf != "nofile" then "bad-op" else
      match Config.load (hf == "file") ⟨a, b, c, d, e, f, g⟩ with
      | .ok r => " ".intercalate ("ok" :: [r.port, r.dbPath, r.dirCount, r.rootDirs, r.gcPeriod, r.numWorkers, r.sendDuration].map cfgTok)
      | .error .decode => "e:decode"
      | .error .envParse => "e:env"
      | .error .emptyDbPath => "e:EmptyDbPath"
      | .error .emptyRootDirs => "e:EmptyRootDirs"
    | _, _, _, _, _, _, _ => "bad-op"
  | _ => "bad-op"

/-- a key of the real database is any byte string; the model's `Key` is a `String`: every byte becomes
    the character with that code (injective, and bytewise order = the model's code-point order), so
    keys that are not valid UTF-8 are keys like any other -/
def keyOfHex (h : String) : Option Key :=
  match unhex h with
  | some bs => some (String.ofList (bs.map (fun b => Char.ofNat b.toNat)))
  | none => none

def hexOfKey (k : Key) : String := hexOrDash (k.toList.map (fun c => UInt8.ofNat c.toNat))

def showErr : Err → String
  | .notFound => "NotFound" | .emptyKey => "EmptyKey" | .txNotFound => "TxNotFound"
  | .txSerialization => "TxSerialization" | .txAlreadyExists => "TxAlreadyExists"
  | .noFreeSpace => "NoFreeSpace" | .other => "Other"

def showOut : Out → String
  | .ok => "ok"
  | .err e => "e:" ++ showErr e
  | .val c => "v:" ++ toString c
  | .keys ks => "keys:" ++ ",".intercalate (ks.map hexOfKey)
  | .files cs => "files:" ++ ",".intercalate (cs.map toString)
  | .bad => "bad-op"

def levelOf : String → Option Level
  | "RU" => some .ru | "RC" => some .rc | "RR" => some .rr | "SER" => some .ser | _ => none

def parseOp (args : List String) : Option Op :=
  match args with
  | ["b", t, l] => do let t ← t.toNat?; let l ← levelOf l; pure (.begin t l)
  | ["tree"] => some .tree
  | ["s", t, k, c, _] => do let t ← t.toNat?; let k ← keyOfHex k; let c ← c.toNat?; pure (.set t k c)
  | ["s", t, k, c] => do let t ← t.toNat?; let k ← keyOfHex k; let c ← c.toNat?; pure (.set t k c)
  | ["d", t, k] => do let t ← t.toNat?; let k ← keyOfHex k; pure (.del t k)
  | ["g", t, k] => do let t ← t.toNat?; let k ← keyOfHex k; pure (.get t k)
  | ["k", t] => do let t ← t.toNat?; pure (.keys t)
  | ["c", t] => do let t ← t.toNat?; pure (.commit t)
  | ["r", t] => do let t ← t.toNat?; pure (.rollback t)
  | ["gc"] => some .gc
  | ["drain"] => some .drain
  | ["reopen", f] => some (.reopen (f == "1"))
  | _ => none

/-- sequential system sub-protocol (`sys …`): answers `<concrete model>\t<abstract spec>` -/
def stepSys (st : St) (args : List String) : St × String :=
  match args with
  | ["new", _] => ({ st with sys := {}, spec := {} }, "ok\tok")
  | _ =>
    match parseOp args with
    | none => (st, "bad-op\tbad-op")
    | some op =>
      let (m, mo) := st.sys.step op
      let (sp, so) := Spec.step st.spec op
      ({ st with sys := m, spec := sp }, showOut mo ++ "\t" ++ showOut so)

def mdbGet (st : St) (d : Nat) : Sys × Spec.State × Bool :=
  match st.mdbs.find? (·.1 = d) with
  | some e => e.2
  | none => ({}, {}, false)

def mdbSet (st : St) (d : Nat) (e : Sys × Spec.State × Bool) : St :=
  if st.mdbs.any (·.1 = d) then { st with mdbs := st.mdbs.map (fun x => if x.1 = d then (d, e) else x) }
  else { st with mdbs := st.mdbs ++ [(d, e)] }

/-- multi-database sub-protocol (`mdb …`): every database runs with the process-global counter -/
def stepMdb (st : St) (args : List String) : St × String :=
  match args with
  | ["new"] => ({ st with gcounter := 0, mdbs := [] }, "ok\tok")
  | ["restart"] =>    -- process exit: counter starts from 0, every database is closed
    ({ st with gcounter := 0, mdbs := st.mdbs.map (fun x => (x.1, x.2.1, x.2.2.1, false)) }, "ok\tok")
  | d :: rest =>
    match d.toNat? with
    | none => (st, "bad-op\tbad-op")
    | some d =>
      let (m, sp, isOpen) := mdbGet st d
      match rest with
      | ["open"] =>
        if isOpen then (st, "bad-op\tbad-op") else
        -- Load: rebuild from the records with the process counter; open transactions are gone
        let m0 : Sys := { m with counter := st.gcounter }
        let (m1, _) := m0.reopen false
        let sp0 : Spec.State := { sp with clock := st.gcounter }
        let (sp1, _) := Spec.reopen sp0 false
        -- the spec's clock follows the process counter (only the order of stamps is observable)
        let sp2 : Spec.State := { sp1 with clock := m1.counter }
        (mdbSet { st with gcounter := m1.counter } d (m1, sp2, true), "ok\tok")
      | ["close"] =>
        if !isOpen then (st, "bad-op\tbad-op") else
        let (m1, _) := m.drain
        (mdbSet st d (m1, sp, false), "ok\tok")
      | _ =>
        if !isOpen then (st, "bad-op\tbad-op") else
        match parseOp rest with
        | none => (st, "bad-op\tbad-op")
        | some op =>
          let m0 : Sys := { m with counter := st.gcounter }
          let sp0 : Spec.State := { sp with clock := st.gcounter }
          let (m1, mo) := m0.step op
          let (sp1, so) := Spec.step sp0 op
          (mdbSet { st with gcounter := m1.counter } d (m1, sp1, true), showOut mo ++ "\t" ++ showOut so)
  | _ => (st, "bad-op\tbad-op")

def sentinelName : Wire.Sentinel → String
  | .unknown => "unknown" | .noFreeSpace => "noFreeSpace" | .notFound => "notFound" | .emptyKey => "emptyKey"
  | .headerNotFound => "headerNotFound" | .txNotFound => "txNotFound" | .txAlreadyExists => "txAlreadyExists"
  | .txSerialization => "txSerialization"

def allSentinels : List Wire.Sentinel :=
  [.unknown, .noFreeSpace, .notFound, .emptyKey, .headerNotFound, .txNotFound, .txAlreadyExists, .txSerialization]

/-- C11 (a): `errmap <bitmask of sentinels>` → class seen by the gRPC caller; `errcode <grpc code>` -/
def stepErr (args : List String) : String :=
  match args with
  | ["errmap", m] =>
    match m.toNat? with
    | some mask =>
      let set := (allSentinels.zipIdx.filter (fun (_, i) => (mask >>> i) % 2 == 1)).map (·.1)
      sentinelName (Wire.roundTrip set) ++ "/1"
    | none => "bad-op"
  | ["errcode", c] =>
    match c.toNat? with
    | some code =>
      let cd : Wire.Code := match code with
        | 3 => .invalidArgument | 5 => .notFound | 6 => .alreadyExists | 8 => .resourceExhausted
        | 9 => .failedPrecondition | 10 => .aborted | 13 => .internal | _ => .other
      sentinelName (Wire.clientFromCode cd) ++ "/1"
    | none => "bad-op"
  | _ => "bad-op"

def showDirs (s : Dir.St) : String :=
  "|".intercalate (s.roots.map (fun r => ",".intercalate (((r.map (·.count)).mergeSort (· ≤ ·)).map toString)))

/-- C17 sub-protocol (`dir …`) -/
def stepDir (s : Dir.St) (args : List String) : Dir.St × String :=
  match args with
  | ["new", n, m] =>
    match n.toNat?, m.toNat? with
    | some n, some m => ({ max := m, roots := List.replicate n [] }, "ok")
    | _, _ => (s, "bad-op")
  | ["put", r, c] =>
    match r.toNat?, c.toNat? with
    | some r, some c =>
      if c ≥ s.max then (s, "illegal:full") else
      match s.put r c with
      | some s' => (s', "ok")
      | none => (s, "illegal:not-a-candidate")
    | _, _ => (s, "bad-op")
  | ["del", r, c] =>
    match r.toNat?, c.toNat? with
    | some r, some c =>
      match s.del r c with
      | some s' => (s', "ok")
      | none => (s, "illegal:no-such-dir")
    | _, _ => (s, "bad-op")
  | ["reopen"] => (s.reopen, "ok")
  | ["tree"] => (s, showDirs s)
  | _ => (s, "bad-op")

def stepCodec2 (a b : String) : String :=
  let ra := stepCodec ["dec", a]
  let rb := stepCodec ["dec", b]
  if ra == "err" || rb == "err" then "err" else ra ++ " | " ++ rb

/-- hook point of the real code at which a goroutine is when the model thread is ABOUT TO execute `pc` -/
def pcLabel : Conc.Pc → String
  | .idle => "idle"
  | .ret _ => "ret"
  | .getContent _ _ _ => "uget.afterLookup"
  | .keysContent _ _ => "ukeys.afterLookup"
  | .gcCollect _ => "gc.horizon"
  | .gcDelete _ => "gc.collected"
  | .beginLock _ _ => "begin.start"
  | .beginUnlock _ => "txrepo.store"
  | .commitRun _ => "utx.start"
  | _ => "-"

/-- run thread `i` until it ARRIVES at a program counter labelled `target` (or at its return, or
    until it cannot move); at a return the answer is printed and the thread goes back to idle -/
def concUntil (σ : Conc.St) (i : Nat) (target : String) : Nat → Conc.St × String
  | 0 => (σ, "fuel")
  | fuel + 1 =>
    match Conc.step σ i with
    | none => (σ, if (σ.thr i).pc = .idle then "idle" else "blocked")
    | some σ' =>
      match (σ'.thr i).pc with
      | .ret o => ((Conc.step σ' i).getD σ', "ret:" ++ showOut o)
      | pc => if pcLabel pc == target then (σ', "at:" ++ target) else concUntil σ' i target fuel

/-- C06 small-step sub-protocol (`conc …`): the same schedule as an enforced run of the real database -/
def stepConc (st : St) (args : List String) : St × String :=
  match args with
  | ["new"] => ({ st with conc := {} }, "ok")
  | "call" :: i :: rest =>
    match i.toNat?, parseOp rest with
    | some i, some op =>
      match Conc.invoke st.conc i op with
      | some σ => ({ st with conc := σ }, "ok")
      | none => (st, "refused")
    | _, _ => (st, "bad-op")
  | ["until", i, target] =>
    match i.toNat? with
    | some i => let r := concUntil st.conc i target 100000; ({ st with conc := r.1 }, r.2)
    | none => (st, "bad-op")
  | ["at", i] =>
    match i.toNat? with
    | some i => (st, pcLabel (st.conc.thr i).pc)
    | none => (st, "bad-op")
  | ["lin"] => (st, toString st.conc.lin.length)
  | ["tree"] => (st, showOut st.conc.sys.tree)
  | _ => (st, "bad-op")

def step (st : St) (line : String) : St × String :=
  match (line.trimAscii.toString.splitOn " ").filter (· ≠ "") with
  | "vf" :: args => let r := stepVF st.vf args; ({ st with vf := r.1 }, r.2)
  | "enc" :: args => (st, stepCodec ("enc" :: args))
  | "dec" :: args => (st, stepCodec ("dec" :: args))
  | ["dec2", a, b] => (st, stepCodec2 a b)
  | "errmap" :: args => (st, stepErr ("errmap" :: args))
  | "errcode" :: args => (st, stepErr ("errcode" :: args))
  | "cfg" :: args => (st, stepCfg args)
  | "sys" :: args => stepSys st args
  | "mdb" :: args => stepMdb st args
  | "conc" :: args => stepConc st args
  | "dir" :: args => let r := stepDir st.dirs args; ({ st with dirs := r.1 }, r.2)
  | "life" :: args =>     -- C04: mutation order of one content id
    match args.mapM Persist.parse with
    | none => (st, "bad-op")
    | some ks => (st, if Persist.ok ks then "ok" else "bad-order")
  | [] => (st, "")
  | _ => (st, "bad-op")

partial def loop (h : IO.FS.Stream) (out : IO.FS.Stream) (st : St) : IO Unit := do
  let line ← h.getLine
  if line.isEmpty then return ()
  let (st', o) := step st line
  out.putStrLn o
  loop h out st'

def main : IO Unit := do
  let stdin ← IO.getStdin
  let stdout ← IO.getStdout
  loop stdin stdout {}
  stdout.flush

end FsDb.Driver
