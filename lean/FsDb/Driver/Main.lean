import FsDb.Model.VFile
/-!
  Line-protocol driver: one operation per line on stdin, one answer per line on stdout.
  Imports model/spec modules only (core Lean) so that it links as an executable.
-/
namespace FsDb.Driver
open FsDb

structure St where
  vf : VFile := {}

def showVer (v : Option Ver) : String :=
  match v with
  | none => "-"
  | some v => toString v.seq

def showSeqs (l : List Ver) : String :=
  "[" ++ ",".intercalate (l.map (fun v => toString v.seq)) ++ "]"

/-- C18 sub-protocol (`vf …`). -/
def stepVF (f : VFile) (args : List String) : VFile × String :=
  match args with
  | ["new", ws] => ({ ws := ws == "1" }, "ok")
  | ["push", n] =>
    match n.toNat? with
    | some k => (f.pushBack ⟨"k", 0, k, k⟩, "ok")
    | none => (f, "bad-op")
  | ["popf"] => let r := f.popFront; (r.2, showVer r.1)
  | ["popb"] => let r := f.popBack; (r.2, showVer r.1)
  | ["latest"] => (f, showVer f.latest)
  | ["lb", s] =>
    match s.toNat? with
    | some k => (f, showVer (f.lastBefore k))
    | none => (f, "bad-op")
  | ["collect", hz] =>
    match hz.toNat? with
    | some k => let r := f.collectOld k; (r.2, showSeqs r.1)
    | none => (f, "bad-op")
  | ["dump"] => (f, showSeqs f.l ++ " " ++ (if f.ws then "-" else showSeqs f.arr))
  | _ => (f, "bad-op")

def step (st : St) (line : String) : St × String :=
  match (line.trimAscii.toString.splitOn " ").filter (· ≠ "") with
  | "vf" :: args => let r := stepVF st.vf args; ({ st with vf := r.1 }, r.2)
  | [] => (st, "")
  | _ => (st, "bad-op")

partial def loop (h : IO.FS.Stream) (out : IO.FS.Stream) (st : St) : IO Unit := do
  let line ← h.getLine
  if line.isEmpty then return ()
  let (st', o) := step st line
  out.putStrLn o
  loop h out st'

def main : IO Unit := do
  let stdin ← IO.getStdin
  let stdout ← IO.getStdout
  loop stdin stdout {}
  stdout.flush

end FsDb.Driver
