import FsDb.Generated.Tables
import FsDb.Model.Codec
/- Ties of generated constants / tables to the values the hand-written models use. -/
namespace FsDb.Tie
open FsDb.Generated

theorem tie_codec_constants :
    Tables.codec_uuidLen = Codec.uuidLen ∧ Tables.codec_timeLen = Codec.timeLen ∧
    Tables.codec_fileLenWithoutKey = Codec.fileLenWithoutKey := by decide

end FsDb.Tie
