import FsDb.Generated.Tables
import FsDb.Model.Codec
/- Ties of generated constants / tables to the values the hand-written models use. -/
namespace FsDb.Tie
open FsDb.Generated

theorem tie_codec_constants :
    Tables.codec_uuidLen = Codec.uuidLen ∧ Tables.codec_timeLen = Codec.timeLen ∧
    Tables.codec_fileLenWithoutKey = Codec.fileLenWithoutKey := by decide

/-- `minDirCount`: the clamp of C20_valid is to 100; the harness values 50 / 0 are below it, 200 and the
    default are not (this is what `Config.belowMin` encodes). -/
theorem tie_config_constants :
    Tables.config_minDirCount = 100 ∧ Tables.config_defaultPort = 8888 ∧
    Tables.config_defaultDirCount = 1000000 ∧ 50 < Tables.config_minDirCount ∧
    Tables.config_minDirCount ≤ 200 ∧ Tables.config_minDirCount ≤ Tables.config_defaultDirCount := by decide

end FsDb.Tie
