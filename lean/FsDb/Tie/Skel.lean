import FsDb.Generated.Skel
import FsDb.Tie.Expected
/- One tie theorem per anchored function: the code the model was written against is the code in /repo now. -/
namespace FsDb.Tie

theorem tie_codec_fileLen : Generated.Skel.codec_fileLen = Expected.codec_fileLen := rfl
theorem tie_codec_marshalFile : Generated.Skel.codec_marshalFile = Expected.codec_marshalFile := rfl
theorem tie_codec_unmarshalFile : Generated.Skel.codec_unmarshalFile = Expected.codec_unmarshalFile := rfl
theorem tie_config_ParseConfig : Generated.Skel.config_ParseConfig = Expected.config_ParseConfig := rfl
theorem tie_config_ParseEnv : Generated.Skel.config_ParseEnv = Expected.config_ParseEnv := rfl
theorem tie_config_Storage_ParseEnv : Generated.Skel.config_Storage_ParseEnv = Expected.config_Storage_ParseEnv := rfl
theorem tie_config_Storage_Valid : Generated.Skel.config_Storage_Valid = Expected.config_Storage_Valid := rfl
theorem tie_config_WPool_ParseEnv : Generated.Skel.config_WPool_ParseEnv = Expected.config_WPool_ParseEnv := rfl
theorem tie_config_defaultConfig : Generated.Skel.config_defaultConfig = Expected.config_defaultConfig := rfl
theorem tie_config_defaults : Generated.Skel.config_defaults = Expected.config_defaults := rfl
theorem tie_config_env_names : Generated.Skel.config_env_names = Expected.config_env_names := rfl
theorem tie_config_type_Config : Generated.Skel.config_type_Config = Expected.config_type_Config := rfl
theorem tie_config_type_Storage : Generated.Skel.config_type_Storage = Expected.config_type_Storage := rfl
theorem tie_config_type_WPool : Generated.Skel.config_type_WPool = Expected.config_type_WPool := rfl
theorem tie_file_IterateBeforeSeq : Generated.Skel.file_IterateBeforeSeq = Expected.file_IterateBeforeSeq := rfl
theorem tie_file_LastBefore : Generated.Skel.file_LastBefore = Expected.file_LastBefore := rfl
theorem tie_file_Latest : Generated.Skel.file_Latest = Expected.file_Latest := rfl
theorem tie_file_PopBack : Generated.Skel.file_PopBack = Expected.file_PopBack := rfl
theorem tie_file_PopFront : Generated.Skel.file_PopFront = Expected.file_PopFront := rfl
theorem tie_file_PushBack : Generated.Skel.file_PushBack = Expected.file_PushBack := rfl
theorem tie_file_binarySearch : Generated.Skel.file_binarySearch = Expected.file_binarySearch := rfl
theorem tie_repo_cf_Delete : Generated.Skel.repo_cf_Delete = Expected.repo_cf_Delete := rfl
theorem tie_repo_cf_Get : Generated.Skel.repo_cf_Get = Expected.repo_cf_Get := rfl
theorem tie_repo_cf_Store : Generated.Skel.repo_cf_Store = Expected.repo_cf_Store := rfl
theorem tie_repo_cf_key : Generated.Skel.repo_cf_key = Expected.repo_cf_key := rfl
theorem tie_repo_file_Delete : Generated.Skel.repo_file_Delete = Expected.repo_file_Delete := rfl
theorem tie_repo_file_GetAll : Generated.Skel.repo_file_GetAll = Expected.repo_file_GetAll := rfl
theorem tie_repo_file_Set : Generated.Skel.repo_file_Set = Expected.repo_file_Set := rfl
theorem tie_repo_file_key : Generated.Skel.repo_file_key = Expected.repo_file_key := rfl
theorem tie_seq_After : Generated.Skel.seq_After = Expected.seq_After := rfl
theorem tie_seq_Before : Generated.Skel.seq_Before = Expected.seq_Before := rfl
theorem tie_seq_Next : Generated.Skel.seq_Next = Expected.seq_Next := rfl
theorem tie_seq_Set : Generated.Skel.seq_Set = Expected.seq_Set := rfl
theorem tie_seq_Zero : Generated.Skel.seq_Zero = Expected.seq_Zero := rfl

end FsDb.Tie
