import FsDb.Model.Sys
/-
  Abstract specification of fs_db's transactional key-value behaviour (C01–C03, C09, C13, C14).
  No version lists, no array mirror, no all-store, no garbage collection, no background work:
  a committed *history* per key that is never forgotten, and for every open transaction its level,
  its begin stamp and its own last write per key.  Short enough to audit by eye.

  Stamps come from one clock that only ever advances; only their relative order is observable.
-/
namespace FsDb.Spec

/-- a stamped value; `val = none` means "deleted" -/
structure SVer where
  stamp : Nat
  val   : Option Nat
deriving DecidableEq, Repr

structure STx where
  id    : Nat
  level : Level
  beginStamp : Nat
  own   : Key → Option SVer      -- the transaction's own last write per key

structure State where
  clock : Nat := 0
  hist  : Key → List SVer := fun _ => []   -- committed history per key, oldest first
  open_ : List STx := []
  dom   : List Key := []

def find (s : State) (t : Nat) : Option STx := s.open_.find? (·.id = t)

/-- the committed value of `k` -/
def committed (s : State) (k : Key) : Option SVer := (s.hist k).getLast?

/-- the more recent of two (on a tie the second) -/
def newerS (a b : Option SVer) : Option SVer :=
  match a, b with
  | some x, some y => if x.stamp > y.stamp then some x else some y
  | some x, none => some x
  | none, y => y

/-- the version a read of `k` sees, by level -/
def visible (s : State) (lvl : Level) (begin_ : Nat) (own : Key → Option SVer) (k : Key) : Option SVer :=
  match lvl with
  | .ru =>   -- most recent write by anyone: committed or pending in any open transaction
    s.open_.foldl (fun acc t => newerS (t.own k) acc) (committed s k)
  | .rc => newerS (own k) (committed s k)
  | .rr | .ser =>
    match own k with
    | some v => some v
    | none => ((s.hist k).filter (fun v => v.stamp < begin_)).getLast?

def outOf (v : Option SVer) : Out :=
  match v with
  | some ⟨_, some c⟩ => .val c
  | _ => .err .notFound

/-- reader context: autocommit = ReadCommitted without own writes -/
def ctxOf (s : State) (t : Nat) : Option (Level × Nat × (Key → Option SVer)) :=
  if t = mainTx then some (.rc, 0, fun _ => none)
  else (find s t).map (fun tx => (tx.level, tx.beginStamp, tx.own))

def get (s : State) (t : Nat) (k : Key) : Out :=
  match ctxOf s t with
  | none => .err .txNotFound
  | some (lvl, b, own) => outOf (visible s lvl b own k)

def hasValue (v : Option SVer) : Bool :=
  match v with
  | some ⟨_, some _⟩ => true
  | _ => false

def getKeys (s : State) (t : Nat) : Out :=
  match ctxOf s t with
  | none => .err .txNotFound
  | some (lvl, b, own) => .keys (Sys.sortKeys (s.dom.filter (fun k => hasValue (visible s lvl b own k))))

def addDom (s : State) (k : Key) : State := if k ∈ s.dom then s else { s with dom := s.dom ++ [k] }

/-- a write (`val = none`: delete) -/
def write (s : State) (t : Nat) (k : Key) (val : Option Nat) : State × Out :=
  if t = mainTx then
    let st := s.clock + 1
    (addDom { s with clock := st, hist := fun k' => if k' = k then s.hist k ++ [⟨st, val⟩] else s.hist k' } k, .ok)
  else
    match find s t with
    | none => (s, .err .txNotFound)
    | some _ =>
      let st := s.clock + 1
      (addDom { s with clock := st, open_ := s.open_.map (fun tx =>
        if tx.id = t then { tx with own := fun k' => if k' = k then some ⟨st, val⟩ else tx.own k' } else tx) } k, .ok)

def set (s : State) (t : Nat) (k : Key) (c : Nat) : State × Out :=
  if (ctxOf s t).isNone then (s, .err .txNotFound)      -- a finished / unknown transaction: nothing else matters
  else if k = "" then (s, .err .emptyKey) else write s t k (some c)

def begin (s : State) (t : Nat) (lvl : Level) : State × Out :=
  if t = mainTx ∨ (find s t).isSome then (s, .bad)
  else ({ s with clock := s.clock + 1, open_ := s.open_ ++ [⟨t, lvl, s.clock + 1, fun _ => none⟩] }, .ok)

def close (s : State) (t : Nat) : State := { s with open_ := s.open_.filter (·.id ≠ t) }

/-- the keys the transaction wrote -/
def writtenS (dom : List Key) (own : Key → Option SVer) : List Key := dom.filter (fun k => (own k).isSome)

/-- write-write conflict: some written key had a value committed after the transaction began -/
def conflictS (s : State) (tx : STx) : Bool :=
  tx.level.snapshot && (writtenS s.dom tx.own).any (fun k =>
    match committed s k with
    | some v => v.stamp > tx.beginStamp
    | none => false)

/-- all own writes become the committed values, atomically, with one fresh stamp -/
def publishS (s : State) (tx : STx) : State :=
  { s with clock := s.clock + 1,
           hist := fun k => match tx.own k with
             | some v => if k ∈ writtenS s.dom tx.own then s.hist k ++ [⟨s.clock + 1, v.val⟩] else s.hist k
             | none => s.hist k }

/-- commit: snapshot levels fail iff some written key had a value committed after the begin stamp;
    otherwise all own writes become the committed values, atomically, with one fresh stamp -/
def commit (s : State) (t : Nat) : State × Out :=
  match (if t = mainTx then none else find s t) with
  | none => (s, .err .txNotFound)
  | some tx =>
    let s := close s t
    if conflictS s tx then (s, .err .txSerialization)
    else if (writtenS s.dom tx.own).isEmpty then (s, .ok)
    else (publishS s tx, .ok)

def rollback (s : State) (t : Nat) : State × Out := (close s t, .ok)

/-- `Close`+`Open`: committed state kept, open transactions gone.  The clock is never below the
    newest committed stamp; in a fresh process it restarts there (only the order of stamps is
    observable). -/
def reopen (s : State) (fresh : Bool) : State × Out :=
  let top := (s.dom.filterMap (fun k => (committed s k).map (·.stamp))).foldl max 1
  ({ s with open_ := [], clock := max (if fresh then 0 else s.clock) top }, .ok)

def step (s : State) : Op → State × Out
  | .begin t l => begin s t l
  | .set t k c => set s t k c
  | .del t k => write s t k none
  | .get t k => (s, get s t k)
  | .keys t => (s, getKeys s t)
  | .commit t => commit s t
  | .rollback t => rollback s t
  | .gc =>     -- invisible; only the clock may advance (the collector draws a number when nothing is open)
    (if s.open_.isEmpty then { s with clock := s.clock + 1 } else s, .ok)
  | .drain => (s, .ok)
  | .reopen f => reopen s f
  | .tree =>   -- C14: at quiescence the disk holds exactly the committed value of every live key
    (s, .files ((s.dom.filterMap (fun k => (committed s k).bind (·.val))).mergeSort (· ≤ ·)))

def run (s : State) : List Op → State × List Out
  | [] => (s, [])
  | op :: ops =>
    let r := step s op
    let r2 := run r.1 ops
    (r2.1, r.2 :: r2.2)

end FsDb.Spec
