import FsDb.Proofs.Refine
import FsDb.Proofs.SpecInv
import FsDb.Properties.C06
/-!
# C13 — A finished transaction is finished: later use fails and changes nothing

On the specification (to which the concrete model is tied by `C02_refinement` /`Refine.run`,
which includes the registry check of `store.Guarded` on the write path).
-/
namespace FsDb.C13
open FsDb Spec

/-- a transaction id that is not open (finished, or never begun) and is not the autocommit id -/
def Closed (s : State) (t : Nat) : Prop := t ≠ mainTx ∧ find s t = none

/-- Every further Get, GetKeys, Set (SetReader, Create), Delete or Commit through a finished or
    unknown transaction fails with ErrTxNotFound; a further Rollback is accepted; none of them
    changes the state — hence nobody, at any level, now or after a restart, can observe anything. -/
theorem C13_late_use (s : State) (t : Nat) (h : Closed s t) (k : Key) (n : Nat) :
    Spec.step s (.get t k) = (s, .err .txNotFound) ∧
    Spec.step s (.keys t) = (s, .err .txNotFound) ∧
    Spec.step s (.set t k n) = (s, .err .txNotFound) ∧
    Spec.step s (.del t k) = (s, .err .txNotFound) ∧
    Spec.step s (.commit t) = (s, .err .txNotFound) ∧
    (Spec.step s (.rollback t)).2 = .ok ∧ (Spec.step s (.rollback t)).1 = s := by
  obtain ⟨htm, hf⟩ := h
  have hctx : ctxOf s t = none := by simp [ctxOf, htm, hf]
  refine ⟨?_, ?_, ?_, ?_, ?_, rfl, ?_⟩
  · simp [Spec.step, Spec.get, hctx]
  · simp [Spec.step, Spec.getKeys, hctx]
  · simp [Spec.step, Spec.set, hctx]
  · simp [Spec.step, Spec.write, htm, hf]
  · simp [Spec.step, Spec.commit, htm, hf]
  · show Spec.close s t = s
    unfold Spec.close
    have : s.open_.filter (fun x => decide (x.id ≠ t)) = s.open_ := by
      rw [List.filter_eq_self]; intro x hx
      have := List.find?_eq_none.mp hf x hx
      simpa using this
    rw [this]

theorem find_close (s : State) (t : Nat) : find (Spec.close s t) t = none := by
  unfold find Spec.close
  rw [List.find?_eq_none]
  intro x hx
  have := (List.mem_filter.mp hx).2
  simpa using this

/-- Once Commit (successful or failed with a serialization error) or Rollback has returned, the
    transaction is closed. -/
theorem C13_closed_after_end (s : State) (t : Nat) (htm : t ≠ mainTx) :
    Closed (Spec.step s (.commit t)).1 t ∧ Closed (Spec.step s (.rollback t)).1 t := by
  refine ⟨⟨htm, ?_⟩, ⟨htm, find_close s t⟩⟩
  show find (Spec.commit s t).1 t = none
  unfold Spec.commit
  simp only [htm, if_false]
  cases hf : find s t with
  | none => simpa using hf
  | some tx =>
    simp only
    split
    · exact find_close s t
    · split
      · exact find_close s t
      · exact find_close s t

def ids (s : State) : List Nat := s.open_.map (·.id)

theorem find_none_iff (s : State) (t : Nat) : find s t = none ↔ t ∉ ids s := by
  unfold find ids
  rw [List.find?_eq_none]
  simp only [List.mem_map, not_exists, not_and]
  constructor
  · intro h x hx e; have := h x hx; simp [e] at this
  · intro h x hx; simpa using h x hx

theorem ids_write (s : State) (t' : Nat) (k : Key) (val : Option Nat) : ids (Spec.write s t' k val).1 = ids s := by
  unfold Spec.write ids
  split
  · simp
  · split
    · rfl
    · simp only [addDom_open, List.map_map]
      apply List.map_congr_left
      intro x _
      simp only [Function.comp]
      split <;> rfl

theorem ids_close_sub (s : State) (t' : Nat) : ∀ x ∈ ids (Spec.close s t'), x ∈ ids s := by
  intro x hx
  unfold ids Spec.close at hx
  obtain ⟨y, hy, rfl⟩ := List.mem_map.mp hx
  exact List.mem_map.mpr ⟨y, (List.mem_filter.mp hy).1, rfl⟩

/-- … and it stays closed under every later operation except a `begin` of the same id (ids are
    fresh uuids in the code; `C13_begin_fresh`). -/
theorem C13_stays_closed (s : State) (t : Nat) (h : Closed s t) (op : Op)
    (hop : ∀ l, op ≠ .begin t l) : Closed (Spec.step s op).1 t := by
  obtain ⟨htm, hf⟩ := h
  refine ⟨htm, ?_⟩
  rw [find_none_iff] at hf ⊢
  have close_ok : ∀ t', t ∉ ids (Spec.close s t') := fun t' hm => hf (ids_close_sub s t' t hm)
  cases op with
  | begin t' l =>
    have htt : t' ≠ t := by intro e; subst e; exact hop l rfl
    show t ∉ ids (Spec.begin s t' l).1
    unfold Spec.begin
    split
    · exact hf
    · unfold ids
      simp only [List.map_append, List.map_cons, List.map_nil, List.mem_append, List.mem_singleton]
      rintro (h1 | h1)
      · exact hf h1
      · exact htt h1.symm
  | set t' k n =>
    show t ∉ ids (Spec.set s t' k n).1
    unfold Spec.set
    split
    · exact hf
    · split
      · exact hf
      · rw [ids_write]; exact hf
  | del t' k => show t ∉ ids (Spec.write s t' k none).1; rw [ids_write]; exact hf
  | get _ _ => exact hf
  | keys _ => exact hf
  | commit t' =>
    show t ∉ ids (Spec.commit s t').1
    unfold Spec.commit
    split
    · exact hf
    · simp only
      split
      · exact close_ok t'
      · split
        · exact close_ok t'
        · exact close_ok t'
  | rollback t' => exact close_ok t'
  | gc =>
    show t ∉ ids (if s.open_.isEmpty then { s with clock := s.clock + 1 } else s)
    split <;> exact hf
  | drain => exact hf
  | reopen f => show t ∉ ids (Spec.reopen s f).1; simp [Spec.reopen, ids]
  | tree => exact hf

/-- Each Begin yields a transaction independent of all others: it is accepted only for an id that
    is not open, and the new transaction starts with no writes of its own. -/
theorem C13_begin_fresh (s : State) (t : Nat) (lvl : Level) (h : (Spec.step s (.begin t lvl)).2 = .ok) :
    find s t = none ∧ ∃ x, find (Spec.step s (.begin t lvl)).1 t = some x ∧ x.level = lvl ∧ ∀ k, x.own k = none := by
  have h' : (Spec.begin s t lvl).2 = .ok := h
  unfold Spec.begin at h'
  split at h'
  · cases h'
  · rename_i hc
    have hnf : find s t = none := by
      cases hf : find s t with
      | none => rfl
      | some x => exact absurd (Or.inr (by simp [hf])) hc
    refine ⟨hnf, ⟨t, lvl, s.clock + 1, fun _ => none⟩, ?_, rfl, fun _ => rfl⟩
    show find (Spec.begin s t lvl).1 t = _
    unfold Spec.begin
    rw [if_neg hc]
    unfold find at hnf ⊢
    simp only [List.find?_append, hnf]
    simp

/-- the same on the concrete model: through `Refine.step`, a late call answers ErrTxNotFound and
    leaves the concrete state related to the *same* specification state -/
theorem C13_late_use_concrete {c : Sys} {s : State} (h : R c s) (t : Nat) (hc : Closed s t) (k : Key) (n : Nat) :
    (c.step (.set t k n)).2 = .err .txNotFound ∧ R (c.step (.set t k n)).1 s ∧
    (c.step (.del t k)).2 = .err .txNotFound ∧ R (c.step (.del t k)).1 s ∧
    (c.step (.get t k)).2 = .err .txNotFound ∧ (c.step (.commit t)).2 = .err .txNotFound ∧
    R (c.step (.commit t)).1 s := by
  obtain ⟨l1, _, l3, l4, l5, _, _⟩ := C13_late_use s t hc k n
  have s1 := Refine.step h (.set t k n) rfl
  have s2 := Refine.step h (.del t k) rfl
  have s3 := Refine.step h (.get t k) rfl
  have s4 := Refine.step h (.commit t) rfl
  rw [l3] at s1; rw [l4] at s2; rw [l1] at s3; rw [l5] at s4
  exact ⟨s1.1, s1.2, s2.1, s2.2, s3.1, s4.1, s4.2⟩

/-- **Late reads under concurrency.**  Under every schedule of the small-step model (`Model/Conc`):
    a Get / GetKeys through transaction `t` answers what the specification answers at a log position
    between its call and its return (`C06_get_linearizable`, `C06_getkeys_subset`); when `t` is
    finished or unknown at that position the answer is ErrTxNotFound — whatever the other
    goroutines are doing, including a Commit of `t` itself that has passed its linearization point. -/
theorem C13_concurrent_read (acts : List Conc.Act) (i t : Nat) (k : Key) (o : Out)
    (hret : ((Conc.exec {} acts).thr i).pc = .ret o)
    (hop : ((Conc.exec {} acts).thr i).op = some (.get t k))
    (hc : Closed (Conc.pureAt (Conc.exec {} acts) ((Conc.exec {} acts).thr i).witAt) t) :
    o = .err .txNotFound := by
  obtain ⟨_, _, ho⟩ := C06.C06_get_linearizable acts i t k o hret hop
  rw [ho]
  have := (C13_late_use _ t hc k 0).1
  exact congrArg Prod.snd this

theorem C13_concurrent_keys (acts : List Conc.Act) (i t : Nat) (ks : List Key)
    (hret : ((Conc.exec {} acts).thr i).pc = .ret (.keys ks))
    (hop : ((Conc.exec {} acts).thr i).op = some (.keys t)) :
    ¬ Closed (Conc.pureAt (Conc.exec {} acts) ((Conc.exec {} acts).thr i).witAt) t := by
  intro hc
  obtain ⟨W, hW, _⟩ := C06.C06_getkeys_subset acts i t ks hret hop
  have := (C13_late_use _ t hc "" 0).2.1
  have h2 : Spec.getKeys (Conc.pureAt (Conc.exec {} acts) ((Conc.exec {} acts).thr i).witAt) t = .err .txNotFound :=
    congrArg Prod.snd this
  rw [h2] at hW
  cases hW

/-- non-vacuity: the zombie-write history of corpus/seq_c13.txt on the specification -/
example :
    (Spec.run {} [.set 0 "k" 3, .begin 1 .ser, .set 1 "k" 12, .commit 1, .set 1 "k" 99, .del 1 "k",
      .begin 2 .ru, .get 2 "k", .rollback 1]).2
    = [.ok, .ok, .ok, .ok, .err .txNotFound, .err .txNotFound, .ok, .val 12, .ok] := by decide

end FsDb.C13
