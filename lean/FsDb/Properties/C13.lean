import FsDb.Spec.Iso
/-! # C13 (theorems under construction) -/
namespace FsDb.C13
end FsDb.C13
