import FsDb.Model.Dir
/-!
# C17 — Content files live in bounded sub-directories of the configured roots
-/
namespace FsDb.C17
open FsDb.Dir

/-- the invariant: no directory holds more than `max` entries, and a directory that is out of the
    registry is full -/
def RootOk (max : Nat) (r : Root) : Prop := ∀ d ∈ r, d.count ≤ max ∧ (d.active = false → max ≤ d.count)

def Ok (s : St) : Prop := ∀ r ∈ s.roots, RootOk s.max r

theorem getRoot_ok (max : Nat) (hmax : 0 < max) (r : Root) (h : RootOk max r) : RootOk max (getRoot max r) := by
  unfold getRoot RootOk at *
  intro d hd
  simp only [List.mem_append, List.mem_map, List.mem_filter] at hd
  rcases hd with ⟨d0, hd0, rfl⟩ | ⟨d0, _, rfl⟩
  · have hd0' : d0 ∈ r ∨ d0 = ⟨0, true⟩ := by
      split at hd0
      · exact Or.inl hd0
      · simp only [List.mem_append, List.mem_singleton] at hd0; exact hd0
    rcases hd0' with hm | rfl
    · have := h d0 hm
      split
      · rename_i hc
        simp only [Bool.and_eq_true, decide_eq_true_eq] at hc
        exact ⟨this.1, fun _ => hc.2⟩
      · exact this
    · have : ¬ max ≤ 0 := by omega
      simp [this]
  · simp

/-- **Every root always offers a directory to write to**: after `dir.Get`, every root has an
    active directory with fewer than `max` entries (for `max > 0`; the configuration clamps it to
    at least 100). -/
theorem C17_offer (max : Nat) (hmax : 0 < max) (r : Root) :
    ∃ d ∈ candidates (getRoot max r), d.count < max := by
  unfold candidates getRoot
  -- r1 has an active directory
  have hact : ∃ d ∈ (if r.any (·.active) then r else r ++ [⟨0, true⟩]), d.active = true := by
    split
    · rename_i h
      obtain ⟨d, hd, ha⟩ := List.any_eq_true.mp h
      exact ⟨d, hd, ha⟩
    · exact ⟨⟨0, true⟩, by simp, rfl⟩
  obtain ⟨d, hd, ha⟩ := hact
  by_cases hfull : max ≤ d.count
  · -- d is full: a fresh directory replaces it
    refine ⟨⟨0, true⟩, ?_, hmax⟩
    rw [List.mem_filter]
    refine ⟨?_, rfl⟩
    rw [List.mem_append]
    right
    rw [List.mem_map]
    exact ⟨d, by rw [List.mem_filter]; exact ⟨hd, by simp [ha, hfull]⟩, rfl⟩
  · refine ⟨d, ?_, by omega⟩
    rw [List.mem_filter]
    refine ⟨?_, ha⟩
    rw [List.mem_append]
    left
    rw [List.mem_map]
    exact ⟨d, hd, by simp [hfull]⟩

/-- all candidates are below the limit -/
theorem candidates_below (max : Nat) (hmax : 0 < max) (r : Root) : ∀ d ∈ candidates (getRoot max r), d.count < max := by
  unfold candidates getRoot
  intro d hd
  rw [List.mem_filter] at hd
  obtain ⟨hm, ha⟩ := hd
  simp only [List.mem_append, List.mem_map, List.mem_filter] at hm
  rcases hm with ⟨d0, _, rfl⟩ | ⟨d0, _, rfl⟩
  · by_cases hc : (d0.active && decide (max ≤ d0.count)) = true
    · rw [if_pos hc] at ha; simp at ha
    · rw [if_neg hc] at ha ⊢
      simp only [Bool.and_eq_true, decide_eq_true_eq, not_and] at hc
      have := hc ha
      omega
  · exact hmax

theorem putAt_ok (max : Nat) (r r' : Root) (c : Nat) (h : RootOk max r) (hc : c < max)
    (hp : putAt r c = some r') : RootOk max r' := by
  induction r generalizing r' with
  | nil => simp [putAt] at hp
  | cons d t ih =>
    unfold putAt at hp
    split at hp
    · cases hp
      intro x hx
      simp only [List.mem_cons] at hx
      rcases hx with rfl | hx
      · rename_i hcond
        simp only [Bool.and_eq_true, beq_iff_eq] at hcond
        exact ⟨by show c + 1 ≤ max; omega, fun hf => by simp [hcond.1] at hf⟩
      · exact h x (List.mem_cons_of_mem _ hx)
    · cases hr : putAt t c with
      | none => simp [hr] at hp
      | some t' =>
        simp [hr] at hp
        subst hp
        have := ih t' (fun x hx => h x (List.mem_cons_of_mem _ hx)) hr
        intro x hx
        simp only [List.mem_cons] at hx
        rcases hx with rfl | hx
        · exact h x (by simp)
        · exact this x hx

theorem delAt_ok (max : Nat) (r r' : Root) (c : Nat) (h : RootOk max r) (hp : delAt r c = some r') : RootOk max r' := by
  induction r generalizing r' with
  | nil => simp [delAt] at hp
  | cons d t ih =>
    unfold delAt at hp
    split at hp
    · cases hp
      rename_i hcond
      simp only [Bool.and_eq_true, beq_iff_eq, decide_eq_true_eq] at hcond
      intro x hx
      simp only [List.mem_cons] at hx
      rcases hx with rfl | hx
      · have := (h d (by simp)).1
        exact ⟨by show c - 1 ≤ max; omega, fun hf => by simp at hf⟩
      · exact h x (List.mem_cons_of_mem _ hx)
    · cases hr : delAt t c with
      | none => simp [hr] at hp
      | some t' =>
        simp [hr] at hp
        subst hp
        have := ih t' (fun x hx => h x (List.mem_cons_of_mem _ hx)) hr
        intro x hx
        simp only [List.mem_cons] at hx
        rcases hx with rfl | hx
        · exact h x (by simp)
        · exact this x hx

theorem updateNth_ok {P : Root → Prop} (l l' : List Root) (i : Nat) (f : Root → Option Root)
    (hl : ∀ r ∈ l, P r) (hf : ∀ r r', P r → f r = some r' → P r') (hu : updateNth l i f = some l') :
    ∀ r ∈ l', P r := by
  induction l generalizing i l' with
  | nil => simp [updateNth] at hu
  | cons a t ih =>
    cases i with
    | zero =>
      simp only [updateNth] at hu
      cases hfa : f a with
      | none => simp [hfa] at hu
      | some a' =>
        simp [hfa] at hu; subst hu
        intro r hr
        simp only [List.mem_cons] at hr
        rcases hr with rfl | hr
        · exact hf a r (hl a (by simp)) hfa
        · exact hl r (List.mem_cons_of_mem _ hr)
    | succ j =>
      simp only [updateNth] at hu
      cases hr : updateNth t j f with
      | none => simp [hr] at hu
      | some t' =>
        simp [hr] at hu; subst hu
        have := ih t' j (fun r hr => hl r (List.mem_cons_of_mem _ hr)) hr
        intro r hr'
        simp only [List.mem_cons] at hr'
        rcases hr' with rfl | hr'
        · exact hl r (by simp)
        · exact this r hr'

/-- **Bound.**  With operations issued one at a time — a write goes to a candidate that `dir.Get`
    just returned (entries `c < max`) — no directory ever holds more than `max` entries: the
    invariant is kept by writes (with rotation), deletions and reopening. -/
theorem C17_bound_put (s s' : St) (root c : Nat) (hmax : 0 < s.max) (h : Ok s) (hc : c < s.max) (hp : s.put root c = some s') : Ok s' := by
  unfold St.put at hp
  cases hu : updateNth s.get.roots root (fun r => putAt r c) with
  | none => simp [hu] at hp
  | some rs =>
    simp [hu] at hp; subst hp
    have hget : ∀ r ∈ s.get.roots, RootOk s.max r := by
      intro r hr
      simp only [St.get, List.mem_map] at hr
      obtain ⟨r0, hr0, rfl⟩ := hr
      exact getRoot_ok s.max hmax r0 (h r0 hr0)
    exact updateNth_ok (P := RootOk s.max) _ _ root _ hget (fun r r' hr hpr => putAt_ok s.max r r' c hr hc hpr) hu

theorem C17_bound_del (s s' : St) (root c : Nat) (h : Ok s) (hp : s.del root c = some s') : Ok s' := by
  unfold St.del at hp
  cases hu : updateNth s.roots root (fun r => delAt r c) with
  | none => simp [hu] at hp
  | some rs =>
    simp [hu] at hp; subst hp
    exact updateNth_ok (P := RootOk s.max) _ _ root _ h (fun r r' hr hpr => delAt_ok s.max r r' c hr hpr) hu

theorem C17_bound_reopen (s : St) (h : Ok s) : Ok s.reopen := by
  intro r hr
  simp only [St.reopen, List.mem_map] at hr
  obtain ⟨r0, hr0, rfl⟩ := hr
  intro d hd
  simp only [List.mem_map] at hd
  obtain ⟨d0, hd0, rfl⟩ := hd
  exact ⟨(h r0 hr0 d0 hd0).1, fun hf => by simp at hf⟩

/-- **Reuse.**  A directory from which a content is deleted is registered again (and, having
    fewer than `max` entries afterwards, is a candidate of the next `dir.Get`). -/
theorem C17_reuse (r r' : Root) (c : Nat) (hp : delAt r c = some r') : ∃ d ∈ r', d.count = c - 1 ∧ d.active = true := by
  induction r generalizing r' with
  | nil => simp [delAt] at hp
  | cons d t ih =>
    unfold delAt at hp
    split at hp
    · cases hp; exact ⟨⟨c - 1, true⟩, by simp, rfl, rfl⟩
    · cases hr : delAt t c with
      | none => simp [hr] at hp
      | some t' =>
        simp [hr] at hp; subst hp
        obtain ⟨x, hx, h1, h2⟩ := ih t' hr
        exact ⟨x, List.mem_cons_of_mem _ hx, h1, h2⟩

/-- non-vacuity: a root at its limit rotates -/
example : getRoot 2 [⟨2, true⟩, ⟨1, true⟩] = [⟨2, false⟩, ⟨1, true⟩, ⟨0, true⟩] := by decide

end FsDb.C17
