import FsDb.Properties.C05
import FsDb.Proofs.Crash
import FsDb.Model.Persist
/-!
# C04 — A crash at any point loses nothing acknowledged, exposes nothing uncommitted

What is a theorem here and what is enumeration:

* the *meaning* of "the state after a crash" is fixed by the specification: `reopen` in a fresh
  process after the acknowledged operations (optionally plus the operation in flight): the committed
  history is kept, every open transaction is gone (`C04_recovered_state`); a second reopen changes
  nothing (`C04_reopen_idempotent`);
* on the concrete model every operation changes the persistent store (version records, content
  records) by a sequence of mutations; `crashPoints c op` lists the states between them.
  `C04_crash_cut`: in every reachable state, for every operation and EVERY cut, recovery in a fresh
  process reads exactly the acknowledged state or that plus the whole operation in flight -- for all
  keys at once, also when the recovery itself is cut and repeated (`C04_crash_in_recovery`);
* that the real system's mutations come in the modelled order (content file, fileContent record,
  version record; one Badger transaction per commit; removal in the reverse order) is tied by the
  skeleton texts, by the per-content-id lifecycle check of the observed mutation traces
  (`Persist.ok`), and by exhaustive crash-point enumeration on the real code (SIGKILL before every
  mutation of every workload; thorough tier: also before every mutation of the recovery), with the
  allowed states computed by this specification through the driver.  Badger's atomic, kill-durable
  transaction and the prefix semantics of file writes are trusted.
-/
namespace FsDb.C04
open FsDb Spec

/-- the recovered state: committed history and key list unchanged, no transaction open — so no
    write of a transaction that had not committed is visible, and every committed write is -/
theorem C04_recovered_state (s : State) (k : Key) :
    (Spec.reopen s true).1.hist k = s.hist k ∧ (Spec.reopen s true).1.open_ = [] ∧
    Spec.get (Spec.reopen s true).1 mainTx k = Spec.get s mainTx k := by
  refine ⟨rfl, rfl, (C05.C05_reopen_reads s true k).1⟩

/-- reopening a second time (or crashing during recovery and recovering again) gives the same state -/
theorem C04_reopen_idempotent (s : State) (k : Key) :
    (Spec.reopen (Spec.reopen s true).1 true).1.hist k = (Spec.reopen s true).1.hist k ∧
    (Spec.reopen (Spec.reopen s true).1 true).1.open_ = (Spec.reopen s true).1.open_ ∧
    Spec.getKeys (Spec.reopen (Spec.reopen s true).1 true).1 mainTx = Spec.getKeys (Spec.reopen s true).1 mainTx := by
  refine ⟨rfl, rfl, (C05.C05_reopen_reads _ true k).2⟩

/-- an operation in flight is all-or-nothing in the specification: a commit either appends one
    version to every key it wrote or changes no history at all -/
theorem C04_commit_all_or_nothing (s : State) (t : Nat) :
    ((Spec.commit s t).1.hist = s.hist) ∨
    (∃ tx, find s t = some tx ∧ ∀ k, (Spec.commit s t).1.hist k =
        match tx.own k with
        | some v => if k ∈ writtenS s.dom tx.own then s.hist k ++ [⟨s.clock + 1, v.val⟩] else s.hist k
        | none => s.hist k) := by
  unfold Spec.commit
  split
  · exact Or.inl rfl
  · rename_i tx heq
    simp only
    split
    · exact Or.inl rfl
    · split
      · exact Or.inl rfl
      · right
        refine ⟨tx, ?_, fun k => rfl⟩
        split at heq
        · cases heq
        · exact heq

/-- **Crash at any cut.**  `c` any state related to a specification state (every reachable state
    is: `C04_reachable`), `op` any operation, `p` any state in which the persistent store can be
    found when the process dies during `op`.  Then after recovery in a fresh process every key reads
    as in the specification after the acknowledged operations (`s`) or as after those plus the whole
    operation in flight -- the same alternative for all keys and for GetKeys; nothing of an
    uncommitted transaction is visible (the recovered specification state has no open transaction);
    and recovering a second time reads the same. -/
theorem C04_crash_cut {c : Sys} {s : State} (h : R c s) (ri : RecInv c) (op : Op) (hop : op.total = true)
    (p : Sys) (hp : p ∈ crashPoints c op) :
    ∃ s', (s' = s ∨ s' = (Spec.step s op).1) ∧
      (∀ k, (p.reopen true).1.get mainTx k = Spec.get (Spec.reopen s' true).1 mainTx k) ∧
      (p.reopen true).1.getKeys mainTx = Spec.getKeys (Spec.reopen s' true).1 mainTx ∧
      (Spec.reopen s' true).1.open_ = [] ∧
      (∀ k, ((p.reopen true).1.reopen true).1.get mainTx k = (p.reopen true).1.get mainTx k) := by
  obtain ⟨hr, hri⟩ := crashPoints_ok h ri op hop p hp
  have key : ∀ s', R p s' →
      (∀ k, (p.reopen true).1.get mainTx k = Spec.get (Spec.reopen s' true).1 mainTx k) ∧
      (p.reopen true).1.getKeys mainTx = Spec.getKeys (Spec.reopen s' true).1 mainTx ∧
      (Spec.reopen s' true).1.open_ = [] ∧
      (∀ k, ((p.reopen true).1.reopen true).1.get mainTx k = (p.reopen true).1.get mainTx k) := by
    intro s' hs'
    have h1 := R.reopen hs' hri true
    have ri1 := RecInv.reopen hs'.inv hri true
    refine ⟨fun k => get_eq h1 mainTx k, getKeys_eq h1 mainTx, rfl, ?_⟩
    intro k
    exact (C05.C05_durable_concrete h1 ri1 true k).1
  rcases hr with hr | hr
  · exact ⟨s, Or.inl rfl, key s hr⟩
  · exact ⟨_, Or.inr rfl, key _ hr⟩

/-- a crash during recovery: recovery's own persistent mutations are the deletions it hands to the
    worker pool; cutting them anywhere and recovering again reads the same -/
theorem C04_crash_in_recovery {c : Sys} {s : State} (h : R c s) (ri : RecInv c)
    (p : Sys) (hp : p ∈ crashPoints (c.reopen true).1 .drain) (k : Key) :
    (p.reopen true).1.get mainTx k = Spec.get (Spec.reopen s true).1 mainTx k := by
  have h1 := R.reopen h ri true
  have ri1 := RecInv.reopen h.inv ri true
  obtain ⟨s', hs', hget, _⟩ := C04_crash_cut h1 ri1 .drain rfl p hp
  rw [hget k]
  rcases hs' with rfl | rfl
  · exact (C05.C05_reopen_reads _ true k).1
  · exact (C05.C05_reopen_reads _ true k).1

/-- every state reached by any history (reopenings included) qualifies -/
theorem C04_reachable (ops : List Op) (hops : ∀ op ∈ ops, op.total = true) :
    R (({} : Sys).run ops).1 (Spec.run {} ops).1 ∧ RecInv (({} : Sys).run ops).1 :=
  (Refine.run_all R.init RecInv.init ops hops).2

/-- the crash points of a Set are one mutation apart: first the fileContent record (the content
    file is complete by then), then the version record -/
theorem C04_set_points (c : Sys) (t : Nat) (k : Key) (n : Nat) (hg : ¬ ((c.regGet t).isNone ∨ k = "")) :
    ∃ p1 p2, crashPoints c (.set t k n) = [c, p1, p2] ∧
      p1.recs = c.recs ∧ p1.cfs = c.cfs ++ [(c.nextCid, n)] ∧
      p2.cfs = p1.cfs ∧ p2.recs = c.recs ++ [⟨k, t, c.nextCid, c.counter + 1, some n⟩] := by
  refine ⟨preStore c [(c.nextCid, n)], (c.set t k n).1, by simp only [crashPoints, if_neg hg], rfl, rfl, ?_, ?_⟩
  · have : (c.set t k n).1 = afterStore c [(c.nextCid, n)] t k (some n) := by
      simp only [not_or] at hg
      simp [Sys.set, hg.1, hg.2, afterStore, preStore]
    rw [this, after_cfs]; rfl
  · have : (c.set t k n).1 = (preStore c [(c.nextCid, n)]).coreStore t k c.nextCid (some n) := by
      simp only [not_or] at hg
      simp [Sys.set, hg.1, hg.2, preStore]
    rw [this, coreStore_recs]; rfl

/-- the crash points of a deletion are one mutation apart: content + fileContent record, then the
    version record -/
theorem C04_delete_points (s : Sys) (v : Ver) (n : Nat) (hc : s.hasContent v.cid = some n) (vs : List Ver) :
    delPoints s (v :: vs) = s :: delCf s v :: delPoints (delRec (delCf s v) v) vs ∧
    (delCf s v).recs = s.recs ∧ (delRec (delCf s v) v).cfs = (delCf s v).cfs := by
  simp [delPoints, hc, delCf, delRec]

/-- the modelled order per content id: the two complete lifecycles are accepted, every prefix of
    them too (a crash stops a lifecycle anywhere), and the orders that would expose a partial
    content or lose a live one are not -/
example : Persist.ok [.file, .cf, .vrec, .vrec, .rm, .delcf, .delrec] = true := by decide
example : Persist.ok [.vrec, .vrec] = true := by decide
example : Persist.ok [.file, .cf] = true := by decide
example : Persist.ok [.file, .vrec] = false := by decide      -- version record before the fileContent record
example : Persist.ok [.cf] = false := by decide              -- fileContent record before the file is complete
example : Persist.ok [.file, .cf, .vrec, .delrec] = false := by decide
example : Persist.ok [.file, .cf, .vrec, .delcf] = false := by decide

/-- non-vacuity of the cut theorem: a history, a Set in flight, all three crash points -/
example : (crashPoints ((({} : Sys).run [.set 0 "a" 1, .begin 1 .rc, .set 1 "b" 2]).1) (.set 0 "a" 3)).length = 3 := by
  decide

end FsDb.C04
