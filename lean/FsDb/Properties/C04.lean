import FsDb.Properties.C05
/-!
# C04 — A crash at any point loses nothing acknowledged, exposes nothing uncommitted

What is a theorem here and what is enumeration:

* the *meaning* of "the state after a crash" is fixed by the specification: `reopen` in a fresh
  process after the acknowledged operations (optionally plus the operation in flight): the committed
  history is kept, every open transaction is gone (`C04_recovered_state`); a second reopen changes
  nothing (`C04_reopen_idempotent`);
* that the real system reaches one of these two states from EVERY cut of its persistent-mutation
  sequence is decided by exhaustive crash-point enumeration on the real code (SIGKILL before every
  mutation of every workload; thorough tier: also before every mutation of the recovery), with the
  allowed states computed by this specification through the driver.  A proof over a mutation-trace
  model of Badger + files is not built (see DESIGN.md, C04: claimed as fault enumeration).
-/
namespace FsDb.C04
open FsDb Spec

/-- the recovered state: committed history and key list unchanged, no transaction open — so no
    write of a transaction that had not committed is visible, and every committed write is -/
theorem C04_recovered_state (s : State) (k : Key) :
    (Spec.reopen s true).1.hist k = s.hist k ∧ (Spec.reopen s true).1.open_ = [] ∧
    Spec.get (Spec.reopen s true).1 mainTx k = Spec.get s mainTx k := by
  refine ⟨rfl, rfl, (C05.C05_reopen_reads s true k).1⟩

/-- reopening a second time (or crashing during recovery and recovering again) gives the same state -/
theorem C04_reopen_idempotent (s : State) (k : Key) :
    (Spec.reopen (Spec.reopen s true).1 true).1.hist k = (Spec.reopen s true).1.hist k ∧
    (Spec.reopen (Spec.reopen s true).1 true).1.open_ = (Spec.reopen s true).1.open_ ∧
    Spec.getKeys (Spec.reopen (Spec.reopen s true).1 true).1 mainTx = Spec.getKeys (Spec.reopen s true).1 mainTx := by
  refine ⟨rfl, rfl, (C05.C05_reopen_reads _ true k).2⟩

/-- an operation in flight is all-or-nothing in the specification: a commit either appends one
    version to every key it wrote or changes no history at all -/
theorem C04_commit_all_or_nothing (s : State) (t : Nat) :
    ((Spec.commit s t).1.hist = s.hist) ∨
    (∃ tx, find s t = some tx ∧ ∀ k, (Spec.commit s t).1.hist k =
        match tx.own k with
        | some v => if k ∈ writtenS s.dom tx.own then s.hist k ++ [⟨s.clock + 1, v.val⟩] else s.hist k
        | none => s.hist k) := by
  unfold Spec.commit
  split
  · exact Or.inl rfl
  · rename_i tx heq
    simp only
    split
    · exact Or.inl rfl
    · split
      · exact Or.inl rfl
      · right
        refine ⟨tx, ?_, fun k => rfl⟩
        split at heq
        · cases heq
        · exact heq

end FsDb.C04
