import FsDb.Proofs.Refine
import FsDb.Proofs.ConcMain
/-!
# C06 — Concurrent operations are individually atomic (linearizable), with no deadlock

What is proved here, and what is tied rather than proved:

* `C06_atomic_steps_refine`: every operation, executed as ONE atomic step, answers what the
  specification answers, for all histories = all interleavings of atomic steps (this is the
  refinement theorem; the collector and the background cleanup are steps of the same system).
* `C06_no_wait_cycle`: if every actor acquires locks in an order consistent with one strict order
  on locks, no set of actors can wait for each other in a cycle (no deadlock).  The lock classes
  and the acquired-while-holding edges of `usecase/core` are listed in `lockEdges` and checked
  against the order `userTx < mainTx < allStore < leaf`; the functions they are read off are tied by
  their skeleton texts (FsDb/Tie).
* `C06_linearizable` (below, second half of this file): the SMALL-STEP model `Model/Conc` — every
  operation a sequence of critical sections / Badger accesses / file operations, any number of
  goroutines, any client programs, any schedule — is linearizable: the state-changing operations in
  the order of their linearization points form a legal history of the specification, every returned
  answer is the specification's answer at a point between the call and the return, GetKeys excepted
  (`C06_getkeys_not_atomic`: the open known finding, as a theorem about the model), and no state is
  dead-locked (`C06_progress`).
* What remains checked rather than proved: that the critical sections of the real code are the steps
  of `Model/Conc` (tied by the skeleton texts and by enforced schedules on the real database whose
  answers must be linearizable against `Spec.Iso`), and the window between the registry removal and
  `UpdateTx`/`DeleteTx` inside Commit/Rollback, which the model contracts to one step.
-/
namespace FsDb.C06
open FsDb Spec

theorem C06_atomic_steps_refine {c : Sys} {s : State} (h : R c s) (ops : List Op) (hops : ∀ op ∈ ops, op.core = true) :
    (c.run ops).2 = (Spec.run s ops).2 ∧ R (c.run ops).1 (Spec.run s ops).1 :=
  Refine.run h ops hops

/-! ### ordered lock acquisition excludes wait cycles -/

/-- an actor holds some locks and may be waiting for one -/
structure Actor where
  held  : List Nat
  waits : Option Nat

/-- ordered acquisition: an actor only ever waits for a lock above everything it holds -/
def Ordered (a : Actor) : Prop := ∀ w, a.waits = some w → ∀ h ∈ a.held, h < w

/-- `chain as w0 w`: following the actors `as` in turn, each waits for a lock held by the next;
    the first waits for `w0`, the last one's own awaited lock is `w` -/
inductive Chain : List Actor → Nat → Nat → Prop
  | single (a : Actor) (w : Nat) : a.waits = some w → Chain [a] w w
  | cons (a : Actor) (w : Nat) (b : Actor) (rest : List Actor) (w' wl : Nat) :
      a.waits = some w → w ∈ b.held → Chain (b :: rest) w' wl → Chain (a :: b :: rest) w wl

theorem chain_increasing {as : List Actor} {w0 wl : Nat} (h : Chain as w0 wl) (hord : ∀ a ∈ as, Ordered a) :
    w0 ≤ wl := by
  induction h with
  | single a w _ => exact Nat.le_refl _
  | cons a w b rest w' wl hw hheld hrest ih =>
    have hb : Ordered b := hord b (by simp)
    -- b waits for w' (the head of the rest chain) and holds w, so w < w'
    have hbw : b.waits = some w' := by cases hrest <;> assumption
    have := hb w' hbw w hheld
    have := ih (fun x hx => hord x (List.mem_cons_of_mem _ hx))
    omega

/-- No deadlock by lock ordering: a wait cycle (a chain whose last actor waits for a lock held by
    the first) is impossible when all actors acquire in order. -/
theorem C06_no_wait_cycle (as : List Actor) (w0 wl : Nat) (hc : Chain as w0 wl) (hord : ∀ a ∈ as, Ordered a)
    (first : Actor) (hfirst : as.head? = some first) (hclose : wl ∈ first.held) : False := by
  have hle := chain_increasing hc hord
  have hfm : first ∈ as := by
    cases as with
    | nil => cases hfirst
    | cons a t => simp at hfirst; subst hfirst; simp
  have hfw : first.waits = some w0 := by
    cases hc with
    | single a w hw => simp at hfirst; subst hfirst; exact hw
    | cons a w b rest w' wl hw _ _ => simp at hfirst; subst hfirst; exact hw
  have := hord first hfm w0 hfw wl hclose
  omega

/-- lock classes of `usecase/core` -/
def userTx : Nat := 0
def mainTxL : Nat := 1
def allStore : Nat := 2
def leaf : Nat := 3

/-- acquired-while-holding edges read off the functions (Store, UpdateTx, DeleteTx, DeleteOld; the
    getters hold one lock at a time): (held, then acquired) -/
def lockEdges : List (Nat × Nat) :=
  [ (userTx, allStore),       -- core.Store on a transaction: tx.Lock, allStore.Lock
    (mainTxL, allStore),      -- core.Store on main / DeleteOld: main.Lock, allStore.Lock
    (userTx, mainTxL),        -- UpdateTx: tx.Lock, main.Lock
    (mainTxL, allStore),      -- UpdateTx: main.Lock, allStore.Lock
    (userTx, allStore),       -- DeleteTx: tx.Lock, allStore.Lock
    (userTx, leaf), (mainTxL, leaf), (allStore, leaf) ]  -- pools, txStore map, registry under any of them

/-- every edge goes up in the order `userTx < mainTx < allStore < leaf`: acquisition is ordered -/
theorem C06_lock_order : ∀ e ∈ lockEdges, e.1 < e.2 := by decide


/-! ## linearizability of the small-step model -/
open FsDb.Conc

/-- **The log is a legal sequential history.**  For EVERY schedule of EVERY client programs (any
    number of goroutines; `acts` is any list of calls and steps, disabled ones are skipped): the
    state-changing operations in the order of their linearization points, with the answers logged
    there, are exactly what the specification answers when it executes them one after the other;
    and the shared state (with the deletion jobs in execution put back) is related to the
    specification state by the refinement relation. -/
theorem C06_log_is_spec_history (acts : List Act) :
    let σ := exec {} acts
    -- the specification executing the operations of the log (a number drawn for nothing by the
    -- collector's horizon step is logged as a counter advance; `opsOf` erases those) gives exactly
    -- the logged answers …
    (Spec.run {} (opsOf (linOps σ.lin))).2 = linOuts σ.lin ∧
    -- … and the shared state is related to the specification state that follows the counter; the
    -- transactions inside Commit / Rollback (`closing`) are exempt from the snapshot clause: they
    -- read nothing any more
    Rx σ.closing (withBusy σ) (Spec.erun {} (linOps σ.lin)).1 :=
  ⟨log_pure (reachable_inv acts), (reachable_inv acts).rel⟩

/-- **Every answer is the atomic answer at a point between call and return.**  In every reachable
    state, when thread `i` is about to return `o` from an operation other than GetKeys: the ghost
    witness is `o`, it was taken at a log position `witAt` with `invAt ≤ witAt ≤ |log|` (`invAt`:
    the log length at the call), and
    * for `Get t k`: `o` is the specification's answer in the state after the first `witAt` log entries
      (`specAt`, which follows the counter advances of the log; `C06_get_linearizable` states it for
      the specification executing the operations alone);
    * for Set/Delete/Begin/Commit/Rollback/gc/drain: the log entry at position `witAt - 1 ≥ invAt`
      is exactly `(i, op, o)` — by `C06_log_is_spec_history` the specification's answer there. -/
theorem C06_linearizable (acts : List Act) (i : Nat) (o : Out)
    (hret : ((exec {} acts).thr i).pc = .ret o) (hk : isKeys ((exec {} acts).thr i).op = false) :
    let σ := exec {} acts
    let th := σ.thr i
    th.wit = some o ∧ th.invAt ≤ th.witAt ∧ th.witAt ≤ σ.lin.length ∧ WitSem σ i th o := by
  intro σ th
  have h := (reachable_inv acts).thr i
  have hp := h.pc
  rw [hret] at hp
  have hw := hp.1 hk
  obtain ⟨a, b, c⟩ := h.wit o hw
  exact ⟨hw, a, b, c⟩

/-- … spelled out for reads -/
theorem C06_get_linearizable (acts : List Act) (i t : Nat) (k : Key) (o : Out)
    (hret : ((exec {} acts).thr i).pc = .ret o) (hop : ((exec {} acts).thr i).op = some (.get t k)) :
    let σ := exec {} acts
    let th := σ.thr i
    th.invAt ≤ th.witAt ∧ th.witAt ≤ σ.lin.length ∧ o = Spec.get (pureAt σ th.witAt) t k := by
  intro σ th
  obtain ⟨_, a, b, c⟩ := C06_linearizable acts i o hret (by rw [hop]; rfl)
  refine ⟨a, b, ?_⟩
  have c' : WitSem σ i th o := c
  unfold WitSem at c'
  have hop' : th.op = some (.get t k) := hop
  rw [hop'] at c'
  rw [← specAt_get_pure (reachable_inv acts)]
  exact c'

/-- … and for a state-changing operation: its log entry lies between call and return -/
theorem C06_write_linearizable (acts : List Act) (i : Nat) (op : Op) (o : Out)
    (hret : ((exec {} acts).thr i).pc = .ret o) (hop : ((exec {} acts).thr i).op = some op)
    (hm : notRead op = true) :
    let σ := exec {} acts
    let th := σ.thr i
    th.invAt < th.witAt ∧ th.witAt ≤ σ.lin.length ∧ σ.lin[th.witAt - 1]? = some (i, .op op, o) := by
  intro σ th
  have hk : isKeys ((exec {} acts).thr i).op = false := by
    rw [hop]; cases op <;> simp_all [isKeys, notRead]
  obtain ⟨_, _, b, c⟩ := C06_linearizable acts i o hret hk
  have c' : WitSem σ i th o := c
  unfold WitSem at c'
  have hop' : th.op = some op := hop
  rw [hop'] at c'
  cases op <;> simp only [notRead] at hm <;> first | exact ⟨c'.1, b, c'.2⟩ | cases hm

/-- **GetKeys never invents a key** (what is left of its linearizability, see `C06_getkeys_not_atomic`):
    under every schedule, every key a GetKeys returns was listed by the specification's GetKeys in
    the state after the log prefix at its linearization point — a point between its call and its
    return; it can only miss keys whose version was reclaimed while it was reading the content records. -/
theorem C06_getkeys_subset (acts : List Act) (i t : Nat) (ks : List Key)
    (hret : ((exec {} acts).thr i).pc = .ret (.keys ks)) (hop : ((exec {} acts).thr i).op = some (.keys t)) :
    let σ := exec {} acts
    let th := σ.thr i
    ∃ W, Spec.getKeys (pureAt σ th.witAt) t = .keys W ∧ th.invAt ≤ th.witAt ∧ th.witAt ≤ σ.lin.length ∧ ∀ k ∈ ks, k ∈ W := by
  intro σ th
  have h := (reachable_inv acts).thr i
  have hp := h.pc
  rw [hret] at hp
  obtain ⟨W, hw, hsub⟩ := hp.2 ks rfl
  obtain ⟨a, b, c⟩ := h.wit (.keys W) hw
  have c' : WitSem σ i th (.keys W) := c
  unfold WitSem at c'
  have hop' : th.op = some (.keys t) := hop
  rw [hop'] at c'
  rw [← specAt_getKeys_pure (reachable_inv acts)]
  exact ⟨W, c'.symm, a, b, hsub⟩

/-- **No deadlock.**  The only blocking primitive of the model is the horizon mutex.  In every
    reachable state a thread that is inside an operation can take a step, or the holder of the
    horizon mutex can (and that step releases it). -/
theorem C06_progress (acts : List Act) (i : Nat) (hbusy : ((exec {} acts).thr i).pc ≠ .idle) :
    (Conc.step (exec {} acts) i).isSome = true ∨
    ∃ j, (exec {} acts).hzLock = some j ∧ (Conc.step (exec {} acts) j).isSome = true := by
  exact progress (reachable_inv acts) i hbusy

/-- **GetKeys is not atomic** (the open known finding `C06-getkeys-reclaim-window`, as a theorem
    about the model): a schedule in which key "k" has a value at every moment, and GetKeys returns
    the empty list although the atomic answer at its linearization point was ["k"].  Thread 0 writes
    "k"; thread 1 calls GetKeys and looks the lists up; thread 2 overwrites "k"; thread 3 runs a
    collector pass that reclaims the version thread 1 found; thread 1 then misses its content record. -/
def getKeysWitness : List Act :=
  [.call 0 (.set 0 "k" 1), .run 0, .run 0, .run 0, .run 0,
   .call 1 (.keys 0), .run 1, .run 1, .run 1,
   .call 2 (.set 0 "k" 2), .run 2, .run 2, .run 2, .run 2,
   .call 3 .gc, .run 3, .run 3, .run 3, .run 3, .run 3,
   .run 1, .run 1]

theorem C06_getkeys_not_atomic :
    ((exec {} getKeysWitness).thr 1).pc = .ret (.keys []) ∧
    ((exec {} getKeysWitness).thr 1).wit = some (.keys ["k"]) ∧
    (exec {} getKeysWitness).sys.get 0 "k" = .val 2 := by
  decide

/-- non-vacuity: an interleaved schedule in which a reader's lookup is overtaken by an overwrite
    and a collector pass; the reader misses the content, looks again and returns the new value,
    which is the specification's answer at its (second) linearization point -/
example :
    let acts : List Act :=
      [.call 0 (.set 0 "k" 1), .run 0, .run 0, .run 0, .run 0,
       .call 1 (.get 0 "k"), .run 1, .run 1, .run 1,          -- registry, own list, main list: version 1 found
       .call 2 (.set 0 "k" 2), .run 2, .run 2, .run 2, .run 2,
       .call 3 .gc, .run 3, .run 3, .run 3, .run 3, .run 3,   -- version 1 collected, its content deleted
       .run 1, .run 1, .run 1, .run 1]                         -- content missing → look again → version 2
    -- the log: set, set, the collector's entry, the counter after its horizon step
    ((exec {} acts).thr 1).pc = .ret (.val 2) ∧ ((exec {} acts).thr 1).witAt = 4 ∧ (exec {} acts).lin.length = 4 := by
  decide

/-- **The window inside Commit** (non-vacuity of the `closing` part of the model): transaction 1 — a
    snapshot that can still see version 1 of "k" — has executed `txRepo.Delete` of its Commit; a
    collector pass now finds no transaction registered, draws a fresh number although the
    specification still has transaction 1 open (logged as a counter advance), and reclaims version 1;
    then `UpdateTx` runs and Commit returns nil.  Every state on the way satisfies the invariant
    (`reachable_inv`), and every answer is the specification's (`C06_linearizable`). -/
def commitWindow : List Act :=
  [.call 0 (.set 0 "k" 1), .run 0, .run 0, .run 0, .run 0,
   .call 1 (.begin 1 .ser), .run 1, .run 1, .run 1,
   .call 0 (.set 0 "k" 2), .run 0, .run 0, .run 0, .run 0,
   .call 1 (.commit 1), .run 1]

theorem C06_commit_window_witness :
    (exec {} commitWindow).closing = [1] ∧ ((exec {} commitWindow).sys.main "k").length = 2 ∧
    (let σ := exec {} (commitWindow ++ [.call 2 .gc, .run 2, .run 2, .run 2, .run 2, .run 2])
     σ.closing = [1] ∧ (σ.sys.main "k").length = 1 ∧ σ.sys.counter = 4 ∧
     σ.lin.map (·.2.1) = [.op (.set 0 "k" 1), .op (.begin 1 .ser), .op (.set 0 "k" 2), .op .gc, .tick 4]) ∧
    (let σ := exec {} (commitWindow ++ [.call 2 .gc, .run 2, .run 2, .run 2, .run 2, .run 2, .run 1])
     σ.closing = [] ∧ (σ.thr 1).pc = .ret .ok ∧ σ.sys.reg = []) := by
  decide

end FsDb.C06
