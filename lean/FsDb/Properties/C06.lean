import FsDb.Proofs.Refine
/-!
# C06 — Concurrent operations are individually atomic (linearizable), with no deadlock

What is proved here, and what is tied rather than proved:

* `C06_atomic_steps_refine`: every operation, executed as ONE atomic step, answers what the
  specification answers, for all histories = all interleavings of atomic steps (this is the
  refinement theorem; the collector and the background cleanup are steps of the same system).
* `C06_no_wait_cycle`: if every actor acquires locks in an order consistent with one strict order
  on locks, no set of actors can wait for each other in a cycle (no deadlock).  The lock classes
  and the acquired-while-holding edges of `usecase/core` are listed in `lockEdges` and checked
  against the order `userTx < mainTx < allStore < leaf`; the functions they are read off are tied by
  their skeleton texts (FsDb/Tie).
* That each operation's effect *is* atomic in the real code — one critical section per
  operation's read or write of the version lists, the registry check before, the content fetch
  after (with the re-lookup of `store.Get`) — is not a theorem: it is checked by enforced
  schedules on the real database whose answers must be linearizable against `Spec.Iso`.
-/
namespace FsDb.C06
open FsDb Spec

theorem C06_atomic_steps_refine {c : Sys} {s : State} (h : R c s) (ops : List Op) (hops : ∀ op ∈ ops, op.core = true) :
    (c.run ops).2 = (Spec.run s ops).2 ∧ R (c.run ops).1 (Spec.run s ops).1 :=
  Refine.run h ops hops

/-! ### ordered lock acquisition excludes wait cycles -/

/-- an actor holds some locks and may be waiting for one -/
structure Actor where
  held  : List Nat
  waits : Option Nat

/-- ordered acquisition: an actor only ever waits for a lock above everything it holds -/
def Ordered (a : Actor) : Prop := ∀ w, a.waits = some w → ∀ h ∈ a.held, h < w

/-- `chain as w0 w`: following the actors `as` in turn, each waits for a lock held by the next;
    the first waits for `w0`, the last one's own awaited lock is `w` -/
inductive Chain : List Actor → Nat → Nat → Prop
  | single (a : Actor) (w : Nat) : a.waits = some w → Chain [a] w w
  | cons (a : Actor) (w : Nat) (b : Actor) (rest : List Actor) (w' wl : Nat) :
      a.waits = some w → w ∈ b.held → Chain (b :: rest) w' wl → Chain (a :: b :: rest) w wl

theorem chain_increasing {as : List Actor} {w0 wl : Nat} (h : Chain as w0 wl) (hord : ∀ a ∈ as, Ordered a) :
    w0 ≤ wl := by
  induction h with
  | single a w _ => exact Nat.le_refl _
  | cons a w b rest w' wl hw hheld hrest ih =>
    have hb : Ordered b := hord b (by simp)
    -- b waits for w' (the head of the rest chain) and holds w, so w < w'
    have hbw : b.waits = some w' := by cases hrest <;> assumption
    have := hb w' hbw w hheld
    have := ih (fun x hx => hord x (List.mem_cons_of_mem _ hx))
    omega

/-- No deadlock by lock ordering: a wait cycle (a chain whose last actor waits for a lock held by
    the first) is impossible when all actors acquire in order. -/
theorem C06_no_wait_cycle (as : List Actor) (w0 wl : Nat) (hc : Chain as w0 wl) (hord : ∀ a ∈ as, Ordered a)
    (first : Actor) (hfirst : as.head? = some first) (hclose : wl ∈ first.held) : False := by
  have hle := chain_increasing hc hord
  have hfm : first ∈ as := by
    cases as with
    | nil => cases hfirst
    | cons a t => simp at hfirst; subst hfirst; simp
  have hfw : first.waits = some w0 := by
    cases hc with
    | single a w hw => simp at hfirst; subst hfirst; exact hw
    | cons a w b rest w' wl hw _ _ => simp at hfirst; subst hfirst; exact hw
  have := hord first hfm w0 hfw wl hclose
  omega

/-- lock classes of `usecase/core` -/
def userTx : Nat := 0
def mainTxL : Nat := 1
def allStore : Nat := 2
def leaf : Nat := 3

/-- acquired-while-holding edges read off the functions (Store, UpdateTx, DeleteTx, DeleteOld; the
    getters hold one lock at a time): (held, then acquired) -/
def lockEdges : List (Nat × Nat) :=
  [ (userTx, allStore),       -- core.Store on a transaction: tx.Lock, allStore.Lock
    (mainTxL, allStore),      -- core.Store on main / DeleteOld: main.Lock, allStore.Lock
    (userTx, mainTxL),        -- UpdateTx: tx.Lock, main.Lock
    (mainTxL, allStore),      -- UpdateTx: main.Lock, allStore.Lock
    (userTx, allStore),       -- DeleteTx: tx.Lock, allStore.Lock
    (userTx, leaf), (mainTxL, leaf), (allStore, leaf) ]  -- pools, txStore map, registry under any of them

/-- every edge goes up in the order `userTx < mainTx < allStore < leaf`: acquisition is ordered -/
theorem C06_lock_order : ∀ e ∈ lockEdges, e.1 < e.2 := by decide

end FsDb.C06
