import FsDb.Spec.Iso
/-! # C06 (theorems under construction) -/
namespace FsDb.C06
end FsDb.C06
