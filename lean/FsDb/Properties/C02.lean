import FsDb.Spec.Iso
/-! # C02 (theorems under construction) -/
namespace FsDb.C02
end FsDb.C02
