import FsDb.Proofs.Refine
import FsDb.Proofs.SpecInv
/-!
# C02 — Each isolation level shows a transaction exactly the versions it promises

`C02_refinement` is the theorem: for every history of Begin/Set/Delete/Get/GetKeys/Commit/Rollback,
garbage collection and background cleanup (in any order, any number of open transactions of any
levels, any number of versions per key) the concrete model — version lists, array search,
all-store links, re-sequencing commit, collector — answers exactly what the abstract specification
`Spec.Iso` answers.  The remaining theorems spell out, on the specification, the clauses of the
property statement.
-/
namespace FsDb.C02
open FsDb Spec

/-- Every history: the concrete model and the specification give the same answers. -/
theorem C02_refinement (ops : List Op) (hops : ∀ op ∈ ops, op.core = true) :
    (({} : Sys).run ops).2 = (Spec.run {} ops).2 :=
  Refine.run_init ops hops

/-- … and from any pair of related states (the invariant is inductive, not just reachable-from-empty). -/
theorem C02_refinement_step {c : Sys} {s : State} (h : R c s) (op : Op) (hop : op.core = true) :
    (c.step op).2 = (Spec.step s op).2 ∧ R (c.step op).1 (Spec.step s op).1 :=
  Refine.step h op hop

/-- the candidates a ReadUncommitted read chooses from: the committed value and every open
    transaction's own last write -/
def ruCandidates (s : State) (k : Key) : List (Option SVer) := committed s k :: s.open_.map (fun t => t.own k)

theorem newerS_cases (a b : Option SVer) : newerS a b = a ∨ newerS a b = b := by
  cases a with
  | none => cases b <;> simp [newerS]
  | some x =>
    cases b with
    | none => simp [newerS]
    | some y => simp only [newerS]; split; exact Or.inl rfl; exact Or.inr rfl

theorem newerS_ge (a b : Option SVer) : (∀ x, a = some x → ∃ y, newerS a b = some y ∧ x.stamp ≤ y.stamp) ∧
    (∀ x, b = some x → ∃ y, newerS a b = some y ∧ x.stamp ≤ y.stamp) := by
  cases a with
  | none => cases b <;> simp [newerS]
  | some x =>
    cases b with
    | none => simp [newerS]
    | some y =>
      simp only [newerS]
      split
      · refine ⟨fun z hz => ⟨x, rfl, by cases hz; exact Nat.le_refl _⟩, fun z hz => ⟨x, rfl, by cases hz; omega⟩⟩
      · refine ⟨fun z hz => ⟨y, rfl, by cases hz; omega⟩, fun z hz => ⟨y, rfl, by cases hz; exact Nat.le_refl _⟩⟩

/-- ReadUncommitted: the read returns one of the candidates, and no candidate is more recent:
    "the most recent write to the key by anyone, committed or not" (rolled-back writes are gone:
    `rollback` removes the transaction from `open_`). -/
theorem C02_RU (s : State) (b : Nat) (own : Key → Option SVer) (k : Key) :
    visible s .ru b own k ∈ ruCandidates s k ∧
    ∀ c ∈ ruCandidates s k, ∀ x, c = some x → ∃ y, visible s .ru b own k = some y ∧ x.stamp ≤ y.stamp := by
  unfold visible ruCandidates
  simp only
  generalize committed s k = init
  generalize s.open_ = os
  induction os generalizing init with
  | nil =>
    simp only [List.foldl_nil, List.map_nil, List.mem_singleton, true_and]
    intro c hc x hx; subst hc; exact ⟨x, hx, Nat.le_refl _⟩
  | cons t os ih =>
    simp only [List.foldl_cons, List.map_cons]
    have := ih (newerS (t.own k) init)
    refine ⟨?_, ?_⟩
    · rcases List.mem_cons.mp this.1 with h | h
      · rcases newerS_cases (t.own k) init with h2 | h2
        · rw [h, h2]; simp
        · rw [h, h2]; simp
      · exact List.mem_cons_of_mem _ (List.mem_cons_of_mem _ h)
    · intro c hc x hx
      simp only [List.mem_cons] at hc
      rcases hc with rfl | rfl | hc
      · obtain ⟨y, hy, hxy⟩ := (newerS_ge (t.own k) c).2 x hx
        obtain ⟨z, hz, hyz⟩ := this.2 _ (List.mem_cons_self) y hy
        exact ⟨z, hz, by omega⟩
      · obtain ⟨y, hy, hxy⟩ := (newerS_ge (t.own k) init).1 x hx
        obtain ⟨z, hz, hyz⟩ := this.2 _ (List.mem_cons_self) y hy
        exact ⟨z, hz, by omega⟩
      · exact this.2 c (List.mem_cons_of_mem _ hc) x hx

/-- ReadCommitted: the more recent of the transaction's own last write and the committed value. -/
theorem C02_RC (s : State) (b : Nat) (own : Key → Option SVer) (k : Key) :
    visible s .rc b own k = newerS (own k) (committed s k) := rfl

/-- RepeatableRead / Serializable: the transaction's own last write if it has one … -/
theorem C02_RR_own (s : State) (lvl : Level) (hl : lvl.snapshot = true) (b : Nat) (own : Key → Option SVer)
    (k : Key) (v : SVer) (h : own k = some v) : visible s lvl b own k = some v := by
  cases lvl <;> simp [Level.snapshot] at hl <;> simp [visible, h]

/-- … otherwise the value that was committed when the transaction began: the newest committed
    version with a stamp below the begin stamp (commits made later carry later stamps). -/
theorem C02_RR_snapshot (s : State) (lvl : Level) (hl : lvl.snapshot = true) (b : Nat) (own : Key → Option SVer)
    (k : Key) (h : own k = none) :
    visible s lvl b own k = ((s.hist k).filter (fun v => v.stamp < b)).getLast? := by
  cases lvl <;> simp [Level.snapshot] at hl <;> simp [visible, h]

/-- a deleted value reads as ErrNotFound -/
theorem C02_deleted_reads_notfound (st : Nat) : outOf (some ⟨st, none⟩) = .err .notFound := rfl

/-- reads outside any transaction behave as ReadCommitted with no own writes -/
theorem C02_autocommit_is_RC (s : State) (k : Key) :
    Spec.get s mainTx k = outOf (visible s .rc 0 (fun _ => none) k) := by
  simp [Spec.get, ctxOf]

/-- GetKeys inside a transaction (or outside) lists exactly the keys whose Get succeeds there,
    sorted and without duplicates. -/
theorem C02_keys_iff_get (s : State) (hs : SInv s) (t : Nat) (ks : List Key) (h : Spec.getKeys s t = .keys ks) :
    (∀ k, k ∈ ks ↔ ∃ c, Spec.get s t k = .val c) ∧ ks.Pairwise (· ≤ ·) ∧ ks.Nodup := by
  unfold Spec.getKeys at h
  cases hc : ctxOf s t with
  | none => rw [hc] at h; cases h
  | some ctx =>
    obtain ⟨lvl, b, own⟩ := ctx
    rw [hc] at h
    simp only [Out.keys.injEq] at h
    subst h
    refine ⟨?_, sorted_sortKeys _, nodup_sortKeys _ (List.Nodup.sublist List.filter_sublist hs.domNodup)⟩
    intro k
    rw [mem_sortKeys, List.mem_filter]
    simp only [Spec.get, hc]
    -- a visible version with a value exists only for keys of the domain
    have hdom : hasValue (visible s lvl b own k) = true → k ∈ s.dom := by
      intro hv
      -- the visible version is a committed one or an own one
      have hcand : ∀ (x : Option SVer), hasValue x = true → (x = none → False) := by
        intro x hx hn; subst hn; simp [hasValue] at hx
      by_cases hh : s.hist k = []
      · -- nothing committed: the value comes from some transaction's own write
        by_cases hown : ∃ tx ∈ s.open_, (tx.own k).isSome
        · obtain ⟨tx, htx, ho⟩ := hown; exact hs.ownDom tx htx k ho
        · exfalso
          have hnone : ∀ tx ∈ s.open_, tx.own k = none := by
            intro tx htx
            cases ho : tx.own k with
            | none => rfl
            | some v => exact absurd ⟨tx, htx, by simp [ho]⟩ hown
          have hcom : committed s k = none := by simp [committed, hh]
          -- every level sees nothing
          have hownk : own k = none := by
            by_cases htm : t = mainTx
            · simp [ctxOf, htm] at hc; rw [← hc.2.2]
            · simp only [ctxOf, htm, if_false, Option.map_eq_some_iff] at hc
              obtain ⟨tx, hf, he⟩ := hc
              have := hnone tx (List.mem_of_find?_eq_some hf)
              simp only [Prod.mk.injEq] at he
              rw [← he.2.2]; exact this
          have hvis : visible s lvl b own k = none := by
            cases lvl
            · -- ru
              have := (C02_RU s b own k).1
              unfold ruCandidates at this
              simp only [List.mem_cons, List.mem_map] at this
              rcases this with h1 | ⟨tx, htx, h1⟩
              · rw [h1, hcom]
              · rw [← h1]; exact hnone tx htx
            · simp [visible, hownk, hcom, newerS]
            · simp [visible, hownk, hh]
            · simp [visible, hownk, hh]
          rw [hvis] at hv; simp [hasValue] at hv
      · exact hs.histDom k hh
    constructor
    · rintro ⟨_, hv⟩
      cases hvis : visible s lvl b own k with
      | none => rw [hvis] at hv; simp [hasValue] at hv
      | some v =>
        rw [hvis] at hv
        obtain ⟨st, val⟩ := v
        cases val with
        | none => simp [hasValue] at hv
        | some c => exact ⟨c, by simp [outOf]⟩
    · rintro ⟨c, hcv⟩
      have hv : hasValue (visible s lvl b own k) = true := by
        cases hvis : visible s lvl b own k with
        | none => rw [hvis] at hcv; simp [outOf] at hcv
        | some v =>
          rw [hvis] at hcv
          obtain ⟨st, val⟩ := v
          cases val with
          | none => simp [outOf] at hcv
          | some c' => simp [hasValue]
      exact ⟨hdom hv, hv⟩

/-- non-vacuity: the project's own `TestDb_Tx` script, on the specification -/
example :
    (Spec.run {} [.set 0 "k" 3, .begin 1 .ru, .begin 2 .rc, .begin 3 .ser,
      .set 1 "k" 10, .set 2 "k" 11, .set 3 "k" 12,
      .get 0 "k", .get 1 "k", .commit 1, .get 2 "k", .gc, .commit 2, .get 0 "k", .get 3 "k", .commit 3]).2
    = [.ok, .ok, .ok, .ok, .ok, .ok, .ok, .val 3, .val 12, .ok, .val 10, .ok, .ok, .val 11, .val 12,
       .err .txSerialization] := by decide

end FsDb.C02
