import FsDb.Proofs.Codec
/-!
# C19 — Persisted version records round-trip and keep their on-disk format
-/
namespace FsDb.C19
open FsDb.Codec

/-- every record (any key bytes incl. empty, 16-byte ids, any 64-bit sequence) decodes to exactly
    what was encoded -/
theorem C19_roundtrip (r : Rec) (hs : r.seq < 2^64) (ht : r.tx.length = 16) (hc : r.cid.length = 16) :
    decode (encode r) = some r := by
  have hl : (encode r).length = 40 + r.key.length := by
    simp [encode, le64_length, ht, hc]; omega
  unfold decode
  rw [if_neg (by rw [hl]; simp [fileLenWithoutKey, uuidLen, timeLen])]
  have h8 : (le64 r.seq).length = 8 := le64_length _
  congr 1
  cases r with
  | mk seq tx cid key =>
    simp only [encode, timeLen, uuidLen, fileLenWithoutKey, Rec.mk.injEq] at *
    refine ⟨?_, ?_, ?_, ?_⟩
    · rw [List.append_assoc, List.append_assoc, List.take_left' h8]
      exact fromLe64_le64 seq hs
    · rw [List.append_assoc, List.append_assoc, List.drop_left' h8, List.take_left' ht]
    · have : (le64 seq ++ tx).length = 8 + 16 := by simp [h8, ht]
      rw [List.append_assoc (le64 seq ++ tx), List.drop_left' this, List.take_left' hc]
    · have : (le64 seq ++ tx ++ cid).length = 2 * 16 + 8 := by simp [h8, ht, hc]
      rw [List.drop_left' this]

/-- the release layout: 8-byte little-endian sequence, 16-byte transaction id, 16-byte content id,
    raw key — stated byte by byte for the sequence -/
theorem C19_layout (r : Rec) :
    encode r = le64 r.seq ++ r.tx ++ r.cid ++ r.key ∧
    ∀ i (hi : i < 8), ((le64 r.seq)[i]'(by simpa [le64_length] using hi)).toNat = r.seq / 256 ^ i % 256 := by
  refine ⟨rfl, ?_⟩
  intro i hi
  have : i = 0 ∨ i = 1 ∨ i = 2 ∨ i = 3 ∨ i = 4 ∨ i = 5 ∨ i = 6 ∨ i = 7 := by omega
  rcases this with h|h|h|h|h|h|h|h <;> subst h <;> simp [le64, UInt8.toNat_ofNat']

/-- decoding rejects exactly the byte strings shorter than the fixed 40-byte header; it is a total
    function (no panic path in the model; the Go slice bounds are exercised by the correspondence) -/
theorem C19_reject_iff (bs : Bytes) : decode bs = none ↔ bs.length < 40 := by
  unfold decode
  have h40 : fileLenWithoutKey = 40 := rfl
  by_cases h : bs.length < fileLenWithoutKey
  · rw [if_pos h]; simp; omega
  · rw [if_neg h]; simp; omega

/-- what is decoded from accepted bytes re-encodes to the same bytes (so two different byte
    strings never decode to the same record: stored records keep decoding to the same values) -/
theorem C19_decode_encode (bs : Bytes) (r : Rec) (h : decode bs = some r) : encode r = bs := by
  unfold decode at h
  split at h
  · cases h
  · rename_i hlen
    simp only [fileLenWithoutKey, uuidLen, timeLen, Nat.not_lt] at hlen
    cases h
    simp only [encode, timeLen, uuidLen, fileLenWithoutKey]
    -- bs = take 8 ++ take 16 (drop 8) ++ take 16 (drop 24) ++ drop 40
    have e1 : le64 (fromLe64 (bs.take 8)) = bs.take 8 := by
      match bs, hlen with
      | b0::b1::b2::b3::b4::b5::b6::b7::rest, _ =>
        simp only [List.take_succ_cons, List.take_zero, fromLe64, List.getD_cons_zero, List.getD_cons_succ, le64]
        have h0 := b0.toNat_lt; have h1 := b1.toNat_lt; have h2 := b2.toNat_lt; have h3 := b3.toNat_lt
        have h4 := b4.toNat_lt; have h5 := b5.toNat_lt; have h6 := b6.toNat_lt; have h7 := b7.toNat_lt
        have f : ∀ (b : UInt8) (x : Nat), x = b.toNat → UInt8.ofNat x = b := by
          intro b x hx; subst hx; exact UInt8.ofNat_toNat
        congr 1
        · apply f; omega
        congr 1
        · apply f; omega
        congr 1
        · apply f; omega
        congr 1
        · apply f; omega
        congr 1
        · apply f; omega
        congr 1
        · apply f; omega
        congr 1
        · apply f; omega
        congr 1
        · apply f; omega
    rw [e1]
    have : bs.drop (8 + 16) = (bs.drop 8).drop 16 := by rw [List.drop_drop]
    have h2 : bs.drop (2 * 16 + 8) = ((bs.drop 8).drop 16).drop 16 := by
      rw [List.drop_drop, List.drop_drop]
    rw [this, h2]
    simp only [List.append_assoc, List.take_append_drop]

/-- canonical uuid text round trip: `Parse(String(b)) = b` for all 16-byte ids -/
theorem C19_uuid (b : Bytes) (h : b.length = 16) : parseUuid (formatUuid b) = some b := by
  match b, h with
  | [b0,b1,b2,b3,b4,b5,b6,b7,b8,b9,b10,b11,b12,b13,b14,b15], _ =>
    simp [parseUuid, formatUuid, fmtBytes, fmtByte, parseHex, parseByte_fmtByte]

/-- the encoding is injective on well-formed records: two different records (any key bytes, so
    also keys that are prefixes of one another) never share their persisted bytes -/
theorem C19_encode_injective (r r' : Rec) (hs : r.seq < 2^64) (ht : r.tx.length = 16) (hc : r.cid.length = 16)
    (hs' : r'.seq < 2^64) (ht' : r'.tx.length = 16) (hc' : r'.cid.length = 16)
    (h : encode r = encode r') : r = r' := by
  have h1 := C19_roundtrip r hs ht hc
  rw [h, C19_roundtrip r' hs' ht' hc'] at h1
  exact (Option.some.inj h1).symm

/-- … and decoding is injective on accepted byte strings: two different stored byte strings never
    decode to the same record (no two metadata entries collapse into one version) -/
theorem C19_decode_injective (bs bs' : Bytes) (r : Rec) (h : decode bs = some r) (h' : decode bs' = some r) :
    bs = bs' := by
  rw [← C19_decode_encode bs r h, ← C19_decode_encode bs' r h']

/-- non-vacuity -/
example : decode (encode ⟨258, List.replicate 16 0, List.replicate 16 255, [107]⟩)
    = some ⟨258, List.replicate 16 0, List.replicate 16 255, [107]⟩ :=
  C19_roundtrip _ (by decide) rfl rfl

end FsDb.C19
