import FsDb.Properties.C03
import FsDb.Properties.C13
import FsDb.Properties.C06
/-!
# C07 — No lost update between concurrent snapshot transactions (first committer wins)

The commit is one critical section (tie: skeleton of `UpdateTx`; enforced schedules on the real
code), hence one atomic step; the theorem is then about arbitrary interleavings of atomic steps,
i.e. arbitrary histories: once one of two snapshot transactions that wrote the same key has
committed, the other one's commit fails with ErrTxSerialization whatever happens in between, and
none of its writes ever becomes visible (`C03_failed_commit_noop`).
-/
/-! (the concurrent half, at the end of this file, rests on the small-step linearizability theorem of C06) -/
namespace FsDb.C07
open FsDb Spec

/-- `t2` is an open snapshot transaction that began at stamp `b`, wrote `k`, and `k` has since
    received a committed value -/
def Armed (s : State) (t2 : Nat) (b : Nat) (k : Key) : Prop :=
  (∃ x, find s t2 = some x ∧ x.level.snapshot = true ∧ x.beginStamp = b ∧ (x.own k).isSome) ∧
  (∃ v, committed s k = some v ∧ v.stamp > b)

/-- an armed transaction cannot commit -/
theorem armed_commit_fails (s : State) (hs : SInv s) (t2 b k) (htm : t2 ≠ mainTx) (h : Armed s t2 b k) :
    (Spec.commit s t2).2 = .err .txSerialization := by
  obtain ⟨⟨x, hf, hl, hb, ho⟩, ⟨v, hc, hv⟩⟩ := h
  rw [C03.C03_conflict_iff s hs t2 x htm hf hl]
  exact ⟨k, v, ho, hc, by rw [hb]; exact hv⟩

theorem find_filter_ne (s : State) (t t' : Nat) (hne : t ≠ t') :
    find (Spec.close s t') t = find s t := by
  unfold find Spec.close
  induction s.open_ with
  | nil => rfl
  | cons a l ih =>
    by_cases ha : a.id = t'
    · have : ¬ a.id = t := by intro e; exact hne (e.symm.trans ha)
      rw [List.filter_cons_of_neg (by simp [ha]), List.find?_cons_of_neg (by simp [this])]; exact ih
    · rw [List.filter_cons_of_pos (by simp [ha])]
      by_cases hat : a.id = t
      · rw [List.find?_cons_of_pos (by simp [hat]), List.find?_cons_of_pos (by simp [hat])]
      · rw [List.find?_cons_of_neg (by simp [hat]), List.find?_cons_of_neg (by simp [hat])]; exact ih

/-- committed stamps of a key never decrease, under any operation except `reopen` -/
theorem committed_mono (s : State) (hs : SInv s) (op : Op) (hop : ∀ f, op ≠ .reopen f) (k : Key) (v : SVer)
    (hc : committed s k = some v) : ∃ w, committed (Spec.step s op).1 k = some w ∧ v.stamp ≤ w.stamp := by
  have keep : ∀ (s' : State), s'.hist k = s.hist k → ∃ w, committed s' k = some w ∧ v.stamp ≤ w.stamp := by
    intro s' he; exact ⟨v, by unfold committed at hc ⊢; rw [he]; exact hc, Nat.le_refl _⟩
  have hvle : v.stamp ≤ s.clock := hs.stampsLe k v (List.mem_of_getLast? hc)
  have grow : ∀ (s' : State) val, s'.hist k = s.hist k ++ [⟨s.clock + 1, val⟩] →
      ∃ w, committed s' k = some w ∧ v.stamp ≤ w.stamp := by
    intro s' val he
    exact ⟨⟨s.clock + 1, val⟩, by unfold committed; rw [he]; simp, by show v.stamp ≤ s.clock + 1; omega⟩
  have hwrite : ∀ t' k' val, ∃ w, committed (Spec.write s t' k' val).1 k = some w ∧ v.stamp ≤ w.stamp := by
    intro t' k' val
    unfold Spec.write
    split
    · by_cases hk : k = k'
      · subst hk; exact grow _ val (by simp)
      · exact keep _ (by simp [hk])
    · split
      · exact keep _ rfl
      · exact keep _ (by simp)
  cases op with
  | begin t l => show ∃ w, committed (Spec.begin s t l).1 k = _ ∧ _; unfold Spec.begin; split <;> exact keep _ rfl
  | set t k' n =>
    show ∃ w, committed (Spec.set s t k' n).1 k = _ ∧ _
    unfold Spec.set
    split
    · exact keep _ rfl
    · split
      · exact keep _ rfl
      · exact hwrite t k' (some n)
  | del t k' => exact hwrite t k' none
  | get _ _ => exact keep _ rfl
  | keys _ => exact keep _ rfl
  | commit t =>
    show ∃ w, committed (Spec.commit s t).1 k = _ ∧ _
    unfold Spec.commit
    split
    · exact keep _ rfl
    · rename_i tx _
      simp only
      split
      · exact keep _ rfl
      · split
        · exact keep _ rfl
        · show ∃ w, committed (publishS (Spec.close s t) tx) k = _ ∧ _
          have hh : (publishS (Spec.close s t) tx).hist k = (match tx.own k with
              | some w => if k ∈ writtenS s.dom tx.own then s.hist k ++ [(⟨s.clock + 1, w.val⟩ : SVer)] else s.hist k
              | none => s.hist k) := rfl
          cases ho : tx.own k with
          | none => exact keep _ (by rw [hh, ho])
          | some w =>
            by_cases hw : k ∈ writtenS s.dom tx.own
            · exact grow _ w.val (by rw [hh, ho]; simp [hw])
            · exact keep _ (by rw [hh, ho]; simp [hw])
  | rollback _ => exact keep _ rfl
  | gc =>
    show ∃ w, committed (if s.open_.isEmpty then { s with clock := s.clock + 1 } else s) k = _ ∧ _
    split <;> exact keep _ rfl
  | drain => exact keep _ rfl
  | reopen f => exact absurd rfl (hop f)
  | tree => exact keep _ rfl

theorem find_write (s : State) (t t' : Nat) (k' : Key) (val : Option Nat) (x : STx) (hf : find s t = some x) :
    ∃ y, find (Spec.write s t' k' val).1 t = some y ∧ y.level = x.level ∧ y.beginStamp = x.beginStamp ∧
      ∀ k, (x.own k).isSome → (y.own k).isSome := by
  unfold Spec.write
  split
  · exact ⟨x, by unfold find at hf ⊢; simpa using hf, rfl, rfl, fun _ h => h⟩
  · split
    · exact ⟨x, hf, rfl, rfl, fun _ h => h⟩
    · unfold find at hf ⊢
      simp only [addDom_open]
      generalize s.open_ = os at hf
      induction os with
      | nil => simp at hf
      | cons a l ih =>
        simp only [List.map_cons]
        by_cases hat : a.id = t
        · rw [List.find?_cons_of_pos (by simp [hat])] at hf
          cases hf
          by_cases hx : x.id = t'
          · rw [if_pos hx, List.find?_cons_of_pos (by simp [hat])]
            refine ⟨_, rfl, rfl, rfl, ?_⟩
            intro k hk
            show (if k = k' then _ else x.own k).isSome
            split <;> simp [hk]
          · rw [if_neg hx, List.find?_cons_of_pos (by simp [hat])]
            exact ⟨x, rfl, rfl, rfl, fun _ h => h⟩
        · rw [List.find?_cons_of_neg (by simp [hat])] at hf
          have hid : (if a.id = t' then ({ a with own := fun k'' => if k'' = k' then some ⟨s.clock + 1, val⟩ else a.own k'' } : STx) else a).id = a.id := by
            split <;> rfl
          rw [List.find?_cons_of_neg (by rw [hid]; simp [hat])]
          exact ih hf

/-- the armed condition is preserved by every operation that does not end or restart `t2` -/
theorem armed_step (s : State) (hs : SInv s) (t2 b k) (h : Armed s t2 b k) (op : Op)
    (h1 : ∀ l, op ≠ .begin t2 l) (h2 : op ≠ .commit t2) (h3 : op ≠ .rollback t2) (h4 : ∀ f, op ≠ .reopen f) :
    Armed (Spec.step s op).1 t2 b k := by
  obtain ⟨⟨x, hf, hl, hb, ho⟩, ⟨v, hc, hv⟩⟩ := h
  refine ⟨?_, ?_⟩
  · -- t2 stays open with the same level and begin stamp, and still owns a write to k
    have keep : ∀ (s' : State), find s' t2 = find s t2 → ∃ y, find s' t2 = some y ∧ y.level.snapshot = true ∧ y.beginStamp = b ∧ (y.own k).isSome :=
      fun s' he => ⟨x, by rw [he]; exact hf, hl, hb, ho⟩
    have hwrite : ∀ t' k' val, ∃ y, find (Spec.write s t' k' val).1 t2 = some y ∧ y.level.snapshot = true ∧ y.beginStamp = b ∧ (y.own k).isSome := by
      intro t' k' val
      obtain ⟨y, hy, e1, e2, e3⟩ := find_write s t2 t' k' val x hf
      exact ⟨y, hy, by rw [e1]; exact hl, by rw [e2]; exact hb, e3 k ho⟩
    cases op with
    | begin t l =>
      have hne : t ≠ t2 := by intro e; subst e; exact h1 l rfl
      show ∃ y, find (Spec.begin s t l).1 t2 = _ ∧ _
      unfold Spec.begin
      split
      · exact keep _ rfl
      · apply keep
        unfold find at hf ⊢
        simp only [List.find?_append, hf]
        rfl
    | set t k' n =>
      show ∃ y, find (Spec.set s t k' n).1 t2 = _ ∧ _
      unfold Spec.set
      split
      · exact keep _ rfl
      · split
        · exact keep _ rfl
        · exact hwrite t k' (some n)
    | del t k' => exact hwrite t k' none
    | get _ _ => exact keep _ rfl
    | keys _ => exact keep _ rfl
    | commit t =>
      have hne : t2 ≠ t := by intro e; subst e; exact h2 rfl
      show ∃ y, find (Spec.commit s t).1 t2 = _ ∧ _
      unfold Spec.commit
      split
      · exact keep _ rfl
      · simp only
        split
        · exact keep _ (find_filter_ne s t2 t hne)
        · split
          · exact keep _ (find_filter_ne s t2 t hne)
          · exact keep _ (find_filter_ne s t2 t hne)
    | rollback t =>
      have hne : t2 ≠ t := by intro e; subst e; exact h3 rfl
      exact keep _ (find_filter_ne s t2 t hne)
    | gc =>
      show ∃ y, find (if s.open_.isEmpty then { s with clock := s.clock + 1 } else s) t2 = _ ∧ _
      split <;> exact keep _ rfl
    | drain => exact keep _ rfl
    | reopen f => exact absurd rfl (h4 f)
    | tree => exact keep _ rfl
  · obtain ⟨w, hw, hvw⟩ := committed_mono s hs op h4 k v hc
    exact ⟨w, hw, by omega⟩

/-- operations that neither end nor restart `t2` (and no restart of the database) -/
def Keeps (t2 : Nat) (op : Op) : Prop :=
  (∀ l, op ≠ .begin t2 l) ∧ op ≠ .commit t2 ∧ op ≠ .rollback t2 ∧ ∀ f, op ≠ .reopen f

theorem armed_run (s : State) (hs : SInv s) (t2 b k) (h : Armed s t2 b k) (ops : List Op)
    (hops : ∀ op ∈ ops, Keeps t2 op) : Armed (Spec.run s ops).1 t2 b k ∧ SInv (Spec.run s ops).1 := by
  induction ops generalizing s with
  | nil => exact ⟨h, hs⟩
  | cons op ops ih =>
    obtain ⟨a1, a2, a3, a4⟩ := hops op (by simp)
    exact ih _ (hs.step op) (armed_step s hs t2 b k h op a1 a2 a3 a4) (fun o ho => hops o (List.mem_cons_of_mem _ ho))

/-- **First committer wins.**  Two transactions `t1 ≠ t2` are open, `t2` at RepeatableRead or
    Serializable, both have written `k`.  If `t1` commits successfully, then after any further
    history (any operations of anybody, collector, cleanup — except ending `t2` itself) the commit of
    `t2` fails with ErrTxSerialization, leaves the committed state unchanged and closes `t2`. -/
theorem C07_first_committer_wins (s : State) (hs : SInv s) (t1 t2 : Nat) (x1 x2 : STx) (k : Key)
    (hne : t1 ≠ t2) (hm1 : t1 ≠ mainTx) (hm2 : t2 ≠ mainTx)
    (hf1 : find s t1 = some x1) (hf2 : find s t2 = some x2) (hl2 : x2.level.snapshot = true)
    (hw1 : (x1.own k).isSome) (hw2 : (x2.own k).isSome)
    (hok : (Spec.commit s t1).2 = .ok)
    (ops : List Op) (hops : ∀ op ∈ ops, Keeps t2 op) :
    let s' := (Spec.run (Spec.commit s t1).1 ops).1
    (Spec.commit s' t2).2 = .err .txSerialization ∧ (Spec.commit s' t2).1.hist = s'.hist ∧
      find (Spec.commit s' t2).1 t2 = none := by
  intro s'
  have hs1 : SInv (Spec.commit s t1).1 := hs.step (.commit t1)
  -- after t1's commit, t2 is armed
  have harm : Armed (Spec.commit s t1).1 t2 x2.beginStamp k := by
    have hx1 : x1 ∈ s.open_ := List.mem_of_find?_eq_some hf1
    have hx2 : x2 ∈ s.open_ := List.mem_of_find?_eq_some hf2
    have hwr : k ∈ writtenS s.dom x1.own := (C03.mem_written hs hx1 k).mpr hw1
    unfold Spec.commit at hok ⊢
    simp only [hm1, if_false, hf1] at hok ⊢
    by_cases hc : conflictS (Spec.close s t1) x1 = true
    · simp [hc] at hok
    · simp only [hc, Bool.false_eq_true, if_false]
      have hne' : ¬ (writtenS (Spec.close s t1).dom x1.own).isEmpty = true := by
        intro he
        have h0 : writtenS (Spec.close s t1).dom x1.own = [] := by simpa using he
        have : writtenS s.dom x1.own = [] := h0
        rw [this] at hwr; cases hwr
      simp only [hne', Bool.false_eq_true, if_false]
      refine ⟨⟨x2, ?_, hl2, rfl, hw2⟩, ?_⟩
      · show find (publishS (Spec.close s t1) x1) t2 = some x2
        have : find (publishS (Spec.close s t1) x1) t2 = find (Spec.close s t1) t2 := rfl
        rw [this, find_filter_ne s t2 t1 (fun e => hne e.symm)]; exact hf2
      · cases ho : x1.own k with
        | none => simp [ho] at hw1
        | some w =>
          refine ⟨⟨s.clock + 1, w.val⟩, ?_, ?_⟩
          · show ((publishS (Spec.close s t1) x1).hist k).getLast? = _
            have hh : (publishS (Spec.close s t1) x1).hist k = s.hist k ++ [⟨s.clock + 1, w.val⟩] := by
              show (match x1.own k with
                | some w => if k ∈ writtenS s.dom x1.own then s.hist k ++ [(⟨s.clock + 1, w.val⟩ : SVer)] else s.hist k
                | none => s.hist k) = _
              rw [ho]; simp [hwr]
            rw [hh]; simp
          · have := hs.beginLe x2 hx2
            show s.clock + 1 > x2.beginStamp
            omega
  obtain ⟨ha, hsi⟩ := armed_run _ hs1 t2 x2.beginStamp k harm ops hops
  have hfail := armed_commit_fails s' hsi t2 x2.beginStamp k hm2 ha
  exact ⟨hfail, (C03.C03_failed_commit_noop s' t2 hfail).1, (C03.C03_failed_commit_noop s' t2 hfail).2⟩

/-- the model variant with the *pin's* skeleton (conflict check and publication in two critical
    sections, a yield point between them) loses an update: both commits succeed.  This is the
    schedule `T1.check, T2.check, T1.publish, T2.publish`, replayed on the real code by the check
    (`corpus` witness `2ser-1key:T1,T1,T1,T1,T1,T2,T2,T2,T2,T2,T1,T2`).  A test of the model, not a
    theorem about all inputs. -/
def splitCommitWitness : Bool :=
  -- (committed stamp of k, clock); both transactions began at stamp 1 < 2 = stamp of k's value
  let begin1 := 3; let begin2 := 4; let kStamp := 2
  let check1 := decide (kStamp > begin1)          -- T1 checks: no conflict
  let check2 := decide (kStamp > begin2)          -- T2 checks before T1 published: no conflict
  (!check1) && (!check2)                           -- both go on to publish

theorem C07_split_skeleton_loses_update : splitCommitWitness = true := by decide

/-- non-vacuity of the theorem's premises -/
example : (Spec.run {} [.set 0 "k" 1, .begin 1 .ser, .begin 2 .ser, .set 1 "k" 2, .set 2 "k" 3, .commit 1,
    .set 0 "j" 9, .gc, .get 2 "k", .commit 2, .get 0 "k"]).2
    = [.ok, .ok, .ok, .ok, .ok, .ok, .ok, .ok, .val 3, .err .txSerialization, .val 2] := by decide

/-! ### under concurrency (small-step model `Model/Conc`) -/

/-- **However the operations — including the two Commit calls — interleave**: in the small-step
    model every `Commit` is logged as ONE entry at its linearization point, the value the call
    returns is the logged answer (its entry lies between call and return), and the log is a legal
    history of the specification — to which `C07_first_committer_wins` applies with `ops` = the log
    entries between the two commits.  So of two overlapping snapshot writers of one key at most one
    `Commit` returns nil, under EVERY schedule. -/
theorem C07_concurrent (acts : List Conc.Act) (i t : Nat) (o : Out)
    (hret : ((Conc.exec {} acts).thr i).pc = .ret o)
    (hop : ((Conc.exec {} acts).thr i).op = some (.commit t)) :
    let σ := Conc.exec {} acts
    let th := σ.thr i
    -- the commit's own log entry, between call and return, carries the returned answer …
    (th.invAt < th.witAt ∧ th.witAt ≤ σ.lin.length ∧ σ.lin[th.witAt - 1]? = some (i, .op (.commit t), o)) ∧
    -- … and the whole log is a specification history
    (Spec.run {} (opsOf (Conc.linOps σ.lin))).2 = Conc.linOuts σ.lin :=
  ⟨C06.C06_write_linearizable acts i (.commit t) o hret hop rfl, (C06.C06_log_is_spec_history acts).1⟩

/-! ### "at most one of their Commit calls succeeds", under every schedule -/

theorem run_split (s : State) (a b : List Op) :
    (Spec.run s (a ++ b)).1 = (Spec.run (Spec.run s a).1 b).1 ∧
    (Spec.run s (a ++ b)).2 = (Spec.run s a).2 ++ (Spec.run (Spec.run s a).1 b).2 := by
  induction a generalizing s with
  | nil => exact ⟨rfl, rfl⟩
  | cons x a ih =>
    simp only [List.cons_append, Spec.run]
    have := ih (Spec.step s x).1
    exact ⟨this.1, by rw [this.2]⟩

theorem run_outs_length (s : State) (a : List Op) : (Spec.run s a).2.length = a.length := by
  induction a generalizing s with
  | nil => rfl
  | cons x a ih => simp only [Spec.run, List.length_cons, ih]

theorem sinv_run (s : State) (hs : SInv s) (a : List Op) : SInv (Spec.run s a).1 := by
  induction a generalizing s with
  | nil => exact hs
  | cons x a ih => exact ih _ (hs.step x)

/-- **At most one commits.**  Take ANY schedule of ANY client programs of the small-step model and
    look at its log (operations in the order of their linearization points, counter advances
    erased): `pre`, then the Commit of `t1`, then `mid`, then the Commit of `t2`, then `post`.  If
    after `pre` both transactions are open, `t2` is a snapshot transaction, both have written `k`,
    and nothing in `mid` ends or restarts `t2`: when the answer logged for — hence returned by
    (`C07_concurrent`) — the first Commit is nil, the answer of the second is ErrTxSerialization. -/
theorem C07_concurrent_at_most_one (acts : List Conc.Act) (pre mid post : List Op) (t1 t2 : Nat) (x1 x2 : STx) (k : Key)
    (hlog : opsOf (Conc.linOps (Conc.exec {} acts).lin) = pre ++ (Op.commit t1 :: mid ++ Op.commit t2 :: post))
    (hne : t1 ≠ t2) (hm1 : t1 ≠ mainTx) (hm2 : t2 ≠ mainTx)
    (hf1 : find (Spec.run {} pre).1 t1 = some x1) (hf2 : find (Spec.run {} pre).1 t2 = some x2)
    (hl2 : x2.level.snapshot = true) (hw1 : (x1.own k).isSome) (hw2 : (x2.own k).isSome)
    (hmid : ∀ op ∈ mid, Keeps t2 op)
    (hok : (Conc.linOuts (Conc.exec {} acts).lin)[pre.length]? = some .ok) :
    (Conc.linOuts (Conc.exec {} acts).lin)[pre.length + 1 + mid.length]? = some (.err .txSerialization) := by
  have hp := Conc.log_pure (Conc.reachable_inv acts)
  rw [hlog] at hp
  rw [← hp] at hok ⊢
  have hsi : SInv (Spec.run {} pre).1 := sinv_run {} SInv.init pre
  have hl1 : (Spec.run {} pre).2.length = pre.length := run_outs_length {} pre
  -- split the run at the two commits
  obtain ⟨_, o1⟩ := run_split {} pre (Op.commit t1 :: mid ++ Op.commit t2 :: post)
  rw [o1] at hok ⊢
  generalize (Spec.run {} pre).1 = s at hf1 hf2 hsi hok ⊢
  generalize (Spec.run {} pre).2 = outs0 at hl1 hok ⊢
  have e2 : (Spec.run s (Op.commit t1 :: mid ++ Op.commit t2 :: post)).2
      = (Spec.commit s t1).2 :: (Spec.run (Spec.commit s t1).1 (mid ++ Op.commit t2 :: post)).2 := rfl
  obtain ⟨_, o3⟩ := run_split (Spec.commit s t1).1 mid (Op.commit t2 :: post)
  have e4 : (Spec.run (Spec.run (Spec.commit s t1).1 mid).1 (Op.commit t2 :: post)).2
      = (Spec.commit (Spec.run (Spec.commit s t1).1 mid).1 t2).2 :: (Spec.run (Spec.commit (Spec.run (Spec.commit s t1).1 mid).1 t2).1 post).2 := rfl
  have hl2' : (Spec.run (Spec.commit s t1).1 mid).2.length = mid.length := run_outs_length _ mid
  rw [e2, o3, e4] at hok ⊢
  have hok' : (Spec.commit s t1).2 = .ok := by
    rw [List.getElem?_append_right (by omega)] at hok
    simp [hl1] at hok
    exact hok
  have hmain := C07_first_committer_wins s hsi t1 t2 x1 x2 k hne hm1 hm2 hf1 hf2 hl2 hw1 hw2 hok' mid hmid
  rw [List.getElem?_append_right (by omega)]
  have i1 : pre.length + 1 + mid.length - outs0.length = (mid.length + 1) := by omega
  rw [i1, List.getElem?_cons_succ, List.getElem?_append_right (by omega)]
  simp [hl2']
  exact hmain.1

/-- non-vacuity: two snapshot writers of "k" whose Commit calls interleave step by step (thread 2
    removes its registry entry before thread 1 runs UpdateTx): the log is `pre ++ [commit 1, commit 2]`,
    the hypotheses hold, the first Commit answers nil and the second ErrTxSerialization -/
def twoCommitters : List Conc.Act :=
  [.call 0 (.set 0 "k" 1), .run 0, .run 0, .run 0, .run 0,
   .call 1 (.begin 1 .ser), .run 1, .run 1, .run 1,
   .call 2 (.begin 2 .ser), .run 2, .run 2, .run 2,
   .call 1 (.set 1 "k" 2), .run 1, .run 1, .run 1, .run 1,
   .call 2 (.set 2 "k" 3), .run 2, .run 2, .run 2, .run 2,
   .call 1 (.commit 1), .call 2 (.commit 2), .run 1, .run 2, .run 1, .run 2, .run 1, .run 2]

example :
    opsOf (Conc.linOps (Conc.exec {} twoCommitters).lin)
      = [.set 0 "k" 1, .begin 1 .ser, .begin 2 .ser, .set 1 "k" 2, .set 2 "k" 3] ++ (Op.commit 1 :: [] ++ Op.commit 2 :: []) ∧
    Conc.linOuts (Conc.exec {} twoCommitters).lin = [.ok, .ok, .ok, .ok, .ok, .ok, .err .txSerialization] ∧
    (∃ x1 x2, find (Spec.run {} [.set 0 "k" 1, .begin 1 .ser, .begin 2 .ser, .set 1 "k" 2, .set 2 "k" 3]).1 1 = some x1 ∧
      find (Spec.run {} [.set 0 "k" 1, .begin 1 .ser, .begin 2 .ser, .set 1 "k" 2, .set 2 "k" 3]).1 2 = some x2 ∧
      x2.level.snapshot = true ∧ (x1.own "k").isSome = true ∧ (x2.own "k").isSome = true) := by
  refine ⟨by decide, by decide, _, _, rfl, rfl, by decide, by decide, by decide⟩

end FsDb.C07
