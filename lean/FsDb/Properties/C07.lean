import FsDb.Spec.Iso
/-! # C07 (theorems under construction) -/
namespace FsDb.C07
end FsDb.C07
