import FsDb.Proofs.Reopen
import FsDb.Proofs.SpecInv
import FsDb.Proofs.MultiDb
/-!
# C05 — Reopening preserves the committed state and later writes keep winning

Proved: on the specification a reopen (in the same or in a fresh process) keeps the whole committed
history, drops the open transactions and keeps the specification invariant (so every later write
gets a stamp above everything committed: it wins now and after every later reopen).  On the
concrete model: the record invariant `RecInv` (every live version has its Badger record; every
record tagged main is dominated by a current main version of its key) holds through every
operation, so `Load` keeps, for every key, exactly the newest committed version
(`C05_load_keeps_newest`), `Close`+`Open` refines the specification's `reopen`
(`C05_reopen_refines`), and the refinement theorem extends to EVERY history with reopenings at any
positions, in the same process or a fresh one (`C05_refinement_with_reopen`).  `Load` leaves the
process counter at or above every surviving sequence number (`C05_counter_covers`) — which is
exactly what the pin's `CompareAndSwap(0, s)` did not guarantee when another database had been
opened before (`C05_cas_witness`).  Several databases in one process share only the counter; that
part is exercised by the multi-database / multi-process correspondence run.
-/
namespace FsDb.C05
open FsDb Spec

/-- a reopen keeps the committed history of every key and forgets the open transactions -/
theorem C05_reopen_spec (s : State) (f : Bool) :
    (Spec.reopen s f).1.hist = s.hist ∧ (Spec.reopen s f).1.dom = s.dom ∧ (Spec.reopen s f).1.open_ = [] :=
  ⟨rfl, rfl, rfl⟩

/-- … so every read by an autocommit caller answers the same before and after -/
theorem C05_reopen_reads (s : State) (f : Bool) (k : Key) :
    Spec.get (Spec.reopen s f).1 mainTx k = Spec.get s mainTx k ∧
    Spec.getKeys (Spec.reopen s f).1 mainTx = Spec.getKeys s mainTx := by
  constructor <;> simp [Spec.get, Spec.getKeys, ctxOf, visible, committed, Spec.reopen]

/-- … any number of times, and the invariant "every stamp ≤ clock" survives (also in a fresh
    process, where the clock restarts at the newest committed stamp) -/
theorem C05_reopen_inv (s : State) (hs : SInv s) (f : Bool) : SInv (Spec.reopen s f).1 := hs.step (.reopen f)

/-- a write acknowledged after a reopen supersedes all earlier data: it becomes the committed value
    immediately, with a stamp above every earlier one (hence also after every later reopen, which
    keeps the history) -/
theorem C05_later_write_wins (s : State) (hs : SInv s) (f : Bool) (k : Key) (val : Option Nat) :
    let s1 := (Spec.reopen s f).1
    let s2 := (Spec.write s1 mainTx k val).1
    committed s2 k = some ⟨s1.clock + 1, val⟩ ∧ ∀ v ∈ s.hist k, v.stamp < s1.clock + 1 := by
  intro s1 s2
  have h1 : SInv s1 := C05_reopen_inv s hs f
  refine ⟨?_, ?_⟩
  · show ((Spec.write s1 mainTx k val).1.hist k).getLast? = _
    simp [Spec.write, Spec.addDom_hist]
  · intro v hv
    have : v ∈ s1.hist k := hv
    exact Nat.lt_succ_of_le (h1.stampsLe k v this)

/-- `Load` on the concrete model: the process counter ends at or above the sequence number of every
    version that survives the reopen, whatever its value was before (another database opened
    earlier, or a fresh process) -/
theorem C05_counter_covers (c : Sys) (f : Bool) (k : Key) (v : Ver) (hk : k ∈ c.dom)
    (hv : v ∈ (c.reopen f).1.main k) : v.seq ≤ (c.reopen f).1.counter := by
  simp only [Sys.reopen] at hv ⊢
  have hw : v ∈ (Option.toList
      ((List.filter (fun x => decide (x.key = k)) (List.filter (fun x => decide (x.tx = mainTx)) c.recs)).foldl
        (fun acc v => match acc with | none => some v | some a => if v.seq < a.seq then some a else some v) none)) := hv
  cases hwin : (List.filter (fun x => decide (x.key = k)) (List.filter (fun x => decide (x.tx = mainTx)) c.recs)).foldl
        (fun acc v => match acc with | none => some v | some a => if v.seq < a.seq then some a else some v) none with
  | none => rw [hwin] at hw; simp at hw
  | some w =>
    rw [hwin] at hw
    simp only [Option.toList_some, List.mem_singleton] at hw
    subst hw
    -- v is among the kept versions, whose seqs are folded into maxSeq
    have hkeep : v ∈ c.dom.filterMap (fun k => (List.filter (fun x => decide (x.key = k)) (List.filter (fun x => decide (x.tx = mainTx)) c.recs)).foldl
        (fun acc v => match acc with | none => some v | some a => if v.seq < a.seq then some a else some v) none) := by
      rw [List.mem_filterMap]; exact ⟨k, hk, hwin⟩
    have hmax : ∀ (l : List Ver) (init : Nat), v ∈ l → v.seq ≤ l.foldl (fun m v => max m v.seq) init := by
      intro l
      induction l with
      | nil => intro _ h; cases h
      | cons a t ih =>
        intro init h
        simp only [List.foldl_cons]
        simp only [List.mem_cons] at h
        rcases h with rfl | h
        · have mono : ∀ (l : List Ver) (i : Nat), i ≤ l.foldl (fun m v => max m v.seq) i := by
            intro l; induction l with
            | nil => intro i; exact Nat.le_refl _
            | cons b t ih2 => intro i; simp only [List.foldl_cons]; exact Nat.le_trans (Nat.le_max_left _ _) (ih2 _)
          exact Nat.le_trans (Nat.le_max_right _ _) (mono t _)
        · exact ih _ h
    exact Nat.le_trans (hmax _ 1 hkeep) (Nat.le_max_right _ _)

/-- `Load` keeps, for every key, exactly the newest committed version -- in every state reachable
    by any history (reopenings included), whatever superseded, rolled-back or tombstone records are
    still lying in Badger -/
theorem C05_load_keeps_newest {c : Sys} {s : State} (h : R c s) (ri : RecInv c) (f : Bool) (k : Key) :
    (c.reopen f).1.main k = (Sys.latest (c.main k)).toList := reopen_main h.inv ri f k

/-- `Close`+`Open` refines the specification's `reopen`; the record invariant survives it -/
theorem C05_reopen_refines {c : Sys} {s : State} (h : R c s) (ri : RecInv c) (f : Bool) :
    R (c.reopen f).1 (Spec.reopen s f).1 ∧ RecInv (c.reopen f).1 :=
  ⟨R.reopen h ri f, RecInv.reopen h.inv ri f⟩

/-- for EVERY history of Begin/Set/Delete/Get/GetKeys/Commit/Rollback/gc/drain with `Close`+`Open`
    at any positions, in the same process or a fresh one, the concrete model (version lists, Badger
    records, `Load`) answers what the specification answers -/
theorem C05_refinement_with_reopen (ops : List Op) (hops : ∀ op ∈ ops, op.total = true) :
    (({} : Sys).run ops).2 = (Spec.run {} ops).2 := Refine.run_all_init ops hops

/-- … hence durability on the concrete model: in every reachable state, what an autocommit caller
    reads is the same immediately before `Close` and immediately after `Open` (same process or a
    fresh one) -/
theorem C05_durable_concrete {c : Sys} {s : State} (h : R c s) (ri : RecInv c) (f : Bool) (k : Key) :
    (c.reopen f).1.get mainTx k = c.get mainTx k ∧ (c.reopen f).1.getKeys mainTx = c.getKeys mainTx := by
  have h' := R.reopen h ri f
  exact ⟨by rw [get_eq h', get_eq h, (C05_reopen_reads s f k).1], by rw [getKeys_eq h', getKeys_eq h, (C05_reopen_reads s f k).2]⟩

/-- non-vacuity: a history with a conflict, a rollback, tombstones, collector passes and two
    reopenings (one in a fresh process) -/
example :
    (Spec.run {} [.set 0 "a" 1, .begin 1 .ser, .set 1 "a" 2, .set 0 "a" 3, .del 0 "b", .commit 1, .gc, .reopen false,
      .get 0 "a", .set 0 "a" 4, .begin 2 .rc, .set 2 "b" 5, .reopen true, .get 0 "a", .get 0 "b", .set 0 "b" 6, .reopen true,
      .get 0 "b", .keys 0]).2
    = [.ok, .ok, .ok, .ok, .ok, .err .txSerialization, .ok, .ok, .val 3, .ok, .ok, .ok, .ok, .val 4, .err .notFound,
       .ok, .ok, .val 6, .keys ["a", "b"]] := by decide

/-- the pin's counter rule: `Set` only if the counter is still zero -/
def casCounter (counter0 maxSeq : Nat) : Nat := if counter0 = 0 then maxSeq else counter0

/-- with the pin's rule and another database opened first (counter 1 when database B, whose newest
    version carries 20, is loaded) the next write to B gets number 2 < 20: it is read back until the
    next reopen, then the older version wins — an acknowledged write is lost.  A test of the model;
    the check replays it with two OS processes (first history of the C05 run). -/
theorem C05_cas_witness : casCounter 1 20 + 1 < 20 ∧ max 1 20 + 1 > 20 := by decide


/-! ### whatever other database instances the same process has opened -/

/-- **Several databases in one process** share only the sequence counter.  For EVERY interleaved
    history of operations on any number of databases (`Proc.step`: a database sees the process-wide
    counter when it runs an operation and leaves it advanced), every database answers exactly what
    the specification answers to ITS OWN operations alone: the others are invisible.  (Operations:
    everything but Close/Open, which `C05_refinement_with_reopen` covers for one database; the
    multi-database run with Close/Open and process restarts is exercised by the correspondence.) -/
theorem C05_multi_db (h : List (Nat × Op)) (hp : ∀ x ∈ h, plainOp x.2 = true) (d : Nat) :
    ((({} : Proc).run h).2.filter (·.1 = d)).map (·.2) = (Spec.run {} ((h.filter (·.1 = d)).map (·.2))).2 :=
  multi_db h hp d

/-- one database in an environment that raises the counter at arbitrary moments by arbitrary amounts -/
theorem C05_environment_invisible (es : List EOp) (hp : ∀ e ∈ es, e.plain = true) :
    (({} : Sys).erun es).2 = (Spec.run {} (opsOf es)).2 :=
  env_invisible es hp

/-- non-vacuity: two databases interleaved; database 1's writes push the counter between database
    0's Begin, its transactional write and its reads, and database 0 still answers as if it were alone -/
example :
    (({} : Proc).run [(0, .set 0 "k" 1), (1, .set 0 "k" 7), (0, .begin 1 .rc), (1, .set 0 "k" 8), (1, .set 0 "j" 9),
      (0, .set 1 "k" 2), (0, .get 1 "k"), (1, .get 0 "k"), (0, .get 0 "k"), (0, .commit 1), (0, .get 0 "k")]).2
    = [(0, .ok), (1, .ok), (0, .ok), (1, .ok), (1, .ok), (0, .ok), (0, .val 2), (1, .val 8), (0, .val 1), (0, .ok), (0, .val 2)] := by
  decide

end FsDb.C05
