import FsDb.Model.Async
/-!
# C12 — A created file stores the concatenation of its writes and Close always returns

Model: `FsDb/Model/Async.lean` (writer/closer and storing goroutine over mutex, condition variable,
`closed`, buffer, wait group).  For the repaired code (`Read` re-checks in a loop, `Close` sets
`closed` under the mutex):

* `C12_concat`  — in every reachable state in which `Close` has returned, the storer has consumed
  exactly the concatenation of all writes, in order, for every script of writes (any sizes incl. 0)
  and every schedule;
* `C12_no_stuck` — in every reachable state in which `Close` has not returned some actor can move
  (no deadlock, no lost wake-up); with a fair scheduler `Close` returns (`C12_progress` bounds the
  number of steps the writer still needs plus the bytes still to move — a decreasing measure).
For the pin's code the two witness theorems exhibit the failing schedules (tests of the model,
replayed on the real code by the check).
-/
namespace FsDb.C12
open FsDb.Async

def good : Cfg := { loopRecheck := true, closeLocked := true, cap := 4 }

structure Inv (total : List Nat) (st : St) : Prop where
  data : st.written = st.consumed ++ st.buf
  ghost : st.written ++ st.script.flatten = total
  mS : st.m = .s ↔ (st.spc = .check ∨ st.spc = .enqueue ∨ st.spc = .take)
  mW : st.m = .w ↔ (st.wpc = .append ∨ st.wpc = .closeStore)
  closedIff : st.closed = true ↔ (st.wpc = .bcast ∨ st.wpc = .waitDone ∨ st.wpc = .returned)
  scriptDone : (st.wpc = .closeStore ∨ st.wpc = .bcast ∨ st.wpc = .waitDone ∨ st.wpc = .returned) → st.script = []
  appendOk : st.wpc = .append → st.script ≠ []
  enqueueOk : st.spc = .enqueue → st.buf = [] ∧ st.closed = false
  sleepOk : st.spc = .sleep → (st.buf = [] ∧ st.closed = false) ∨ st.wpc = .signal ∨ st.wpc = .bcast
  takeOk : st.spc = .take → st.closed = true ∨ st.buf ≠ []
  doneOk : st.spc = .done → st.closed = true ∧ st.buf = []
  retOk : st.wpc = .returned → st.spc = .done

theorem inv_init (script : List (List Nat)) : Inv script.flatten (init script) := by
  constructor <;> simp [init]

theorem inv_step (total : List Nat) (st st' : St) (a : Who) (h : Inv total st)
    (hs : step good st a = some st') : Inv total st' := by
  obtain ⟨m, closed, buf, spc, wpc, script, written, consumed⟩ := st
  obtain ⟨h1, h2, h3, h4, h5, h6, h7, h8, h9, h10, h11, h12⟩ := h
  simp only at h1 h2 h3 h4 h5 h6 h7 h8 h9 h10 h11 h12
  cases a with
  | S =>
    cases spc with
    | idle =>
      simp only [step] at hs
      split at hs
      · cases hs; constructor <;> simp_all
      · cases hs
    | check =>
      simp only [step] at hs
      split at hs
      · cases hs; constructor <;> simp_all
      · rename_i hc
        have hto : closed = true ∨ buf ≠ [] := by
          cases closed <;> simp_all
        cases hs
        constructor <;> simp_all
    | enqueue => simp only [step] at hs; cases hs; constructor <;> simp_all
    | sleep => simp [step] at hs
    | relock =>
      simp only [step, good] at hs
      split at hs
      · cases hs; constructor <;> simp_all
      · cases hs
    | take =>
      simp only [step, good] at hs
      split at hs
      · rename_i hb
        have hb' : buf = [] := by simpa using hb
        cases hs
        constructor <;> simp_all
      · rename_i hb
        have hb' : buf ≠ [] := by simpa using hb
        cases hs
        constructor <;> simp_all
    | done => simp [step] at hs
  | W =>
    cases wpc with
    | ready =>
      cases script with
      | nil =>
        simp only [step, good, ite_true] at hs
        split at hs
        · cases hs; constructor <;> simp_all
        · cases hs
      | cons c rest =>
        simp only [step] at hs
        split at hs
        · cases hs; constructor <;> simp_all
        · cases hs
    | append =>
      cases script with
      | nil => simp [step] at hs
      | cons c rest =>
        simp only [step] at hs
        cases hs
        constructor <;> simp_all
    | signal =>
      simp only [step] at hs
      cases hs
      unfold wake
      split <;> (constructor <;> simp_all)
    | closeStore => simp only [step] at hs; cases hs; constructor <;> simp_all
    | bcast =>
      simp only [step] at hs
      cases hs
      unfold wake
      split <;> (constructor <;> simp_all)
    | waitDone =>
      simp only [step] at hs
      split at hs
      · cases hs; constructor <;> simp_all
      · cases hs
    | returned => simp [step] at hs

/-- states reachable from the initial state of a script, by any schedule -/
inductive Reach (script : List (List Nat)) : St → Prop
  | init : Reach script (init script)
  | step (st st' : St) (a : Who) : Reach script st → step good st a = some st' → Reach script st'

theorem inv_reach (script : List (List Nat)) (st : St) (h : Reach script st) : Inv script.flatten st := by
  induction h with
  | init => exact inv_init script
  | step st st' a _ hs ih => exact inv_step _ st st' a ih hs

/-- **Concatenation.** For every sequence of writes (any sizes, including empty ones) and every
    interleaving of the writer with the storing goroutine: once `Close` has returned, the storer has
    consumed exactly the concatenation of all written bytes, and has seen end-of-stream only after
    `closed ∧ buffer empty`. -/
theorem C12_concat (script : List (List Nat)) (st : St) (h : Reach script st) (hret : st.wpc = .returned) :
    st.consumed = script.flatten ∧ st.spc = .done ∧ st.buf = [] := by
  have i := inv_reach script st h
  have hd := i.retOk hret
  have hb := (i.doneOk hd).2
  have hsc := i.scriptDone (Or.inr (Or.inr (Or.inr hret)))
  refine ⟨?_, hd, hb⟩
  have := i.ghost
  rw [i.data, hb, hsc] at this
  simpa using this

/-- **Close always returns (no stuck state).**  In every reachable state in which `Close` has not
    yet returned, the writer or the storing goroutine can take a step: no deadlock, no lost
    wake-up, for every script and schedule. -/
theorem C12_no_stuck (script : List (List Nat)) (st : St) (h : Reach script st) (hnr : st.wpc ≠ .returned) :
    stuck good st = false := by
  have i := inv_reach script st h
  obtain ⟨m, closed, buf, spc, wpc, sc, written, consumed⟩ := st
  obtain ⟨h1, h2, h3, h4, h5, h6, h7, h8, h9, h10, h11, h12⟩ := i
  simp only at h1 h2 h3 h4 h5 h6 h7 h8 h9 h10 h11 h12 hnr
  unfold stuck
  -- if the storer holds the mutex it can move; otherwise look at the writer
  cases spc with
  | check =>
    have : (step good ⟨m, closed, buf, .check, wpc, sc, written, consumed⟩ .S).isSome = true := by
      simp only [step]; split <;> rfl
    cases hS : step good ⟨m, closed, buf, .check, wpc, sc, written, consumed⟩ .S with
    | none => rw [hS] at this; cases this
    | some _ => simp
  | enqueue => simp [step]
  | take =>
    have : (step good ⟨m, closed, buf, .take, wpc, sc, written, consumed⟩ .S).isSome = true := by
      simp only [step, good]; split <;> rfl
    cases hS : step good ⟨m, closed, buf, .take, wpc, sc, written, consumed⟩ .S with
    | none => rw [hS] at this; cases this
    | some _ => simp
  | idle =>
    cases wpc <;> simp_all [step, good]
    all_goals (cases m <;> simp_all)
    all_goals (cases sc <;> simp_all)
  | relock =>
    cases wpc <;> simp_all [step, good]
    all_goals (cases m <;> simp_all)
    all_goals (cases sc <;> simp_all)
  | sleep =>
    cases wpc <;> simp_all [step, good]
    all_goals (cases m <;> simp_all)
    all_goals (cases sc <;> simp_all)
  | done =>
    cases wpc <;> simp_all [step, good]

/-- a measure that strictly decreases with every step of the writer and every byte the storer
    moves; the storer's own lock/check/wait steps do not increase it.  Together with `C12_no_stuck`
    and a fair scheduler (trusted: Go's) `Close` returns. -/
def wSteps : WPc → Nat
  | .ready => 6 | .append => 5 | .signal => 7 | .closeStore => 3 | .bcast => 2 | .waitDone => 1 | .returned => 0

def measure (st : St) : Nat := 8 * st.script.length + wSteps st.wpc

theorem C12_writer_progress (st st' : St) (hs : step good st .W = some st') : measure st' < measure st := by
  obtain ⟨m, closed, buf, spc, wpc, script, written, consumed⟩ := st
  cases wpc with
  | ready =>
    cases script with
    | nil => simp only [step, good, ite_true] at hs; split at hs <;> (first | (cases hs; simp [measure, wSteps]) | cases hs)
    | cons c rest => simp only [step] at hs; split at hs <;> (first | (cases hs; simp [measure, wSteps]) | cases hs)
  | append =>
    cases script with
    | nil => simp [step] at hs
    | cons c rest => simp only [step] at hs; cases hs; simp [measure, wSteps]; omega
  | signal => simp only [step] at hs; cases hs; unfold wake; split <;> simp [measure, wSteps]
  | closeStore => simp only [step] at hs; cases hs; simp [measure, wSteps]
  | bcast => simp only [step] at hs; cases hs; unfold wake; split <;> simp [measure, wSteps]
  | waitDone => simp only [step] at hs; split at hs <;> (first | (cases hs; simp [measure, wSteps]) | cases hs)
  | returned => simp [step] at hs

/-! ### termination without a fairness assumption

Every step of EITHER goroutine strictly decreases one natural number: the writer's steps decrease
`measure`; a wake-up (which lets the storer run its re-lock / re-check / sleep cycle once more) is
part of a writer step; the storer's other cycle moves at least one byte out of the buffer. -/

def sPos : SPc → Nat
  | .idle => 4 | .check => 3 | .enqueue => 2 | .sleep => 1 | .relock => 4 | .take => 2 | .done => 0

def pendingBytes (st : St) : Nat := st.buf.length + (st.script.map List.length).sum

def mu (st : St) : Nat := 16 * measure st + 8 * pendingBytes st + sPos st.spc

theorem C12_every_step_progress (st st' : St) (a : Who) (hs : step good st a = some st') : mu st' < mu st := by
  obtain ⟨m, closed, buf, spc, wpc, script, written, consumed⟩ := st
  cases a with
  | S =>
    cases spc with
    | idle => simp only [step] at hs; split at hs <;> (first | (cases hs; simp [mu, measure, pendingBytes, sPos]) | cases hs)
    | check => simp only [step] at hs; split at hs <;> (cases hs; simp [mu, measure, pendingBytes, sPos])
    | enqueue => simp only [step] at hs; cases hs; simp [mu, measure, pendingBytes, sPos]
    | sleep => simp [step] at hs
    | relock => simp only [step, good] at hs; split at hs <;> (first | (cases hs; simp [mu, measure, pendingBytes, sPos]) | cases hs)
    | take =>
      simp only [step, good] at hs
      split at hs
      · cases hs; simp [mu, measure, pendingBytes, sPos]
      · rename_i hne
        cases hs
        have hpos : 0 < buf.length := by
          cases buf with
          | nil => simp at hne
          | cons a t => simp
        simp only [mu, measure, pendingBytes, sPos, List.length_drop]
        omega
    | done => simp [step] at hs
  | W =>
    have hw := C12_writer_progress _ _ hs
    cases wpc with
    | ready =>
      cases script with
      | nil =>
        simp only [step, good, ite_true] at hs
        split at hs <;> (first | (cases hs; simp [mu, measure, wSteps, pendingBytes, sPos]) | cases hs)
      | cons c rest =>
        simp only [step] at hs
        split at hs <;> (first | (cases hs; simp [mu, measure, wSteps, pendingBytes, sPos]) | cases hs)
    | append =>
      cases script with
      | nil => simp [step] at hs
      | cons c rest =>
        simp only [step] at hs; cases hs
        simp only [mu, measure, wSteps, pendingBytes, sPos, List.length_append, List.map_cons, List.sum_cons, List.length_cons]
        omega
    | signal =>
      clear hw
      simp only [step] at hs; cases hs
      cases spc <;> simp [wake, mu, measure, wSteps, pendingBytes, sPos] <;> omega
    | closeStore => simp only [step] at hs; cases hs; simp [mu, measure, wSteps, pendingBytes, sPos]
    | bcast =>
      clear hw
      simp only [step] at hs; cases hs
      cases spc <;> simp [wake, mu, measure, wSteps, pendingBytes, sPos] <;> omega
    | waitDone => simp only [step] at hs; split at hs <;> (first | (cases hs; simp [mu, measure, wSteps, pendingBytes, sPos]) | cases hs)
    | returned => simp [step] at hs

/-- a run of `n` steps uses up at least `n` of the measure -/
theorem C12_run_bounded (st st' : St) (as : List Who) (h : run good st as = some st') :
    as.length + mu st' ≤ mu st := by
  induction as generalizing st with
  | nil => simp only [run, Option.some.injEq] at h; subst h; simp
  | cons a as ih =>
    simp only [run] at h
    cases hs : step good st a with
    | none => rw [hs] at h; cases h
    | some s1 =>
      rw [hs] at h
      have := ih s1 h
      have := C12_every_step_progress st s1 a hs
      simp only [List.length_cons]
      omega

theorem reach_of_run (script : List (List Nat)) (st st' : St) (as : List Who) (hr : Reach script st)
    (h : run good st as = some st') : Reach script st' := by
  induction as generalizing st with
  | nil => simp only [run, Option.some.injEq] at h; subst h; exact hr
  | cons a as ih =>
    simp only [run] at h
    cases hs : step good st a with
    | none => rw [hs] at h; cases h
    | some s1 => rw [hs] at h; exact ih s1 (Reach.step st s1 a hr hs) h

/-- **Close returns, under every scheduler.**  For every script (any number of writes of any sizes,
    empty ones included): no schedule is longer than `mu (init script)` steps, and a schedule that
    cannot be extended — neither goroutine can move — has `Close` returned, with the whole content
    delivered (`C12_concat`).  No fairness is assumed: every step of either goroutine uses up the
    measure, so whatever the scheduler does with the two goroutines, as long as it runs one that
    can run, `Close` returns after at most `mu (init script)` steps. -/
theorem C12_close_returns (script : List (List Nat)) (as : List Who) (st : St)
    (h : run good (init script) as = some st) :
    as.length ≤ mu (init script) ∧ (stuck good st = true → st.wpc = .returned) := by
  refine ⟨by have := C12_run_bounded _ _ as h; omega, ?_⟩
  intro hst
  by_cases hr : st.wpc = .returned
  · exact hr
  · have := C12_no_stuck script st (reach_of_run script _ _ as (Reach.init) h) hr
    rw [this] at hst; cases hst

example : mu (init [[1, 2, 3], [], [4, 5, 6, 7, 8, 9]]) = 556 := by decide

/-! ### the pin's code: witnesses (tests of the model; replayed on the real code by the check) -/

/-- `Read` with `if` instead of `for` (no re-check after the wake-up): an empty `Write` wakes the
    storer, which finds the buffer empty and reports end-of-stream; `Close` returns nil and the
    content is truncated.  Script `[1], [], [2]`; the storer consumed `[1]`. -/
theorem C12_empty_write_witness :
    ∃ st, run { loopRecheck := false, closeLocked := true, cap := 4 } (init [[1], [], [2]])
        [.W, .W, .W, .S, .S, .S, .S, .S, .S, .W, .W, .W, .S, .S, .W, .W, .W, .W, .W, .W, .W] = some st ∧
      st.wpc = .returned ∧ st.consumed = [1] := by
  refine ⟨_, rfl, ?_, ?_⟩ <;> decide

/-- `Close` sets `closed` and broadcasts without the mutex: the storer has decided to wait but has
    not yet enqueued; the broadcast finds nobody; the storer sleeps for ever and `Close` blocks in
    the wait group: nobody can move and `Close` has not returned. -/
theorem C12_lost_wakeup_witness :
    ∃ st, run { loopRecheck := true, closeLocked := false, cap := 4 } (init []) [.S, .S, .W, .W, .S] = some st ∧
      st.wpc ≠ .returned ∧ stuck { loopRecheck := true, closeLocked := false, cap := 4 } st = true := by
  refine ⟨_, rfl, ?_, ?_⟩ <;> decide

/-- non-vacuity: the same two schedules on the repaired model end well -/
example : ∃ st, run good (init [[1], [], [2]])
    [.W, .W, .W, .S, .S, .S, .S, .S, .S, .W, .W, .W, .S, .S, .S, .W, .W, .W, .S, .S, .S, .W, .W, .W, .S, .S, .S, .W] = some st ∧
    st.wpc = .returned ∧ st.consumed = [1, 2] := by
  refine ⟨_, rfl, ?_, ?_⟩ <;> decide

end FsDb.C12
