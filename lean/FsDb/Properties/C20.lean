import FsDb.Model.Config
/-!
# C20 — Configuration: defaults < file < environment, with validation
All statements quantify over every combination of layer states of all seven settings.
-/
namespace FsDb.C20
open FsDb.Config

def noMalformed (l : Layers) : Prop :=
  ∀ s ∈ l.toList, s.file ≠ .malformed ∧ s.env ≠ .malformed

/-- the precedence rule for one setting -/
def expected (s : Setting) : Tok :=
  match s.env, s.file with
  | .present, _ => .E
  | .zero, _ => .Z
  | _, .present => .F
  | _, .zero => .Z
  | _, _ => .D

/-- If nothing is malformed, ParseConfig succeeds and every setting is: the environment value if set
    and non-empty, else the file value if present, else the default. -/
theorem C20_precedence (l : Layers) (h : noMalformed l) :
    parseConfig true l = .ok ⟨expected l.port, expected l.dbPath, expected l.dirCount,
      expected l.rootDirs, expected l.gcPeriod, expected l.numWorkers, expected l.sendDuration⟩ := by
  obtain ⟨⟨f1, e1⟩, ⟨f2, e2⟩, ⟨f3, e3⟩, ⟨f4, e4⟩, ⟨f5, e5⟩, ⟨f6, e6⟩, ⟨f7, e7⟩⟩ := l
  simp only [noMalformed, Layers.toList, List.mem_cons, List.not_mem_nil, or_false, forall_eq_or_imp,
    forall_eq] at h
  obtain ⟨⟨a1, b1⟩, ⟨a2, b2⟩, ⟨a3, b3⟩, ⟨a4, b4⟩, ⟨a5, b5⟩, ⟨a6, b6⟩, ⟨a7, b7⟩⟩ := h
  have key : ∀ (f : FileL) (e : EnvL), f ≠ .malformed → e ≠ .malformed →
      afterEnv ⟨f, e⟩ = .ok (expected ⟨f, e⟩) := by
    intro f e hf he
    cases f <;> cases e <;> simp_all [afterEnv, afterFile, expected]
  have nm : ∀ (f : FileL), f ≠ .malformed → (f == FileL.malformed) = false := by
    intro f hf; cases f <;> simp_all
  simp only [parseConfig, Layers.toList, List.any_cons, List.any_nil, ite_true, nm _ a1, nm _ a2,
    nm _ a3, nm _ a4, nm _ a5, nm _ a6, nm _ a7, Bool.or_false, Bool.false_eq_true, ite_false,
    key _ _ a1 b1, key _ _ a2 b2, key _ _ a3 b3, key _ _ a4 b4, key _ _ a5 b5, key _ _ a6 b6,
    key _ _ a7 b7]
  rfl

/-- without a configuration file the file layer is ignored altogether -/
theorem C20_no_file (l : Layers) (h : ∀ s ∈ l.toList, s.env ≠ .malformed) :
    ∃ e, parseConfig false l = .ok e ∧
      e.port = expected ⟨.absent, l.port.env⟩ ∧ e.dbPath = expected ⟨.absent, l.dbPath.env⟩ ∧
      e.dirCount = expected ⟨.absent, l.dirCount.env⟩ ∧ e.rootDirs = expected ⟨.absent, l.rootDirs.env⟩ ∧
      e.gcPeriod = expected ⟨.absent, l.gcPeriod.env⟩ ∧ e.numWorkers = expected ⟨.absent, l.numWorkers.env⟩ ∧
      e.sendDuration = expected ⟨.absent, l.sendDuration.env⟩ := by
  obtain ⟨⟨f1, e1⟩, ⟨f2, e2⟩, ⟨f3, e3⟩, ⟨f4, e4⟩, ⟨f5, e5⟩, ⟨f6, e6⟩, ⟨f7, e7⟩⟩ := l
  simp only [Layers.toList, List.mem_cons, List.not_mem_nil, or_false, forall_eq_or_imp, forall_eq] at h
  obtain ⟨b1, b2, b3, b4, b5, b6, b7⟩ := h
  have key : ∀ (e : EnvL), e ≠ .malformed → afterEnv ⟨.absent, e⟩ = .ok (expected ⟨.absent, e⟩) := by
    intro e he
    cases e <;> simp_all [afterEnv, afterFile, expected]
  simp only [parseConfig, Layers.toList, List.any_cons, List.any_nil, Bool.false_eq_true, ite_false]
  simp only [show (FileL.absent == FileL.malformed) = false from rfl, Bool.or_false, Bool.false_eq_true,
    ite_false, key _ b1, key _ b2, key _ b3, key _ b4, key _ b5, key _ b6, key _ b7]
  exact ⟨_, rfl, rfl, rfl, rfl, rfl, rfl, rfl, rfl⟩

/-- A malformed value in any consulted layer is reported as an error, never replaced silently. -/
theorem C20_malformed_is_error (l : Layers)
    (h : ∃ s ∈ l.toList, s.file = .malformed ∨ s.env = .malformed) :
    ∃ err, parseConfig true l = .error err ∧ (err = .decode ∨ err = .envParse) := by
  obtain ⟨⟨f1, e1⟩, ⟨f2, e2⟩, ⟨f3, e3⟩, ⟨f4, e4⟩, ⟨f5, e5⟩, ⟨f6, e6⟩, ⟨f7, e7⟩⟩ := l
  simp only [Layers.toList, List.mem_cons, List.not_mem_nil, or_false, exists_eq_or_imp, exists_eq_left] at h
  by_cases hf : ([⟨f1, e1⟩, ⟨f2, e2⟩, ⟨f3, e3⟩, ⟨f4, e4⟩, ⟨f5, e5⟩, ⟨f6, e6⟩, ⟨f7, e7⟩] : List Setting).any
      (fun s => s.file == .malformed) = true
  · refine ⟨.decode, ?_, Or.inl rfl⟩
    simp only [parseConfig, Layers.toList, ite_true]
    rw [if_pos hf]
  · refine ⟨.envParse, ?_, Or.inr rfl⟩
    simp only [parseConfig, Layers.toList, ite_true]
    rw [if_neg hf]
    simp only [List.any_cons, List.any_nil, Bool.or_false, Bool.or_eq_true, beq_iff_eq, not_or] at hf
    obtain ⟨g1, g2, g3, g4, g5, g6, g7⟩ := hf
    -- some environment layer is malformed; evaluation stops at the first one
    have ok_or : ∀ (f : FileL) (e : EnvL), e = .malformed ∨ ∃ t, afterEnv ⟨f, e⟩ = .ok t := by
      intro f e; cases e <;> simp [afterEnv]
    have bad : ∀ (f : FileL), afterEnv ⟨f, .malformed⟩ = .error .envParse := fun _ => rfl
    rcases ok_or f1 e1 with r1 | ⟨t1, r1⟩
    · subst r1; simp [bad, bind, Except.bind]
    rcases ok_or f2 e2 with r2 | ⟨t2, r2⟩
    · subst r2; simp [r1, bad, bind, Except.bind]
    rcases ok_or f3 e3 with r3 | ⟨t3, r3⟩
    · subst r3; simp [r1, r2, bad, bind, Except.bind]
    rcases ok_or f4 e4 with r4 | ⟨t4, r4⟩
    · subst r4; simp [r1, r2, r3, bad, bind, Except.bind]
    rcases ok_or f5 e5 with r5 | ⟨t5, r5⟩
    · subst r5; simp [r1, r2, r3, r4, bad, bind, Except.bind]
    rcases ok_or f6 e6 with r6 | ⟨t6, r6⟩
    · subst r6; simp [r1, r2, r3, r4, r5, bad, bind, Except.bind]
    rcases ok_or f7 e7 with r7 | ⟨t7, r7⟩
    · subst r7; simp [r1, r2, r3, r4, r5, r6, bad, bind, Except.bind]
    · -- no env layer malformed and no file layer malformed: contradicts h
      exfalso
      have ne : ∀ (f : FileL) (e : EnvL) t, afterEnv ⟨f, e⟩ = .ok t → e ≠ .malformed := by
        intro f e t ht he; subst he; simp [afterEnv] at ht
      rcases h with h | h | h | h | h | h | h <;> rcases h with h | h
      all_goals first
        | exact absurd h (by assumption)
        | exact absurd h (ne _ _ _ (by assumption))

/-- Validation: empty database path and empty root list are rejected with the documented errors;
    a directory limit below 100 becomes 100 and nothing else changes. -/
theorem C20_valid (e : Eff) :
    (e.dbPath = .Z → valid e = .error .emptyDbPath) ∧
    (e.dbPath ≠ .Z → e.rootDirs = .Z → valid e = .error .emptyRootDirs) ∧
    (e.dbPath ≠ .Z → e.rootDirs ≠ .Z →
      valid e = .ok { e with dirCount := if belowMin e.dirCount then .C else e.dirCount }) := by
  refine ⟨?_, ?_, ?_⟩
  · intro h; simp [valid, h]
  · intro h1 h2; simp [valid, h1, h2]
  · intro h1 h2
    simp only [valid, beq_iff_eq, h1, h2, ite_false]
    split <;> rfl

/-- Validation is idempotent: a configuration that passed validation passes it again unchanged
    (`inline.Open` validates a configuration that `ParseConfig`'s caller may already have validated). -/
theorem C20_valid_idempotent (e e' : Eff) (h : valid e = .ok e') : valid e' = .ok e' := by
  obtain ⟨p, d, c, r, g, n, sd⟩ := e
  cases d <;> cases r <;> cases c <;> simp [valid, belowMin] at h <;> subst h <;> rfl

/-- A malformed configuration file is reported as such whatever the environment holds: the file
    is decoded before the environment is consulted. -/
theorem C20_decode_error_first (l : Layers) (h : ∃ s ∈ l.toList, s.file = .malformed) :
    parseConfig true l = .error .decode := by
  obtain ⟨s, hs, hm⟩ := h
  have : l.toList.any (fun s => s.file == .malformed) = true :=
    List.any_eq_true.mpr ⟨s, hs, by simp [hm]⟩
  simp only [parseConfig, ite_true]
  rw [if_pos this]

/-- The whole of `load` (parse, then validate) when nothing is malformed: it fails exactly when the
    effective database path or root list is the zero value, and otherwise yields the precedence
    result with only the directory limit possibly raised. -/
theorem C20_load (l : Layers) (h : noMalformed l) :
    load true l =
      if expected l.dbPath = .Z then .error .emptyDbPath
      else if expected l.rootDirs = .Z then .error .emptyRootDirs
      else .ok ⟨expected l.port, expected l.dbPath,
        if belowMin (expected l.dirCount) then .C else expected l.dirCount,
        expected l.rootDirs, expected l.gcPeriod, expected l.numWorkers, expected l.sendDuration⟩ := by
  unfold load
  rw [C20_precedence l h]
  show valid _ = _
  by_cases h1 : expected l.dbPath = .Z
  · rw [if_pos h1]; exact (C20_valid _).1 h1
  · rw [if_neg h1]
    by_cases h2 : expected l.rootDirs = .Z
    · rw [if_pos h2]; exact (C20_valid _).2.1 h1 h2
    · rw [if_neg h2]; exact (C20_valid _).2.2 h1 h2

/-- non-vacuity: a mixed configuration -/
example : load true ⟨⟨.present, .unset⟩, ⟨.absent, .present⟩, ⟨.present, .empty⟩, ⟨.absent, .unset⟩,
    ⟨.present, .present⟩, ⟨.absent, .empty⟩, ⟨.zero, .unset⟩⟩ = .ok ⟨.F, .E, .C, .D, .E, .D, .Z⟩ := rfl

end FsDb.C20
