import FsDb.Spec.Iso
/-! # C08 (theorems under construction) -/
namespace FsDb.C08
end FsDb.C08
