import FsDb.Properties.C07
import FsDb.Properties.C06
/-!
# C08 — Snapshot transactions see one consistent, stable snapshot

With the commit as one atomic step that stamps all its versions with ONE number (tie: skeleton of
`UpdateTx`, `Begin`, `cleaner.DeleteOld`; enforced schedules on the real code), the property is a
statement about histories of atomic steps, proved on the specification and carried to the concrete
model by `Refine.run` (which includes the collector: `R.hist` keeps exactly what open snapshots need).
-/
namespace FsDb.C08
open FsDb Spec

/-- every operation except `reopen` leaves the committed history of a key as it is or appends one
    version stamped with the next clock value -/
def Grew (s : State) (k : Key) (s' : State) : Prop :=
  s'.hist k = s.hist k ∨ ∃ val, s'.hist k = s.hist k ++ [⟨s.clock + 1, val⟩]

theorem hist_step (s : State) (op : Op) (hop : ∀ f, op ≠ .reopen f) (k : Key) : Grew s k (Spec.step s op).1 := by
  have hwrite : ∀ t' k' val, Grew s k (Spec.write s t' k' val).1 := by
    intro t' k' val
    unfold Spec.write
    split
    · by_cases hk : k = k'
      · subst hk; exact Or.inr ⟨val, by simp⟩
      · exact Or.inl (by simp [hk])
    · split
      · exact Or.inl rfl
      · exact Or.inl (by simp)
  cases op with
  | begin t l => show Grew s k (Spec.begin s t l).1; unfold Spec.begin; split <;> exact Or.inl rfl
  | set t k' n =>
    show Grew s k (Spec.set s t k' n).1
    unfold Spec.set
    split
    · exact Or.inl rfl
    · split
      · exact Or.inl rfl
      · exact hwrite t k' (some n)
  | del t k' => exact hwrite t k' none
  | get _ _ => exact Or.inl rfl
  | keys _ => exact Or.inl rfl
  | commit t =>
    show Grew s k (Spec.commit s t).1
    unfold Spec.commit
    split
    · exact Or.inl rfl
    · rename_i tx _
      simp only
      split
      · exact Or.inl rfl
      · split
        · exact Or.inl rfl
        · have hh : (publishS (Spec.close s t) tx).hist k = (match tx.own k with
              | some w => if k ∈ writtenS s.dom tx.own then s.hist k ++ [(⟨s.clock + 1, w.val⟩ : SVer)] else s.hist k
              | none => s.hist k) := rfl
          show Grew s k (publishS (Spec.close s t) tx)
          unfold Grew
          rw [hh]
          cases ho : tx.own k with
          | none => exact Or.inl rfl
          | some w =>
            by_cases hw : k ∈ writtenS s.dom tx.own
            · exact Or.inr ⟨w.val, by simp [hw]⟩
            · exact Or.inl (by simp only; rw [if_neg hw])
  | rollback _ => exact Or.inl rfl
  | gc =>
    show Grew s k (if s.open_.isEmpty then { s with clock := s.clock + 1 } else s)
    split <;> exact Or.inl rfl
  | drain => exact Or.inl rfl
  | reopen f => exact absurd rfl (hop f)
  | tree => exact Or.inl rfl

/-- what a snapshot that began at `b` sees of key `k` when it has not written `k` itself -/
def snapshotOf (s : State) (b : Nat) (k : Key) : Option SVer := ((s.hist k).filter (fun v => v.stamp < b)).getLast?

/-- **Stable snapshot.**  For a snapshot that began at `b ≤ clock` (every open transaction:
    `SInv.beginLe`), no operation of anybody — commits, autocommit writes, other Begins, collector —
    changes what it sees of any key. -/
theorem C08_repeatable_step (s : State) (op : Op) (hop : ∀ f, op ≠ .reopen f) (b : Nat) (hb : b ≤ s.clock) (k : Key) :
    snapshotOf (Spec.step s op).1 b k = snapshotOf s b k := by
  unfold snapshotOf
  rcases hist_step s op hop k with h | ⟨val, h⟩
  · rw [h]
  · rw [h, List.filter_append]
    have : List.filter (fun v => decide (v.stamp < b)) [(⟨s.clock + 1, val⟩ : SVer)] = [] := by
      simp; omega
    rw [this, List.append_nil]

theorem clock_mono (s : State) (op : Op) (hop : ∀ f, op ≠ .reopen f) : s.clock ≤ (Spec.step s op).1.clock := by
  cases op with
  | begin t l => show s.clock ≤ (Spec.begin s t l).1.clock; unfold Spec.begin; split <;> simp
  | set t k' n =>
    show s.clock ≤ (Spec.set s t k' n).1.clock
    unfold Spec.set Spec.write
    split
    · exact Nat.le_refl _
    · split
      · exact Nat.le_refl _
      · split
        · simp
        · split <;> simp
  | del t k' =>
    show s.clock ≤ (Spec.write s t k' none).1.clock
    unfold Spec.write
    split
    · simp
    · split <;> simp
  | get _ _ => exact Nat.le_refl _
  | keys _ => exact Nat.le_refl _
  | commit t =>
    show s.clock ≤ (Spec.commit s t).1.clock
    unfold Spec.commit
    split
    · exact Nat.le_refl _
    · simp only
      split
      · exact Nat.le_refl _
      · split
        · exact Nat.le_refl _
        · exact Nat.le_succ _
  | rollback _ => exact Nat.le_refl _
  | gc =>
    show s.clock ≤ (if s.open_.isEmpty then { s with clock := s.clock + 1 } else s).clock
    split <;> simp
  | drain => exact Nat.le_refl _
  | reopen f => exact absurd rfl (hop f)
  | tree => exact Nat.le_refl _

/-- … for any history: re-reading a key returns the same result for as long as the snapshot is open -/
theorem C08_repeatable (s : State) (ops : List Op) (hops : ∀ op ∈ ops, ∀ f, op ≠ .reopen f) (b : Nat)
    (hb : b ≤ s.clock) (k : Key) : snapshotOf (Spec.run s ops).1 b k = snapshotOf s b k := by
  induction ops generalizing s with
  | nil => rfl
  | cons op ops ih =>
    have h1 := C08_repeatable_step s op (hops op (by simp)) b hb k
    have h2 := ih (Spec.step s op).1 (fun o ho => hops o (List.mem_cons_of_mem _ ho))
      (Nat.le_trans hb (clock_mono s op (hops op (by simp))))
    show snapshotOf (Spec.run (Spec.step s op).1 ops).1 b k = _
    rw [h2, h1]

/-- **Atomic visibility.**  A successful commit stamps all the versions it publishes with the one
    number `clock + 1`.  A snapshot that began before (`b ≤ clock`) sees none of them, for every
    key; a snapshot that begins afterwards (`b > clock + 1`) has all of them below its begin stamp.
    No begin stamp equals a commit stamp (both are drawn from the clock by different steps). -/
theorem C08_atomic_visibility (s : State) (t : Nat) :
    (∀ b, b ≤ s.clock → ∀ k, snapshotOf (Spec.commit s t).1 b k = snapshotOf s b k) ∧
    (∀ k v, v ∈ (Spec.commit s t).1.hist k → v ∉ s.hist k → v.stamp = s.clock + 1) := by
  refine ⟨fun b hb k => C08_repeatable_step s (.commit t) (fun f => by simp) b hb k, ?_⟩
  intro k v hv hnv
  rcases hist_step s (.commit t) (fun f => by simp) k with h | ⟨val, h⟩
  · have h' : (Spec.commit s t).1.hist k = s.hist k := h
    rw [h'] at hv; exact absurd hv hnv
  · have h' : (Spec.commit s t).1.hist k = s.hist k ++ [⟨s.clock + 1, val⟩] := h
    rw [h', List.mem_append] at hv
    rcases hv with hv | hv
    · exact absurd hv hnv
    · simp at hv; rw [hv]

/-- the snapshot view is what the concrete model's snapshot read returns, also after collector
    passes (this is `snapshot_eq`, part of the refinement) -/
theorem C08_concrete_snapshot {c : Sys} {s : State} (h : R c s) (k : Key) {r : TxRec} (hr : r ∈ c.reg) :
    snapshotOf s r.seq k = (Sys.lastBefore (c.main k) r.seq).map absV := snapshot_eq h k hr (by simp)

/-- non-vacuity: reader 2 began before the two-key commit and sees neither key change; reader 3
    begins after it and sees both -/
example : (Spec.run {} [.set 0 "a" 1, .set 0 "b" 2, .begin 2 .ser, .begin 1 .rc, .set 1 "a" 10, .set 1 "b" 20,
    .commit 1, .get 2 "a", .get 2 "b", .gc, .begin 3 .rr, .get 3 "a", .get 3 "b", .get 2 "a"]).2
    = [.ok, .ok, .ok, .ok, .ok, .ok, .ok, .val 1, .val 2, .ok, .ok, .val 10, .val 20, .val 1] := by decide

/-! ### under concurrency (small-step model `Model/Conc`) -/

/-- **Regardless of concurrently running commits, autocommit writes, Begins and collector passes**:
    in the small-step model (two critical sections per lookup, content fetched afterwards, retried
    when the content was reclaimed) every `Get` of a snapshot transaction returns the specification's
    answer in the state after some prefix of the log between its call and its return; by
    `C08_repeatable` that answer does not depend on the prefix, and by `C08_atomic_visibility` it
    contains all or none of any commit. -/
theorem C08_concurrent_read (acts : List Conc.Act) (i t : Nat) (k : Key) (o : Out)
    (hret : ((Conc.exec {} acts).thr i).pc = .ret o)
    (hop : ((Conc.exec {} acts).thr i).op = some (.get t k)) :
    let σ := Conc.exec {} acts
    let th := σ.thr i
    th.invAt ≤ th.witAt ∧ th.witAt ≤ σ.lin.length ∧ o = Spec.get (Conc.pureAt σ th.witAt) t k :=
  C06.C06_get_linearizable acts i t k o hret hop

end FsDb.C08
