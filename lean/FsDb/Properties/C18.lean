import FsDb.Proofs.VFile
/-!
# C18 — Snapshot lookup returns the last version before the snapshot point

Property theorems only (helper lemmas live in `FsDb/Proofs/VFile.lean`).
All statements are for lists of *any* length.
-/
namespace FsDb.C18
open FsDb

/-- A snapshot read at `s` on a well-formed store (array search enabled) returns the newest
    version with `seq < s`, or nothing if there is none. -/
theorem C18_lastBefore (f : VFile) (h : f.WF) (hws : f.ws = false) (s : Nat) :
    f.lastBefore s = (f.l.filter (fun v => v.seq < s)).getLast? :=
  VFile.lastBefore_eq h hws s

/-- … and that answer really is "the newest before the point": it is in the list, it is before
    the point, and no version before the point is newer. -/
theorem C18_lastBefore_max (f : VFile) (h : f.WF) (hws : f.ws = false) (s : Nat) (v : Ver)
    (hv : f.lastBefore s = some v) :
    v ∈ f.l ∧ v.seq < s ∧ ∀ u ∈ f.l, u.seq < s → u.seq ≤ v.seq := by
  rw [C18_lastBefore f h hws s] at hv
  have hmem : v ∈ f.l.filter (fun v => v.seq < s) := List.mem_of_getLast? hv
  have hm := List.mem_filter.mp hmem
  refine ⟨hm.1, by simpa using hm.2, ?_⟩
  intro u hu hus
  have hu' : u ∈ f.l.filter (fun v => v.seq < s) := List.mem_filter.mpr ⟨hu, by simpa using hus⟩
  have hsorted : SortedSeq (f.l.filter (fun v => v.seq < s)) :=
    List.Pairwise.sublist List.filter_sublist h.sorted
  -- v is the last element of a strictly increasing list containing u
  obtain ⟨i, hi, rfl⟩ := List.getElem_of_mem hu'
  rw [List.getLast?_eq_getElem?] at hv
  have hlen : (f.l.filter (fun v => v.seq < s)).length - 1 < (f.l.filter (fun v => v.seq < s)).length := by omega
  rw [List.getElem?_eq_getElem hlen] at hv
  cases hv
  exact hsorted.le_of_le hi hlen (by omega)

/-- not-found iff no version is before the point -/
theorem C18_lastBefore_none (f : VFile) (h : f.WF) (hws : f.ws = false) (s : Nat) :
    f.lastBefore s = none ↔ ∀ u ∈ f.l, ¬ u.seq < s := by
  rw [C18_lastBefore f h hws s, List.getLast?_eq_none_iff, List.filter_eq_nil_iff]
  simp

/-- well-formedness (strictly increasing, array mirrors list) is preserved by every mutation -/
theorem C18_wf_preserved (f : VFile) (h : f.WF) :
    (∀ v : Ver, (∀ u ∈ f.l, u.seq < v.seq) → v.seq ≠ 0 → (f.pushBack v).WF) ∧
    (f.popFront).2.WF ∧ (f.popBack).2.WF ∧ (∀ hz, (f.collectOld hz).2.WF) :=
  ⟨fun _ hv hp => h.pushBack hv hp, h.popFront, h.popBack, fun hz => h.collectOld hz⟩

/-- Collecting up to `hz` removes *exactly* the versions that have a successor not newer than
    `hz` (they form a prefix), and what is removed plus what remains is the old list. -/
theorem C18_collect_exact (f : VFile) (h : f.WF) (hz : Nat) :
    (f.collectOld hz).1 ++ (f.collectOld hz).2.l = f.l ∧
    ∀ i (hi : i < f.l.length),
      (i < (f.collectOld hz).1.length ↔ ∃ h1 : i + 1 < f.l.length, f.l[i+1].seq ≤ hz) :=
  ⟨collect_append f.l hz, fun i hi => collect_exact f.l hz h.sorted h.pos i hi⟩

/-- The newest version is never collected. -/
theorem C18_collect_keeps_latest (f : VFile) (hz : Nat) :
    (f.collectOld hz).2.latest = f.latest :=
  collect_getLast? f.l hz

/-- Lookups after the horizon are unchanged by collection; at the horizon itself they are
    unchanged provided the horizon is not a version number (in fs_db horizons are begin
    numbers / fresh numbers from the same counter, hence never version numbers — proved as a
    system invariant in `Properties/C09`). -/
theorem C18_collect_lookup (f : VFile) (h : f.WF) (hws : f.ws = false) (hz s : Nat)
    (hs : hz < s ∨ (hz = s ∧ ∀ v ∈ f.l, v.seq ≠ hz)) :
    (f.collectOld hz).2.lastBefore s = f.lastBefore s := by
  rw [VFile.lastBefore_eq (h.collectOld hz) hws s, VFile.lastBefore_eq h hws s]
  exact lastBeforeSpec_collect f.l hz s h.sorted h.pos hs

/-- The side condition of `C18_collect_lookup` at `s = hz` is necessary (this is a *test of the
    model*, a single witness): versions 3,5; horizon 5; the lookup at 5 changes from 3 to
    nothing. Unreachable through the API. -/
theorem C18_horizon_is_version_witness :
    let f : VFile := { l := [⟨"k",0,1,3,none⟩, ⟨"k",0,2,5,none⟩], arr := [⟨"k",0,1,3,none⟩, ⟨"k",0,2,5,none⟩] }
    f.lastBefore 5 = some ⟨"k",0,1,3,none⟩ ∧ (f.collectOld 5).2.lastBefore 5 = none := by
  intro f
  have hwf : f.WF := ⟨by unfold SortedSeq; decide, fun _ => rfl, by decide⟩
  rw [VFile.lastBefore_eq hwf rfl, VFile.lastBefore_eq (hwf.collectOld 5) rfl]
  decide

/-- Snapshot lookups are monotone in the snapshot point: a later point never sees an older
    version, and it sees *something* whenever the earlier point did. -/
theorem C18_lastBefore_mono (f : VFile) (h : f.WF) (hws : f.ws = false) (s s' : Nat) (hss : s ≤ s')
    (v : Ver) (hv : f.lastBefore s = some v) :
    ∃ v', f.lastBefore s' = some v' ∧ v.seq ≤ v'.seq := by
  obtain ⟨hm, hlt, _⟩ := C18_lastBefore_max f h hws s v hv
  cases hv' : f.lastBefore s' with
  | none =>
    exact absurd (show v.seq < s' by omega) ((C18_lastBefore_none f h hws s').mp hv' v hm)
  | some v' =>
    exact ⟨v', rfl, (C18_lastBefore_max f h hws s' v' hv').2.2 v hm (by omega)⟩

/-- Two snapshot points with no version numbered between them read the same version: a lookup
    depends on the point only through the set of versions before it. -/
theorem C18_lastBefore_stable (f : VFile) (h : f.WF) (hws : f.ws = false) (s s' : Nat)
    (hgap : ∀ u ∈ f.l, (u.seq < s ↔ u.seq < s')) :
    f.lastBefore s = f.lastBefore s' := by
  rw [C18_lastBefore f h hws s, C18_lastBefore f h hws s']
  congr 1
  apply List.filter_congr
  intro u hu
  simpa using hgap u hu

/-- Publishing a newer version never disturbs an older snapshot: after `pushBack v` every lookup
    at a point `s ≤ v.seq` answers what it answered before; a lookup past `v` answers `v`. -/
theorem C18_pushBack_lookup (f : VFile) (h : f.WF) (hws : f.ws = false) (v : Ver)
    (hv : ∀ u ∈ f.l, u.seq < v.seq) (hpos : v.seq ≠ 0) (s : Nat) :
    (f.pushBack v).lastBefore s = if v.seq < s then some v else f.lastBefore s := by
  have hws' : (f.pushBack v).ws = false := by simp [VFile.pushBack, hws]
  rw [C18_lastBefore _ (h.pushBack hv hpos) hws' s, C18_lastBefore f h hws s]
  have hl : (f.pushBack v).l = f.l ++ [v] := by simp [VFile.pushBack]
  rw [hl, List.filter_append]
  by_cases hs : v.seq < s
  · simp [hs]
  · simp [hs]

/-- non-vacuity: a concrete non-trivial well-formed store -/
example : ({ l := [⟨"k",0,1,3,none⟩, ⟨"k",0,2,5,none⟩, ⟨"k",0,3,9,none⟩],
             arr := [⟨"k",0,1,3,none⟩, ⟨"k",0,2,5,none⟩, ⟨"k",0,3,9,none⟩] } : VFile).WF :=
  ⟨by unfold SortedSeq; decide, fun _ => rfl, by decide⟩

end FsDb.C18
