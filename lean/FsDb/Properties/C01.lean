import FsDb.Spec.Iso
/-! # C01 (theorems under construction) -/
namespace FsDb.C01
end FsDb.C01
