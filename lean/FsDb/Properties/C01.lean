import FsDb.Proofs.Refine
import FsDb.Proofs.SpecInv
import FsDb.Properties.C03
/-!
# C01 — Key-value round trip: what was stored is exactly what is read

For histories of autocommit operations the specification (and by `Refine.run` the concrete model)
behaves like the simplest possible key-value map.
-/
namespace FsDb.C01
open FsDb Spec

/-- the simplest possible specification: a map, plus the list of keys ever written -/
structure KV where
  m   : Key → Option Nat := fun _ => none
  dom : List Key := []

def KV.addDom (s : KV) (k : Key) : KV := if k ∈ s.dom then s else { s with dom := s.dom ++ [k] }

/-- autocommit operations on the map -/
def KV.step (s : KV) : Op → KV × Out
  | .set _ k c => if k = "" then (s, .err .emptyKey)
                  else (({ s with m := fun k' => if k' = k then some c else s.m k' } : KV).addDom k, .ok)
  | .del _ k => (({ s with m := fun k' => if k' = k then none else s.m k' } : KV).addDom k, .ok)
  | .get _ k => (s, match s.m k with | some c => .val c | none => .err .notFound)
  | .keys _ => (s, .keys (Sys.sortKeys (s.dom.filter (fun k => (s.m k).isSome))))
  | _ => (s, .ok)

def KV.run (s : KV) : List Op → KV × List Out
  | [] => (s, [])
  | op :: ops => let r := s.step op; let r2 := r.1.run ops; (r2.1, r.2 :: r2.2)

/-- operations issued outside any transaction (plus collection / cleanup at any position) -/
def Op.auto : Op → Bool
  | .set t _ _ | .del t _ | .get t _ | .keys t => t == mainTx
  | .gc | .drain => true
  | _ => false

/-- relation between the transactional specification (no transaction open) and the map -/
structure Rel (s : State) (kv : KV) : Prop where
  noTx : s.open_ = []
  dom : s.dom = kv.dom
  val : ∀ k, C03.valueOf s k = kv.m k

theorem rel_step {s : State} {kv : KV} (h : Rel s kv) (op : Op) (hop : Op.auto op = true) :
    (Spec.step s op).2 = (kv.step op).2 ∧ Rel (Spec.step s op).1 (kv.step op).1 := by
  have hctx : ctxOf s mainTx = some (.rc, 0, fun _ => none) := by simp [ctxOf]
  have hvis : ∀ k, visible s .rc 0 (fun _ => none) k = committed s k := by intro k; simp [visible, newerS]
  have hout : ∀ k, outOf (committed s k) = match kv.m k with | some c => .val c | none => .err .notFound := by
    intro k
    have := h.val k
    unfold C03.valueOf at this
    rw [← this]
    cases hc : committed s k with
    | none => rfl
    | some v => obtain ⟨st, val⟩ := v; cases val <;> rfl
  have hhas : ∀ k, hasValue (committed s k) = (kv.m k).isSome := by
    intro k
    have := h.val k
    unfold C03.valueOf at this
    rw [← this]
    cases hc : committed s k with
    | none => rfl
    | some v => obtain ⟨st, val⟩ := v; cases val <;> rfl
  have hwrite : ∀ k val, (Spec.write s mainTx k val).2 = .ok ∧
      Rel (Spec.write s mainTx k val).1 (({ kv with m := fun k' => if k' = k then val else kv.m k' } : KV).addDom k) := by
    intro k val
    simp only [Spec.write, if_true]
    refine ⟨trivial, ?_, ?_, ?_⟩
    · simp [h.noTx]
    · unfold Spec.addDom KV.addDom; simp only [h.dom]; split <;> rfl
    · intro k'
      have e1 : ∀ (x : State), C03.valueOf (Spec.addDom x k) k' = C03.valueOf x k' := by
        intro x; unfold C03.valueOf committed; simp
      have e2 : ∀ (x : KV), (x.addDom k).m = x.m := by intro x; unfold KV.addDom; split <;> rfl
      rw [e1, e2]
      by_cases hk : k' = k
      · subst hk; simp [C03.valueOf, committed]
      · simp only [C03.valueOf, committed, hk, if_false]; exact h.val k'
  cases op with
  | set t k c =>
    have ht : t = mainTx := by simpa [Op.auto] using hop
    subst ht
    show (Spec.set s mainTx k c).2 = _ ∧ Rel (Spec.set s mainTx k c).1 _
    unfold Spec.set KV.step
    simp only [hctx, Option.isNone_some, Bool.false_eq_true, if_false]
    by_cases hk : k = ""
    · simp only [hk, if_true]; exact ⟨trivial, h⟩
    · simp only [hk, if_false]; exact hwrite k (some c)
  | del t k =>
    have ht : t = mainTx := by simpa [Op.auto] using hop
    subst ht
    exact hwrite k none
  | get t k =>
    have ht : t = mainTx := by simpa [Op.auto] using hop
    subst ht
    refine ⟨?_, h⟩
    show Spec.get s mainTx k = _
    simp only [Spec.get, hctx, hvis, hout, KV.step]
  | keys t =>
    have ht : t = mainTx := by simpa [Op.auto] using hop
    subst ht
    refine ⟨?_, h⟩
    show Spec.getKeys s mainTx = _
    simp only [Spec.getKeys, hctx, hvis, hhas, KV.step, h.dom]
  | gc =>
    refine ⟨rfl, ?_⟩
    show Rel (if s.open_.isEmpty then { s with clock := s.clock + 1 } else s) kv
    split
    · exact ⟨h.noTx, h.dom, h.val⟩
    · exact h
  | drain => exact ⟨rfl, h⟩
  | begin _ _ => simp [Op.auto] at hop
  | commit _ => simp [Op.auto] at hop
  | rollback _ => simp [Op.auto] at hop
  | reopen _ => simp [Op.auto] at hop
  | tree => simp [Op.auto] at hop

/-- For every history of autocommit Set/Delete/Get/GetKeys (with collection and cleanup anywhere)
    the specification answers exactly like a plain map. -/
theorem C01_map_spec (ops : List Op) (hops : ∀ op ∈ ops, Op.auto op = true) :
    (Spec.run {} ops).2 = (KV.run {} ops).2 := by
  have key : ∀ (s : State) (kv : KV), Rel s kv → (Spec.run s ops).2 = (kv.run ops).2 := by
    induction ops with
    | nil => intro s kv _; rfl
    | cons op ops ih =>
      intro s kv h
      have hs := rel_step h op (hops op (by simp))
      have := ih (fun o ho => hops o (List.mem_cons_of_mem _ ho)) _ _ hs.2
      simp only [Spec.run, KV.run]
      rw [hs.1, this]
  exact key {} {} ⟨rfl, rfl, fun _ => rfl⟩

/-- … and so does the concrete model (version lists, Badger records, content files, collector). -/
theorem C01_map_concrete (ops : List Op) (hops : ∀ op ∈ ops, Op.auto op = true) :
    (({} : Sys).run ops).2 = (KV.run {} ops).2 := by
  have hcore : ∀ op ∈ ops, op.core = true := by
    intro op ho; have := hops op ho; cases op <;> simp_all [Op.auto, Op.core]
  rw [Refine.run_init ops hcore, C01_map_spec ops hops]

/-! The clauses of the statement, on the map: -/

@[simp] theorem KV.addDom_m (x : KV) (k : Key) : (x.addDom k).m = x.m := by unfold KV.addDom; split <;> rfl

/-- after a Set of a non-empty key, Get returns exactly the stored content -/
theorem C01_get_after_set (s : KV) (k : Key) (c : Nat) (hk : k ≠ "") :
    ((s.step (.set 0 k c)).1.step (.get 0 k)).2 = .val c := by
  simp [KV.step, hk]
/-- … until the key is next written: operations on other keys do not change it -/
theorem C01_other_key (s : KV) (k k' : Key) (c : Nat) (hne : k' ≠ k) :
    ((s.step (.set 0 k' c)).1.step (.get 0 k)).2 = (s.step (.get 0 k)).2 ∧
    ((s.step (.del 0 k')).1.step (.get 0 k)).2 = (s.step (.get 0 k)).2 := by
  have hne' : k ≠ k' := fun e => hne e.symm
  constructor
  · by_cases hk : k' = ""
    · simp [KV.step, hk]
    · simp [KV.step, hk, hne']
  · simp [KV.step, hne']
/-- after Delete, Get fails with ErrNotFound -/
theorem C01_get_after_del (s : KV) (k : Key) : ((s.step (.del 0 k)).1.step (.get 0 k)).2 = .err .notFound := by
  simp [KV.step]
/-- a Set with an empty key fails with ErrEmptyKey and changes nothing -/
theorem C01_empty_key (s : KV) (c : Nat) : s.step (.set 0 "" c) = (s, .err .emptyKey) := by simp [KV.step]
/-- a Get of a never-written key fails with ErrNotFound and changes nothing -/
theorem C01_missing : (({} : KV).step (.get 0 "k")) = ({}, .err .notFound) := rfl
/-- GetKeys returns, sorted and without duplicates, exactly the keys for which Get succeeds
    (given that the key list has no duplicates and covers the map — invariants of `KV.step`) -/
theorem C01_keys (s : KV) (hnd : s.dom.Nodup) (hdom : ∀ k, (s.m k).isSome → k ∈ s.dom) (ks : List Key)
    (h : (s.step (.keys 0)).2 = .keys ks) :
    (∀ k, k ∈ ks ↔ ∃ c, (s.step (.get 0 k)).2 = .val c) ∧ ks.Pairwise (· ≤ ·) ∧ ks.Nodup := by
  simp only [KV.step, Out.keys.injEq] at h
  subst h
  refine ⟨?_, sorted_sortKeys _, nodup_sortKeys _ (List.Nodup.sublist List.filter_sublist hnd)⟩
  intro k
  rw [mem_sortKeys, List.mem_filter]
  simp only [KV.step]
  cases hm : s.m k with
  | none => simp
  | some c => simp [hdom k (by simp [hm])]

example : (KV.run {} [.set 0 "a" 1, .set 0 "" 2, .get 0 "a", .del 0 "a", .get 0 "a", .set 0 "b" 3, .keys 0]).2
    = [.ok, .err .emptyKey, .val 1, .ok, .err .notFound, .ok, .keys ["b"]] := by decide

end FsDb.C01
