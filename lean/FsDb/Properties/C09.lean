import FsDb.Proofs.ConcMain
import FsDb.Proofs.Refine
import FsDb.Proofs.SpecInv
import FsDb.Proofs.SpecShift
/-!
# C09 — Garbage collection and cleanup never change what anyone can read
-/
namespace FsDb.C09
open FsDb Spec

theorem spec_get_gc (s : State) (t : Nat) (k : Key) : Spec.get (Spec.step s .gc).1 t k = Spec.get s t k := by
  show Spec.get (if s.open_.isEmpty then { s with clock := s.clock + 1 } else s) t k = _
  split <;> rfl

theorem spec_keys_gc (s : State) (t : Nat) : Spec.getKeys (Spec.step s .gc).1 t = Spec.getKeys s t := by
  show Spec.getKeys (if s.open_.isEmpty then { s with clock := s.clock + 1 } else s) t = _
  split <;> rfl

/-- Running the collector (at any reachable state, i.e. any position of any history, with any
    number of open transactions of any age) changes no result of any read by anyone, at any
    isolation level or outside transactions: Get and GetKeys answer the same immediately before
    and immediately after. -/
theorem C09_gc_invisible_now {c : Sys} {s : State} (h : R c s) (t : Nat) (k : Key) :
    (c.gc).1.get t k = c.get t k ∧ (c.gc).1.getKeys t = c.getKeys t := by
  have h' := (step_gc h).2
  exact ⟨by rw [get_eq h', get_eq h, spec_get_gc], by rw [getKeys_eq h', getKeys_eq h, spec_keys_gc]⟩

/-- the same for background cleanup (`drain` runs every pending delete job) -/
theorem C09_cleanup_invisible_now {c : Sys} {s : State} (h : R c s) (t : Nat) (k : Key) :
    (c.drain).1.get t k = c.get t k ∧ (c.drain).1.getKeys t = c.getKeys t := by
  have h' := (step_drain h).2
  exact ⟨by rw [get_eq h', get_eq h], by rw [getKeys_eq h', getKeys_eq h]⟩

/-- … and later: after the collector ran, the concrete state is again related to a specification
    state, which is the *same* specification state when a transaction is open, and differs only in
    its clock otherwise; so every later history answers as the specification says, and the
    specification ignores the collector.  (Any number of passes: apply repeatedly.) -/
theorem C09_gc_invisible_later {c : Sys} {s : State} (h : R c s) :
    R (c.gc).1 (Spec.step s .gc).1 ∧
    (s.open_.isEmpty = false → (Spec.step s .gc).1 = s) ∧
    (Spec.step s .gc).1.hist = s.hist ∧ (Spec.step s .gc).1.open_ = s.open_ ∧ (Spec.step s .gc).1.dom = s.dom := by
  refine ⟨(step_gc h).2, ?_, ?_, ?_, ?_⟩
  · intro he
    show (if s.open_.isEmpty then { s with clock := s.clock + 1 } else s) = s
    rw [if_neg (by simp [he])]
  · show (if s.open_.isEmpty then { s with clock := s.clock + 1 } else s).hist = _
    split <;> rfl
  · show (if s.open_.isEmpty then { s with clock := s.clock + 1 } else s).open_ = _
    split <;> rfl
  · show (if s.open_.isEmpty then { s with clock := s.clock + 1 } else s).dom = _
    split <;> rfl

/-- for every history with collector passes and cleanup inserted at any positions the concrete
    model answers what the specification answers — and the specification's answer to a collector
    pass or a cleanup is always `ok` and its state keeps `hist`, `open_` and `dom` -/
theorem C09_refinement_with_gc (ops : List Op) (hops : ∀ op ∈ ops, op.core = true) :
    (({} : Sys).run ops).2 = (Spec.run {} ops).2 := Refine.run_init ops hops

/-- The collector never removes a content that some permitted read could still return: after a
    pass, whatever version `core.Get` hands to any registered reader (or to an autocommit caller)
    still has its content record, with the content it was written with. -/
theorem C09_no_live_content_removed {c : Sys} {s : State} (h : R c s) (tx : TxRec) (k : Key) (v : Ver)
    (hv : (c.gc).1.coreGet tx k = some v) : (c.gc).1.hasContent v.cid = v.val :=
  let h' := (step_gc h).2
  h'.inv.stor k v (coreGet_mem h'.inv tx k hv)

/-- the horizon is never a version number (the side condition of C18_collect_lookup), in every
    reachable state -/
theorem C09_horizon_not_version {c : Sys} {s : State} (h : R c s) (k : Key) :
    ∀ v ∈ c.main k, v.seq ≠ gcHz c := by
  intro v hv
  have hva := h.inv.main_sub_all hv
  unfold gcHz
  cases hh : c.reg.head? with
  | none => have := (h.inv.bounds k v hva).2.1; simp only; omega
  | some tx =>
    have htx : tx ∈ c.reg := by
      cases hreg : c.reg with
      | nil => rw [hreg] at hh; cases hh
      | cons a rs => rw [hreg] at hh; simp at hh; subst hh; simp
    exact h.inv.beginNotVer tx htx k v hva

theorem plain_eq_core (op : Op) : plainOp op = op.core := by cases op <;> rfl

/-- **Invisible for ever.**  Take any history and insert collector passes and worker-pool runs at
    any positions: every other operation answers exactly what it answers in the history without
    them.  On the specification (which only observes the order of stamps: `Shift`) … -/
theorem C09_background_erasure_spec (ops : List Op) (hops : ∀ op ∈ ops, op.core = true) :
    keepFg ops (Spec.run {} ops).2 = (Spec.run {} (ops.filter (fun o => !isBg o))).2 :=
  erase_bg (Shift.refl {}) SInv.init OwnLe.init ops (fun op h => (plain_eq_core op).trans (hops op h))

/-- … and on the concrete model (version lists, all-store, collector, deletion queue), through the
    refinement. -/
theorem C09_background_erasure (ops : List Op) (hops : ∀ op ∈ ops, op.core = true) :
    keepFg ops (({} : Sys).run ops).2 = (({} : Sys).run (ops.filter (fun o => !isBg o))).2 := by
  rw [Refine.run_init ops hops,
      Refine.run_init (ops.filter (fun o => !isBg o)) (fun op h => hops op (List.mem_filter.mp h).1)]
  exact C09_background_erasure_spec ops hops

/-- **… and under concurrency.**  For EVERY schedule of EVERY client programs of the small-step
    model (`Model/Conc`: any number of collector passes and pool workers running concurrently with
    the clients, step by step, with stale horizons, also inside the window of a Commit): the answers
    logged for the clients' operations, in the order of their linearization points, are exactly what
    the specification answers to those operations when no collector and no pool worker ever runs.
    (Every returned answer — GetKeys excepted — is a logged answer or the specification's answer at a
    log position: `C06_linearizable`.) -/
theorem C09_concurrent_erasure (acts : List Conc.Act) :
    let σ := Conc.exec {} acts
    keepFg (opsOf (Conc.linOps σ.lin)) (Conc.linOuts σ.lin)
      = (Spec.run {} ((opsOf (Conc.linOps σ.lin)).filter (fun o => !isBg o))).2 := by
  intro σ
  have h := Conc.reachable_inv acts
  have hp : ∀ op ∈ opsOf (Conc.linOps σ.lin), plainOp op = true := by
    have hpl : ∀ e ∈ Conc.linOps σ.lin, e.plain = true := by
      intro e he
      obtain ⟨x, hx, rfl⟩ := List.mem_map.mp he
      exact h.plain x hx
    generalize Conc.linOps σ.lin = es at hpl
    induction es with
    | nil => intro op hop; cases hop
    | cons e es ih =>
      have hrest := ih (fun e' he' => hpl e' (List.mem_cons_of_mem _ he'))
      cases e with
      | op o =>
        intro op hop
        simp only [opsOf, List.mem_cons] at hop
        rcases hop with rfl | hop
        · exact hpl (.op op) (by simp)
        · exact hrest op hop
      | tick n => intro op hop; exact hrest op (by simpa [opsOf] using hop)
  rw [← Conc.log_pure h]
  exact erase_bg (Shift.refl {}) SInv.init OwnLe.init _ hp

/-- non-vacuity: a snapshot reader keeps its version across two collector passes (on the
    specification by evaluation; the concrete model answers the same by `C09_refinement_with_gc`) -/
example :
    (Spec.run {} [.set 0 "k" 1, .begin 1 .ser, .set 0 "k" 2, .set 0 "k" 3, .gc, .get 1 "k", .gc, .drain,
      .get 1 "k", .get 0 "k", .rollback 1, .gc, .get 0 "k"]).2
    = [.ok, .ok, .ok, .ok, .ok, .val 1, .ok, .ok, .val 1, .val 3, .ok, .ok, .val 3] := by decide

end FsDb.C09
