import FsDb.Spec.Iso
/-! # C09 (theorems under construction) -/
namespace FsDb.C09
end FsDb.C09
