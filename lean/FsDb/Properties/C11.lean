import FsDb.Model.Wire
import FsDb.Model.Rpc
/-!
# C11 — The gRPC client is indistinguishable from the inline client (the algebraic part)

Proved: the error-class, isolation-level and chunking laws of the glue.  End-to-end
indistinguishability = both clients refine the same specification: the inline side by `Refine.run`,
the gRPC side *validated* (histories replayed through a real server on loopback and compared with
the specification line by line) — gRPC itself, metadata transport and interceptors are not modelled.
-/
namespace FsDb.C11
open FsDb.Wire

/-- Every error that wraps exactly one server-producible sentinel reaches the gRPC caller as that
    sentinel (whatever the wrapping). -/
theorem C11_error_class_single (s : Sentinel) : roundTrip [s] = s := by
  cases s <;> decide

/-- An error that wraps none of the sentinels reaches the caller as ErrUnknown. -/
theorem C11_error_class_none : roundTrip [] = .unknown := by decide

/-- For errors wrapping several sentinels the first in the order of `errorToPbError` wins; in
    particular membership of other sentinels never changes the class of a noFreeSpace error. -/
theorem C11_error_class_priority (e : ErrSet) (h : .noFreeSpace ∈ e) : roundTrip e = .noFreeSpace := by
  simp [roundTrip, clientFromDetail, serverDetail, h]

/-- The status code and the detail agree: a client that only looks at the status code (a status
    without details) classifies every single-sentinel error the same way, except ErrHeaderNotFound
    and ErrUnknown, which have no code of their own and arrive as ErrUnknown. -/
theorem C11_code_detail_agree (s : Sentinel) (h1 : s ≠ .headerNotFound) :
    clientFromCode (serverCode [s]) = roundTrip [s] := by
  cases s <;> simp_all [clientFromCode, serverCode, roundTrip, clientFromDetail, serverDetail]

/-- the isolation level survives the wire -/
theorem C11_iso_roundtrip (l : Lvl) : fromGrpc (toGrpc l) = l := by cases l <;> rfl

/-! ### chunking -/

theorem emitFull_flatten (cs fuel : Nat) (buf : List Nat) (sent : List (List Nat)) :
    (emitFull cs fuel buf sent).2.flatten ++ (emitFull cs fuel buf sent).1 = sent.flatten ++ buf := by
  induction fuel generalizing buf sent with
  | zero => rfl
  | succ n ih =>
    unfold emitFull
    split
    · rw [ih]; simp [List.flatten_append]
    · rfl

theorem emitFull_sizes (cs fuel : Nat) (buf : List Nat) (sent : List (List Nat))
    (h : ∀ c ∈ sent, c.length = cs) : ∀ c ∈ (emitFull cs fuel buf sent).2, c.length = cs := by
  induction fuel generalizing buf sent with
  | zero => exact h
  | succ n ih =>
    unfold emitFull
    split
    · rename_i hc
      apply ih
      intro c hcm
      simp only [List.mem_append, List.mem_singleton] at hcm
      rcases hcm with hcm | rfl
      · exact h c hcm
      · simp [List.length_take]; omega
    · exact h

theorem emitFull_rest (cs fuel : Nat) (buf : List Nat) (sent : List (List Nat)) (hcs : 0 < cs)
    (hf : buf.length < fuel) : (emitFull cs fuel buf sent).1.length < cs := by
  induction fuel generalizing buf sent with
  | zero => omega
  | succ n ih =>
    unfold emitFull
    split
    · rename_i hc
      apply ih
      simp [List.length_drop]; omega
    · rename_i hc
      simp only [not_and, Nat.not_lt] at hc
      show buf.length < cs
      by_cases h1 : cs ≤ buf.length
      · have := hc h1; omega
      · omega

/-- the writer's state after any sequence of writes: everything written = chunks sent so far ++
    what is still buffered; every sent chunk has exactly the chunk size; the buffer is below it -/
structure WInv (cs : Nat) (w : Writer) (written : List Nat) : Prop where
  data : w.sent.flatten ++ w.buf = written
  sizes : ∀ c ∈ w.sent, c.length = cs
  rest : w.buf.length < cs

theorem winv_write (cs : Nat) (hcs : 0 < cs) (w : Writer) (written p : List Nat) (h : WInv cs w written) :
    WInv cs (w.write cs p) (written ++ p) := by
  unfold Writer.write
  refine ⟨?_, ?_, ?_⟩
  · simp only
    rw [emitFull_flatten, ← List.append_assoc, h.data]
  · exact emitFull_sizes cs _ _ _ h.sizes
  · exact emitFull_rest cs _ _ _ hcs (by simp)

def writeAll (cs : Nat) (w : Writer) : List (List Nat) → Writer
  | [] => w
  | p :: ps => writeAll cs (w.write cs p) ps

theorem winv_writeAll (cs : Nat) (hcs : 0 < cs) (w : Writer) (written : List Nat) (ps : List (List Nat))
    (h : WInv cs w written) : WInv cs (writeAll cs w ps) (written ++ ps.flatten) := by
  induction ps generalizing w written with
  | nil => simpa [writeAll] using h
  | cons p ps ih =>
    simp only [writeAll, List.flatten_cons]
    rw [← List.append_assoc]
    exact ih _ _ (winv_write cs hcs w written p h)

/-- **Chunk round trip.**  For every content and every split of it into Write calls (any sizes,
    including empty writes), with chunk size `cs > 0`: the chunks the stream carries concatenate
    to exactly the content, every chunk is at most `cs` bytes (all but possibly the last exactly
    `cs`), no chunk is empty, and the reader reassembles the content. -/
theorem C11_chunk_roundtrip (cs : Nat) (hcs : 0 < cs) (ps : List (List Nat)) :
    readAll (writeAll cs {} ps).close = ps.flatten ∧
    (∀ c ∈ (writeAll cs {} ps).close, c.length ≤ cs ∧ c ≠ []) := by
  have h := winv_writeAll cs hcs {} [] ps ⟨rfl, by simp, hcs⟩
  simp only [List.nil_append] at h
  generalize writeAll cs {} ps = w at h
  unfold Writer.close readAll
  split
  · rename_i he
    have hb : w.buf = [] := by simpa using he
    refine ⟨by have := h.data; rw [hb] at this; simpa using this, ?_⟩
    intro c hc
    have := h.sizes c hc
    refine ⟨by omega, ?_⟩
    intro e; subst e; simp at this; omega
  · rename_i he
    refine ⟨by rw [List.flatten_append]; simpa using h.data, ?_⟩
    intro c hc
    simp only [List.mem_append, List.mem_singleton] at hc
    rcases hc with hc | rfl
    · have := h.sizes c hc
      refine ⟨by omega, ?_⟩
      intro e; subst e; simp at this; omega
    · exact ⟨Nat.le_of_lt h.rest, by simpa using he⟩

example : (writeAll 4 {} [[1, 2, 3], [], [4, 5, 6, 7, 8, 9]]).close = [[1, 2, 3, 4], [5, 6, 7, 8], [9]] := by decide

/-! ### end to end: a call through the gRPC client = the same call through the inline client -/
open FsDb FsDb.Rpc

theorem stream_roundtrip (cd : Codec) (bytes : List Nat) : Wire.readAll (streamOf cd bytes) = bytes := by
  have := (C11_chunk_roundtrip cd.chunk cd.chunk_pos [bytes]).1
  simpa [writeAll, streamOf] using this

theorem err_roundtrip (e : Err) : ofSentinel (Wire.clientFromDetail (Wire.serverDetail (errSet e))) = e := by
  cases e <;> decide

theorem reply_roundtrip (cd : Codec) (o : Out) : decodeReply cd (encodeReply cd o) = o := by
  cases o with
  | ok => rfl
  | err e => simp only [encodeReply, decodeReply, err_roundtrip]
  | val c => simp only [encodeReply, decodeReply, stream_roundtrip, cd.ident_payload]
  | keys ks => rfl
  | files cs => rfl
  | bad => rfl

theorem lvl_roundtrip (l : Level) : lvlOfWire (Wire.fromGrpc (Wire.toGrpc (lvlToWire l))) = l := by
  cases l <;> rfl

theorem request_roundtrip (cd : Codec) (op : Op) : decodeReq cd (encodeReq cd op) = op := by
  cases op <;> simp only [encodeReq, decodeReq, lvl_roundtrip, stream_roundtrip, cd.ident_payload]

/-- **One call.**  Whatever the state of the server and whatever the call: the gRPC client's caller
    gets the value / the error class the inline client's caller gets, and the server's state moves
    the same way.  (Level through the wire enum, content both ways through the chunked stream of any
    chunk size > 0, errors through status code + detail; the transport is trusted.) -/
theorem C11_call_eq_inline (cd : Codec) (s : Sys) (op : Op) : Rpc.call cd s op = s.step op := by
  unfold Rpc.call
  rw [request_roundtrip]
  simp only [reply_roundtrip]

/-- **Every sequence of calls.** -/
theorem C11_end_to_end (cd : Codec) (s : Sys) (ops : List Op) : Rpc.run cd s ops = s.run ops := by
  induction ops generalizing s with
  | nil => rfl
  | cons op ops ih =>
    simp only [Rpc.run, Sys.run, C11_call_eq_inline, ih]

/-- a server-side rejection is never swallowed: an error answer stays an error answer of the same class -/
theorem C11_rejection_reported (cd : Codec) (e : Err) : decodeReply cd (encodeReply cd (.err e)) = .err e :=
  reply_roundtrip cd (.err e)

/-! ### the message-size limit (the two open known findings of C11, as theorems about the model) -/

/-- **Partial (what holds with the limit):** for every history all of whose messages fit the limit,
    the gRPC client is indistinguishable from the inline client. -/
theorem C11_end_to_end_within_limit_partial (cd : Codec) (lim : Nat) (s : Sys) (ops : List Op)
    (h : Rpc.Fits lim s ops) : Rpc.runLim cd lim s ops = s.run ops := by
  induction ops generalizing s with
  | nil => rfl
  | cons op ops ih =>
    obtain ⟨h1, h2, h3⟩ := h
    have hc : Rpc.callLim cd lim s op = s.step op := by
      unfold Rpc.callLim
      rw [request_roundtrip]
      simp only [h1, h2, if_true, reply_roundtrip]
    simp only [Rpc.runLim, Sys.run, hc, ih _ h3]

/-- **The full statement is false with the limit** (known finding `C11-getkeys-over-4MiB`): whenever
    the keys a GetKeys lists total more than the limit, the inline client lists them and the gRPC
    client reports ErrNoFreeSpace — for EVERY limit and EVERY server state. -/
theorem C11_getkeys_over_limit (cd : Codec) (lim : Nat) (s : Sys) (t : Nat) (ks : List Key)
    (hk : s.getKeys t = .keys ks) (hbig : lim < (ks.map Rpc.keySize).sum) :
    (s.step (.keys t)).2 = .keys ks ∧ (Rpc.callLim cd lim s (.keys t)).2 = .err .noFreeSpace := by
  have hs : (s.step (.keys t)).2 = .keys ks := hk
  refine ⟨hs, ?_⟩
  unfold Rpc.callLim
  rw [request_roundtrip]
  have h1 : Rpc.reqFits lim (.keys t) = true := rfl
  have h2 : Rpc.replyFits lim (s.step (.keys t)).2 = false := by
    rw [hs]; simp [Rpc.replyFits]; omega
  simp [h1, h2]

/-- … and `C11-key-over-4MiB`: a Set whose key is larger than the limit is refused over gRPC and
    changes nothing, whatever the inline client does with it. -/
theorem C11_key_over_limit (cd : Codec) (lim : Nat) (s : Sys) (t : Nat) (k : Key) (c : Nat)
    (hbig : lim < Rpc.keySize k) : Rpc.callLim cd lim s (.set t k c) = (s, .err .noFreeSpace) := by
  unfold Rpc.callLim
  have : Rpc.reqFits lim (.set t k c) = false := by simp [Rpc.reqFits, Rpc.reqKey]; omega
  simp [this]

/-- witness (limit 3, key of 4 bytes): the inline client stores and lists it, the gRPC client does neither -/
example :
    let cd : Codec := ⟨fun c => [c], fun l => l.headD 0, 2048, by decide, fun _ => rfl⟩
    (({} : Sys).step (.set 0 "abcd" 7)).2 = .ok ∧
    (Rpc.callLim cd 3 {} (.set 0 "abcd" 7)).2 = .err .noFreeSpace ∧
    (Rpc.callLim cd 3 (({} : Sys).step (.set 0 "abcd" 7)).1 (.keys 0)).2 = .err .noFreeSpace ∧
    ((({} : Sys).step (.set 0 "abcd" 7)).1.step (.keys 0)).2 = .keys ["abcd"] := by
  decide

/-- non-vacuity of the partial theorem: a history whose messages all fit -/
example : Rpc.Fits 100 {} [.set 0 "k" 1, .keys 0, .get 0 "k"] := by
  refine ⟨by decide, by decide, by decide, by decide, by decide, by decide, trivial⟩

/-- non-vacuity: a codec exists (bytes of content `c` = the list `[c]`, chunks of 2048) -/
example : ∃ cd : Codec, cd.chunk = 2048 :=
  ⟨⟨fun c => [c], fun l => l.headD 0, 2048, by decide, fun _ => rfl⟩, rfl⟩

end FsDb.C11
