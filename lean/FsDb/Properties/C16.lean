import FsDb.Model.WPool
import FsDb.Proofs.Pool
import FsDb.Model.PoolWg
/-!
# C16 — The worker pool runs every accepted job exactly once and stops cleanly

Proved on the model of the deferred-send path (`FsDb/Model/WPool.lean`, repaired flusher):
conservation (no event is lost or duplicated, in any reachable state), and: whenever nothing can
move any more, every event has been delivered to the channel — without any further Send.  The pin's
flusher has a reachable quiescent state with an undelivered event (`C16_handoff_witness`).
The second half of this file is about the model of the WHOLE pool (`FsDb/Model/Pool.lean`: Run, Send
with its three-way select, deferred path, flusher, channel, workers, Stop with its two waits, any
number of Run/Stop cycles): `C16_pool_conservation`, `C16_exactly_once`, `C16_no_drop_while_running`,
`C16_quiescent_all_executed`, `C16_send_never_waits`, `C16_stop_progress`, `C16_no_start_after_stop`.
Checked on the real pool rather than proved: that the critical sections and selects of the code are
the model's steps (skeleton ties; orchestrated hand-off, send-before-run, stop-before-run, run-twice,
restart, double Stop, random stress); Go's `WaitGroup` is modelled by its counter only.
-/
namespace FsDb.C16
open FsDb.WPool

structure Inv (st : St) : Prop where
  lazyIff : st.lazyM = true ↔ st.fpc ≠ .off
  offEmpty : st.fpc = .off → st.list = []
  noExit : st.fpc ≠ .exiting

theorem inv_init (jobs : List Nat) : Inv (init jobs) := by
  constructor <;> simp [init]

theorem inv_step (st st' : St) (a : Act) (h : Inv st) (hs : step true st a = some st') : Inv st' := by
  obtain ⟨toSend, list, lazyM, fpc, delivered⟩ := st
  obtain ⟨h1, h2, h3⟩ := h
  simp only at h1 h2 h3
  cases a with
  | send =>
    cases toSend with
    | nil => simp [step] at hs
    | cons j rest =>
      simp only [step] at hs
      split at hs
      · cases hs; constructor <;> simp_all
      · cases hs; constructor <;> simp_all
  | flush =>
    cases fpc with
    | off => simp [step] at hs
    | loop =>
      cases list with
      | nil => simp only [step, ite_true] at hs; cases hs; constructor <;> simp_all
      | cons j rest => simp only [step] at hs; cases hs; constructor <;> simp_all
    | sending j => simp only [step] at hs; cases hs; constructor <;> simp_all
    | exiting => exact absurd rfl h3

/-- the multiset of events is conserved by every step: for every event, the number of its
    occurrences among "still to send, in the list, in the flusher's hand, delivered" never changes
    (no event is lost, none is duplicated) — for the repaired and for the pin's flusher alike -/
theorem C16_conservation (e : Bool) (st st' : St) (a : Act) (hl : st.lazyM = true ↔ st.fpc ≠ .off)
    (hs : step e st a = some st') (x : Nat) :
    (inFlight st').count x = (inFlight st).count x := by
  obtain ⟨toSend, list, lazyM, fpc, delivered⟩ := st
  cases a with
  | send =>
    cases toSend with
    | nil => simp [step] at hs
    | cons j rest =>
      simp only [step] at hs
      simp only at hl
      split at hs
      · cases hs; simp only [inFlight, List.count_append, List.count_cons]; omega
      · rename_i hlz
        have hoff : fpc = .off := by
          cases fpc <;> simp_all
        subst hoff
        cases hs; simp only [inFlight, List.count_append, List.count_cons, List.count_nil]; omega
  | flush =>
    cases fpc with
    | off => simp [step] at hs
    | loop =>
      cases list with
      | nil =>
        simp only [step] at hs
        split at hs <;> (cases hs; simp [inFlight])
      | cons j rest =>
        simp only [step] at hs; cases hs
        simp only [inFlight, List.count_append, List.count_cons, List.count_nil]; omega
    | sending j =>
      simp only [step] at hs; cases hs
      simp only [inFlight, List.count_append, List.count_cons, List.count_nil]; omega
    | exiting => simp only [step] at hs; cases hs; simp [inFlight]

inductive Reach (jobs : List Nat) : St → Prop
  | init : Reach jobs (init jobs)
  | step (st st' : St) (a : Act) : Reach jobs st → step true st a = some st' → Reach jobs st'

theorem reach_inv (jobs : List Nat) (st : St) (h : Reach jobs st) : Inv st ∧ ∀ x, (inFlight st).count x = jobs.count x := by
  induction h with
  | init => exact ⟨inv_init jobs, fun x => by simp [inFlight, init]⟩
  | step st st' a _ hs ih => exact ⟨inv_step st st' a ih.1 hs, fun x => by rw [C16_conservation true st st' a ih.1.lazyIff hs x, ih.2 x]⟩

/-- **Every accepted event is delivered exactly once, and no further Send is needed to flush it.**
    In every reachable state of the repaired deferred-send path in which nothing can move any more
    (all Sends returned, the flusher is off), the list is empty and every event has been delivered
    to the channel exactly as many times as it was sent. -/
theorem C16_every_job_delivered (jobs : List Nat) (st : St) (h : Reach jobs st) (hq : quiescent true st = true) :
    st.toSend = [] ∧ st.list = [] ∧ st.fpc = .off ∧ ∀ x, st.delivered.count x = jobs.count x := by
  obtain ⟨i, hc⟩ := reach_inv jobs st h
  obtain ⟨toSend, list, lazyM, fpc, delivered⟩ := st
  obtain ⟨h1, h2, h3⟩ := i
  simp only at h1 h2 h3
  unfold quiescent at hq
  have hsend : toSend = [] := by
    cases toSend with
    | nil => rfl
    | cons j rest => simp [step] at hq; split at hq <;> simp at hq
  subst hsend
  have hoff : fpc = .off := by
    cases fpc with
    | off => rfl
    | loop => cases list <;> simp [step] at hq
    | sending j => simp [step] at hq
    | exiting => exact absurd rfl h3
  subst hoff
  have hl := h2 rfl
  subst hl
  refine ⟨rfl, rfl, rfl, ?_⟩
  intro x
  have := hc x
  simpa [inFlight] using this

/-- while something is still to be done, something can move (the flusher never needs a Send to
    be woken: whenever the list is non-empty a flusher is running) -/
theorem C16_flusher_covers (jobs : List Nat) (st : St) (h : Reach jobs st) (hne : st.list ≠ []) :
    (step true st .flush).isSome = true := by
  obtain ⟨i, _⟩ := reach_inv jobs st h
  obtain ⟨toSend, list, lazyM, fpc, delivered⟩ := st
  obtain ⟨h1, h2, h3⟩ := i
  simp only at h1 h2 h3 hne
  cases fpc with
  | off => exact absurd (h2 rfl) hne
  | loop => cases list <;> simp [step]
  | sending j => simp [step]
  | exiting => exact absurd rfl h3

/-- the pin's flusher (lazySendM released in a later step than the pop): a deferred Send slips in
    between; afterwards nothing can move, yet event 2 sits in the list, undelivered.  A test of the
    model; the check replays the schedule on the real pool (scenario `handoff`). -/
theorem C16_handoff_witness :
    ∃ st, run false (init [1, 2]) [.send, .flush, .flush, .flush, .send, .flush] = some st ∧
      quiescent false st = true ∧ st.list = [2] ∧ st.delivered = [1] := by
  refine ⟨_, rfl, ?_, ?_, ?_⟩ <;> decide

/-- non-vacuity: the same schedule on the repaired model delivers both -/
example : ∃ st, run true (init [1, 2]) [.send, .flush, .flush, .flush, .send, .flush, .flush, .flush] = some st ∧
    quiescent true st = true ∧ st.delivered = [2, 1] := by
  refine ⟨_, rfl, ?_, ?_⟩ <;> decide

end FsDb.C16

/-! ## the whole pool -/
namespace FsDb.C16
open FsDb.Pool

/-- **Conservation.**  For EVERY sequence of actions of any number of Sends, the flusher, the workers,
    Run and Stop (disabled ones skipped): every job accepted by Send is in exactly one place — in the
    hand of a Send, in the channel, in the deferred list, in the flusher's hand, being executed,
    executed, or given up by a Stop — with its multiplicity. -/
theorem C16_pool_conservation (nw : Nat) (acts : List Pool.Act) (j : Nat) :
    (Pool.run (Pool.init nw) acts).accepted.count j = (places (Pool.run (Pool.init nw) acts)).count j :=
  ((Pool.Inv.init nw).run acts).cons j

/-- **Exactly once.**  If the accepted jobs are distinct, no job is executed twice, and an executed
    job was not also given up. -/
theorem C16_exactly_once (nw : Nat) (acts : List Pool.Act) (hd : (Pool.run (Pool.init nw) acts).accepted.Nodup) (j : Nat) :
    (Pool.run (Pool.init nw) acts).executed.count j ≤ 1 ∧
    (j ∈ (Pool.run (Pool.init nw) acts).executed → j ∉ (Pool.run (Pool.init nw) acts).dropped) := by
  have hc := C16_pool_conservation nw acts j
  generalize Pool.run (Pool.init nw) acts = s at *
  have h1 : s.accepted.count j ≤ 1 := List.nodup_iff_count.mp hd j
  simp only [places, List.count_append] at hc
  refine ⟨by omega, ?_⟩
  intro he hdrop
  have := List.count_pos_iff.mpr he
  have := List.count_pos_iff.mpr hdrop
  omega

/-- **Nothing is given up while the pool is running**: only a Stop makes the pool drop a job. -/
theorem C16_no_drop_while_running (s s' : Pool.St) (a : Pool.Act) (hs : Pool.step s a = some s')
    (hr : s.running = true) (ha : a ≠ .stop) : s'.dropped = s.dropped := by
  cases a <;> simp only [Pool.step] at hs
  case run => split at hs <;> cases hs <;> rfl
  case send j => split at hs <;> cases hs <;> rfl
  case selPush j => split at hs <;> cases hs; rfl
  case selDone j => split at hs
                    · rename_i hg; simp [hr] at hg
                    · cases hs
  case selTimeout j => split at hs <;> cases hs; rfl
  case lazyPush j =>
    split at hs
    · split at hs <;> cases hs <;> rfl
    · cases hs
  case flush =>
    cases hf : s.fpc with
    | off => rw [hf] at hs; cases hs
    | loop => rw [hf] at hs; simp only at hs; cases hl : s.list <;> rw [hl] at hs <;> cases hs <;> rfl
    | sending j => rw [hf] at hs; simp only at hs; split at hs <;> cases hs; rfl
  case flushDone =>
    cases hf : s.fpc with
    | off => rw [hf] at hs; cases hs
    | loop => rw [hf] at hs; cases hs
    | sending j => rw [hf] at hs; simp only [hr] at hs; cases hs
  case take =>
    cases hch : s.ch with
    | nil => rw [hch] at hs; cases hs
    | cons j rest => rw [hch] at hs; simp only at hs; split at hs <;> cases hs; rfl
  case finish j => split at hs <;> cases hs; rfl
  case workerExit => split at hs
                     · rename_i hg; simp [hr] at hg
                     · cases hs
  case stop => exact absurd rfl ha

/-- nothing but new Sends, Run or Stop can happen -/
def Quiet (s : Pool.St) : Prop :=
  (∀ j, Pool.step s (.selPush j) = none) ∧ (∀ j, Pool.step s (.selTimeout j) = none) ∧
  (∀ j, Pool.step s (.lazyPush j) = none) ∧ Pool.step s .flush = none ∧ Pool.step s .take = none ∧
  (∀ j, Pool.step s (.finish j) = none)

/-- **Every accepted job is executed, without further Sends.**  While the pool is running (at least
    one worker), whenever nothing can move any more, every accepted job has been executed (or had been
    given up by an earlier Stop): nothing is stuck in a Send, in the deferred list, in the flusher, in
    the channel or in a worker. -/
theorem C16_quiescent_all_executed (nw : Nat) (hnw : 0 < nw) (acts : List Pool.Act)
    (hr : (Pool.run (Pool.init nw) acts).running = true) (hq : Quiet (Pool.run (Pool.init nw) acts)) (j : Nat) :
    (Pool.run (Pool.init nw) acts).accepted.count j =
      (Pool.run (Pool.init nw) acts).executed.count j + (Pool.run (Pool.init nw) acts).dropped.count j := by
  have hi := (Pool.Inv.init nw).run acts
  have hi2 := (Pool.Inv2.init nw).run acts
  have hnw' : (Pool.run (Pool.init nw) acts).nw = nw := by
    have : ∀ (s : Pool.St) (as : List Pool.Act), (Pool.run s as).nw = s.nw := by
      intro s as
      induction as generalizing s with
      | nil => rfl
      | cons a as ih =>
        simp only [Pool.run]
        cases hs : Pool.step s a with
        | none => exact ih s
        | some s' =>
          simp only [Option.getD]
          rw [ih s']
          cases a <;> simp only [Pool.step] at hs <;> (try split at hs) <;> (try split at hs) <;> (try cases hs) <;> (try rfl)
          all_goals (first | (cases hf : s.fpc <;> rw [hf] at hs <;> simp only at hs <;> (try split at hs) <;> (try cases hs) <;> (try rfl) <;>
                                (cases hl : s.list <;> rw [hl] at hs <;> cases hs <;> rfl))
                           | (cases hch : s.ch <;> rw [hch] at hs <;> simp only at hs <;> (try split at hs) <;> (try cases hs) <;> rfl)
                           | (cases hst : s.stop <;> rw [hst] at hs <;> simp only at hs <;> split at hs <;> cases hs <;> rfl))
    exact this _ _
  generalize Pool.run (Pool.init nw) acts = s at *
  obtain ⟨q1, q2, q3, q4, q5, q6⟩ := hq
  have hrun := hi.runOf hr
  have hsel : s.sel = [] := by
    cases hs : s.sel with
    | nil => rfl
    | cons x xs => have := q2 x; simp [Pool.step, hs] at this
  have hlazy : s.lazy = [] := by
    cases hs : s.lazy with
    | nil => rfl
    | cons x xs =>
      have := q3 x
      simp only [Pool.step, hs, List.mem_cons, true_or, if_true] at this
      split at this <;> cases this
  have hexec : s.execing = [] := by
    cases hs : s.execing with
    | nil => rfl
    | cons x xs => have := q6 x; simp [Pool.step, hs] at this
  have hw := hi.workers hrun.1
  have hex := hi2.noExit hr
  have hidle : s.idleW = nw := by rw [hexec] at hw; simp at hw; omega
  have hch : s.ch = [] := by
    cases hs : s.ch with
    | nil => rfl
    | cons x xs => simp [Pool.step, hs, hidle, hnw] at q5
  have hcap : 0 < s.cap := by rw [hi2.capEq]; omega
  have hfpc : s.fpc = .off := by
    cases hf : s.fpc with
    | off => rfl
    | loop => simp only [Pool.step, hf] at q4; split at q4 <;> cases q4
    | sending x => simp [Pool.step, hf, hch, hcap] at q4
  have hlm : s.lazyM = false := by
    cases hl : s.lazyM with
    | false => rfl
    | true => exact absurd hfpc (hi.flusher.mp hl)
  have hlist : s.list = [] := by
    cases hs : s.list with
    | nil => rfl
    | cons x xs => have := hi.covers hr (by rw [hs]; simp); rw [hlm] at this; cases this
  have := hi.cons j
  simp only [places, hsel, hlazy, hch, hlist, hfpc, hexec, hand, List.count_append, List.count_nil] at this
  omega

/-- **Send returns promptly**: a Send inside its select can always take the timeout branch, and the
    deferred path (`lazySend`) never waits for a worker or for the flusher. -/
theorem C16_send_never_waits (s : Pool.St) (j : Nat) :
    (j ∈ s.sel → (Pool.step s (.selTimeout j)).isSome = true) ∧ (j ∈ s.lazy → (Pool.step s (.lazyPush j)).isSome = true) := by
  constructor
  · intro h; simp [Pool.step, h]
  · intro h; simp only [Pool.step, h, if_true]; split <;> rfl

/-- **Stop cannot dead-lock.**  While a Stop is in progress (in any reachable state) some goroutine can
    move, and it is not a new Send or Run: Stop itself, a Send leaving its select through `ctx.Done()`,
    a deferred push, the flusher, a worker finishing its job or exiting. -/
theorem C16_stop_progress (nw : Nat) (acts : List Pool.Act) (hst : (Pool.run (Pool.init nw) acts).stop ≠ .idle) :
    ∃ a, (∀ j, a ≠ .send j) ∧ a ≠ .run ∧ (Pool.step (Pool.run (Pool.init nw) acts) a).isSome = true := by
  have hi := (Pool.Inv.init nw).run acts
  generalize Pool.run (Pool.init nw) acts = s at *
  have hso := hi.stopOf hst
  cases hstop : s.stop with
  | idle => exact absurd hstop hst
  | cancelled =>
    cases hsel : s.sel with
    | cons x xs => exact ⟨.selDone x, by intro j; simp, by simp, by simp [Pool.step, hsel, hso.1]⟩
    | nil =>
      cases hlz : s.lazy with
      | cons x xs =>
        refine ⟨.lazyPush x, by intro j; simp, by simp, ?_⟩
        simp only [Pool.step, hlz, List.mem_cons, true_or, if_true]; split <;> rfl
      | nil =>
        cases hf : s.fpc with
        | off => exact ⟨.stop, by intro j; simp, by simp, by simp [Pool.step, hstop, hsel, hlz, hf]⟩
        | loop =>
          refine ⟨.flush, by intro j; simp, by simp, ?_⟩
          simp only [Pool.step, hf]; split <;> rfl
        | sending x => exact ⟨.flushDone, by intro j; simp, by simp, by simp [Pool.step, hf, hso.1]⟩
  | waitedSend =>
    cases hex : s.execing with
    | cons x xs => exact ⟨.finish x, by intro j; simp, by simp, by simp [Pool.step, hex]⟩
    | nil =>
      by_cases hid : s.idleW = 0
      · exact ⟨.stop, by intro j; simp, by simp, by simp [Pool.step, hstop, hex, hid]⟩
      · exact ⟨.workerExit, by intro j; simp, by simp, by simp [Pool.step, hso.1]; omega⟩

/-! ### Stop returns (no fairness assumption) -/

def fpcW : Pool.FPc → Nat
  | .off => 0
  | _ => 1

def stopW : Pool.StopPc → Nat
  | .idle => 0
  | .cancelled => 2
  | .waitedSend => 1

/-- how far the pool is from rest: every job weighs what it still has to go through -/
def poolMu (s : Pool.St) : Nat :=
  14 * s.sel.length + 12 * s.lazy.length + 10 * s.list.length + 8 * (Pool.hand s.fpc).length +
  6 * s.ch.length + 4 * s.execing.length + fpcW s.fpc + s.idleW + stopW s.stop

/-- every step of every goroutine of the pool — a Send inside its select, the flusher, a worker, Stop —
    strictly decreases `poolMu`; only a NEW Send or a Run can raise it -/
theorem C16_every_action_progress (s s' : Pool.St) (a : Pool.Act) (ha : ∀ j, a ≠ .send j) (hr : a ≠ .run)
    (hb : a = .stop → s.stop ≠ .idle)      -- not the beginning of a Stop
    (hs : Pool.step s a = some s') : poolMu s' < poolMu s := by
  cases a with
  | run => exact absurd rfl hr
  | send j => exact absurd rfl (ha j)
  | selPush j =>
    simp only [Pool.step] at hs
    split at hs
    · rename_i h
      cases hs
      have := List.length_erase_of_mem h.1
      have hpos : 0 < s.sel.length := List.length_pos_of_mem h.1
      simp only [poolMu, List.length_append, List.length_singleton]
      omega
    · cases hs
  | selDone j =>
    simp only [Pool.step] at hs
    split at hs
    · rename_i h
      cases hs
      have := List.length_erase_of_mem h.1
      have hpos : 0 < s.sel.length := List.length_pos_of_mem h.1
      simp only [poolMu]
      omega
    · cases hs
  | selTimeout j =>
    simp only [Pool.step] at hs
    split at hs
    · rename_i h
      cases hs
      have := List.length_erase_of_mem h
      have hpos : 0 < s.sel.length := List.length_pos_of_mem h
      simp only [poolMu, List.length_cons]
      omega
    · cases hs
  | lazyPush j =>
    simp only [Pool.step] at hs
    split at hs
    · rename_i h
      have := List.length_erase_of_mem h
      have hpos : 0 < s.lazy.length := List.length_pos_of_mem h
      split at hs
      · cases hs
        simp only [poolMu, List.length_cons]
        omega
      · cases hs
        have hf : fpcW s.fpc + 8 * (Pool.hand s.fpc).length ≥ 0 := Nat.zero_le _
        simp only [poolMu, List.length_cons, Pool.hand, fpcW, List.length_nil]
        cases hfp : s.fpc <;> simp [Pool.hand, fpcW] <;> omega
    · cases hs
  | flush =>
    simp only [Pool.step] at hs
    cases hf : s.fpc with
    | off => rw [hf] at hs; cases hs
    | loop =>
      rw [hf] at hs
      simp only at hs
      cases hl : s.list with
      | nil => rw [hl] at hs; cases hs; simp [poolMu, hf, hl, Pool.hand, fpcW]
      | cons x rest =>
        rw [hl] at hs; cases hs
        simp [poolMu, hf, hl, Pool.hand, fpcW]; omega
    | sending x =>
      rw [hf] at hs
      simp only at hs
      split at hs
      · cases hs
        simp [poolMu, hf, Pool.hand, fpcW]; omega
      · cases hs
  | flushDone =>
    simp only [Pool.step] at hs
    cases hf : s.fpc with
    | off => rw [hf] at hs; cases hs
    | loop => rw [hf] at hs; cases hs
    | sending x =>
      rw [hf] at hs
      simp only at hs
      split at hs
      · cases hs; simp [poolMu, hf, Pool.hand, fpcW]; omega
      · cases hs
  | take =>
    simp only [Pool.step] at hs
    cases hc : s.ch with
    | nil => rw [hc] at hs; cases hs
    | cons x rest =>
      rw [hc] at hs
      simp only at hs
      split at hs
      · cases hs; simp [poolMu, hc]; omega
      · cases hs
  | finish j =>
    simp only [Pool.step] at hs
    split at hs
    · rename_i h
      cases hs
      have := List.length_erase_of_mem h
      have hpos : 0 < s.execing.length := List.length_pos_of_mem h
      simp only [poolMu]
      omega
    · cases hs
  | workerExit =>
    simp only [Pool.step] at hs
    split at hs
    · rename_i h
      cases hs
      simp only [poolMu]
      omega
    · cases hs
  | stop =>
    simp only [Pool.step] at hs
    cases hst : s.stop with
    | idle => exact absurd hst (hb rfl)
    | cancelled =>
      rw [hst] at hs
      simp only at hs
      split at hs
      · cases hs; simp [poolMu, hst, stopW]
      · cases hs
    | waitedSend =>
      rw [hst] at hs
      simp only at hs
      split at hs
      · cases hs; simp [poolMu, hst, stopW]; omega
      · cases hs

/-- a sequence of steps none of which is a new Send, a Run or the beginning of a Stop -/
def Settling (s : Pool.St) : List Pool.Act → Prop
  | [] => True
  | a :: as => (∀ j, a ≠ .send j) ∧ a ≠ .run ∧ (a = .stop → s.stop ≠ .idle) ∧
      ∃ s', Pool.step s a = some s' ∧ Settling s' as

theorem settling_bounded (s : Pool.St) (as : List Pool.Act) (h : Settling s as) : as.length ≤ poolMu s := by
  induction as generalizing s with
  | nil => exact Nat.zero_le _
  | cons a as ih =>
    obtain ⟨h1, h2, h3, s', hs, hrest⟩ := h
    have := C16_every_action_progress s s' a h1 h2 h3 hs
    have := ih s' hrest
    simp only [List.length_cons]
    omega

/-- **Stop returns, under every scheduler.**  From any reachable state in which a Stop is in
    progress: whatever the goroutines of the pool do — Sends leaving their select, the flusher,
    workers taking, finishing (every job function returns: the `finish` step) and exiting, Stop's own
    steps — they can do at most `poolMu` steps, and as long as Stop has not returned one of them can
    move (`C16_stop_progress`).  No fairness is assumed.  (New Sends are refused while the context is
    cancelled: they change nothing.) -/
theorem C16_stop_returns (nw : Nat) (acts as : List Pool.Act)
    (h : Settling (Pool.run (Pool.init nw) acts) as) :
    as.length ≤ poolMu (Pool.run (Pool.init nw) acts) :=
  settling_bounded _ as h

/-- executable form of `Settling` (for the witness below) -/
def settlingB (s : Pool.St) : List Pool.Act → Bool
  | [] => true
  | a :: as =>
    (match a with | .send _ => false | .run => false | .stop => decide (s.stop ≠ .idle) | _ => true) &&
    (match Pool.step s a with | some s' => settlingB s' as | none => false)

theorem settling_of_B (s : Pool.St) (as : List Pool.Act) (h : settlingB s as = true) : Settling s as := by
  induction as generalizing s with
  | nil => trivial
  | cons a as ih =>
    simp only [settlingB, Bool.and_eq_true] at h
    obtain ⟨h1, h2⟩ := h
    cases hs : Pool.step s a with
    | none => rw [hs] at h2; cases h2
    | some s' =>
      rw [hs] at h2
      refine ⟨?_, ?_, ?_, s', hs, ih s' h2⟩
      · intro j e; subst e; cases h1
      · intro e; subst e; cases h1
      · intro e; subst e; simpa using h1

/-- non-vacuity: one worker; a job is being executed, one waits in the channel, a third is inside
    its Send when Stop cancels the context; the pool then settles in 7 steps (`poolMu` = 26 there)
    and Stop has returned -/
example :
    let s := Pool.run (Pool.init 1) [.run, .send 1, .selPush 1, .take, .send 2, .selPush 2, .send 3, .stop]
    let as : List Pool.Act := [.selDone 3, .stop, .finish 1, .workerExit, .stop]
    s.stop = .cancelled ∧ poolMu s = 26 ∧ settlingB s as = true ∧ (Pool.run s as).stop = .idle ∧
    (Pool.run s as).runM = false := by decide

/-- **No job starts after Stop has returned** (until the next Run): no worker is left, nothing is
    being executed, no worker can take a job. -/
theorem C16_no_start_after_stop (nw : Nat) (acts : List Pool.Act) (hrm : (Pool.run (Pool.init nw) acts).runM = false) :
    (Pool.run (Pool.init nw) acts).execing = [] ∧ Pool.step (Pool.run (Pool.init nw) acts) .take = none := by
  have hi := (Pool.Inv.init nw).run acts
  generalize Pool.run (Pool.init nw) acts = s at *
  obtain ⟨e1, e2, _, _, _, e6, _⟩ := hi.stopped hrm
  exact ⟨e2, by simp [Pool.step, e6]⟩

/-- non-vacuity: 1 worker (channel of 2), five jobs: the first is taken, two fill the channel, two take
    the deferred path; the worker drains everything; then Stop -/
example :
    let s := Pool.run (Pool.init 1) [.run, .send 1, .selPush 1, .take, .send 2, .selPush 2, .send 3, .selPush 3,
      .send 4, .selTimeout 4, .lazyPush 4, .send 5, .selTimeout 5, .lazyPush 5, .flush,
      .finish 1, .take, .flush, .finish 2, .take, .flush, .flush, .finish 3, .take, .flush, .flush,
      .finish 5, .take, .finish 4]
    s.executed = [4, 5, 3, 2, 1] ∧ s.running = true ∧ s.dropped = [] := by decide

end FsDb.C16

/-! ## the wait group between Send and Stop (the defect repaired by 775f13a) -/
namespace FsDb.C16
open FsDb.PoolWg

/-- while a Stop is waiting the pool is not running, and nothing was misused so far -/
def WgInv (s : PoolWg.St) : Prop := (s.waiting = true → s.running = false) ∧ s.misuse = false

theorem wg_step (s s' : PoolWg.St) (a : PoolWg.Act) (h : WgInv s) (hs : PoolWg.step true s a = some s') : WgInv s' := by
  obtain ⟨h1, h2⟩ := h
  cases a <;> simp only [PoolWg.step] at hs
  · split at hs
    · cases hs; exact ⟨h1, h2⟩
    · rename_i hg
      cases hs
      refine ⟨h1, ?_⟩
      have hr : s.running = true := by
        cases hr : s.running with
        | true => rfl
        | false => simp [hr] at hg
      have hw : s.waiting = false := by
        cases hw : s.waiting with
        | false => rfl
        | true => have := h1 hw; rw [hr] at this; cases this
      simp [h2, hw]
  · split at hs <;> cases hs; exact ⟨h1, h2⟩
  · split at hs <;> cases hs; exact ⟨fun _ => rfl, h2⟩
  · split at hs <;> cases hs; exact ⟨(fun hw => by cases hw), h2⟩
  · split at hs
    · rename_i hg
      cases hs
      refine ⟨?_, h2⟩
      intro hw
      have : s.waiting = false := by simpa using hg.2
      rw [this] at hw; cases hw
    · cases hs

/-- **The repaired protocol never misuses the wait group**: for every sequence of Sends entering and
    leaving, Stops and Runs, no `Add` from zero happens while a `Wait` is in progress — the panic
    `WaitGroup is reused before previous Wait has returned` cannot occur. -/
theorem C16_waitgroup_never_misused (acts : List PoolWg.Act) : (PoolWg.run true {} acts).misuse = false := by
  have : ∀ (s : PoolWg.St), WgInv s → WgInv (PoolWg.run true s acts) := by
    induction acts with
    | nil => intro s h; exact h
    | cons a as ih =>
      intro s h
      simp only [PoolWg.run]
      cases hs : PoolWg.step true s a with
      | none => exact ih s h
      | some s' => exact ih s' (wg_step s s' a h hs)
  exact (this {} ⟨(fun h => by cases h), rfl⟩).2

/-- the pin: a Send that registers itself while Stop waits on an empty group — Go panics -/
theorem C16_waitgroup_pin_witness : (PoolWg.run false {} [.stopCancel, .sendEnter]).misuse = true := by decide

end FsDb.C16
