import FsDb.Model.WPool
/-!
# C16 — The worker pool runs every accepted job exactly once and stops cleanly

Proved on the model of the deferred-send path (`FsDb/Model/WPool.lean`, repaired flusher):
conservation (no event is lost or duplicated, in any reachable state), and: whenever nothing can
move any more, every event has been delivered to the channel — without any further Send.  The pin's
flusher has a reachable quiescent state with an undelivered event (`C16_handoff_witness`).
What happens after the channel (a worker takes each event once, Stop waits for them), the timeout
of `Send` (prompt return) and the Stop/Run/Send orders are exercised on the real pool by the check,
not proved.
-/
namespace FsDb.C16
open FsDb.WPool

structure Inv (st : St) : Prop where
  lazyIff : st.lazyM = true ↔ st.fpc ≠ .off
  offEmpty : st.fpc = .off → st.list = []
  noExit : st.fpc ≠ .exiting

theorem inv_init (jobs : List Nat) : Inv (init jobs) := by
  constructor <;> simp [init]

theorem inv_step (st st' : St) (a : Act) (h : Inv st) (hs : step true st a = some st') : Inv st' := by
  obtain ⟨toSend, list, lazyM, fpc, delivered⟩ := st
  obtain ⟨h1, h2, h3⟩ := h
  simp only at h1 h2 h3
  cases a with
  | send =>
    cases toSend with
    | nil => simp [step] at hs
    | cons j rest =>
      simp only [step] at hs
      split at hs
      · cases hs; constructor <;> simp_all
      · cases hs; constructor <;> simp_all
  | flush =>
    cases fpc with
    | off => simp [step] at hs
    | loop =>
      cases list with
      | nil => simp only [step, ite_true] at hs; cases hs; constructor <;> simp_all
      | cons j rest => simp only [step] at hs; cases hs; constructor <;> simp_all
    | sending j => simp only [step] at hs; cases hs; constructor <;> simp_all
    | exiting => exact absurd rfl h3

/-- the multiset of events is conserved by every step: for every event, the number of its
    occurrences among "still to send, in the list, in the flusher's hand, delivered" never changes
    (no event is lost, none is duplicated) — for the repaired and for the pin's flusher alike -/
theorem C16_conservation (e : Bool) (st st' : St) (a : Act) (hl : st.lazyM = true ↔ st.fpc ≠ .off)
    (hs : step e st a = some st') (x : Nat) :
    (inFlight st').count x = (inFlight st).count x := by
  obtain ⟨toSend, list, lazyM, fpc, delivered⟩ := st
  cases a with
  | send =>
    cases toSend with
    | nil => simp [step] at hs
    | cons j rest =>
      simp only [step] at hs
      simp only at hl
      split at hs
      · cases hs; simp only [inFlight, List.count_append, List.count_cons]; omega
      · rename_i hlz
        have hoff : fpc = .off := by
          cases fpc <;> simp_all
        subst hoff
        cases hs; simp only [inFlight, List.count_append, List.count_cons, List.count_nil]; omega
  | flush =>
    cases fpc with
    | off => simp [step] at hs
    | loop =>
      cases list with
      | nil =>
        simp only [step] at hs
        split at hs <;> (cases hs; simp [inFlight])
      | cons j rest =>
        simp only [step] at hs; cases hs
        simp only [inFlight, List.count_append, List.count_cons, List.count_nil]; omega
    | sending j =>
      simp only [step] at hs; cases hs
      simp only [inFlight, List.count_append, List.count_cons, List.count_nil]; omega
    | exiting => simp only [step] at hs; cases hs; simp [inFlight]

inductive Reach (jobs : List Nat) : St → Prop
  | init : Reach jobs (init jobs)
  | step (st st' : St) (a : Act) : Reach jobs st → step true st a = some st' → Reach jobs st'

theorem reach_inv (jobs : List Nat) (st : St) (h : Reach jobs st) : Inv st ∧ ∀ x, (inFlight st).count x = jobs.count x := by
  induction h with
  | init => exact ⟨inv_init jobs, fun x => by simp [inFlight, init]⟩
  | step st st' a _ hs ih => exact ⟨inv_step st st' a ih.1 hs, fun x => by rw [C16_conservation true st st' a ih.1.lazyIff hs x, ih.2 x]⟩

/-- **Every accepted event is delivered exactly once, and no further Send is needed to flush it.**
    In every reachable state of the repaired deferred-send path in which nothing can move any more
    (all Sends returned, the flusher is off), the list is empty and every event has been delivered
    to the channel exactly as many times as it was sent. -/
theorem C16_every_job_delivered (jobs : List Nat) (st : St) (h : Reach jobs st) (hq : quiescent true st = true) :
    st.toSend = [] ∧ st.list = [] ∧ st.fpc = .off ∧ ∀ x, st.delivered.count x = jobs.count x := by
  obtain ⟨i, hc⟩ := reach_inv jobs st h
  obtain ⟨toSend, list, lazyM, fpc, delivered⟩ := st
  obtain ⟨h1, h2, h3⟩ := i
  simp only at h1 h2 h3
  unfold quiescent at hq
  have hsend : toSend = [] := by
    cases toSend with
    | nil => rfl
    | cons j rest => simp [step] at hq; split at hq <;> simp at hq
  subst hsend
  have hoff : fpc = .off := by
    cases fpc with
    | off => rfl
    | loop => cases list <;> simp [step] at hq
    | sending j => simp [step] at hq
    | exiting => exact absurd rfl h3
  subst hoff
  have hl := h2 rfl
  subst hl
  refine ⟨rfl, rfl, rfl, ?_⟩
  intro x
  have := hc x
  simpa [inFlight] using this

/-- while something is still to be done, something can move (the flusher never needs a Send to
    be woken: whenever the list is non-empty a flusher is running) -/
theorem C16_flusher_covers (jobs : List Nat) (st : St) (h : Reach jobs st) (hne : st.list ≠ []) :
    (step true st .flush).isSome = true := by
  obtain ⟨i, _⟩ := reach_inv jobs st h
  obtain ⟨toSend, list, lazyM, fpc, delivered⟩ := st
  obtain ⟨h1, h2, h3⟩ := i
  simp only at h1 h2 h3 hne
  cases fpc with
  | off => exact absurd (h2 rfl) hne
  | loop => cases list <;> simp [step]
  | sending j => simp [step]
  | exiting => exact absurd rfl h3

/-- the pin's flusher (lazySendM released in a later step than the pop): a deferred Send slips in
    between; afterwards nothing can move, yet event 2 sits in the list, undelivered.  A test of the
    model; the check replays the schedule on the real pool (scenario `handoff`). -/
theorem C16_handoff_witness :
    ∃ st, run false (init [1, 2]) [.send, .flush, .flush, .flush, .send, .flush] = some st ∧
      quiescent false st = true ∧ st.list = [2] ∧ st.delivered = [1] := by
  refine ⟨_, rfl, ?_, ?_, ?_⟩ <;> decide

/-- non-vacuity: the same schedule on the repaired model delivers both -/
example : ∃ st, run true (init [1, 2]) [.send, .flush, .flush, .flush, .send, .flush, .flush, .flush] = some st ∧
    quiescent true st = true ∧ st.delivered = [2, 1] := by
  refine ⟨_, rfl, ?_, ?_⟩ <;> decide

end FsDb.C16
