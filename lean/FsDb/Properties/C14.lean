import FsDb.Spec.Iso
/-! # C14 (theorems under construction) -/
namespace FsDb.C14
end FsDb.C14
