import FsDb.Proofs.ConcCfs
import FsDb.Proofs.CfsInv
/-!
# C14 — Space of unreachable contents is reclaimed; the disk holds only live data

The safety half (nothing reachable loses its content) and the reclaim half: the content-record
invariant `CfsInv` (every content record belongs to a linked version or to a pending deletion job;
no content id twice; every content record has its version record) holds through every operation,
and at quiescence -- no transaction open, worker pool drained, one collector pass -- the content
records (one content file each) are EXACTLY the committed values of the keys that have one
(`C14_quiescent_storage`), also after `Close`+`Open` and a drained pool (`C14_after_reopen`).
The correspondence run checks the same equality on the real storage roots (`tree`).
-/
namespace FsDb.C14
open FsDb Spec

/-- every version that any read can reach keeps its content record, in every reachable state:
    deletion jobs (rollback, failed commit, superseded-in-transaction, collector) only ever name
    versions that are no longer linked anywhere -/
theorem C14_jobs_are_dead {c : Sys} {s : State} (h : R c s) :
    ∀ job ∈ c.pending, ∀ v ∈ job, ∀ k, ∀ w ∈ c.all k, w.cid ≠ v.cid := h.inv.pendDead

theorem C14_live_has_content {c : Sys} {s : State} (h : R c s) (k : Key) (v : Ver) (hv : v ∈ c.all k) :
    c.hasContent v.cid = v.val := h.inv.stor k v hv

/-- after `drain` nothing is pending -/
theorem C14_drain_empties (c : Sys) : (c.drain).1.pending = [] := rfl

/-- Rollback and a failed commit hand *every* version of the transaction to the cleaner, a
    successful commit hands over every version superseded inside the transaction: the delete list is
    exactly the content of the transaction's store minus what was published. -/
theorem C14_rollback_schedules_all {c : Sys} (i : Inv c) {t : Nat} {st : Store} (hst : c.txs t = some st) :
    ∀ v, v ∈ c.dom.flatMap (fun k => st k) ↔ ∃ k, v ∈ st k := isStoreOf_flatMap i hst

theorem C14_commit_schedules_rest {c : Sys} (i : Inv c) {t : Nat} {st : Store} (hst : c.txs t = some st) :
    ∀ v, v ∈ cLasts c st ++ cOlds c st ↔ ∃ k, v ∈ st k := isStoreOf_commit i hst

/-- the collector hands over exactly what it unlinks from the main store -/
theorem C14_gc_schedules_collected {c : Sys} (i : Inv c) (v : Ver) :
    v ∈ gcDels c ↔ ∃ k, v ∈ (collect (c.main k) (gcHz c)).1 := mem_gcDels i v

/-- with no transaction open the collector keeps exactly one version per key: the newest -/
theorem C14_gc_keeps_only_latest (c : Sys) (hreg : c.reg = []) (i : Inv c) (k : Key) :
    (collect (c.main k) (gcHz c)).2 = (Sys.latest (c.main k)).toList := by
  have hz : gcHz c = c.counter + 1 := by unfold gcHz; rw [hreg]; rfl
  rw [hz]
  have hle : ∀ v ∈ c.main k, v.seq ≤ c.counter ∧ v.seq ≠ 0 := fun v hv =>
    let b := i.bounds k v (i.main_sub_all hv); ⟨b.2.1, by have := b.1; omega⟩
  generalize c.main k = l at hle
  induction l with
  | nil => rfl
  | cons a t ih =>
    cases t with
    | nil => rfl
    | cons b rest =>
      have hb := hle b (by simp)
      have : collect (a :: b :: rest) (c.counter + 1) =
          (a :: (collect (b :: rest) (c.counter + 1)).1, (collect (b :: rest) (c.counter + 1)).2) := by
        rw [collect]; simp [hb.2]; omega
      rw [this]
      simp only
      rw [ih (fun v hv => hle v (List.mem_cons_of_mem _ hv))]
      simp [Sys.latest, List.getLast?_cons_cons]

/-! ### the reclaim half -/

theorem drain_fields (c : Sys) : (c.drain).1.reg = c.reg ∧ (c.drain).1.main = c.main ∧ (c.drain).1.pending = [] := by
  unfold Sys.drain
  refine ⟨?_, ?_, rfl⟩
  · show (c.pending.foldl (fun s job => s.deleteFiles job) c).reg = c.reg
    generalize c.pending = jobs
    induction jobs generalizing c with
    | nil => rfl
    | cons j js ih => simp only [List.foldl_cons]; rw [ih]; exact (deleteFiles_fields c j).2.2.2.2.1
  · show (c.pending.foldl (fun s job => s.deleteFiles job) c).main = c.main
    generalize c.pending = jobs
    induction jobs generalizing c with
    | nil => rfl
    | cons j js ih => simp only [List.foldl_cons]; rw [ih]; exact (deleteFiles_fields c j).2.1

theorem gc_fields (c : Sys) : (c.gc).1.reg = c.reg ∧ (c.gc).1.pending = c.pending ∧
    (c.gc).1.main = fun k => (collect (c.main k) (gcHz c)).2 := by
  rw [gc_eq]
  obtain ⟨_, f2, _, _, f5, _, _, f8⟩ := deleteFiles_fields (gcMid c) (gcDels c)
  exact ⟨f5, f8, f2⟩

theorem toList_latest (o : Option Ver) : o.toList = (Sys.latest o.toList).toList := by
  cases o <;> rfl

/-- the invariants hold in every state reached by any history (reopenings and storage walks
    included) -/
theorem C14_invariants_reachable (ops : List Op) (hops : ∀ op ∈ ops, op.total = true ∨ op = .tree) :
    R (({} : Sys).run ops).1 (Spec.run {} ops).1 ∧ RecInv (({} : Sys).run ops).1 ∧ CfsInv (({} : Sys).run ops).1 :=
  reach_all R.init RecInv.init CfsInv.init ops hops

/-- every content record is accounted for: it belongs to a version some reader may still reach, or
    to a deletion job already handed to the worker pool -- in every reachable state -/
theorem C14_no_orphan_content {c : Sys} (ci : CfsInv c) (p : Nat × Nat) (hp : p ∈ c.cfs) :
    (∃ k, ∃ v ∈ c.all k, v.cid = p.1) ∨ (∃ job ∈ c.pending, ∃ v ∈ job, v.cid = p.1) := ci.owned p hp

/-- **Quiescence.**  From any reachable state with no transaction open: drain the worker pool, run
    the collector once; then the storage holds exactly the committed value of every key that has
    one -- nothing superseded, rolled back, conflicted or deleted is left. -/
theorem C14_quiescent_storage {c : Sys} {s : State} (h : R c s) (ci : CfsInv c) (hreg : c.reg = []) :
    ((c.drain).1.gc).1.tree = (Spec.step s .tree).2 := by
  have h1 := (step_drain h).2
  have c1 := ci.drain
  obtain ⟨d1, d2, d3⟩ := drain_fields c
  have h2 := (step_gc h1).2
  have c2 := CfsInv.gc h1.inv c1
  obtain ⟨g1, g2, g3⟩ := gc_fields (c.drain).1
  have hreg1 : (c.drain).1.reg = [] := d1.trans hreg
  have := quiescent_tree h2 c2 (g1.trans hreg1) (g2.trans d3) (by
    intro k
    rw [g3]
    show (collect ((c.drain).1.main k) (gcHz (c.drain).1)).2 = (Sys.latest (collect ((c.drain).1.main k) (gcHz (c.drain).1)).2).toList
    rw [C14_gc_keeps_only_latest (c.drain).1 hreg1 h1.inv k]
    exact toList_latest _)
  rw [this]
  -- the specification's storage walk ignores drain and gc
  have e1 : (Spec.step s .gc).1.hist = s.hist := by
    show (if s.open_.isEmpty then { s with clock := s.clock + 1 } else s).hist = s.hist
    split <;> rfl
  have e2 : (Spec.step s .gc).1.dom = s.dom := by
    show (if s.open_.isEmpty then { s with clock := s.clock + 1 } else s).dom = s.dom
    split <;> rfl
  show Out.files (((Spec.step s .gc).1.dom.filterMap (fun k => (committed (Spec.step s .gc).1 k).bind (·.val))).mergeSort (· ≤ ·)) = _
  unfold committed
  rw [e1, e2]
  rfl

/-- after `Close`+`Open` and a drained pool the storage holds exactly the committed values
    (recovery reclaims everything that was left behind) -/
theorem C14_after_reopen {c : Sys} {s : State} (h : R c s) (ri : RecInv c) (ci : CfsInv c) (f : Bool) :
    ((c.reopen f).1.drain).1.tree = (Spec.step s .tree).2 := by
  have h1 := R.reopen h ri f
  have c1 := CfsInv.reopen h.inv ci f
  have h2 := (step_drain h1).2
  have c2 := c1.drain
  obtain ⟨d1, d2, d3⟩ := drain_fields (c.reopen f).1
  have := quiescent_tree h2 c2 (d1.trans (reopen_reg c f)) d3 (by
    intro k
    rw [d2, reopen_main h.inv ri f k]
    exact toList_latest _)
  rw [this]
  rfl

/-- non-vacuity: superseded versions, a rolled-back and a conflicting transaction, a tombstone;
    after drain + gc only the committed values remain, in the model's storage and in the
    specification (unsorted lists; the walk sorts them) -/
example :
    ((({} : Sys).run [.set 0 "a" 1, .set 0 "a" 2, .begin 1 .ser, .set 1 "b" 3, .set 0 "b" 4, .commit 1, .begin 2 .rc, .set 2 "c" 5,
      .rollback 2, .set 0 "d" 6, .del 0 "d", .drain, .gc]).1.cfs.map (·.2)) = [2, 4] := by decide
example :
    let s := (Spec.run {} [.set 0 "a" 1, .set 0 "a" 2, .begin 1 .ser, .set 1 "b" 3, .set 0 "b" 4, .commit 1, .begin 2 .rc, .set 2 "c" 5,
      .rollback 2, .set 0 "d" 6, .del 0 "d", .drain, .gc]).1
    s.dom.filterMap (fun k => (committed s k).bind (·.val)) = [2, 4] := by decide

/-! ## under concurrency -/
open FsDb.Conc in
/-- **No orphan content, under every schedule.**  In every state the small-step model can reach —
    any number of goroutines writing, committing, rolling back, collecting and deleting, step by
    step — every content record (content file) belongs to a version that is still linked, to a
    queued deletion job, or to a job a goroutine is executing right now; no content id has two
    records; every content record has its version record. -/
theorem C14_concurrent_invariant (acts : List Conc.Act) : CfsInv (Conc.withBusy (Conc.exec {} acts)) :=
  (Conc.cc_reachable acts).cfs

open FsDb.Conc in
/-- **Quiescence after any concurrent history.**  Whatever schedule led there: once no job is in
    execution, no transaction is inside Commit / Rollback and none is registered, `drain; gc` leaves
    in the storage exactly the committed value of every key that has one — nothing a concurrent
    history superseded, rolled back, refused or deleted is left behind. -/
theorem C14_concurrent_quiescent (acts : List Conc.Act)
    (hbusy : (Conc.exec {} acts).busy = []) (hcl : (Conc.exec {} acts).closing = [])
    (hreg : (Conc.exec {} acts).sys.reg = []) :
    (((Conc.exec {} acts).sys.drain).1.gc).1.tree = (Spec.step (Conc.specOf (Conc.exec {} acts)) .tree).2 := by
  have h := Conc.reachable_inv acts
  have c := Conc.cc_reachable acts
  have hw : Conc.withBusy (Conc.exec {} acts) = (Conc.exec {} acts).sys := by
    unfold Conc.withBusy Conc.withB; rw [hbusy]; rfl
  have hR : R (Conc.exec {} acts).sys (Conc.specOf (Conc.exec {} acts)) := by
    have := h.rel
    rw [hcl, hw] at this
    exact this
  have hC : CfsInv (Conc.exec {} acts).sys := by
    have := c.cfs
    rw [hw] at this
    exact this
  exact C14_quiescent_storage hR hC hreg

/-- non-vacuity: a schedule with an overwrite racing a reader, a collector pass and a commit window
    ends in a state that meets the hypotheses -/
example :
    let σ := Conc.exec {}
      [.call 0 (.set 0 "k" 1), .run 0, .run 0, .run 0, .run 0,
       .call 1 (.begin 1 .ser), .run 1, .run 1, .run 1,
       .call 0 (.set 0 "k" 2), .run 0, .run 0, .run 0, .run 0,
       .call 1 (.commit 1), .run 1,
       .call 2 .gc, .run 2, .run 2, .run 2, .run 2, .run 2, .run 1, .run 1]
    σ.busy = [] ∧ σ.closing = [] ∧ σ.sys.reg = [] := by decide

end FsDb.C14
