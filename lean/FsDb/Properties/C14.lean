import FsDb.Proofs.Refine
/-!
# C14 — Space of unreachable contents is reclaimed; the disk holds only live data

Proved so far (the *safety* half and the bookkeeping the reclaim half rests on); the exact
equality "content files = committed values" at quiescence is established by the correspondence run
(`tree` op: walk of the real storage roots vs model vs specification) and is `C14_quiescent_partial`'s
missing part.
-/
namespace FsDb.C14
open FsDb Spec

/-- every version that any read can reach keeps its content record, in every reachable state:
    deletion jobs (rollback, failed commit, superseded-in-transaction, collector) only ever name
    versions that are no longer linked anywhere -/
theorem C14_jobs_are_dead {c : Sys} {s : State} (h : R c s) :
    ∀ job ∈ c.pending, ∀ v ∈ job, ∀ k, ∀ w ∈ c.all k, w.cid ≠ v.cid := h.inv.pendDead

theorem C14_live_has_content {c : Sys} {s : State} (h : R c s) (k : Key) (v : Ver) (hv : v ∈ c.all k) :
    c.hasContent v.cid = v.val := h.inv.stor k v hv

/-- after `drain` nothing is pending -/
theorem C14_drain_empties (c : Sys) : (c.drain).1.pending = [] := rfl

/-- Rollback and a failed commit hand *every* version of the transaction to the cleaner, a
    successful commit hands over every version superseded inside the transaction: the delete list is
    exactly the content of the transaction's store minus what was published. -/
theorem C14_rollback_schedules_all {c : Sys} (i : Inv c) {t : Nat} {st : Store} (hst : c.txs t = some st) :
    ∀ v, v ∈ c.dom.flatMap (fun k => st k) ↔ ∃ k, v ∈ st k := isStoreOf_flatMap i hst

theorem C14_commit_schedules_rest {c : Sys} (i : Inv c) {t : Nat} {st : Store} (hst : c.txs t = some st) :
    ∀ v, v ∈ cLasts c st ++ cOlds c st ↔ ∃ k, v ∈ st k := isStoreOf_commit i hst

/-- the collector hands over exactly what it unlinks from the main store -/
theorem C14_gc_schedules_collected {c : Sys} (i : Inv c) (v : Ver) :
    v ∈ gcDels c ↔ ∃ k, v ∈ (collect (c.main k) (gcHz c)).1 := mem_gcDels i v

/-- with no transaction open the collector keeps exactly one version per key: the newest -/
theorem C14_gc_keeps_only_latest (c : Sys) (hreg : c.reg = []) (i : Inv c) (k : Key) :
    (collect (c.main k) (gcHz c)).2 = (Sys.latest (c.main k)).toList := by
  have hz : gcHz c = c.counter + 1 := by unfold gcHz; rw [hreg]; rfl
  rw [hz]
  have hle : ∀ v ∈ c.main k, v.seq ≤ c.counter ∧ v.seq ≠ 0 := fun v hv =>
    let b := i.bounds k v (i.main_sub_all hv); ⟨b.2.1, by have := b.1; omega⟩
  generalize c.main k = l at hle
  induction l with
  | nil => rfl
  | cons a t ih =>
    cases t with
    | nil => rfl
    | cons b rest =>
      have hb := hle b (by simp)
      have : collect (a :: b :: rest) (c.counter + 1) =
          (a :: (collect (b :: rest) (c.counter + 1)).1, (collect (b :: rest) (c.counter + 1)).2) := by
        rw [collect]; simp [hb.2]; omega
      rw [this]
      simp only
      rw [ih (fun v hv => hle v (List.mem_cons_of_mem _ hv))]
      simp [Sys.latest, List.getLast?_cons_cons]

end FsDb.C14
