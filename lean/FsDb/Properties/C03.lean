import FsDb.Spec.Iso
/-! # C03 (theorems under construction) -/
namespace FsDb.C03
end FsDb.C03
