import FsDb.Proofs.Refine
import FsDb.Proofs.SpecInv
/-!
# C03 — Commit is all-or-nothing and fails exactly on a write-write conflict

Stated on the specification; `Refine.run` (C02_refinement) carries it to the concrete model.
-/
namespace FsDb.C03
open FsDb Spec

/-- the committed value of a key (`none`: absent or deleted) -/
def valueOf (s : State) (k : Key) : Option Nat := (committed s k).bind (·.val)

theorem mem_written {s : State} (hs : SInv s) {tx : STx} (htx : tx ∈ s.open_) (k : Key) :
    k ∈ writtenS s.dom tx.own ↔ (tx.own k).isSome := by
  unfold writtenS
  rw [List.mem_filter]
  constructor
  · exact fun h => h.2
  · exact fun h => ⟨hs.ownDom tx htx k h, h⟩

theorem close_committed (s : State) (t : Nat) (k : Key) : committed (Spec.close s t) k = committed s k := rfl

/-- A successful Commit makes the last value the transaction wrote to every key (including
    deletions) the committed value of those keys — all in one step — and nothing else changes. -/
theorem C03_commit_ok (s : State) (hs : SInv s) (t : Nat) (tx : STx) (htm : t ≠ mainTx)
    (hf : find s t = some tx) (hok : (Spec.commit s t).2 = .ok) (k : Key) :
    valueOf (Spec.commit s t).1 k = match tx.own k with
      | some v => v.val
      | none => valueOf s k := by
  have htx : tx ∈ s.open_ := List.mem_of_find?_eq_some hf
  unfold Spec.commit at hok ⊢
  simp only [htm, if_false, hf] at hok ⊢
  by_cases hc : conflictS (Spec.close s t) tx = true
  · simp [hc] at hok
  · simp only [hc, Bool.false_eq_true, if_false]
    by_cases hem : (writtenS (Spec.close s t).dom tx.own).isEmpty = true
    · -- the transaction wrote nothing
      simp only [hem, if_true]
      have hnil : writtenS s.dom tx.own = [] := by
        have : writtenS (Spec.close s t).dom tx.own = [] := by simpa using hem
        exact this
      have hnone : tx.own k = none := by
        cases ho : tx.own k with
        | none => rfl
        | some v =>
          have : k ∈ writtenS s.dom tx.own := (mem_written hs htx k).mpr (by simp [ho])
          rw [hnil] at this; cases this
      rw [hnone]; rfl
    · simp only [hem, Bool.false_eq_true, if_false]
      cases ho : tx.own k with
      | none => simp [valueOf, committed, publishS, ho, Spec.close]
      | some v =>
        have hw : k ∈ writtenS (Spec.close s t).dom tx.own := (mem_written hs htx k).mpr (by simp [ho])
        simp [valueOf, committed, publishS, ho, hw]

/-- Rollback leaves the committed state exactly as it was and discards the transaction. -/
theorem C03_rollback_noop (s : State) (t : Nat) :
    (Spec.rollback s t).1.hist = s.hist ∧ find (Spec.rollback s t).1 t = none := by
  refine ⟨rfl, ?_⟩
  unfold find Spec.rollback Spec.close
  rw [List.find?_eq_none]; intro x hx
  simpa using (List.mem_filter.mp hx).2

/-- A failed Commit leaves the committed state exactly as it was and discards all the
    transaction's writes (the transaction is closed: nobody can read them afterwards). -/
theorem C03_failed_commit_noop (s : State) (t : Nat) (hfail : (Spec.commit s t).2 = .err .txSerialization) :
    (Spec.commit s t).1.hist = s.hist ∧ find (Spec.commit s t).1 t = none := by
  unfold Spec.commit at hfail ⊢
  split at hfail
  · cases hfail
  · rename_i tx heq
    simp only [heq] at hfail ⊢
    split at hfail
    · rename_i hc
      simp only [hc, if_true]
      refine ⟨rfl, ?_⟩
      unfold find Spec.close
      rw [List.find?_eq_none]; intro x hx
      simpa using (List.mem_filter.mp hx).2
    · split at hfail <;> cases hfail

/-- Commit of a RepeatableRead/Serializable transaction fails with ErrTxSerialization if and only
    if some key it wrote has had another value committed since it began. -/
theorem C03_conflict_iff (s : State) (hs : SInv s) (t : Nat) (tx : STx) (htm : t ≠ mainTx)
    (hf : find s t = some tx) (hl : tx.level.snapshot = true) :
    (Spec.commit s t).2 = .err .txSerialization ↔
      ∃ k v, (tx.own k).isSome ∧ committed s k = some v ∧ v.stamp > tx.beginStamp := by
  have htx : tx ∈ s.open_ := List.mem_of_find?_eq_some hf
  have hconf : conflictS (Spec.close s t) tx = true ↔
      ∃ k v, (tx.own k).isSome ∧ committed s k = some v ∧ v.stamp > tx.beginStamp := by
    unfold conflictS
    rw [hl, Bool.true_and, List.any_eq_true]
    constructor
    · rintro ⟨k, hk, hc⟩
      have hk' : k ∈ writtenS s.dom tx.own := hk
      rw [close_committed] at hc
      cases hcm : committed s k with
      | none => simp [hcm] at hc
      | some v => simp [hcm] at hc; exact ⟨k, v, (mem_written hs htx k).mp hk', hcm, hc⟩
    · rintro ⟨k, v, ho, hcm, hgt⟩
      refine ⟨k, (mem_written hs htx k).mpr ho, ?_⟩
      rw [close_committed, hcm]; simpa using hgt
  rw [← hconf]
  unfold Spec.commit
  simp only [htm, if_false, hf]
  constructor
  · intro h
    split at h
    · assumption
    · split at h <;> cases h
  · intro h; simp [h]

/-- ReadUncommitted / ReadCommitted commits never fail for that reason. -/
theorem C03_no_conflict_RU_RC (s : State) (t : Nat) (tx : STx) (htm : t ≠ mainTx)
    (hf : find s t = some tx) (hl : tx.level.snapshot = false) : (Spec.commit s t).2 = .ok := by
  unfold Spec.commit
  simp only [htm, if_false, hf]
  have : conflictS (Spec.close s t) tx = false := by unfold conflictS; rw [hl]; rfl
  simp only [this, Bool.false_eq_true, if_false]
  split <;> rfl

/-- the same statements hold for the concrete model's answers (outputs are equal by refinement) -/
theorem C03_concrete {c : Sys} {s : State} (h : R c s) (t : Nat) :
    (c.step (.commit t)).2 = (Spec.commit s t).2 ∧ R (c.step (.commit t)).1 (Spec.commit s t).1 :=
  Refine.step h (.commit t) rfl

/-- non-vacuity: a two-key commit, a conflicting snapshot commit, a rollback -/
example :
    (Spec.run {} [.set 0 "a" 1, .begin 1 .rr, .begin 2 .ser, .set 1 "a" 2, .set 1 "b" 3, .set 2 "a" 4,
      .commit 1, .get 0 "a", .get 0 "b", .commit 2, .get 0 "a", .begin 3 .rc, .del 3 "a", .rollback 3, .get 0 "a"]).2
    = [.ok, .ok, .ok, .ok, .ok, .ok, .ok, .val 2, .val 3, .err .txSerialization, .val 2, .ok, .ok, .ok, .val 2] := by
  decide

end FsDb.C03
