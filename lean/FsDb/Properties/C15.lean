import FsDb.Proofs.LocksetGlobal
import FsDb.Generated.Locks
/-
  C15 — concurrent use of one database is free of data races.

  The code side is `Generated.Locks`: for every root of fs_db (public entry points of the inline
  handle and its transactions, the gRPC service methods, the read-writer of Create, the worker pool,
  the collector, every goroutine body and every escaping closure) the lock skeleton regenerated from
  /repo's source on every run by /verif/lockx, under the guard table /verif/lockx/locks.json (which
  mutex protects which field; which objects are owned by which monitor).

  `C15_code_disciplined` is the obligation that is re-proved against the current source on every
  run: the kernel evaluates the static checker on every regenerated skeleton.
  `C15_race_free` is the theorem the obligation feeds: for every client program (any number of
  goroutines, each running any sequence of calls, any path through each) and every schedule, two
  accesses to state of the same guard from different goroutines, at least one a write, are ordered
  by a release/acquire pair of that guard -- by the Go memory model they are not a data race.
-/
namespace FsDb.Properties.C15
open FsDb.Lockset

/-- a client program over a set of roots: every goroutine runs some sequence of complete
    executions of roots (any roots, any number, any path through each) -/
def Program (roots : List Stmt) (Q : Thread → List Ev) : Prop :=
  ∀ t, ∃ paths : List (List Ev), Q t = paths.flatten ∧ ∀ p ∈ paths, ∃ r ∈ roots, RootPath r p

/-- checked roots ⇒ no data race, for every program, every schedule, every prefix of a run -/
theorem C15_race_free_of_checked (roots : List Stmt) (hok : roots.all rootOk = true)
    (Q : Thread → List Ev) (hQ : Program roots Q) (tr : List (Thread × Ev)) (hrun : Run (fun _ => []) Q tr)
    {pre mid post : List (Thread × Ev)} {a b : Thread} {l : Lock} {wa wb : Bool}
    (htr : tr = pre ++ (a, .need l wa) :: (mid ++ (b, .need l wb) :: post))
    (hab : a ≠ b) (hconf : wa = true ∨ wb = true) :
    ∃ m1 m2 m3 wr wq, mid = m1 ++ (a, .rel l wr) :: (m2 ++ (b, .acq l wq) :: m3) := by
  have hdisc : ∀ t, (LS.run ((fun _ => ([] : LS)) t) (Q t)).isSome = true := by
    intro t
    obtain ⟨paths, hq, hp⟩ := hQ t
    have : LS.run [] paths.flatten = some [] := by
      apply calls_disciplined
      intro p hpm
      obtain ⟨r, hr, hpath⟩ := hp p hpm
      exact rootOk_sound (List.all_eq_true.mp hok r hr) hpath
    simp [hq, this]
  have hv := Run.gvalid hrun hdisc
  subst htr
  exact race_free Excl.init hv hab hconf

/-- the obligation re-checked against /repo's current source on every run: every regenerated lock
    skeleton is accepted by the checker (evaluated by the kernel) -/
theorem C15_code_disciplined : Generated.Locks.funcs.all rootOk = true := by decide +kernel

/-- C15 for the current source -/
theorem C15_race_free (Q : Thread → List Ev) (hQ : Program Generated.Locks.funcs Q)
    (tr : List (Thread × Ev)) (hrun : Run (fun _ => []) Q tr)
    {pre mid post : List (Thread × Ev)} {a b : Thread} {l : Lock} {wa wb : Bool}
    (htr : tr = pre ++ (a, .need l wa) :: (mid ++ (b, .need l wb) :: post))
    (hab : a ≠ b) (hconf : wa = true ∨ wb = true) :
    ∃ m1 m2 m3 wr wq, mid = m1 ++ (a, .rel l wr) :: (m2 ++ (b, .acq l wq) :: m3) :=
  C15_race_free_of_checked _ C15_code_disciplined Q hQ tr hrun htr hab hconf

/-- the checker is sound for every statement, lockset and path (the lemma the theorem stands on) -/
theorem C15_checker_sound {s : Stmt} {p : List Ev} {o : Out} (hx : Exec s p o) {L : LS} {r : Res}
    (h : check s L = some r) : ∃ L', LS.run L p = some L' ∧ r.get o = some L' := check_sound hx h

/-! ### non-vacuity and witnesses -/

/-- a disciplined monitor method: lock, touch, unlock (with an early return under `defer`) -/
def goodRoot : Stmt :=
  .seq (.ev (.acq 0 true)) (.scope (.seq (.alt .ret .skip) (.ev (.need 0 true))) (.ev (.rel 0 true)))

/-- an undisciplined one: the access happens before the lock is taken (the pin's shuffle of the
    shared random generator, the lock-free iteration of the registry, the lazy getters) -/
def badRoot : Stmt := .seq (.ev (.need 0 true)) (.seq (.ev (.acq 0 true)) (.ev (.rel 0 true)))

example : rootOk goodRoot = true := by decide
example : rootOk badRoot = false := by decide

/-- the hypotheses of the theorem are satisfiable: two goroutines, each calling the good root
    once, and a real interleaving in which both accesses occur -/
example : ∃ Q tr, Program [goodRoot] Q ∧ Run (fun _ => []) Q tr ∧
    tr = [(0, .acq 0 true)] ++ (0, .need 0 true) :: ([(0, .rel 0 true), (1, .acq 0 true)] ++ (1, .need 0 true) :: []) := by
  let path : List Ev := [.acq 0 true, .need 0 true, .rel 0 true]
  refine ⟨fun t => if t = 0 ∨ t = 1 then path else [], _, ?_, ?_, rfl⟩
  · intro t
    have hpath : RootPath goodRoot path := by
      left
      exact Exec.seqN (Exec.ev _) (Exec.scopeN (Exec.seqN (Exec.altR Exec.skip) (Exec.ev _)) (Exec.ev _))
    by_cases h : t = 0 ∨ t = 1
    · exact ⟨[path], by simp [h], by intro p hp; simp at hp; subst hp; exact ⟨goodRoot, by simp, hpath⟩⟩
    · exact ⟨[], by simp [h], by simp⟩
  · have c0 : ∀ (H : Held) (t : Thread), (∀ t', t' ≠ t → H t' = []) → ∀ l w, compat H t l w := by
      intro H t h l w t' ht'; rw [h t' ht']; simp
    refine Run.cons (t := 0) (e := .acq 0 true) (rest := [.need 0 true, .rel 0 true]) (by simp [path]) ?_ ?_
    · intro l w _; exact c0 _ 0 (by intro t' _; rfl) l w
    refine Run.cons (t := 0) (e := .need 0 true) (rest := [.rel 0 true]) (by simp) (by intro l w h; cases h) ?_
    refine Run.cons (t := 0) (e := .rel 0 true) (rest := []) (by simp) (by intro l w h; cases h) ?_
    refine Run.cons (t := 1) (e := .acq 0 true) (rest := [.need 0 true, .rel 0 true]) (by simp [path]) ?_ ?_
    · intro l w _ t' ht'
      by_cases h0 : t' = 0
      · subst h0; simp [Held.set, LS.step, LS.holds, LS.insert, LS.covers]
      · simp [Held.set, h0]
    refine Run.cons (t := 1) (e := .need 0 true) (rest := [.rel 0 true]) (by simp) (by intro l w h; cases h) ?_
    exact Run.nil

/-- without the discipline the race exists: two goroutines calling the bad root can perform their
    writes back to back, with no release/acquire between them -/
theorem C15_undisciplined_races : ∃ Q tr, Program [badRoot] Q ∧ Run (fun _ => []) Q tr ∧
    tr = [] ++ (0, .need 0 true) :: ([] ++ (1, .need 0 true) :: []) := by
  let path : List Ev := [.need 0 true, .acq 0 true, .rel 0 true]
  refine ⟨fun t => if t = 0 ∨ t = 1 then path else [], _, ?_, ?_, rfl⟩
  · intro t
    have hpath : RootPath badRoot path := by
      left
      exact Exec.seqN (Exec.ev _) (Exec.seqN (Exec.ev _) (Exec.ev _))
    by_cases h : t = 0 ∨ t = 1
    · exact ⟨[path], by simp [h], by intro p hp; simp at hp; subst hp; exact ⟨badRoot, by simp, hpath⟩⟩
    · exact ⟨[], by simp [h], by simp⟩
  · refine Run.cons (t := 0) (e := .need 0 true) (rest := [.acq 0 true, .rel 0 true]) (by simp [path]) (by intro l w h; cases h) ?_
    refine Run.cons (t := 1) (e := .need 0 true) (rest := [.acq 0 true, .rel 0 true]) (by simp [path]) (by intro l w h; cases h) ?_
    exact Run.nil

end FsDb.Properties.C15
