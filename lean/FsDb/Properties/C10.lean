import FsDb.Model.Copy
import FsDb.Properties.C11
/-!
# C10 — A write that fails or is aborted leaves no trace; no-space continuation is exact

Proved here: the continuation algebra (`FsDb/Model/Copy.lean`) and the stream laws it shares with
C11.  That an error leaves no trace follows from the order of `store.Set` (content, content record,
then the version — `Sys.set` in the refinement adds the version only in its last step; a failing
write is an operation that does not happen) and is exercised by fault injection on the real code:
source reader errors and context cancellation at every chunk boundary ±1 through the gRPC client,
reader errors and ENOSPC (part / all-or-nothing) on every subset of 2–3 roots inline.
-/
namespace FsDb.C10
open FsDb.Copy

/-- the source handed to the next attempt is exactly the source of this attempt -/
theorem attempt_preserves (chunk cap : Nat) (part : Bool) (src src' file : List Nat)
    (h : attempt false chunk cap part src = (file, some src')) : src' = src := by
  unfold attempt at h
  simp only [Bool.false_eq_true, if_false] at h
  split at h
  · cases h
  · simp only [Prod.mk.injEq, Option.some.injEq] at h
    rw [← h.2]
    exact List.take_append_drop _ _

theorem attempt_success (rw : Bool) (chunk cap : Nat) (part : Bool) (src file : List Nat)
    (h : attempt rw chunk cap part src = (file, none)) : file = src := by
  unfold attempt at h
  split at h
  · rename_i hle
    simp only [Prod.mk.injEq, and_true] at h
    rw [← h]
    simp [accepted, hle]
  · cases h

/-- **Exact continuation.**  With the repaired replay rule, for every content, every chunk size,
    every list of root capacities tried in turn, partial or all-or-nothing failures: if the write
    succeeds at all, the stored bytes equal the source stream exactly. -/
theorem C10_continuation_exact (chunk : Nat) (part : Bool) (src : List Nat) (caps : List Nat) (file : List Nat)
    (h : store false chunk part src caps = some file) : file = src := by
  induction caps generalizing src with
  | nil => simp [store] at h
  | cons cap caps ih =>
    unfold store at h
    split at h
    · rename_i f hf
      cases h
      exact attempt_success false chunk cap part src _ hf
    · rename_i f src' hf
      have := attempt_preserves chunk cap part src src' f hf
      subst this
      exact ih _ h

/-- the write succeeds iff one of the roots tried can take the whole content -/
theorem C10_success_iff (chunk : Nat) (part : Bool) (src : List Nat) (caps : List Nat) :
    (store false chunk part src caps).isSome = caps.any (fun cap => decide (src.length ≤ cap)) := by
  induction caps generalizing src with
  | nil => rfl
  | cons cap caps ih =>
    unfold store
    by_cases hle : src.length ≤ cap
    · simp [attempt, hle]
    · have : attempt false chunk cap part src = ((src.take (accepted chunk cap part src.length)),
          some (src.take (accepted chunk cap part src.length) ++ src.drop (accepted chunk cap part src.length))) := by
        simp [attempt, hle]
      rw [this]
      simp only [List.take_append_drop, List.any_cons, hle, decide_false, Bool.false_or]
      exact ih src

/-- the pin's rule (replay the whole failed chunk): a partial write is duplicated.  100 bytes in
    chunks of 32, the first root takes 50: the stored content has 118 bytes.  A test of the model;
    the check replays it on the real code with an injected part ENOSPC. -/
theorem C10_duplicate_witness :
    (store true 32 true (List.range 100) [50, 1000]).map List.length = some 118 ∧
    (store false 32 true (List.range 100) [50, 1000]) = some (List.range 100) := by decide

/-- a success is complete for every chunking of the gRPC stream too (C11_chunk_roundtrip) -/
theorem C10_stream_complete (cs : Nat) (hcs : 0 < cs) (ps : List (List Nat)) :
    Wire.readAll (C11.writeAll cs {} ps).close = ps.flatten := (C11.C11_chunk_roundtrip cs hcs ps).1

example : store false 32 false (List.range 100) [50, 70, 1000] = some (List.range 100) := by decide

end FsDb.C10
