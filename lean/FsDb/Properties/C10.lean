import FsDb.Model.Copy
import FsDb.Properties.C11
import FsDb.Proofs.Refine
/-!
# C10 — A write that fails or is aborted leaves no trace; no-space continuation is exact

Proved here: the continuation algebra (`FsDb/Model/Copy.lean`), the stream laws it shares with
C11, and `C10_failed_write_no_trace`: a `store.Set` that fails at ANY of its stages (empty key,
no directory, content copy — reader error, cancellation, no space —, fileContent record, version
record) leaves a state in which every reader of every level reads exactly what it read before, now
and after every later history (the refinement relation to the SAME specification state survives).
On the real code the stages are forced by fault injection:
source reader errors and context cancellation at every chunk boundary ±1 through the gRPC client,
reader errors and ENOSPC (part / all-or-nothing) on every subset of 2–3 roots inline.
-/
namespace FsDb.C10
open FsDb.Copy

/-- the source handed to the next attempt is exactly the source of this attempt -/
theorem attempt_preserves (chunk cap : Nat) (part : Bool) (src src' file : List Nat)
    (h : attempt false chunk cap part src = (file, some src')) : src' = src := by
  unfold attempt at h
  simp only [Bool.false_eq_true, if_false] at h
  split at h
  · cases h
  · simp only [Prod.mk.injEq, Option.some.injEq] at h
    rw [← h.2]
    exact List.take_append_drop _ _

theorem attempt_success (rw : Bool) (chunk cap : Nat) (part : Bool) (src file : List Nat)
    (h : attempt rw chunk cap part src = (file, none)) : file = src := by
  unfold attempt at h
  split at h
  · rename_i hle
    simp only [Prod.mk.injEq, and_true] at h
    rw [← h]
    simp [accepted, hle]
  · cases h

/-- **Exact continuation.**  With the repaired replay rule, for every content, every chunk size,
    every list of root capacities tried in turn, partial or all-or-nothing failures: if the write
    succeeds at all, the stored bytes equal the source stream exactly. -/
theorem C10_continuation_exact (chunk : Nat) (part : Bool) (src : List Nat) (caps : List Nat) (file : List Nat)
    (h : store false chunk part src caps = some file) : file = src := by
  induction caps generalizing src with
  | nil => simp [store] at h
  | cons cap caps ih =>
    unfold store at h
    split at h
    · rename_i f hf
      cases h
      exact attempt_success false chunk cap part src _ hf
    · rename_i f src' hf
      have := attempt_preserves chunk cap part src src' f hf
      subst this
      exact ih _ h

/-- the write succeeds iff one of the roots tried can take the whole content -/
theorem C10_success_iff (chunk : Nat) (part : Bool) (src : List Nat) (caps : List Nat) :
    (store false chunk part src caps).isSome = caps.any (fun cap => decide (src.length ≤ cap)) := by
  induction caps generalizing src with
  | nil => rfl
  | cons cap caps ih =>
    unfold store
    by_cases hle : src.length ≤ cap
    · simp [attempt, hle]
    · have : attempt false chunk cap part src = ((src.take (accepted chunk cap part src.length)),
          some (src.take (accepted chunk cap part src.length) ++ src.drop (accepted chunk cap part src.length))) := by
        simp [attempt, hle]
      rw [this]
      simp only [List.take_append_drop, List.any_cons, hle, decide_false, Bool.false_or]
      exact ih src

/-- the pin's rule (replay the whole failed chunk): a partial write is duplicated.  100 bytes in
    chunks of 32, the first root takes 50: the stored content has 118 bytes.  A test of the model;
    the check replays it on the real code with an injected part ENOSPC. -/
theorem C10_duplicate_witness :
    (store true 32 true (List.range 100) [50, 1000]).map List.length = some 118 ∧
    (store false 32 true (List.range 100) [50, 1000]) = some (List.range 100) := by decide

/-- a success is complete for every chunking of the gRPC stream too (C11_chunk_roundtrip) -/
theorem C10_stream_complete (cs : Nat) (hcs : 0 < cs) (ps : List (List Nat)) :
    Wire.readAll (C11.writeAll cs {} ps).close = ps.flatten := (C11.C11_chunk_roundtrip cs hcs ps).1

example : store false 32 false (List.range 100) [50, 70, 1000] = some (List.range 100) := by decide


/-! ### a failed write leaves no trace -/
open FsDb Sys Spec

/-- how far a failing `store.Set` got before the error (`internal/usecase/store/set.go`) -/
inductive FailStage
  | early           -- empty key, `dir.Get`, the content copy: nothing persistent is recorded
                    -- (a partial content file may lie in a storage root under a fresh name)
  | contentRecord   -- `cfRepo.Store` failed: the content file exists under its fresh id, no record
  | versionRecord   -- `fRepo.Store` (`core.Store`) failed: content file + fileContent record exist
                    -- under the fresh id, no version was written or linked
deriving DecidableEq, Repr

/-- the state a failing Set leaves behind; only the last stage leaves something the model can see:
    a content record under an id no version refers to -/
def setFailed (c : Sys) (stage : FailStage) (content : Nat) : Sys :=
  match stage with
  | .early | .contentRecord => c
  | .versionRecord => { c with nextCid := c.nextCid + 1, cfs := c.cfs ++ [(c.nextCid, content)] }

theorem setFailed_inv {c : Sys} (i : Inv c) (stage : FailStage) (content : Nat) : Inv (setFailed c stage content) := by
  cases stage with
  | early => exact i
  | contentRecord => exact i
  | versionRecord =>
    have hold : ∀ cid, cid < c.nextCid →
        (setFailed c .versionRecord content).hasContent cid = c.hasContent cid := by
      intro cid hc
      exact hasContent_append_old [(c.nextCid, content)] (by intro p hp e; simp at hp; subst hp; simp at e; omega)
    refine ⟨i.mainSorted, i.txSorted, i.allSorted, i.allMem, ?_, i.cidUnique, i.regIds, i.regMain, i.regSorted,
      i.regBound, i.txsReg, i.ownAfter, i.beginNotVer, ?_, ?_, i.pendDead, ?_, i.domAll, i.domNodup, i.tagMain, i.tagTx⟩
    · intro k v hv; obtain ⟨a, b, c', d⟩ := i.bounds k v hv; exact ⟨a, b, Nat.lt_succ_of_lt c', d⟩
    · intro k v hv
      have hb := (i.bounds k v hv).2.2.1
      rw [hold v.cid hb]; exact i.stor k v hv
    · intro p hp
      show p.1 < c.nextCid + 1
      have : p ∈ c.cfs ++ [(c.nextCid, content)] := hp
      rcases List.mem_append.mp this with h | h
      · exact Nat.lt_succ_of_lt (i.cfsBound p h)
      · simp at h; subst h; exact Nat.lt_succ_self _
    · intro job hj v hv; exact Nat.lt_succ_of_lt (i.pendBound job hj v hv)

/-- **A failed write leaves no trace.**  Whatever stage the write reached: the refinement relation
    to the UNCHANGED specification state holds afterwards.  Hence (`C10_failed_write_reads`) every
    read by anybody returns what it returned before, and (`C10_failed_write_later`) every later
    history answers what it would have answered had the failed write never been attempted. -/
theorem C10_failed_write_no_trace {c : Sys} {s : State} (h : R c s) (stage : FailStage) (content : Nat) :
    R (setFailed c stage content) s := by
  have i' := setFailed_inv h.inv stage content
  cases stage with
  | early => exact h
  | contentRecord => exact h
  | versionRecord => exact h.transfer i' rfl rfl rfl rfl rfl

theorem C10_failed_write_reads {c : Sys} {s : State} (h : R c s) (stage : FailStage) (content : Nat) (t : Nat) (k : Key) :
    (setFailed c stage content).get t k = c.get t k ∧ (setFailed c stage content).getKeys t = c.getKeys t := by
  have h' := C10_failed_write_no_trace h stage content
  exact ⟨by rw [get_eq h', get_eq h], by rw [getKeys_eq h', getKeys_eq h]⟩

theorem C10_failed_write_later {c : Sys} {s : State} (h : R c s) (stage : FailStage) (content : Nat)
    (ops : List Op) (hops : ∀ op ∈ ops, op.core = true) :
    ((setFailed c stage content).run ops).2 = (Spec.run s ops).2 :=
  (Refine.run (C10_failed_write_no_trace h stage content) ops hops).1

/-- … in particular in every reachable state, compared with the run without the failed write -/
theorem C10_failed_write_invisible (pre post : List Op) (hpre : ∀ op ∈ pre, op.core = true)
    (hpost : ∀ op ∈ post, op.core = true) (stage : FailStage) (content : Nat) :
    ((setFailed (({} : Sys).run pre).1 stage content).run post).2 = ((({} : Sys).run pre).1.run post).2 := by
  have hR := (Refine.run R.init pre hpre).2
  rw [C10_failed_write_later hR stage content post hpost, (Refine.run hR post hpost).1]

/-- non-vacuity: a write that failed after its content record was stored; the key keeps its value -/
example : ((setFailed (({} : Sys).run [.set 0 "k" 1]).1 .versionRecord 7).run [.get 0 "k", .keys 0, .set 0 "k" 2, .get 0 "k"]).2
    = [.val 1, .keys ["k"], .ok, .val 2] := by decide

end FsDb.C10
