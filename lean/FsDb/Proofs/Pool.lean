import FsDb.Model.Pool
/-! Invariants of the worker-pool model: conservation of jobs, worker accounting, flusher coverage,
    what holds while stopped; progress of Stop; nothing is stuck while running. -/
namespace FsDb.Pool

structure Inv (s : St) : Prop where
  cons : ∀ j, s.accepted.count j = (places s).count j
  workers : s.runM = true → s.idleW + s.execing.length + s.exitedW = s.nw
  flusher : s.lazyM = true ↔ s.fpc ≠ .off
  covers : s.running = true → s.list ≠ [] → s.lazyM = true
  runOf : s.running = true → s.runM = true ∧ s.stop = .idle
  stopOf : s.stop ≠ .idle → s.running = false ∧ s.runM = true
  waited : s.stop = .waitedSend → s.sel = [] ∧ s.lazy = [] ∧ s.fpc = .off
  stopped : s.runM = false → s.idleW = 0 ∧ s.execing = [] ∧ s.sel = [] ∧ s.lazy = [] ∧ s.fpc = .off ∧
              s.ch = [] ∧ s.list = []

theorem Inv.init (nw : Nat) : Inv (init nw) := by
  refine ⟨fun j => rfl, ?_, ?_, ?_, ?_, ?_, ?_, ?_⟩ <;> simp [Pool.init]

theorem count_erase_mem {l : List Nat} {a : Nat} (h : a ∈ l) (j : Nat) :
    (l.erase a).count j + (if j = a then 1 else 0) = l.count j := by
  rw [List.count_erase]
  have := List.count_pos_iff.mpr h
  by_cases e : j = a
  · subst e; simp; omega
  · have : (a == j) = false := by simp [Ne.symm e]
    simp [e, this]

/-- moving one occurrence of `a` out of `l`: the count arithmetic `omega` needs -/
theorem erase_count {l : List Nat} {a : Nat} (h : a ∈ l) (k : Nat) :
    ∃ d, d = (if k = a then 1 else 0) ∧ (l.erase a).count k + d = l.count k ∧ (k = a → d = 1) ∧ (k ≠ a → d = 0) := by
  refine ⟨_, rfl, count_erase_mem h k, ?_, ?_⟩
  · intro e; simp [e]
  · intro e; simp [e]

theorem length_erase_mem {l : List Nat} {a : Nat} (h : a ∈ l) : (l.erase a).length + 1 = l.length := by
  rw [List.length_erase_of_mem h]
  have := List.length_pos_of_mem h
  omega

theorem hand_count_off (j : Nat) : (hand .off).count j = 0 := rfl
theorem hand_count_loop (j : Nat) : (hand .loop).count j = 0 := rfl

/-- every enabled action preserves the invariant -/
theorem Inv.step {s s' : St} {a : Act} (h : Inv s) (hs : step s a = some s') : Inv s' := by
  have hc := h.cons
  cases a with
  | run =>
    simp only [Pool.step] at hs
    split at hs
    · cases hs; exact h
    · rename_i hrm
      have hrm' : s.runM = false := by simpa using hrm
      obtain ⟨e1, e2, e3, e4, e5, e6, e7⟩ := h.stopped hrm'
      have hst : s.stop = .idle := by
        cases hst : s.stop <;> first | rfl | (have := (h.stopOf (by rw [hst]; simp)).2; rw [hrm'] at this; cases this)
      cases hs
      refine ⟨?_, ?_, h.flusher, ?_, ?_, ?_, ?_, ?_⟩
      · intro j; have := hc j; simp only [places] at this ⊢; rw [e6] at this; exact this
      · intro _; simp [e2]
      · intro _ hl; rw [e7] at hl; exact absurd rfl hl
      · intro _; exact ⟨rfl, hst⟩
      · intro hne; exact absurd hst hne
      · intro hw; rw [hst] at hw; cases hw
      · intro hf; cases hf
  | send j =>
    simp only [Pool.step] at hs
    split at hs
    · rename_i hr
      cases hs
      have hro := h.runOf hr
      refine ⟨?_, h.workers, h.flusher, h.covers, h.runOf, h.stopOf, ?_, ?_⟩
      · intro k; have := hc k; simp only [places, List.count_append, List.count_cons] at this ⊢; omega
      · intro hw; rw [hro.2] at hw; cases hw
      · intro hf; rw [hro.1] at hf; cases hf
    · cases hs; exact h
  | selPush j =>
    simp only [Pool.step] at hs
    split at hs
    · rename_i hg
      cases hs
      refine ⟨?_, h.workers, h.flusher, h.covers, h.runOf, h.stopOf, ?_, ?_⟩
      · intro k
        have := hc k; obtain ⟨d, _, he, hd1, hd0⟩ := erase_count hg.1 k
        simp only [places, List.count_append, List.count_cons, List.count_nil] at this ⊢
        by_cases e : k = j
        · have := hd1 e; subst e; simp only [beq_self_eq_true, if_true] at *; omega
        · have := hd0 e; have e' : (j == k) = false := by simp [Ne.symm e]
          simp only [e', Bool.false_eq_true, if_false] at *; omega
      · intro hw; have := (h.waited hw).1; rw [this] at hg; exact absurd hg.1 (by simp)
      · intro hf; have := (h.stopped hf).2.2.1; rw [this] at hg; exact absurd hg.1 (by simp)
    · cases hs
  | selDone j =>
    simp only [Pool.step] at hs
    split at hs
    · rename_i hg
      cases hs
      refine ⟨?_, h.workers, h.flusher, h.covers, h.runOf, h.stopOf, ?_, ?_⟩
      · intro k
        have := hc k; obtain ⟨d, _, he, hd1, hd0⟩ := erase_count hg.1 k
        simp only [places, List.count_append, List.count_cons, List.count_nil] at this ⊢
        by_cases e : k = j
        · have := hd1 e; subst e; simp only [beq_self_eq_true, if_true] at *; omega
        · have := hd0 e; have e' : (j == k) = false := by simp [Ne.symm e]
          simp only [e', Bool.false_eq_true, if_false] at *; omega
      · intro hw; have := (h.waited hw).1; rw [this] at hg; exact absurd hg.1 (by simp)
      · intro hf; have := (h.stopped hf).2.2.1; rw [this] at hg; exact absurd hg.1 (by simp)
    · cases hs
  | selTimeout j =>
    simp only [Pool.step] at hs
    split at hs
    · rename_i hg
      cases hs
      refine ⟨?_, h.workers, h.flusher, h.covers, h.runOf, h.stopOf, ?_, ?_⟩
      · intro k
        have := hc k; obtain ⟨d, _, he, hd1, hd0⟩ := erase_count hg k
        simp only [places, List.count_append, List.count_cons, List.count_nil] at this ⊢
        by_cases e : k = j
        · have := hd1 e; subst e; simp only [beq_self_eq_true, if_true] at *; omega
        · have := hd0 e; have e' : (j == k) = false := by simp [Ne.symm e]
          simp only [e', Bool.false_eq_true, if_false] at *; omega
      · intro hw; have := (h.waited hw).1; rw [this] at hg; exact absurd hg (by simp)
      · intro hf; have := (h.stopped hf).2.2.1; rw [this] at hg; exact absurd hg (by simp)
    · cases hs
  | lazyPush j =>
    simp only [Pool.step] at hs
    split at hs
    · rename_i hg
      have hcount : ∀ k, (s.lazy.erase j).count k + (j :: s.list).count k = s.lazy.count k + s.list.count k := by
        intro k; obtain ⟨d, _, he, hd1, hd0⟩ := erase_count hg k
        simp only [List.count_cons]
        by_cases e : k = j
        · have := hd1 e; subst e; simp only [beq_self_eq_true, if_true]; omega
        · have := hd0 e; have e' : (j == k) = false := by simp [Ne.symm e]
          simp only [e', Bool.false_eq_true, if_false]; omega
      have hnw : s.stop ≠ .waitedSend := by
        intro hw; have := (h.waited hw).2.1; rw [this] at hg; exact absurd hg (by simp)
      have hrm : s.runM = true := by
        cases hr : s.runM with
        | true => rfl
        | false => have := (h.stopped hr).2.2.2.1; rw [this] at hg; exact absurd hg (by simp)
      split at hs
      · rename_i hl
        cases hs
        refine ⟨?_, h.workers, h.flusher, ?_, h.runOf, h.stopOf, ?_, ?_⟩
        · intro k; have := hc k; have h2 := hcount k
          simp only [places, List.count_append] at this ⊢; omega
        · intro _ _; exact hl
        · intro hw; exact absurd hw hnw
        · intro hf; rw [hrm] at hf; cases hf
      · rename_i hl
        have hoff : s.fpc = .off := by
          cases hf : s.fpc with
          | off => rfl
          | loop => exact absurd (h.flusher.mpr (by rw [hf]; simp)) hl
          | sending x => exact absurd (h.flusher.mpr (by rw [hf]; simp)) hl
        cases hs
        refine ⟨?_, h.workers, ?_, ?_, h.runOf, h.stopOf, ?_, ?_⟩
        · intro k; have := hc k; have h2 := hcount k
          simp only [places, List.count_append, hoff, hand_count_off, hand_count_loop] at this ⊢; omega
        · simp
        · intro _ _; rfl
        · intro hw; exact absurd hw hnw
        · intro hf; rw [hrm] at hf; cases hf
    · cases hs
  | flush =>
    simp only [Pool.step] at hs
    cases hf : s.fpc with
    | off => rw [hf] at hs; cases hs
    | loop =>
      rw [hf] at hs
      simp only at hs
      cases hl : s.list with
      | nil =>
        rw [hl] at hs; cases hs
        refine ⟨?_, h.workers, by simp, ?_, h.runOf, h.stopOf, ?_, ?_⟩
        · intro k; have := hc k
          simp only [places, List.count_append, hf, hl, hand_count_off, hand_count_loop] at this ⊢; exact this
        · intro _ hne; exact absurd rfl hne
        · intro hw; have := (h.waited hw).2.2; rw [hf] at this; cases this
        · intro hr; have := (h.stopped hr).2.2.2.2.1; rw [hf] at this; cases this
      | cons j rest =>
        rw [hl] at hs; cases hs
        have hlm : s.lazyM = true := h.flusher.mpr (by rw [hf]; simp)
        refine ⟨?_, h.workers, ?_, ?_, h.runOf, h.stopOf, ?_, ?_⟩
        · intro k; have := hc k
          simp only [places, List.count_append, hf, hl, hand, List.count_cons, List.count_nil] at this ⊢; omega
        · simp [hlm]
        · intro _ _; exact hlm
        · intro hw; have := (h.waited hw).2.2; rw [hf] at this; cases this
        · intro hr; have := (h.stopped hr).2.2.2.2.1; rw [hf] at this; cases this
    | sending j =>
      rw [hf] at hs
      simp only at hs
      split at hs
      · cases hs
        have hlm : s.lazyM = true := h.flusher.mpr (by rw [hf]; simp)
        refine ⟨?_, h.workers, ?_, h.covers, h.runOf, h.stopOf, ?_, ?_⟩
        · intro k; have := hc k
          simp only [places, List.count_append, hf, hand, List.count_cons, List.count_nil] at this ⊢; omega
        · simp [hlm]
        · intro hw; have := (h.waited hw).2.2; rw [hf] at this; cases this
        · intro hr; have := (h.stopped hr).2.2.2.2.1; rw [hf] at this; cases this
      · cases hs
  | flushDone =>
    simp only [Pool.step] at hs
    cases hf : s.fpc with
    | off => rw [hf] at hs; cases hs
    | loop => rw [hf] at hs; cases hs
    | sending j =>
      rw [hf] at hs
      simp only at hs
      split at hs
      · rename_i hnr
        have hnr' : s.running = false := by simpa using hnr
        cases hs
        refine ⟨?_, h.workers, by simp, ?_, ?_, h.stopOf, ?_, ?_⟩
        · intro k; have := hc k
          simp only [places, List.count_append, hf, hand, List.count_cons, List.count_nil] at this ⊢; omega
        · intro hr; rw [hnr'] at hr; cases hr
        · intro hr; rw [hnr'] at hr; cases hr
        · intro hw; have := (h.waited hw).2.2; rw [hf] at this; cases this
        · intro hr; have := (h.stopped hr).2.2.2.2.1; rw [hf] at this; cases this
      · cases hs
  | take =>
    simp only [Pool.step] at hs
    cases hch : s.ch with
    | nil => rw [hch] at hs; cases hs
    | cons j rest =>
      rw [hch] at hs
      simp only at hs
      split at hs
      · rename_i hidle
        cases hs
        have hrm : s.runM = true := by
          cases hr : s.runM with
          | true => rfl
          | false => have := (h.stopped hr).1; omega
        refine ⟨?_, ?_, h.flusher, h.covers, h.runOf, h.stopOf, h.waited, ?_⟩
        · intro k; have := hc k
          simp only [places, List.count_append, hch, List.count_cons] at this ⊢; omega
        · intro _; have := h.workers hrm; simp only [List.length_cons]; omega
        · intro hf; rw [hrm] at hf; cases hf
      · cases hs
  | finish j =>
    simp only [Pool.step] at hs
    split at hs
    · rename_i hg
      cases hs
      have hrm : s.runM = true := by
        cases hr : s.runM with
        | true => rfl
        | false => have := (h.stopped hr).2.1; rw [this] at hg; exact absurd hg (by simp)
      refine ⟨?_, ?_, h.flusher, h.covers, h.runOf, h.stopOf, h.waited, ?_⟩
      · intro k
        have := hc k; obtain ⟨d, _, he, hd1, hd0⟩ := erase_count hg k
        simp only [places, List.count_append, List.count_cons, List.count_nil] at this ⊢
        by_cases e : k = j
        · have := hd1 e; subst e; simp only [beq_self_eq_true, if_true] at *; omega
        · have := hd0 e; have e' : (j == k) = false := by simp [Ne.symm e]
          simp only [e', Bool.false_eq_true, if_false] at *; omega
      · intro _; have h1 := h.workers hrm; have h2 := length_erase_mem hg
        show s.idleW + 1 + (s.execing.erase j).length + s.exitedW = s.nw
        omega
      · intro hf; rw [hrm] at hf; cases hf
    · cases hs
  | workerExit =>
    simp only [Pool.step] at hs
    split at hs
    · rename_i hg
      cases hs
      have hrm : s.runM = true := by
        cases hr : s.runM with
        | true => rfl
        | false => have := (h.stopped hr).1; omega
      refine ⟨hc, ?_, h.flusher, h.covers, h.runOf, h.stopOf, h.waited, ?_⟩
      · intro _; have h1 := h.workers hrm
        show s.idleW - 1 + s.execing.length + (s.exitedW + 1) = s.nw
        omega
      · intro hf; rw [hrm] at hf; cases hf
    · cases hs
  | stop =>
    simp only [Pool.step] at hs
    cases hst : s.stop with
    | idle =>
      rw [hst] at hs
      simp only at hs
      split at hs
      · rename_i hg
        cases hs
        refine ⟨hc, h.workers, h.flusher, ?_, ?_, ?_, ?_, ?_⟩
        · intro hr; cases hr
        · intro hr; cases hr
        · intro _; exact ⟨rfl, hg.1⟩
        · intro hw; cases hw
        · intro hf; rw [hg.1] at hf; cases hf
      · cases hs
    | cancelled =>
      rw [hst] at hs
      simp only at hs
      have hso := h.stopOf (by rw [hst]; simp)
      split at hs
      · rename_i hg
        cases hs
        refine ⟨hc, h.workers, h.flusher, h.covers, ?_, ?_, ?_, h.stopped⟩
        · intro hr; rw [hso.1] at hr; cases hr
        · intro _; exact hso
        · intro _; exact hg
      · cases hs
    | waitedSend =>
      rw [hst] at hs
      simp only at hs
      have hso := h.stopOf (by rw [hst]; simp)
      obtain ⟨w1, w2, w3⟩ := h.waited hst
      split at hs
      · rename_i hg
        cases hs
        refine ⟨?_, ?_, h.flusher, ?_, ?_, ?_, ?_, ?_⟩
        · intro k; have := hc k
          simp only [places, List.count_append, List.count_nil] at this ⊢; omega
        · intro hr; cases hr
        · intro hr; rw [hso.1] at hr; cases hr
        · intro hr; rw [hso.1] at hr; cases hr
        · intro hne; exact absurd rfl hne
        · intro hw; cases hw
        · intro _; exact ⟨hg.1, hg.2, w1, w2, w3, rfl, rfl⟩
      · cases hs

theorem Inv.run {s : St} (h : Inv s) (acts : List Act) : Inv (Pool.run s acts) := by
  induction acts generalizing s with
  | nil => exact h
  | cons a acts ih =>
    simp only [Pool.run]
    cases hs : Pool.step s a with
    | none => exact ih h
    | some s' => exact ih (h.step hs)

end FsDb.Pool

namespace FsDb.Pool

structure Inv2 (s : St) : Prop where
  capEq : s.cap = 2 * s.nw
  noExit : s.running = true → s.exitedW = 0

theorem Inv2.init (nw : Nat) : Inv2 (init nw) := ⟨rfl, fun h => by cases h⟩

theorem Inv2.step {s s' : St} {a : Act} (h : Inv2 s) (hs : Pool.step s a = some s') : Inv2 s' := by
  have c := h.capEq
  have n := h.noExit
  cases a <;> simp only [Pool.step] at hs
  case run => split at hs <;> cases hs <;> first | exact h | exact ⟨c, fun _ => rfl⟩
  case send j => split at hs <;> cases hs <;> exact ⟨c, n⟩
  case selPush j => split at hs <;> cases hs; exact ⟨c, n⟩
  case selDone j => split at hs <;> cases hs; exact ⟨c, n⟩
  case selTimeout j => split at hs <;> cases hs; exact ⟨c, n⟩
  case lazyPush j =>
    split at hs
    · split at hs <;> cases hs <;> exact ⟨c, n⟩
    · cases hs
  case flush =>
    cases hf : s.fpc with
    | off => rw [hf] at hs; cases hs
    | loop =>
      rw [hf] at hs; simp only at hs
      cases hl : s.list <;> rw [hl] at hs <;> cases hs <;> exact ⟨c, n⟩
    | sending j => rw [hf] at hs; simp only at hs; split at hs <;> cases hs; exact ⟨c, n⟩
  case flushDone =>
    cases hf : s.fpc with
    | off => rw [hf] at hs; cases hs
    | loop => rw [hf] at hs; cases hs
    | sending j => rw [hf] at hs; simp only at hs; split at hs <;> cases hs; exact ⟨c, n⟩
  case take =>
    cases hch : s.ch with
    | nil => rw [hch] at hs; cases hs
    | cons j rest => rw [hch] at hs; simp only at hs; split at hs <;> cases hs; exact ⟨c, n⟩
  case finish j => split at hs <;> cases hs; exact ⟨c, n⟩
  case workerExit =>
    split at hs
    · rename_i hg; cases hs
      exact ⟨c, fun hr => by have : s.running = false := by simpa using hg.2
                             rw [this] at hr; cases hr⟩
    · cases hs
  case stop =>
    cases hst : s.stop with
    | idle => rw [hst] at hs; simp only at hs; split at hs <;> cases hs; exact ⟨c, fun hr => by cases hr⟩
    | cancelled => rw [hst] at hs; simp only at hs; split at hs <;> cases hs; exact ⟨c, n⟩
    | waitedSend => rw [hst] at hs; simp only at hs; split at hs <;> cases hs; exact ⟨c, n⟩

theorem Inv2.run {s : St} (h : Inv2 s) (acts : List Act) : Inv2 (Pool.run s acts) := by
  induction acts generalizing s with
  | nil => exact h
  | cons a acts ih =>
    simp only [Pool.run]
    cases hs : Pool.step s a with
    | none => exact ih h
    | some s' => exact ih (h.step hs)

end FsDb.Pool
