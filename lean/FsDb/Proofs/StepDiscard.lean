import FsDb.Proofs.StepWrite
/-! Discarding a transaction's store (rollback, failed commit, first half of a successful commit). -/
namespace FsDb
open Sys Spec

/-- unregister `t`, drop its store, unlink `removed` from the all-store, schedule `job` for deletion -/
def discardG (c : Sys) (t : Nat) (removed job : List Ver) : Sys :=
  { c with reg := c.reg.filter (·.id ≠ t),
           txs := fun t' => if t' = t then none else c.txs t',
           all := removeLinks c.all removed,
           pending := if job.isEmpty then c.pending else c.pending ++ [job] }

theorem mem_removeLinks {all : Store} {vs : List Ver} {k : Key} {u : Ver} :
    u ∈ removeLinks all vs k ↔ u ∈ all k ∧ ∀ v ∈ vs, v.cid ≠ u.cid := by
  simp [removeLinks, List.mem_filter]

theorem mem_of_filter {α} {p : α → Bool} {l : List α} {a : α} (h : a ∈ l.filter p) : a ∈ l :=
  (List.mem_filter.mp h).1

theorem pairwise_filter_of {α} {R : α → α → Prop} {l : List α} (h : l.Pairwise R) (p : α → Bool) :
    (l.filter p).Pairwise R := List.Pairwise.sublist List.filter_sublist h

/-- `removed` is exactly the content of the transaction's store -/
def IsStoreOf (st : Store) (removed : List Ver) : Prop := ∀ v, v ∈ removed ↔ ∃ k, v ∈ st k

theorem discard_live {c : Sys} (i : Inv c) {t : Nat} {st : Store} (hst : c.txs t = some st)
    {removed job : List Ver} (hr : IsStoreOf st removed) (k : Key) (u : Ver) :
    u ∈ (discardG c t removed job).all k ↔ Live (discardG c t removed job) k u := by
  have htm := (i.txsReg t st hst).1
  show u ∈ removeLinks c.all removed k ↔ _
  rw [mem_removeLinks]
  unfold Live
  show _ ↔ (u ∈ c.main k ∨ ∃ t' st', (if t' = t then none else c.txs t') = some st' ∧ u ∈ st' k)
  constructor
  · rintro ⟨hu, hne⟩
    rcases (i.allMem k u).mp hu with hm | ⟨t', st', hst', hu'⟩
    · exact Or.inl hm
    · by_cases htt : t' = t
      · subst htt
        rw [hst] at hst'; cases hst'
        exact absurd rfl (hne u ((hr u).mpr ⟨k, hu'⟩))
      · exact Or.inr ⟨t', st', by simp [htt, hst'], hu'⟩
  · rintro (hm | ⟨t', st', hst', hu'⟩)
    · refine ⟨i.main_sub_all hm, ?_⟩
      intro v hv he
      obtain ⟨k', hvk⟩ := (hr v).mp hv
      have := i.cidUnique k' k v u (i.tx_sub_all hst hvk) (i.main_sub_all hm) he
      subst this
      have h1 := i.tagTx t st hst k' v hvk
      have h2 := i.tagMain k v hm
      rw [h1] at h2; exact htm h2
    · by_cases htt : t' = t
      · simp [htt] at hst'
      · simp only [htt, if_false] at hst'
        refine ⟨i.tx_sub_all hst' hu', ?_⟩
        intro v hv he
        obtain ⟨k', hvk⟩ := (hr v).mp hv
        have := i.cidUnique k' k v u (i.tx_sub_all hst hvk) (i.tx_sub_all hst' hu') he
        subst this
        have h1 := i.tagTx t st hst k' v hvk
        have h2 := i.tagTx t' st' hst' k v hu'
        rw [h1] at h2; exact htt h2.symm

theorem discard_sub {c : Sys} {t : Nat} {removed job : List Ver} {k : Key} {u : Ver}
    (hu : u ∈ (discardG c t removed job).all k) : u ∈ c.all k :=
  (mem_removeLinks.mp hu).1

theorem discard_inv {c : Sys} (i : Inv c) {t : Nat} {st : Store} (hst : c.txs t = some st)
    {removed job : List Ver} (hr : IsStoreOf st removed) (hj : ∀ v ∈ job, v ∈ removed) :
    Inv (discardG c t removed job) := by
  have hsub : ∀ k u, u ∈ (discardG c t removed job).all k → u ∈ c.all k := fun k u => discard_sub
  have hremAll : ∀ v ∈ removed, ∃ k, v ∈ c.all k := by
    intro v hv; obtain ⟨k, hk⟩ := (hr v).mp hv; exact ⟨k, i.tx_sub_all hst hk⟩
  constructor
  · exact i.mainSorted
  · intro t' st' hst' k
    by_cases htt : t' = t
    · simp [discardG, htt] at hst'
    · simp only [discardG, htt, if_false] at hst'; exact i.txSorted t' st' hst' k
  · intro k; exact (i.allSorted k).filter _
  · exact discard_live i hst hr
  · intro k u hu; exact i.bounds k u (hsub k u hu)
  · intro k k' u u' hu hu' he; exact i.cidUnique k k' u u' (hsub k u hu) (hsub k' u' hu') he
  · exact pairwise_filter_of i.regIds _
  · intro r hr'; exact i.regMain r (mem_of_filter hr')
  · exact pairwise_filter_of i.regSorted _
  · intro r hr'; exact i.regBound r (mem_of_filter hr')
  · intro t' st' hst'
    by_cases htt : t' = t
    · simp [discardG, htt] at hst'
    · simp only [discardG, htt, if_false] at hst'
      obtain ⟨a, r, hr', hid⟩ := i.txsReg t' st' hst'
      refine ⟨a, r, ?_, hid⟩
      show r ∈ c.reg.filter _
      rw [List.mem_filter]; exact ⟨hr', by simp [hid, htt]⟩
  · intro r hr' st' hst' k u hu
    have hrm := mem_of_filter hr'
    by_cases htt : r.id = t
    · simp [discardG, htt] at hst'
    · simp only [discardG, htt, if_false] at hst'; exact i.ownAfter r hrm st' hst' k u hu
  · intro r hr' k u hu; exact i.beginNotVer r (mem_of_filter hr') k u (hsub k u hu)
  · intro k u hu; exact i.stor k u (hsub k u hu)
  · exact i.cfsBound
  · -- pendDead
    intro jb hjb v hv k w hw
    have hold : jb ∈ c.pending → w.cid ≠ v.cid := fun h => i.pendDead jb h v hv k w (hsub k w hw)
    show w.cid ≠ v.cid
    have hp : jb ∈ (if job.isEmpty then c.pending else c.pending ++ [job]) := hjb
    split at hp
    · exact hold hp
    · simp only [List.mem_append, List.mem_singleton] at hp
      rcases hp with hp | rfl
      · exact hold hp
      · exact fun e => (mem_removeLinks.mp hw).2 v (hj v hv) e.symm
  · -- pendBound
    intro jb hjb v hv
    have hp : jb ∈ (if job.isEmpty then c.pending else c.pending ++ [job]) := hjb
    split at hp
    · exact i.pendBound jb hp v hv
    · simp only [List.mem_append, List.mem_singleton] at hp
      rcases hp with hp | rfl
      · exact i.pendBound jb hp v hv
      · obtain ⟨k, hk⟩ := hremAll v (hj v hv); exact (i.bounds k v hk).2.2.1
  · intro k hne
    apply i.domAll
    intro hnil
    apply hne
    show removeLinks c.all removed k = []
    simp [removeLinks, hnil]
  · exact i.domNodup
  · exact i.tagMain
  · intro t' st' hst' k u hu
    by_cases htt : t' = t
    · simp [discardG, htt] at hst'
    · simp only [discardG, htt, if_false] at hst'; exact i.tagTx t' st' hst' k u hu

/-- unregistering a transaction that never wrote -/
theorem unregister_inv {c : Sys} (i : Inv c) (t : Nat) (hst : c.txs t = none) :
    Inv { c with reg := c.reg.filter (·.id ≠ t) } := by
  refine ⟨i.mainSorted, i.txSorted, i.allSorted, i.allMem, i.bounds, i.cidUnique, pairwise_filter_of i.regIds _,
    fun r hr => i.regMain r (mem_of_filter hr), pairwise_filter_of i.regSorted _,
    fun r hr => i.regBound r (mem_of_filter hr), ?_,
    fun r hr => i.ownAfter r (mem_of_filter hr),
    fun r hr => i.beginNotVer r (mem_of_filter hr), i.stor, i.cfsBound, i.pendDead, i.pendBound,
    i.domAll, i.domNodup, i.tagMain, i.tagTx⟩
  intro t' st' hst'
  obtain ⟨a, r, hr, hid⟩ := i.txsReg t' st' hst'
  refine ⟨a, r, ?_, hid⟩
  rw [List.mem_filter]
  refine ⟨hr, ?_⟩
  have : t' ≠ t := by intro e; subst e; rw [hst] at hst'; cases hst'
  simp [hid, this]

/-- the spec side: closing `t` filters the open list the same way -/
theorem close_reg {c : Sys} {s : State} {cl : List Nat} (h : Rx cl c s) (t : Nat) :
    (s.open_.filter (·.id ≠ t)).map (fun x => (x.id, x.level, x.beginStamp))
      = (c.reg.filter (·.id ≠ t)).map (fun r => (r.id, r.level, r.seq)) := by
  have := h.reg
  generalize s.open_ = o at this
  generalize c.reg = r at this
  induction o generalizing r with
  | nil => cases r with
    | nil => rfl
    | cons a r => simp at this
  | cons x o ih =>
    cases r with
    | nil => simp at this
    | cons a r =>
      simp only [List.map_cons, List.cons.injEq, Prod.mk.injEq] at this
      obtain ⟨⟨h1, h2, h3⟩, h4⟩ := this
      simp only [List.filter_cons]
      by_cases hx : x.id = t
      · have ha : a.id = t := by rw [← h1]; exact hx
        rw [if_neg (by simp [hx]), if_neg (by simp [ha])]; exact ih r h4
      · have ha : ¬ a.id = t := by rw [← h1]; exact hx
        rw [if_pos (by simp [hx]), if_pos (by simp [ha])]
        simp only [List.map_cons, h1, h2, h3, ih r h4]

/-- R after discarding the store of `t` (rollback / failed commit) or unregistering a transaction
    without a store: everything except `inv` -/
theorem close_R_of_inv {c : Sys} {s : State} {cl : List Nat} (h : Rx cl c s) (t : Nat) (c' : Sys) (i' : Inv c')
    (hcounter : c'.counter = c.counter) (hdom : c'.dom = c.dom) (hmain : c'.main = c.main)
    (hreg : c'.reg = c.reg.filter (·.id ≠ t))
    (htxs : ∀ t', t' ≠ t → c'.txs t' = c.txs t') :
    Rx cl c' (Spec.close s t) := by
  refine ⟨i', ?_, ?_, ?_, ?_, ?_, ?_⟩
  · show s.clock = c'.counter; rw [hcounter]; exact h.clock
  · show s.dom = c'.dom; rw [hdom]; exact h.dom
  · show (s.open_.filter _).map _ = _; rw [hreg]; exact close_reg h t
  · intro x hx k
    have hx' : x ∈ s.open_.filter (·.id ≠ t) := hx
    rw [List.mem_filter] at hx'
    have hne : x.id ≠ mainTx := h.inv.regMain _ (h.mem_open hx'.1)
    have hxt : x.id ≠ t := by simpa using hx'.2
    rw [h.own x hx'.1 k, ownLatest_tx hne, ownLatest_tx hne, htxs x.id hxt]
  · intro k
    obtain ⟨pre, h1, h2, h3⟩ := h.hist k
    rw [hmain, hreg]
    refine ⟨pre, h1, h2, ?_⟩
    intro hp
    obtain ⟨hd, hh, hlt⟩ := h3 hp
    exact ⟨hd, hh, fun r hr => hlt r (mem_of_filter hr)⟩
  · intro k hne; rw [hdom]; exact h.histDom k hne

end FsDb
