import FsDb.Model.Conc
import FsDb.Proofs.GcAt
/-! Frame conditions: what one step of a goroutine that may use only transaction `t` (or the main
    transaction) can change in the shared state, as far as the other goroutines' local assertions
    are concerned (rely/guarantee for the small-step model `Model/Conc`). -/
namespace FsDb.Conc
open FsDb Sys Spec

structure Frame (s s' : Sys) (t : Nat) : Prop where
  nextCid : s.nextCid ≤ s'.nextCid
  counter : s.counter ≤ s'.counter
  content : ∀ cid, cid < s.nextCid → s'.hasContent cid = s.hasContent cid ∨ s'.hasContent cid = none
  reg : ∀ t', t' ≠ t → s'.regGet t' = s.regGet t'
  ownL : ∀ t' k, t' ≠ t → t' ≠ mainTx → s'.ownLatest t' k = s.ownLatest t' k
  mainMono : ∀ k m, latest (s.main k) = some m → ∃ m', latest (s'.main k) = some m' ∧ m.seq ≤ m'.seq
  regNew : ∀ r ∈ s'.reg, r ∈ s.reg ∨ s.counter < r.seq

theorem Frame.rfl' (s : Sys) (t : Nat) : Frame s s t :=
  ⟨Nat.le_refl _, Nat.le_refl _, fun _ _ => Or.inl rfl, fun _ _ => rfl, fun _ _ _ _ => rfl,
   fun _ m h => ⟨m, h, Nat.le_refl _⟩, fun _ h => Or.inl h⟩

/-- only the logical fields matter -/
theorem Frame.of_eq {s s' : Sys} (t : Nat) (h1 : s'.nextCid = s.nextCid) (h2 : s'.counter = s.counter)
    (h3 : s'.cfs = s.cfs) (h4 : s'.reg = s.reg) (h5 : s'.txs = s.txs) (h6 : s'.main = s.main) : Frame s s' t := by
  refine ⟨by omega, by omega, ?_, ?_, ?_, ?_, ?_⟩
  · intro cid _; left; simp [Sys.hasContent, h3]
  · intro t' _; simp [Sys.regGet, h4]
  · intro t' k _ _; simp [Sys.ownLatest, Sys.txStore, h5, h6]
  · intro k m h; rw [h6]; exact ⟨m, h, Nat.le_refl _⟩
  · intro r hr; rw [h4] at hr; exact Or.inl hr

theorem regGet_main (s : Sys) : s.regGet mainTx = some ⟨mainTx, .rc, 0⟩ := by simp [Sys.regGet]

theorem find_append_single_ne (l : List TxRec) (a : TxRec) (t' : Nat) (h : a.id ≠ t') :
    (l ++ [a]).find? (fun r => decide (r.id = t')) = l.find? (fun r => decide (r.id = t')) := by
  rw [List.find?_append]
  cases l.find? (fun r => decide (r.id = t')) with
  | some _ => rfl
  | none => simp [h]

theorem frame_begin (s : Sys) (t : Nat) (lvl : Level) : Frame s (s.begin t lvl).1 t := by
  unfold Sys.begin
  split
  · exact Frame.rfl' s t
  · refine ⟨Nat.le_refl _, Nat.le_succ _, fun _ _ => Or.inl rfl, ?_, fun _ _ _ _ => rfl,
      fun _ m h => ⟨m, h, Nat.le_refl _⟩, ?_⟩
    · intro t' ht'
      simp only [Sys.regGet]
      split
      · rfl
      · exact find_append_single_ne _ _ _ (fun e => ht' e.symm)
    · intro r hr
      simp only [List.mem_append, List.mem_singleton] at hr
      rcases hr with hr | rfl
      · exact Or.inl hr
      · exact Or.inr (Nat.lt_succ_self _)

theorem storeSet_eq (s : Sys) (t : Nat) (k : Key) (c : Nat) :
    storeSet s t k c = afterStore s [(s.nextCid, c)] t k (some c) := rfl

theorem storeDel_eq (s : Sys) (t : Nat) (k : Key) :
    storeDel s t k = afterStore s [] t k none := by
  simp [storeDel, afterStore, preStore]

theorem latest_upd_append {s : Sys} (i : Inv s) (k : Key) (nv : Ver) (hnv : nv.seq = s.counter + 1)
    (k' : Key) (m : Ver) (h : latest (s.main k') = some m) :
    ∃ m', latest (upd s.main k (s.main k ++ [nv]) k') = some m' ∧ m.seq ≤ m'.seq := by
  by_cases hk : k' = k
  · subst hk
    rw [upd_same, latest_append_one]
    refine ⟨nv, rfl, ?_⟩
    have := (i.bounds k' m (i.main_sub_all (latest_mem h))).2.1
    omega
  · rw [upd_other _ _ hk]; exact ⟨m, h, Nat.le_refl _⟩

theorem frame_afterStore {s : Sys} (i : Inv s) (extra : List (Nat × Nat)) (hx : ∀ p ∈ extra, p.1 = s.nextCid)
    (t : Nat) (k : Key) (val : Option Nat) : Frame s (afterStore s extra t k val) t := by
  refine ⟨?_, ?_, ?_, ?_, ?_, ?_, ?_⟩
  · rw [after_nextCid]; exact Nat.le_succ _
  · rw [after_counter]; exact Nat.le_succ _
  · intro cid hc; left
    simp only [Sys.hasContent, after_cfs]
    exact hasContent_append_old extra (fun p hp e => by have := hx p hp; omega)
  · intro t' _; simp [Sys.regGet, after_reg]
  · intro t' k' ht' hm
    by_cases htm : t = mainTx
    · simp [Sys.ownLatest, Sys.txStore, hm, after_main_txs s extra t k val htm]
    · simp [Sys.ownLatest, Sys.txStore, hm, after_tx_txs s extra t k val htm, ht']
  · intro k' m h
    by_cases htm : t = mainTx
    · rw [after_main_main s extra t k val htm]
      exact latest_upd_append i k _ rfl k' m h
    · rw [after_tx_main s extra t k val htm]; exact ⟨m, h, Nat.le_refl _⟩
  · intro r hr; rw [after_reg] at hr; exact Or.inl hr

theorem frame_storeSet {s : Sys} (i : Inv s) (t : Nat) (k : Key) (c : Nat) : Frame s (storeSet s t k c) t := by
  rw [storeSet_eq]; exact frame_afterStore i _ (by simp) t k _

theorem frame_storeDel {s : Sys} (i : Inv s) (t : Nat) (k : Key) : Frame s (storeDel s t k) t := by
  rw [storeDel_eq]; exact frame_afterStore i _ (by simp) t k _

theorem find_filter_ne_id (l : List TxRec) (t t' : Nat) (h : t' ≠ t) :
    (l.filter (fun r => decide (r.id ≠ t))).find? (fun r => decide (r.id = t')) = l.find? (fun r => decide (r.id = t')) := by
  induction l with
  | nil => rfl
  | cons a l ih =>
    by_cases ha : a.id = t
    · have hc : ¬ a.id = t' := by intro e; exact h (e.symm.trans ha)
      rw [List.filter_cons_of_neg (by simp [ha]), List.find?_cons_of_neg (by simp [hc])]; exact ih
    · rw [List.filter_cons_of_pos (by simp [ha])]
      by_cases hc : a.id = t'
      · rw [List.find?_cons_of_pos (by simp [hc]), List.find?_cons_of_pos (by simp [hc])]
      · rw [List.find?_cons_of_neg (by simp [hc]), List.find?_cons_of_neg (by simp [hc])]; exact ih

theorem regGet_filter (s : Sys) (t t' : Nat) (h : t' ≠ t) (s' : Sys) (hr : s'.reg = s.reg.filter (·.id ≠ t)) :
    s'.regGet t' = s.regGet t' := by
  simp only [Sys.regGet, hr]
  split
  · rfl
  · exact find_filter_ne_id _ _ _ h

/-- the shape of the state after `Commit` as far as the frame is concerned -/
structure CommitShape (s : Sys) (t : Nat) (s' : Sys) : Prop where
  nextCid : s'.nextCid = s.nextCid
  cfs : s'.cfs = s.cfs
  counter : s.counter ≤ s'.counter
  reg : (s'.reg = s.reg ∧ (t = mainTx ∨ s.reg.find? (·.id = t) = none)) ∨ s'.reg = s.reg.filter (·.id ≠ t)
  txs : ∀ t', t' ≠ t → s'.txs t' = s.txs t'
  main : ∀ k, ∃ ext, s'.main k = s.main k ++ ext ∧ ∀ v ∈ ext, v.seq = s.counter + 1

theorem CommitShape.pending {s s' : Sys} {t : Nat} (h : CommitShape s t s') (p : List (List Ver)) :
    CommitShape s t { s' with pending := p } := ⟨h.1, h.2, h.3, h.4, h.5, h.6⟩

theorem commit_shape (s : Sys) (t : Nat) : CommitShape s t (s.commit t).1 := by
  have hnil : ∀ k, ∃ ext, s.main k = s.main k ++ ext ∧ ∀ v ∈ ext, v.seq = s.counter + 1 :=
    fun k => ⟨[], by simp, by simp⟩
  have hrefl : (t = mainTx ∨ s.reg.find? (·.id = t) = none) → CommitShape s t s :=
    fun hc => ⟨rfl, rfl, Nat.le_refl _, Or.inl ⟨rfl, hc⟩, fun _ _ => rfl, hnil⟩
  unfold Sys.commit
  split
  · rename_i ht; exact hrefl (Or.inl ht)
  · split
    · rename_i hnf; exact hrefl (Or.inr hnf)
    · rename_i tx hfind
      have hid : tx.id = t := by simpa using List.find?_some hfind
      have hpend : ∀ (r : Sys × List Ver × Bool), CommitShape s t r.1 →
          CommitShape s t (if r.2.1.isEmpty then r.1 else { r.1 with pending := r.1.pending ++ [r.2.1] }) := by
        intro r hr; split
        · exact hr
        · exact hr.pending _
      apply hpend
      simp only [Sys.updateTx]
      split
      · exact ⟨rfl, rfl, Nat.le_refl _, Or.inr rfl, fun _ _ => rfl, hnil⟩
      · rename_i st hst
        have htxs : ∀ t', t' ≠ t → (if t' = tx.id then none else s.txs t') = s.txs t' := by
          intro t' ht'; rw [hid]; simp [ht']
        split
        · exact ⟨rfl, rfl, Nat.le_refl _, Or.inr rfl, htxs, hnil⟩
        · split
          · exact ⟨rfl, rfl, Nat.le_refl _, Or.inr rfl, htxs, hnil⟩
          · refine ⟨rfl, rfl, Nat.le_succ _, Or.inr rfl, htxs, ?_⟩
            intro k
            refine ⟨_, rfl, ?_⟩
            intro v hv
            have := mem_of_filter hv
            obtain ⟨u, _, rfl⟩ := List.mem_map.mp this
            rfl

theorem latest_append_ext {s : Sys} (i : Inv s) (k : Key) (ext : List Ver) (hext : ∀ v ∈ ext, v.seq = s.counter + 1)
    (m : Ver) (h : latest (s.main k) = some m) :
    ∃ m', latest (s.main k ++ ext) = some m' ∧ m.seq ≤ m'.seq := by
  unfold Sys.latest at *
  rw [List.getLast?_append]
  cases he : ext.getLast? with
  | none => simp [h]
  | some e =>
    refine ⟨e, by simp, ?_⟩
    have := hext e (List.mem_of_getLast? he)
    have := (i.bounds k m (i.main_sub_all (List.mem_of_getLast? h))).2.1
    omega

theorem rollback_shape (s : Sys) (t : Nat) : CommitShape s t (s.rollback t).1 := by
  have hnil : ∀ k, ∃ ext, s.main k = s.main k ++ ext ∧ ∀ v ∈ ext, v.seq = s.counter + 1 :=
    fun k => ⟨[], by simp, by simp⟩
  have hrefl : (t = mainTx ∨ s.reg.find? (·.id = t) = none) → CommitShape s t s :=
    fun hc => ⟨rfl, rfl, Nat.le_refl _, Or.inl ⟨rfl, hc⟩, fun _ _ => rfl, hnil⟩
  unfold Sys.rollback
  split
  · rename_i ht; exact hrefl (Or.inl ht)
  · split
    · rename_i hnf; exact hrefl (Or.inr hnf)
    · dsimp only
      split
      · exact ⟨rfl, rfl, Nat.le_refl _, Or.inr rfl, fun _ _ => rfl, hnil⟩
      · have htxs : ∀ t', t' ≠ t → (if t' = t then none else s.txs t') = s.txs t' := by
          intro t' ht'; simp [ht']
        have base : CommitShape s t { s with reg := s.reg.filter (·.id ≠ t), txs := fun t' => if t' = t then none else s.txs t' } :=
          ⟨rfl, rfl, Nat.le_refl _, Or.inr rfl, htxs, hnil⟩
        split
        · exact ⟨rfl, rfl, Nat.le_refl _, Or.inr rfl, htxs, hnil⟩
        · exact ⟨rfl, rfl, Nat.le_refl _, Or.inr rfl, htxs, hnil⟩

theorem frame_of_shape {s s' : Sys} (i : Inv s) {t : Nat} (h : CommitShape s t s') : Frame s s' t := by
  obtain ⟨h1, h2, h3, h4, h5, h6⟩ := h
  refine ⟨by omega, h3, ?_, ?_, ?_, ?_, ?_⟩
  · intro cid _; left; simp [Sys.hasContent, h2]
  · intro t' ht'
    rcases h4 with ⟨h4, _⟩ | h4
    · simp [Sys.regGet, h4]
    · exact regGet_filter s t t' ht' _ h4
  · intro t' k ht' hm
    simp [Sys.ownLatest, Sys.txStore, hm, h5 t' ht']
  · intro k m h
    obtain ⟨ext, he, hext⟩ := h6 k
    rw [he]; exact latest_append_ext i k ext hext m h
  · intro r hr
    rcases h4 with ⟨h4, _⟩ | h4
    · rw [h4] at hr; exact Or.inl hr
    · rw [h4] at hr; exact Or.inl (mem_of_filter hr)

/-- after Commit / Rollback of `t` nothing registered carries the id `t` -/
theorem shape_reg_ne {s s' : Sys} (i : Inv s) {t : Nat} (h : CommitShape s t s') : ∀ r ∈ s'.reg, r.id ≠ t := by
  intro r hr
  rcases h.reg with ⟨h4, hc⟩ | h4
  · rw [h4] at hr
    rcases hc with hc | hc
    · rw [hc]; exact i.regMain r hr
    · have := List.find?_eq_none.mp hc r hr
      simpa using this
  · rw [h4] at hr
    have := (List.mem_filter.mp hr).2
    simpa using this

theorem frame_commit {s : Sys} (i : Inv s) (t : Nat) : Frame s (s.commit t).1 t := frame_of_shape i (commit_shape s t)

theorem frame_rollback {s : Sys} (i : Inv s) (t : Nat) : Frame s (s.rollback t).1 t := frame_of_shape i (rollback_shape s t)

theorem frame_gcDraw (s : Sys) (t : Nat) : Frame s (gcDraw s) t := by
  unfold gcDraw
  split
  · exact Frame.rfl' s t
  · refine ⟨Nat.le_refl _, Nat.le_succ _, fun _ _ => Or.inl rfl, fun _ _ => rfl, fun _ _ _ _ => rfl,
      fun _ m h => ⟨m, h, Nat.le_refl _⟩, fun _ h => Or.inl h⟩

theorem frame_gcDrawX (s : Sys) (cl : List Nat) (t : Nat) : Frame s (gcDrawX s cl) t := by
  unfold gcDrawX
  split
  · exact Frame.rfl' s t
  · refine ⟨Nat.le_refl _, Nat.le_succ _, fun _ _ => Or.inl rfl, fun _ _ => rfl, fun _ _ _ _ => rfl,
      fun _ m h => ⟨m, h, Nat.le_refl _⟩, fun _ h => Or.inl h⟩

theorem frame_collectAt (s : Sys) (hz t : Nat) : Frame s (collectAt s hz) t := by
  refine ⟨Nat.le_refl _, Nat.le_refl _, fun _ _ => Or.inl rfl, fun _ _ => rfl, ?_, ?_, fun _ h => Or.inl h⟩
  · intro t' k _ hm; simp [Sys.ownLatest, Sys.txStore, hm, collectAt]
  · intro k m h
    refine ⟨m, ?_, Nat.le_refl _⟩
    show latest ((collect (s.main k) hz).2) = some m
    unfold Sys.latest at *
    rw [collect_getLast?]; exact h

theorem frame_delOne (s : Sys) (v : Ver) (t : Nat) : Frame s (delOne s v) t := by
  refine ⟨by simp, by simp, ?_, ?_, ?_, ?_, ?_⟩
  · intro cid _
    by_cases h : cid = v.cid
    · subst h
      unfold delOne
      split
      · left; rfl
      · right
        simp only [Sys.hasContent]
        rw [Option.map_eq_none_iff, List.find?_eq_none]
        intro p hp
        have := (List.mem_filter.mp hp).2
        simpa using this
    · left; exact delOne_hasContent s v h
  · intro t' _; simp [Sys.regGet]
  · intro t' k _ hm; simp [Sys.ownLatest, Sys.txStore, hm]
  · intro k m h; simp only [delOne_main]; exact ⟨m, h, Nat.le_refl _⟩
  · intro r hr; simp only [delOne_reg] at hr; exact Or.inl hr

end FsDb.Conc
