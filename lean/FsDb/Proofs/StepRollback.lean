import FsDb.Proofs.StepDiscard
/-! `Rollback` preserves the refinement relation. -/
namespace FsDb
open Sys Spec

theorem close_noop (s : State) (t : Nat) (h : ∀ x ∈ s.open_, x.id ≠ t) : Spec.close s t = s := by
  unfold Spec.close
  have : s.open_.filter (fun x => decide (x.id ≠ t)) = s.open_ := by
    rw [List.filter_eq_self]; intro x hx; simpa using h x hx
  rw [this]

theorem open_ids_of_find_none {c : Sys} {s : State} {cl : List Nat} (h : Rx cl c s) (t : Nat)
    (hf : c.reg.find? (·.id = t) = none) : ∀ x ∈ s.open_, x.id ≠ t := by
  intro x hx
  have hm := h.mem_open hx
  have := List.find?_eq_none.mp hf _ hm
  simpa using this

theorem isStoreOf_flatMap {c : Sys} (i : Inv c) {t : Nat} {st : Store} (hst : c.txs t = some st) :
    IsStoreOf st (c.dom.flatMap (fun k => st k)) := by
  intro v
  rw [List.mem_flatMap]
  constructor
  · rintro ⟨k, _, hv⟩; exact ⟨k, hv⟩
  · rintro ⟨k, hv⟩
    refine ⟨k, ?_, hv⟩
    apply i.domAll
    exact List.ne_nil_of_mem (i.tx_sub_all hst hv)

theorem step_rollback {c : Sys} {s : State} {cl : List Nat} (h : Rx cl c s) (t : Nat) :
    (c.rollback t).2 = (Spec.rollback s t).2 ∧ Rx cl (c.rollback t).1 (Spec.rollback s t).1 := by
  unfold Sys.rollback Spec.rollback
  by_cases htm : t = mainTx
  · simp only [htm, if_true]
    refine ⟨by first | rfl | trivial, ?_⟩
    rw [close_noop s mainTx (fun x hx => h.inv.regMain _ (h.mem_open hx))]
    exact h
  · simp only [htm, if_false]
    cases hf : c.reg.find? (·.id = t) with
    | none =>
      refine ⟨rfl, ?_⟩
      rw [close_noop s t (open_ids_of_find_none h t hf)]
      exact h
    | some tx =>
      simp only
      cases hst : c.txs t with
      | none =>
        refine ⟨rfl, ?_⟩
        exact close_R_of_inv h t _ (unregister_inv h.inv t hst) rfl rfl rfl rfl (fun _ _ => rfl)
      | some st =>
        refine ⟨by first | rfl | trivial | (split <;> rfl), ?_⟩
        have hr := isStoreOf_flatMap h.inv hst
        have hd : (c.rollback t).1 = discardG c t (c.dom.flatMap (fun k => st k)) (c.dom.flatMap (fun k => st k)) := by
          simp only [Sys.rollback, htm, if_false, hf, hst, Sys.dropTxStore, discardG]
          split <;> rfl
        have : Rx cl (discardG c t (c.dom.flatMap (fun k => st k)) (c.dom.flatMap (fun k => st k))) (Spec.close s t) :=
          close_R_of_inv h t _ (discard_inv h.inv hst hr (fun v hv => hv)) rfl rfl rfl rfl
            (fun t' ht' => by simp [discardG, ht'])
        rw [← hd] at this
        simpa only [Sys.rollback, htm, if_false, hf, hst] using this

end FsDb
