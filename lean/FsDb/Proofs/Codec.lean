import FsDb.Model.Codec
namespace FsDb.Codec

theorem le64_length (n : Nat) : (le64 n).length = 8 := rfl

theorem toNat_ofNat_mod (n : Nat) : (UInt8.ofNat (n % 256)).toNat = n % 256 := by
  simp [UInt8.toNat_ofNat']

theorem fromLe64_le64 (n : Nat) (h : n < 2^64) : fromLe64 (le64 n) = n := by
  simp only [fromLe64, le64, List.getD_cons_zero, List.getD_cons_succ, toNat_ofNat_mod]
  omega

theorem fromLe64_append (a b : Bytes) (h : a.length = 8) : fromLe64 (a ++ b) = fromLe64 a := by
  match a, h with
  | [a0,a1,a2,a3,a4,a5,a6,a7], _ => rfl

theorem hexVal_hexDigit (n : Nat) (h : n < 16) : hexVal (hexDigit n) = some n := by
  have : n = 0 ∨ n = 1 ∨ n = 2 ∨ n = 3 ∨ n = 4 ∨ n = 5 ∨ n = 6 ∨ n = 7 ∨ n = 8 ∨ n = 9 ∨ n = 10
      ∨ n = 11 ∨ n = 12 ∨ n = 13 ∨ n = 14 ∨ n = 15 := by omega
  rcases this with h|h|h|h|h|h|h|h|h|h|h|h|h|h|h|h <;> subst h <;> decide

theorem parseByte_fmtByte (b : UInt8) : parseByte (hexDigit (b.toNat / 16)) (hexDigit (b.toNat % 16)) = some b := by
  have hb : b.toNat < 256 := b.toNat_lt
  unfold parseByte
  rw [hexVal_hexDigit _ (by omega), hexVal_hexDigit _ (by omega)]
  simp only [Option.some.injEq]
  have : b.toNat / 16 * 16 + b.toNat % 16 = b.toNat := by omega
  rw [this]
  exact UInt8.ofNat_toNat

theorem parseHex_fmtBytes (bs : Bytes) : parseHex (fmtBytes bs) = some bs := by
  induction bs with
  | nil => rfl
  | cons b t ih =>
    simp only [fmtBytes, fmtByte, List.cons_append, List.nil_append, parseHex, parseByte_fmtByte, ih]

theorem fmtBytes_length (bs : Bytes) : (fmtBytes bs).length = 2 * bs.length := by
  induction bs with
  | nil => rfl
  | cons b t ih => simp [fmtBytes, fmtByte, ih]; omega

end FsDb.Codec
