import FsDb.Proofs.Reopen
/-!
  Crash points.  Every operation changes the persistent store (Badger `file/` records = `recs`,
  `fileContent/` records + content files = `cfs`) by a *sequence* of mutations; the process can die
  between any two of them.  `crashPoints c op` lists the states in which the store can be found
  (volatile fields are irrelevant: a fresh process rebuilds them); the theorem: each of them is
  related to the specification state *before* the operation or to the one *after* it, and
  satisfies the record invariant -- so recovery (`reopen` in a fresh process) reads exactly the
  acknowledged state, or that plus the whole operation in flight, never a part of it.

  Mutation order modelled (and tied by the skeleton texts of store.Set, core.Store, UpdateTx,
  cleaner.deleteFile and by the crash-point enumeration on the real code):
    Set      : content file complete → fileContent record → version record
    Delete   : version record
    Commit   : one Badger transaction re-tagging all published records (atomic)
    deleteFile (collector, worker pool, recovery): content file + fileContent record → version record
    Begin / Rollback / Get / GetKeys / Load: no persistent mutation (deletions are handed to the pool)
-/
namespace FsDb
open Sys Spec

/-- first half of `deleteFile`: the content file and its fileContent record go -/
def delCf (s : Sys) (v : Ver) : Sys := { s with cfs := s.cfs.filter (·.1 ≠ v.cid) }
/-- second half: the version record goes -/
def delRec (s : Sys) (v : Ver) : Sys := { s with recs := s.recs.filter (·.cid ≠ v.cid) }

theorem delOne_split (s : Sys) (v : Ver) :
    delOne s v = match s.hasContent v.cid with
      | none => s
      | some _ => delRec (delCf s v) v := by
  unfold delOne delRec delCf
  cases s.hasContent v.cid <;> rfl

/-- the states a deletion run passes through -/
def delPoints (s : Sys) : List Ver → List Sys
  | [] => [s]
  | v :: vs =>
    match s.hasContent v.cid with
    | none => delPoints s vs
    | some _ => s :: delCf s v :: delPoints (delRec (delCf s v) v) vs

def jobsPoints (s : Sys) : List (List Ver) → List Sys
  | [] => [s]
  | j :: js => delPoints s j ++ jobsPoints (s.deleteFiles j) js

/-- where the persistent store can be found when the process dies during `op` -/
def crashPoints (c : Sys) : Op → List Sys
  | .set t k n =>
    if (c.regGet t).isNone ∨ k = "" then [c]
    else [c, preStore c [(c.nextCid, n)], (c.set t k n).1]
  | .gc => c :: delPoints (gcMid c) (gcDels c)
  | .drain => jobsPoints c c.pending ++ [(c.drain).1]
  | op => [c, (c.step op).1]     -- one mutation (Delete, Commit's batch) or none

/-- what a crash point must satisfy -/
def CrashOk (s s' : State) (p : Sys) : Prop := (R p s ∨ R p s') ∧ RecInv p

/-! ### deletions of dead versions -/

theorem delCf_inv {c : Sys} (i : Inv c) (v : Ver) (hd : ∀ k, ∀ w ∈ c.all k, w.cid ≠ v.cid) (hc : (c.hasContent v.cid).isSome) :
    Inv (delCf c v) := by
  have h1 := delOne_inv i v hd
  rw [delOne_split] at h1
  cases hh : c.hasContent v.cid with
  | none => rw [hh] at hc; cases hc
  | some n =>
    rw [hh] at h1
    exact h1.congr rfl rfl rfl rfl rfl rfl rfl rfl rfl

theorem delPoints_ok {c : Sys} {a : State} (h : R c a) (ri : RecInv c) (vs : List Ver)
    (hd : ∀ v ∈ vs, ∀ k, ∀ w ∈ c.all k, w.cid ≠ v.cid) :
    ∀ p ∈ delPoints c vs, R p a ∧ RecInv p := by
  induction vs generalizing c with
  | nil => intro p hp; simp only [delPoints, List.mem_singleton] at hp; subst hp; exact ⟨h, ri⟩
  | cons v vs ih =>
    intro p hp
    simp only [delPoints] at hp
    have hdv := hd v (by simp)
    cases hh : c.hasContent v.cid with
    | none =>
      rw [hh] at hp
      exact ih h ri (fun u hu => hd u (List.mem_cons_of_mem _ hu)) p hp
    | some n =>
      rw [hh] at hp
      simp only [List.mem_cons] at hp
      -- the state after the whole `deleteFile`
      have hone : delOne c v = delRec (delCf c v) v := by rw [delOne_split, hh]
      have i1 : Inv (delOne c v) := delOne_inv h.inv v hdv
      have r1 : R (delOne c v) a := h.transfer i1 (by simp) (by simp) (by simp) (by simp) (by simp)
      have ri1 : RecInv (delOne c v) := by
        have := RecInv.deleteFiles h.inv ri [v] (by intro u hu; simp at hu; subst hu; exact hdv)
        simpa [deleteFiles_eq] using this
      rcases hp with rfl | rfl | hp
      · exact ⟨h, ri⟩
      · have i2 : Inv (delCf c v) := delCf_inv h.inv v hdv (by rw [hh]; rfl)
        exact ⟨h.transfer i2 rfl rfl rfl rfl rfl, ri.congr rfl rfl rfl⟩
      · rw [← hone] at hp
        apply ih r1 ri1 _ p hp
        intro u hu k w hw
        simp only [delOne_all] at hw
        exact hd u (List.mem_cons_of_mem _ hu) k w hw

theorem jobsPoints_ok {c : Sys} {a : State} (h : R c a) (ri : RecInv c) (jobs : List (List Ver))
    (hd : ∀ job ∈ jobs, ∀ v ∈ job, ∀ k, ∀ w ∈ c.all k, w.cid ≠ v.cid) :
    ∀ p ∈ jobsPoints c jobs, R p a ∧ RecInv p := by
  induction jobs generalizing c with
  | nil => intro p hp; simp only [jobsPoints, List.mem_singleton] at hp; subst hp; exact ⟨h, ri⟩
  | cons j js ih =>
    intro p hp
    simp only [jobsPoints, List.mem_append] at hp
    rcases hp with hp | hp
    · exact delPoints_ok h ri j (hd j (by simp)) p hp
    · obtain ⟨_, _, _, f4, _, _, _, _⟩ := deleteFiles_fields c j
      apply ih (deleteFiles_R h j (hd j (by simp))) (RecInv.deleteFiles h.inv ri j (hd j (by simp))) _ p hp
      intro job hj v hv k w hw
      rw [f4] at hw
      exact hd job (List.mem_cons_of_mem _ hj) v hv k w hw

/-! ### the state between the fileContent record and the version record of a Set -/

theorem preStore_inv {c : Sys} (i : Inv c) (n : Nat) : Inv (preStore c [(c.nextCid, n)]) := by
  have hhc : ∀ cid, cid < c.nextCid → (preStore c [(c.nextCid, n)]).hasContent cid = c.hasContent cid := by
    intro cid hlt
    simp only [Sys.hasContent, preStore]
    rw [List.find?_append]
    cases hf : c.cfs.find? (fun p => decide (p.1 = cid)) with
    | some p => simp
    | none =>
      simp only [Option.none_or, List.find?_cons, List.find?_nil]
      have : ¬ c.nextCid = cid := by omega
      simp [this]
  refine ⟨i.mainSorted, i.txSorted, i.allSorted, i.allMem, ?_, i.cidUnique, i.regIds, i.regMain, i.regSorted,
    i.regBound, i.txsReg, i.ownAfter, i.beginNotVer, ?_, ?_, i.pendDead, ?_, i.domAll, i.domNodup, i.tagMain, i.tagTx⟩
  · intro k v hv
    have hb := i.bounds k v hv
    exact ⟨hb.1, hb.2.1, Nat.lt_succ_of_lt hb.2.2.1, hb.2.2.2⟩
  · intro k v hv
    rw [hhc v.cid (i.bounds k v hv).2.2.1]
    exact i.stor k v hv
  · intro p hp
    simp only [preStore, List.mem_append, List.mem_singleton] at hp
    rcases hp with hp | rfl
    · exact Nat.lt_succ_of_lt (i.cfsBound p hp)
    · exact Nat.lt_succ_self _
  · intro job hj v hv
    exact Nat.lt_succ_of_lt (i.pendBound job hj v hv)

/-! ### the cut theorem -/

theorem crashPoints_ok {c : Sys} {s : State} (h : R c s) (ri : RecInv c) (op : Op) (hop : op.total = true) :
    ∀ p ∈ crashPoints c op, CrashOk s (Spec.step s op).1 p := by
  have hend : CrashOk s (Spec.step s op).1 (c.step op).1 :=
    ⟨Or.inr (Refine.step_all h ri op hop).2.1, (Refine.step_all h ri op hop).2.2⟩
  have hstart : CrashOk s (Spec.step s op).1 c := ⟨Or.inl h, ri⟩
  have two : ∀ p ∈ [c, (c.step op).1], CrashOk s (Spec.step s op).1 p := by
    intro p hp
    simp only [List.mem_cons, List.mem_nil_iff, or_false] at hp
    rcases hp with rfl | rfl
    · exact hstart
    · exact hend
  cases op with
  | set t k n =>
    intro p hp
    simp only [crashPoints] at hp
    split at hp
    · simp only [List.mem_singleton] at hp; subst hp; exact hstart
    · simp only [List.mem_cons, List.mem_nil_iff, or_false] at hp
      rcases hp with rfl | rfl | rfl
      · exact hstart
      · have i1 := preStore_inv h.inv n
        exact ⟨Or.inl (h.transfer i1 rfl rfl rfl rfl rfl), ri.congr rfl rfl rfl (Nat.le_succ _)⟩
      · exact hend
  | gc =>
    intro p hp
    simp only [crashPoints, List.mem_cons] at hp
    rcases hp with rfl | hp
    · exact hstart
    · have := delPoints_ok (gcMid_R h) (RecInv.gcMid h.inv ri) (gcDels c) (gcDels_dead h.inv) p hp
      exact ⟨Or.inr this.1, this.2⟩
  | drain =>
    intro p hp
    simp only [crashPoints, List.mem_append, List.mem_singleton] at hp
    rcases hp with hp | rfl
    · have := jobsPoints_ok h ri c.pending h.inv.pendDead p hp
      exact ⟨Or.inl this.1, this.2⟩
    · exact hend
  | begin t l => exact two
  | del t k => exact two
  | get t k => exact two
  | keys t => exact two
  | commit t => exact two
  | rollback t => exact two
  | reopen f => exact two
  | tree => simp [Op.total] at hop

end FsDb
