import FsDb.Proofs.ConcMain
import FsDb.Proofs.CfsInv
/-! The content-record invariant of C14 (`CfsInv`: every content record belongs to a linked version or
    to a deletion job, no content id twice, every content record has its version record) in the
    small-step concurrency model: it holds in every reachable state of every schedule (jobs in
    execution counted with the pending ones), hence whenever the database comes to rest the storage
    holds exactly the committed values after `drain; gc`. -/
namespace FsDb.Conc
open FsDb Sys Spec

/-- the versions a thread still has to delete from the job it is executing -/
def todoOf : Pc → Option (List Ver)
  | .gcDelete todo => some todo
  | .workDelete todo => some todo
  | _ => none

def isTx : Op → Bool
  | .begin _ _ | .commit _ | .rollback _ => true
  | _ => false

/-- what one step of thread `i` does to the shared state, as far as contents are concerned -/
inductive Shape (σ : St) (i : Nat) (σ' : St) : Prop
  | loc (hsys : σ'.sys = σ.sys) (hbusy : σ'.busy = σ.busy)
      (h1 : todoOf (σ.thr i).pc = none) (h2 : todoOf (σ'.thr i).pc = none)
  | op (o : Op) (hm : isTx o = true) (hsys : σ'.sys = (σ.sys.step o).1) (hbusy : σ'.busy = σ.busy)
      (h1 : todoOf (σ.thr i).pc = none) (h2 : todoOf (σ'.thr i).pc = none)
  | store (extra : List (Nat × Nat)) (t : Nat) (k : Key) (val : Option Nat) (hx : ExtraOk σ.sys val extra)
      (hsys : σ'.sys = afterStore σ.sys extra t k val) (hbusy : σ'.busy = σ.busy)
      (h1 : todoOf (σ.thr i).pc = none) (h2 : todoOf (σ'.thr i).pc = none)
  | draw (hsys : σ'.sys = gcDrawX σ.sys σ.closing) (hbusy : σ'.busy = σ.busy)
      (h1 : todoOf (σ.thr i).pc = none) (h2 : todoOf (σ'.thr i).pc = none)
  | collect (hz : Nat) (hsys : σ'.sys = collectAt σ.sys hz) (hbusy : σ'.busy = σ.busy ++ [(i, delsAt σ.sys hz)])
      (h1 : todoOf (σ.thr i).pc = none) (h2 : todoOf (σ'.thr i).pc = some (delsAt σ.sys hz))
  | take (job : List Ver) (rest : List (List Ver)) (hp : σ.sys.pending = job :: rest)
      (hsys : σ'.sys = { σ.sys with pending := rest }) (hbusy : σ'.busy = σ.busy ++ [(i, job)])
      (h1 : todoOf (σ.thr i).pc = none) (h2 : todoOf (σ'.thr i).pc = some job)
  | del (v : Ver) (todo : List Ver) (hsys : σ'.sys = delOne σ.sys v) (hbusy : σ'.busy = σ.busy)
      (h1 : todoOf (σ.thr i).pc = some (v :: todo)) (h2 : todoOf (σ'.thr i).pc = some todo)
  | fin (hsys : σ'.sys = σ.sys) (hbusy : σ'.busy = σ.busy.filter (·.1 ≠ i))
      (h1 : todoOf (σ.thr i).pc = some []) (h2 : todoOf (σ'.thr i).pc = none)

/-- close a goal about `σ'` once `hs : some … = some σ'` has no `if`/`match` left -/
macro "step_done" hs:ident " with " t:tactic : tactic =>
  `(tactic| first
    | (simp only [Option.some.injEq] at $hs:ident; subst $hs:ident; $t)
    | (cases $hs:ident; done))

/-- split the conditionals of one `step` clause (at most two levels) and close every branch with `t` -/
macro "step_cases" hs:ident " with " t:tactic : tactic =>
  `(tactic| first
    | step_done $hs with $t
    | (split at $hs:ident <;> first
        | step_done $hs with $t
        | (split at $hs:ident <;> step_done $hs with $t)))

theorem step_others {σ σ' : St} {i : Nat} (hs : step σ i = some σ') : ∀ j, j ≠ i → σ'.thr j = σ.thr j := by
  intro j hij
  cases hpc : (σ.thr i).pc with
  | keysContent todo acc =>
    cases todo <;> simp only [step, hpc] at hs <;> step_done hs with simp [St.goto, St.setThr, hij]
  | gcDelete todo =>
    cases todo <;> simp only [step, hpc] at hs <;> step_done hs with simp [St.goto, St.setThr, hij]
  | workDelete todo =>
    cases todo <;> simp only [step, hpc] at hs <;> step_done hs with simp [St.goto, St.setThr, hij]
  | idle => simp [step, hpc] at hs
  | _ =>
    simp only [step, hpc] at hs
    step_cases hs with simp [St.goto, St.setThr, St.witness, St.linearize, hij]

macro "shape_loc" hpc:ident : tactic =>
  `(tactic| exact Shape.loc rfl rfl (by rw [$hpc:ident]; rfl) (by simp [St.goto, St.setThr, St.witness, St.linearize, todoOf]))

theorem step_shape {σ σ' : St} {i : Nat} (hs : step σ i = some σ') : Shape σ i σ' := by
  cases hpc : (σ.thr i).pc with
  | idle => simp [step, hpc] at hs
  | keysContent todo acc =>
    cases todo <;> simp only [step, hpc] at hs <;> step_done hs with shape_loc hpc
  | gcDelete todo =>
    cases todo with
    | nil =>
      simp only [step, hpc] at hs
      step_done hs with exact Shape.fin rfl rfl (by rw [hpc]; rfl) (by simp [St.goto, St.setThr, todoOf])
    | cons v todo =>
      simp only [step, hpc] at hs
      step_done hs with exact Shape.del v todo rfl rfl (by rw [hpc]; rfl) (by simp [St.goto, St.setThr, todoOf])
  | workDelete todo =>
    cases todo with
    | nil =>
      simp only [step, hpc] at hs
      step_done hs with exact Shape.fin rfl rfl (by rw [hpc]; rfl) (by simp [St.goto, St.setThr, todoOf])
    | cons v todo =>
      simp only [step, hpc] at hs
      step_done hs with exact Shape.del v todo rfl rfl (by rw [hpc]; rfl) (by simp [St.goto, St.setThr, todoOf])
  | setStore t k c =>
    simp only [step, hpc] at hs
    step_done hs with exact Shape.store [(σ.sys.nextCid, c)] t k (some c) (Or.inr ⟨c, rfl, rfl⟩) rfl rfl
      (by rw [hpc]; rfl) (by simp [St.linearize, todoOf])
  | delStore t k =>
    simp only [step, hpc] at hs
    step_done hs with exact Shape.store [] t k none (Or.inl ⟨rfl, rfl⟩) (storeDel_eq σ.sys t k) rfl
      (by rw [hpc]; rfl) (by simp [St.linearize, todoOf])
  | beginLock t lvl =>
    simp only [step, hpc] at hs
    step_cases hs with exact Shape.op (.begin t lvl) rfl rfl rfl (by rw [hpc]; rfl) (by simp [St.linearize, todoOf])
  | commitDereg t =>
    simp only [step, hpc] at hs
    split at hs
    · step_done hs with shape_loc hpc
    · step_done hs with exact Shape.op (.commit t) rfl rfl rfl (by rw [hpc]; rfl) (by simp [St.linearize, todoOf])
  | commitRun t =>
    simp only [step, hpc] at hs
    step_done hs with exact Shape.op (.commit t) rfl rfl rfl (by rw [hpc]; rfl) (by simp [St.linearize, todoOf])
  | rollbackDereg t =>
    simp only [step, hpc] at hs
    split at hs
    · step_done hs with shape_loc hpc
    · step_done hs with exact Shape.op (.rollback t) rfl rfl rfl (by rw [hpc]; rfl) (by simp [St.linearize, todoOf])
  | rollbackRun t =>
    simp only [step, hpc] at hs
    step_done hs with exact Shape.op (.rollback t) rfl rfl rfl (by rw [hpc]; rfl) (by simp [St.linearize, todoOf])
  | gcHorizon =>
    simp only [step, hpc] at hs
    step_cases hs with exact Shape.draw rfl rfl (by rw [hpc]; rfl) (by simp [St.linearize, todoOf])
  | gcCollect hz =>
    simp only [step, hpc] at hs
    step_done hs with exact Shape.collect hz rfl rfl (by rw [hpc]; rfl) (by simp [St.goto, St.setThr, todoOf])
  | workTake =>
    simp only [step, hpc] at hs
    split at hs
    · step_done hs with shape_loc hpc
    · rename_i job rest hpend
      step_done hs with exact Shape.take job rest hpend rfl rfl (by rw [hpc]; rfl) (by simp [St.goto, St.setThr, todoOf])
  | _ =>
    simp only [step, hpc] at hs
    step_cases hs with shape_loc hpc

/-! ### the invariant -/

/-- what thread `i` knows about the job it is executing: every version of it is still to be
    deleted or its content record is gone; a thread that is not deleting has no job in execution -/
def JobInv (σ : St) (i : Nat) : Prop :=
  match todoOf (σ.thr i).pc with
  | some todo => ∀ job, (i, job) ∈ σ.busy → ∀ v ∈ job, v ∈ todo ∨ σ.sys.hasContent v.cid = none
  | none => ∀ job, (i, job) ∉ σ.busy

structure CC (σ : St) : Prop where
  cfs : CfsInv (withBusy σ)
  job : ∀ i, JobInv σ i

theorem isTx_isMut {o : Op} (h : isTx o = true) : isMut o = true := by cases o <;> simp_all [isTx, isMut]

theorem shape_frame {σ σ' : St} {i : Nat} (h : CInv σ) (sh : Shape σ i σ') : ∃ t, Frame σ.sys σ'.sys t := by
  have isys := inv_sys h
  cases sh with
  | loc hsys _ _ _ => exact ⟨mainTx, by rw [hsys]; exact Frame.rfl' _ _⟩
  | fin hsys _ _ _ => exact ⟨mainTx, by rw [hsys]; exact Frame.rfl' _ _⟩
  | op o hm hsys _ _ _ =>
    rw [hsys]
    cases o <;> simp only [isTx] at hm <;> try cases hm
    · exact ⟨_, frame_begin σ.sys _ _⟩
    · exact ⟨_, frame_commit isys _⟩
    · exact ⟨_, frame_rollback isys _⟩
  | store extra t k val hx hsys _ _ _ =>
    rw [hsys]
    refine ⟨t, frame_afterStore isys extra ?_ t k val⟩
    rcases hx with ⟨_, he⟩ | ⟨n, _, he⟩ <;> subst he <;> simp
  | draw hsys _ _ _ => exact ⟨mainTx, by rw [hsys]; exact frame_gcDrawX _ _ _⟩
  | collect hz hsys _ _ _ => exact ⟨mainTx, by rw [hsys]; exact frame_collectAt _ _ _⟩
  | take job rest hp hsys _ _ _ => exact ⟨mainTx, by rw [hsys]; exact Frame.of_eq mainTx rfl rfl rfl rfl rfl rfl⟩
  | del v todo hsys _ _ _ => exact ⟨mainTx, by rw [hsys]; exact frame_delOne _ _ _⟩

/-- a content record that is gone stays gone (content ids are never reused) -/
theorem content_gone {σ σ' : St} {i : Nat} (h : CInv σ) (sh : Shape σ i σ') {cid : Nat}
    (hb : cid < σ.sys.nextCid) (hn : σ.sys.hasContent cid = none) : σ'.sys.hasContent cid = none := by
  obtain ⟨t, fr⟩ := shape_frame h sh
  rcases fr.content cid hb with e | e
  · rw [e]; exact hn
  · exact e

theorem busy_bound {σ : St} (h : CInv σ) {j : Nat} {job : List Ver} (hm : (j, job) ∈ σ.busy) :
    ∀ v ∈ job, v.cid < σ.sys.nextCid := by
  intro v hv
  have hjp : job ∈ (withBusy σ).pending := by
    show job ∈ σ.busy.map (·.2) ++ σ.sys.pending
    exact List.mem_append_left _ (List.mem_map.mpr ⟨(j, job), hm, rfl⟩)
  exact h.rel.inv.pendBound job hjp v hv

theorem delOne_gone (s : Sys) (v : Ver) : (delOne s v).hasContent v.cid = none := by
  unfold delOne
  split
  · rename_i hnone; exact hnone
  · simp only [Sys.hasContent]
    rw [Option.map_eq_none_iff, List.find?_eq_none]
    intro p hp
    have := (List.mem_filter.mp hp).2
    simpa using this

/-- the busy entries of the other threads are untouched by a step of thread `i` -/
theorem shape_busy {σ σ' : St} {i : Nat} (sh : Shape σ i σ') {j : Nat} (hij : j ≠ i) (job : List Ver) :
    (j, job) ∈ σ'.busy ↔ (j, job) ∈ σ.busy := by
  have happ : ∀ (x : List Ver), (j, job) ∈ σ.busy ++ [(i, x)] ↔ (j, job) ∈ σ.busy := by
    intro x
    simp only [List.mem_append, List.mem_singleton, Prod.mk.injEq]
    constructor
    · rintro (hm | ⟨e, _⟩)
      · exact hm
      · exact absurd e hij
    · exact Or.inl
  cases sh with
  | loc _ hb _ _ => rw [hb]
  | op _ _ _ hb _ _ => rw [hb]
  | store _ _ _ _ _ _ hb _ _ => rw [hb]
  | draw _ hb _ _ => rw [hb]
  | del _ _ _ hb _ _ => rw [hb]
  | collect _ _ hb _ _ => rw [hb]; exact happ _
  | take _ _ _ _ hb _ _ => rw [hb]; exact happ _
  | fin _ hb _ _ =>
    rw [hb, List.mem_filter]
    constructor
    · exact fun hm => hm.1
    · exact fun hm => ⟨hm, by simpa using hij⟩

theorem cfs_of_fields {a b : Sys} (h : CfsInv a) (h1 : b.cfs = a.cfs) (h2 : b.all = a.all)
    (h3 : ∀ job, job ∈ b.pending ↔ job ∈ a.pending) (h4 : b.recs = a.recs) : CfsInv b :=
  h.transfer h1 (fun k v hv => Or.inl ⟨k, v, by rw [h2]; exact hv, rfl⟩) (fun job hj => (h3 job).mpr hj)
    (fun r hr => ⟨r, by rw [h4]; exact hr, rfl⟩)

theorem gcDrawX_fields (c : Sys) (cl : List Nat) :
    (gcDrawX c cl).cfs = c.cfs ∧ (gcDrawX c cl).all = c.all ∧ (gcDrawX c cl).pending = c.pending ∧ (gcDrawX c cl).recs = c.recs := by
  unfold gcDrawX; split <;> exact ⟨rfl, rfl, rfl, rfl⟩

/-- the content-record invariant after a step, by shape -/
theorem cfs_shape {σ σ' : St} {i : Nat} (h : CInv σ) (c : CC σ) (sh : Shape σ i σ') : CfsInv (withBusy σ') := by
  have ib := h.rel.inv
  have hc := c.cfs
  cases sh with
  | loc hsys hbusy _ _ =>
    have : withBusy σ' = withBusy σ := by unfold withBusy; rw [hsys, hbusy]
    rw [this]; exact hc
  | op o hm hsys hbusy _ _ =>
    have : withBusy σ' = ((withBusy σ).step o).1 := by
      unfold withBusy; rw [hsys, hbusy, withB_step _ _ _ (isTx_isMut hm)]
    rw [this]; exact CfsInv.stepI ib hc o
  | store extra t k val hx hsys hbusy _ _ =>
    have : withBusy σ' = afterStore (withBusy σ) extra t k val := by
      unfold withBusy; rw [hsys, hbusy, withB_afterStore]
    rw [this]; exact CfsInv.store ib hc extra t k val hx
  | draw hsys hbusy _ _ =>
    have : withBusy σ' = gcDrawX (withBusy σ) σ.closing := by
      unfold withBusy; rw [hsys, hbusy, withB_gcDrawX]
    rw [this]
    obtain ⟨f1, f2, f3, f4⟩ := gcDrawX_fields (withBusy σ) σ.closing
    exact cfs_of_fields hc f1 f2 (fun job => by rw [f3]) f4
  | collect hz hsys hbusy _ _ =>
    refine hc.transfer ?_ ?_ ?_ ?_
    · show (withB _ σ'.sys).cfs = _; rw [hsys]; rfl
    · intro k v hv
      have hv' : v ∈ σ.sys.all k := hv
      by_cases hin : v ∈ (collectAt σ.sys hz).all k
      · left; exact ⟨k, v, by show v ∈ (withB _ σ'.sys).all k; rw [hsys]; exact hin, rfl⟩
      · right
        have : ∃ w ∈ delsAt σ.sys hz, w.cid = v.cid := by
          rcases removeLinks_cases (vs := delsAt σ.sys hz) hv' with hl | ⟨w, hw, hwc⟩
          · exact absurd hl hin
          · exact ⟨w, hw, hwc⟩
        obtain ⟨w, hw, hwc⟩ := this
        refine ⟨delsAt σ.sys hz, ?_, w, hw, hwc⟩
        show delsAt σ.sys hz ∈ σ'.busy.map (·.2) ++ σ'.sys.pending
        rw [hbusy]; simp
    · intro job hj
      have hj' : job ∈ σ.busy.map (·.2) ++ σ.sys.pending := hj
      show job ∈ σ'.busy.map (·.2) ++ σ'.sys.pending
      rw [hbusy, hsys]
      rcases List.mem_append.mp hj' with hj' | hj'
      · exact List.mem_append_left _ (by rw [List.map_append]; exact List.mem_append_left _ hj')
      · exact List.mem_append_right _ hj'
    · intro r hr
      exact ⟨r, by show r ∈ (withB _ σ'.sys).recs; rw [hsys]; exact hr, rfl⟩
  | take job rest hp hsys hbusy _ _ =>
    refine cfs_of_fields hc ?_ ?_ ?_ ?_
    · show (withB _ σ'.sys).cfs = _; rw [hsys]; rfl
    · show (withB _ σ'.sys).all = _; rw [hsys]; rfl
    · intro j
      show j ∈ σ'.busy.map (·.2) ++ σ'.sys.pending ↔ j ∈ σ.busy.map (·.2) ++ σ.sys.pending
      rw [hbusy, hsys, hp]
      simp only [List.map_append, List.map_cons, List.map_nil, List.mem_append, List.mem_cons, List.not_mem_nil, or_false]
      constructor
      · rintro ((a | a) | a)
        · exact Or.inl a
        · exact Or.inr (Or.inl a)
        · exact Or.inr (Or.inr a)
      · rintro (a | a | a)
        · exact Or.inl (Or.inl a)
        · exact Or.inl (Or.inr a)
        · exact Or.inr a
    · show (withB _ σ'.sys).recs = _; rw [hsys]; rfl
  | del v todo hsys hbusy _ _ =>
    have e : withBusy σ' = delOne (withBusy σ) v := by
      unfold withBusy; rw [hsys, hbusy, withB_delOne]
    rw [e]
    refine ⟨List.Nodup.sublist ((delOne_cfs_sublist _ v).map _) hc.nodup, ?_, ?_⟩
    · intro p hp
      obtain ⟨hp1, _⟩ := delOne_cfs_ne _ v p hp
      rcases hc.owned p hp1 with ⟨k, w, hw, hwc⟩ | ⟨job, hj, w, hw, hwc⟩
      · exact Or.inl ⟨k, w, by rw [delOne_all]; exact hw, hwc⟩
      · exact Or.inr ⟨job, by rw [delOne_pending]; exact hj, w, hw, hwc⟩
    · intro p hp
      obtain ⟨hp1, hp2⟩ := delOne_cfs_ne _ v p hp
      obtain ⟨r, hr, hrc⟩ := hc.hasRec p hp1
      exact ⟨r, delOne_recs_keep _ v r hr (by rw [hrc]; exact hp2), hrc⟩
  | fin hsys hbusy h1 _ =>
    refine ⟨?_, ?_, ?_⟩
    · show ((withB _ σ'.sys).cfs.map (·.1)).Nodup; rw [hsys]; exact hc.nodup
    · intro p hp
      have hp' : p ∈ (withBusy σ).cfs := by
        have : p ∈ (withB (σ'.busy.map (·.2)) σ'.sys).cfs := hp
        rw [hsys] at this; exact this
      rcases hc.owned p hp' with ⟨k, w, hw, hwc⟩ | ⟨job, hj, w, hw, hwc⟩
      · exact Or.inl ⟨k, w, by show w ∈ (withB _ σ'.sys).all k; rw [hsys]; exact hw, hwc⟩
      · right
        have hj' : job ∈ σ.busy.map (·.2) ++ σ.sys.pending := hj
        rcases List.mem_append.mp hj' with hb | hb
        · obtain ⟨e, he, hje⟩ := List.mem_map.mp hb
          by_cases hei : e.1 = i
          · -- a job of thread `i`: all its versions are deleted, so `p` cannot be one of them
            exfalso
            have hji := c.job i
            unfold JobInv at hji
            rw [h1] at hji
            have hmem : (i, job) ∈ σ.busy := by
              have : e = (i, job) := by cases e; simp_all
              rw [← this]; exact he
            rcases hji job hmem w hw with hin | hgone
            · cases hin
            · have hpc : p ∈ σ.sys.cfs := hp'
              have := hasContent_none_not_mem hgone p hpc
              exact this hwc.symm
          · refine ⟨job, ?_, w, hw, hwc⟩
            show job ∈ σ'.busy.map (·.2) ++ σ'.sys.pending
            rw [hbusy]
            exact List.mem_append_left _ (List.mem_map.mpr ⟨e, List.mem_filter.mpr ⟨he, by simpa using hei⟩, hje⟩)
        · refine ⟨job, ?_, w, hw, hwc⟩
          show job ∈ σ'.busy.map (·.2) ++ σ'.sys.pending
          rw [hsys]; exact List.mem_append_right _ hb
    · intro p hp
      have hp' : p ∈ (withBusy σ).cfs := by
        have : p ∈ (withB (σ'.busy.map (·.2)) σ'.sys).cfs := hp
        rw [hsys] at this; exact this
      obtain ⟨r, hr, hrc⟩ := hc.hasRec p hp'
      exact ⟨r, by show r ∈ (withB _ σ'.sys).recs; rw [hsys]; exact hr, hrc⟩

/-- the per-thread job assertions after a step, by shape -/
theorem job_shape {σ σ' : St} {i : Nat} (h : CInv σ) (c : CC σ) (sh : Shape σ i σ')
    (hthr : ∀ j, j ≠ i → σ'.thr j = σ.thr j) : ∀ j, JobInv σ' j := by
  intro j
  by_cases hij : j = i
  · subst hij
    have hj := c.job j
    unfold JobInv at hj ⊢
    -- a step that leaves the job list of `j` and its (empty) task alone
    have keep : σ'.busy = σ.busy → todoOf (σ.thr j).pc = none → todoOf (σ'.thr j).pc = none →
        (match todoOf (σ'.thr j).pc with
          | some todo => ∀ job, (j, job) ∈ σ'.busy → ∀ v ∈ job, v ∈ todo ∨ σ'.sys.hasContent v.cid = none
          | none => ∀ job, (j, job) ∉ σ'.busy) := by
      intro hb h1 h2
      rw [h1] at hj; rw [h2, hb]; exact hj
    cases sh with
    | loc _ hb h1 h2 => exact keep hb h1 h2
    | op _ _ _ hb h1 h2 => exact keep hb h1 h2
    | store _ _ _ _ _ _ hb h1 h2 => exact keep hb h1 h2
    | draw _ hb h1 h2 => exact keep hb h1 h2
    | collect hz _ hb h1 h2 =>
      rw [h1] at hj; rw [h2]
      intro job hm v hv
      rw [hb] at hm
      rcases List.mem_append.mp hm with hm | hm
      · exact absurd hm (hj job)
      · simp only [List.mem_singleton, Prod.mk.injEq] at hm
        rw [hm.2] at hv; exact Or.inl hv
    | take job0 rest _ _ hb h1 h2 =>
      rw [h1] at hj; rw [h2]
      intro job hm v hv
      rw [hb] at hm
      rcases List.mem_append.mp hm with hm | hm
      · exact absurd hm (hj job)
      · simp only [List.mem_singleton, Prod.mk.injEq] at hm
        rw [hm.2] at hv; exact Or.inl hv
    | del v todo hsys hb h1 h2 =>
      rw [h1] at hj; rw [h2]
      intro job hm w hw
      rw [hb] at hm
      rcases hj job hm w hw with hin | hgone
      · rcases List.mem_cons.mp hin with e | hin
        · right; rw [hsys, e]; exact delOne_gone σ.sys v
        · exact Or.inl hin
      · right
        exact content_gone h (Shape.del v todo hsys hb h1 h2) (busy_bound h hm w hw) hgone
    | fin _ hb _ h2 =>
      rw [h2]
      intro job hm
      rw [hb] at hm
      have := (List.mem_filter.mp hm).2
      simp at this
  · have hj := c.job j
    unfold JobInv at hj ⊢
    rw [hthr j hij]
    cases ht : todoOf (σ.thr j).pc with
    | none =>
      rw [ht] at hj
      intro job hm
      exact hj job ((shape_busy sh hij job).mp hm)
    | some todo =>
      rw [ht] at hj
      intro job hm v hv
      have hm' := (shape_busy sh hij job).mp hm
      rcases hj job hm' v hv with hin | hgone
      · exact Or.inl hin
      · exact Or.inr (content_gone h sh (busy_bound h hm' v hv) hgone)

theorem cc_step {σ σ' : St} {i : Nat} (h : CInv σ) (c : CC σ) (hs : step σ i = some σ') : CC σ' :=
  have sh := step_shape hs
  ⟨cfs_shape h c sh, job_shape h c sh (step_others hs)⟩

theorem entry_todo {op : Op} {pc : Pc} (h : entry op = some pc) : todoOf pc = none := by
  cases op <;> simp only [entry, Option.some.injEq] at h <;> first | (subst h; rfl) | cases h

theorem cc_invoke {σ σ' : St} {i : Nat} {op : Op} (c : CC σ) (hs : invoke σ i op = some σ') : CC σ' := by
  unfold invoke at hs
  split at hs
  · cases hs
  · rename_i hidle
    have hidle' : (σ.thr i).pc = .idle := by simpa using hidle
    cases hentry : entry op with
    | none => simp [hentry] at hs
    | some pc =>
      simp only [hentry] at hs
      have hpc := entry_todo hentry
      -- every successful call: same shared state and job list, thread `i` at an entry program counter
      have key : ∀ (owner' : Nat → Option Nat) (th : Thread), th.pc = pc →
          CC { σ.setThr i th with owner := owner' } := by
        intro owner' th hth
        refine ⟨c.cfs, ?_⟩
        intro j
        have hj := c.job j
        unfold JobInv at hj ⊢
        by_cases hij : j = i
        · subst hij
          rw [show ({ σ.setThr j th with owner := owner' } : St).thr j = th from setThr_self σ j th, hth, hpc]
          rw [hidle'] at hj
          exact hj
        · rw [show ({ σ.setThr i th with owner := owner' } : St).thr j = σ.thr j from setThr_other σ i th hij]
          exact hj
      cases op with
      | begin t lvl =>
        simp only [] at hs
        split at hs
        · cases hs
        · simp only [Option.some.injEq] at hs; subst hs; exact key _ _ rfl
      | reopen f => simp [entry] at hentry
      | tree => simp [entry] at hentry
      | _ =>
        simp only [] at hs
        obtain ⟨_, hs⟩ := ite_some hs
        subst hs
        exact key σ.owner _ rfl

theorem CC.init : CC ({} : St) := by
  refine ⟨?_, ?_⟩
  · show CfsInv (withB [] ({} : Sys)); exact CfsInv.init
  · intro i job hm; cases hm

theorem cc_reachable (acts : List Act) : CC (exec {} acts) := by
  suffices ∀ σ, CInv σ → CC σ → CC (exec σ acts) from this {} CInv.init CC.init
  induction acts with
  | nil => intro σ _ c; exact c
  | cons a acts ih =>
    intro σ h c
    have hn := next_inv h a
    refine ih (next σ a) hn ?_
    cases a with
    | call i op =>
      simp only [next]
      cases hs : invoke σ i op with
      | none => exact c
      | some σ' => exact cc_invoke c hs
    | run i =>
      simp only [next]
      cases hs : step σ i with
      | none => exact c
      | some σ' => exact cc_step h c hs

end FsDb.Conc
