import FsDb.Proofs.Inv
/-! Reads of the concrete model return what the specification says (given `R`). -/
namespace FsDb
open Sys Spec

theorem newer_self (a : Option Ver) : Sys.newer a a = a := by
  cases a <;> simp [Sys.newer]

theorem committed_eq {c : Sys} {s : State} {cl : List Nat} (h : Rx cl c s) (k : Key) :
    committed s k = (Sys.latest (c.main k)).map absV := by
  obtain ⟨pre, h1, _, h3⟩ := h.hist k
  unfold committed Sys.latest
  rw [h1]
  by_cases hm : c.main k = []
  · have hp : pre = [] := by
      by_cases hp : pre = []
      · exact hp
      · obtain ⟨hd, hh, _⟩ := h3 hp
        simp [hm] at hh
    simp [hm, hp]
  · rw [List.getLast?_append]
    have : ((c.main k).map absV).getLast? = ((c.main k).getLast?).map absV := by
      rw [List.getLast?_map]
    rw [this]
    cases hg : (c.main k).getLast? with
    | none => exact absurd (List.getLast?_eq_none_iff.mp hg) hm
    | some v => simp

/-- snapshot lookups on the never-forgotten history agree with lookups on what main still holds -/
theorem snapshot_eq {c : Sys} {s : State} {cl : List Nat} (h : Rx cl c s) (k : Key) {r : TxRec} (hr : r ∈ c.reg)
    (hcl : r.id ∉ cl) :
    ((s.hist k).filter (fun v => v.stamp < r.seq)).getLast? = (Sys.lastBefore (c.main k) r.seq).map absV := by
  obtain ⟨pre, h1, h2, h3⟩ := h.hist k
  rw [lastBefore_eq_spec (h.inv.mainSorted k), h1, List.filter_append]
  unfold lastBeforeSpec
  have hmap : ((c.main k).map absV).filter (fun v => decide (v.stamp < r.seq))
      = ((c.main k).filter (fun v => decide (v.seq < r.seq))).map absV := by
    rw [List.filter_map]; rfl
  rw [hmap, List.getLast?_append, List.getLast?_map]
  by_cases hp : pre = []
  · simp [hp]
  · obtain ⟨hd, hh, hlt⟩ := h3 hp
    have hmem : hd ∈ c.main k := by
      cases hm : c.main k with
      | nil => simp [hm] at hh
      | cons a t => simp [hm] at hh; subst hh; simp
    have hne : (c.main k).filter (fun v => decide (v.seq < r.seq)) ≠ [] := by
      intro hnil
      rw [List.filter_eq_nil_iff] at hnil
      have := hnil hd hmem
      simp at this
      have := hlt r hr hcl
      omega
    cases hg : ((c.main k).filter (fun v => decide (v.seq < r.seq))).getLast? with
    | none => exact absurd (List.getLast?_eq_none_iff.mp hg) hne
    | some v => simp

/-! ### ReadUncommitted: the last link of the all-store is the newest write by anyone -/

/-- candidates a ReadUncommitted read chooses from, on the model side -/
def ruFold (c : Sys) (k : Key) (rs : List TxRec) (init : Option Ver) : Option Ver :=
  rs.foldl (fun acc r => Sys.newer (c.ownLatest r.id k) acc) init

theorem ruFold_spec {c : Sys} {s : State} {cl : List Nat} (h : Rx cl c s) (k : Key) :
    s.open_.foldl (fun acc t => newerS (t.own k) acc) (committed s k)
      = (ruFold c k c.reg (Sys.latest (c.main k))).map absV := by
  have hreg := h.reg
  have hown := h.own
  rw [committed_eq h k]
  unfold ruFold
  generalize Sys.latest (c.main k) = init
  generalize c.reg = rs at hreg
  generalize s.open_ = os at hreg hown
  induction os generalizing rs init with
  | nil =>
    cases rs with
    | nil => rfl
    | cons a r => simp at hreg
  | cons x os ih =>
    cases rs with
    | nil => simp at hreg
    | cons a rs =>
      simp only [List.map_cons, List.cons.injEq, Prod.mk.injEq] at hreg
      obtain ⟨⟨h1, _, _⟩, h4⟩ := hreg
      simp only [List.foldl_cons]
      have hx := hown x (by simp) k
      rw [hx, h1, ← newer_map_absV]
      exact ih (Sys.newer (c.ownLatest a.id k) init) rs h4 (fun t ht => hown t (List.mem_cons_of_mem _ ht))

theorem newer_cases (a b : Option Ver) : Sys.newer a b = a ∨ Sys.newer a b = b := by
  cases a with
  | none => cases b <;> simp [Sys.newer]
  | some x =>
    cases b with
    | none => simp [Sys.newer]
    | some y =>
      simp only [Sys.newer]
      split
      · exact Or.inl rfl
      · exact Or.inr rfl

theorem newer_ge_left (a b : Option Ver) (x : Ver) (ha : a = some x) :
    ∃ y, Sys.newer a b = some y ∧ x.seq ≤ y.seq := by
  subst ha
  cases b with
  | none => exact ⟨x, rfl, Nat.le_refl _⟩
  | some z =>
    simp only [Sys.newer]
    split
    · exact ⟨x, rfl, Nat.le_refl _⟩
    · exact ⟨z, rfl, by omega⟩

theorem newer_ge_right (a b : Option Ver) (x : Ver) (hb : b = some x) :
    ∃ y, Sys.newer a b = some y ∧ x.seq ≤ y.seq := by
  subst hb
  cases a with
  | none => exact ⟨x, rfl, Nat.le_refl _⟩
  | some z =>
    simp only [Sys.newer]
    split
    · exact ⟨z, rfl, by omega⟩
    · exact ⟨x, rfl, Nat.le_refl _⟩

/-- the fold returns one of its candidates (or the initial value) -/
theorem ruFold_mem (c : Sys) (k : Key) (rs : List TxRec) (init : Option Ver) :
    ruFold c k rs init = init ∨ ∃ r ∈ rs, ruFold c k rs init = c.ownLatest r.id k := by
  induction rs generalizing init with
  | nil => exact Or.inl rfl
  | cons a rs ih =>
    simp only [ruFold, List.foldl_cons]
    rcases ih (Sys.newer (c.ownLatest a.id k) init) with h | ⟨r, hr, h⟩
    · rcases newer_cases (c.ownLatest a.id k) init with h2 | h2
      · exact Or.inr ⟨a, by simp, h.trans h2⟩
      · exact Or.inl (h.trans h2)
    · exact Or.inr ⟨r, List.mem_cons_of_mem _ hr, h⟩

/-- the fold dominates every candidate -/
theorem ruFold_ge (c : Sys) (k : Key) (rs : List TxRec) (init : Option Ver) :
    (∀ x, init = some x → ∃ y, ruFold c k rs init = some y ∧ x.seq ≤ y.seq) ∧
    (∀ r ∈ rs, ∀ x, c.ownLatest r.id k = some x → ∃ y, ruFold c k rs init = some y ∧ x.seq ≤ y.seq) := by
  induction rs generalizing init with
  | nil => exact ⟨fun x hx => ⟨x, hx, Nat.le_refl _⟩, by simp⟩
  | cons a rs ih =>
    simp only [ruFold, List.foldl_cons]
    have ih' := ih (Sys.newer (c.ownLatest a.id k) init)
    refine ⟨?_, ?_⟩
    · intro x hx
      obtain ⟨y, hy, hxy⟩ := newer_ge_right (c.ownLatest a.id k) init x hx
      obtain ⟨z, hz, hyz⟩ := ih'.1 y hy
      exact ⟨z, hz, by omega⟩
    · intro r hr x hx
      simp only [List.mem_cons] at hr
      rcases hr with rfl | hr
      · obtain ⟨y, hy, hxy⟩ := newer_ge_left (c.ownLatest r.id k) init x hx
        obtain ⟨z, hz, hyz⟩ := ih'.1 y hy
        exact ⟨z, hz, by omega⟩
      · exact ih'.2 r hr x hx

theorem ownLatest_tx {c : Sys} {t : Nat} (ht : t ≠ mainTx) (k : Key) :
    c.ownLatest t k = match c.txs t with | some st => Sys.latest (st k) | none => none := by
  simp only [Sys.ownLatest, Sys.txStore, ht, if_false]
  cases c.txs t <;> rfl

theorem ownLatest_mem {c : Sys} (h : Inv c) {t : Nat} {k : Key} {v : Ver}
    (hv : c.ownLatest t k = some v) : v ∈ c.all k := by
  unfold Sys.ownLatest Sys.txStore at hv
  split at hv
  · rename_i st hst
    split at hst
    · cases hst; exact h.main_sub_all (latest_mem hv)
    · exact h.tx_sub_all hst (latest_mem hv)
  · cases hv

/-- two members of a strictly sorted list with the same seq are equal -/
theorem SortedSeq.eq_of_seq_eq {l : List Ver} (hs : SortedSeq l) {a b : Ver} (ha : a ∈ l) (hb : b ∈ l)
    (h : a.seq = b.seq) : a = b := by
  obtain ⟨i, hi, rfl⟩ := List.getElem_of_mem ha
  obtain ⟨j, hj, rfl⟩ := List.getElem_of_mem hb
  rcases Nat.lt_trichotomy i j with hij | hij | hij
  · have := hs.lt_of_lt hi hj hij; omega
  · subst hij; rfl
  · have := hs.lt_of_lt hj hi hij; omega

theorem ru_eq {c : Sys} (h : Inv c) (k : Key) :
    ruFold c k c.reg (Sys.latest (c.main k)) = Sys.latest (c.all k) := by
  have hge := ruFold_ge c k c.reg (Sys.latest (c.main k))
  have hmem := ruFold_mem c k c.reg (Sys.latest (c.main k))
  cases hall : Sys.latest (c.all k) with
  | none =>
    have hnil : c.all k = [] := latest_none hall
    -- no candidate exists
    rcases hmem with hm | ⟨r, _, hm⟩
    · rw [hm]
      cases hl : Sys.latest (c.main k) with
      | none => rfl
      | some v => have := h.main_sub_all (latest_mem hl); simp [hnil] at this
    · rw [hm]
      cases hl : c.ownLatest r.id k with
      | none => rfl
      | some v => have := ownLatest_mem h hl; simp [hnil] at this
  | some w =>
    have hw : w ∈ c.all k := latest_mem hall
    have hmax := latest_max (h.allSorted k) hall
    -- w is live: it is dominated by a candidate, hence by the fold
    have hdom : ∃ y, ruFold c k c.reg (Sys.latest (c.main k)) = some y ∧ w.seq ≤ y.seq := by
      rcases (h.allMem k w).mp hw with hm | ⟨t, st, hst, hm⟩
      · cases hl : Sys.latest (c.main k) with
        | none => simp [latest_none hl] at hm
        | some x =>
          obtain ⟨y, hy, hxy⟩ := hge.1 x hl
          exact ⟨y, by rw [← hl]; exact hy, by have := latest_max (h.mainSorted k) hl w hm; omega⟩
      · obtain ⟨htm, r, hr, hrid⟩ := h.txsReg t st hst
        cases hl : Sys.latest (st k) with
        | none => simp [latest_none hl] at hm
        | some x =>
          have hown : c.ownLatest r.id k = some x := by
            rw [hrid, ownLatest_tx htm]; simp [hst, hl]
          obtain ⟨y, hy, hxy⟩ := hge.2 r hr x hown
          exact ⟨y, hy, by have := latest_max (h.txSorted t st hst k) hl w hm; omega⟩
    obtain ⟨y, hy, hwy⟩ := hdom
    -- the fold's result is a member of the all-store, hence ≤ w; so it equals w
    have hyall : y ∈ c.all k := by
      rcases hmem with hm | ⟨r, _, hm⟩
      · rw [hm] at hy; exact h.main_sub_all (latest_mem hy)
      · rw [hm] at hy; exact ownLatest_mem h hy
    have := hmax y hyall
    have hseq : y.seq = w.seq := by omega
    rw [hy, (h.allSorted k).eq_of_seq_eq hyall hw hseq]

end FsDb

namespace FsDb
open Sys Spec

theorem coreGet_main {c : Sys} {s : State} {cl : List Nat} (h : Rx cl c s) (k : Key) :
    (c.coreGet ⟨mainTx, .rc, 0⟩ k).map absV = visible s .rc 0 (fun _ => none) k := by
  simp only [Sys.coreGet, visible, Sys.ownLatest, Sys.txStore, if_true]
  rw [newer_self, committed_eq h k]
  simp [newerS]

theorem coreGet_reg {c : Sys} {s : State} {cl : List Nat} (h : Rx cl c s) {tx : TxRec} (htx : tx ∈ c.reg) (hcl : tx.id ∉ cl)
    {own : Key → Option SVer} (k : Key) (hown : own k = (c.ownLatest tx.id k).map absV) :
    (c.coreGet tx k).map absV = visible s tx.level tx.seq own k := by
  have hne : tx.id ≠ mainTx := h.inv.regMain tx htx
  unfold Sys.coreGet visible
  cases hl : tx.level with
  | ru =>
    simp only
    rw [ruFold_spec h k, ru_eq h.inv k]
  | rc =>
    simp only
    rw [newer_map_absV, hown, committed_eq h k]
  | rr =>
    simp only
    rw [hown, snapshot_eq h k htx hcl]
    cases ho : c.ownLatest tx.id k with
    | none => simp [Sys.newer]
    | some o =>
      simp only [Option.map_some]
      -- the own version is newer than anything before the begin number
      have ho' := ho
      rw [ownLatest_tx hne] at ho'
      cases hst : c.txs tx.id with
      | none => simp [hst] at ho'
      | some st =>
        simp only [hst] at ho'
        have hgt := h.inv.ownAfter tx htx st hst k o (latest_mem ho')
        cases hlb : Sys.lastBefore (c.main k) tx.seq with
        | none => simp [Sys.newer]
        | some m =>
          have hm : m.seq < tx.seq := by
            rw [lastBefore_eq_spec (h.inv.mainSorted k)] at hlb
            have := List.mem_of_getLast? hlb
            simpa using (List.mem_filter.mp this).2
          have : o.seq > m.seq := by omega
          simp [Sys.newer, this]
  | ser =>
    simp only
    rw [hown, snapshot_eq h k htx hcl]
    cases ho : c.ownLatest tx.id k with
    | none => simp [Sys.newer]
    | some o =>
      simp only [Option.map_some]
      have ho' := ho
      rw [ownLatest_tx hne] at ho'
      cases hst : c.txs tx.id with
      | none => simp [hst] at ho'
      | some st =>
        simp only [hst] at ho'
        have hgt := h.inv.ownAfter tx htx st hst k o (latest_mem ho')
        cases hlb : Sys.lastBefore (c.main k) tx.seq with
        | none => simp [Sys.newer]
        | some m =>
          have hm : m.seq < tx.seq := by
            rw [lastBefore_eq_spec (h.inv.mainSorted k)] at hlb
            have := List.mem_of_getLast? hlb
            simpa using (List.mem_filter.mp this).2
          have : o.seq > m.seq := by omega
          simp [Sys.newer, this]

theorem lastBefore_mem {l : List Ver} (hs : SortedSeq l) {b : Nat} {v : Ver}
    (h : Sys.lastBefore l b = some v) : v ∈ l := by
  rw [lastBefore_eq_spec hs] at h
  exact (List.mem_filter.mp (List.mem_of_getLast? h)).1

/-- whatever `core.Get` returns is a live version of that key -/
theorem coreGet_mem {c : Sys} (h : Inv c) (tx : TxRec) (k : Key) {v : Ver}
    (hv : c.coreGet tx k = some v) : v ∈ c.all k := by
  unfold Sys.coreGet at hv
  have key : ∀ (o : Option Ver), (∀ x, o = some x → x ∈ c.all k) →
      Sys.newer (c.ownLatest tx.id k) o = some v → v ∈ c.all k := by
    intro o ho hn
    rcases newer_cases (c.ownLatest tx.id k) o with h1 | h1
    · rw [h1] at hn; exact ownLatest_mem h hn
    · rw [h1] at hn; exact ho v hn
  cases hl : tx.level with
  | ru => simp only [hl] at hv; exact latest_mem hv
  | rc =>
    simp only [hl] at hv
    exact key _ (fun x hx => h.main_sub_all (latest_mem hx)) hv
  | rr =>
    simp only [hl] at hv
    exact key _ (fun x hx => h.main_sub_all (lastBefore_mem (h.mainSorted k) hx)) hv
  | ser =>
    simp only [hl] at hv
    exact key _ (fun x hx => h.main_sub_all (lastBefore_mem (h.mainSorted k) hx)) hv

/-- reader contexts correspond -/
theorem ctx_cases {c : Sys} {s : State} {cl : List Nat} (h : Rx cl c s) (t : Nat) :
    (c.regGet t = none ∧ ctxOf s t = none) ∨
    (t = mainTx ∧ c.regGet t = some ⟨mainTx, .rc, 0⟩ ∧ ctxOf s t = some (.rc, 0, fun _ => none)) ∨
    (t ≠ mainTx ∧ ∃ tx x, c.regGet t = some tx ∧ tx ∈ c.reg ∧ tx.id = t ∧ x ∈ s.open_ ∧ x.id = t ∧
        ctxOf s t = some (tx.level, tx.seq, x.own)) := by
  by_cases ht : t = mainTx
  · right; left; simp [Sys.regGet, ctxOf, ht]
  · have hf := h.find_eq t
    simp only [Sys.regGet, ctxOf, ht, if_false]
    cases hr : c.reg.find? (·.id = t) with
    | none =>
      left
      rw [hr] at hf
      cases hx : find s t with
      | none => simp
      | some x => rw [hx] at hf; simp at hf
    | some tx =>
      right; right
      rw [hr] at hf
      cases hx : find s t with
      | none => rw [hx] at hf; simp at hf
      | some x =>
        rw [hx] at hf
        simp only [Option.map_some, Option.some.injEq, Prod.mk.injEq] at hf
        obtain ⟨h1, h2, h3⟩ := hf
        have hxm : x ∈ s.open_ := List.mem_of_find?_eq_some hx
        have hxid : x.id = t := by simpa using List.find?_some hx
        have htm : tx ∈ c.reg := List.mem_of_find?_eq_some hr
        have htid : tx.id = t := by simpa using List.find?_some hr
        exact ⟨ht, tx, x, rfl, htm, htid, hxm, hxid, by simp [h2, h3]⟩

/-- `store.Get` returns what the specification says -/
theorem get_eq {c : Sys} {s : State} {cl : List Nat} (h : Rx cl c s) (t : Nat) (k : Key)
    (hcl : t ∉ cl := by simp) : c.get t k = Spec.get s t k := by
  have out_eq : ∀ (tx : TxRec) (sv : Option SVer), (c.coreGet tx k).map absV = sv →
      (match c.coreGet tx k with
        | none => Out.err .notFound
        | some v => match c.hasContent v.cid with
          | none => Out.err .notFound
          | some cn => Out.val cn) = outOf sv := by
    intro tx sv hsv
    cases hg : c.coreGet tx k with
    | none => rw [hg] at hsv; simp at hsv; subst hsv; rfl
    | some v =>
      rw [hg] at hsv
      simp only [Option.map_some] at hsv
      subst hsv
      dsimp only
      rw [h.inv.stor k v (coreGet_mem h.inv tx k hg)]
      cases hv : v.val <;> simp [outOf, absV, hv]
  unfold Sys.get Spec.get
  rcases ctx_cases h t with ⟨h1, h2⟩ | ⟨_, h1, h2⟩ | ⟨_, tx, x, h1, htx, htid, hx, hxid, h2⟩
  · rw [h1, h2]
  · rw [h1, h2]; exact out_eq _ _ (coreGet_main h k)
  · rw [h1, h2]
    refine out_eq _ _ (coreGet_reg h htx (htid ▸ hcl) k ?_)
    rw [htid, ← hxid]; exact h.own x hx k

/-- `store.GetKeys` lists what the specification says -/
theorem getKeys_eq {c : Sys} {s : State} {cl : List Nat} (h : Rx cl c s) (t : Nat)
    (hcl : t ∉ cl := by simp) : c.getKeys t = Spec.getKeys s t := by
  have listed_eq : ∀ (tx : TxRec) (k : Key) (sv : Option SVer), (c.coreGet tx k).map absV = sv →
      c.listed tx k = hasValue sv := by
    intro tx k sv hsv
    unfold Sys.listed
    cases hg : c.coreGet tx k with
    | none => rw [hg] at hsv; simp at hsv; subst hsv; rfl
    | some v =>
      rw [hg] at hsv
      simp only [Option.map_some] at hsv
      subst hsv
      dsimp only
      rw [h.inv.stor k v (coreGet_mem h.inv tx k hg)]
      cases hv : v.val <;> simp [hasValue, absV, hv]
  unfold Sys.getKeys Spec.getKeys
  rcases ctx_cases h t with ⟨h1, h2⟩ | ⟨_, h1, h2⟩ | ⟨_, tx, x, h1, htx, htid, hx, hxid, h2⟩
  · rw [h1, h2]
  · rw [h1, h2, h.dom]
    simp only [Out.keys.injEq]
    congr 1
    apply List.filter_congr
    intro k _
    exact listed_eq _ k _ (coreGet_main h k)
  · rw [h1, h2, h.dom]
    simp only [Out.keys.injEq]
    congr 1
    apply List.filter_congr
    intro k _
    refine listed_eq _ k _ (coreGet_reg h htx (htid ▸ hcl) k ?_)
    rw [htid, ← hxid]; exact h.own x hx k

end FsDb
