import FsDb.Proofs.Refine
/-!
  The record invariant: how the Badger `file/` records (`recs`) relate to the in-memory version
  lists, through every operation -- and, from it, that `Close`+`Open` (`core.Load`) refines the
  specification's `reopen`.  With it the refinement covers every history *including reopenings*
  (same process or a fresh one).
-/
namespace FsDb
open Sys Spec

structure RecInv (c : Sys) : Prop where
  /-- every main version has its record -/
  mainRec : ∀ k, ∀ v ∈ c.main k, v ∈ c.recs
  /-- every version of an open transaction has its record -/
  txRec : ∀ t st, c.txs t = some st → ∀ k, ∀ v ∈ st k, v ∈ c.recs
  /-- every record tagged main is dominated by a current main version of its key, and is that
      version when the numbers are equal -/
  recMain : ∀ r ∈ c.recs, r.tx = mainTx → ∃ w ∈ c.main r.key, r.seq ≤ w.seq ∧ (r.seq = w.seq → r = w)
  /-- content ids of records are allocated ones -/
  recBound : ∀ r ∈ c.recs, r.cid < c.nextCid

theorem RecInv.init : RecInv ({} : Sys) := by
  constructor <;> simp [Store.empty]

/-- only `main`, `txs` and `recs` matter -/
theorem RecInv.congr {a b : Sys} (h : RecInv a) (h1 : b.main = a.main) (h2 : b.txs = a.txs) (h3 : b.recs = a.recs)
    (h4 : a.nextCid ≤ b.nextCid := by exact Nat.le_refl _) : RecInv b :=
  ⟨by rw [h1, h3]; exact h.mainRec, by rw [h2, h3]; exact h.txRec, by rw [h1, h3]; exact h.recMain,
   by rw [h3]; exact fun r hr => Nat.lt_of_lt_of_le (h.recBound r hr) h4⟩

/-- dropping transaction stores keeps it -/
theorem RecInv.shrink {a b : Sys} (h : RecInv a) (h1 : b.main = a.main) (h3 : b.recs = a.recs)
    (h2 : ∀ t st, b.txs t = some st → a.txs t = some st) (h4 : a.nextCid ≤ b.nextCid := by exact Nat.le_refl _) : RecInv b :=
  ⟨by rw [h1, h3]; exact h.mainRec, by rw [h3]; exact fun t st hst => h.txRec t st (h2 t st hst),
   by rw [h1, h3]; exact h.recMain, by rw [h3]; exact fun r hr => Nat.lt_of_lt_of_le (h.recBound r hr) h4⟩

/-! ### deleting records of dead versions -/

theorem delOne_recs_sub (s : Sys) (v r : Ver) (h : r ∈ (delOne s v).recs) : r ∈ s.recs := by
  unfold delOne at h
  split at h
  · exact h
  · exact mem_of_filter h

theorem delOne_recs_keep (s : Sys) (v r : Ver) (h : r ∈ s.recs) (hne : r.cid ≠ v.cid) : r ∈ (delOne s v).recs := by
  unfold delOne
  split
  · exact h
  · exact List.mem_filter.mpr ⟨h, by simpa using hne⟩

theorem deleteFiles_recs_sub (c : Sys) (vs : List Ver) (r : Ver) (h : r ∈ (c.deleteFiles vs).recs) : r ∈ c.recs := by
  rw [deleteFiles_eq] at h
  induction vs generalizing c with
  | nil => exact h
  | cons v vs ih => exact delOne_recs_sub c v r (ih (delOne c v) h)

theorem deleteFiles_recs_keep (c : Sys) (vs : List Ver) (r : Ver) (h : r ∈ c.recs) (hne : ∀ v ∈ vs, r.cid ≠ v.cid) :
    r ∈ (c.deleteFiles vs).recs := by
  rw [deleteFiles_eq]
  induction vs generalizing c with
  | nil => exact h
  | cons v vs ih =>
    simp only [List.foldl_cons]
    exact ih (delOne c v) (delOne_recs_keep c v r h (hne v (by simp))) (fun u hu => hne u (List.mem_cons_of_mem _ hu))

theorem RecInv.deleteFiles {c : Sys} (i : Inv c) (h : RecInv c) (vs : List Ver)
    (hd : ∀ v ∈ vs, ∀ k, ∀ w ∈ c.all k, w.cid ≠ v.cid) : RecInv (c.deleteFiles vs) := by
  obtain ⟨_, f2, f3, _, _, _, f7, _⟩ := deleteFiles_fields c vs
  refine ⟨?_, ?_, ?_, ?_⟩
  · intro k v hv
    rw [f2] at hv
    exact deleteFiles_recs_keep c vs v (h.mainRec k v hv) (fun u hu => hd u hu k v (i.main_sub_all hv))
  · intro t st hst k v hv
    rw [f3] at hst
    exact deleteFiles_recs_keep c vs v (h.txRec t st hst k v hv) (fun u hu => hd u hu k v (i.tx_sub_all hst hv))
  · intro r hr ht
    rw [f2]
    exact h.recMain r (deleteFiles_recs_sub c vs r hr) ht
  · intro r hr
    rw [f7]
    exact h.recBound r (deleteFiles_recs_sub c vs r hr)

/-! ### writes -/

@[simp] theorem addDom_recs (s : Sys) (k : Key) : (s.addDom k).recs = s.recs := by unfold Sys.addDom; split <;> rfl

section coreStoreFields
variable (c : Sys) (t : Nat) (k : Key) (cid : Nat) (val : Option Nat)

/-- the version `core.Store` writes -/
def storedVer : Ver := ⟨k, t, cid, c.counter + 1, val⟩

theorem coreStore_recs : (c.coreStore t k cid val).recs = c.recs ++ [storedVer c t k cid val] := by
  simp [Sys.coreStore, Sys.setTxStore, storedVer]; split <;> rfl
theorem coreStore_nextCid : (c.coreStore t k cid val).nextCid = c.nextCid := by
  simp [Sys.coreStore, Sys.setTxStore]; split <;> rfl
theorem coreStore_main_main (ht : t = mainTx) :
    (c.coreStore t k cid val).main = upd c.main k (c.main k ++ [storedVer c t k cid val]) := by
  simp [Sys.coreStore, Sys.setTxStore, Sys.txStore, ht, storedVer]
theorem coreStore_main_txs (ht : t = mainTx) : (c.coreStore t k cid val).txs = c.txs := by
  simp [Sys.coreStore, Sys.setTxStore, ht]
theorem coreStore_tx_main (ht : t ≠ mainTx) : (c.coreStore t k cid val).main = c.main := by
  simp [Sys.coreStore, Sys.setTxStore, ht]
theorem coreStore_tx_txs (ht : t ≠ mainTx) :
    (c.coreStore t k cid val).txs = fun t' => if t' = t then
      some (upd ((c.txs t).getD Store.empty) k (((c.txs t).getD Store.empty) k ++ [storedVer c t k cid val])) else c.txs t' := by
  simp [Sys.coreStore, Sys.setTxStore, Sys.txStore, ht, storedVer]
end coreStoreFields

theorem RecInv.coreStore {c : Sys} (h : RecInv c) (t : Nat) (k : Key) (cid : Nat) (val : Option Nat)
    (hcid : cid < c.nextCid) : RecInv (c.coreStore t k cid val) := by
  have hb : ∀ r ∈ (c.coreStore t k cid val).recs, r.cid < (c.coreStore t k cid val).nextCid := by
    intro r hr
    rw [coreStore_recs] at hr
    rw [coreStore_nextCid]
    rcases List.mem_append.mp hr with hr | hr
    · exact h.recBound r hr
    · simp only [List.mem_singleton] at hr; subst hr; exact hcid
  by_cases ht : t = mainTx
  · refine ⟨?_, ?_, ?_, hb⟩
    · intro k' v hv
      rw [coreStore_main_main c t k cid val ht] at hv
      rw [coreStore_recs]
      by_cases hk : k' = k
      · subst hk
        rw [upd_same] at hv
        rcases List.mem_append.mp hv with hv | hv
        · exact List.mem_append_left _ (h.mainRec _ v hv)
        · exact List.mem_append_right _ hv
      · rw [upd_other _ _ hk] at hv
        exact List.mem_append_left _ (h.mainRec _ v hv)
    · intro t' st hst k' v hv
      rw [coreStore_main_txs c t k cid val ht] at hst
      rw [coreStore_recs]
      exact List.mem_append_left _ (h.txRec t' st hst k' v hv)
    · intro r hr hrt
      rw [coreStore_recs] at hr
      rw [coreStore_main_main c t k cid val ht]
      rcases List.mem_append.mp hr with hr | hr
      · obtain ⟨w, hw, h1, h2⟩ := h.recMain r hr hrt
        refine ⟨w, ?_, h1, h2⟩
        by_cases hk : r.key = k
        · rw [hk, upd_same]; rw [hk] at hw; exact List.mem_append_left _ hw
        · rw [upd_other _ _ hk]; exact hw
      · simp only [List.mem_singleton] at hr
        subst hr
        exact ⟨_, by simp [storedVer, upd_same], Nat.le_refl _, fun _ => rfl⟩
  · refine ⟨?_, ?_, ?_, hb⟩
    · intro k' v hv
      rw [coreStore_tx_main c t k cid val ht] at hv
      rw [coreStore_recs]
      exact List.mem_append_left _ (h.mainRec k' v hv)
    · intro t' st hst k' v hv
      rw [coreStore_tx_txs c t k cid val ht] at hst
      rw [coreStore_recs]
      by_cases htt : t' = t
      · subst htt
        simp only [if_true, Option.some.injEq] at hst
        subst hst
        have hold : ∀ k'', ∀ v ∈ ((c.txs t').getD Store.empty) k'', v ∈ c.recs := by
          intro k'' v hv
          cases hs : c.txs t' with
          | none => rw [hs] at hv; simp [Store.empty] at hv
          | some st0 => rw [hs] at hv; exact h.txRec t' st0 hs _ v hv
        by_cases hk : k' = k
        · subst hk
          rw [upd_same] at hv
          rcases List.mem_append.mp hv with hv | hv
          · exact List.mem_append_left _ (hold _ v hv)
          · exact List.mem_append_right _ hv
        · rw [upd_other _ _ hk] at hv
          exact List.mem_append_left _ (hold _ v hv)
      · simp only [htt, if_false] at hst
        exact List.mem_append_left _ (h.txRec t' st hst k' v hv)
    · intro r hr hrt
      rw [coreStore_recs] at hr
      rw [coreStore_tx_main c t k cid val ht]
      rcases List.mem_append.mp hr with hr | hr
      · exact h.recMain r hr hrt
      · simp only [List.mem_singleton] at hr
        subst hr
        exact absurd hrt ht

/-! ### commit -/

theorem retag_cid (n : Nat) (v : Ver) : (Sys.retag n v).cid = v.cid := rfl
theorem retag_key (n : Nat) (v : Ver) : (Sys.retag n v).key = v.key := rfl

theorem mem_cLasts {c : Sys} {st : Store} {u : Ver} (h : u ∈ cLasts c st) : ∃ k, Sys.latest (st k) = some u := by
  unfold cLasts Sys.lastsOf at h
  obtain ⟨k, _, hk⟩ := List.mem_filterMap.mp h
  exact ⟨k, hk⟩

/-- the record map of a publishing commit leaves alone every record whose content id is not
    published -/
theorem pubmap_other (pub : List Ver) (r : Ver) (h : ∀ p ∈ pub, p.cid ≠ r.cid) :
    (match pub.find? (·.cid = r.cid) with | some p => p | none => r) = r := by
  have : pub.find? (·.cid = r.cid) = none := by
    rw [List.find?_eq_none]; intro p hp; simpa using h p hp
  rw [this]

theorem RecInv.updateTx {c : Sys} (i : Inv c) (h : RecInv c) (reg' : List TxRec) (tx : TxRec) :
    RecInv (({ c with reg := reg' } : Sys).updateTx tx).1 := by
  cases hst : c.txs tx.id with
  | none =>
    have : ({ c with reg := reg' } : Sys).txs tx.id = none := hst
    rw [updateTx_none this]
    exact h.congr rfl rfl rfl
  | some st =>
    have hst' : ({ c with reg := reg' } : Sys).txs tx.id = some st := hst
    rw [updateTx_some hst']
    have hshrink : ∀ t st', (if t = tx.id then none else c.txs t) = some st' → c.txs t = some st' := by
      intro t st' ht; split at ht; cases ht; exact ht
    split
    · exact h.shrink rfl rfl hshrink
    · split
      · exact h.shrink rfl rfl hshrink
      · -- publication
        have hne : tx.id ≠ mainTx := (i.txsReg tx.id st hst).1
        -- a version of the committing transaction is in no other place
        have huall : ∀ u ∈ cLasts c st, ∃ k, u ∈ st k ∧ u ∈ c.all k := by
          intro u hu
          obtain ⟨k, hk⟩ := mem_cLasts hu
          exact ⟨k, latest_mem hk, i.tx_sub_all hst (latest_mem hk)⟩
        have hnotmain : ∀ k, ∀ v ∈ c.main k, ∀ u ∈ cLasts c st, u.cid ≠ v.cid := by
          intro k v hv u hu he
          obtain ⟨k', hus, hua⟩ := huall u hu
          have := i.cidUnique k' k u v hua (i.main_sub_all hv) he
          subst this
          have h1 := i.tagMain k u hv
          have h2 := i.tagTx tx.id st hst k' u hus
          exact hne (h2.symm.trans h1)
        have hnottx : ∀ t st', c.txs t = some st' → t ≠ tx.id → ∀ k, ∀ v ∈ st' k, ∀ u ∈ cLasts c st, u.cid ≠ v.cid := by
          intro t st' hst2 htne k v hv u hu he
          obtain ⟨k', hus, hua⟩ := huall u hu
          have := i.cidUnique k' k u v hua (i.tx_sub_all hst2 hv) he
          subst this
          have h1 := i.tagTx t st' hst2 k u hv
          have h2 := i.tagTx tx.id st hst k' u hus
          exact htne (h1.symm.trans h2)
        refine ⟨?_, ?_, ?_, ?_⟩
        · intro k v hv
          show v ∈ List.map _ c.recs
          rcases List.mem_append.mp hv with hv | hv
          · refine List.mem_map.mpr ⟨v, h.mainRec k v hv, ?_⟩
            apply pubmap_other
            intro p hp
            obtain ⟨u, hu, rfl⟩ := List.mem_map.mp hp
            rw [retag_cid]; exact hnotmain k v hv u hu
          · obtain ⟨hp, _⟩ := List.mem_filter.mp hv
            obtain ⟨u, hu, rfl⟩ := List.mem_map.mp hp
            obtain ⟨k', hus, hua⟩ := huall u hu
            refine List.mem_map.mpr ⟨u, h.txRec tx.id st hst k' u hus, ?_⟩
            -- the first published version with u's content id is u's
            cases hf : ((cLasts c st).map (Sys.retag (c.counter + 1))).find? (·.cid = u.cid) with
            | none =>
              rw [List.find?_eq_none] at hf
              exact absurd (by simp [retag_cid]) (hf _ (List.mem_map.mpr ⟨u, hu, rfl⟩))
            | some p' =>
              simp only
              have hp' := List.mem_of_find?_eq_some hf
              have hc : p'.cid = u.cid := by simpa using List.find?_some hf
              obtain ⟨u', hu', rfl⟩ := List.mem_map.mp hp'
              obtain ⟨k'', _, hua'⟩ := huall u' hu'
              rw [retag_cid] at hc
              have := i.cidUnique k'' k' u' u hua' hua hc
              subst this; rfl
        · intro t st' hst2 k v hv
          show v ∈ List.map _ c.recs
          have htne : t ≠ tx.id := by intro e; subst e; simp at hst2
          have hst3 : c.txs t = some st' := by simpa [htne] using hst2
          refine List.mem_map.mpr ⟨v, h.txRec t st' hst3 k v hv, ?_⟩
          apply pubmap_other
          intro p hp
          obtain ⟨u, hu, rfl⟩ := List.mem_map.mp hp
          rw [retag_cid]; exact hnottx t st' hst3 htne k v hv u hu
        · intro r' hr' hrt
          obtain ⟨r, hr, rfl⟩ := List.mem_map.mp hr'
          cases hf : ((cLasts c st).map (Sys.retag (c.counter + 1))).find? (·.cid = r.cid) with
          | some p =>
            simp only
            have hp := List.mem_of_find?_eq_some hf
            exact ⟨p, List.mem_append_right _ (List.mem_filter.mpr ⟨hp, by simp⟩), Nat.le_refl _, fun _ => rfl⟩
          | none =>
            simp only [hf] at hrt
            simp only
            obtain ⟨w, hw, h1, h2⟩ := h.recMain r hr hrt
            exact ⟨w, List.mem_append_left _ hw, h1, h2⟩
        · intro r' hr'
          obtain ⟨r, hr, rfl⟩ := List.mem_map.mp hr'
          show _ < c.nextCid
          cases hf : ((cLasts c st).map (Sys.retag (c.counter + 1))).find? (·.cid = r.cid) with
          | some p =>
            simp only
            have hc : p.cid = r.cid := by simpa using List.find?_some hf
            rw [hc]; exact h.recBound r hr
          | none => exact h.recBound r hr

theorem RecInv.commit {c : Sys} (i : Inv c) (h : RecInv c) (t : Nat) : RecInv (c.commit t).1 := by
  unfold Sys.commit
  split
  · exact h
  · split
    · exact h
    · rename_i tx _
      have := RecInv.updateTx i h (c.reg.filter (·.id ≠ t)) tx
      simp only
      split
      · exact this
      · exact this.congr rfl rfl rfl

/-! ### rollback, begin -/

theorem RecInv.rollback {c : Sys} (h : RecInv c) (t : Nat) : RecInv (c.rollback t).1 := by
  unfold Sys.rollback
  split
  · exact h
  · split
    · exact h
    · simp only
      split
      · exact h.congr rfl rfl rfl
      · simp only
        have hs : ∀ t' st', (if t' = t then none else c.txs t') = some st' → c.txs t' = some st' := by
          intro t' st' ht; split at ht; cases ht; exact ht
        split
        · exact h.shrink rfl rfl (by intro t' st' ht; exact hs t' st' (by simpa [Sys.dropTxStore] using ht))
        · exact h.shrink rfl rfl (by intro t' st' ht; exact hs t' st' (by simpa [Sys.dropTxStore] using ht))

theorem RecInv.begin {c : Sys} (h : RecInv c) (t : Nat) (lvl : Level) : RecInv (c.begin t lvl).1 := by
  unfold Sys.begin
  split
  · exact h
  · exact h.congr rfl rfl rfl

theorem RecInv.set {c : Sys} (h : RecInv c) (t : Nat) (k : Key) (n : Nat) : RecInv (c.set t k n).1 := by
  unfold Sys.set
  split
  · exact h
  · split
    · exact h
    · exact RecInv.coreStore (c := { c with nextCid := c.nextCid + 1, cfs := c.cfs ++ [(c.nextCid, n)] })
        (h.congr rfl rfl rfl (Nat.le_succ _)) t k c.nextCid (some n) (Nat.lt_succ_self _)

theorem RecInv.del {c : Sys} (h : RecInv c) (t : Nat) (k : Key) : RecInv (c.del t k).1 := by
  unfold Sys.del
  split
  · exact h
  · exact RecInv.coreStore (c := { c with nextCid := c.nextCid + 1 }) (h.congr rfl rfl rfl (Nat.le_succ _)) t k c.nextCid none
      (Nat.lt_succ_self _)

/-! ### the collector and the worker pool -/

theorem RecInv.gcMid {c : Sys} (i : Inv c) (h : RecInv c) : RecInv (gcMid c) := by
  refine ⟨?_, ?_, ?_, h.recBound⟩
  · intro k v hv
    exact h.mainRec k v ((collect_snd_sublist _ _).subset hv)
  · exact h.txRec
  · intro r hr hrt
    obtain ⟨w, hw, h1, h2⟩ := h.recMain r hr hrt
    show ∃ w ∈ (collect (c.main r.key) (gcHz c)).2, _
    have happ := collect_append (c.main r.key) (gcHz c)
    rw [← happ] at hw
    rcases List.mem_append.mp hw with hw1 | hw2
    · -- `w` was collected: something newer stays
      have hne : c.main r.key ≠ [] := by
        intro e; rw [← happ] at e
        have := List.append_eq_nil_iff.mp e
        rw [this.1] at hw1; cases hw1
      have hne2 := collect_snd_ne_nil (c.main r.key) (gcHz c) hne
      obtain ⟨x, hx⟩ := List.exists_mem_of_ne_nil _ hne2
      have hs := i.mainSorted r.key
      rw [← happ] at hs
      unfold SortedSeq at hs
      have hlt := (List.pairwise_append.mp hs).2.2 w hw1 x hx
      exact ⟨x, hx, by omega, fun e => by omega⟩
    · exact ⟨w, hw2, h1, h2⟩

theorem gcDels_dead {c : Sys} (i : Inv c) : ∀ v ∈ gcDels c, ∀ k, ∀ w ∈ (gcMid c).all k, w.cid ≠ v.cid := by
  intro v hv k w hw he
  obtain ⟨k', hk'⟩ := (mem_gcDels i v).mp hv
  obtain ⟨hwa, hwn⟩ := (gcMid_mem_all i k w).mp hw
  have hva : v ∈ c.all k' := i.main_sub_all ((collect_fst_sublist _ _).subset hk')
  have := i.cidUnique k k' w v hwa hva he
  subst this
  exact hwn k' hk'

theorem RecInv.gc {c : Sys} (i : Inv c) (h : RecInv c) : RecInv (c.gc).1 := by
  rw [gc_eq]
  exact RecInv.deleteFiles (gcMid_inv i) (RecInv.gcMid i h) _ (gcDels_dead i)

theorem RecInv.jobs {c : Sys} (i : Inv c) (h : RecInv c) (jobs : List (List Ver))
    (hd : ∀ job ∈ jobs, ∀ v ∈ job, ∀ k, ∀ w ∈ c.all k, w.cid ≠ v.cid) :
    RecInv (jobs.foldl (fun s job => s.deleteFiles job) c) := by
  induction jobs generalizing c with
  | nil => exact h
  | cons j js ih =>
    simp only [List.foldl_cons]
    obtain ⟨_, _, _, f4, _, _, _, _⟩ := deleteFiles_fields c j
    apply ih (deleteFiles_inv i j (hd j (by simp))) (RecInv.deleteFiles i h j (hd j (by simp)))
    intro job hj v hv k w hw
    rw [f4] at hw
    exact hd job (List.mem_cons_of_mem _ hj) v hv k w hw

theorem RecInv.drain {c : Sys} (i : Inv c) (h : RecInv c) : RecInv (c.drain).1 := by
  unfold Sys.drain
  exact (RecInv.jobs i h c.pending i.pendDead).congr rfl rfl rfl

end FsDb
