import FsDb.Proofs.StepBegin
/-! `Set` / `Delete` (through `core.Store`) preserve the refinement relation. -/
namespace FsDb
open Sys Spec

section fields
variable (s : Sys) (k : Key)

@[simp] theorem addDom_counter : (s.addDom k).counter = s.counter := by unfold Sys.addDom; split <;> rfl
@[simp] theorem addDom_main : (s.addDom k).main = s.main := by unfold Sys.addDom; split <;> rfl
@[simp] theorem addDom_txs : (s.addDom k).txs = s.txs := by unfold Sys.addDom; split <;> rfl
@[simp] theorem addDom_all : (s.addDom k).all = s.all := by unfold Sys.addDom; split <;> rfl
@[simp] theorem addDom_reg : (s.addDom k).reg = s.reg := by unfold Sys.addDom; split <;> rfl
@[simp] theorem addDom_nextCid : (s.addDom k).nextCid = s.nextCid := by unfold Sys.addDom; split <;> rfl
@[simp] theorem addDom_cfs : (s.addDom k).cfs = s.cfs := by unfold Sys.addDom; split <;> rfl
@[simp] theorem addDom_pending : (s.addDom k).pending = s.pending := by unfold Sys.addDom; split <;> rfl
theorem addDom_dom_mem (k' : Key) : k' ∈ (s.addDom k).dom ↔ k' ∈ s.dom ∨ k' = k := by
  unfold Sys.addDom
  split
  · rename_i h; constructor
    · exact Or.inl
    · rintro (h1 | rfl); exact h1; exact h
  · simp
theorem addDom_hasContent (cid : Nat) : (s.addDom k).hasContent cid = s.hasContent cid := by
  simp [Sys.hasContent]
end fields

/-- the new version written by `core.Store` -/
def newVer (c : Sys) (t : Nat) (k : Key) (val : Option Nat) : Ver := ⟨k, t, c.nextCid, c.counter + 1, val⟩

/-- the state before `core.Store` runs: content id allocated, content record written (if any) -/
def preStore (c : Sys) (extra : List (Nat × Nat)) : Sys :=
  { c with nextCid := c.nextCid + 1, cfs := c.cfs ++ extra }

/-- the state after `core.Store` -/
def afterStore (c : Sys) (extra : List (Nat × Nat)) (t : Nat) (k : Key) (val : Option Nat) : Sys :=
  (preStore c extra).coreStore t k c.nextCid val

section after
variable (c : Sys) (extra : List (Nat × Nat)) (t : Nat) (k : Key) (val : Option Nat)

theorem after_counter : (afterStore c extra t k val).counter = c.counter + 1 := by
  simp [afterStore, Sys.coreStore, preStore, Sys.setTxStore]; split <;> rfl
theorem after_all : (afterStore c extra t k val).all = upd c.all k (c.all k ++ [newVer c t k val]) := by
  simp [afterStore, Sys.coreStore, preStore, Sys.setTxStore, newVer]; split <;> rfl
theorem after_reg : (afterStore c extra t k val).reg = c.reg := by
  simp [afterStore, Sys.coreStore, preStore, Sys.setTxStore]; split <;> rfl
theorem after_nextCid : (afterStore c extra t k val).nextCid = c.nextCid + 1 := by
  simp [afterStore, Sys.coreStore, preStore, Sys.setTxStore]; split <;> rfl
theorem after_cfs : (afterStore c extra t k val).cfs = c.cfs ++ extra := by
  simp [afterStore, Sys.coreStore, preStore, Sys.setTxStore]; split <;> rfl
theorem after_pending : (afterStore c extra t k val).pending = c.pending := by
  simp [afterStore, Sys.coreStore, preStore, Sys.setTxStore]; split <;> rfl
theorem after_dom_mem (k' : Key) : k' ∈ (afterStore c extra t k val).dom ↔ k' ∈ c.dom ∨ k' = k := by
  simp only [afterStore, Sys.coreStore]
  rw [addDom_dom_mem]
  simp [preStore, Sys.setTxStore]; split <;> rfl
theorem after_main_main (ht : t = mainTx) :
    (afterStore c extra t k val).main = upd c.main k (c.main k ++ [newVer c t k val]) := by
  simp [afterStore, Sys.coreStore, preStore, Sys.setTxStore, Sys.txStore, ht, newVer]
theorem after_main_txs (ht : t = mainTx) : (afterStore c extra t k val).txs = c.txs := by
  simp [afterStore, Sys.coreStore, preStore, Sys.setTxStore, ht]
theorem after_tx_main (ht : t ≠ mainTx) : (afterStore c extra t k val).main = c.main := by
  simp [afterStore, Sys.coreStore, preStore, Sys.setTxStore, ht]
theorem after_tx_txs (ht : t ≠ mainTx) :
    (afterStore c extra t k val).txs = fun t' => if t' = t then
      some (upd ((c.txs t).getD Store.empty) k (((c.txs t).getD Store.empty) k ++ [newVer c t k val])) else c.txs t' := by
  simp [afterStore, Sys.coreStore, preStore, Sys.setTxStore, Sys.txStore, ht, newVer]
end after

end FsDb

namespace FsDb
open Sys Spec

theorem addDom_dom (s : Sys) (k : Key) : (s.addDom k).dom = if k ∈ s.dom then s.dom else s.dom ++ [k] := by
  unfold Sys.addDom; split <;> rfl

theorem after_dom (c : Sys) (extra : List (Nat × Nat)) (t : Nat) (k : Key) (val : Option Nat) :
    (afterStore c extra t k val).dom = if k ∈ c.dom then c.dom else c.dom ++ [k] := by
  simp only [afterStore, Sys.coreStore]
  rw [addDom_dom]
  have : ∀ (x : Sys) (st : Store), (x.setTxStore t st).dom = x.dom := by
    intro x st; unfold Sys.setTxStore; split <;> rfl
  simp only [this]
  rfl

theorem live_after (c : Sys) (extra : List (Nat × Nat)) (t : Nat) (k : Key) (val : Option Nat)
    (k' : Key) (u : Ver) :
    Live (afterStore c extra t k val) k' u ↔ Live c k' u ∨ (k' = k ∧ u = newVer c t k val) := by
  unfold Live
  by_cases ht : t = mainTx
  · rw [after_main_main c extra t k val ht, after_main_txs c extra t k val ht]
    by_cases hk : k' = k
    · subst hk
      simp only [upd, if_true, List.mem_append, List.mem_singleton, true_and]
      constructor
      · rintro ((h | h) | h)
        · exact Or.inl (Or.inl h)
        · exact Or.inr h
        · exact Or.inl (Or.inr h)
      · rintro ((h | h) | h)
        · exact Or.inl (Or.inl h)
        · exact Or.inr h
        · exact Or.inl (Or.inr h)
    · simp [upd, hk]
  · rw [after_tx_main c extra t k val ht, after_tx_txs c extra t k val ht]
    constructor
    · rintro (h | ⟨t', st, hst, hu⟩)
      · exact Or.inl (Or.inl h)
      · by_cases htt : t' = t
        · subst htt
          simp only [if_true, Option.some.injEq] at hst
          subst hst
          by_cases hk : k' = k
          · subst hk
            simp only [upd, if_true, List.mem_append, List.mem_singleton] at hu
            rcases hu with hu | hu
            · cases hc : c.txs t' with
              | none => simp [hc, Store.empty] at hu
              | some st0 => simp [hc] at hu; exact Or.inl (Or.inr ⟨t', st0, hc, hu⟩)
            · exact Or.inr ⟨rfl, hu⟩
          · simp only [upd, hk, if_false] at hu
            cases hc : c.txs t' with
            | none => simp [hc, Store.empty] at hu
            | some st0 => simp [hc] at hu; exact Or.inl (Or.inr ⟨t', st0, hc, hu⟩)
        · simp only [htt, if_false] at hst
          exact Or.inl (Or.inr ⟨t', st, hst, hu⟩)
    · rintro ((h | ⟨t', st, hst, hu⟩) | ⟨rfl, rfl⟩)
      · exact Or.inl h
      · by_cases htt : t' = t
        · subst htt
          refine Or.inr ⟨t', _, by simp only [if_true]; rfl, ?_⟩
          simp only [hst, Option.getD_some, upd]
          split
          · rename_i hk; subst hk; simp [hu]
          · exact hu
        · exact Or.inr ⟨t', st, by simp [htt, hst], hu⟩
      · refine Or.inr ⟨t, _, by simp only [if_true]; rfl, ?_⟩
        simp [upd]

theorem hasContent_append_old {c : Sys} (extra : List (Nat × Nat)) {cid : Nat}
    (hx : ∀ p ∈ extra, p.1 ≠ cid) :
    (List.find? (fun p => decide (p.1 = cid)) (c.cfs ++ extra)).map (·.2) = c.hasContent cid := by
  unfold Sys.hasContent
  rw [List.find?_append]
  cases hf : List.find? (fun p => decide (p.1 = cid)) c.cfs with
  | some p => simp
  | none =>
    have : List.find? (fun p => decide (p.1 = cid)) extra = none := by
      rw [List.find?_eq_none]; intro p hp; simpa using hx p hp
    simp [this]

/-- what the caller guarantees about the content record written before `core.Store` -/
def ExtraOk (c : Sys) (val : Option Nat) (extra : List (Nat × Nat)) : Prop :=
  (val = none ∧ extra = []) ∨ (∃ n, val = some n ∧ extra = [(c.nextCid, n)])

theorem afterStore_inv {c : Sys} (i : Inv c) (extra : List (Nat × Nat)) (t : Nat) (k : Key) (val : Option Nat)
    (ht : t = mainTx ∨ ∃ r ∈ c.reg, r.id = t) (hx : ExtraOk c val extra) :
    Inv (afterStore c extra t k val) := by
  have hall := after_all c extra t k val
  have hlive := live_after c extra t k val
  have hnew_gt : ∀ k', ∀ u ∈ c.all k', u.seq < (newVer c t k val).seq := by
    intro k' u hu; have := (i.bounds k' u hu).2.1; show u.seq < c.counter + 1; omega
  have hnew_cid : ∀ k', ∀ u ∈ c.all k', u.cid < (newVer c t k val).cid := by
    intro k' u hu; exact (i.bounds k' u hu).2.2.1
  have hmemall : ∀ k' u, u ∈ (afterStore c extra t k val).all k' ↔ u ∈ c.all k' ∨ (k' = k ∧ u = newVer c t k val) := by
    intro k' u
    rw [hall]
    by_cases hk : k' = k
    · subst hk; simp [upd]
    · simp [upd, hk]
  constructor
  · -- mainSorted
    intro k'
    by_cases htm : t = mainTx
    · rw [after_main_main c extra t k val htm]
      by_cases hk : k' = k
      · subst hk
        simp only [upd, if_true]
        exact (i.mainSorted k').append_one (fun u hu => hnew_gt k' u (i.main_sub_all hu))
      · simp only [upd, hk, if_false]; exact i.mainSorted k'
    · rw [after_tx_main c extra t k val htm]; exact i.mainSorted k'
  · -- txSorted
    intro t' st hst k'
    by_cases htm : t = mainTx
    · rw [after_main_txs c extra t k val htm] at hst; exact i.txSorted t' st hst k'
    · rw [after_tx_txs c extra t k val htm] at hst
      by_cases htt : t' = t
      · subst htt
        simp only [if_true, Option.some.injEq] at hst
        subst hst
        by_cases hk : k' = k
        · subst hk
          simp only [upd, if_true]
          cases hc : c.txs t' with
          | none => simp [Store.empty, SortedSeq]
          | some st0 =>
            simp only [Option.getD_some]
            exact (i.txSorted t' st0 hc k').append_one (fun u hu => hnew_gt k' u (i.tx_sub_all hc hu))
        · simp only [upd, hk, if_false]
          cases hc : c.txs t' with
          | none => simp [Store.empty, SortedSeq]
          | some st0 => simp only [Option.getD_some]; exact i.txSorted t' st0 hc k'
      · simp only [htt, if_false] at hst; exact i.txSorted t' st hst k'
  · -- allSorted
    intro k'
    rw [hall]
    by_cases hk : k' = k
    · subst hk; simp only [upd, if_true]
      exact (i.allSorted k').append_one (fun u hu => hnew_gt k' u hu)
    · simp only [upd, hk, if_false]; exact i.allSorted k'
  · -- allMem
    intro k' u
    rw [hmemall, hlive, i.allMem]
  · -- bounds
    intro k' u hu
    rw [after_counter, after_nextCid]
    rcases (hmemall k' u).mp hu with hu | ⟨rfl, rfl⟩
    · obtain ⟨a, b, c', d⟩ := i.bounds k' u hu
      exact ⟨a, Nat.le_succ_of_le b, Nat.lt_succ_of_lt c', d⟩
    · exact ⟨Nat.succ_pos _, Nat.le_refl _, Nat.lt_succ_self _, rfl⟩
  · -- cidUnique
    intro k1 k2 u1 u2 h1 h2 he
    rcases (hmemall k1 u1).mp h1 with g1 | ⟨e1, e1'⟩ <;> rcases (hmemall k2 u2).mp h2 with g2 | ⟨e2, e2'⟩
    · exact i.cidUnique k1 k2 u1 u2 g1 g2 he
    · have := hnew_cid k1 u1 g1; rw [e2'] at he; omega
    · have := hnew_cid k2 u2 g2; rw [e1'] at he; omega
    · rw [e1', e2']
  · rw [after_reg]; exact i.regIds
  · rw [after_reg]; exact i.regMain
  · rw [after_reg]; exact i.regSorted
  · rw [after_reg, after_counter]; intro r hr; have := i.regBound r hr; exact ⟨this.1, Nat.le_succ_of_le this.2⟩
  · -- txsReg
    intro t' st hst
    rw [after_reg]
    by_cases htm : t = mainTx
    · rw [after_main_txs c extra t k val htm] at hst; exact i.txsReg t' st hst
    · rw [after_tx_txs c extra t k val htm] at hst
      by_cases htt : t' = t
      · subst htt
        rcases ht with ht | ht
        · exact absurd ht htm
        · exact ⟨htm, ht⟩
      · simp only [htt, if_false] at hst; exact i.txsReg t' st hst
  · -- ownAfter
    intro r hr st hst k' u hu
    rw [after_reg] at hr
    by_cases htm : t = mainTx
    · rw [after_main_txs c extra t k val htm] at hst; exact i.ownAfter r hr st hst k' u hu
    · rw [after_tx_txs c extra t k val htm] at hst
      by_cases htt : r.id = t
      · simp only [htt, if_true, Option.some.injEq] at hst
        subst hst
        have hold : ∀ k'', ∀ u ∈ ((c.txs t).getD Store.empty) k'', r.seq < u.seq := by
          intro k'' u hu
          cases hc : c.txs t with
          | none => simp [hc, Store.empty] at hu
          | some st0 => simp [hc] at hu; exact i.ownAfter r hr st0 (by rw [htt]; exact hc) k'' u hu
        by_cases hk : k' = k
        · subst hk
          simp only [upd, if_true, List.mem_append, List.mem_singleton] at hu
          rcases hu with hu | rfl
          · exact hold k' u hu
          · have := (i.regBound r hr).2; show r.seq < c.counter + 1; omega
        · simp only [upd, hk, if_false] at hu; exact hold k' u hu
      · simp only [htt, if_false] at hst; exact i.ownAfter r hr st hst k' u hu
  · -- beginNotVer
    intro r hr k' u hu
    rw [after_reg] at hr
    rcases (hmemall k' u).mp hu with hu | ⟨rfl, rfl⟩
    · exact i.beginNotVer r hr k' u hu
    · have := (i.regBound r hr).2; show c.counter + 1 ≠ r.seq; omega
  · -- stor
    intro k' u hu
    unfold Sys.hasContent
    rw [after_cfs]
    rcases (hmemall k' u).mp hu with hu | ⟨rfl, rfl⟩
    · rw [hasContent_append_old extra]
      · exact i.stor k' u hu
      · intro p hp
        have := (i.bounds k' u hu).2.2.1
        rcases hx with ⟨_, rfl⟩ | ⟨n, _, rfl⟩
        · simp at hp
        · simp at hp; subst hp; simp; omega
    · show Option.map (·.2) (List.find? (fun p => decide (p.1 = c.nextCid)) (c.cfs ++ extra)) = val
      rw [List.find?_append]
      have hnone : List.find? (fun p => decide (p.1 = c.nextCid)) c.cfs = none := by
        rw [List.find?_eq_none]; intro p hp; have := i.cfsBound p hp; simp; omega
      rw [hnone]
      rcases hx with ⟨rfl, rfl⟩ | ⟨n, rfl, rfl⟩ <;> simp
  · -- cfsBound
    intro p hp
    rw [after_cfs] at hp
    rw [after_nextCid]
    simp only [List.mem_append] at hp
    rcases hp with hp | hp
    · exact Nat.lt_succ_of_lt (i.cfsBound p hp)
    · rcases hx with ⟨_, rfl⟩ | ⟨n, _, rfl⟩
      · simp at hp
      · simp at hp; subst hp; exact Nat.lt_succ_self _
  · -- pendDead
    intro job hj v hv k' w hw
    rw [after_pending] at hj
    rcases (hmemall k' w).mp hw with hw | ⟨rfl, rfl⟩
    · exact i.pendDead job hj v hv k' w hw
    · have := i.pendBound job hj v hv; show c.nextCid ≠ v.cid; omega
  · -- pendBound
    intro job hj v hv
    rw [after_pending] at hj
    rw [after_nextCid]
    exact Nat.lt_succ_of_lt (i.pendBound job hj v hv)
  · -- domAll
    intro k' hne
    rw [after_dom_mem]
    by_cases hk : k' = k
    · exact Or.inr hk
    · left
      apply i.domAll
      rw [hall] at hne
      simpa [upd, hk] using hne
  · -- domNodup
    rw [after_dom]
    split
    · exact i.domNodup
    · rename_i hk
      rw [List.nodup_append]
      refine ⟨i.domNodup, by simp, ?_⟩
      intro a ha b hb
      simp only [List.mem_singleton] at hb
      subst hb
      intro e; subst e; exact hk ha
  · -- tagMain
    intro k' u hu
    by_cases htm : t = mainTx
    · rw [after_main_main c extra t k val htm] at hu
      by_cases hk : k' = k
      · subst hk
        simp only [upd, if_true, List.mem_append, List.mem_singleton] at hu
        rcases hu with hu | rfl
        · exact i.tagMain k' u hu
        · exact htm
      · simp only [upd, hk, if_false] at hu; exact i.tagMain k' u hu
    · rw [after_tx_main c extra t k val htm] at hu; exact i.tagMain k' u hu
  · -- tagTx
    intro t' st hst k' u hu
    by_cases htm : t = mainTx
    · rw [after_main_txs c extra t k val htm] at hst; exact i.tagTx t' st hst k' u hu
    · rw [after_tx_txs c extra t k val htm] at hst
      by_cases htt : t' = t
      · subst htt
        simp only [if_true, Option.some.injEq] at hst
        subst hst
        have hold : ∀ k'', ∀ u ∈ ((c.txs t').getD Store.empty) k'', u.tx = t' := by
          intro k'' u hu
          cases hc : c.txs t' with
          | none => simp [hc, Store.empty] at hu
          | some st0 => simp [hc] at hu; exact i.tagTx t' st0 hc k'' u hu
        by_cases hk : k' = k
        · subst hk
          simp only [upd, if_true, List.mem_append, List.mem_singleton] at hu
          rcases hu with hu | rfl
          · exact hold k' u hu
          · rfl
        · simp only [upd, hk, if_false] at hu; exact hold k' u hu
      · simp only [htt, if_false] at hst; exact i.tagTx t' st hst k' u hu

end FsDb

namespace FsDb
open Sys Spec

section specfields
variable (s : State) (k : Key)
@[simp] theorem sAddDom_clock : (Spec.addDom s k).clock = s.clock := by unfold Spec.addDom; split <;> rfl
@[simp] theorem sAddDom_hist : (Spec.addDom s k).hist = s.hist := by unfold Spec.addDom; split <;> rfl
@[simp] theorem sAddDom_open : (Spec.addDom s k).open_ = s.open_ := by unfold Spec.addDom; split <;> rfl
theorem sAddDom_dom : (Spec.addDom s k).dom = if k ∈ s.dom then s.dom else s.dom ++ [k] := by
  unfold Spec.addDom; split <;> rfl
end specfields

/-- a write through the autocommit caller -/
theorem write_main_R {c : Sys} {s : State} {cl : List Nat} (h : Rx cl c s) (k : Key) (val : Option Nat)
    (extra : List (Nat × Nat)) (hx : ExtraOk c val extra) :
    (Spec.write s mainTx k val).2 = .ok ∧ Rx cl (afterStore c extra mainTx k val) (Spec.write s mainTx k val).1 := by
  have i' := afterStore_inv h.inv extra mainTx k val (Or.inl rfl) hx
  simp only [Spec.write, if_true]
  refine ⟨by first | rfl | trivial, i', ?_, ?_, ?_, ?_, ?_, ?_⟩
  · simp [after_counter, h.clock]
  · rw [sAddDom_dom, after_dom]; simp [h.dom]
  · rw [after_reg]; simpa using h.reg
  · intro x hx' k'
    simp only [sAddDom_open] at hx'
    have hne : x.id ≠ mainTx := h.inv.regMain _ (h.mem_open hx')
    rw [h.own x hx' k', ownLatest_tx hne, ownLatest_tx hne, after_main_txs c extra mainTx k val rfl]
  · intro k'
    obtain ⟨pre, h1, h2, h3⟩ := h.hist k'
    rw [after_main_main c extra mainTx k val rfl, after_reg]
    simp only [sAddDom_hist]
    by_cases hk : k' = k
    · subst hk
      simp only [if_true, upd]
      refine ⟨pre, ?_, ?_, ?_⟩
      · rw [h1, h.clock]; simp [absV, newVer]
      · intro p hp v hv
        simp only [List.mem_append, List.mem_singleton] at hv
        rcases hv with hv | rfl
        · exact h2 p hp v hv
        · -- pre ≠ [] so main k' has a head, newer than p and older than the new version
          obtain ⟨hd, hh, _⟩ := h3 (List.ne_nil_of_mem hp)
          have hmem : hd ∈ c.main k' := by
            cases hm : c.main k' with
            | nil => simp [hm] at hh
            | cons a t => simp [hm] at hh; subst hh; simp
          have := h2 p hp hd hmem
          have := (h.inv.bounds k' hd (h.inv.main_sub_all hmem)).2.1
          show p.stamp < c.counter + 1
          omega
      · intro hp
        obtain ⟨hd, hh, hlt⟩ := h3 hp
        refine ⟨hd, ?_, hlt⟩
        cases hm : c.main k' with
        | nil => simp [hm] at hh
        | cons a t => simp [hm] at hh ⊢; exact hh
    · simp only [hk, if_false, upd]
      exact ⟨pre, h1, h2, h3⟩
  · intro k' hne
    simp only [sAddDom_hist] at hne
    rw [after_dom_mem]
    by_cases hk : k' = k
    · exact Or.inr hk
    · simp only [hk, if_false] at hne; exact Or.inl (h.histDom k' hne)

/-- a write through an open transaction -/
theorem write_tx_R {c : Sys} {s : State} {cl : List Nat} (h : Rx cl c s) (t : Nat) (k : Key) (val : Option Nat)
    (extra : List (Nat × Nat)) (hx : ExtraOk c val extra) (ht : t ≠ mainTx)
    (x : STx) (hxo : x ∈ s.open_) (hxid : x.id = t) :
    (Spec.write s t k val).2 = .ok ∧ Rx cl (afterStore c extra t k val) (Spec.write s t k val).1 := by
  have hreg : ∃ r ∈ c.reg, r.id = t := ⟨_, h.mem_open hxo, hxid⟩
  have i' := afterStore_inv h.inv extra t k val (Or.inr hreg) hx
  have hfind : ∃ y, find s t = some y := by
    cases hf : find s t with
    | some y => exact ⟨y, rfl⟩
    | none =>
      have := List.find?_eq_none.mp hf x hxo
      simp [hxid] at this
  obtain ⟨y, hy⟩ := hfind
  simp only [Spec.write, ht, if_false, hy]
  refine ⟨by first | rfl | trivial, i', ?_, ?_, ?_, ?_, ?_, ?_⟩
  · simp [after_counter, h.clock]
  · rw [sAddDom_dom, after_dom]; simp [h.dom]
  · rw [after_reg, sAddDom_open, ← h.reg, List.map_map]
    apply List.map_congr_left
    intro z _
    simp only [Function.comp]
    split <;> rfl
  · intro z hz k'
    simp only [sAddDom_open, List.mem_map] at hz
    obtain ⟨z0, hz0, rfl⟩ := hz
    have hne : z0.id ≠ mainTx := h.inv.regMain _ (h.mem_open hz0)
    by_cases hzt : z0.id = t
    · simp only [hzt, if_true]
      rw [ownLatest_tx ht, after_tx_txs c extra t k val ht]
      simp only [if_true]
      have hold := h.own z0 hz0
      by_cases hk : k' = k
      · subst hk
        simp [upd, latest_append_one, absV, newVer, h.clock]
      · simp only [hk, if_false, upd]
        rw [hold k', hzt, ownLatest_tx ht]
        cases hc : c.txs t with
        | none => simp [Store.empty, Sys.latest]
        | some st0 => simp
    · simp only [hzt, if_false]
      rw [h.own z0 hz0 k', ownLatest_tx hne, ownLatest_tx hne, after_tx_txs c extra t k val ht]
      simp only [hzt, if_false]
  · intro k'
    rw [after_tx_main c extra t k val ht, after_reg]
    simp only [sAddDom_hist]
    exact h.hist k'
  · intro k' hne
    simp only [sAddDom_hist] at hne
    rw [after_dom_mem]
    exact Or.inl (h.histDom k' hne)

theorem regGet_isNone_iff {c : Sys} {s : State} {cl : List Nat} (h : Rx cl c s) (t : Nat) :
    (c.regGet t).isNone = (ctxOf s t).isNone := by
  rcases ctx_cases h t with ⟨h1, h2⟩ | ⟨_, h1, h2⟩ | ⟨_, tx, x, h1, _, _, _, _, h2⟩ <;> simp [h1, h2]

theorem step_set {c : Sys} {s : State} {cl : List Nat} (h : Rx cl c s) (t : Nat) (k : Key) (n : Nat) :
    (c.set t k n).2 = (Spec.set s t k n).2 ∧ Rx cl (c.set t k n).1 (Spec.set s t k n).1 := by
  unfold Sys.set Spec.set
  rw [regGet_isNone_iff h t]
  by_cases h0 : (ctxOf s t).isNone = true
  · simp only [h0, if_true]; exact ⟨by first | rfl | trivial, h⟩
  · simp only [h0, Bool.false_eq_true, if_false]
    by_cases hk : k = ""
    · simp only [hk, if_true]; exact ⟨by first | rfl | trivial, h⟩
    · simp only [hk, if_false]
      have hx : ExtraOk c (some n) [(c.nextCid, n)] := Or.inr ⟨n, rfl, rfl⟩
      rcases ctx_cases h t with ⟨_, h2⟩ | ⟨htm, _, _⟩ | ⟨htm, tx, x, _, _, _, hxo, hxid, _⟩
      · simp [h2] at h0
      · subst htm
        have := write_main_R h k (some n) _ hx
        exact ⟨this.1.symm, this.2⟩
      · have := write_tx_R h t k (some n) _ hx htm x hxo hxid
        exact ⟨this.1.symm, this.2⟩

theorem step_del {c : Sys} {s : State} {cl : List Nat} (h : Rx cl c s) (t : Nat) (k : Key) :
    (c.del t k).2 = (Spec.write s t k none).2 ∧ Rx cl (c.del t k).1 (Spec.write s t k none).1 := by
  unfold Sys.del
  have hx : ExtraOk c none [] := Or.inl ⟨rfl, rfl⟩
  have hpre : ({ c with nextCid := c.nextCid + 1 } : Sys).coreStore t k c.nextCid none = afterStore c [] t k none := by
    simp [afterStore, preStore]
  rcases ctx_cases h t with ⟨h1, h2⟩ | ⟨htm, h1, _⟩ | ⟨htm, tx, x, h1, _, _, hxo, hxid, _⟩
  · simp only [h1, Option.isNone_none, if_true]
    have htm : t ≠ mainTx := by
      intro e; subst e; simp [Sys.regGet] at h1
    have hf : find s t = none := by
      simp only [ctxOf, htm, if_false, Option.map_eq_none_iff] at h2; exact h2
    simp only [Spec.write, htm, if_false, hf]
    exact ⟨by first | rfl | trivial, h⟩
  · subst htm
    simp only [h1, Option.isNone_some, Bool.false_eq_true, if_false, hpre]
    have := write_main_R h k none _ hx
    exact ⟨this.1.symm, this.2⟩
  · simp only [h1, Option.isNone_some, Bool.false_eq_true, if_false, hpre]
    have := write_tx_R h t k none _ hx htm x hxo hxid
    exact ⟨this.1.symm, this.2⟩

end FsDb
