import FsDb.Proofs.ConcFrame
import FsDb.Proofs.MultiDb
/-! Basic facts for the small-step concurrency proof: the ghost specification state of a log, how
    the shared-state sub-steps commute with the ghost extension of the deletion queue, and how the
    refinement relation `R` survives each kind of shared-state transition. -/
namespace FsDb.Conc
open FsDb Sys Spec

def linOps (l : List (Nat × EOp × Out)) : List EOp := l.map (·.2.1)
/-- the answers logged with the operations (a counter advance has none) -/
def linOuts (l : List (Nat × EOp × Out)) : List Out :=
  l.filterMap (fun e => match e.2.1 with | .op _ => some e.2.2 | .tick _ => none)

/-- the specification state after the first `n` entries of the log (the specification's clock
    follows the counter advances of the log; `Proofs/MultiDb`: they are invisible) -/
def specAt (σ : St) (n : Nat) : State := (Spec.erun {} (linOps (σ.lin.take n))).1
/-- the specification state after the whole log -/
def specOf (σ : St) : State := (Spec.erun {} (linOps σ.lin)).1

/-- the shared state with the jobs in execution put back into the deletion queue (ghost) -/
def withB (b : List (List Ver)) (s : Sys) : Sys := { s with pending := b ++ s.pending }
def withBusy (σ : St) : Sys := withB (σ.busy.map (·.2)) σ.sys

theorem spec_erun_append (s : State) (a : List EOp) (op : Op) :
    (Spec.erun s (a ++ [.op op])).1 = (Spec.step (Spec.erun s a).1 op).1 ∧
    (Spec.erun s (a ++ [.op op])).2 = (Spec.erun s a).2 ++ [(Spec.step (Spec.erun s a).1 op).2] := by
  induction a generalizing s with
  | nil => exact ⟨rfl, rfl⟩
  | cons x a ih =>
    cases x with
    | op o =>
      simp only [List.cons_append, Spec.erun]
      have := ih (Spec.step s o).1
      exact ⟨this.1, by rw [this.2]⟩
    | tick n =>
      simp only [List.cons_append, Spec.erun]
      exact ih (Spec.tick s n)

theorem spec_erun_append_tick (s : State) (a : List EOp) (n : Nat) :
    (Spec.erun s (a ++ [.tick n])).1 = Spec.tick (Spec.erun s a).1 n ∧
    (Spec.erun s (a ++ [.tick n])).2 = (Spec.erun s a).2 := by
  induction a generalizing s with
  | nil => exact ⟨rfl, rfl⟩
  | cons x a ih =>
    cases x with
    | op o =>
      simp only [List.cons_append, Spec.erun]
      have := ih (Spec.step s o).1
      exact ⟨this.1, by rw [this.2]⟩
    | tick m =>
      simp only [List.cons_append, Spec.erun]
      exact ih (Spec.tick s m)

theorem specAt_length (σ : St) : specAt σ σ.lin.length = specOf σ := by
  simp [specAt, specOf]

/-! ### the ghost queue extension commutes with the operations -/

section withB
variable (b : List (List Ver)) (s : Sys)

@[simp] theorem withB_counter : (withB b s).counter = s.counter := rfl
@[simp] theorem withB_main : (withB b s).main = s.main := rfl
@[simp] theorem withB_txs : (withB b s).txs = s.txs := rfl
@[simp] theorem withB_all : (withB b s).all = s.all := rfl
@[simp] theorem withB_reg : (withB b s).reg = s.reg := rfl
@[simp] theorem withB_dom : (withB b s).dom = s.dom := rfl
@[simp] theorem withB_nextCid : (withB b s).nextCid = s.nextCid := rfl
@[simp] theorem withB_cfs : (withB b s).cfs = s.cfs := rfl
@[simp] theorem withB_recs : (withB b s).recs = s.recs := rfl
@[simp] theorem withB_pending : (withB b s).pending = b ++ s.pending := rfl

theorem withB_get (t : Nat) (k : Key) : (withB b s).get t k = s.get t k := rfl
theorem withB_getKeys (t : Nat) : (withB b s).getKeys t = s.getKeys t := rfl
theorem withB_regGet (t : Nat) : (withB b s).regGet t = s.regGet t := rfl
theorem withB_hasContent (cid : Nat) : (withB b s).hasContent cid = s.hasContent cid := rfl

theorem withB_begin (t : Nat) (lvl : Level) :
    (withB b s).begin t lvl = (withB b (s.begin t lvl).1, (s.begin t lvl).2) := by
  unfold Sys.begin
  by_cases h : t = mainTx ∨ (s.reg.any (·.id = t)) = true
  · simp only [withB_reg, h, if_true]
  · simp only [withB_reg, h, if_false]; rfl

theorem withB_addDom (k : Key) : (withB b s).addDom k = withB b (s.addDom k) := by
  unfold Sys.addDom
  by_cases h : k ∈ s.dom
  · simp only [withB_dom, h, if_true]
  · simp only [withB_dom, h, if_false]; rfl

theorem withB_coreStore (t : Nat) (k : Key) (cid : Nat) (val : Option Nat) :
    (withB b s).coreStore t k cid val = withB b (s.coreStore t k cid val) := by
  unfold Sys.coreStore
  rw [← withB_addDom]
  congr 1
  by_cases ht : t = mainTx <;> simp [Sys.setTxStore, Sys.txStore, ht, withB]

theorem withB_afterStore (extra : List (Nat × Nat)) (t : Nat) (k : Key) (val : Option Nat) :
    afterStore (withB b s) extra t k val = withB b (afterStore s extra t k val) :=
  withB_coreStore b (preStore s extra) t k s.nextCid val

theorem withB_set (t : Nat) (k : Key) (c : Nat) :
    (withB b s).set t k c = (withB b (s.set t k c).1, (s.set t k c).2) := by
  unfold Sys.set
  by_cases h1 : (s.regGet t).isNone = true
  · simp only [withB_regGet, h1, if_true]
  · by_cases h2 : k = ""
    · simp [withB_regGet, h1, h2]
    · simp only [withB_regGet, h1, h2, if_false]
      exact Prod.ext (withB_coreStore b { s with nextCid := s.nextCid + 1, cfs := s.cfs ++ [(s.nextCid, c)] } t k s.nextCid (some c)) rfl

theorem withB_del (t : Nat) (k : Key) :
    (withB b s).del t k = (withB b (s.del t k).1, (s.del t k).2) := by
  unfold Sys.del
  by_cases h1 : (s.regGet t).isNone = true
  · simp only [withB_regGet, h1, if_true]
  · simp only [withB_regGet, h1, if_false]
    exact Prod.ext (withB_coreStore b { s with nextCid := s.nextCid + 1 } t k s.nextCid none) rfl

theorem withB_updateTx (tx : TxRec) :
    (withB b s).updateTx tx = (withB b (s.updateTx tx).1, (s.updateTx tx).2) := by
  unfold Sys.updateTx
  cases hst : s.txs tx.id with
  | none => simp only [withB_txs, hst]
  | some st =>
    simp only [withB_txs, hst]
    by_cases hc : conflictOf tx s.dom s.main st = true
    · simp only [withB_dom, withB_main, hc, if_true]; rfl
    · by_cases he : (lastsOf s.dom st).isEmpty = true
      · simp only [withB_dom, withB_main, hc, he, if_true, if_false]; rfl
      · simp only [withB_dom, withB_main, hc, he, if_false]; rfl

theorem withB_commit (t : Nat) :
    (withB b s).commit t = (withB b (s.commit t).1, (s.commit t).2) := by
  unfold Sys.commit
  by_cases ht : t = mainTx
  · simp only [ht, if_true]
  · simp only [ht, if_false, withB_reg]
    cases hf : s.reg.find? (·.id = t) with
    | none => simp only []
    | some tx =>
      simp only []
      have e : ({ withB b s with reg := List.filter (fun x => decide (x.id ≠ t)) s.reg } : Sys)
          = withB b { s with reg := s.reg.filter (·.id ≠ t) } := rfl
      have hu := withB_updateTx b { s with reg := s.reg.filter (·.id ≠ t) } tx
      simp only [e, hu]
      by_cases hemp : (Sys.updateTx { s with reg := s.reg.filter (·.id ≠ t) } tx).2.1.isEmpty = true
      · simp only [hemp, if_true]
      · simp only [hemp, if_false]
        refine Prod.ext ?_ rfl
        simp [withB, List.append_assoc]

theorem withB_rollback (t : Nat) :
    (withB b s).rollback t = (withB b (s.rollback t).1, (s.rollback t).2) := by
  unfold Sys.rollback
  by_cases ht : t = mainTx
  · simp only [ht, if_true]
  · simp only [ht, if_false, withB_reg]
    cases hf : s.reg.find? (·.id = t) with
    | none => simp only []
    | some tx =>
      simp only [withB_txs]
      cases hst : s.txs t with
      | none => simp only []; rfl
      | some st =>
        simp only [Sys.dropTxStore, withB_dom, withB_all]
        by_cases hemp : (List.flatMap (fun k => st k) s.dom).isEmpty = true
        · simp only [hemp, if_true]; rfl
        · simp only [hemp, if_false]
          refine Prod.ext ?_ rfl
          simp [withB, List.append_assoc]

theorem withB_gcDraw : gcDraw (withB b s) = withB b (gcDraw s) := by
  unfold gcDraw
  simp only [withB_reg]
  split <;> rfl

theorem withB_gcHz : gcHz (withB b s) = gcHz s := rfl
theorem withB_gcHzX (cl : List Nat) : gcHzX (withB b s) cl = gcHzX s cl := rfl
theorem withB_gcDrawX (cl : List Nat) : gcDrawX (withB b s) cl = withB b (gcDrawX s cl) := by
  unfold gcDrawX liveReg
  simp only [withB_reg]
  split <;> rfl
theorem withB_delsAt (hz : Nat) : delsAt (withB b s) hz = delsAt s hz := rfl
theorem withB_collectAt (hz : Nat) : collectAt (withB b s) hz = withB b (collectAt s hz) := rfl

theorem withB_delOne (v : Ver) : delOne (withB b s) v = withB b (delOne s v) := by
  unfold delOne
  simp only [withB_hasContent]
  split <;> rfl

end withB

/-! ### `R` under changes of the deletion queue only -/

theorem _root_.FsDb.Rx.pendingChange {c : Sys} {s : State} {cl : List Nat} (h : Rx cl c s) (p : List (List Ver))
    (hp : ∀ job ∈ p, ∀ v ∈ job, (∀ k, ∀ w ∈ c.all k, w.cid ≠ v.cid) ∧ v.cid < c.nextCid) :
    Rx cl { c with pending := p } s := by
  have i := h.inv
  have i' : Inv { c with pending := p } :=
    ⟨i.mainSorted, i.txSorted, i.allSorted, i.allMem, i.bounds, i.cidUnique, i.regIds, i.regMain,
      i.regSorted, i.regBound, i.txsReg, i.ownAfter, i.beginNotVer, i.stor, i.cfsBound,
      fun job hj v hv => (hp job hj v hv).1, fun job hj v hv => (hp job hj v hv).2, i.domAll,
      i.domNodup, i.tagMain, i.tagTx⟩
  exact h.transfer i' rfl rfl rfl rfl rfl

theorem _root_.FsDb.Rx.pendingSub {c : Sys} {s : State} {cl : List Nat} (h : Rx cl c s) (p : List (List Ver))
    (hp : ∀ job ∈ p, job ∈ c.pending) : Rx cl { c with pending := p } s :=
  h.pendingChange p (fun job hj v hv => ⟨h.inv.pendDead job (hp job hj) v hv, h.inv.pendBound job (hp job hj) v hv⟩)

/-! ### `Rx` under changes of the set of transactions inside Commit / Rollback -/

/-- one more transaction stops reading: the relation only gets weaker -/
theorem _root_.FsDb.Rx.closing_add {c : Sys} {s : State} {cl : List Nat} (h : Rx cl c s) (t : Nat) :
    Rx (t :: cl) c s := by
  refine ⟨h.inv, h.clock, h.dom, h.reg, h.own, ?_, h.histDom⟩
  intro k
  obtain ⟨pre, h1, h2, h3⟩ := h.hist k
  refine ⟨pre, h1, h2, ?_⟩
  intro hp
  obtain ⟨hd, hh, hlt⟩ := h3 hp
  exact ⟨hd, hh, fun r hr hrc => hlt r hr (fun hin => hrc (List.mem_cons_of_mem _ hin))⟩

/-- a transaction that is no longer registered may leave the set -/
theorem _root_.FsDb.Rx.closing_erase {c : Sys} {s : State} {cl : List Nat} (h : Rx cl c s) (t : Nat)
    (hreg : ∀ r ∈ c.reg, r.id ≠ t) : Rx (cl.filter (· ≠ t)) c s := by
  refine ⟨h.inv, h.clock, h.dom, h.reg, h.own, ?_, h.histDom⟩
  intro k
  obtain ⟨pre, h1, h2, h3⟩ := h.hist k
  refine ⟨pre, h1, h2, ?_⟩
  intro hp
  obtain ⟨hd, hh, hlt⟩ := h3 hp
  refine ⟨hd, hh, fun r hr hrc => hlt r hr (fun hin => hrc ?_)⟩
  exact List.mem_filter.mpr ⟨hin, by simpa using hreg r hr⟩

end FsDb.Conc
