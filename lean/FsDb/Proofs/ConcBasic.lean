import FsDb.Proofs.ConcFrame
import FsDb.Proofs.Refine
/-! Basic facts for the small-step concurrency proof: the ghost specification state of a log, how
    the shared-state sub-steps commute with the ghost extension of the deletion queue, and how the
    refinement relation `R` survives each kind of shared-state transition. -/
namespace FsDb.Conc
open FsDb Sys Spec

def linOps (l : List (Nat × Op × Out)) : List Op := l.map (·.2.1)
def linOuts (l : List (Nat × Op × Out)) : List Out := l.map (·.2.2)

/-- the specification state after the first `n` entries of the log -/
def specAt (σ : St) (n : Nat) : State := (Spec.run {} (linOps (σ.lin.take n))).1
/-- the specification state after the whole log -/
def specOf (σ : St) : State := (Spec.run {} (linOps σ.lin)).1

/-- the shared state with the jobs in execution put back into the deletion queue (ghost) -/
def withB (b : List (List Ver)) (s : Sys) : Sys := { s with pending := b ++ s.pending }
def withBusy (σ : St) : Sys := withB (σ.busy.map (·.2)) σ.sys

theorem spec_run_append (s : State) (a : List Op) (op : Op) :
    (Spec.run s (a ++ [op])).1 = (Spec.step (Spec.run s a).1 op).1 ∧
    (Spec.run s (a ++ [op])).2 = (Spec.run s a).2 ++ [(Spec.step (Spec.run s a).1 op).2] := by
  induction a generalizing s with
  | nil => exact ⟨rfl, rfl⟩
  | cons x a ih =>
    simp only [List.cons_append, Spec.run]
    have := ih (Spec.step s x).1
    exact ⟨this.1, by rw [this.2]⟩

theorem specAt_length (σ : St) : specAt σ σ.lin.length = specOf σ := by
  simp [specAt, specOf]

/-! ### the ghost queue extension commutes with the operations -/

section withB
variable (b : List (List Ver)) (s : Sys)

@[simp] theorem withB_counter : (withB b s).counter = s.counter := rfl
@[simp] theorem withB_main : (withB b s).main = s.main := rfl
@[simp] theorem withB_txs : (withB b s).txs = s.txs := rfl
@[simp] theorem withB_all : (withB b s).all = s.all := rfl
@[simp] theorem withB_reg : (withB b s).reg = s.reg := rfl
@[simp] theorem withB_dom : (withB b s).dom = s.dom := rfl
@[simp] theorem withB_nextCid : (withB b s).nextCid = s.nextCid := rfl
@[simp] theorem withB_cfs : (withB b s).cfs = s.cfs := rfl
@[simp] theorem withB_recs : (withB b s).recs = s.recs := rfl
@[simp] theorem withB_pending : (withB b s).pending = b ++ s.pending := rfl

theorem withB_get (t : Nat) (k : Key) : (withB b s).get t k = s.get t k := rfl
theorem withB_getKeys (t : Nat) : (withB b s).getKeys t = s.getKeys t := rfl
theorem withB_regGet (t : Nat) : (withB b s).regGet t = s.regGet t := rfl
theorem withB_hasContent (cid : Nat) : (withB b s).hasContent cid = s.hasContent cid := rfl

theorem withB_begin (t : Nat) (lvl : Level) :
    (withB b s).begin t lvl = (withB b (s.begin t lvl).1, (s.begin t lvl).2) := by
  unfold Sys.begin
  by_cases h : t = mainTx ∨ (s.reg.any (·.id = t)) = true
  · simp only [withB_reg, h, if_true]
  · simp only [withB_reg, h, if_false]; rfl

theorem withB_addDom (k : Key) : (withB b s).addDom k = withB b (s.addDom k) := by
  unfold Sys.addDom
  by_cases h : k ∈ s.dom
  · simp only [withB_dom, h, if_true]
  · simp only [withB_dom, h, if_false]; rfl

theorem withB_coreStore (t : Nat) (k : Key) (cid : Nat) (val : Option Nat) :
    (withB b s).coreStore t k cid val = withB b (s.coreStore t k cid val) := by
  unfold Sys.coreStore
  rw [← withB_addDom]
  congr 1
  by_cases ht : t = mainTx <;> simp [Sys.setTxStore, Sys.txStore, ht, withB]

theorem withB_afterStore (extra : List (Nat × Nat)) (t : Nat) (k : Key) (val : Option Nat) :
    afterStore (withB b s) extra t k val = withB b (afterStore s extra t k val) :=
  withB_coreStore b (preStore s extra) t k s.nextCid val

theorem withB_set (t : Nat) (k : Key) (c : Nat) :
    (withB b s).set t k c = (withB b (s.set t k c).1, (s.set t k c).2) := by
  unfold Sys.set
  by_cases h1 : (s.regGet t).isNone = true
  · simp only [withB_regGet, h1, if_true]
  · by_cases h2 : k = ""
    · simp [withB_regGet, h1, h2]
    · simp only [withB_regGet, h1, h2, if_false]
      exact Prod.ext (withB_coreStore b { s with nextCid := s.nextCid + 1, cfs := s.cfs ++ [(s.nextCid, c)] } t k s.nextCid (some c)) rfl

theorem withB_del (t : Nat) (k : Key) :
    (withB b s).del t k = (withB b (s.del t k).1, (s.del t k).2) := by
  unfold Sys.del
  by_cases h1 : (s.regGet t).isNone = true
  · simp only [withB_regGet, h1, if_true]
  · simp only [withB_regGet, h1, if_false]
    exact Prod.ext (withB_coreStore b { s with nextCid := s.nextCid + 1 } t k s.nextCid none) rfl

theorem withB_updateTx (tx : TxRec) :
    (withB b s).updateTx tx = (withB b (s.updateTx tx).1, (s.updateTx tx).2) := by
  unfold Sys.updateTx
  cases hst : s.txs tx.id with
  | none => simp only [withB_txs, hst]
  | some st =>
    simp only [withB_txs, hst]
    by_cases hc : conflictOf tx s.dom s.main st = true
    · simp only [withB_dom, withB_main, hc, if_true]; rfl
    · by_cases he : (lastsOf s.dom st).isEmpty = true
      · simp only [withB_dom, withB_main, hc, he, if_true, if_false]; rfl
      · simp only [withB_dom, withB_main, hc, he, if_false]; rfl

theorem withB_commit (t : Nat) :
    (withB b s).commit t = (withB b (s.commit t).1, (s.commit t).2) := by
  unfold Sys.commit
  by_cases ht : t = mainTx
  · simp only [ht, if_true]
  · simp only [ht, if_false, withB_reg]
    cases hf : s.reg.find? (·.id = t) with
    | none => simp only []
    | some tx =>
      simp only []
      have e : ({ withB b s with reg := List.filter (fun x => decide (x.id ≠ t)) s.reg } : Sys)
          = withB b { s with reg := s.reg.filter (·.id ≠ t) } := rfl
      have hu := withB_updateTx b { s with reg := s.reg.filter (·.id ≠ t) } tx
      simp only [e, hu]
      by_cases hemp : (Sys.updateTx { s with reg := s.reg.filter (·.id ≠ t) } tx).2.1.isEmpty = true
      · simp only [hemp, if_true]
      · simp only [hemp, if_false]
        refine Prod.ext ?_ rfl
        simp [withB, List.append_assoc]

theorem withB_rollback (t : Nat) :
    (withB b s).rollback t = (withB b (s.rollback t).1, (s.rollback t).2) := by
  unfold Sys.rollback
  by_cases ht : t = mainTx
  · simp only [ht, if_true]
  · simp only [ht, if_false, withB_reg]
    cases hf : s.reg.find? (·.id = t) with
    | none => simp only []
    | some tx =>
      simp only [withB_txs]
      cases hst : s.txs t with
      | none => simp only []; rfl
      | some st =>
        simp only [Sys.dropTxStore, withB_dom, withB_all]
        by_cases hemp : (List.flatMap (fun k => st k) s.dom).isEmpty = true
        · simp only [hemp, if_true]; rfl
        · simp only [hemp, if_false]
          refine Prod.ext ?_ rfl
          simp [withB, List.append_assoc]

theorem withB_gcDraw : gcDraw (withB b s) = withB b (gcDraw s) := by
  unfold gcDraw
  simp only [withB_reg]
  split <;> rfl

theorem withB_gcHz : gcHz (withB b s) = gcHz s := rfl
theorem withB_delsAt (hz : Nat) : delsAt (withB b s) hz = delsAt s hz := rfl
theorem withB_collectAt (hz : Nat) : collectAt (withB b s) hz = withB b (collectAt s hz) := rfl

theorem withB_delOne (v : Ver) : delOne (withB b s) v = withB b (delOne s v) := by
  unfold delOne
  simp only [withB_hasContent]
  split <;> rfl

end withB

/-! ### `R` under changes of the deletion queue only -/

theorem _root_.FsDb.R.pendingChange {c : Sys} {s : State} (h : R c s) (p : List (List Ver))
    (hp : ∀ job ∈ p, ∀ v ∈ job, (∀ k, ∀ w ∈ c.all k, w.cid ≠ v.cid) ∧ v.cid < c.nextCid) :
    R { c with pending := p } s := by
  have i := h.inv
  have i' : Inv { c with pending := p } :=
    ⟨i.mainSorted, i.txSorted, i.allSorted, i.allMem, i.bounds, i.cidUnique, i.regIds, i.regMain,
      i.regSorted, i.regBound, i.txsReg, i.ownAfter, i.beginNotVer, i.stor, i.cfsBound,
      fun job hj v hv => (hp job hj v hv).1, fun job hj v hv => (hp job hj v hv).2, i.domAll,
      i.domNodup, i.tagMain, i.tagTx⟩
  exact h.transfer i' rfl rfl rfl rfl rfl

theorem _root_.FsDb.R.pendingSub {c : Sys} {s : State} (h : R c s) (p : List (List Ver))
    (hp : ∀ job ∈ p, job ∈ c.pending) : R { c with pending := p } s :=
  h.pendingChange p (fun job hj v hv => ⟨h.inv.pendDead job (hp job hj) v hv, h.inv.pendBound job (hp job hj) v hv⟩)

end FsDb.Conc
