import FsDb.Proofs.VFile
import FsDb.Spec.Iso
/-! Basic lemmas for the refinement proof: `newer`, `latest`, `lastBefore`, abstraction of versions. -/
namespace FsDb
open Sys Spec

/-- abstraction of a version: its stamp and its value -/
def absV (v : Ver) : SVer := ⟨v.seq, v.val⟩

@[simp] theorem absV_stamp (v : Ver) : (absV v).stamp = v.seq := rfl
@[simp] theorem absV_val (v : Ver) : (absV v).val = v.val := rfl

theorem newer_map_absV (a b : Option Ver) :
    (Sys.newer a b).map absV = newerS (a.map absV) (b.map absV) := by
  cases a <;> cases b <;> simp [Sys.newer, newerS]
  split <;> simp

theorem lastBefore_eq_spec {l : List Ver} (h : SortedSeq l) (b : Nat) :
    Sys.lastBefore l b = lastBeforeSpec l b := by
  unfold Sys.lastBefore
  split
  · rename_i h0
    have : l = [] := List.eq_nil_of_length_eq_zero h0
    simp [this, lastBeforeSpec]
  · exact bsearch_eq_spec l b h

theorem latest_mem {l : List Ver} {v : Ver} (h : Sys.latest l = some v) : v ∈ l :=
  List.mem_of_getLast? h

/-- the last element of a strictly increasing list has the largest seq -/
theorem latest_max {l : List Ver} (hs : SortedSeq l) {v : Ver} (h : Sys.latest l = some v) :
    ∀ u ∈ l, u.seq ≤ v.seq := by
  intro u hu
  obtain ⟨i, hi, rfl⟩ := List.getElem_of_mem hu
  unfold Sys.latest at h
  rw [List.getLast?_eq_getElem?] at h
  have hlen : l.length - 1 < l.length := by omega
  rw [List.getElem?_eq_getElem hlen] at h
  cases h
  exact hs.le_of_le hi hlen (by omega)

theorem latest_none {l : List Ver} (h : Sys.latest l = none) : l = [] :=
  List.getLast?_eq_none_iff.mp h

theorem latest_append_one (l : List Ver) (v : Ver) : Sys.latest (l ++ [v]) = some v := by
  simp [Sys.latest]

theorem SortedSeq.nil : SortedSeq [] := List.Pairwise.nil

theorem SortedSeq.filter {l : List Ver} (h : SortedSeq l) (p : Ver → Bool) : SortedSeq (l.filter p) :=
  List.Pairwise.sublist List.filter_sublist h

theorem SortedSeq.dropLast {l : List Ver} (h : SortedSeq l) : SortedSeq l.dropLast :=
  List.Pairwise.sublist (List.dropLast_sublist _) h

theorem upd_same (f : Store) (k : Key) (l : List Ver) : upd f k l k = l := by simp [upd]

theorem upd_other (f : Store) {k k' : Key} (l : List Ver) (h : k' ≠ k) : upd f k l k' = f k' := by
  simp [upd, h]

end FsDb
