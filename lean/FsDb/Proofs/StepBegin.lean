import FsDb.Proofs.Reads
/-! `Begin` preserves the refinement relation. -/
namespace FsDb
open Sys Spec

theorem any_id_iff_find (l : List TxRec) (t : Nat) : l.any (·.id = t) = (l.find? (·.id = t)).isSome := by
  induction l with
  | nil => rfl
  | cons a l ih =>
    simp only [List.any_cons, List.find?_cons]
    by_cases h : a.id = t <;> simp [h, ih]

theorem Rx.reg_isSome {c : Sys} {s : State} {cl : List Nat} (h : Rx cl c s) (t : Nat) :
    (find s t).isSome = (c.reg.find? (·.id = t)).isSome := by
  have := h.find_eq t
  cases h1 : find s t <;> cases h2 : c.reg.find? (·.id = t) <;> simp_all

theorem step_begin {c : Sys} {s : State} {cl : List Nat} (h : Rx cl c s) (t : Nat) (lvl : Level) :
    (c.begin t lvl).2 = (Spec.begin s t lvl).2 ∧ Rx cl (c.begin t lvl).1 (Spec.begin s t lvl).1 := by
  unfold Sys.begin Spec.begin
  rw [any_id_iff_find, ← h.reg_isSome t]
  by_cases hc : t = mainTx ∨ (find s t).isSome = true
  · rw [if_pos hc, if_pos hc]; exact ⟨rfl, h⟩
  · rw [if_neg hc, if_neg hc]
    refine ⟨rfl, ?_⟩
    have htm : t ≠ mainTx := fun e => hc (Or.inl e)
    have hnf : c.reg.find? (·.id = t) = none := by
      have := h.reg_isSome t
      cases hf : c.reg.find? (·.id = t) with
      | none => rfl
      | some x => rw [hf] at this; exact absurd (Or.inr this) hc
    have hnone : ∀ r ∈ c.reg, r.id ≠ t := by
      intro r hr
      have := List.find?_eq_none.mp hnf r hr
      simpa using this
    have htx : c.txs t = none := by
      cases hst : c.txs t with
      | none => rfl
      | some st =>
        obtain ⟨_, r, hr, hid⟩ := h.inv.txsReg t st hst
        exact absurd hid (hnone r hr)
    have i := h.inv
    refine ⟨⟨i.mainSorted, i.txSorted, i.allSorted, i.allMem, ?_, i.cidUnique, ?_, ?_, ?_, ?_, ?_, ?_, ?_,
      i.stor, i.cfsBound, i.pendDead, i.pendBound, i.domAll, i.domNodup, i.tagMain, i.tagTx⟩, ?_, h.dom, ?_, ?_, ?_, h.histDom⟩
    · -- bounds
      intro k v hv
      obtain ⟨a, b, c', d⟩ := i.bounds k v hv
      exact ⟨a, Nat.le_succ_of_le b, c', d⟩
    · -- regIds
      rw [List.pairwise_append]
      refine ⟨i.regIds, by simp, ?_⟩
      intro a ha b hb
      simp only [List.mem_singleton] at hb
      subst hb
      exact hnone a ha
    · -- regMain
      intro r hr
      simp only [List.mem_append, List.mem_singleton] at hr
      rcases hr with hr | rfl
      · exact i.regMain r hr
      · exact htm
    · -- regSorted
      rw [List.pairwise_append]
      refine ⟨i.regSorted, by simp, ?_⟩
      intro a ha b hb
      simp only [List.mem_singleton] at hb
      subst hb
      have := (i.regBound a ha).2
      show a.seq < c.counter + 1
      omega
    · -- regBound
      intro r hr
      simp only [List.mem_append, List.mem_singleton] at hr
      rcases hr with hr | rfl
      · have := i.regBound r hr; exact ⟨this.1, Nat.le_succ_of_le this.2⟩
      · exact ⟨Nat.succ_pos _, Nat.le_refl _⟩
    · -- txsReg
      intro t' st hst
      obtain ⟨a, r, hr, hid⟩ := i.txsReg t' st hst
      exact ⟨a, r, List.mem_append_left _ hr, hid⟩
    · -- ownAfter
      intro r hr st hst k v hv
      simp only [List.mem_append, List.mem_singleton] at hr
      rcases hr with hr | rfl
      · exact i.ownAfter r hr st hst k v hv
      · simp [htx] at hst
    · -- beginNotVer
      intro r hr k v hv
      simp only [List.mem_append, List.mem_singleton] at hr
      rcases hr with hr | rfl
      · exact i.beginNotVer r hr k v hv
      · have := (i.bounds k v hv).2.1
        show v.seq ≠ c.counter + 1
        omega
    · -- clock
      show s.clock + 1 = c.counter + 1
      rw [h.clock]
    · -- reg
      show (s.open_ ++ [_]).map _ = (c.reg ++ [_]).map _
      simp only [List.map_append, List.map_cons, List.map_nil, h.reg, h.clock]
    · -- own
      intro x hx k
      simp only [List.mem_append, List.mem_singleton] at hx
      rcases hx with hx | rfl
      · exact h.own x hx k
      · show none = _
        rw [ownLatest_tx htm]
        show none = Option.map absV (match c.txs t with | some st => Sys.latest (st k) | none => none)
        rw [htx]; rfl
    · -- hist
      intro k
      obtain ⟨pre, h1, h2, h3⟩ := h.hist k
      refine ⟨pre, h1, h2, ?_⟩
      intro hp
      obtain ⟨hd, hh, hlt⟩ := h3 hp
      refine ⟨hd, hh, ?_⟩
      intro r hr
      simp only [List.mem_append, List.mem_singleton] at hr
      rcases hr with hr | rfl
      · exact hlt r hr
      · have hmem : hd ∈ c.main k := by
          cases hm : c.main k with
          | nil => simp [hm] at hh
          | cons a t => simp [hm] at hh; subst hh; simp
        have := (i.bounds k hd (i.main_sub_all hmem)).2.1
        intro _
        show hd.seq < c.counter + 1
        omega

end FsDb
