import FsDb.Proofs.Lockset
/-
  The global half of C15: in every trace of disciplined goroutines under mutex semantics, two
  accesses to state of the same guard from different goroutines, one of them a write, are
  separated by a release of the guard by the first goroutine and a later acquisition by the second.
-/
namespace FsDb.Lockset

/-! ### lockset facts -/

theorem LS.mem_insert (L : LS) (e x : Lock × Bool) : x ∈ LS.insert L e ↔ x = e ∨ x ∈ L := by
  induction L with
  | nil => simp [LS.insert]
  | cons y ys ih =>
    simp only [LS.insert]
    split
    · simp
    · simp only [List.mem_cons, ih]
      constructor
      · rintro (h | h | h)
        · exact Or.inr (Or.inl h)
        · exact Or.inl h
        · exact Or.inr (Or.inr h)
      · rintro (h | h | h)
        · exact Or.inr (Or.inl h)
        · exact Or.inl h
        · exact Or.inr (Or.inr h)

theorem LS.covers_iff {L : LS} {l : Lock} {w : Bool} :
    L.covers l w = true ↔ (l, true) ∈ L ∨ (w = false ∧ (l, false) ∈ L) := by
  unfold LS.covers
  simp only [Bool.or_eq_true, Bool.and_eq_true, List.contains_iff_mem, Bool.not_eq_true']

/-- what one event does to the lockset -/
theorem LS.step_mem {L L' : LS} {e : Ev} (h : L.step e = some L') (x : Lock × Bool) :
    x ∈ L' ↔ (match e with
      | .acq l w => x = (l, w) ∨ x ∈ L
      | .rel l w => x ∈ L ∧ x ≠ (l, w)
      | .need _ _ => x ∈ L) := by
  cases e with
  | acq l w =>
    simp only [LS.step] at h
    split at h
    · simp at h
    · simp at h; subst h; exact LS.mem_insert _ _ _
  | rel l w =>
    simp only [LS.step] at h
    split at h
    · simp at h; subst h; simp [List.mem_filter]
    · simp at h
  | need l w =>
    simp only [LS.step] at h
    split at h
    · simp at h; subst h; rfl
    · simp at h

/-! ### states -/

@[simp] theorem Held.set_same (H : Held) (t : Thread) (L : LS) : (H.set t L) t = L := by simp [Held.set]
theorem Held.set_other (H : Held) {t t' : Thread} (L : LS) (h : t' ≠ t) : (H.set t L) t' = H t' := by simp [Held.set, h]

/-- mutual exclusion is preserved by every valid step -/
theorem Excl.step {H : Held} {t : Thread} {e : Ev} {L' : LS} (hx : Excl H) (hs : (H t).step e = some L')
    (hc : ∀ l w, e = .acq l w → compat H t l w) : Excl (H.set t L') := by
  intro t1 t2 l hne h1 w2 h2
  by_cases h1t : t1 = t
  · subst h1t
    have h2n : t2 ≠ t1 := fun h => hne h.symm
    rw [Held.set_other _ _ h2n] at h2
    rw [Held.set_same, LS.step_mem hs] at h1
    cases e with
    | acq l' w' =>
      simp only [Prod.mk.injEq] at h1
      rcases h1 with ⟨hl, hw⟩ | h1
      · subst hl; subst hw
        have := hc l true rfl t2 h2n
        cases w2
        · exact this.2 rfl h2
        · exact this.1 h2
      · exact hx t1 t2 l hne h1 w2 h2
    | rel l' w' => exact hx t1 t2 l hne h1.1 w2 h2
    | need l' w' => exact hx t1 t2 l hne h1 w2 h2
  · rw [Held.set_other _ _ h1t] at h1
    by_cases h2t : t2 = t
    · subst h2t
      rw [Held.set_same, LS.step_mem hs] at h2
      cases e with
      | acq l' w' =>
        simp only [Prod.mk.injEq] at h2
        rcases h2 with ⟨hl, _⟩ | h2
        · subst hl
          exact (hc l w' rfl t1 h1t).1 h1
        · exact hx t1 t2 l hne h1 w2 h2
      | rel l' w' => exact hx t1 t2 l hne h1 w2 h2.1
      | need l' w' => exact hx t1 t2 l hne h1 w2 h2
    · rw [Held.set_other _ _ h2t] at h2
      exact hx t1 t2 l hne h1 w2 h2

/-- the invariant survives any valid prefix -/
theorem GValid.split {H : Held} {pre tr : List (Thread × Ev)} (h : GValid H (pre ++ tr)) (hx : Excl H) :
    ∃ H', GValid H' tr ∧ Excl H' := by
  induction pre generalizing H with
  | nil => exact ⟨H, h, hx⟩
  | cons x xs ih =>
    cases h with
    | cons hs hc hrest => exact ih hrest (Excl.step hx hs hc)

/-! ### the synchronisation edge -/

/-- a goroutine that does not cover `l` now but accesses its state later has acquired it in between -/
theorem acq_between {b : Thread} {l : Lock} {wb : Bool} :
    ∀ {mid : List (Thread × Ev)} {H : Held} {post : List (Thread × Ev)},
      GValid H (mid ++ (b, .need l wb) :: post) → ¬ ((H b).covers l wb = true) →
      ∃ m2 m3 wq, mid = m2 ++ (b, .acq l wq) :: m3 := by
  intro mid
  induction mid with
  | nil =>
    intro H post h hc
    cases h with
    | cons hs _ _ =>
      simp only [LS.step] at hs
      split at hs
      · rename_i hcv; exact absurd hcv hc
      · simp at hs
  | cons x xs ih =>
    intro H post h hc
    obtain ⟨t, e⟩ := x
    cases h with
    | @cons _ _ _ L' _ hs hcm hrest =>
      by_cases hacq : t = b ∧ ∃ wq, e = .acq l wq
      · obtain ⟨rfl, wq, rfl⟩ := hacq
        exact ⟨[], xs, wq, rfl⟩
      · have hc' : ¬ (((H.set t L') b).covers l wb = true) := by
          by_cases htb : b = t
          · subst htb
            rw [Held.set_same]
            rw [LS.covers_iff] at hc ⊢
            rw [LS.step_mem hs, LS.step_mem hs]
            intro hcv
            apply hc
            cases e with
            | acq l' w' =>
              have hl : l' ≠ l := by
                intro hl; subst hl; exact hacq ⟨rfl, w', rfl⟩
              simp only [Prod.mk.injEq, Ne.symm hl, false_and, false_or] at hcv
              exact hcv
            | rel l' w' =>
              rcases hcv with h1 | ⟨h1, h2⟩
              · exact Or.inl h1.1
              · exact Or.inr ⟨h1, h2.1⟩
            | need l' w' => exact hcv
          · rw [Held.set_other _ _ htb]; exact hc
        obtain ⟨m2, m3, wq, hm⟩ := ih hrest hc'
        exact ⟨(t, e) :: m2, m3, wq, by simp [hm]⟩

/-- while `a` holds `l` in a mode that excludes `b`'s access, `b` cannot access: `a` releases and
    `b` acquires afterwards -/
theorem separated {a b : Thread} {l : Lock} {ma wb : Bool} (hab : a ≠ b) (hconf : ma = true ∨ wb = true) :
    ∀ {mid : List (Thread × Ev)} {H : Held} {post : List (Thread × Ev)},
      GValid H (mid ++ (b, .need l wb) :: post) → Excl H → (l, ma) ∈ H a →
      ∃ m1 m2 m3 wr wq, mid = m1 ++ (a, .rel l wr) :: (m2 ++ (b, .acq l wq) :: m3) := by
  intro mid
  -- `b` does not cover `l` while `a` holds it
  have notcov : ∀ {H : Held}, Excl H → (l, ma) ∈ H a → ¬ ((H b).covers l wb = true) := by
    intro H hx ha hcv
    rw [LS.covers_iff] at hcv
    rcases hconf with hma | hwb
    · subst hma
      rcases hcv with h | ⟨_, h⟩
      · exact hx a b l hab ha true h
      · exact hx a b l hab ha false h
    · subst hwb
      rcases hcv with h | ⟨h, _⟩
      · exact hx b a l (Ne.symm hab) h ma ha
      · simp at h
  induction mid with
  | nil =>
    intro H post h hx ha
    have := notcov hx ha
    cases h with
    | cons hs _ _ =>
      simp only [LS.step] at hs
      split at hs
      · rename_i hcv; exact absurd hcv this
      · simp at hs
  | cons x xs ih =>
    intro H post h hx ha
    obtain ⟨t, e⟩ := x
    cases h with
    | @cons _ _ _ L' _ hs hcm hrest =>
      have hx' := Excl.step hx hs hcm
      by_cases hrel : t = a ∧ e = .rel l ma
      · obtain ⟨rfl, rfl⟩ := hrel
        -- after the release `b` still does not cover `l`: find its acquisition
        have hcb : ¬ (((H.set t L') b).covers l wb = true) := by
          rw [Held.set_other _ _ (Ne.symm hab)]; exact notcov hx ha
        obtain ⟨m2, m3, wq, hm⟩ := acq_between hrest hcb
        exact ⟨[], m2, m3, ma, wq, by simp [hm]⟩
      · have ha' : (l, ma) ∈ (H.set t L') a := by
          by_cases hta : a = t
          · subst hta
            rw [Held.set_same, LS.step_mem hs]
            cases e with
            | acq l' w' => exact Or.inr ha
            | rel l' w' =>
              refine ⟨ha, ?_⟩
              intro heq; simp only [Prod.mk.injEq] at heq
              obtain ⟨rfl, rfl⟩ := heq
              exact hrel ⟨rfl, rfl⟩
            | need l' w' => exact ha
          · rw [Held.set_other _ _ hta]; exact ha
        obtain ⟨m1, m2, m3, wr, wq, hm⟩ := ih hrest hx' ha'
        exact ⟨(t, e) :: m1, m2, m3, wr, wq, by simp [hm]⟩

/-- **No data race.**  In a valid trace, two accesses to state guarded by `l` from different
    goroutines, at least one a write, have between them a release of `l` by the first goroutine and
    a later acquisition of `l` by the second: the later access is ordered after the earlier one by
    program order, the mutex's synchronises-before edge, and program order again. -/
theorem race_free {H : Held} (hx : Excl H) {pre mid post : List (Thread × Ev)} {a b : Thread} {l : Lock} {wa wb : Bool}
    (h : GValid H (pre ++ (a, .need l wa) :: (mid ++ (b, .need l wb) :: post)))
    (hab : a ≠ b) (hconf : wa = true ∨ wb = true) :
    ∃ m1 m2 m3 wr wq, mid = m1 ++ (a, .rel l wr) :: (m2 ++ (b, .acq l wq) :: m3) := by
  obtain ⟨H1, h1, hx1⟩ := GValid.split h hx
  cases h1 with
  | @cons _ _ _ L' _ hs hcm hrest =>
    have hx2 := Excl.step hx1 hs hcm
    simp only [LS.step] at hs
    split at hs
    · rename_i hcov
      simp at hs; subst hs
      rw [LS.covers_iff] at hcov
      rcases hcov with hw | ⟨hwa, hr⟩
      · exact separated (ma := true) hab (Or.inl rfl) hrest hx2 (by simpa using hw)
      · subst hwa
        have hwb : wb = true := by simpa using hconf
        exact separated (ma := false) hab (Or.inr hwb) hrest hx2 (by simpa using hr)
    · simp at hs

/-- disciplined goroutines produce valid traces: if every goroutine's remaining program runs
    through its own lockset without a violation, every trace of the system is valid -/
theorem Run.gvalid {H : Held} {Q : Thread → List Ev} {tr : List (Thread × Ev)} (h : Run H Q tr) :
    (∀ t, (LS.run (H t) (Q t)).isSome = true) → GValid H tr := by
  induction h with
  | nil => intro _; exact GValid.nil
  | @cons H Q t e rest tr hq hc _ ih =>
    intro hd
    have ht := hd t
    rw [hq] at ht
    simp only [LS.run] at ht
    cases hs : (H t).step e with
    | none => rw [hs] at ht; simp at ht
    | some L' =>
      rw [hs] at ht
      refine GValid.cons hs hc ?_
      have : ((H t).step e).getD (H t) = L' := by rw [hs]; rfl
      rw [this] at ih
      apply ih
      intro t'
      by_cases htt : t' = t
      · subst htt; simpa using ht
      · simp only [htt, if_false]; rw [Held.set_other _ _ htt]; exact hd t'

theorem Excl.init : Excl (fun _ => []) := by
  intro t t' l _ h; simp at h

end FsDb.Lockset
