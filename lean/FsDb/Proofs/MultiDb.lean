import FsDb.Proofs.Refine
import FsDb.Proofs.GcAt
import FsDb.Proofs.SpecShift
/-! Several databases in one process share only the sequence counter (`internal/model/sequence`).
    From the point of view of one database the others are an environment that advances the counter
    at arbitrary moments.  This file proves that such advances are invisible: the database answers
    exactly what the specification answers when it executes this database's operations alone. -/
namespace FsDb
open Sys Spec

/-- a tick on the right-hand side keeps the stamp renaming -/
theorem Spec.Shift.right_tick {f : Nat → Nat} {s s' : State} (h : Shift f s s') (n : Nat) : Shift f s (Spec.tick s' n) :=
  h.right_clock _ (Nat.le_max_left _ _) rfl rfl rfl

/-! ### one database in an environment that advances the counter -/


def Sys.erun (c : Sys) : List EOp → Sys × List Out
  | [] => (c, [])
  | .op o :: rest => let r := c.step o; let r2 := Sys.erun r.1 rest; (r2.1, r.2 :: r2.2)
  | .tick n :: rest => Sys.erun (c.tick n) rest

def Spec.erun (s : State) : List EOp → State × List Out
  | [] => (s, [])
  | .op o :: rest => let r := Spec.step s o; let r2 := Spec.erun r.1 rest; (r2.1, r.2 :: r2.2)
  | .tick n :: rest => Spec.erun (Spec.tick s n) rest

def opsOf : List EOp → List Op
  | [] => []
  | .op o :: rest => o :: opsOf rest
  | .tick _ :: rest => opsOf rest

def EOp.plain : EOp → Bool
  | .op o => plainOp o
  | .tick _ => true

theorem plain_core {o : Op} (h : plainOp o = true) : o.core = true := by
  cases o <;> simp_all [plainOp, Op.core]

/-- concrete model with ticks = specification with ticks -/
theorem erun_refines {c : Sys} {s : State} (h : R c s) (es : List EOp) (hp : ∀ e ∈ es, e.plain = true) :
    (c.erun es).2 = (Spec.erun s es).2 ∧ R (c.erun es).1 (Spec.erun s es).1 := by
  induction es generalizing c s with
  | nil => exact ⟨rfl, h⟩
  | cons e es ih =>
    have hrest : ∀ e' ∈ es, e'.plain = true := fun e' he' => hp e' (List.mem_cons_of_mem _ he')
    cases e with
    | op o =>
      have hs := Refine.step h o (plain_core (hp (.op o) (by simp)))
      have := ih hs.2 hrest
      simp only [Sys.erun, Spec.erun]
      exact ⟨by rw [hs.1, this.1], this.2⟩
    | tick n =>
      simp only [Sys.erun, Spec.erun]
      exact ih (h.tick n) hrest

/-- specification with ticks = specification of the operations alone (only the ORDER of stamps is
    observable, and a tick creates no stamp) -/
theorem erun_erases {f : Nat → Nat} {s s' : State} (h : Shift f s s') (hs : SInv s) (ho : OwnLe s)
    (es : List EOp) (hp : ∀ e ∈ es, e.plain = true) :
    (Spec.erun s' es).2 = (Spec.run s (opsOf es)).2 := by
  induction es generalizing f s s' with
  | nil => rfl
  | cons e es ih =>
    have hrest : ∀ e' ∈ es, e'.plain = true := fun e' he' => hp e' (List.mem_cons_of_mem _ he')
    cases e with
    | op o =>
      obtain ⟨h1, g, h2⟩ := h.step hs ho o (hp (.op o) (by simp))
      simp only [Spec.erun, opsOf, Spec.run]
      rw [h1, ih h2 (hs.step o) (ho.step o) hrest]
    | tick n =>
      simp only [Spec.erun, opsOf]
      exact ih (h.right_tick n) hs ho hrest

/-- **One database among others.**  Whatever the other databases of the process do to the shared
    counter, and whenever they do it, this database answers what the specification answers to its
    own operations. -/
theorem env_invisible (es : List EOp) (hp : ∀ e ∈ es, e.plain = true) :
    (({} : Sys).erun es).2 = (Spec.run {} (opsOf es)).2 := by
  rw [(erun_refines R.init es hp).1]
  exact erun_erases (Shift.refl {}) SInv.init OwnLe.init es hp

/-! ### the process: any number of databases, one counter -/

structure Proc where
  global : Nat := 0
  dbs : Nat → Sys := fun _ => {}

/-- operation `o` on database `d`: the database sees the process-wide counter, and leaves it advanced -/
def Proc.step (p : Proc) (d : Nat) (o : Op) : Proc × Out :=
  let c := (p.dbs d).tick p.global
  let r := c.step o
  ({ global := max p.global r.1.counter, dbs := fun d' => if d' = d then r.1 else p.dbs d' }, r.2)

def Proc.run (p : Proc) : List (Nat × Op) → Proc × List (Nat × Out)
  | [] => (p, [])
  | (d, o) :: rest => let r := p.step d o; let r2 := Proc.run r.1 rest; (r2.1, (d, r.2) :: r2.2)

/-- the history of database `d` as that database sees it: its own operations, each preceded by the
    counter value the process had reached -/
def viewOf (d : Nat) (p : Proc) : List (Nat × Op) → List EOp
  | [] => []
  | (d', o) :: rest =>
    if d' = d then .tick p.global :: .op o :: viewOf d (p.step d' o).1 rest
    else viewOf d (p.step d' o).1 rest

theorem viewOf_plain (d : Nat) (p : Proc) (h : List (Nat × Op)) (hp : ∀ x ∈ h, plainOp x.2 = true) :
    ∀ e ∈ viewOf d p h, e.plain = true := by
  induction h generalizing p with
  | nil => intro e he; cases he
  | cons x h ih =>
    obtain ⟨d', o⟩ := x
    have hrest : ∀ y ∈ h, plainOp y.2 = true := fun y hy => hp y (List.mem_cons_of_mem _ hy)
    intro e he
    simp only [viewOf] at he
    split at he
    · simp only [List.mem_cons] at he
      rcases he with rfl | rfl | he
      · rfl
      · exact hp (d', o) (by simp)
      · exact ih _ hrest e he
    · exact ih _ hrest e he

theorem opsOf_viewOf (d : Nat) (p : Proc) (h : List (Nat × Op)) :
    opsOf (viewOf d p h) = (h.filter (·.1 = d)).map (·.2) := by
  induction h generalizing p with
  | nil => rfl
  | cons x h ih =>
    obtain ⟨d', o⟩ := x
    simp only [viewOf]
    by_cases hd : d' = d
    · simp [hd, opsOf, ih]
    · simp [hd, ih]

/-- the answers database `d` gives in the process run are those of its own run in its view -/
theorem run_view (d : Nat) (p : Proc) (h : List (Nat × Op)) :
    ((p.run h).2.filter (·.1 = d)).map (·.2) = ((p.dbs d).erun (viewOf d p h)).2 := by
  induction h generalizing p with
  | nil => rfl
  | cons x h ih =>
    obtain ⟨d', o⟩ := x
    simp only [Proc.run, viewOf]
    by_cases hd : d' = d
    · subst hd
      have := ih (p.step d' o).1
      have e : (p.step d' o).1.dbs d' = (((p.dbs d').tick p.global).step o).1 := by simp [Proc.step]
      rw [e] at this
      simp only [if_true, Sys.erun]
      rw [List.filter_cons_of_pos (by simp), List.map_cons, this]
      rfl
    · have := ih (p.step d' o).1
      rw [List.filter_cons_of_neg (by simpa using hd), if_neg hd, this]
      have e : (p.step d' o).1.dbs d = p.dbs d := by simp [Proc.step, Ne.symm hd]
      rw [e]

/-- **Several databases in one process.**  For EVERY interleaved history of operations on any
    number of databases sharing the process-wide counter, every database answers exactly what the
    specification answers to that database's own operations alone. -/
theorem multi_db (h : List (Nat × Op)) (hp : ∀ x ∈ h, plainOp x.2 = true) (d : Nat) :
    ((({} : Proc).run h).2.filter (·.1 = d)).map (·.2) = (Spec.run {} ((h.filter (·.1 = d)).map (·.2))).2 := by
  rw [run_view d {} h, ← opsOf_viewOf d {} h]
  exact env_invisible _ (viewOf_plain d {} h hp)

end FsDb
