import FsDb.Proofs.StepRollback
import FsDb.Model.SysSteps
/-! Physical deletion (`deleteFiles`, `drain`) is invisible: it preserves `Inv` and `R`. -/
namespace FsDb
open Sys Spec

/-- `R` only looks at the logical fields -/
theorem Rx.transfer {c c' : Sys} {s : State} {cl : List Nat} (h : Rx cl c s) (i' : Inv c')
    (h1 : c'.counter = c.counter) (h2 : c'.dom = c.dom) (h3 : c'.reg = c.reg)
    (h4 : c'.main = c.main) (h5 : c'.txs = c.txs) : Rx cl c' s := by
  refine ⟨i', by rw [h1]; exact h.clock, by rw [h2]; exact h.dom, by rw [h3]; exact h.reg, ?_, ?_, ?_⟩
  · intro x hx k
    have hne : x.id ≠ mainTx := h.inv.regMain _ (h.mem_open hx)
    rw [h.own x hx k, ownLatest_tx hne, ownLatest_tx hne, h5]
  · intro k; rw [h4, h3]; exact h.hist k
  · intro k hne; rw [h2]; exact h.histDom k hne


theorem deleteFiles_eq (s : Sys) (vs : List Ver) : s.deleteFiles vs = vs.foldl delOne s := rfl

section delOneFields
variable (s : Sys) (v : Ver)
@[simp] theorem delOne_counter : (delOne s v).counter = s.counter := by unfold delOne; split <;> rfl
@[simp] theorem delOne_main : (delOne s v).main = s.main := by unfold delOne; split <;> rfl
@[simp] theorem delOne_txs : (delOne s v).txs = s.txs := by unfold delOne; split <;> rfl
@[simp] theorem delOne_all : (delOne s v).all = s.all := by unfold delOne; split <;> rfl
@[simp] theorem delOne_reg : (delOne s v).reg = s.reg := by unfold delOne; split <;> rfl
@[simp] theorem delOne_dom : (delOne s v).dom = s.dom := by unfold delOne; split <;> rfl
@[simp] theorem delOne_nextCid : (delOne s v).nextCid = s.nextCid := by unfold delOne; split <;> rfl
@[simp] theorem delOne_pending : (delOne s v).pending = s.pending := by unfold delOne; split <;> rfl
end delOneFields

theorem find_filter_ne (l : List (Nat × Nat)) {cid d : Nat} (h : cid ≠ d) :
    (l.filter (fun p => decide (p.1 ≠ d))).find? (fun p => decide (p.1 = cid))
      = l.find? (fun p => decide (p.1 = cid)) := by
  induction l with
  | nil => rfl
  | cons a l ih =>
    by_cases ha : a.1 = d
    · have hc : ¬ a.1 = cid := by intro e; exact h (e.symm.trans ha)
      rw [List.filter_cons_of_neg (by simp [ha]), List.find?_cons_of_neg (by simp [hc])]; exact ih
    · rw [List.filter_cons_of_pos (by simp [ha])]
      by_cases hc : a.1 = cid
      · rw [List.find?_cons_of_pos (by simp [hc]), List.find?_cons_of_pos (by simp [hc])]
      · rw [List.find?_cons_of_neg (by simp [hc]), List.find?_cons_of_neg (by simp [hc])]; exact ih

theorem delOne_hasContent (s : Sys) (v : Ver) {cid : Nat} (h : cid ≠ v.cid) :
    (delOne s v).hasContent cid = s.hasContent cid := by
  unfold delOne
  split
  · rfl
  · simp only [Sys.hasContent]; rw [find_filter_ne _ h]

theorem delOne_inv {c : Sys} (i : Inv c) (v : Ver) (hd : ∀ k, ∀ w ∈ c.all k, w.cid ≠ v.cid) :
    Inv (delOne c v) := by
  refine ⟨by simpa using i.mainSorted, by simpa using i.txSorted, by simpa using i.allSorted,
    ?_, by simpa using i.bounds, by simpa using i.cidUnique, by simpa using i.regIds,
    by simpa using i.regMain, by simpa using i.regSorted, by simpa using i.regBound,
    by simpa using i.txsReg, by simpa using i.ownAfter, by simpa using i.beginNotVer, ?_, ?_,
    by simpa using i.pendDead, by simpa using i.pendBound, by simpa using i.domAll,
    by simpa using i.domNodup, by simpa using i.tagMain, by simpa using i.tagTx⟩
  · intro k u; simp only [delOne_all]; rw [i.allMem]; simp [Live]
  · intro k w hw
    simp only [delOne_all] at hw
    rw [delOne_hasContent c v (hd k w hw)]
    exact i.stor k w hw
  · intro p hp
    simp only [delOne_nextCid]
    apply i.cfsBound
    unfold delOne at hp
    split at hp
    · exact hp
    · exact mem_of_filter hp

theorem deleteFiles_fields (c : Sys) (vs : List Ver) :
    (c.deleteFiles vs).counter = c.counter ∧ (c.deleteFiles vs).main = c.main ∧
    (c.deleteFiles vs).txs = c.txs ∧ (c.deleteFiles vs).all = c.all ∧ (c.deleteFiles vs).reg = c.reg ∧
    (c.deleteFiles vs).dom = c.dom ∧ (c.deleteFiles vs).nextCid = c.nextCid ∧
    (c.deleteFiles vs).pending = c.pending := by
  rw [deleteFiles_eq]
  induction vs generalizing c with
  | nil => simp
  | cons v vs ih =>
    simp only [List.foldl_cons]
    have := ih (delOne c v)
    simpa using this

theorem deleteFiles_inv {c : Sys} (i : Inv c) (vs : List Ver)
    (hd : ∀ v ∈ vs, ∀ k, ∀ w ∈ c.all k, w.cid ≠ v.cid) : Inv (c.deleteFiles vs) := by
  rw [deleteFiles_eq]
  induction vs generalizing c with
  | nil => exact i
  | cons v vs ih =>
    simp only [List.foldl_cons]
    apply ih (delOne_inv i v (hd v (by simp)))
    intro u hu k w hw
    simp only [delOne_all] at hw
    exact hd u (List.mem_cons_of_mem _ hu) k w hw

theorem deleteFiles_R {c : Sys} {s : State} {cl : List Nat} (h : Rx cl c s) (vs : List Ver)
    (hd : ∀ v ∈ vs, ∀ k, ∀ w ∈ c.all k, w.cid ≠ v.cid) : Rx cl (c.deleteFiles vs) s := by
  obtain ⟨f1, f2, f3, _, f5, f6, _, _⟩ := deleteFiles_fields c vs
  exact h.transfer (deleteFiles_inv h.inv vs hd) f1 f6 f5 f2 f3

/-- running any list of jobs that are all dead -/
theorem jobs_R {c : Sys} {s : State} {cl : List Nat} (h : Rx cl c s) (jobs : List (List Ver))
    (hd : ∀ job ∈ jobs, ∀ v ∈ job, ∀ k, ∀ w ∈ c.all k, w.cid ≠ v.cid) :
    Rx cl (jobs.foldl (fun s job => s.deleteFiles job) c) s ∧
    (jobs.foldl (fun s job => s.deleteFiles job) c).all = c.all ∧
    (jobs.foldl (fun s job => s.deleteFiles job) c).pending = c.pending ∧
    (jobs.foldl (fun s job => s.deleteFiles job) c).nextCid = c.nextCid := by
  induction jobs generalizing c with
  | nil => exact ⟨h, rfl, rfl, rfl⟩
  | cons j js ih =>
    simp only [List.foldl_cons]
    obtain ⟨_, _, _, f4, _, _, f7, f8⟩ := deleteFiles_fields c j
    have h' := deleteFiles_R h j (hd j (by simp))
    have := ih h' (by
      intro job hj v hv k w hw
      rw [f4] at hw
      exact hd job (List.mem_cons_of_mem _ hj) v hv k w hw)
    exact ⟨this.1, this.2.1.trans f4, this.2.2.1.trans f8, this.2.2.2.trans f7⟩

theorem step_drain {c : Sys} {s : State} {cl : List Nat} (h : Rx cl c s) :
    (c.drain).2 = .ok ∧ Rx cl (c.drain).1 s := by
  refine ⟨rfl, ?_⟩
  unfold Sys.drain
  obtain ⟨hR, hall, hpend, hcid⟩ := jobs_R h c.pending h.inv.pendDead
  generalize c.pending.foldl (fun s job => s.deleteFiles job) c = c1 at hR hall hpend hcid
  have i := hR.inv
  have i' : Inv { c1 with pending := [] } := by
    refine ⟨i.mainSorted, i.txSorted, i.allSorted, i.allMem, i.bounds, i.cidUnique, i.regIds, i.regMain,
      i.regSorted, i.regBound, i.txsReg, i.ownAfter, i.beginNotVer, i.stor, i.cfsBound, ?_, ?_, i.domAll,
      i.domNodup, i.tagMain, i.tagTx⟩
    · intro job hj; simp at hj
    · intro job hj; simp at hj
  exact hR.transfer i' rfl rfl rfl rfl rfl

end FsDb
