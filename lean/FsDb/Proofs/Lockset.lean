import FsDb.Model.Lockset
/-
  Soundness of the static lock-discipline checker (every path of an accepted statement is
  disciplined and ends with the predicted lockset) and the global theorem (disciplined goroutines +
  mutex semantics ⇒ conflicting accesses are separated by a release/acquire pair of their guard).
-/
namespace FsDb.Lockset

/-! ### locksets -/

theorem LS.run_append (L : LS) (p q : List Ev) :
    LS.run L (p ++ q) = (LS.run L p).bind (fun L' => LS.run L' q) := by
  induction p generalizing L with
  | nil => simp [LS.run]
  | cons e es ih =>
    simp only [List.cons_append, LS.run]
    cases h : L.step e with
    | none => simp
    | some L' => simp [ih]

theorem LS.run_append_some {L L1 L2 : LS} {p q : List Ev} (h1 : LS.run L p = some L1) (h2 : LS.run L1 q = some L2) :
    LS.run L (p ++ q) = some L2 := by
  rw [LS.run_append, h1]; simpa using h2

theorem LS.run_prefix {L L2 : LS} {p q : List Ev} (h : LS.run L (p ++ q) = some L2) :
    ∃ L1, LS.run L p = some L1 ∧ LS.run L1 q = some L2 := by
  rw [LS.run_append] at h
  cases h1 : LS.run L p with
  | none => simp [h1] at h
  | some L1 => exact ⟨L1, rfl, by simpa [h1] using h⟩

/-! ### the checker is sound -/

theorem mergeO_left {a b : Option LS} {r : Option LS} {L : LS} (h : mergeO a b = some r) (ha : a = some L) : r = some L := by
  subst ha
  cases b with
  | none => simp [mergeO] at h; exact h.symm
  | some y =>
    simp only [mergeO] at h
    split at h
    · simp at h; exact h.symm
    · simp at h

theorem mergeO_right {a b : Option LS} {r : Option LS} {L : LS} (h : mergeO a b = some r) (hb : b = some L) : r = some L := by
  subst hb
  cases a with
  | none => simp [mergeO] at h; exact h.symm
  | some x =>
    simp only [mergeO] at h
    split at h
    · rename_i hxy; simp at h; rw [← h, hxy]
    · simp at h

theorem Res.merge_left {a b r : Res} {o : Out} {L : LS} (h : Res.merge a b = some r) (ha : a.get o = some L) : r.get o = some L := by
  unfold Res.merge at h
  split at h
  · rename_i n rr k c hn hr hk hc
    simp at h; subst h
    cases o <;> simp only [Res.get] at ha ⊢
    · exact mergeO_left hn ha
    · exact mergeO_left hr ha
    · exact mergeO_left hk ha
    · exact mergeO_left hc ha
  · simp at h

theorem Res.merge_right {a b r : Res} {o : Out} {L : LS} (h : Res.merge a b = some r) (hb : b.get o = some L) : r.get o = some L := by
  unfold Res.merge at h
  split at h
  · rename_i n rr k c hn hr hk hc
    simp at h; subst h
    cases o <;> simp only [Res.get] at hb ⊢
    · exact mergeO_right hn hb
    · exact mergeO_right hr hb
    · exact mergeO_right hk hb
    · exact mergeO_right hc hb
  · simp at h

theorem okEq_some {x : Option LS} {L L' : LS} (h : okEq x L = true) (hx : x = some L') : L' = L := by
  subst hx; simpa [okEq] using h

/-- every path of an accepted statement is disciplined, and ends holding what the checker says -/
theorem check_sound {s : Stmt} {p : List Ev} {o : Out} (hx : Exec s p o) :
    ∀ {L : LS} {r : Res}, check s L = some r → ∃ L', LS.run L p = some L' ∧ r.get o = some L' := by
  induction hx with
  | skip => intro L r h; simp [check] at h; subst h; exact ⟨L, rfl, rfl⟩
  | ev e =>
    intro L r h
    simp only [check] at h
    split at h
    · simp at h
    · rename_i L' hs; simp at h; subst h; exact ⟨L', by simp [LS.run, hs], rfl⟩
  | @seqN a b p q o _ _ iha ihb =>
    intro L r h
    simp only [check] at h
    split at h
    · simp at h
    · rename_i ra hra
      obtain ⟨L1, hr1, hg1⟩ := iha hra
      simp only [Res.get] at hg1
      split at h
      · rename_i hn; rw [hn] at hg1; simp at hg1
      · rename_i L1' hn
        rw [hn] at hg1; simp at hg1; subst hg1
        split at h
        · simp at h
        · rename_i rb hrb
          obtain ⟨L2, hr2, hg2⟩ := ihb hrb
          exact ⟨L2, LS.run_append_some hr1 hr2, Res.merge_right h hg2⟩
  | @seqA a b p o _ hne iha =>
    intro L r h
    simp only [check] at h
    split at h
    · simp at h
    · rename_i ra hra
      obtain ⟨L1, hr1, hg1⟩ := iha hra
      refine ⟨L1, hr1, ?_⟩
      split at h
      · simp at h; subst h; exact hg1
      · split at h
        · simp at h
        · refine Res.merge_left h ?_
          cases o <;> first | exact absurd rfl hne | exact hg1
  | @altL a b p o _ iha =>
    intro L r h
    simp only [check] at h
    split at h
    · rename_i ra rb hra hrb
      obtain ⟨L1, hr1, hg1⟩ := iha hra
      exact ⟨L1, hr1, Res.merge_left h hg1⟩
    · simp at h
  | @altR a b p o _ ihb =>
    intro L r h
    simp only [check] at h
    split at h
    · rename_i ra rb hra hrb
      obtain ⟨L1, hr1, hg1⟩ := ihb hrb
      exact ⟨L1, hr1, Res.merge_right h hg1⟩
    · simp at h
  | @loop0 a =>
    intro L r h
    simp only [check] at h
    split at h
    · simp at h
    · split at h
      · simp at h; subst h; exact ⟨L, rfl, rfl⟩
      · simp at h
  | @loopN a p q o _ _ iha ihl =>
    intro L r h
    have h0 := h
    simp only [check] at h
    split at h
    · simp at h
    · rename_i ra hra
      split at h
      · rename_i hok
        simp only [Bool.and_eq_true] at hok
        obtain ⟨L1, hr1, hg1⟩ := iha hra
        have : L1 = L := okEq_some hok.1.1 hg1
        subst this
        obtain ⟨L2, hr2, hg2⟩ := ihl h0
        exact ⟨L2, LS.run_append_some hr1 hr2, hg2⟩
      · simp at h
  | @loopC a p q o _ _ iha ihl =>
    intro L r h
    have h0 := h
    simp only [check] at h
    split at h
    · simp at h
    · rename_i ra hra
      split at h
      · rename_i hok
        simp only [Bool.and_eq_true] at hok
        obtain ⟨L1, hr1, hg1⟩ := iha hra
        have : L1 = L := okEq_some hok.1.2 hg1
        subst this
        obtain ⟨L2, hr2, hg2⟩ := ihl h0
        exact ⟨L2, LS.run_append_some hr1 hr2, hg2⟩
      · simp at h
  | @loopB a p _ iha =>
    intro L r h
    simp only [check] at h
    split at h
    · simp at h
    · rename_i ra hra
      split at h
      · rename_i hok
        simp only [Bool.and_eq_true] at hok
        obtain ⟨L1, hr1, hg1⟩ := iha hra
        have : L1 = L := okEq_some hok.2 hg1
        subst this
        simp at h; subst h
        exact ⟨L1, hr1, rfl⟩
      · simp at h
  | @loopR a p _ iha =>
    intro L r h
    simp only [check] at h
    split at h
    · simp at h
    · rename_i ra hra
      split at h
      · obtain ⟨L1, hr1, hg1⟩ := iha hra
        simp at h; subst h
        exact ⟨L1, hr1, hg1⟩
      · simp at h
  | @scopeN a f p q o _ _ iha ihf =>
    intro L r h
    simp only [check] at h
    split at h
    · simp at h
    · rename_i ra hra
      split at h
      · simp at h
      · obtain ⟨L1, hr1, hg1⟩ := iha hra
        simp only [Res.get] at hg1
        rw [hg1] at h
        simp only at h
        split at h
        · rename_i x y hx hy
          obtain ⟨L2, hr2, hg2⟩ := ihf hx
          exact ⟨L2, LS.run_append_some hr1 hr2, Res.merge_left h hg2⟩
        · simp at h
  | @scopeR a f p q _ _ iha ihf =>
    intro L r h
    simp only [check] at h
    split at h
    · simp at h
    · rename_i ra hra
      split at h
      · simp at h
      · obtain ⟨L1, hr1, hg1⟩ := iha hra
        simp only [Res.get] at hg1
        rw [hg1] at h
        simp only at h
        split at h
        · rename_i x y hx hy
          -- the finaliser was checked from L1 and completes normally
          split at hy
          · simp at hy
          · rename_i rf hrf
            split at hy
            · simp at hy
            · simp at hy; subst hy
              obtain ⟨L2, hr2, hg2⟩ := ihf hrf
              simp only [Res.get] at hg2
              exact ⟨L2, LS.run_append_some hr1 hr2, Res.merge_right h (by simpa [Res.get] using hg2)⟩
        · simp at h
  | @frameN a p _ iha =>
    intro L r h
    simp only [check] at h
    split at h
    · simp at h
    · rename_i ra hra
      split at h
      · simp at h
      · split at h
        · simp at h
        · rename_i n hn
          simp at h; subst h
          obtain ⟨L1, hr1, hg1⟩ := iha hra
          exact ⟨L1, hr1, mergeO_left hn hg1⟩
  | @frameR a p _ iha =>
    intro L r h
    simp only [check] at h
    split at h
    · simp at h
    · rename_i ra hra
      split at h
      · simp at h
      · split at h
        · simp at h
        · rename_i n hn
          simp at h; subst h
          obtain ⟨L1, hr1, hg1⟩ := iha hra
          exact ⟨L1, hr1, mergeO_right hn hg1⟩
  | @blockN a p _ iha =>
    intro L r h
    simp only [check] at h
    split at h
    · simp at h
    · rename_i ra hra
      split at h
      · simp at h
      · rename_i n hn
        simp at h; subst h
        obtain ⟨L1, hr1, hg1⟩ := iha hra
        exact ⟨L1, hr1, mergeO_left hn hg1⟩
  | @blockB a p _ iha =>
    intro L r h
    simp only [check] at h
    split at h
    · simp at h
    · rename_i ra hra
      split at h
      · simp at h
      · rename_i n hn
        simp at h; subst h
        obtain ⟨L1, hr1, hg1⟩ := iha hra
        exact ⟨L1, hr1, mergeO_right hn hg1⟩
  | @blockR a p _ iha =>
    intro L r h
    simp only [check] at h
    split at h
    · simp at h
    · rename_i ra hra
      split at h
      · simp at h
      · simp at h; subst h
        obtain ⟨L1, hr1, hg1⟩ := iha hra
        exact ⟨L1, hr1, hg1⟩
  | @blockC a p _ iha =>
    intro L r h
    simp only [check] at h
    split at h
    · simp at h
    · rename_i ra hra
      split at h
      · simp at h
      · simp at h; subst h
        obtain ⟨L1, hr1, hg1⟩ := iha hra
        exact ⟨L1, hr1, hg1⟩
  | ret => intro L r h; simp [check] at h; subst h; exact ⟨L, rfl, rfl⟩
  | brk => intro L r h; simp [check] at h; subst h; exact ⟨L, rfl, rfl⟩
  | cont => intro L r h; simp [check] at h; subst h; exact ⟨L, rfl, rfl⟩

/-- an accepted root, run from no locks held, is disciplined and ends with no locks held -/
theorem rootOk_sound {body : Stmt} (hok : rootOk body = true) {p : List Ev} (hp : RootPath body p) :
    LS.run [] p = some [] := by
  unfold rootOk at hok
  split at hok
  · simp at hok
  · rename_i r hr
    simp only [Bool.and_eq_true] at hok
    rcases hp with hp | hp
    · obtain ⟨L', h1, h2⟩ := check_sound hp hr
      have := okEq_some hok.1.1.1 h2
      subst this; exact h1
    · obtain ⟨L', h1, h2⟩ := check_sound hp hr
      have := okEq_some hok.1.1.2 h2
      subst this; exact h1

/-- any sequence of calls of accepted roots is disciplined -/
theorem calls_disciplined (paths : List (List Ev)) (h : ∀ p ∈ paths, LS.run [] p = some []) :
    LS.run [] paths.flatten = some [] := by
  induction paths with
  | nil => rfl
  | cons p ps ih =>
    simp only [List.flatten_cons]
    exact LS.run_append_some (h p (by simp)) (ih (fun q hq => h q (by simp [hq])))

end FsDb.Lockset
