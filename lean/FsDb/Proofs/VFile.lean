import FsDb.Model.VFile
/-! Helper lemmas about the per-key store (core Lean only). -/
namespace FsDb

theorem SortedSeq.take {l : List Ver} (h : SortedSeq l) (n : Nat) : SortedSeq (l.take n) :=
  List.Pairwise.sublist (List.take_sublist n l) h

theorem SortedSeq.drop {l : List Ver} (h : SortedSeq l) (n : Nat) : SortedSeq (l.drop n) :=
  List.Pairwise.sublist (List.drop_sublist n l) h

theorem SortedSeq.lt_of_lt {l : List Ver} (h : SortedSeq l) {i j : Nat} (hi : i < l.length)
    (hj : j < l.length) (hij : i < j) : l[i].seq < l[j].seq := by
  have := (List.pairwise_iff_getElem.mp h) i j hi hj hij
  exact this

theorem SortedSeq.le_of_le {l : List Ver} (h : SortedSeq l) {i j : Nat} (hi : i < l.length)
    (hj : j < l.length) (hij : i ≤ j) : l[i].seq ≤ l[j].seq := by
  rcases Nat.lt_or_eq_of_le hij with h1 | h1
  · exact Nat.le_of_lt (h.lt_of_lt hi hj h1)
  · subst h1; exact Nat.le_refl _

/-- everything from index `i` on is not below the probe if `l[i]` is not -/
theorem filter_drop_nil {l : List Ver} (h : SortedSeq l) {i : Nat} (hi : i < l.length) {s : Nat}
    (hs : ¬ l[i].seq < s) : (l.drop i).filter (fun v => v.seq < s) = [] := by
  rw [List.filter_eq_nil_iff]
  intro v hv
  obtain ⟨j, hj, rfl⟩ := List.getElem_of_mem hv
  simp only [List.length_drop] at hj
  simp only [List.getElem_drop, decide_eq_true_eq]
  have := h.le_of_le hi (by omega : i + j < l.length) (by omega)
  omega

/-- everything up to and including index `i` is below the probe if `l[i]` is -/
theorem filter_take_self {l : List Ver} (h : SortedSeq l) {i : Nat} (hi : i < l.length) {s : Nat}
    (hs : l[i].seq < s) : (l.take (i+1)).filter (fun v => v.seq < s) = l.take (i+1) := by
  rw [List.filter_eq_self]
  intro v hv
  obtain ⟨j, hj, rfl⟩ := List.getElem_of_mem hv
  simp only [List.length_take] at hj
  simp only [List.getElem_take, decide_eq_true_eq]
  have := h.le_of_le (by omega : j < l.length) hi (by omega)
  omega

theorem lastBeforeSpec_split (l : List Ver) (n s : Nat) :
    lastBeforeSpec l s =
      ((l.drop n).filter (fun v => v.seq < s)).getLast?.or
        ((l.take n).filter (fun v => v.seq < s)).getLast? := by
  unfold lastBeforeSpec
  conv => lhs; rw [← List.take_append_drop n l]
  rw [List.filter_append, List.getLast?_append]

theorem getLast?_take_succ (l : List Ver) (i : Nat) (hi : i < l.length) :
    (l.take (i+1)).getLast? = some l[i] := by
  rw [List.getLast?_eq_getElem?]
  simp [List.length_take, Nat.min_eq_left (Nat.succ_le_of_lt hi)]

/-- C18 core: the binary search of file.go computes "newest version before the probe". -/
theorem bsearch_eq_spec (l : List Ver) (s : Nat) (h : SortedSeq l) :
    bsearch l s = lastBeforeSpec l s := by
  fun_induction bsearch l s with
  | case1 arr h0 =>
    have : arr = [] := List.eq_nil_of_length_eq_zero h0
    subst this; rfl
  | case2 arr h0 n hn hs ih =>
    rw [ih (h.take n), lastBeforeSpec_split arr n s, filter_drop_nil h hn hs]
    simp [lastBeforeSpec]
  | case3 arr h0 n hn hs h1 =>
    have hs' : arr[n].seq < s := by simpa using hs
    have hlen : n + 1 = arr.length := by omega
    have htake : arr.take (n+1) = arr := by rw [hlen]; exact List.take_length
    have := filter_take_self h hn hs'
    rw [htake] at this
    unfold lastBeforeSpec
    rw [this]
    have := getLast?_take_succ arr n hn
    rw [htake] at this
    exact this.symm
  | case4 arr h0 n hn hs h1 hn1 hs1 =>
    have hs' : arr[n].seq < s := by simpa using hs
    rw [lastBeforeSpec_split arr (n+1) s, filter_drop_nil h hn1 hs1, filter_take_self h hn hs']
    simp [getLast?_take_succ arr n hn]
  | case5 arr h0 n hn hs h1 hn1 hs1 ih =>
    have hs1' : arr[n+1].seq < s := by simpa using hs1
    rw [ih (h.drop (n+1)), lastBeforeSpec_split arr (n+1) s]
    unfold lastBeforeSpec
    have hne : ((arr.drop (n+1)).filter (fun v => v.seq < s)) ≠ [] := by
      intro hnil
      rw [List.filter_eq_nil_iff] at hnil
      have hm : arr[n+1] ∈ arr.drop (n+1) := by
        rw [List.mem_iff_getElem]
        refine ⟨0, by simp [List.length_drop]; omega, by simp⟩
      have := hnil _ hm
      simp [hs1'] at this
    cases hg : ((arr.drop (n+1)).filter (fun v => v.seq < s)).getLast? with
    | none => exact absurd (List.getLast?_eq_none_iff.mp hg) hne
    | some v => simp

/-! ### collect (GC of one key) -/

theorem collect_append (l : List Ver) (hz : Nat) : (collect l hz).1 ++ (collect l hz).2 = l := by
  fun_induction collect l hz with
  | case1 a b rest hz hc r ih => simp [r, ih]
  | case2 a b rest hz hc => simp
  | case3 l hz hne => simp

/-- the remainder is never empty unless the input was: the newest version always survives -/
theorem collect_snd_ne_nil (l : List Ver) (hz : Nat) (h : l ≠ []) : (collect l hz).2 ≠ [] := by
  fun_induction collect l hz with
  | case1 a b rest hz hc r ih => exact ih (by simp)
  | case2 a b rest hz hc => simp
  | case3 l hz hne => exact h

theorem collect_getLast? (l : List Ver) (hz : Nat) : (collect l hz).2.getLast? = l.getLast? := by
  fun_induction collect l hz with
  | case1 a b rest hz hc r ih => rw [ih]; simp [List.getLast?_cons_cons]
  | case2 a b rest hz hc => rfl
  | case3 l hz hne => rfl

/-- every collected version is older than the horizon: `seq < hz` (its successor is `≤ hz`) -/
theorem collect_fst_lt (l : List Ver) (hz : Nat) (h : SortedSeq l) :
    ∀ v ∈ (collect l hz).1, v.seq < hz := by
  fun_induction collect l hz with
  | case1 a b rest hz hc r ih =>
    intro v hv
    simp only [List.mem_cons] at hv
    rcases hv with rfl | hv
    · have : v.seq < b.seq := by
        have := List.rel_of_pairwise_cons h (List.mem_cons_self)
        exact this
      omega
    · exact ih (List.Pairwise.of_cons h) v hv
  | case2 a b rest hz hc => simp
  | case3 l hz hne => simp

/-- the head of the remainder, if it has a successor there, has successor `> hz` (or zero) -/
theorem collect_snd_stop (l : List Ver) (hz : Nat) :
    ∀ a b rest, (collect l hz).2 = a :: b :: rest → ¬ (b.seq ≠ 0 ∧ ¬ b.seq > hz) := by
  fun_induction collect l hz with
  | case1 a b rest hz hc r ih => exact ih
  | case2 a b rest hz hc =>
    intro a' b' rest' he
    simp only [List.cons.injEq] at he
    obtain ⟨rfl, rfl, rfl⟩ := he
    exact hc
  | case3 l hz hne =>
    intro a b rest he
    exact absurd he (by intro h; exact hne a b rest h)

/-- exactness: position `i` of a sorted list (positive seqs) is collected iff it has a
    successor whose seq is `≤ hz` -/
theorem collect_exact (l : List Ver) (hz : Nat) (h : SortedSeq l) (hpos : ∀ v ∈ l, v.seq ≠ 0)
    (i : Nat) (hi : i < l.length) :
    i < (collect l hz).1.length ↔ ∃ h1 : i + 1 < l.length, l[i+1].seq ≤ hz := by
  fun_induction collect l hz generalizing i with
  | case1 a b rest hz hc r ih =>
    have hs' : SortedSeq (b :: rest) := List.Pairwise.of_cons h
    have hpos' : ∀ v ∈ b :: rest, v.seq ≠ 0 := fun v hv => hpos v (List.mem_cons_of_mem _ hv)
    cases i with
    | zero =>
      simp only [List.length_cons, Nat.zero_lt_succ, true_iff]
      refine ⟨by simp, ?_⟩
      show b.seq ≤ hz
      omega
    | succ j =>
      have hj : j < (b :: rest).length := by simpa using hi
      have := ih hs' hpos' j hj
      simp only [List.length_cons, Nat.add_lt_add_iff_right]
      rw [this]
      constructor
      · rintro ⟨h1, h2⟩; exact ⟨by simpa using h1, by simpa using h2⟩
      · rintro ⟨h1, h2⟩; exact ⟨by simpa using h1, by simpa using h2⟩
  | case2 a b rest hz hc =>
    simp only [List.length_nil, Nat.not_lt_zero, false_iff]
    rintro ⟨h1, h2⟩
    have hb0 : b.seq ≠ 0 := hpos b (by simp)
    have hbgt : b.seq > hz := by
      by_cases hg : b.seq > hz
      · exact hg
      · exact absurd ⟨hb0, hg⟩ hc
    -- l[i+1] ≥ b.seq > hz
    have hle : (a :: b :: rest)[1].seq ≤ (a :: b :: rest)[i+1].seq :=
      h.le_of_le (by simp) h1 (by omega)
    simp only [List.getElem_cons_succ, List.getElem_cons_zero] at hle
    simp only [List.getElem_cons_succ] at h2
    omega
  | case3 l hz hne =>
    simp only [List.length_nil, Nat.not_lt_zero, false_iff]
    rintro ⟨h1, _⟩
    match l, hne, h1 with
    | [], _, h1 => simp at h1
    | [_], _, h1 => simp at h1
    | a :: b :: rest, hne, _ => exact hne a b rest rfl

/-- lookups strictly after the horizon, and at the horizon when the horizon is not itself a
    version number, are unchanged by `collect` -/
theorem lastBeforeSpec_collect (l : List Ver) (hz s : Nat) (h : SortedSeq l)
    (hpos : ∀ v ∈ l, v.seq ≠ 0)
    (hs : hz < s ∨ (hz = s ∧ ∀ v ∈ l, v.seq ≠ hz)) :
    lastBeforeSpec (collect l hz).2 s = lastBeforeSpec l s := by
  fun_induction collect l hz with
  | case1 a b rest hz hc r ih =>
    have hs' : SortedSeq (b :: rest) := List.Pairwise.of_cons h
    have hpos' : ∀ v ∈ b :: rest, v.seq ≠ 0 := fun v hv => hpos v (List.mem_cons_of_mem _ hv)
    have hs2 : hz < s ∨ (hz = s ∧ ∀ v ∈ b :: rest, v.seq ≠ hz) := by
      rcases hs with h1 | ⟨h1, h2⟩
      · exact Or.inl h1
      · exact Or.inr ⟨h1, fun v hv => h2 v (List.mem_cons_of_mem _ hv)⟩
    simp only [r]
    rw [ih hs' hpos' hs2]
    -- b.seq < s, so b passes the filter and the last element of the filtered list is in (b :: rest)
    have hb : b.seq < s := by
      rcases hs with h1 | ⟨h1, h2⟩
      · omega
      · have := h2 b (by simp); omega
    unfold lastBeforeSpec
    simp only [List.filter_cons, hb, decide_true, ↓reduceIte]
    by_cases ha : a.seq < s
    · simp [ha, List.getLast?_cons_cons]
    · simp [ha]
  | case2 a b rest hz hc => rfl
  | case3 l hz hne => rfl

/-! ### well-formedness of `VFile` under its operations -/

theorem SortedSeq.append_one {l : List Ver} (h : SortedSeq l) {v : Ver}
    (hv : ∀ u ∈ l, u.seq < v.seq) : SortedSeq (l ++ [v]) := by
  unfold SortedSeq
  rw [List.pairwise_append]
  refine ⟨h, by simp, ?_⟩
  intro a ha b hb
  simp only [List.mem_singleton] at hb
  subst hb
  exact hv a ha

theorem VFile.WF.pushBack {f : VFile} (h : f.WF) {v : Ver} (hv : ∀ u ∈ f.l, u.seq < v.seq)
    (hpos : v.seq ≠ 0) : (f.pushBack v).WF := by
  refine ⟨h.sorted.append_one hv, ?_, ?_⟩
  · intro hws
    have hws' : f.ws = false := hws
    simp [VFile.pushBack, hws', h.mirror hws']
  · intro u hu
    simp only [VFile.pushBack, List.mem_append, List.mem_singleton] at hu
    rcases hu with hu | rfl
    · exact h.pos u hu
    · exact hpos

theorem VFile.WF.popBack {f : VFile} (h : f.WF) : (f.popBack).2.WF := by
  unfold VFile.popBack
  split
  · exact h
  · refine ⟨List.Pairwise.sublist (List.dropLast_sublist _) h.sorted, ?_, ?_⟩
    · intro hws
      have hws' : f.ws = false := hws
      simp [hws', h.mirror hws']
    · intro u hu
      exact h.pos u ((List.dropLast_sublist _).subset hu)

theorem VFile.WF.popFront {f : VFile} (h : f.WF) : (f.popFront).2.WF := by
  unfold VFile.popFront
  split
  · exact h
  · rename_i v t hl
    have hs := h.sorted
    rw [hl] at hs
    refine ⟨List.Pairwise.of_cons hs, ?_, ?_⟩
    · intro hws
      have hws' : f.ws = false := hws
      simp [hws', h.mirror hws', hl]
    · intro u hu
      exact h.pos u (by rw [hl]; exact List.mem_cons_of_mem _ hu)

theorem VFile.WF.collectOld {f : VFile} (h : f.WF) (hz : Nat) : (f.collectOld hz).2.WF := by
  have happ := collect_append f.l hz
  have hsub : List.Sublist (collect f.l hz).2 f.l := by
    conv => rhs; rw [← happ]
    exact List.sublist_append_right _ _
  refine ⟨List.Pairwise.sublist hsub h.sorted, ?_, ?_⟩
  · intro hws
    have hws' : f.ws = false := hws
    simp only [VFile.collectOld, hws', h.mirror hws']
    have : f.l.drop (collect f.l hz).1.length = (collect f.l hz).2 := by
      conv => lhs; arg 2; rw [← happ]
      simp
    simpa using this
  · intro u hu
    exact h.pos u (hsub.subset hu)

theorem VFile.lastBefore_eq {f : VFile} (h : f.WF) (hws : f.ws = false) (s : Nat) :
    f.lastBefore s = lastBeforeSpec f.l s := by
  unfold VFile.lastBefore
  rw [h.mirror hws]
  split
  · rename_i h0
    have : f.l = [] := List.eq_nil_of_length_eq_zero h0
    simp [this, lastBeforeSpec]
  · exact bsearch_eq_spec _ _ h.sorted

end FsDb

namespace FsDb

theorem collect_snd_sublist (l : List Ver) (hz : Nat) : List.Sublist (collect l hz).2 l := by
  have happ := collect_append l hz
  conv => rhs; rw [← happ]
  exact List.sublist_append_right _ _

theorem collect_fst_sublist (l : List Ver) (hz : Nat) : List.Sublist (collect l hz).1 l := by
  have happ := collect_append l hz
  conv => rhs; rw [← happ]
  exact List.sublist_append_left _ _

/-- if something was collected, the head of what remains is not newer than the horizon -/
theorem collect_head_le (l : List Ver) (hz : Nat) (h : (collect l hz).1 ≠ []) :
    ∃ hd, (collect l hz).2.head? = some hd ∧ hd.seq ≤ hz := by
  fun_induction collect l hz with
  | case1 a b rest hz hc r ih =>
    by_cases hr : r.1 = []
    · have happ := collect_append (b :: rest) hz
      have h2 : (collect (b :: rest) hz).2 = b :: rest := by
        have : (collect (b :: rest) hz).1 = [] := hr
        rw [this] at happ; simpa using happ
      refine ⟨b, ?_, by omega⟩
      show (collect (b :: rest) hz).2.head? = some b
      rw [h2]; rfl
    · exact ih hr
  | case2 a b rest hz hc => exact absurd rfl h
  | case3 l hz hne => exact absurd rfl h

end FsDb
