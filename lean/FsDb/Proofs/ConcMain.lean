import FsDb.Proofs.ConcStep
/-! The invariant is preserved by every step and every invocation: the main induction of the
    small-step concurrency proof. -/
namespace FsDb.Conc
open FsDb Sys Spec

theorem notUnlock_of {σ : St} {i : Nat} {pc : Pc} (hpc : (σ.thr i).pc = pc) (h : ∀ o, pc ≠ .beginUnlock o) :
    ∀ o, (σ.thr i).pc ≠ .beginUnlock o := by rw [hpc]; exact h

theorem notClosing_of {σ : St} {i : Nat} {pc : Pc} (hpc : (σ.thr i).pc = pc) (h : notClosingPc pc) :
    notClosingPc (σ.thr i).pc := by rw [hpc]; exact h

theorem hz_not_self {σ : St} {i : Nat} (h : CInv σ) {pc : Pc} (hpc : (σ.thr i).pc = pc)
    (hn : ∀ o, pc ≠ .beginUnlock o) : σ.hzLock ≠ some i := by
  intro e
  obtain ⟨o, ho⟩ := h.lock i e
  rw [hpc] at ho
  exact hn o ho

/-- lock bookkeeping for linearization points that leave the horizon mutex alone -/
theorem lin_lock {σ : St} {i : Nat} (h : CInv σ) {pc : Pc} (hpc : (σ.thr i).pc = pc) (hn : ∀ o, pc ≠ .beginUnlock o)
    (sys' : Sys) (op : Op) (w : Out) (pc' : Pc) (cl' : List Nat) :
    ∀ j, σ.hzLock = some j → ∃ o, (({ σ.linearize i sys' op w pc' with hzLock := σ.hzLock, closing := cl' } : St).thr j).pc = .beginUnlock o := by
  intro j hj
  obtain ⟨o, ho⟩ := h.lock j hj
  by_cases hij : j = i
  · subst hij; rw [hpc] at ho; exact absurd ho (hn o)
  · exact ⟨o, by simp [St.linearize, hij]; exact ho⟩

/-- a state-changing linearization point that leaves the horizon mutex and the closing set alone -/
theorem linearize_same {σ : St} {i : Nat} (h : CInv σ) {pc : Pc} (hpc : (σ.thr i).pc = pc)
    (hn : ∀ o, pc ≠ .beginUnlock o) (hnc : notClosingPc pc)
    (sys' : Sys) (op : Op) (w : Out) (pc' : Pc)
    (hop : (σ.thr i).op = some op) (hnr : notRead op = true) (hpl : plainOp op = true)
    (hR : Rx σ.closing (withB (σ.busy.map (·.2)) sys') (Spec.step (specOf σ) op).1)
    (hw : w = (Spec.step (specOf σ) op).2)
    (fr : ∃ t, allowed σ i t = true ∧ Frame σ.sys sys' t)
    (hp : PcInv (σ.linearize i sys' op w pc') i { σ.thr i with wit := some w } pc') :
    CInv (σ.linearize i sys' op w pc') := by
  have hcs := closing_same h sys' op w pc' σ.hzLock (notClosing_of hpc hnc)
  exact linearize_inv h sys' op w pc' σ.hzLock σ.closing hop hnr hpl hR hw fr (fun _ _ hj => hj)
    (lin_lock h hpc hn _ _ _ _ _) hcs.1 hcs.2 hp

theorem set_guard_fail {s : Sys} {t : Nat} {k : Key} {c : Nat} (h : (s.regGet t).isNone = true) :
    s.set t k c = (s, .err .txNotFound) := by simp [Sys.set, h]

theorem set_empty {s : Sys} {t : Nat} {c : Nat} (h : ¬ (s.regGet t).isNone = true) :
    s.set t "" c = (s, .err .emptyKey) := by simp [Sys.set, h]

theorem set_ok {s : Sys} {t : Nat} {k : Key} {c : Nat} (h : (s.regGet t).isSome = true) (hk : k ≠ "") :
    s.set t k c = (storeSet s t k c, .ok) := by
  have : ¬ (s.regGet t).isNone = true := by
    cases hr : s.regGet t <;> simp_all
  simp [Sys.set, this, hk, storeSet]

theorem del_guard_fail {s : Sys} {t : Nat} {k : Key} (h : (s.regGet t).isNone = true) :
    s.del t k = (s, .err .txNotFound) := by simp [Sys.del, h]

theorem del_ok {s : Sys} {t : Nat} {k : Key} (h : (s.regGet t).isSome = true) :
    s.del t k = (storeDel s t k, .ok) := by
  have : ¬ (s.regGet t).isNone = true := by
    cases hr : s.regGet t <;> simp_all
  simp [Sys.del, this, storeDel]

theorem isSome_of_not_isNone {α} {o : Option α} (h : ¬ o.isNone = true) : o.isSome = true := by
  cases o <;> simp_all


/-- one `deleteFile` of a job in execution -/
theorem delete_step {σ : St} {i : Nat} (h : CInv σ) {v : Ver} {todo : List Ver} (pc' : Pc)
    (hnot : ∀ o, (σ.thr i).pc ≠ .beginUnlock o) (hnc : notClosingPc (σ.thr i).pc) (hjob : Job σ i (v :: todo))
    (hp : Job { σ.goto i pc' with sys := delOne σ.sys v } i todo →
          PcInv { σ.goto i pc' with sys := delOne σ.sys v } i (σ.thr i) pc') :
    CInv { σ.goto i pc' with sys := delOne σ.sys v } := by
  obtain ⟨job, hmem, hsub⟩ := hjob
  have hthr : ∀ j, j ≠ i → ({ σ.goto i pc' with sys := delOne σ.sys v } : St).thr j = σ.thr j :=
    fun j hij => setThr_other σ i _ hij
  have g : Guar σ { σ.goto i pc' with sys := delOne σ.sys v } i :=
    ⟨⟨mainTx, allowed_main σ i, frame_delOne σ.sys v mainTx⟩, fun _ _ h => h, ⟨[], by simp [St.goto, St.setThr], by simp⟩,
      fun _ _ _ h => h, fun _ _ h => h, fun _ h => Or.inl h⟩
  have hjp : job ∈ (withBusy σ).pending := by
    show job ∈ σ.busy.map (·.2) ++ σ.sys.pending
    exact List.mem_append_left _ (List.mem_map.mpr ⟨(i, job), hmem, rfl⟩)
  have hd : ∀ u ∈ [v], ∀ k, ∀ w ∈ (withBusy σ).all k, w.cid ≠ u.cid := by
    intro u hu
    simp only [List.mem_singleton] at hu; subst hu
    exact h.rel.inv.pendDead job hjp u (hsub u (by simp))
  have hR : Rx σ.closing (withBusy { σ.goto i pc' with sys := delOne σ.sys v }) (specOf σ) := by
    show Rx σ.closing (withB (σ.busy.map (·.2)) (delOne σ.sys v)) (specOf σ)
    rw [← withB_delOne]
    exact deleteFiles_R h.rel [v] hd
  refine h.of_step g hthr hR h.outs ?_ (lock_keep h hthr rfl hnot)
    (closing_keep h hthr rfl (fun _ _ h => h) hnc) h.ownerMain
  have ht := h.thr i
  show TInv _ i (({ σ.goto i pc' with sys := delOne σ.sys v } : St).thr i)
  rw [show ({ σ.goto i pc' with sys := delOne σ.sys v } : St).thr i = { σ.thr i with pc := pc' } from setThr_self σ i _]
  exact ⟨ht.invLe, ht.wit, hp ⟨job, hmem, fun u hu => hsub u (List.mem_cons_of_mem _ hu)⟩⟩

/-- a job in execution is finished: it leaves the ghost list -/
theorem finish_step {σ : St} {i : Nat} (h : CInv σ) (pc' : Pc)
    (hnot : ∀ o, (σ.thr i).pc ≠ .beginUnlock o) (hnc : notClosingPc (σ.thr i).pc)
    (hp : PcInv { σ.goto i pc' with busy := σ.busy.filter (·.1 ≠ i) } i (σ.thr i) pc') :
    CInv { σ.goto i pc' with busy := σ.busy.filter (·.1 ≠ i) } := by
  have hthr : ∀ j, j ≠ i → ({ σ.goto i pc' with busy := σ.busy.filter (·.1 ≠ i) } : St).thr j = σ.thr j :=
    fun j hij => setThr_other σ i _ hij
  have g : Guar σ { σ.goto i pc' with busy := σ.busy.filter (·.1 ≠ i) } i :=
    ⟨⟨mainTx, allowed_main σ i, Frame.rfl' _ _⟩, fun _ _ h => h, ⟨[], by simp [St.goto, St.setThr], by simp⟩,
      fun j job hij hm => List.mem_filter.mpr ⟨hm, by simpa using hij⟩, fun _ _ h => h, fun _ h => Or.inl h⟩
  have hR : Rx σ.closing (withBusy { σ.goto i pc' with busy := σ.busy.filter (·.1 ≠ i) }) (specOf σ) := by
    show Rx σ.closing { withBusy σ with pending := (σ.busy.filter (·.1 ≠ i)).map (·.2) ++ σ.sys.pending } (specOf σ)
    apply h.rel.pendingSub
    intro job hj
    show job ∈ σ.busy.map (·.2) ++ σ.sys.pending
    rcases List.mem_append.mp hj with hj | hj
    · obtain ⟨p, hp1, hp2⟩ := List.mem_map.mp hj
      exact List.mem_append_left _ (List.mem_map.mpr ⟨p, mem_of_filter hp1, hp2⟩)
    · exact List.mem_append_right _ hj
  refine h.of_step g hthr hR h.outs ?_ (lock_keep h hthr rfl hnot)
    (closing_keep h hthr rfl (fun _ _ h => h) hnc) h.ownerMain
  have ht := h.thr i
  show TInv _ i (({ σ.goto i pc' with busy := σ.busy.filter (·.1 ≠ i) } : St).thr i)
  rw [show ({ σ.goto i pc' with busy := σ.busy.filter (·.1 ≠ i) } : St).thr i = { σ.thr i with pc := pc' } from setThr_self σ i _]
  exact ⟨ht.invLe, ht.wit, hp⟩

/-- `txRepo.Delete` found the transaction: it is inside Commit / Rollback from now on -/
theorem dereg_step {σ : St} {i : Nat} (h : CInv σ) {pc : Pc} (hpc : (σ.thr i).pc = pc)
    (hn : ∀ o, pc ≠ .beginUnlock o) (hc1 : ∀ t, pc ≠ .commitRun t) (hc2 : ∀ t, pc ≠ .rollbackRun t)
    {t : Nat} (htm : t ≠ mainTx) (hal : allowed σ i t = true) (pc' : Pc)
    (hpc' : pc' = .commitRun t ∨ pc' = .rollbackRun t)
    (hp : PcInv σ i (σ.thr i) pc') :
    CInv { σ.goto i pc' with closing := t :: σ.closing } := by
  have hthr : ∀ j, j ≠ i → ({ σ.goto i pc' with closing := t :: σ.closing } : St).thr j = σ.thr j :=
    fun j hij => setThr_other σ i _ hij
  have g : Guar σ { σ.goto i pc' with closing := t :: σ.closing } i :=
    ⟨⟨mainTx, allowed_main σ i, Frame.rfl' _ _⟩, fun _ _ h => h, ⟨[], by simp [St.goto, St.setThr], by simp⟩, fun _ _ _ h => h,
      fun _ _ h => h, fun t' ht' => Or.inl (List.mem_cons_of_mem _ ht')⟩
  have hself : ({ σ.goto i pc' with closing := t :: σ.closing } : St).thr i = { σ.thr i with pc := pc' } := setThr_self σ i _
  refine h.of_step g hthr (h.rel.closing_add t) h.outs ?_ (lock_keep h hthr rfl (notUnlock_of hpc hn)) ?_ h.ownerMain
  · have ht := h.thr i
    show TInv _ i (({ σ.goto i pc' with closing := t :: σ.closing } : St).thr i)
    rw [hself]
    refine ⟨ht.invLe, ht.wit, ?_⟩
    rcases hpc' with e | e <;> subst e <;> exact hp
  · intro t' ht'
    rcases List.mem_cons.mp ht' with e | hin
    · subst e
      have ho : σ.owner t' = some i := by
        simp only [allowed, Bool.or_eq_true, decide_eq_true_eq] at hal
        rcases hal with hal | hal
        · exact absurd hal htm
        · exact hal
      refine ⟨i, ho, ?_⟩
      rw [hself]
      rcases hpc' with e | e <;> subst e
      · exact Or.inl rfl
      · exact Or.inr rfl
    · obtain ⟨j, hj, hpj⟩ := h.closing t' hin
      have hij : j ≠ i := by
        intro e; subst e; rw [hpc] at hpj
        rcases hpj with e | e
        · exact hc1 t' e
        · exact hc2 t' e
      exact ⟨j, hj, by rw [hthr j hij]; exact hpj⟩

/-- the second step of Commit / Rollback: the operation takes effect, the transaction leaves `closing` -/
theorem close_step {σ : St} {i : Nat} (h : CInv σ) {pc : Pc} (hpc : (σ.thr i).pc = pc)
    (hn : ∀ o, pc ≠ .beginUnlock o) {t : Nat}
    (hc1 : ∀ t', pc = .commitRun t' → t' = t) (hc2 : ∀ t', pc = .rollbackRun t' → t' = t)
    (sys' : Sys) (op : Op) (w : Out)
    (hop : (σ.thr i).op = some op) (hnr : notRead op = true) (hpl : plainOp op = true)
    (hR : Rx σ.closing (withB (σ.busy.map (·.2)) sys') (Spec.step (specOf σ) op).1)
    (hw : w = (Spec.step (specOf σ) op).2)
    (hal : allowed σ i t = true) (fr : Frame σ.sys sys' t)
    (hne : ∀ r ∈ sys'.reg, r.id ≠ t) :
    CInv { σ.linearize i sys' op w (.ret w) with closing := σ.closing.filter (· ≠ t) } := by
  refine linearize_inv h sys' op w (.ret w) σ.hzLock (σ.closing.filter (· ≠ t)) hop hnr hpl (hR.closing_erase t hne) hw
    ⟨t, hal, fr⟩ (fun _ _ hj => hj) (lin_lock h hpc hn _ _ _ _ _) ?_ ?_ (ret_of_wit rfl)
  · intro t' ht'
    by_cases e : t' = t
    · subst e; exact Or.inr hne
    · exact Or.inl (List.mem_filter.mpr ⟨ht', by simpa using e⟩)
  · intro t' ht'
    obtain ⟨hin, hne'⟩ := List.mem_filter.mp ht'
    have hne' : t' ≠ t := by simpa using hne'
    obtain ⟨j, hj, hpj⟩ := h.closing t' hin
    have hij : j ≠ i := by
      intro e; subst e; rw [hpc] at hpj
      rcases hpj with e | e
      · exact hne' (hc1 t' e)
      · exact hne' (hc2 t' e)
    refine ⟨j, hj, ?_⟩
    have : ({ σ.linearize i sys' op w (.ret w) with hzLock := σ.hzLock, closing := σ.closing.filter (· ≠ t) } : St).thr j = σ.thr j := by
      simp [St.linearize, hij]
    rw [this]; exact hpj

/-- the horizon step of the collector -/
theorem horizon_step {σ : St} {i : Nat} (h : CInv σ) (hpc : (σ.thr i).pc = .gcHorizon)
    (hop : (σ.thr i).op = some .gc) :
    CInv { σ.linearize i (gcDrawX σ.sys σ.closing) .gc .ok (.gcCollect (gcHzX σ.sys σ.closing)) with
      lin := (σ.linearize i (gcDrawX σ.sys σ.closing) .gc .ok (.gcCollect (gcHzX σ.sys σ.closing))).lin
        ++ [(i, .tick (gcDrawX σ.sys σ.closing).counter, .ok)] } := by
  have isys := inv_sys h
  have ht := h.thr i
  have hthr : ∀ j, j ≠ i → ({ σ.linearize i (gcDrawX σ.sys σ.closing) .gc .ok (.gcCollect (gcHzX σ.sys σ.closing)) with
      lin := (σ.linearize i (gcDrawX σ.sys σ.closing) .gc .ok (.gcCollect (gcHzX σ.sys σ.closing))).lin
        ++ [(i, .tick (gcDrawX σ.sys σ.closing).counter, .ok)] } : St).thr j = σ.thr j := by
    intro j hij; simp [St.linearize, hij]
  have hlin : ({ σ.linearize i (gcDrawX σ.sys σ.closing) .gc .ok (.gcCollect (gcHzX σ.sys σ.closing)) with
      lin := (σ.linearize i (gcDrawX σ.sys σ.closing) .gc .ok (.gcCollect (gcHzX σ.sys σ.closing))).lin
        ++ [(i, .tick (gcDrawX σ.sys σ.closing).counter, .ok)] } : St).lin
      = σ.lin ++ [(i, .op .gc, .ok), (i, .tick (gcDrawX σ.sys σ.closing).counter, .ok)] := by
    simp [St.linearize]
  have g : Guar σ { σ.linearize i (gcDrawX σ.sys σ.closing) .gc .ok (.gcCollect (gcHzX σ.sys σ.closing)) with
      lin := (σ.linearize i (gcDrawX σ.sys σ.closing) .gc .ok (.gcCollect (gcHzX σ.sys σ.closing))).lin
        ++ [(i, .tick (gcDrawX σ.sys σ.closing).counter, .ok)] } i :=
    ⟨⟨mainTx, allowed_main σ i, frame_gcDrawX σ.sys σ.closing mainTx⟩, fun _ _ h => h, ⟨_, hlin, by simp [EOp.plain, plainOp]⟩, fun _ _ _ h => h,
      fun _ _ h => h, fun _ h => Or.inl h⟩
  have e : linOps (σ.lin ++ [(i, EOp.op .gc, Out.ok), (i, .tick (gcDrawX σ.sys σ.closing).counter, .ok)])
      = (linOps σ.lin ++ [.op .gc]) ++ [.tick (gcDrawX σ.sys σ.closing).counter] := by simp [linOps]
  have a1 := spec_erun_append {} (linOps σ.lin) .gc
  have a2 := spec_erun_append_tick {} (linOps σ.lin ++ [.op .gc]) (gcDrawX σ.sys σ.closing).counter
  refine h.of_step g hthr ?_ ?_ ?_ (lock_keep h hthr rfl (notUnlock_of hpc (by intro o; simp)))
    (closing_keep h hthr rfl (fun _ _ h => h) (notClosing_of hpc (by intro t; simp))) h.ownerMain
  · show Rx σ.closing (withB (σ.busy.map (·.2)) (gcDrawX σ.sys σ.closing)) (Spec.erun {} (linOps _)).1
    rw [hlin, e, a2.1, a1.1]
    have := gcDrawX_R h.rel
    unfold withBusy at this
    rw [withB_gcDrawX] at this
    exact this
  · show (Spec.erun {} (linOps _)).2 = linOuts _
    rw [hlin, e, a2.2, a1.2, h.outs]
    simp [linOuts, List.filterMap_append]
    rfl
  · rw [show ({ σ.linearize i (gcDrawX σ.sys σ.closing) .gc .ok (.gcCollect (gcHzX σ.sys σ.closing)) with
      lin := (σ.linearize i (gcDrawX σ.sys σ.closing) .gc .ok (.gcCollect (gcHzX σ.sys σ.closing))).lin
        ++ [(i, .tick (gcDrawX σ.sys σ.closing).counter, .ok)] } : St).thr i
        = { σ.thr i with pc := .gcCollect (gcHzX σ.sys σ.closing), wit := some .ok, witAt := σ.lin.length + 1 } by
      simp [St.linearize]]
    have hsafe := gcHzX_safe isys σ.closing
    refine ⟨?_, ?_, ⟨hsafe.1, hsafe.2, rfl⟩⟩
    · show (σ.thr i).invAt ≤ _
      rw [hlin]; simp; have := ht.invLe; omega
    · intro w' hw'
      have : w' = .ok := by simpa using hw'.symm
      subst this
      refine ⟨Nat.le_succ_of_le ht.invLe, by rw [hlin]; simp, ?_⟩
      simp only [WitSem, hop]
      refine ⟨Nat.lt_succ_of_le ht.invLe, ?_⟩
      simp [St.linearize]

/-- every enabled step of every thread preserves the invariant -/
theorem step_inv {σ σ' : St} {i : Nat} (h : CInv σ) (hs : step σ i = some σ') : CInv σ' := by
  have ht := h.thr i
  have hp := ht.pc
  have isys := inv_sys h
  cases hpc : (σ.thr i).pc with
  | idle => simp [step, hpc] at hs
  | ret o =>
    simp only [step, hpc, Option.some.injEq] at hs; subst hs
    exact goto_inv h .idle (notUnlock_of hpc (by intro o; simp)) (notClosing_of hpc (by intro t; simp)) trivial
  | setGuard t k c =>
    rw [hpc] at hp
    simp only [step, hpc] at hs
    have hnr : notRead (.set t k c) = true := rfl
    have hm : isMut (.set t k c) = true := rfl
    obtain ⟨hR, hw⟩ := op_R h (.set t k c) hm
    split at hs
    · rename_i hg
      simp only [Option.some.injEq] at hs; subst hs
      have e := set_guard_fail (k := k) (c := c) hg
      have e1 : (σ.sys.step (.set t k c)).1 = σ.sys := by show (σ.sys.set t k c).1 = _; rw [e]
      rw [e1] at hR
      refine linearize_same h hpc (by intro o; simp) (by intro t; simp) σ.sys (.set t k c) _ _ hp.2 hnr rfl hR hw ⟨t, hp.1, Frame.rfl' _ _⟩ ?_
      refine ret_of_wit ?_; show some (σ.sys.set t k c).2 = _; rw [e]
    · rename_i hg
      split at hs
      · rename_i hk
        simp only [Option.some.injEq] at hs; subst hs; subst hk
        have e := set_empty (c := c) hg
        have e1 : (σ.sys.step (.set t "" c)).1 = σ.sys := by show (σ.sys.set t "" c).1 = _; rw [e]
        rw [e1] at hR
        refine linearize_same h hpc (by intro o; simp) (by intro t; simp) σ.sys (.set t "" c) _ _ hp.2 hnr rfl hR hw ⟨t, hp.1, Frame.rfl' _ _⟩ ?_
        refine ret_of_wit ?_; show some (σ.sys.set t "" c).2 = _; rw [e]
      · rename_i hk
        simp only [Option.some.injEq] at hs; subst hs
        exact goto_inv h _ (notUnlock_of hpc (by intro o; simp)) (notClosing_of hpc (by intro t; simp)) ⟨hp.1, hp.2, isSome_of_not_isNone hg, hk⟩
  | setContent t k c =>
    rw [hpc] at hp
    simp only [step, hpc, Option.some.injEq] at hs; subst hs
    exact goto_inv h _ (notUnlock_of hpc (by intro o; simp)) (notClosing_of hpc (by intro t; simp)) hp
  | setStore t k c =>
    rw [hpc] at hp
    simp only [step, hpc, Option.some.injEq] at hs; subst hs
    have hm : isMut (.set t k c) = true := rfl
    obtain ⟨hR, hw⟩ := op_R h (.set t k c) hm
    have e := set_ok (c := c) hp.2.2.1 hp.2.2.2
    have e1 : (σ.sys.step (.set t k c)).1 = storeSet σ.sys t k c := by show (σ.sys.set t k c).1 = _; rw [e]
    rw [e1] at hR
    refine linearize_same h hpc (by intro o; simp) (by intro t; simp) _ (.set t k c) _ _ hp.2.1 rfl rfl hR hw ⟨t, hp.1, frame_storeSet isys t k c⟩ ?_
    refine ret_of_wit ?_; show some (σ.sys.set t k c).2 = _; rw [e]
  | delGuard t k =>
    rw [hpc] at hp
    simp only [step, hpc] at hs
    have hm : isMut (.del t k) = true := rfl
    obtain ⟨hR, hw⟩ := op_R h (.del t k) hm
    split at hs
    · rename_i hg
      simp only [Option.some.injEq] at hs; subst hs
      have e := del_guard_fail (k := k) hg
      have e1 : (σ.sys.step (.del t k)).1 = σ.sys := by show (σ.sys.del t k).1 = _; rw [e]
      rw [e1] at hR
      refine linearize_same h hpc (by intro o; simp) (by intro t; simp) σ.sys (.del t k) _ _ hp.2 rfl rfl hR hw ⟨t, hp.1, Frame.rfl' _ _⟩ ?_
      refine ret_of_wit ?_; show some (σ.sys.del t k).2 = _; rw [e]
    · rename_i hg
      simp only [Option.some.injEq] at hs; subst hs
      exact goto_inv h _ (notUnlock_of hpc (by intro o; simp)) (notClosing_of hpc (by intro t; simp)) ⟨hp.1, hp.2, isSome_of_not_isNone hg⟩
  | delStore t k =>
    rw [hpc] at hp
    simp only [step, hpc, Option.some.injEq] at hs; subst hs
    have hm : isMut (.del t k) = true := rfl
    obtain ⟨hR, hw⟩ := op_R h (.del t k) hm
    have e := del_ok (k := k) hp.2.2
    have e1 : (σ.sys.step (.del t k)).1 = storeDel σ.sys t k := by show (σ.sys.del t k).1 = _; rw [e]
    rw [e1] at hR
    refine linearize_same h hpc (by intro o; simp) (by intro t; simp) _ (.del t k) _ _ hp.2.1 rfl rfl hR hw ⟨t, hp.1, frame_storeDel isys t k⟩ ?_
    refine ret_of_wit ?_; show some (σ.sys.del t k).2 = _; rw [e]
  | getReg t k =>
    rw [hpc] at hp
    simp only [step, hpc] at hs
    split at hs
    · rename_i hg
      simp only [Option.some.injEq] at hs; subst hs
      refine witness_inv h _ _ (notUnlock_of hpc (by intro o; simp)) (notClosing_of hpc (by intro t; simp)) (get_witness h hp.2 (not_closing h hp.1 (notClosing_of hpc (by intro t; simp)))) ?_
      refine ret_of_wit ?_; show some (σ.sys.get t k) = _
      simp [Sys.get, hg]
    · rename_i tx hg
      simp only [Option.some.injEq] at hs; subst hs
      have hid : tx.id = t := by
        by_cases htm : t = mainTx
        · subst htm; rw [regGet_main] at hg; rw [← Option.some.inj hg]
        · simp only [Sys.regGet, htm, if_false] at hg
          simpa using List.find?_some hg
      refine goto_inv h _ (notUnlock_of hpc (by intro o; simp)) (notClosing_of hpc (by intro t; simp)) ⟨⟨by rw [hid]; exact hp.1, by rw [hid]; exact hg⟩, by rw [hid]; exact hp.2, trivial⟩
  | getOwn tx k prev =>
    rw [hpc] at hp
    simp only [step, hpc, Option.some.injEq] at hs; subst hs
    exact goto_inv h _ (notUnlock_of hpc (by intro o; simp)) (notClosing_of hpc (by intro t; simp)) ⟨hp.1, hp.2.1, hp.2.2, ownOk_now isys tx k⟩
  | getBase tx k own prev =>
    rw [hpc] at hp
    obtain ⟨hreg, hop, hprev, hown⟩ := hp
    simp only [step, hpc] at hs
    have hcg := coreGet_of_own hreg.2 hown
    have hget := get_unfold (k := k) hreg.2
    rw [hcg] at hs
    cases hv : σ.sys.coreGet tx k with
    | none =>
      rw [hv] at hs hget
      simp only [Option.some.injEq] at hs; subst hs
      refine witness_inv h _ _ (notUnlock_of hpc (by intro o; simp)) (notClosing_of hpc (by intro t; simp)) (get_witness h hop (not_closing h hreg.1 (notClosing_of hpc (by intro t; simp)))) ?_
      refine ret_of_wit ?_; show some (σ.sys.get tx.id k) = _; rw [hget]
    | some v =>
      rw [hv] at hs hget
      simp only [] at hs hget
      have hvall : v ∈ σ.sys.all k := coreGet_mem isys tx k hv
      have hstor := isys.stor k v hvall
      have hb := isys.bounds k v hvall
      split at hs
      · rename_i hpv
        simp only [Option.some.injEq] at hs; subst hs
        refine witness_inv h _ _ (notUnlock_of hpc (by intro o; simp)) (notClosing_of hpc (by intro t; simp)) (get_witness h hop (not_closing h hreg.1 (notClosing_of hpc (by intro t; simp)))) ?_
        refine ret_of_wit ?_; show some (σ.sys.get tx.id k) = _
        rw [hget]
        subst hpv
        have := hprev.2
        rw [this]
      · simp only [Option.some.injEq] at hs; subst hs
        refine witness_inv h _ _ (notUnlock_of hpc (by intro o; simp)) (notClosing_of hpc (by intro t; simp)) (get_witness h hop (not_closing h hreg.1 (notClosing_of hpc (by intro t; simp)))) ?_
        refine ⟨hreg, hop, ?_, hb.2.2.1, Or.inr hstor⟩
        show some (σ.sys.get tx.id k) = _
        rw [hget, hstor]
        cases v.val <;> rfl
  | getContent tx k v =>
    rw [hpc] at hp
    obtain ⟨hreg, hop, hwit, hcid, hcont⟩ := hp
    simp only [step, hpc] at hs
    split at hs
    · rename_i c hc
      simp only [Option.some.injEq] at hs; subst hs
      refine goto_inv h _ (notUnlock_of hpc (by intro o; simp)) (notClosing_of hpc (by intro t; simp)) (ret_of_wit ?_)
      rw [hwit]
      rcases hcont with e | e
      · rw [e] at hc; cases hc
      · rw [e] at hc; rw [hc]; rfl
    · rename_i hc
      simp only [Option.some.injEq] at hs; subst hs
      exact goto_inv h _ (notUnlock_of hpc (by intro o; simp)) (notClosing_of hpc (by intro t; simp)) ⟨hreg, hop, hcid, hc⟩
  | keysReg t =>
    rw [hpc] at hp
    simp only [step, hpc] at hs
    split at hs
    · rename_i hg
      simp only [Option.some.injEq] at hs; subst hs
      refine witness_inv h _ _ (notUnlock_of hpc (by intro o; simp)) (notClosing_of hpc (by intro t; simp)) (keys_witness h hp.2 (not_closing h hp.1 (notClosing_of hpc (by intro t; simp)))) ⟨?_, ?_⟩
      · intro hk; simp [isKeys, hp.2] at hk
      · intro ks e; cases e
    · rename_i tx hg
      simp only [Option.some.injEq] at hs; subst hs
      have hid : tx.id = t := by
        by_cases htm : t = mainTx
        · subst htm; rw [regGet_main] at hg; rw [← Option.some.inj hg]
        · simp only [Sys.regGet, htm, if_false] at hg
          simpa using List.find?_some hg
      refine goto_inv h _ (notUnlock_of hpc (by intro o; simp)) (notClosing_of hpc (by intro t; simp)) ⟨⟨by rw [hid]; exact hp.1, by rw [hid]; exact hg⟩, by rw [hid]; exact hp.2⟩
  | keysOwn tx =>
    rw [hpc] at hp
    simp only [step, hpc, Option.some.injEq] at hs; subst hs
    exact goto_inv h _ (notUnlock_of hpc (by intro o; simp)) (notClosing_of hpc (by intro t; simp)) ⟨hp.1, hp.2, kOwnOk_now isys tx⟩
  | keysBase tx own =>
    rw [hpc] at hp
    simp only [step, hpc, Option.some.injEq] at hs; subst hs
    refine witness_inv h _ _ (notUnlock_of hpc (by intro o; simp)) (notClosing_of hpc (by intro t; simp)) (keys_witness h hp.2.1 (not_closing h hp.1.1 (notClosing_of hpc (by intro t; simp)))) ⟨?_, ?_⟩
    · show isKeys (σ.thr i).op = true
      simp [isKeys, hp.2.1]
    · exact keysOk_now isys hp.1.2 hp.2.2
  | keysContent todo acc =>
    rw [hpc] at hp
    cases todo with
    | nil =>
      simp only [step, hpc, Option.some.injEq] at hs; subst hs
      obtain ⟨hk1, W, hw, hacc, _⟩ := hp
      refine goto_inv h _ (notUnlock_of hpc (by intro o; simp)) (notClosing_of hpc (by intro t; simp)) ⟨?_, ?_⟩
      · intro hk; rw [hk1] at hk; cases hk
      · intro ks e
        have e' : ks = sortKeys acc := by cases e; rfl
        subst e'
        exact ⟨W, hw, fun k hk => hacc k ((mem_sortKeys k acc).mp hk)⟩
    | cons v todo =>
      simp only [step, hpc, Option.some.injEq] at hs; subst hs
      obtain ⟨hk1, W, hw, hacc, htodo⟩ := hp
      refine goto_inv h _ (notUnlock_of hpc (by intro o; simp)) (notClosing_of hpc (by intro t; simp)) ⟨hk1, W, hw, ?_, ?_⟩
      · intro k hk
        by_cases hs : (σ.sys.hasContent v.cid).isSome = true
        · simp only [hs, if_true, List.mem_append, List.mem_singleton] at hk
          rcases hk with hk | hk
          · exact hacc k hk
          · subst hk; exact (htodo v (by simp)).2 hs
        · simp only [hs, if_false] at hk; exact hacc k hk
      · intro u hu; exact htodo u (List.mem_cons_of_mem _ hu)
  | beginLock t lvl =>
    rw [hpc] at hp
    simp only [step, hpc] at hs
    split at hs
    · cases hs
    · rename_i hfree
      simp only [Option.some.injEq] at hs; subst hs
      have hm : isMut (.begin t lvl) = true := rfl
      obtain ⟨hR, hw⟩ := op_R h (.begin t lvl) hm
      have hnone : σ.hzLock = none := by cases hz : σ.hzLock <;> simp_all
      have hal : allowed σ i t = true := by simp [allowed, hp.1]
      have hcs := closing_same h (σ.sys.begin t lvl).1 (.begin t lvl) (σ.sys.begin t lvl).2
        (.beginUnlock (σ.sys.begin t lvl).2) (some i) (notClosing_of hpc (by intro t; simp))
      refine linearize_inv h (σ.sys.begin t lvl).1 (.begin t lvl) (σ.sys.begin t lvl).2 _ (some i) σ.closing hp.2.2 rfl rfl hR hw
        ⟨t, hal, frame_begin σ.sys t lvl⟩ ?_ ?_ hcs.1 hcs.2 ⟨rfl, rfl⟩
      · intro j _ hj; rw [hnone] at hj; cases hj
      · intro j hj
        have : j = i := (Option.some.inj hj).symm
        subst this
        exact ⟨(σ.sys.begin t lvl).2, by simp [St.linearize]⟩
  | beginUnlock o =>
    rw [hpc] at hp
    simp only [step, hpc, Option.some.injEq] at hs; subst hs
    have hthr : ∀ j, j ≠ i → ({ σ.goto i (.ret o) with hzLock := none } : St).thr j = σ.thr j :=
      fun j hij => setThr_other σ i _ hij
    have g : Guar σ { σ.goto i (.ret o) with hzLock := none } i :=
      ⟨⟨mainTx, allowed_main σ i, Frame.rfl' _ _⟩, fun _ _ h => h, ⟨[], by simp [St.goto, St.setThr], by simp⟩, fun _ _ _ h => h,
        fun j hij hj => by rw [hp.1] at hj; exact absurd (Option.some.inj hj).symm hij, fun _ h => Or.inl h⟩
    refine h.of_step g hthr h.rel h.outs ?_ (by intro j hj; cases hj)
      (closing_keep h hthr rfl (fun _ _ h => h) (notClosing_of hpc (by intro t; simp))) h.ownerMain
    show TInv _ i (({ σ.goto i (.ret o) with hzLock := none } : St).thr i)
    rw [show ({ σ.goto i (.ret o) with hzLock := none } : St).thr i = { σ.thr i with pc := .ret o } from setThr_self σ i _]
    exact ⟨ht.invLe, ht.wit, ret_of_wit hp.2⟩
  | commitDereg t =>
    rw [hpc] at hp
    simp only [step, hpc] at hs
    split at hs
    · rename_i hf
      simp only [Option.some.injEq] at hs; subst hs
      exact dereg_step h hpc (by intro o; simp) (by intro t; simp) (by intro t; simp) hf.1 hp.1 (.commitRun t) (Or.inl rfl) hp
    · simp only [Option.some.injEq] at hs; subst hs
      have hm : isMut (.commit t) = true := rfl
      obtain ⟨hR, hw⟩ := op_R h (.commit t) hm
      exact linearize_same h hpc (by intro o; simp) (by intro t; simp) (σ.sys.commit t).1 (.commit t) (σ.sys.commit t).2 _
        hp.2 rfl rfl hR hw ⟨t, hp.1, frame_commit isys t⟩ (ret_of_wit rfl)
  | commitRun t =>
    rw [hpc] at hp
    simp only [step, hpc, Option.some.injEq] at hs; subst hs
    have hm : isMut (.commit t) = true := rfl
    obtain ⟨hR, hw⟩ := op_R h (.commit t) hm
    exact close_step h hpc (by intro o; simp) (fun t' e => by cases e; rfl) (fun t' e => by cases e)
      (σ.sys.commit t).1 (.commit t) (σ.sys.commit t).2 hp.2 rfl rfl hR hw hp.1 (frame_commit isys t)
      (shape_reg_ne isys (commit_shape σ.sys t))
  | rollbackDereg t =>
    rw [hpc] at hp
    simp only [step, hpc] at hs
    split at hs
    · rename_i hf
      simp only [Option.some.injEq] at hs; subst hs
      exact dereg_step h hpc (by intro o; simp) (by intro t; simp) (by intro t; simp) hf.1 hp.1 (.rollbackRun t) (Or.inr rfl) hp
    · simp only [Option.some.injEq] at hs; subst hs
      have hm : isMut (.rollback t) = true := rfl
      obtain ⟨hR, hw⟩ := op_R h (.rollback t) hm
      exact linearize_same h hpc (by intro o; simp) (by intro t; simp) (σ.sys.rollback t).1 (.rollback t) (σ.sys.rollback t).2 _
        hp.2 rfl rfl hR hw ⟨t, hp.1, frame_rollback isys t⟩ (ret_of_wit rfl)
  | rollbackRun t =>
    rw [hpc] at hp
    simp only [step, hpc, Option.some.injEq] at hs; subst hs
    have hm : isMut (.rollback t) = true := rfl
    obtain ⟨hR, hw⟩ := op_R h (.rollback t) hm
    exact close_step h hpc (by intro o; simp) (fun t' e => by cases e) (fun t' e => by cases e; rfl)
      (σ.sys.rollback t).1 (.rollback t) (σ.sys.rollback t).2 hp.2 rfl rfl hR hw hp.1 (frame_rollback isys t)
      (shape_reg_ne isys (rollback_shape σ.sys t))
  | gcHorizon =>
    rw [hpc] at hp
    simp only [step, hpc] at hs
    split at hs
    · cases hs
    · simp only [Option.some.injEq] at hs; subst hs
      exact horizon_step h hpc hp
  | gcCollect hz =>
    rw [hpc] at hp
    obtain ⟨hsafe, hcnt, hwit⟩ := hp
    simp only [step, hpc, Option.some.injEq] at hs; subst hs
    have hthr : ∀ j, j ≠ i → ({ σ.goto i (.gcDelete (delsAt σ.sys hz)) with sys := collectAt σ.sys hz, busy := σ.busy ++ [(i, delsAt σ.sys hz)] } : St).thr j = σ.thr j := fun j hij => setThr_other σ i _ hij
    have g : Guar σ { σ.goto i (.gcDelete (delsAt σ.sys hz)) with sys := collectAt σ.sys hz, busy := σ.busy ++ [(i, delsAt σ.sys hz)] } i :=
      ⟨⟨mainTx, allowed_main σ i, frame_collectAt σ.sys hz mainTx⟩, fun _ _ h => h, ⟨[], by simp [St.goto, St.setThr], by simp⟩,
        fun _ _ _ hm => List.mem_append_left _ hm, fun _ _ h => h, fun _ h => Or.inl h⟩
    have hR0 : Rx σ.closing (collectAt (withBusy σ) hz) (specOf σ) := collectAt_R h.rel hsafe
    have hdead := delsAt_dead h.rel.inv hz
    have hR : Rx σ.closing (withBusy { σ.goto i (.gcDelete (delsAt σ.sys hz)) with sys := collectAt σ.sys hz, busy := σ.busy ++ [(i, delsAt σ.sys hz)] }) (specOf σ) := by
      show Rx σ.closing { collectAt (withBusy σ) hz with pending := (σ.busy ++ [(i, delsAt σ.sys hz)]).map (·.2) ++ σ.sys.pending } (specOf σ)
      apply hR0.pendingChange
      intro job hj v hv
      rw [List.map_append] at hj
      simp only [List.map_cons, List.map_nil, List.mem_append, List.mem_singleton] at hj
      have hold : job ∈ (collectAt (withBusy σ) hz).pending → _ := fun hm =>
        And.intro (hR0.inv.pendDead job hm v hv) (hR0.inv.pendBound job hm v hv)
      rcases hj with (hj | hj) | hj
      · exact hold (List.mem_append_left _ hj)
      · subst hj; exact hdead v hv
      · exact hold (List.mem_append_right _ hj)
    refine h.of_step g hthr hR h.outs ?_ (lock_keep h hthr rfl (notUnlock_of hpc (by intro o; simp)))
        (closing_keep h hthr rfl (fun _ _ h => h) (notClosing_of hpc (by intro t; simp))) h.ownerMain
    show TInv _ i (({ σ.goto i (.gcDelete (delsAt σ.sys hz)) with sys := collectAt σ.sys hz, busy := σ.busy ++ [(i, delsAt σ.sys hz)] } : St).thr i)
    rw [show ({ σ.goto i (.gcDelete (delsAt σ.sys hz)) with sys := collectAt σ.sys hz, busy := σ.busy ++ [(i, delsAt σ.sys hz)] } : St).thr i = { σ.thr i with pc := .gcDelete (delsAt σ.sys hz) } from setThr_self σ i _]
    exact ⟨ht.invLe, ht.wit, ⟨⟨delsAt σ.sys hz, List.mem_append_right _ (by simp), fun _ hv => hv⟩, hwit⟩⟩
  | gcDelete todo =>
    rw [hpc] at hp
    cases todo with
    | nil =>
      simp only [step, hpc, Option.some.injEq] at hs; subst hs
      exact finish_step h _ (notUnlock_of hpc (by intro o; simp)) (notClosing_of hpc (by intro t; simp)) (ret_of_wit hp.2)
    | cons v todo =>
      simp only [step, hpc, Option.some.injEq] at hs; subst hs
      exact delete_step h _ (notUnlock_of hpc (by intro o; simp)) (notClosing_of hpc (by intro t; simp)) hp.1 (fun hj => ⟨hj, hp.2⟩)
  | workTake =>
    rw [hpc] at hp
    simp only [step, hpc] at hs
    split at hs
    · simp only [Option.some.injEq] at hs; subst hs
      exact linearize_same h hpc (by intro o; simp) (by intro t; simp) σ.sys .drain .ok _ hp rfl rfl h.rel rfl ⟨mainTx, allowed_main σ i, Frame.rfl' _ _⟩ (ret_of_wit rfl)
    · rename_i job rest hpend
      simp only [Option.some.injEq] at hs; subst hs
      have hthr : ∀ j, j ≠ i → ({ σ.goto i (.workDelete job) with sys := { σ.sys with pending := rest }, busy := σ.busy ++ [(i, job)] } : St).thr j = σ.thr j := fun j hij => setThr_other σ i _ hij
      have g : Guar σ { σ.goto i (.workDelete job) with sys := { σ.sys with pending := rest }, busy := σ.busy ++ [(i, job)] } i :=
        ⟨⟨mainTx, allowed_main σ i, Frame.of_eq mainTx rfl rfl rfl rfl rfl rfl⟩, fun _ _ h => h, ⟨[], by simp [St.goto, St.setThr], by simp⟩,
          fun _ _ _ hm => List.mem_append_left _ hm, fun _ _ h => h, fun _ h => Or.inl h⟩
      have hR : Rx σ.closing (withBusy { σ.goto i (.workDelete job) with sys := { σ.sys with pending := rest }, busy := σ.busy ++ [(i, job)] }) (specOf σ) := by
        refine h.rel.congr rfl rfl rfl rfl rfl rfl rfl rfl ?_
        show (σ.busy ++ [(i, job)]).map (·.2) ++ rest = σ.busy.map (·.2) ++ σ.sys.pending
        rw [hpend]; simp
      refine h.of_step g hthr hR h.outs ?_ (lock_keep h hthr rfl (notUnlock_of hpc (by intro o; simp)))
        (closing_keep h hthr rfl (fun _ _ h => h) (notClosing_of hpc (by intro t; simp))) h.ownerMain
      show TInv _ i (({ σ.goto i (.workDelete job) with sys := { σ.sys with pending := rest }, busy := σ.busy ++ [(i, job)] } : St).thr i)
      rw [show ({ σ.goto i (.workDelete job) with sys := { σ.sys with pending := rest }, busy := σ.busy ++ [(i, job)] } : St).thr i = { σ.thr i with pc := .workDelete job } from setThr_self σ i _]
      exact ⟨ht.invLe, ht.wit, ⟨⟨job, List.mem_append_right _ (by simp), fun _ hv => hv⟩, hp⟩⟩
  | workDelete todo =>
    rw [hpc] at hp
    cases todo with
    | nil =>
      simp only [step, hpc, Option.some.injEq] at hs; subst hs
      exact finish_step h _ (notUnlock_of hpc (by intro o; simp)) (notClosing_of hpc (by intro t; simp)) hp.2
    | cons v todo =>
      simp only [step, hpc, Option.some.injEq] at hs; subst hs
      exact delete_step h _ (notUnlock_of hpc (by intro o; simp)) (notClosing_of hpc (by intro t; simp)) hp.1 (fun hj => ⟨hj, hp.2⟩)

end FsDb.Conc

namespace FsDb.Conc
open FsDb Sys Spec

theorem ite_some {α} {c : Prop} [Decidable c] {a b : α} (h : (if c then some a else none) = some b) : c ∧ a = b := by
  by_cases hc : c
  · simp only [hc, if_true, Option.some.injEq] at h; exact ⟨hc, h⟩
  · simp [hc] at h

/-- calling an operation preserves the invariant -/
theorem invoke_inv {σ σ' : St} {i : Nat} {op : Op} (h : CInv σ) (hs : invoke σ i op = some σ') : CInv σ' := by
  unfold invoke at hs
  split at hs
  · cases hs
  · rename_i hidle
    have hidle' : (σ.thr i).pc = .idle := by simpa using hidle
    have hnot : ∀ o, (σ.thr i).pc ≠ .beginUnlock o := by rw [hidle']; intro o; simp
    cases hentry : entry op with
    | none => simp [hentry] at hs
    | some pc =>
      simp only [hentry] at hs
      -- the common part: a fresh thread record, possibly a new owner entry
      have key : ∀ (owner' : Nat → Option Nat) (th : Thread),
          th.op = some op → th.wit = none → th.invAt = σ.lin.length →
          (∀ t j, σ.owner t = some j → owner' t = some j) → owner' mainTx = none →
          PcInv { σ.setThr i th with owner := owner' } i th th.pc →
          CInv { σ.setThr i th with owner := owner' } := by
        intro owner' th hop hwit hinv hown hom hpcinv
        have hthr : ∀ j, j ≠ i → ({ σ.setThr i th with owner := owner' } : St).thr j = σ.thr j :=
          fun j hij => setThr_other σ i _ hij
        have g : Guar σ { σ.setThr i th with owner := owner' } i :=
          ⟨⟨mainTx, allowed_main σ i, Frame.rfl' _ _⟩, hown, ⟨[], by simp [St.setThr], by simp⟩, fun _ _ _ h => h, fun _ _ h => h,
            fun _ h => Or.inl h⟩
        refine h.of_step g hthr h.rel h.outs ?_ (lock_keep h hthr rfl hnot)
          (closing_keep h hthr rfl hown (by rw [hidle']; intro t; simp)) hom
        show TInv _ i (({ σ.setThr i th with owner := owner' } : St).thr i)
        rw [show ({ σ.setThr i th with owner := owner' } : St).thr i = th from setThr_self σ i _]
        refine ⟨by rw [hinv]; exact Nat.le_refl _, ?_, hpcinv⟩
        intro w hw; rw [hwit] at hw; cases hw
      cases op with
      | begin t lvl =>
        simp only [entry, Option.some.injEq] at hentry; subst hentry
        simp only [] at hs
        split at hs
        · cases hs
        · rename_i hfresh
          simp only [Option.some.injEq] at hs; subst hs
          have hf : t ≠ mainTx ∧ σ.owner t = none := by
            constructor
            · intro e; exact hfresh (Or.inl e)
            · cases ho : σ.owner t with
              | none => rfl
              | some j => exact absurd (Or.inr (by simp [ho])) hfresh
          refine key _ _ rfl rfl rfl ?_ ?_ ⟨by simp, hf.1, rfl⟩
          · intro t' j hj
            by_cases e : t' = t
            · subst e; rw [hf.2] at hj; cases hj
            · simp [e, hj]
          · have : mainTx ≠ t := fun e => hf.1 e.symm
            simp [this, h.ownerMain]
      | set t k c =>
        simp only [entry, Option.some.injEq] at hentry; subst hentry
        simp only [txOf] at hs
        obtain ⟨hal, hs⟩ := ite_some hs; subst hs
        exact key σ.owner _ rfl rfl rfl (fun _ _ h => h) h.ownerMain ⟨hal, rfl⟩
      | del t k =>
        simp only [entry, Option.some.injEq] at hentry; subst hentry
        simp only [txOf] at hs
        obtain ⟨hal, hs⟩ := ite_some hs; subst hs
        exact key σ.owner _ rfl rfl rfl (fun _ _ h => h) h.ownerMain ⟨hal, rfl⟩
      | get t k =>
        simp only [entry, Option.some.injEq] at hentry; subst hentry
        simp only [txOf] at hs
        obtain ⟨hal, hs⟩ := ite_some hs; subst hs
        exact key σ.owner _ rfl rfl rfl (fun _ _ h => h) h.ownerMain ⟨hal, rfl⟩
      | keys t =>
        simp only [entry, Option.some.injEq] at hentry; subst hentry
        simp only [txOf] at hs
        obtain ⟨hal, hs⟩ := ite_some hs; subst hs
        exact key σ.owner _ rfl rfl rfl (fun _ _ h => h) h.ownerMain ⟨hal, rfl⟩
      | commit t =>
        simp only [entry, Option.some.injEq] at hentry; subst hentry
        simp only [txOf] at hs
        obtain ⟨hal, hs⟩ := ite_some hs; subst hs
        exact key σ.owner _ rfl rfl rfl (fun _ _ h => h) h.ownerMain ⟨hal, rfl⟩
      | rollback t =>
        simp only [entry, Option.some.injEq] at hentry; subst hentry
        simp only [txOf] at hs
        obtain ⟨hal, hs⟩ := ite_some hs; subst hs
        exact key σ.owner _ rfl rfl rfl (fun _ _ h => h) h.ownerMain ⟨hal, rfl⟩
      | gc =>
        simp only [entry, Option.some.injEq] at hentry; subst hentry
        simp only [txOf] at hs
        obtain ⟨_, hs⟩ := ite_some hs; subst hs
        exact key σ.owner _ rfl rfl rfl (fun _ _ h => h) h.ownerMain rfl
      | drain =>
        simp only [entry, Option.some.injEq] at hentry; subst hentry
        simp only [txOf] at hs
        obtain ⟨_, hs⟩ := ite_some hs; subst hs
        exact key σ.owner _ rfl rfl rfl (fun _ _ h => h) h.ownerMain rfl
      | reopen f => simp [entry] at hentry
      | tree => simp [entry] at hentry

theorem CInv.init : CInv ({} : St) := by
  refine ⟨?_, rfl, ?_, ?_, ?_, rfl, ?_⟩
  · show R (withB [] ({} : Sys)) ({} : State)
    exact R.init
  · intro i
    exact ⟨Nat.le_refl _, (fun w hw => by cases hw), trivial⟩
  · intro i hi; cases hi
  · intro t ht; cases ht
  · intro e he; cases he

theorem next_inv {σ : St} (h : CInv σ) (a : Act) : CInv (next σ a) := by
  cases a with
  | call i op =>
    simp only [next]
    cases hs : invoke σ i op with
    | none => exact h
    | some σ' => exact invoke_inv h hs
  | run i =>
    simp only [next]
    cases hs : step σ i with
    | none => exact h
    | some σ' => exact step_inv h hs

/-- the invariant holds in every state reachable by any schedule of any client programs -/
theorem exec_inv {σ : St} (h : CInv σ) (acts : List Act) : CInv (exec σ acts) := by
  induction acts generalizing σ with
  | nil => exact h
  | cons a acts ih => exact ih (next_inv h a)

theorem reachable_inv (acts : List Act) : CInv (exec {} acts) := exec_inv CInv.init acts

/-- the only blocking primitive is the horizon mutex, and its holder can always move -/
theorem progress {σ : St} (h : CInv σ) (i : Nat) (hbusy : (σ.thr i).pc ≠ .idle) :
    (step σ i).isSome = true ∨ ∃ j, σ.hzLock = some j ∧ (step σ j).isSome = true := by
  by_cases hl : σ.hzLock.isSome = true
  · right
    obtain ⟨j, hj⟩ := Option.isSome_iff_exists.mp hl
    obtain ⟨o, ho⟩ := h.lock j hj
    exact ⟨j, hj, by simp [step, ho]⟩
  · left
    cases hpc : (σ.thr i).pc with
    | idle => exact absurd hpc hbusy
    | keysContent todo acc => cases todo <;> simp [step, hpc]
    | gcDelete todo => cases todo <;> simp [step, hpc]
    | workDelete todo => cases todo <;> simp [step, hpc]
    | getReg t k => simp only [step, hpc]; split <;> rfl
    | keysReg t => simp only [step, hpc]; split <;> rfl
    | getContent tx k v => simp only [step, hpc]; split <;> rfl
    | workTake => simp only [step, hpc]; split <;> rfl
    | delGuard t k => simp only [step, hpc]; split <;> rfl
    | commitDereg t => simp only [step, hpc]; split <;> rfl
    | rollbackDereg t => simp only [step, hpc]; split <;> rfl
    | setGuard t k c =>
      simp only [step, hpc]
      split
      · rfl
      · split <;> rfl
    | getBase tx k own prev =>
      simp only [step, hpc]
      split
      · rfl
      · split <;> rfl
    | _ => simp [step, hpc, hl]

/-! ### from the log with counter advances to the specification's own history

The ghost specification state follows the counter advances of the log (`Spec.erun`).  They are
invisible (`Proofs/MultiDb`, `Proofs/SpecShift`): the specification executing the OPERATIONS of the
log alone gives the same answers. -/

/-- the operations of a log prefix, counter advances erased -/
def logOps (σ : St) (n : Nat) : List Op := opsOf (linOps (σ.lin.take n))

/-- the specification state after the operations of the first `n` log entries -/
def pureAt (σ : St) (n : Nat) : State := (Spec.run {} (logOps σ n)).1

theorem spec_run_append (s : State) (a : List Op) (op : Op) :
    (Spec.run s (a ++ [op])).2 = (Spec.run s a).2 ++ [(Spec.step (Spec.run s a).1 op).2] := by
  induction a generalizing s with
  | nil => rfl
  | cons x a ih =>
    simp only [List.cons_append, Spec.run]
    rw [ih (Spec.step s x).1]

theorem opsOf_append_op (es : List EOp) (op : Op) : opsOf (es ++ [.op op]) = opsOf es ++ [op] := by
  induction es with
  | nil => rfl
  | cons e es ih => cases e <;> simp [opsOf, ih]

/-- any further operation answers the same after the log with and without its counter advances -/
theorem erun_answer_pure (es : List EOp) (hp : ∀ e ∈ es, e.plain = true) (op : Op) (hop : plainOp op = true) :
    (Spec.step (Spec.erun {} es).1 op).2 = (Spec.step (Spec.run {} (opsOf es)).1 op).2 := by
  have hp' : ∀ e ∈ es ++ [.op op], e.plain = true := by
    intro e he
    rcases List.mem_append.mp he with he | he
    · exact hp e he
    · simp only [List.mem_singleton] at he; subst he; exact hop
  have h1 := erun_erases (Shift.refl {}) SInv.init OwnLe.init (es ++ [.op op]) hp'
  have h0 := erun_erases (Shift.refl {}) SInv.init OwnLe.init es hp
  rw [(spec_erun_append {} es op).2, opsOf_append_op, spec_run_append, h0] at h1
  exact List.singleton_inj.mp (List.append_cancel_left h1)

theorem take_plain {σ : St} (h : CInv σ) (n : Nat) : ∀ e ∈ linOps (σ.lin.take n), e.plain = true := by
  intro e he
  obtain ⟨x, hx, rfl⟩ := List.mem_map.mp he
  exact h.plain x (List.mem_of_mem_take hx)

theorem specAt_get_pure {σ : St} (h : CInv σ) (n t : Nat) (k : Key) :
    Spec.get (specAt σ n) t k = Spec.get (pureAt σ n) t k :=
  erun_answer_pure _ (take_plain h n) (.get t k) rfl

theorem specAt_getKeys_pure {σ : St} (h : CInv σ) (n t : Nat) :
    Spec.getKeys (specAt σ n) t = Spec.getKeys (pureAt σ n) t :=
  erun_answer_pure _ (take_plain h n) (.keys t) rfl

/-- the whole log: the specification executing its operations alone gives the logged answers -/
theorem log_pure {σ : St} (h : CInv σ) : (Spec.run {} (opsOf (linOps σ.lin))).2 = linOuts σ.lin := by
  have hp : ∀ e ∈ linOps σ.lin, e.plain = true := by
    intro e he
    obtain ⟨x, hx, rfl⟩ := List.mem_map.mp he
    exact h.plain x hx
  rw [← erun_erases (Shift.refl {}) SInv.init OwnLe.init _ hp]
  exact h.outs

end FsDb.Conc
