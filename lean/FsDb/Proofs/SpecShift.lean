import FsDb.Proofs.SpecInv
/-!
  The specification only observes the *order* of stamps.  `Shift f s s'`: `s'` is `s` with every
  stamp renamed by a function that is strictly increasing on the stamps in use, and a clock that may
  run ahead.  Every operation preserves the relation and answers the same on both sides; a collector
  pass on one side only preserves it too.  Consequence (C09): erasing the collector passes from a
  history changes no answer.
-/
namespace FsDb.Spec
open FsDb

def mapV (f : Nat → Nat) (v : SVer) : SVer := ⟨f v.stamp, v.val⟩
def mapTx (f : Nat → Nat) (t : STx) : STx := ⟨t.id, t.level, f t.beginStamp, fun k => (t.own k).map (mapV f)⟩

/-- own writes carry stamps the clock has passed -/
def OwnLe (s : State) : Prop := ∀ t ∈ s.open_, ∀ k v, t.own k = some v → v.stamp ≤ s.clock

structure Shift (f : Nat → Nat) (s s' : State) : Prop where
  mono : ∀ x y, x ≤ s.clock → y ≤ s.clock → x < y → f x < f y
  top : ∀ x, x ≤ s.clock → f x ≤ s'.clock
  hist : ∀ k, s'.hist k = (s.hist k).map (mapV f)
  open_ : s'.open_ = s.open_.map (mapTx f)
  dom : s'.dom = s.dom

theorem mapV_id (v : SVer) : mapV id v = v := rfl

theorem mapTx_id (t : STx) : mapTx id t = t := by
  cases t with
  | mk i l b o =>
    simp only [mapTx, id, STx.mk.injEq, true_and]
    funext k
    cases o k <;> rfl

theorem Shift.refl (s : State) : Shift id s s :=
  ⟨fun _ _ _ _ h => h, fun _ h => h,
   fun k => by rw [List.map_congr_left (g := id) (fun v _ => mapV_id v)]; simp,
   by rw [List.map_congr_left (g := id) (fun t _ => mapTx_id t)]; simp, rfl⟩

namespace Shift
variable {f : Nat → Nat} {s s' : State}

theorem lt_iff (h : Shift f s s') {x y : Nat} (hx : x ≤ s.clock) (hy : y ≤ s.clock) : f x < f y ↔ x < y := by
  constructor
  · intro hf
    rcases Nat.lt_trichotomy x y with h1 | h1 | h1
    · exact h1
    · subst h1; omega
    · have := h.mono y x hy hx h1; omega
  · exact h.mono x y hx hy

theorem committed_eq (h : Shift f s s') (k : Key) : committed s' k = (committed s k).map (mapV f) := by
  unfold committed; rw [h.hist k, List.getLast?_map]

theorem find_eq (h : Shift f s s') (t : Nat) : find s' t = (find s t).map (mapTx f) := by
  unfold find; rw [h.open_]
  induction s.open_ with
  | nil => rfl
  | cons a l ih =>
    simp only [List.map_cons, List.find?_cons]
    have : (mapTx f a).id = a.id := rfl
    rw [this]
    split
    · rfl
    · exact ih

end Shift

/-- stamps of a committed / own version are below the clock -/
theorem committed_le {s : State} (hs : SInv s) {k : Key} {v : SVer} (h : committed s k = some v) : v.stamp ≤ s.clock :=
  hs.stampsLe k v (List.mem_of_getLast? h)

theorem newerS_map {f : Nat → Nat} {c : Nat} (hlt : ∀ x y, x ≤ c → y ≤ c → (f x < f y ↔ x < y))
    (a b : Option SVer) (ha : ∀ v, a = some v → v.stamp ≤ c) (hb : ∀ v, b = some v → v.stamp ≤ c) :
    newerS (a.map (mapV f)) (b.map (mapV f)) = (newerS a b).map (mapV f) := by
  cases a with
  | none => cases b <;> rfl
  | some x =>
    cases b with
    | none => rfl
    | some y =>
      simp only [Option.map_some, newerS, mapV]
      have := hlt y.stamp x.stamp (hb y rfl) (ha x rfl)
      by_cases hxy : x.stamp > y.stamp
      · rw [if_pos hxy, if_pos (this.mpr hxy)]; rfl
      · rw [if_neg hxy, if_neg (fun hh => hxy (this.mp hh))]; rfl

theorem newerS_le {a b : Option SVer} {c : Nat} (ha : ∀ v, a = some v → v.stamp ≤ c) (hb : ∀ v, b = some v → v.stamp ≤ c) :
    ∀ v, newerS a b = some v → v.stamp ≤ c := by
  intro v hv
  cases a with
  | none => exact hb v (by simpa [newerS] using hv)
  | some x =>
    cases b with
    | none => exact ha v (by simpa [newerS] using hv)
    | some y =>
      simp only [newerS] at hv
      split at hv
      · exact ha v hv
      · exact hb v hv

theorem outOf_map (f : Nat → Nat) (o : Option SVer) : outOf (o.map (mapV f)) = outOf o := by
  cases o with
  | none => rfl
  | some v => cases v with | mk st val => cases val <;> rfl

theorem hasValue_map (f : Nat → Nat) (o : Option SVer) : hasValue (o.map (mapV f)) = hasValue o := by
  cases o with
  | none => rfl
  | some v => cases v with | mk st val => cases val <;> rfl

/-- what a reader sees commutes with the renaming -/
theorem Shift.visible_eq {f : Nat → Nat} {s s' : State} (h : Shift f s s') (hs : SInv s) (ho : OwnLe s)
    (lvl : Level) (b : Nat) (hb : b ≤ s.clock) (own : Key → Option SVer)
    (hown : ∀ k v, own k = some v → v.stamp ≤ s.clock) (k : Key) :
    visible s' lvl (f b) (fun k => (own k).map (mapV f)) k = (visible s lvl b own k).map (mapV f) := by
  have hlt : ∀ x y, x ≤ s.clock → y ≤ s.clock → (f x < f y ↔ x < y) := fun x y hx hy => h.lt_iff hx hy
  cases lvl with
  | ru =>
    simp only [visible]
    rw [h.open_, h.committed_eq k]
    have hc : ∀ v, committed s k = some v → v.stamp ≤ s.clock := fun v hv => committed_le hs hv
    generalize committed s k = acc at hc
    have hall : ∀ t ∈ s.open_, ∀ v, t.own k = some v → v.stamp ≤ s.clock := fun t ht v hv => ho t ht k v hv
    generalize s.open_ = l at hall
    induction l generalizing acc with
    | nil => rfl
    | cons t l ih =>
      simp only [List.map_cons, List.foldl_cons]
      have : (mapTx f t).own k = (t.own k).map (mapV f) := rfl
      rw [this, newerS_map hlt _ _ (hall t (by simp)) hc]
      exact ih _ (newerS_le (hall t (by simp)) hc) (fun t' ht' => hall t' (List.mem_cons_of_mem _ ht'))
  | rc =>
    simp only [visible]
    rw [h.committed_eq k]
    exact newerS_map hlt _ _ (hown k) (fun v hv => committed_le hs hv)
  | rr =>
    simp only [visible]
    cases ho' : own k with
    | some v => rfl
    | none =>
      simp only [Option.map_none]
      rw [h.hist k, ← List.getLast?_map, List.filter_map]
      congr 2
      apply List.filter_congr
      intro v hv
      simp only [Function.comp, mapV]
      exact decide_eq_decide.mpr (hlt _ _ (hs.stampsLe k v hv) hb)
  | ser =>
    simp only [visible]
    cases ho' : own k with
    | some v => rfl
    | none =>
      simp only [Option.map_none]
      rw [h.hist k, ← List.getLast?_map, List.filter_map]
      congr 2
      apply List.filter_congr
      intro v hv
      simp only [Function.comp, mapV]
      exact decide_eq_decide.mpr (hlt _ _ (hs.stampsLe k v hv) hb)

/-! ### own stamps stay below the clock -/

theorem OwnLe.mono {s t : State} (h : OwnLe s) (ho : t.open_ = s.open_) (hc : s.clock ≤ t.clock) : OwnLe t := by
  intro x hx k v hv
  rw [ho] at hx
  exact Nat.le_trans (h x hx k v hv) hc

theorem OwnLe.close {s : State} (h : OwnLe s) (t : Nat) : OwnLe (Spec.close s t) := by
  intro x hx k v hv
  exact h x (mem_filter_sub hx) k v hv

theorem OwnLe.write {s : State} (h : OwnLe s) (t : Nat) (k : Key) (val : Option Nat) : OwnLe (Spec.write s t k val).1 := by
  unfold Spec.write
  split
  · intro x hx k' v hv
    simp only [addDom_open] at hx
    simp only [addDom_clock]
    exact Nat.le_succ_of_le (h x hx k' v hv)
  · split
    · exact h
    · intro x hx k' v hv
      simp only [addDom_open, List.mem_map] at hx
      simp only [addDom_clock]
      obtain ⟨y, hy, rfl⟩ := hx
      split at hv
      · simp only at hv
        split at hv
        · cases hv; exact Nat.le_refl _
        · exact Nat.le_succ_of_le (h y hy k' v hv)
      · exact Nat.le_succ_of_le (h y hy k' v hv)

theorem OwnLe.step {s : State} (h : OwnLe s) (op : Op) : OwnLe (Spec.step s op).1 := by
  cases op with
  | begin t l =>
    show OwnLe (Spec.begin s t l).1
    unfold Spec.begin
    split
    · exact h
    · intro x hx k v hv
      simp only [List.mem_append, List.mem_singleton] at hx
      rcases hx with hx | rfl
      · exact Nat.le_succ_of_le (h x hx k v hv)
      · cases hv
  | set t k c =>
    show OwnLe (Spec.set s t k c).1
    unfold Spec.set
    split
    · exact h
    · split
      · exact h
      · exact h.write t k _
  | del t k => exact h.write t k none
  | get t k => exact h
  | keys t => exact h
  | commit t =>
    show OwnLe (Spec.commit s t).1
    unfold Spec.commit
    split
    · exact h
    · simp only
      split
      · exact h.close t
      · split
        · exact h.close t
        · exact (h.close t).mono rfl (Nat.le_succ _)
  | rollback t => exact h.close t
  | gc =>
    show OwnLe (if s.open_.isEmpty then { s with clock := s.clock + 1 } else s)
    split
    · exact h.mono rfl (Nat.le_succ _)
    · exact h
  | drain => exact h
  | reopen f =>
    intro x hx
    have : x ∈ ([] : List STx) := hx
    cases this
  | tree => exact h

/-! ### extending the renaming by the next stamp -/

def ext (f : Nat → Nat) (c c' : Nat) : Nat → Nat := fun x => if x = c + 1 then c' + 1 else f x

theorem ext_old (f : Nat → Nat) (c c' : Nat) {x : Nat} (hx : x ≤ c) : ext f c c' x = f x := by
  unfold ext; rw [if_neg (by omega)]

theorem ext_new (f : Nat → Nat) (c c' : Nat) : ext f c c' (c + 1) = c' + 1 := by
  unfold ext; rw [if_pos rfl]

namespace Shift
variable {f : Nat → Nat} {s s' : State}

theorem ext_mono (h : Shift f s s') : ∀ x y, x ≤ s.clock + 1 → y ≤ s.clock + 1 → x < y →
    ext f s.clock s'.clock x < ext f s.clock s'.clock y := by
  intro x y hx hy hxy
  by_cases hy1 : y = s.clock + 1
  · subst hy1
    rw [ext_new, ext_old f _ _ (by omega : x ≤ s.clock)]
    have := h.top x (by omega); omega
  · rw [ext_old f _ _ (by omega : x ≤ s.clock), ext_old f _ _ (by omega : y ≤ s.clock)]
    exact h.mono x y (by omega) (by omega) hxy

theorem ext_top (h : Shift f s s') : ∀ x, x ≤ s.clock + 1 → ext f s.clock s'.clock x ≤ s'.clock + 1 := by
  intro x hx
  by_cases hx1 : x = s.clock + 1
  · subst hx1; rw [ext_new]; exact Nat.le_refl _
  · rw [ext_old f _ _ (by omega : x ≤ s.clock)]
    have := h.top x (by omega); omega

theorem ext_hist (hs : SInv s) (c' : Nat) (k : Key) :
    (s.hist k).map (mapV (ext f s.clock c')) = (s.hist k).map (mapV f) := by
  apply List.map_congr_left
  intro v hv
  simp only [mapV, ext_old f _ _ (hs.stampsLe k v hv)]

theorem ext_tx (hs : SInv s) (ho : OwnLe s) (c' : Nat) {t : STx} (ht : t ∈ s.open_) :
    mapTx (ext f s.clock c') t = mapTx f t := by
  simp only [mapTx, ext_old f _ _ (hs.beginLe t ht), STx.mk.injEq, true_and]
  funext k
  cases hk : t.own k with
  | none => rfl
  | some v => simp only [Option.map_some, mapV, ext_old f _ _ (ho t ht k v hk)]

theorem ext_open (hs : SInv s) (ho : OwnLe s) (c' : Nat) :
    s.open_.map (mapTx (ext f s.clock c')) = s.open_.map (mapTx f) :=
  List.map_congr_left (fun _ ht => ext_tx hs ho c' ht)

/-- a collector pass (or anything else that only advances the clock) on the right side only -/
theorem right_clock (h : Shift f s s') (t' : State) (hc : s'.clock ≤ t'.clock) (hh : t'.hist = s'.hist)
    (ho : t'.open_ = s'.open_) (hd : t'.dom = s'.dom) : Shift f s t' :=
  ⟨h.mono, fun x hx => Nat.le_trans (h.top x hx) hc, by rw [hh]; exact h.hist, by rw [ho]; exact h.open_, by rw [hd]; exact h.dom⟩

theorem right_gc (h : Shift f s s') : Shift f s (Spec.step s' .gc).1 := by
  show Shift f s (if s'.open_.isEmpty then { s' with clock := s'.clock + 1 } else s')
  split
  · exact h.right_clock _ (Nat.le_succ _) rfl rfl rfl
  · exact h

end Shift

/-! ### reads -/

theorem find_mem {s : State} {t : Nat} {x : STx} (h : find s t = some x) : x ∈ s.open_ ∧ x.id = t := by
  unfold find at h
  exact ⟨List.mem_of_find?_eq_some h, by simpa using List.find?_some h⟩

namespace Shift
variable {f : Nat → Nat} {s s' : State}

theorem vis_eq (h : Shift f s s') (hs : SInv s) (ho : OwnLe s) (t : Nat) (k : Key) :
    (match ctxOf s' t with
      | none => none
      | some (lvl, b, own) => some (visible s' lvl b own k)) =
    (match ctxOf s t with
      | none => none
      | some (lvl, b, own) => some ((visible s lvl b own k).map (mapV f))) := by
  unfold ctxOf
  by_cases ht : t = mainTx
  · simp only [ht, if_true]
    have := h.visible_eq hs ho .rc 0 (Nat.zero_le _) (fun _ => none) (by intro k v hv; cases hv) k
    exact congrArg some this
  · simp only [ht, if_false]
    rw [h.find_eq t]
    cases hf : find s t with
    | none => rfl
    | some x =>
      obtain ⟨hx, _⟩ := find_mem hf
      simp only [Option.map_some]
      exact congrArg some (h.visible_eq hs ho x.level x.beginStamp (hs.beginLe x hx) x.own (fun k v hv => ho x hx k v hv) k)

theorem ctx_isNone (h : Shift f s s') (t : Nat) : (ctxOf s' t).isNone = (ctxOf s t).isNone := by
  unfold ctxOf
  by_cases ht : t = mainTx
  · simp [ht]
  · simp only [ht, if_false]; rw [h.find_eq t]; cases find s t <;> rfl

theorem get_eq (h : Shift f s s') (hs : SInv s) (ho : OwnLe s) (t : Nat) (k : Key) : Spec.get s' t k = Spec.get s t k := by
  have := h.vis_eq hs ho t k
  unfold Spec.get
  cases h1 : ctxOf s' t with
  | none =>
    have h2 : ctxOf s t = none := by
      have := h.ctx_isNone t; rw [h1] at this
      cases hc : ctxOf s t with
      | none => rfl
      | some _ => rw [hc] at this; cases this
    rw [h2]
  | some c1 =>
    obtain ⟨l1, b1, o1⟩ := c1
    cases h2 : ctxOf s t with
    | none => have := h.ctx_isNone t; rw [h1, h2] at this; cases this
    | some c2 =>
      obtain ⟨l2, b2, o2⟩ := c2
      rw [h1, h2] at this
      simp only [Option.some.injEq] at this
      simp only
      rw [this, outOf_map]

theorem keys_eq (h : Shift f s s') (hs : SInv s) (ho : OwnLe s) (t : Nat) : Spec.getKeys s' t = Spec.getKeys s t := by
  unfold Spec.getKeys
  cases h1 : ctxOf s' t with
  | none =>
    have h2 : ctxOf s t = none := by
      have := h.ctx_isNone t; rw [h1] at this
      cases hc : ctxOf s t with
      | none => rfl
      | some _ => rw [hc] at this; cases this
    rw [h2]
  | some c1 =>
    obtain ⟨l1, b1, o1⟩ := c1
    cases h2 : ctxOf s t with
    | none => have := h.ctx_isNone t; rw [h1, h2] at this; cases this
    | some c2 =>
      obtain ⟨l2, b2, o2⟩ := c2
      simp only
      rw [h.dom]
      congr 2
      apply List.filter_congr
      intro k _
      have := h.vis_eq hs ho t k
      rw [h1, h2] at this
      simp only [Option.some.injEq] at this
      rw [this, hasValue_map]

end Shift

/-! ### state-changing operations -/

namespace Shift
variable {f : Nat → Nat} {s s' : State}

theorem close (h : Shift f s s') (t : Nat) : Shift f (Spec.close s t) (Spec.close s' t) := by
  refine ⟨h.mono, h.top, h.hist, ?_, h.dom⟩
  show s'.open_.filter (·.id ≠ t) = (s.open_.filter (·.id ≠ t)).map (mapTx f)
  rw [h.open_, List.filter_map]
  rfl

theorem addDom (h : Shift f s s') (k : Key) : Shift f (Spec.addDom s k) (Spec.addDom s' k) := by
  unfold Spec.addDom
  rw [h.dom]
  split
  · exact h
  · exact ⟨h.mono, h.top, h.hist, h.open_, rfl⟩

theorem find_isSome (h : Shift f s s') (t : Nat) : (find s' t).isSome = (find s t).isSome := by
  rw [h.find_eq t]; cases find s t <;> rfl

theorem begin_step (h : Shift f s s') (hs : SInv s) (ho : OwnLe s) (t : Nat) (lvl : Level) :
    (Spec.begin s' t lvl).2 = (Spec.begin s t lvl).2 ∧
    Shift (ext f s.clock s'.clock) (Spec.begin s t lvl).1 (Spec.begin s' t lvl).1 ∨
    ((Spec.begin s' t lvl).2 = (Spec.begin s t lvl).2 ∧ Shift f (Spec.begin s t lvl).1 (Spec.begin s' t lvl).1) := by
  unfold Spec.begin
  rw [h.find_isSome t]
  split
  · exact Or.inr ⟨rfl, h⟩
  · left
    refine ⟨rfl, h.ext_mono, h.ext_top, ?_, ?_, h.dom⟩
    · intro k
      show s'.hist k = (s.hist k).map _
      rw [ext_hist hs]; exact h.hist k
    · show s'.open_ ++ [_] = (s.open_ ++ [_]).map _
      rw [List.map_append, ext_open hs ho, h.open_]
      simp only [List.map_cons, List.map_nil, mapTx, ext_new]
      rfl

theorem write_step (h : Shift f s s') (hs : SInv s) (ho : OwnLe s) (t : Nat) (k : Key) (val : Option Nat) :
    (Spec.write s' t k val).2 = (Spec.write s t k val).2 ∧
    ∃ g, Shift g (Spec.write s t k val).1 (Spec.write s' t k val).1 := by
  unfold Spec.write
  split
  · refine ⟨rfl, ext f s.clock s'.clock, ?_⟩
    apply Shift.addDom
    refine ⟨h.ext_mono, h.ext_top, ?_, ?_, h.dom⟩
    · intro k'
      show (if k' = k then s'.hist k ++ [_] else s'.hist k') = (if k' = k then s.hist k ++ [_] else s.hist k').map _
      split
      · rw [List.map_append, ext_hist hs, h.hist k]
        simp [mapV, ext_new]
      · rw [ext_hist hs]; exact h.hist k'
    · show s'.open_ = s.open_.map _
      rw [ext_open hs ho]; exact h.open_
  · rw [h.find_eq t]
    cases hf : find s t with
    | none => exact ⟨rfl, f, h⟩
    | some x =>
      refine ⟨rfl, ext f s.clock s'.clock, ?_⟩
      apply Shift.addDom
      refine ⟨h.ext_mono, h.ext_top, ?_, ?_, h.dom⟩
      · intro k'
        show s'.hist k' = (s.hist k').map _
        rw [ext_hist hs]; exact h.hist k'
      · show s'.open_.map _ = (s.open_.map _).map _
        rw [h.open_, List.map_map, List.map_map]
        apply List.map_congr_left
        intro y hy
        simp only [Function.comp]
        have hid : (mapTx f y).id = y.id := rfl
        rw [hid]
        split
        · simp only [mapTx, ext_old f _ _ (hs.beginLe y hy), STx.mk.injEq, true_and]
          funext k'
          split
          · simp [mapV, ext_new]
          · cases hk : y.own k' with
            | none => rfl
            | some v => simp only [Option.map_some, mapV, ext_old f _ _ (ho y hy k' v hk)]
        · exact (ext_tx hs ho s'.clock hy).symm

end Shift

/-- every operation except reopen and the storage walk -/
def plainOp : Op → Bool
  | .reopen _ => false
  | .tree => false
  | _ => true

def newerThan (b : Nat) (o : Option SVer) : Bool :=
  match o with
  | some v => v.stamp > b
  | none => false

namespace Shift
variable {f : Nat → Nat} {s s' : State}

theorem written_eq (h : Shift f s s') (x : STx) : writtenS s'.dom (mapTx f x).own = writtenS s.dom x.own := by
  unfold writtenS
  rw [h.dom]
  apply List.filter_congr
  intro k _
  show ((x.own k).map (mapV f)).isSome = (x.own k).isSome
  cases x.own k <;> rfl

theorem conflict_eq (h : Shift f s s') (hs : SInv s) (x : STx) (hb : x.beginStamp ≤ s.clock) :
    conflictS s' (mapTx f x) = conflictS s x := by
  have e1 : ∀ (st : State) (y : STx), conflictS st y =
      (y.level.snapshot && (writtenS st.dom y.own).any (fun k => newerThan y.beginStamp (committed st k))) := by
    intro st y; rfl
  rw [e1, e1, h.written_eq x]
  show (x.level.snapshot && _) = _
  congr 1
  have hk : ∀ k, newerThan (mapTx f x).beginStamp (committed s' k) = newerThan x.beginStamp (committed s k) := by
    intro k
    rw [h.committed_eq k]
    cases hc : committed s k with
    | none => rfl
    | some v =>
      simp only [Option.map_some, mapV, newerThan]
      exact decide_eq_decide.mpr (h.lt_iff hb (committed_le hs hc))
  simp only [hk]

theorem publish (h : Shift f s s') (hs : SInv s) (ho : OwnLe s) (x : STx) :
    Shift (ext f s.clock s'.clock) (publishS s x) (publishS s' (mapTx f x)) := by
  refine ⟨h.ext_mono, h.ext_top, ?_, ?_, h.dom⟩
  · intro k
    show (match (mapTx f x).own k with
          | some v => if k ∈ writtenS s'.dom (mapTx f x).own then s'.hist k ++ [(⟨s'.clock + 1, v.val⟩ : SVer)] else s'.hist k
          | none => s'.hist k) =
        (match x.own k with
          | some v => if k ∈ writtenS s.dom x.own then s.hist k ++ [(⟨s.clock + 1, v.val⟩ : SVer)] else s.hist k
          | none => s.hist k).map _
    rw [h.written_eq x]
    have : (mapTx f x).own k = (x.own k).map (mapV f) := rfl
    rw [this]
    cases x.own k with
    | none => simp only [Option.map_none]; rw [ext_hist hs]; exact h.hist k
    | some v =>
      simp only [Option.map_some]
      split
      · rw [List.map_append, ext_hist hs, h.hist k]
        simp [mapV, ext_new]
      · rw [ext_hist hs]; exact h.hist k
  · show s'.open_ = s.open_.map _
    rw [ext_open hs ho]; exact h.open_

theorem commit_step (h : Shift f s s') (hs : SInv s) (ho : OwnLe s) (t : Nat) :
    (Spec.commit s' t).2 = (Spec.commit s t).2 ∧ ∃ g, Shift g (Spec.commit s t).1 (Spec.commit s' t).1 := by
  unfold Spec.commit
  by_cases ht : t = mainTx
  · simp only [ht, if_true]; exact ⟨trivial, f, h⟩
  · simp only [ht, if_false]
    rw [h.find_eq t]
    cases hf : find s t with
    | none => exact ⟨rfl, f, h⟩
    | some x =>
      obtain ⟨hx, _⟩ := find_mem hf
      simp only [Option.map_some]
      have hc := h.close t
      have hsc := hs.close t
      have hoc := ho.close t
      have hb : x.beginStamp ≤ (Spec.close s t).clock := hs.beginLe x hx
      rw [hc.conflict_eq hsc x hb, hc.written_eq x]
      by_cases hcf : conflictS (Spec.close s t) x = true
      · simp only [hcf, if_true]; exact ⟨trivial, f, hc⟩
      · simp only [hcf, Bool.false_eq_true, if_false]
        by_cases hw : (writtenS (Spec.close s t).dom x.own).isEmpty = true
        · simp only [hw, if_true]; exact ⟨trivial, f, hc⟩
        · simp only [hw, Bool.false_eq_true, if_false]; exact ⟨trivial, _, hc.publish hsc hoc x⟩

/-- every operation of a history (reopen and the storage walk aside) preserves the relation and
    answers the same on both sides -/
theorem step (h : Shift f s s') (hs : SInv s) (ho : OwnLe s) (op : Op) (hop : plainOp op = true) :
    (Spec.step s' op).2 = (Spec.step s op).2 ∧ ∃ g, Shift g (Spec.step s op).1 (Spec.step s' op).1 := by
  cases op with
  | begin t l =>
    rcases h.begin_step hs ho t l with ⟨h1, h2⟩ | ⟨h1, h2⟩
    · exact ⟨h1, _, h2⟩
    · exact ⟨h1, _, h2⟩
  | set t k c =>
    show (Spec.set s' t k c).2 = (Spec.set s t k c).2 ∧ ∃ g, Shift g (Spec.set s t k c).1 (Spec.set s' t k c).1
    unfold Spec.set
    rw [h.ctx_isNone t]
    split
    · exact ⟨rfl, f, h⟩
    · split
      · exact ⟨rfl, f, h⟩
      · exact h.write_step hs ho t k _
  | del t k => exact h.write_step hs ho t k none
  | get t k => exact ⟨h.get_eq hs ho t k, f, h⟩
  | keys t => exact ⟨h.keys_eq hs ho t, f, h⟩
  | commit t => exact h.commit_step hs ho t
  | rollback t => exact ⟨rfl, f, h.close t⟩
  | gc =>
    refine ⟨rfl, ?_⟩
    show ∃ g, Shift g (if s.open_.isEmpty then { s with clock := s.clock + 1 } else s)
                      (if s'.open_.isEmpty then { s' with clock := s'.clock + 1 } else s')
    have he : s'.open_.isEmpty = s.open_.isEmpty := by rw [h.open_]; cases s.open_ <;> rfl
    rw [he]
    split
    · refine ⟨ext f s.clock s'.clock, h.ext_mono, h.ext_top, ?_, ?_, h.dom⟩
      · intro k; show s'.hist k = (s.hist k).map _; rw [ext_hist hs]; exact h.hist k
      · show s'.open_ = s.open_.map _; rw [ext_open hs ho]; exact h.open_
    · exact ⟨f, h⟩
  | drain => exact ⟨rfl, f, h⟩
  | reopen b => simp [plainOp] at hop
  | tree => simp [plainOp] at hop

end Shift

/-! ### erasing the collector passes -/

/-- background work: a collector pass, or the worker pool running its deletion jobs -/
def isBg : Op → Bool
  | .gc => true
  | .drain => true
  | _ => false

/-- the answers of a history at the positions that are not background work -/
def keepFg : List Op → List Out → List Out
  | op :: ops, o :: os => if isBg op then keepFg ops os else o :: keepFg ops os
  | _, _ => []

/-- **Background work is invisible, now and for ever.**  From related states: the history with
    collector passes and pool runs at any positions answers, at all other positions, exactly what
    the history without them answers. -/
theorem erase_bg {f : Nat → Nat} {s s' : State} (h : Shift f s s') (hs : SInv s) (ho : OwnLe s)
    (ops : List Op) (hops : ∀ op ∈ ops, plainOp op = true) :
    keepFg ops (Spec.run s' ops).2 = (Spec.run s (ops.filter (fun o => !isBg o))).2 := by
  induction ops generalizing f s s' with
  | nil => rfl
  | cons op ops ih =>
    have hrest : ∀ o ∈ ops, plainOp o = true := fun o ho' => hops o (List.mem_cons_of_mem _ ho')
    by_cases hg : isBg op = true
    · -- background work: only the left-hand history runs it
      have hop : op = .gc ∨ op = .drain := by cases op <;> simp [isBg] at hg ⊢
      rcases hop with rfl | rfl
      · simp only [Spec.run, keepFg, isBg, if_true, List.filter_cons, Bool.not_true, Bool.false_eq_true, if_false]
        exact ih h.right_gc hs ho hrest
      · simp only [Spec.run, keepFg, isBg, if_true, List.filter_cons, Bool.not_true, Bool.false_eq_true, if_false]
        exact ih h hs ho hrest
    · have hg' : isBg op = false := by simpa using hg
      obtain ⟨hout, g, hg2⟩ := h.step hs ho op (hops op (by simp))
      simp only [Spec.run, keepFg, hg', Bool.false_eq_true, if_false, List.filter_cons, Bool.not_false, if_true]
      rw [hout, ih hg2 (hs.step op) (ho.step op) hrest]

theorem OwnLe.init : OwnLe ({} : State) := by
  intro t ht; cases ht

end FsDb.Spec
