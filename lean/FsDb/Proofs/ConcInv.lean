import FsDb.Proofs.ConcBasic
/-! The invariant of the small-step concurrency model and its stability under the steps of the
    other goroutines (rely/guarantee). -/
namespace FsDb.Conc
open FsDb Sys Spec

def outOfVal : Option Nat → Out
  | some c => .val c
  | none => .err .notFound

/-- the content id whose record was found missing: old, and still missing -/
def PrevOk (s : Sys) : Option Nat → Prop
  | none => True
  | some p => p < s.nextCid ∧ s.hasContent p = none

/-- what the first critical section of `core.Get` read is still what the atomic model reads -/
def OwnOk (s : Sys) (tx : TxRec) (k : Key) (own : Option Ver) : Prop :=
  (tx.level = .ru → own = none) ∧
  (tx.level ≠ .ru → tx.id ≠ mainTx → own = s.ownLatest tx.id k) ∧
  (tx.level ≠ .ru → tx.id = mainTx → ∀ f, own = some f → ∃ m, latest (s.main k) = some m ∧ f.seq ≤ m.seq)

def RegOk (σ : St) (i : Nat) (tx : TxRec) : Prop :=
  allowed σ i tx.id = true ∧ σ.sys.regGet tx.id = some tx

def isKeys : Option Op → Bool
  | some (.keys _) => true
  | _ => false

/-- the meaning of the ghost witness `w` of the current invocation: for a `Get` it is the
    specification's answer in the state after the first `witAt` log entries; for a state-changing
    operation it is the answer logged at position `witAt - 1` for exactly this operation -/
def WitSem (σ : St) (i : Nat) (th : Thread) (w : Out) : Prop :=
  match th.op with
  | some (.get t k) => w = Spec.get (specAt σ th.witAt) t k
  | some (.keys t) => w = Spec.getKeys (specAt σ th.witAt) t
  | some o => th.invAt < th.witAt ∧ σ.lin[th.witAt - 1]? = some (i, .op o, w)
  | none => True

/-- GetKeys after its lookups: everything it has accepted, and everything it can still accept, was
    listed by the atomic GetKeys at the linearization point (`W`); it can only LOSE keys (a content
    record reclaimed meanwhile), never invent one -/
def KeysOk (s : Sys) (wit : Option Out) (todo : List Ver) (acc : List Key) : Prop :=
  ∃ W, wit = some (.keys W) ∧ (∀ k ∈ acc, k ∈ W) ∧
    ∀ v ∈ todo, v.cid < s.nextCid ∧ ((s.hasContent v.cid).isSome = true → v.key ∈ W)

/-- the own-list snapshot of GetKeys is still what the atomic model reads, for every key -/
def KOwnOk (s : Sys) (tx : TxRec) (own : List (Key × Ver)) : Prop := ∀ k, OwnOk s tx k (lookupKV own k)

def Job (σ : St) (i : Nat) (todo : List Ver) : Prop := ∃ job, (i, job) ∈ σ.busy ∧ ∀ v ∈ todo, v ∈ job

def PcInv (σ : St) (i : Nat) (th : Thread) : Pc → Prop
  | .idle => True
  | .ret o => (isKeys th.op = false → th.wit = some o) ∧
      (∀ ks, o = .keys ks → ∃ W, th.wit = some (.keys W) ∧ ∀ k ∈ ks, k ∈ W)
  | .setGuard t k c => allowed σ i t = true ∧ th.op = some (.set t k c)
  | .setContent t k c => allowed σ i t = true ∧ th.op = some (.set t k c) ∧ (σ.sys.regGet t).isSome = true ∧ k ≠ ""
  | .setStore t k c => allowed σ i t = true ∧ th.op = some (.set t k c) ∧ (σ.sys.regGet t).isSome = true ∧ k ≠ ""
  | .delGuard t k => allowed σ i t = true ∧ th.op = some (.del t k)
  | .delStore t k => allowed σ i t = true ∧ th.op = some (.del t k) ∧ (σ.sys.regGet t).isSome = true
  | .getReg t k => allowed σ i t = true ∧ th.op = some (.get t k)
  | .getOwn tx k prev => RegOk σ i tx ∧ th.op = some (.get tx.id k) ∧ PrevOk σ.sys prev
  | .getBase tx k own prev => RegOk σ i tx ∧ th.op = some (.get tx.id k) ∧ PrevOk σ.sys prev ∧ OwnOk σ.sys tx k own
  | .getContent tx k v => RegOk σ i tx ∧ th.op = some (.get tx.id k) ∧ th.wit = some (outOfVal v.val) ∧
      v.cid < σ.sys.nextCid ∧ (σ.sys.hasContent v.cid = none ∨ σ.sys.hasContent v.cid = v.val)
  | .keysReg t => allowed σ i t = true ∧ th.op = some (.keys t)
  | .keysOwn tx => RegOk σ i tx ∧ th.op = some (.keys tx.id)
  | .keysBase tx own => RegOk σ i tx ∧ th.op = some (.keys tx.id) ∧ KOwnOk σ.sys tx own
  | .keysContent todo acc => isKeys th.op = true ∧ KeysOk σ.sys th.wit todo acc
  | .beginLock t lvl => σ.owner t = some i ∧ t ≠ mainTx ∧ th.op = some (.begin t lvl)
  | .beginUnlock o => σ.hzLock = some i ∧ th.wit = some o
  | .commitDereg t => allowed σ i t = true ∧ th.op = some (.commit t)
  | .commitRun t => allowed σ i t = true ∧ th.op = some (.commit t)
  | .rollbackDereg t => allowed σ i t = true ∧ th.op = some (.rollback t)
  | .rollbackRun t => allowed σ i t = true ∧ th.op = some (.rollback t)
  | .gcHorizon => th.op = some .gc
  | .gcCollect hz => SafeHz σ.closing σ.sys hz ∧ hz ≤ σ.sys.counter ∧ th.wit = some .ok
  | .gcDelete todo => Job σ i todo ∧ th.wit = some .ok
  | .workTake => th.op = some .drain
  | .workDelete todo => Job σ i todo ∧ th.op = some .drain

structure TInv (σ : St) (i : Nat) (th : Thread) : Prop where
  invLe : th.invAt ≤ σ.lin.length
  wit : ∀ w, th.wit = some w → th.invAt ≤ th.witAt ∧ th.witAt ≤ σ.lin.length ∧ WitSem σ i th w
  pc : PcInv σ i th th.pc

structure CInv (σ : St) : Prop where
  rel : Rx σ.closing (withBusy σ) (specOf σ)
  outs : (Spec.erun {} (linOps σ.lin)).2 = linOuts σ.lin
  thr : ∀ i, TInv σ i (σ.thr i)
  lock : ∀ i, σ.hzLock = some i → ∃ o, (σ.thr i).pc = .beginUnlock o
  closing : ∀ t ∈ σ.closing, ∃ j, σ.owner t = some j ∧ ((σ.thr j).pc = .commitRun t ∨ (σ.thr j).pc = .rollbackRun t)
  ownerMain : σ.owner mainTx = none
  plain : ∀ e ∈ σ.lin, e.2.1.plain = true

/-- what a step of thread `i` guarantees to everybody else -/
structure Guar (σ σ' : St) (i : Nat) : Prop where
  frame : ∃ t, allowed σ i t = true ∧ Frame σ.sys σ'.sys t
  owner : ∀ t j, σ.owner t = some j → σ'.owner t = some j
  lin : ∃ ext, σ'.lin = σ.lin ++ ext ∧ ∀ e ∈ ext, e.2.1.plain = true
  busy : ∀ j job, j ≠ i → (j, job) ∈ σ.busy → (j, job) ∈ σ'.busy
  hz : ∀ j, j ≠ i → σ.hzLock = some j → σ'.hzLock = some j
  closing : ∀ t ∈ σ.closing, t ∈ σ'.closing ∨ ∀ r ∈ σ'.sys.reg, r.id ≠ t

theorem allowed_mono {σ σ' : St} {i : Nat} (g : Guar σ σ' i) {j t : Nat} (h : allowed σ j t = true) :
    allowed σ' j t = true := by
  simp only [allowed, Bool.or_eq_true, decide_eq_true_eq] at *
  rcases h with h | h
  · exact Or.inl h
  · exact Or.inr (g.owner t j h)

/-- the registry entry of a transaction that thread `j` may use does not change under `i`'s step -/
theorem regGet_stable {σ σ' : St} {i : Nat} (g : Guar σ σ' i) {j : Nat} (hij : j ≠ i) {t : Nat}
    (h : allowed σ j t = true) : σ'.sys.regGet t = σ.sys.regGet t := by
  obtain ⟨ti, hti, fr⟩ := g.frame
  by_cases htm : t = mainTx
  · subst htm; rw [regGet_main, regGet_main]
  · apply fr.reg
    intro e; subst e
    simp only [allowed, Bool.or_eq_true, decide_eq_true_eq] at h hti
    rcases h with h | h
    · exact htm h
    · rcases hti with hti | hti
      · exact htm hti
      · rw [h] at hti; exact hij (Option.some.inj hti)

theorem ownLatest_stable {σ σ' : St} {i : Nat} (g : Guar σ σ' i) {j : Nat} (hij : j ≠ i) {t : Nat}
    (h : allowed σ j t = true) (htm : t ≠ mainTx) (k : Key) : σ'.sys.ownLatest t k = σ.sys.ownLatest t k := by
  obtain ⟨ti, hti, fr⟩ := g.frame
  apply fr.ownL _ _ _ htm
  intro e; subst e
  simp only [allowed, Bool.or_eq_true, decide_eq_true_eq] at h hti
  rcases h with h | h
  · exact htm h
  · rcases hti with hti | hti
    · exact htm hti
    · rw [h] at hti; exact hij (Option.some.inj hti)

theorem RegOk.stable {σ σ' : St} {i : Nat} (g : Guar σ σ' i) {j : Nat} (hij : j ≠ i) {tx : TxRec}
    (h : RegOk σ j tx) : RegOk σ' j tx :=
  ⟨allowed_mono g h.1, by rw [regGet_stable g hij h.1]; exact h.2⟩

theorem PrevOk.stable {σ σ' : St} {i : Nat} (g : Guar σ σ' i) {prev : Option Nat}
    (h : PrevOk σ.sys prev) : PrevOk σ'.sys prev := by
  obtain ⟨_, _, fr⟩ := g.frame
  cases prev with
  | none => trivial
  | some p =>
    obtain ⟨h1, h2⟩ := h
    refine ⟨Nat.lt_of_lt_of_le h1 fr.nextCid, ?_⟩
    rcases fr.content p h1 with e | e
    · rw [e]; exact h2
    · exact e

theorem OwnOk.stable {σ σ' : St} {i : Nat} (g : Guar σ σ' i) {j : Nat} (hij : j ≠ i) {tx : TxRec} {k : Key}
    {own : Option Ver} (hr : RegOk σ j tx) (h : OwnOk σ.sys tx k own) : OwnOk σ'.sys tx k own := by
  obtain ⟨h1, h2, h3⟩ := h
  refine ⟨h1, ?_, ?_⟩
  · intro hl hm; rw [ownLatest_stable g hij hr.1 hm]; exact h2 hl hm
  · intro hl hm f hf
    obtain ⟨m, hm1, hm2⟩ := h3 hl hm f hf
    obtain ⟨_, _, fr⟩ := g.frame
    obtain ⟨m', hm', hle⟩ := fr.mainMono k m hm1
    exact ⟨m', hm', Nat.le_trans hm2 hle⟩

theorem WitSem.stable {σ σ' : St} {i : Nat} (g : Guar σ σ' i) {j : Nat} {th : Thread} {w : Out}
    (hle : th.witAt ≤ σ.lin.length) (h : WitSem σ j th w) : WitSem σ' j th w := by
  obtain ⟨ext, hext, _⟩ := g.lin
  have htake : σ'.lin.take th.witAt = σ.lin.take th.witAt := by
    rw [hext, List.take_append_of_le_length hle]
  have hspec : specAt σ' th.witAt = specAt σ th.witAt := by unfold specAt; rw [htake]
  unfold WitSem at *
  cases hop : th.op with
  | none => simp only [hop] at h ⊢
  | some o =>
    simp only [hop] at h ⊢
    cases o <;> simp only [] at h ⊢ <;> try (rw [hspec]; exact h)
    all_goals
      refine ⟨h.1, ?_⟩
      rw [hext, List.getElem?_append_left (by omega)]
      exact h.2

theorem Job.stable {σ σ' : St} {i : Nat} (g : Guar σ σ' i) {j : Nat} (hij : j ≠ i) {todo : List Ver}
    (h : Job σ j todo) : Job σ' j todo := by
  obtain ⟨job, h1, h2⟩ := h
  exact ⟨job, g.busy j job hij h1, h2⟩

theorem SafeHz.stable {σ σ' : St} {i : Nat} (g : Guar σ σ' i) {hz : Nat}
    (h : SafeHz σ.closing σ.sys hz) (hc : hz ≤ σ.sys.counter) :
    SafeHz σ'.closing σ'.sys hz ∧ hz ≤ σ'.sys.counter := by
  obtain ⟨_, _, fr⟩ := g.frame
  refine ⟨?_, Nat.le_trans hc fr.counter⟩
  intro r hr hrc
  rcases fr.regNew r hr with h1 | h1
  · apply h r h1
    intro hin
    rcases g.closing r.id hin with h2 | h2
    · exact hrc h2
    · exact h2 r hr rfl
  · omega

/-- the local assertion of thread `j` survives a step of thread `i ≠ j` -/
theorem TInv.stable {σ σ' : St} {i : Nat} (g : Guar σ σ' i) {j : Nat} (hij : j ≠ i) {th : Thread}
    (h : TInv σ j th) : TInv σ' j th := by
  obtain ⟨ext, hext, _⟩ := g.lin
  have hlen : σ.lin.length ≤ σ'.lin.length := by rw [hext]; simp
  refine ⟨Nat.le_trans h.invLe hlen, ?_, ?_⟩
  · intro w hw
    obtain ⟨a, b, c⟩ := h.wit w hw
    exact ⟨a, Nat.le_trans b hlen, c.stable g b⟩
  · have hp := h.pc
    obtain ⟨_, _, fr⟩ := g.frame
    cases hpc : th.pc with
    | idle => trivial
    | ret o => rw [hpc] at hp; exact hp
    | setGuard t k c => rw [hpc] at hp; exact ⟨allowed_mono g hp.1, hp.2⟩
    | setContent t k c =>
      rw [hpc] at hp; exact ⟨allowed_mono g hp.1, hp.2.1, by rw [regGet_stable g hij hp.1]; exact hp.2.2.1, hp.2.2.2⟩
    | setStore t k c =>
      rw [hpc] at hp; exact ⟨allowed_mono g hp.1, hp.2.1, by rw [regGet_stable g hij hp.1]; exact hp.2.2.1, hp.2.2.2⟩
    | delGuard t k => rw [hpc] at hp; exact ⟨allowed_mono g hp.1, hp.2⟩
    | delStore t k =>
      rw [hpc] at hp; exact ⟨allowed_mono g hp.1, hp.2.1, by rw [regGet_stable g hij hp.1]; exact hp.2.2⟩
    | getReg t k => rw [hpc] at hp; exact ⟨allowed_mono g hp.1, hp.2⟩
    | getOwn tx k prev => rw [hpc] at hp; exact ⟨hp.1.stable g hij, hp.2.1, hp.2.2.stable g⟩
    | getBase tx k own prev =>
      rw [hpc] at hp; exact ⟨hp.1.stable g hij, hp.2.1, hp.2.2.1.stable g, hp.2.2.2.stable g hij hp.1⟩
    | getContent tx k v =>
      rw [hpc] at hp
      obtain ⟨h1, h2, h3, h4, h5⟩ := hp
      refine ⟨h1.stable g hij, h2, h3, Nat.lt_of_lt_of_le h4 fr.nextCid, ?_⟩
      rcases fr.content v.cid h4 with e | e
      · rw [e]; exact h5
      · exact Or.inl e
    | keysReg t => rw [hpc] at hp; exact ⟨allowed_mono g hp.1, hp.2⟩
    | keysOwn tx => rw [hpc] at hp; exact ⟨hp.1.stable g hij, hp.2⟩
    | keysBase tx own =>
      rw [hpc] at hp
      exact ⟨hp.1.stable g hij, hp.2.1, fun k => (hp.2.2 k).stable g hij hp.1⟩
    | keysContent todo acc =>
      rw [hpc] at hp
      obtain ⟨h1, W, hw, hacc, htodo⟩ := hp
      refine ⟨h1, W, hw, hacc, ?_⟩
      intro v hv
      obtain ⟨hb, hin⟩ := htodo v hv
      refine ⟨Nat.lt_of_lt_of_le hb fr.nextCid, ?_⟩
      intro hs
      apply hin
      rcases fr.content v.cid hb with e | e
      · rw [← e]; exact hs
      · rw [e] at hs; cases hs
    | beginLock t lvl => rw [hpc] at hp; exact ⟨g.owner t j hp.1, hp.2⟩
    | beginUnlock o => rw [hpc] at hp; exact ⟨g.hz j hij hp.1, hp.2⟩
    | commitDereg t => rw [hpc] at hp; exact ⟨allowed_mono g hp.1, hp.2⟩
    | commitRun t => rw [hpc] at hp; exact ⟨allowed_mono g hp.1, hp.2⟩
    | rollbackDereg t => rw [hpc] at hp; exact ⟨allowed_mono g hp.1, hp.2⟩
    | rollbackRun t => rw [hpc] at hp; exact ⟨allowed_mono g hp.1, hp.2⟩
    | gcHorizon => rw [hpc] at hp; exact hp
    | gcCollect hz =>
      rw [hpc] at hp
      have := SafeHz.stable g hp.1 hp.2.1
      exact ⟨this.1, this.2, hp.2.2⟩
    | gcDelete todo => rw [hpc] at hp; exact ⟨hp.1.stable g hij, hp.2⟩
    | workTake => rw [hpc] at hp; exact hp
    | workDelete todo => rw [hpc] at hp; exact ⟨hp.1.stable g hij, hp.2⟩

end FsDb.Conc
