import FsDb.Proofs.ConcInv
import FsDb.Proofs.SortKeys
/-! Every step of every goroutine preserves the invariant of the small-step concurrency model. -/
namespace FsDb.Conc
open FsDb Sys Spec

/-! ### assembling the invariant after a step of thread `i` -/

theorem CInv.of_step {σ σ' : St} {i : Nat} (h : CInv σ) (g : Guar σ σ' i)
    (hthr : ∀ j, j ≠ i → σ'.thr j = σ.thr j)
    (rel : Rx σ'.closing (withBusy σ') (specOf σ')) (outs : (Spec.erun {} (linOps σ'.lin)).2 = linOuts σ'.lin)
    (ti : TInv σ' i (σ'.thr i))
    (lock : ∀ j, σ'.hzLock = some j → ∃ o, (σ'.thr j).pc = .beginUnlock o)
    (cl : ∀ t ∈ σ'.closing, ∃ j, σ'.owner t = some j ∧ ((σ'.thr j).pc = .commitRun t ∨ (σ'.thr j).pc = .rollbackRun t))
    (om : σ'.owner mainTx = none) : CInv σ' := by
  have hplain : ∀ e ∈ σ'.lin, e.2.1.plain = true := by
    obtain ⟨ext, hext, hpl⟩ := g.lin
    intro e he
    rw [hext] at he
    rcases List.mem_append.mp he with he | he
    · exact h.plain e he
    · exact hpl e he
  refine ⟨rel, outs, ?_, lock, cl, om, hplain⟩
  intro j
  by_cases hij : j = i
  · subst hij; exact ti
  · rw [hthr j hij]; exact (h.thr j).stable g hij

theorem lock_keep {σ σ' : St} {i : Nat} (h : CInv σ) (hthr : ∀ j, j ≠ i → σ'.thr j = σ.thr j)
    (hz : σ'.hzLock = σ.hzLock) (hnot : ∀ o, (σ.thr i).pc ≠ .beginUnlock o) :
    ∀ j, σ'.hzLock = some j → ∃ o, (σ'.thr j).pc = .beginUnlock o := by
  intro j hj; rw [hz] at hj
  obtain ⟨o, ho⟩ := h.lock j hj
  by_cases hij : j = i
  · subst hij; exact absurd ho (hnot o)
  · exact ⟨o, by rw [hthr j hij]; exact ho⟩

/-- thread `i` is not at the second step of Commit / Rollback -/
def notClosingPc (pc : Pc) : Prop := ∀ t, pc ≠ .commitRun t ∧ pc ≠ .rollbackRun t

theorem closing_keep {σ σ' : St} {i : Nat} (h : CInv σ) (hthr : ∀ j, j ≠ i → σ'.thr j = σ.thr j)
    (hc : σ'.closing = σ.closing) (ho : ∀ t j, σ.owner t = some j → σ'.owner t = some j)
    (hnot : notClosingPc (σ.thr i).pc) :
    ∀ t ∈ σ'.closing, ∃ j, σ'.owner t = some j ∧ ((σ'.thr j).pc = .commitRun t ∨ (σ'.thr j).pc = .rollbackRun t) := by
  intro t ht; rw [hc] at ht
  obtain ⟨j, hj, hp⟩ := h.closing t ht
  refine ⟨j, ho t j hj, ?_⟩
  have hij : j ≠ i := by
    intro e; subst e
    rcases hp with hp | hp
    · exact (hnot t).1 hp
    · exact (hnot t).2 hp
  rw [hthr j hij]; exact hp

/-- a transaction that thread `i` may use is not inside Commit / Rollback unless `i` itself is there -/
theorem not_closing {σ : St} {i t : Nat} (h : CInv σ) (ha : allowed σ i t = true)
    (hnot : notClosingPc (σ.thr i).pc) : t ∉ σ.closing := by
  intro hin
  obtain ⟨j, hj, hp⟩ := h.closing t hin
  simp only [allowed, Bool.or_eq_true, decide_eq_true_eq] at ha
  rcases ha with ha | ha
  · subst ha; rw [h.ownerMain] at hj; cases hj
  · rw [ha] at hj
    have : i = j := Option.some.inj hj
    subst this
    rcases hp with hp | hp
    · exact (hnot t).1 hp
    · exact (hnot t).2 hp

theorem setThr_other (σ : St) (i : Nat) (th : Thread) {j : Nat} (hij : j ≠ i) : (σ.setThr i th).thr j = σ.thr j := by
  simp [St.setThr, hij]

theorem setThr_self (σ : St) (i : Nat) (th : Thread) : (σ.setThr i th).thr i = th := by
  simp [St.setThr]

theorem allowed_main (σ : St) (i : Nat) : allowed σ i mainTx = true := by simp [allowed]

/-! ### steps that change nothing shared -/

theorem Guar.local (σ : St) (i : Nat) (th : Thread) : Guar σ (σ.setThr i th) i :=
  ⟨⟨mainTx, allowed_main σ i, Frame.rfl' _ _⟩, fun _ _ h => h, ⟨[], by simp [St.setThr], by simp⟩, fun _ _ _ h => h, fun _ _ h => h,
   fun _ h => Or.inl h⟩

/-- a purely local step: new program counter, ghost fields kept -/
theorem goto_inv {σ : St} {i : Nat} (h : CInv σ) (pc' : Pc)
    (hnot : ∀ o, (σ.thr i).pc ≠ .beginUnlock o) (hnc : notClosingPc (σ.thr i).pc)
    (hp : PcInv σ i (σ.thr i) pc') : CInv (σ.goto i pc') := by
  refine h.of_step (Guar.local σ i _) (fun j hij => setThr_other σ i _ hij) h.rel h.outs ?_
    (lock_keep h (fun j hij => setThr_other σ i _ hij) rfl hnot)
    (closing_keep h (fun j hij => setThr_other σ i _ hij) rfl (fun _ _ h => h) hnc) h.ownerMain
  have ht := h.thr i
  show TInv (σ.goto i pc') i ((σ.goto i pc').thr i)
  rw [show (σ.goto i pc').thr i = { σ.thr i with pc := pc' } from setThr_self σ i _]
  exact ⟨ht.invLe, ht.wit, hp⟩

/-- the return assertion from "the witness is the returned value" -/
theorem ret_of_wit {σ : St} {i : Nat} {th : Thread} {o : Out} (h : th.wit = some o) : PcInv σ i th (.ret o) :=
  ⟨fun _ => h, fun ks e => ⟨ks, by rw [h, e], fun _ hk => hk⟩⟩

/-- a read-only linearization point -/
theorem witness_inv {σ : St} {i : Nat} (h : CInv σ) (pc' : Pc) (w : Out)
    (hnot : ∀ o, (σ.thr i).pc ≠ .beginUnlock o) (hnc : notClosingPc (σ.thr i).pc)
    (hsem : WitSem σ i { σ.thr i with wit := some w, witAt := σ.lin.length } w)
    (hp : PcInv σ i { σ.thr i with wit := some w } pc') : CInv (σ.witness i pc' w) := by
  refine h.of_step (Guar.local σ i _) (fun j hij => setThr_other σ i _ hij) h.rel h.outs ?_
    (lock_keep h (fun j hij => setThr_other σ i _ hij) rfl hnot)
    (closing_keep h (fun j hij => setThr_other σ i _ hij) rfl (fun _ _ h => h) hnc) h.ownerMain
  have ht := h.thr i
  show TInv (σ.witness i pc' w) i ((σ.witness i pc' w).thr i)
  rw [show (σ.witness i pc' w).thr i = { σ.thr i with pc := pc', wit := some w, witAt := σ.lin.length } from setThr_self σ i _]
  refine ⟨ht.invLe, ?_, hp⟩
  intro w' hw'
  have : w' = w := by simpa using hw'.symm
  subst this
  exact ⟨ht.invLe, Nat.le_refl _, hsem⟩

/-- the witness of a `Get` taken now is the specification's answer now -/
theorem get_witness {σ : St} {i : Nat} (h : CInv σ) {t : Nat} {k : Key} (hop : (σ.thr i).op = some (.get t k))
    (hcl : t ∉ σ.closing) :
    WitSem σ i { σ.thr i with wit := some (σ.sys.get t k), witAt := σ.lin.length } (σ.sys.get t k) := by
  simp only [WitSem, hop]
  rw [specAt_length, ← get_eq h.rel t k hcl]
  rfl

theorem keys_witness {σ : St} {i : Nat} (h : CInv σ) {t : Nat} (hop : (σ.thr i).op = some (.keys t))
    (hcl : t ∉ σ.closing) :
    WitSem σ i { σ.thr i with wit := some (σ.sys.getKeys t), witAt := σ.lin.length } (σ.sys.getKeys t) := by
  simp only [WitSem, hop]
  rw [specAt_length, ← getKeys_eq h.rel t hcl]
  rfl

/-! ### state-changing linearization points -/

theorem linearize_spec (σ : St) (i : Nat) (sys' : Sys) (op : Op) (w : Out) (pc : Pc) :
    specOf (σ.linearize i sys' op w pc) = (Spec.step (specOf σ) op).1 ∧
    (Spec.erun {} (linOps (σ.linearize i sys' op w pc).lin)).2 =
      (Spec.erun {} (linOps σ.lin)).2 ++ [(Spec.step (specOf σ) op).2] := by
  have := spec_erun_append {} (linOps σ.lin) op
  have e : linOps (σ.linearize i sys' op w pc).lin = linOps σ.lin ++ [.op op] := by
    simp [St.linearize, linOps]
  unfold specOf
  rw [e]
  exact this

def notRead : Op → Bool
  | .get _ _ => false
  | .keys _ => false
  | _ => true

/-- a state-changing linearization point of thread `i`: the shared state moves to `sys'` and
    `(op, w)` is logged, where `sys'`/`w` are what the specification step justifies -/
theorem linearize_inv {σ : St} {i : Nat} (h : CInv σ) (sys' : Sys) (op : Op) (w : Out) (pc' : Pc)
    (hz' : Option Nat) (cl' : List Nat)
    (hop : (σ.thr i).op = some op) (hnr : notRead op = true) (hpl : plainOp op = true)
    (hR : Rx cl' (withB (σ.busy.map (·.2)) sys') (Spec.step (specOf σ) op).1)
    (hw : w = (Spec.step (specOf σ) op).2)
    (fr : ∃ t, allowed σ i t = true ∧ Frame σ.sys sys' t)
    (hhz : ∀ j, j ≠ i → σ.hzLock = some j → hz' = some j)
    (lock : ∀ j, hz' = some j → ∃ o, (({ σ.linearize i sys' op w pc' with hzLock := hz', closing := cl' } : St).thr j).pc = .beginUnlock o)
    (hgc : ∀ t ∈ σ.closing, t ∈ cl' ∨ ∀ r ∈ sys'.reg, r.id ≠ t)
    (hcl : ∀ t ∈ cl', ∃ j, σ.owner t = some j ∧
      ((({ σ.linearize i sys' op w pc' with hzLock := hz', closing := cl' } : St).thr j).pc = .commitRun t ∨
       (({ σ.linearize i sys' op w pc' with hzLock := hz', closing := cl' } : St).thr j).pc = .rollbackRun t))
    (hp : PcInv { σ.linearize i sys' op w pc' with hzLock := hz', closing := cl' } i { σ.thr i with wit := some w } pc') :
    CInv { σ.linearize i sys' op w pc' with hzLock := hz', closing := cl' } := by
  have hthr : ∀ j, j ≠ i → ({ σ.linearize i sys' op w pc' with hzLock := hz', closing := cl' } : St).thr j = σ.thr j := by
    intro j hij; simp [St.linearize, hij]
  have g : Guar σ { σ.linearize i sys' op w pc' with hzLock := hz', closing := cl' } i :=
    ⟨fr, fun _ _ h => h, ⟨[(i, .op op, w)], rfl, by simpa [EOp.plain] using hpl⟩, fun _ _ _ h => h, hhz, hgc⟩
  obtain ⟨hs1, hs2⟩ := linearize_spec σ i sys' op w pc'
  refine h.of_step g hthr ?_ ?_ ?_ lock hcl h.ownerMain
  · show Rx cl' (withB (σ.busy.map (·.2)) sys') (specOf (σ.linearize i sys' op w pc'))
    rw [hs1]; exact hR
  · show (Spec.erun {} (linOps (σ.linearize i sys' op w pc').lin)).2 = linOuts (σ.linearize i sys' op w pc').lin
    rw [hs2, h.outs, hw]
    simp [St.linearize, linOuts, List.filterMap_append]
  · have ht := h.thr i
    show TInv _ i (({ σ.linearize i sys' op w pc' with hzLock := hz', closing := cl' } : St).thr i)
    rw [show ({ σ.linearize i sys' op w pc' with hzLock := hz', closing := cl' } : St).thr i
          = { σ.thr i with pc := pc', wit := some w, witAt := σ.lin.length + 1 } by simp [St.linearize]]
    have hlen : ({ σ.linearize i sys' op w pc' with hzLock := hz', closing := cl' } : St).lin.length = σ.lin.length + 1 := by
      simp [St.linearize]
    refine ⟨by rw [hlen]; exact Nat.le_succ_of_le ht.invLe, ?_, hp⟩
    intro w' hw'
    have : w' = w := by simpa using hw'.symm
    subst this
    refine ⟨Nat.le_succ_of_le ht.invLe, by rw [hlen]; exact Nat.le_refl _, ?_⟩
    simp only [WitSem, hop]
    have hlast : ({ σ.linearize i sys' op w' pc' with hzLock := hz', closing := cl' } : St).lin[σ.lin.length + 1 - 1]? = some (i, .op op, w') := by
      simp [St.linearize]
    cases op <;> simp only [notRead] at hnr <;> first | exact ⟨Nat.lt_succ_of_le ht.invLe, hlast⟩ | cases hnr

/-- the closing-set side conditions of `linearize_inv` for a step that leaves the set alone -/
theorem closing_same {σ : St} {i : Nat} (h : CInv σ) (sys' : Sys) (op : Op) (w : Out) (pc' : Pc) (hz' : Option Nat)
    (hnc : notClosingPc (σ.thr i).pc) :
    (∀ t ∈ σ.closing, t ∈ σ.closing ∨ ∀ r ∈ sys'.reg, r.id ≠ t) ∧
    (∀ t ∈ σ.closing, ∃ j, σ.owner t = some j ∧
      ((({ σ.linearize i sys' op w pc' with hzLock := hz', closing := σ.closing } : St).thr j).pc = .commitRun t ∨
       (({ σ.linearize i sys' op w pc' with hzLock := hz', closing := σ.closing } : St).thr j).pc = .rollbackRun t)) := by
  refine ⟨fun _ h => Or.inl h, ?_⟩
  exact closing_keep (σ' := { σ.linearize i sys' op w pc' with hzLock := hz', closing := σ.closing }) h
    (fun j hij => by simp [St.linearize, hij]) rfl (fun _ _ h => h) hnc

end FsDb.Conc

namespace FsDb.Conc
open FsDb Sys Spec

/-! ### the operations that are one atomic step of the sequential model -/

def isMut : Op → Bool
  | .begin _ _ | .set _ _ _ | .del _ _ | .commit _ | .rollback _ => true
  | _ => false

theorem withB_step (b : List (List Ver)) (s : Sys) (op : Op) (hm : isMut op = true) :
    (withB b s).step op = (withB b (s.step op).1, (s.step op).2) := by
  cases op <;> simp only [isMut] at hm <;> try cases hm
  · exact withB_begin b s _ _
  · exact withB_set b s _ _ _
  · exact withB_del b s _ _
  · exact withB_commit b s _
  · exact withB_rollback b s _

theorem isMut_core {op : Op} (hm : isMut op = true) : op.core = true := by
  cases op <;> simp_all [isMut, Op.core]

theorem isMut_notRead {op : Op} (hm : isMut op = true) : notRead op = true := by
  cases op <;> simp_all [isMut, notRead]

/-- an atomic operation on the shared state is justified by the specification step -/
theorem isMut_reads {op : Op} (hm : isMut op = true) : ∀ t, op.reads = some t → t ∉ ([] : List Nat) := by
  cases op <;> simp_all [isMut, Op.reads]

theorem op_R {σ : St} (h : CInv σ) (op : Op) (hm : isMut op = true) :
    Rx σ.closing (withB (σ.busy.map (·.2)) (σ.sys.step op).1) (Spec.step (specOf σ) op).1 ∧
    (σ.sys.step op).2 = (Spec.step (specOf σ) op).2 := by
  have := Refine.stepX h.rel op (isMut_core hm) (by cases op <;> simp_all [isMut, Op.reads])
  unfold withBusy at this
  rw [withB_step _ _ _ hm] at this
  exact ⟨this.2, this.1⟩

theorem inv_sys {σ : St} (h : CInv σ) : Inv σ.sys := by
  have i := h.rel.inv
  exact ⟨i.mainSorted, i.txSorted, i.allSorted, i.allMem, i.bounds, i.cidUnique, i.regIds, i.regMain,
    i.regSorted, i.regBound, i.txsReg, i.ownAfter, i.beginNotVer, i.stor, i.cfsBound,
    fun job hj => i.pendDead job (List.mem_append_right _ hj),
    fun job hj => i.pendBound job (List.mem_append_right _ hj), i.domAll, i.domNodup, i.tagMain, i.tagTx⟩

/-! ### `core.Get` in two critical sections reads what the atomic model reads -/

theorem newer_le (f m : Ver) (h : f.seq ≤ m.seq) : Sys.newer (some f) (some m) = some m := by
  simp [Sys.newer]; omega

theorem coreGet_of_own {s : Sys} {tx : TxRec} {k : Key} {own : Option Ver}
    (hreg : s.regGet tx.id = some tx) (ho : OwnOk s tx k own) :
    Sys.newer own (baseRead s tx k) = s.coreGet tx k := by
  obtain ⟨h1, h2, h3⟩ := ho
  have hmain : tx.id = mainTx → tx.level = .rc := by
    intro e
    rw [e, regGet_main] at hreg
    have := Option.some.inj hreg
    rw [← this]
  unfold baseRead Sys.coreGet
  cases hl : tx.level with
  | ru => simp only []; rw [h1 hl]; rfl
  | rc =>
    simp only []
    have hne : tx.level ≠ .ru := by rw [hl]; intro e; cases e
    by_cases hm : tx.id = mainTx
    · have hown : s.ownLatest tx.id k = latest (s.main k) := by simp [Sys.ownLatest, Sys.txStore, hm]
      rw [hown, newer_self]
      cases hown' : own with
      | none => rfl
      | some f =>
        obtain ⟨m, hm1, hm2⟩ := h3 hne hm f hown'
        rw [hm1]; exact newer_le f m hm2
    · rw [h2 hne hm]
  | rr =>
    simp only []
    have hne : tx.level ≠ .ru := by rw [hl]; intro e; cases e
    have hm : tx.id ≠ mainTx := by intro e; have := hmain e; rw [hl] at this; cases this
    rw [h2 hne hm]
  | ser =>
    simp only []
    have hne : tx.level ≠ .ru := by rw [hl]; intro e; cases e
    have hm : tx.id ≠ mainTx := by intro e; have := hmain e; rw [hl] at this; cases this
    rw [h2 hne hm]

theorem get_unfold {s : Sys} {tx : TxRec} {k : Key} (hreg : s.regGet tx.id = some tx) :
    s.get tx.id k = match s.coreGet tx k with
      | none => .err .notFound
      | some v => match s.hasContent v.cid with
        | none => .err .notFound
        | some c => .val c := by
  unfold Sys.get; rw [hreg]; rfl

/-- the first critical section of `core.Get` establishes `OwnOk` -/
theorem ownOk_now {s : Sys} (i : Inv s) (tx : TxRec) (k : Key) : OwnOk s tx k (ownRead s tx k) := by
  unfold ownRead
  refine ⟨?_, ?_, ?_⟩
  · intro hl; rw [hl]
  · intro hl _
    cases hlv : tx.level <;> first | exact absurd hlv hl | rfl
  · intro hl hm f hf
    have : s.ownLatest tx.id k = some f := by
      cases hlv : tx.level <;> rw [hlv] at hf <;> first | exact absurd hlv hl | exact hf
    have hown : s.ownLatest tx.id k = latest (s.main k) := by simp [Sys.ownLatest, Sys.txStore, hm]
    rw [hown] at this
    exact ⟨f, this, Nat.le_refl _⟩

end FsDb.Conc

namespace FsDb.Conc
open FsDb Sys Spec

/-! ### GetKeys: what its two list reads establish -/

theorem lookupKV_filterMap (s : Sys) (tx : TxRec) (l : List Key) (k : Key) :
    lookupKV (l.filterMap (fun k' => (ownRead s tx k').map (fun v => (k', v)))) k
      = if k ∈ l then ownRead s tx k else none := by
  induction l with
  | nil => rfl
  | cons a l ih =>
    simp only [List.filterMap_cons]
    cases hr : ownRead s tx a with
    | none =>
      simp only [Option.map_none]
      rw [ih]
      by_cases hka : k = a
      · subst hka; simp [hr]
      · simp [hka]
    | some v =>
      simp only [Option.map_some]
      by_cases hka : k = a
      · subst hka; simp [lookupKV, hr]
      · have : ¬ a = k := fun e => hka e.symm
        simp only [lookupKV, List.find?_cons, this, decide_false, List.mem_cons, hka, false_or] at ih ⊢
        exact ih

theorem ownRead_none_of_not_dom {s : Sys} (i : Inv s) (tx : TxRec) {k : Key} (hk : k ∉ s.dom) : ownRead s tx k = none := by
  have hall : s.all k = [] := by
    cases h : s.all k with
    | nil => rfl
    | cons a l => exact absurd (i.domAll k (by rw [h]; simp)) hk
  unfold ownRead
  cases tx.level <;> try rfl
  all_goals
    unfold Sys.ownLatest Sys.txStore
    by_cases hm : tx.id = mainTx
    · simp only [hm, if_true]
      cases hl : s.main k with
      | nil => rfl
      | cons a l =>
        have : a ∈ s.all k := i.main_sub_all (by rw [hl]; simp)
        rw [hall] at this; cases this
    · simp only [hm, if_false]
      cases hst : s.txs tx.id with
      | none => rfl
      | some st =>
        simp only []
        cases hl : st k with
        | nil => rfl
        | cons a l =>
          have : a ∈ s.all k := i.tx_sub_all hst (by rw [hl]; simp)
          rw [hall] at this; cases this

theorem kOwnOk_now {s : Sys} (i : Inv s) (tx : TxRec) :
    KOwnOk s tx (s.dom.filterMap (fun k => (ownRead s tx k).map (fun v => (k, v)))) := by
  intro k
  rw [lookupKV_filterMap]
  by_cases hk : k ∈ s.dom
  · simp only [hk, if_true]; exact ownOk_now i tx k
  · simp only [hk, if_false]
    have := ownOk_now i tx k
    rw [ownRead_none_of_not_dom i tx hk] at this
    exact this

theorem getKeys_unfold {s : Sys} {tx : TxRec} (hreg : s.regGet tx.id = some tx) :
    s.getKeys tx.id = .keys (sortKeys (s.dom.filter (s.listed tx))) := by
  unfold Sys.getKeys; rw [hreg]

/-- after its two list reads GetKeys holds, for every key of the domain, the version the atomic model
    reads, and every one of them that still has its content record is listed by the atomic GetKeys -/
theorem keysOk_now {s : Sys} (i : Inv s) {tx : TxRec} {own : List (Key × Ver)}
    (hreg : s.regGet tx.id = some tx) (ho : KOwnOk s tx own) :
    KeysOk s (some (s.getKeys tx.id)) (s.dom.filterMap (fun k => Sys.newer (lookupKV own k) (baseRead s tx k))) [] := by
  refine ⟨_, by rw [getKeys_unfold hreg], (fun k hk => by cases hk), ?_⟩
  intro v hv
  obtain ⟨k, hk, hkv⟩ := List.mem_filterMap.mp hv
  rw [coreGet_of_own hreg (ho k)] at hkv
  have hvall : v ∈ s.all k := coreGet_mem i tx k hkv
  have hb := i.bounds k v hvall
  refine ⟨hb.2.2.1, ?_⟩
  intro hs
  rw [mem_sortKeys, List.mem_filter]
  rw [hb.2.2.2]
  refine ⟨hk, ?_⟩
  simp only [Sys.listed, hkv]
  exact hs

end FsDb.Conc
