import FsDb.Proofs.StepCommit
/-! `Commit` preserves the refinement relation: the step theorem. -/
namespace FsDb
open Sys Spec

theorem written_eq {c : Sys} {s : State} {cl : List Nat} (h : Rx cl c s) {x : STx} (hx : x ∈ s.open_) {st : Store}
    (hst : c.txs x.id = some st) :
    writtenS (Spec.close s x.id).dom x.own = cWritten c st := by
  show s.dom.filter _ = c.dom.filter _
  rw [h.dom]
  apply List.filter_congr
  intro k _
  have hne : x.id ≠ mainTx := h.inv.regMain _ (h.mem_open hx)
  rw [h.own x hx k, ownLatest_tx hne, hst]
  simp only
  cases hl : Sys.latest (st k) with
  | none => simp [latest_none hl]
  | some v => simp [List.ne_nil_of_mem (latest_mem hl)]

theorem conflict_eq {c : Sys} {s : State} {cl : List Nat} (h : Rx cl c s) {x : STx} (hx : x ∈ s.open_) {tx : TxRec} {st : Store}
    (hst : c.txs x.id = some st) (hl : x.level = tx.level) (hb : x.beginStamp = tx.seq) :
    conflictS (Spec.close s x.id) x = Sys.conflictOf tx c.dom c.main st := by
  unfold conflictS Sys.conflictOf
  rw [written_eq h hx hst, hl, hb]
  congr 2
  funext k
  have : committed (Spec.close s x.id) k = committed s k := rfl
  rw [this, committed_eq h k]
  cases Sys.latest (c.main k) <;> simp [absV]

/-- the state `UpdateTx` leaves when nothing is published -/
def dropState (c : Sys) (t : Nat) (st : Store) : Sys :=
  { c with reg := c.reg.filter (·.id ≠ t), txs := fun t' => if t' = t then none else c.txs t',
           all := removeLinks c.all (cLasts c st ++ cOlds c st) }

theorem dropState_pending_R {c : Sys} {s : State} {cl : List Nat} (h : Rx cl c s) {t : Nat} {st : Store} (hst : c.txs t = some st)
    (job : List Ver) (hj : ∀ v ∈ job, v ∈ cLasts c st ++ cOlds c st) :
    Rx cl (if job.isEmpty then dropState c t st else { dropState c t st with pending := (dropState c t st).pending ++ [job] })
      (Spec.close s t) := by
  have hr := isStoreOf_commit h.inv hst
  have i' := discard_inv h.inv hst hr hj
  have hR : Rx cl (discardG c t (cLasts c st ++ cOlds c st) job) (Spec.close s t) :=
    close_R_of_inv h t _ i' rfl rfl rfl rfl (fun t' ht' => by simp [discardG, ht'])
  have e : discardG c t (cLasts c st ++ cOlds c st) job
      = if job.isEmpty then dropState c t st else { dropState c t st with pending := (dropState c t st).pending ++ [job] } := by
    unfold discardG dropState
    split <;> rfl
  rw [← e]; exact hR

theorem updateTx_none {c : Sys} {tx : TxRec} (h : c.txs tx.id = none) : c.updateTx tx = (c, [], true) := by
  simp only [Sys.updateTx, h]

theorem updateTx_some {c : Sys} {tx : TxRec} {st : Store} (h : c.txs tx.id = some st) :
    c.updateTx tx =
      if Sys.conflictOf tx c.dom c.main st then
        ({ c with txs := fun t' => if t' = tx.id then none else c.txs t',
                  all := removeLinks c.all (cLasts c st ++ cOlds c st) }, cOlds c st ++ cLasts c st, false)
      else if (cLasts c st).isEmpty then
        ({ c with txs := fun t' => if t' = tx.id then none else c.txs t',
                  all := removeLinks c.all (cLasts c st ++ cOlds c st) }, cOlds c st, true)
      else
        ({ c with txs := fun t' => if t' = tx.id then none else c.txs t',
                  counter := c.counter + 1,
                  main := fun k => c.main k ++ ((cLasts c st).map (Sys.retag (c.counter + 1))).filter (·.key = k),
                  all := fun k => removeLinks c.all (cLasts c st ++ cOlds c st) k ++
                          ((cLasts c st).map (Sys.retag (c.counter + 1))).filter (·.key = k),
                  recs := c.recs.map (fun r => match ((cLasts c st).map (Sys.retag (c.counter + 1))).find? (·.cid = r.cid) with
                            | some p => p | none => r) }, cOlds c st, true) := by
  simp only [Sys.updateTx, h]
  rfl

theorem sys_commit_found {c : Sys} {t : Nat} {tx : TxRec} (htm : t ≠ mainTx)
    (hf : c.reg.find? (·.id = t) = some tx) :
    c.commit t =
      (if (({ c with reg := c.reg.filter (·.id ≠ t) } : Sys).updateTx tx).2.1.isEmpty
        then (({ c with reg := c.reg.filter (·.id ≠ t) } : Sys).updateTx tx).1
        else { (({ c with reg := c.reg.filter (·.id ≠ t) } : Sys).updateTx tx).1 with
                pending := (({ c with reg := c.reg.filter (·.id ≠ t) } : Sys).updateTx tx).1.pending
                  ++ [(({ c with reg := c.reg.filter (·.id ≠ t) } : Sys).updateTx tx).2.1] },
       if (({ c with reg := c.reg.filter (·.id ≠ t) } : Sys).updateTx tx).2.2 then .ok else .err .txSerialization) := by
  simp only [Sys.commit, htm, if_false, hf]

theorem spec_commit_found {s : State} {t : Nat} {x : STx} (htm : t ≠ mainTx) (hf : find s t = some x) :
    Spec.commit s t =
      if conflictS (Spec.close s t) x then (Spec.close s t, .err .txSerialization)
      else if (writtenS (Spec.close s t).dom x.own).isEmpty then (Spec.close s t, .ok)
      else (publishS (Spec.close s t) x, .ok) := by
  simp only [Spec.commit, htm, if_false, hf]

/-- uniqueness of registered ids -/
theorem reg_unique {c : Sys} (i : Inv c) {r r' : TxRec} (hr : r ∈ c.reg) (hr' : r' ∈ c.reg) (he : r.id = r'.id) : r = r' := by
  obtain ⟨j, hj, rfl⟩ := List.getElem_of_mem hr
  obtain ⟨j', hj', rfl⟩ := List.getElem_of_mem hr'
  rcases Nat.lt_trichotomy j j' with hlt | heq | hgt
  · exact absurd he ((List.pairwise_iff_getElem.mp i.regIds) j j' hj hj' hlt)
  · subst heq; rfl
  · exact absurd he.symm ((List.pairwise_iff_getElem.mp i.regIds) j' j hj' hj hgt)

/-- R for the published state -/
theorem publish_R {c : Sys} {s : State} {cl : List Nat} (h : Rx cl c s) {x : STx} (hx : x ∈ s.open_) {st : Store}
    (hst : c.txs x.id = some st) (recs' : List Ver) :
    Rx cl (pubState c x.id st recs') (publishS (Spec.close s x.id) x) := by
  have i := h.inv
  have hr := isStoreOf_commit i hst
  have i2 := discard_inv i hst hr (job := cOlds c st) olds_subset
  have hR2 : Rx cl (discardG c x.id (cLasts c st ++ cOlds c st) (cOlds c st)) (Spec.close s x.id) :=
    close_R_of_inv h x.id _ i2 rfl rfl rfl rfl (fun t' ht' => by simp [discardG, ht'])
  have hw := written_eq h hx hst
  refine ⟨publish_inv i hst recs', ?_, h.dom, close_reg h x.id, ?_, ?_, ?_⟩
  · show s.clock + 1 = c.counter + 1; rw [h.clock]
  · intro y hy k
    have hy' : y ∈ s.open_ := mem_of_filter hy
    have hney : y.id ≠ mainTx := i.regMain _ (h.mem_open hy')
    have := hR2.own y hy k
    rw [ownLatest_tx hney] at this ⊢
    exact this
  · intro k
    obtain ⟨pre, g1, g2, g3⟩ := h.hist k
    have hne : x.id ≠ mainTx := i.regMain _ (h.mem_open hx)
    have hownk : x.own k = (Sys.latest (st k)).map absV := by
      rw [h.own x hx k, ownLatest_tx hne, hst]
    show ∃ pre', (match x.own k with
        | some v => if k ∈ writtenS (Spec.close s x.id).dom x.own then s.hist k ++ [⟨s.clock + 1, v.val⟩] else s.hist k
        | none => s.hist k) = pre' ++ (c.main k ++ pubOf c st k).map absV ∧
        (∀ p ∈ pre', ∀ v ∈ c.main k ++ pubOf c st k, p.stamp < v.seq) ∧
        (pre' ≠ [] → ∃ hd, (c.main k ++ pubOf c st k).head? = some hd ∧ ∀ r ∈ c.reg.filter (·.id ≠ x.id), r.id ∉ cl → hd.seq < r.seq)
    rw [hw]
    cases hl : Sys.latest (st k) with
    | none =>
      have hp : pubOf c st k = [] := by unfold pubOf; rw [hl]
      rw [hownk, hl, hp]
      simp only [Option.map_none, List.append_nil]
      refine ⟨pre, g1, g2, ?_⟩
      intro hp'; obtain ⟨hd, hh, hlt⟩ := g3 hp'
      exact ⟨hd, hh, fun r hr' hc => hlt r (mem_of_filter hr') hc⟩
    | some v =>
      have hp : pubOf c st k = [Sys.retag (c.counter + 1) v] := by unfold pubOf; rw [hl]
      have hkw : k ∈ cWritten c st := (mem_cWritten i hst k).mpr (List.ne_nil_of_mem (latest_mem hl))
      rw [hownk, hl, hp]
      simp only [Option.map_some, hkw, if_true]
      refine ⟨pre, ?_, ?_, ?_⟩
      · rw [g1, h.clock]; simp [absV, Sys.retag]
      · intro p hp' u hu
        simp only [List.mem_append, List.mem_singleton] at hu
        rcases hu with hu | rfl
        · exact g2 p hp' u hu
        · obtain ⟨hd, hh, _⟩ := g3 (List.ne_nil_of_mem hp')
          have hmem : hd ∈ c.main k := by
            cases hm : c.main k with
            | nil => simp [hm] at hh
            | cons a t => simp [hm] at hh; subst hh; simp
          have := g2 p hp' hd hmem
          have := (i.bounds k hd (i.main_sub_all hmem)).2.1
          show p.stamp < c.counter + 1
          omega
      · intro hp'
        obtain ⟨hd, hh, hlt⟩ := g3 hp'
        refine ⟨hd, ?_, fun r hr' hc => hlt r (mem_of_filter hr') hc⟩
        cases hm : c.main k with
        | nil => simp [hm] at hh
        | cons a t => simp [hm] at hh ⊢; exact hh
  · intro k hne
    show k ∈ c.dom
    have hne' : (match x.own k with
        | some v => if k ∈ writtenS (Spec.close s x.id).dom x.own then s.hist k ++ [⟨s.clock + 1, v.val⟩] else s.hist k
        | none => s.hist k) ≠ [] := hne
    rw [hw] at hne'
    by_cases hkw : k ∈ cWritten c st
    · exact (List.mem_filter.mp hkw).1
    · apply h.histDom k
      cases ho : x.own k with
      | none => simpa [ho] using hne'
      | some v => simpa [ho, hkw] using hne'

/-- `Inv` does not look at the version records -/
theorem Inv.congr {a b : Sys} (h : Inv a) (h1 : b.counter = a.counter) (h2 : b.main = a.main)
    (h3 : b.txs = a.txs) (h4 : b.all = a.all) (h5 : b.reg = a.reg) (h6 : b.dom = a.dom)
    (h7 : b.nextCid = a.nextCid) (h8 : b.cfs = a.cfs) (h9 : b.pending = a.pending) : Inv b := by
  cases a; cases b
  simp only at h1 h2 h3 h4 h5 h6 h7 h8 h9
  subst h1 h2 h3 h4 h5 h6 h7 h8 h9
  exact ⟨h.mainSorted, h.txSorted, h.allSorted, h.allMem, h.bounds, h.cidUnique, h.regIds, h.regMain,
    h.regSorted, h.regBound, h.txsReg, h.ownAfter, h.beginNotVer, h.stor, h.cfsBound, h.pendDead,
    h.pendBound, h.domAll, h.domNodup, h.tagMain, h.tagTx⟩

theorem Rx.congr {a b : Sys} {s : State} {cl : List Nat} (h : Rx cl a s) (h1 : b.counter = a.counter) (h2 : b.main = a.main)
    (h3 : b.txs = a.txs) (h4 : b.all = a.all) (h5 : b.reg = a.reg) (h6 : b.dom = a.dom)
    (h7 : b.nextCid = a.nextCid) (h8 : b.cfs = a.cfs) (h9 : b.pending = a.pending) : Rx cl b s :=
  h.transfer (h.inv.congr h1 h2 h3 h4 h5 h6 h7 h8 h9) h1 h6 h5 h2 h3

theorem step_commit {c : Sys} {s : State} {cl : List Nat} (h : Rx cl c s) (t : Nat) :
    (c.commit t).2 = (Spec.commit s t).2 ∧ Rx cl (c.commit t).1 (Spec.commit s t).1 := by
  have i := h.inv
  rcases ctx_cases h t with ⟨h1, h2⟩ | ⟨htm, _, _⟩ | ⟨htm, tx, x, h1, htx, htid, hx, hxid, h2⟩
  · -- unknown transaction
    have htm : t ≠ mainTx := by intro e; subst e; simp [Sys.regGet] at h1
    have hf : c.reg.find? (·.id = t) = none := by simpa [Sys.regGet, htm] using h1
    have hf2 : find s t = none := by
      simp only [ctxOf, htm, if_false, Option.map_eq_none_iff] at h2; exact h2
    simp only [Sys.commit, Spec.commit, htm, if_false, hf, hf2]
    exact ⟨trivial, h⟩
  · simp only [Sys.commit, Spec.commit, htm, if_true]
    exact ⟨trivial, h⟩
  · have hf : c.reg.find? (·.id = t) = some tx := by simpa [Sys.regGet, htm] using h1
    -- the spec finds the same transaction (up to its registry entry)
    obtain ⟨y, hf2⟩ : ∃ y, find s t = some y := by
      cases hfx : find s t with
      | none => simp [ctxOf, htm, hfx] at h2
      | some y => exact ⟨y, rfl⟩
    have hy : y ∈ s.open_ := List.mem_of_find?_eq_some hf2
    have hyid : y.id = t := by simpa using List.find?_some hf2
    have hytx : (⟨y.id, y.level, y.beginStamp⟩ : TxRec) = tx :=
      reg_unique i (h.mem_open hy) htx (hyid.trans htid.symm)
    have hlvl : y.level = tx.level := by rw [← hytx]
    have hbeg : y.beginStamp = tx.seq := by rw [← hytx]
    subst hyid
    rw [sys_commit_found htm hf, spec_commit_found htm hf2]
    cases hst : c.txs y.id with
    | none =>
      have hst' : ({ c with reg := c.reg.filter (·.id ≠ y.id) } : Sys).txs tx.id = none := by
        rw [htid]; exact hst
      rw [updateTx_none hst']
      have hw : writtenS (Spec.close s y.id).dom y.own = [] := by
        unfold writtenS; rw [List.filter_eq_nil_iff]; intro k _
        have hne : y.id ≠ mainTx := htm
        rw [h.own y hy k, ownLatest_tx hne, hst]; simp
      have hc : conflictS (Spec.close s y.id) y = false := by
        unfold conflictS; rw [hw]; simp
      simp only [hc, hw, List.isEmpty_nil, if_true, Bool.false_eq_true, if_false]
      exact ⟨trivial, close_R_of_inv h y.id _ (unregister_inv i y.id hst) rfl rfl rfl rfl (fun _ _ => rfl)⟩
    | some st =>
      have hst' : ({ c with reg := c.reg.filter (·.id ≠ y.id) } : Sys).txs tx.id = some st := by
        rw [htid]; exact hst
      rw [updateTx_some hst', conflict_eq h hy hst hlvl hbeg, written_eq h hy hst]
      have hcf : Sys.conflictOf tx ({ c with reg := c.reg.filter (·.id ≠ y.id) } : Sys).dom
          ({ c with reg := c.reg.filter (·.id ≠ y.id) } : Sys).main st = Sys.conflictOf tx c.dom c.main st := rfl
      rw [hcf]
      by_cases hc : Sys.conflictOf tx c.dom c.main st = true
      · simp only [hc, if_true]
        refine ⟨by simp, ?_⟩
        have := dropState_pending_R h hst (cOlds c st ++ cLasts c st)
          (by intro v hv; simp only [List.mem_append] at hv ⊢; exact hv.symm)
        rw [htid]
        exact this
      · simp only [hc, Bool.false_eq_true, if_false]
        have hle : (cLasts ({ c with reg := c.reg.filter (·.id ≠ y.id) } : Sys) st).isEmpty = (cLasts c st).isEmpty := rfl
        rw [hle]
        by_cases hl : (cLasts c st).isEmpty = true
        · have hwnil : cWritten c st = [] := (cLasts_nil_iff i hst).mp (by simpa using hl)
          simp only [hl, if_true, hwnil, List.isEmpty_nil]
          refine ⟨by simp, ?_⟩
          have := dropState_pending_R h hst (cOlds c st) olds_subset
          rw [htid]
          exact this
        · have hwne : (cWritten c st).isEmpty = false := by
            cases hw : cWritten c st with
            | nil => rw [(cLasts_nil_iff i hst).mpr hw] at hl; simp at hl
            | cons a l => rfl
          simp only [hl, Bool.false_eq_true, if_false, hwne]
          refine ⟨by simp, ?_⟩
          have hpf : ∀ k, ((cLasts c st).map (Sys.retag (c.counter + 1))).filter (fun v => decide (v.key = k)) = pubOf c st k :=
            fun k => pub_filter_key i hst k
          have hR := publish_R h hy hst c.recs
          rw [htid]
          have hmain : ∀ (f : Key → List Ver), (fun k => f k ++ ((cLasts c st).map (Sys.retag (c.counter + 1))).filter (fun v => decide (v.key = k)))
              = fun k => f k ++ pubOf c st k := by intro f; funext k; rw [hpf]
          by_cases he : (cOlds c st).isEmpty = true
          · simp only [he, if_true]
            refine hR.congr rfl ?_ rfl ?_ rfl rfl rfl rfl ?_
            · exact hmain _
            · exact hmain _
            · show c.pending = (if (cOlds c st).isEmpty then c.pending else c.pending ++ [cOlds c st])
              rw [if_pos he]
          · simp only [he, Bool.false_eq_true, if_false]
            refine hR.congr rfl ?_ rfl ?_ rfl rfl rfl rfl ?_
            · exact hmain _
            · exact hmain _
            · show c.pending ++ [cOlds c st] = (if (cOlds c st).isEmpty then c.pending else c.pending ++ [cOlds c st])
              rw [if_neg he]

end FsDb
