import FsDb.Proofs.Reopen
/-!
  The content-record invariant (C14): every fileContent record (and with it every content file)
  belongs to a version that is still linked or to a pending deletion job, no content id has two
  records, and every content record has its version record.  From it: at quiescence the storage
  holds exactly the committed values.
-/
namespace FsDb
open Sys Spec

structure CfsInv (c : Sys) : Prop where
  nodup : (c.cfs.map (·.1)).Nodup
  owned : ∀ p ∈ c.cfs, (∃ k, ∃ v ∈ c.all k, v.cid = p.1) ∨ (∃ job ∈ c.pending, ∃ v ∈ job, v.cid = p.1)
  hasRec : ∀ p ∈ c.cfs, ∃ r ∈ c.recs, r.cid = p.1

theorem CfsInv.init : CfsInv ({} : Sys) := by
  constructor <;> simp

/-! ### deletions -/

theorem delOne_cfs_sub (s : Sys) (v : Ver) (p : Nat × Nat) (h : p ∈ (delOne s v).cfs) : p ∈ s.cfs ∧ p.1 ≠ v.cid ∨ (p ∈ s.cfs ∧ s.hasContent v.cid = none) := by
  unfold delOne at h
  cases hh : s.hasContent v.cid with
  | none => rw [hh] at h; exact Or.inr ⟨h, rfl⟩
  | some n =>
    rw [hh] at h
    have := List.mem_filter.mp h
    exact Or.inl ⟨this.1, by simpa using this.2⟩

theorem hasContent_none_not_mem {s : Sys} {cid : Nat} (h : s.hasContent cid = none) : ∀ p ∈ s.cfs, p.1 ≠ cid := by
  intro p hp he
  unfold Sys.hasContent at h
  simp only [Option.map_eq_none_iff, List.find?_eq_none] at h
  exact h p hp (by simpa using he)

/-- after one `deleteFile` no content record carries that id -/
theorem delOne_cfs_ne (s : Sys) (v : Ver) (p : Nat × Nat) (h : p ∈ (delOne s v).cfs) : p ∈ s.cfs ∧ p.1 ≠ v.cid := by
  rcases delOne_cfs_sub s v p h with h | ⟨h1, h2⟩
  · exact h
  · exact ⟨h1, hasContent_none_not_mem h2 p h1⟩

theorem deleteFiles_cfs (c : Sys) (vs : List Ver) (p : Nat × Nat) (h : p ∈ (c.deleteFiles vs).cfs) :
    p ∈ c.cfs ∧ ∀ v ∈ vs, p.1 ≠ v.cid := by
  rw [deleteFiles_eq] at h
  induction vs generalizing c with
  | nil => exact ⟨h, by intro v hv; cases hv⟩
  | cons v vs ih =>
    simp only [List.foldl_cons] at h
    obtain ⟨h1, h2⟩ := ih (delOne c v) h
    obtain ⟨h3, h4⟩ := delOne_cfs_ne c v p h1
    refine ⟨h3, ?_⟩
    intro u hu
    rcases List.mem_cons.mp hu with rfl | hu
    · exact h4
    · exact h2 u hu

theorem delOne_cfs_sublist (s : Sys) (v : Ver) : List.Sublist (delOne s v).cfs s.cfs := by
  unfold delOne; split
  · exact List.Sublist.refl _
  · exact List.filter_sublist

theorem deleteFiles_cfs_sublist (c : Sys) (vs : List Ver) : List.Sublist (c.deleteFiles vs).cfs c.cfs := by
  rw [deleteFiles_eq]
  induction vs generalizing c with
  | nil => exact List.Sublist.refl _
  | cons v vs ih => exact (ih (delOne c v)).trans (delOne_cfs_sublist c v)

/-- a record survives a deletion run unless its id is named -/
theorem deleteFiles_recs_keep' (c : Sys) (vs : List Ver) (r : Ver) (h : r ∈ c.recs) (hne : ∀ v ∈ vs, r.cid ≠ v.cid) :
    r ∈ (c.deleteFiles vs).recs := deleteFiles_recs_keep c vs r h hne

/-- deleting a list of versions: what stays was not named -/
theorem CfsInv.deleteFiles {c : Sys} (h : CfsInv c) (vs : List Ver) :
    (c.cfs.map (·.1)).Nodup ∧
    ((c.deleteFiles vs).cfs.map (·.1)).Nodup ∧
    (∀ p ∈ (c.deleteFiles vs).cfs, ∃ r ∈ (c.deleteFiles vs).recs, r.cid = p.1) := by
  refine ⟨h.nodup, ?_, ?_⟩
  · exact List.Nodup.sublist ((deleteFiles_cfs_sublist c vs).map _) h.nodup
  · intro p hp
    obtain ⟨hp1, hp2⟩ := deleteFiles_cfs c vs p hp
    obtain ⟨r, hr, hrc⟩ := h.hasRec p hp1
    exact ⟨r, deleteFiles_recs_keep c vs r hr (fun v hv => by rw [hrc]; exact hp2 v hv), hrc⟩

/-! ### ownership moves, it is never dropped -/

/-- the general step: content records unchanged, every linked version stays linked (same content id)
    or moves to a pending job, pending jobs stay, records keep their ids -/
theorem CfsInv.transfer {a b : Sys} (h : CfsInv a) (hcfs : b.cfs = a.cfs)
    (hown : ∀ k, ∀ v ∈ a.all k, (∃ k', ∃ w ∈ b.all k', w.cid = v.cid) ∨ (∃ job ∈ b.pending, ∃ w ∈ job, w.cid = v.cid))
    (hpend : ∀ job ∈ a.pending, job ∈ b.pending)
    (hrec : ∀ r ∈ a.recs, ∃ r' ∈ b.recs, r'.cid = r.cid) : CfsInv b := by
  refine ⟨by rw [hcfs]; exact h.nodup, ?_, ?_⟩
  · intro p hp
    rw [hcfs] at hp
    rcases h.owned p hp with ⟨k, v, hv, hc⟩ | ⟨job, hj, v, hv, hc⟩
    · rcases hown k v hv with ⟨k', w, hw, hwc⟩ | ⟨job, hj, w, hw, hwc⟩
      · exact Or.inl ⟨k', w, hw, hwc.trans hc⟩
      · exact Or.inr ⟨job, hj, w, hw, hwc.trans hc⟩
    · exact Or.inr ⟨job, hpend job hj, v, hv, hc⟩
  · intro p hp
    rw [hcfs] at hp
    obtain ⟨r, hr, hrc⟩ := h.hasRec p hp
    obtain ⟨r', hr', hrc'⟩ := hrec r hr
    exact ⟨r', hr', hrc'.trans hrc⟩

theorem removeLinks_cases {all : Store} {vs : List Ver} {k : Key} {v : Ver} (hv : v ∈ all k) :
    v ∈ removeLinks all vs k ∨ ∃ w ∈ vs, w.cid = v.cid := by
  by_cases h : vs.any (fun x => x.cid = v.cid) = true
  · right
    obtain ⟨w, hw, hc⟩ := List.any_eq_true.mp h
    exact ⟨w, hw, by simpa using hc⟩
  · left
    exact mem_removeLinks.mpr ⟨hv, by
      intro w hw hc
      exact h (List.any_eq_true.mpr ⟨w, hw, by simpa using hc⟩)⟩

theorem CfsInv.begin {c : Sys} (h : CfsInv c) (t : Nat) (lvl : Level) : CfsInv (c.begin t lvl).1 := by
  unfold Sys.begin
  split
  · exact h
  · exact h.transfer rfl (fun k v hv => Or.inl ⟨k, v, hv, rfl⟩) (fun _ hj => hj) (fun r hr => ⟨r, hr, rfl⟩)

/-! ### writes -/

theorem CfsInv.store {c : Sys} (i : Inv c) (h : CfsInv c) (extra : List (Nat × Nat)) (t : Nat) (k : Key) (val : Option Nat)
    (hx : ExtraOk c val extra) : CfsInv (afterStore c extra t k val) := by
  have hall := after_all c extra t k val
  have hrecs : (afterStore c extra t k val).recs = c.recs ++ [storedVer (preStore c extra) t k c.nextCid val] := by
    unfold afterStore; rw [coreStore_recs]; rfl
  have hold : ∀ k', ∀ v ∈ c.all k', v ∈ (afterStore c extra t k val).all k' := by
    intro k' v hv
    rw [hall]
    by_cases hk : k' = k
    · subst hk; rw [upd_same]; exact List.mem_append_left _ hv
    · rw [upd_other _ _ hk]; exact hv
  refine ⟨?_, ?_, ?_⟩
  · rw [after_cfs, List.map_append, List.nodup_append]
    refine ⟨h.nodup, ?_, ?_⟩
    · rcases hx with ⟨_, rfl⟩ | ⟨n, _, rfl⟩ <;> simp
    · intro a ha b hb
      obtain ⟨p, hp, rfl⟩ := List.mem_map.mp ha
      rcases hx with ⟨_, rfl⟩ | ⟨n, _, rfl⟩
      · simp at hb
      · simp at hb; subst hb
        have := i.cfsBound p hp
        omega
  · intro p hp
    rw [after_cfs] at hp
    rw [after_pending]
    rcases List.mem_append.mp hp with hp | hp
    · rcases h.owned p hp with ⟨k', v, hv, hc⟩ | hr
      · exact Or.inl ⟨k', v, hold k' v hv, hc⟩
      · exact Or.inr hr
    · rcases hx with ⟨_, rfl⟩ | ⟨n, _, rfl⟩
      · cases hp
      · simp only [List.mem_singleton] at hp; subst hp
        refine Or.inl ⟨k, newVer c t k val, ?_, rfl⟩
        rw [hall, upd_same]; simp
  · intro p hp
    rw [after_cfs] at hp
    rw [hrecs]
    rcases List.mem_append.mp hp with hp | hp
    · obtain ⟨r, hr, hc⟩ := h.hasRec p hp
      exact ⟨r, List.mem_append_left _ hr, hc⟩
    · rcases hx with ⟨_, rfl⟩ | ⟨n, _, rfl⟩
      · cases hp
      · simp only [List.mem_singleton] at hp; subst hp
        exact ⟨storedVer (preStore c [(c.nextCid, n)]) t k c.nextCid val, List.mem_append_right _ (by simp), rfl⟩

theorem CfsInv.set {c : Sys} (i : Inv c) (h : CfsInv c) (t : Nat) (k : Key) (n : Nat) : CfsInv (c.set t k n).1 := by
  unfold Sys.set
  split
  · exact h
  · split
    · exact h
    · exact CfsInv.store i h [(c.nextCid, n)] t k (some n) (Or.inr ⟨n, rfl, rfl⟩)

theorem CfsInv.del {c : Sys} (i : Inv c) (h : CfsInv c) (t : Nat) (k : Key) : CfsInv (c.del t k).1 := by
  unfold Sys.del
  split
  · exact h
  · have hpre : ({ c with nextCid := c.nextCid + 1 } : Sys).coreStore t k c.nextCid none = afterStore c [] t k none := by
      simp [afterStore, preStore]
    simp only [hpre]
    exact CfsInv.store i h [] t k none (Or.inl ⟨rfl, rfl⟩)

/-! ### commit and rollback -/

/-- what `UpdateTx` does to ownership -/
theorem updateTx_own {c : Sys} (i : Inv c) (reg' : List TxRec) (tx : TxRec) :
    let r := ({ c with reg := reg' } : Sys).updateTx tx
    r.1.cfs = c.cfs ∧ r.1.pending = c.pending ∧
    (∀ k, ∀ v ∈ c.all k, (∃ k', ∃ w ∈ r.1.all k', w.cid = v.cid) ∨ (∃ w ∈ r.2.1, w.cid = v.cid)) ∧
    (∀ rr ∈ c.recs, ∃ r' ∈ r.1.recs, r'.cid = rr.cid) := by
  intro r
  cases hst : c.txs tx.id with
  | none =>
    have : ({ c with reg := reg' } : Sys).txs tx.id = none := hst
    have hr : r = ({ c with reg := reg' }, [], true) := updateTx_none this
    rw [hr]
    exact ⟨rfl, rfl, fun k v hv => Or.inl ⟨k, v, hv, rfl⟩, fun rr hrr => ⟨rr, hrr, rfl⟩⟩
  | some st =>
    have hst' : ({ c with reg := reg' } : Sys).txs tx.id = some st := hst
    have hr := updateTx_some hst'
    show r.1.cfs = c.cfs ∧ _
    rw [show r = _ from hr]
    split
    · refine ⟨rfl, rfl, ?_, fun rr hrr => ⟨rr, hrr, rfl⟩⟩
      intro k v hv
      rcases removeLinks_cases (vs := cLasts c st ++ cOlds c st) hv with h | ⟨w, hw, hc⟩
      · exact Or.inl ⟨k, v, h, rfl⟩
      · exact Or.inr ⟨w, by simp only [List.mem_append] at hw ⊢; exact hw.symm, hc⟩
    · split
      · rename_i hl
        refine ⟨rfl, rfl, ?_, fun rr hrr => ⟨rr, hrr, rfl⟩⟩
        intro k v hv
        rcases removeLinks_cases (vs := cLasts c st ++ cOlds c st) hv with h | ⟨w, hw, hc⟩
        · exact Or.inl ⟨k, v, h, rfl⟩
        · have hnil : cLasts ({ c with reg := reg' } : Sys) st = [] := by simpa using hl
          have hnil' : cLasts c st = [] := hnil
          rw [hnil', List.nil_append] at hw
          exact Or.inr ⟨w, hw, hc⟩
      · refine ⟨rfl, rfl, ?_, ?_⟩
        · intro k v hv
          rcases removeLinks_cases (vs := cLasts c st ++ cOlds c st) hv with h | ⟨w, hw, hc⟩
          · exact Or.inl ⟨k, v, List.mem_append_left _ h, rfl⟩
          · rcases List.mem_append.mp hw with hw | hw
            · refine Or.inl ⟨w.key, Sys.retag (c.counter + 1) w, ?_, hc⟩
              refine List.mem_append_right _ (List.mem_filter.mpr ⟨List.mem_map.mpr ⟨w, hw, rfl⟩, ?_⟩)
              simp [retag_key]
            · exact Or.inr ⟨w, hw, hc⟩
        · intro rr hrr
          refine ⟨_, List.mem_map.mpr ⟨rr, hrr, rfl⟩, ?_⟩
          cases hf : ((cLasts c st).map (Sys.retag (c.counter + 1))).find? (·.cid = rr.cid) with
          | some p => simpa using List.find?_some hf
          | none => rfl

theorem CfsInv.commit {c : Sys} (i : Inv c) (h : CfsInv c) (t : Nat) : CfsInv (c.commit t).1 := by
  unfold Sys.commit
  split
  · exact h
  · split
    · exact h
    · rename_i tx _
      obtain ⟨h1, h2, h3, h4⟩ := updateTx_own i (c.reg.filter (·.id ≠ t)) tx
      simp only
      split
      · rename_i he
        refine h.transfer h1 ?_ (by rw [h2]; exact fun _ hj => hj) h4
        intro k v hv
        rcases h3 k v hv with hl | ⟨w, hw, _⟩
        · exact Or.inl hl
        · have : (({ c with reg := c.reg.filter (·.id ≠ t) } : Sys).updateTx tx).2.1 = [] := by simpa using he
          rw [this] at hw; cases hw
      · refine h.transfer h1 ?_ ?_ h4
        · intro k v hv
          rcases h3 k v hv with hl | ⟨w, hw, hc⟩
          · exact Or.inl hl
          · exact Or.inr ⟨_, List.mem_append_right _ (by simp), w, hw, hc⟩
        · intro job hj
          show job ∈ _ ++ [_]
          rw [h2]; exact List.mem_append_left _ hj

theorem CfsInv.rollback {c : Sys} (h : CfsInv c) (t : Nat) : CfsInv (c.rollback t).1 := by
  unfold Sys.rollback
  split
  · exact h
  · split
    · exact h
    · simp only
      split
      · exact h.transfer rfl (fun k v hv => Or.inl ⟨k, v, hv, rfl⟩) (fun _ hj => hj) (fun r hr => ⟨r, hr, rfl⟩)
      · rename_i st _
        simp only
        split
        · rename_i he
          refine h.transfer rfl ?_ (fun _ hj => hj) (fun r hr => ⟨r, hr, rfl⟩)
          intro k v hv
          rcases removeLinks_cases (vs := c.dom.flatMap (fun k => st k)) hv with hl | ⟨w, hw, _⟩
          · exact Or.inl ⟨k, v, hl, rfl⟩
          · have hnil : c.dom.flatMap (fun k => st k) = [] := by simpa [Sys.dropTxStore] using he
            rw [hnil] at hw; cases hw
        · refine h.transfer rfl ?_ (fun job hj => List.mem_append_left _ hj) (fun r hr => ⟨r, hr, rfl⟩)
          intro k v hv
          rcases removeLinks_cases (vs := c.dom.flatMap (fun k => st k)) hv with hl | ⟨w, hw, hc⟩
          · exact Or.inl ⟨k, v, hl, rfl⟩
          · exact Or.inr ⟨_, List.mem_append_right _ (List.mem_singleton.mpr rfl), w, hw, hc⟩

/-! ### collector, worker pool, reopen -/

theorem CfsInv.gc {c : Sys} (i : Inv c) (h : CfsInv c) : CfsInv (c.gc).1 := by
  rw [gc_eq]
  obtain ⟨_, _, _, f4, _, _, _, f8⟩ := deleteFiles_fields (gcMid c) (gcDels c)
  have hm : CfsInv (gcMid c) → True := fun _ => trivial
  refine ⟨?_, ?_, ?_⟩
  · exact List.Nodup.sublist ((deleteFiles_cfs_sublist (gcMid c) (gcDels c)).map _) h.nodup
  · intro p hp
    obtain ⟨hp1, hp2⟩ := deleteFiles_cfs (gcMid c) (gcDels c) p hp
    rw [f4, f8]
    rcases h.owned p hp1 with ⟨k, v, hv, hc⟩ | hr
    · left
      refine ⟨k, v, ?_, hc⟩
      show v ∈ removeLinks c.all (gcDels c) k
      rcases removeLinks_cases (vs := gcDels c) hv with hl | ⟨w, hw, hwc⟩
      · exact hl
      · exact absurd (hc.symm.trans hwc.symm) (hp2 w hw)
    · exact Or.inr hr
  · intro p hp
    obtain ⟨hp1, hp2⟩ := deleteFiles_cfs (gcMid c) (gcDels c) p hp
    obtain ⟨r, hr, hrc⟩ := h.hasRec p hp1
    exact ⟨r, deleteFiles_recs_keep (gcMid c) (gcDels c) r hr (fun v hv => by rw [hrc]; exact hp2 v hv), hrc⟩

theorem jobs_cfs (c : Sys) (jobs : List (List Ver)) (p : Nat × Nat)
    (h : p ∈ (jobs.foldl (fun s job => s.deleteFiles job) c).cfs) : p ∈ c.cfs ∧ ∀ job ∈ jobs, ∀ v ∈ job, p.1 ≠ v.cid := by
  induction jobs generalizing c with
  | nil => exact ⟨h, by intro j hj; cases hj⟩
  | cons j js ih =>
    simp only [List.foldl_cons] at h
    obtain ⟨h1, h2⟩ := ih (c.deleteFiles j) h
    obtain ⟨h3, h4⟩ := deleteFiles_cfs c j p h1
    refine ⟨h3, ?_⟩
    intro job hj v hv
    rcases List.mem_cons.mp hj with rfl | hj
    · exact h4 v hv
    · exact h2 job hj v hv

theorem jobs_cfs_sublist (c : Sys) (jobs : List (List Ver)) :
    List.Sublist (jobs.foldl (fun s job => s.deleteFiles job) c).cfs c.cfs := by
  induction jobs generalizing c with
  | nil => exact List.Sublist.refl _
  | cons j js ih => exact (ih (c.deleteFiles j)).trans (deleteFiles_cfs_sublist c j)

theorem jobs_recs_keep (c : Sys) (jobs : List (List Ver)) (r : Ver) (h : r ∈ c.recs)
    (hne : ∀ job ∈ jobs, ∀ v ∈ job, r.cid ≠ v.cid) : r ∈ (jobs.foldl (fun s job => s.deleteFiles job) c).recs := by
  induction jobs generalizing c with
  | nil => exact h
  | cons j js ih =>
    simp only [List.foldl_cons]
    exact ih (c.deleteFiles j) (deleteFiles_recs_keep c j r h (hne j (by simp))) (fun job hj => hne job (List.mem_cons_of_mem _ hj))

theorem jobs_all (c : Sys) (jobs : List (List Ver)) : (jobs.foldl (fun s job => s.deleteFiles job) c).all = c.all := by
  induction jobs generalizing c with
  | nil => rfl
  | cons j js ih =>
    simp only [List.foldl_cons]
    rw [ih]; exact (deleteFiles_fields c j).2.2.2.1

theorem CfsInv.drain {c : Sys} (h : CfsInv c) : CfsInv (c.drain).1 := by
  unfold Sys.drain
  refine ⟨?_, ?_, ?_⟩
  · exact List.Nodup.sublist ((jobs_cfs_sublist c c.pending).map _) h.nodup
  · intro p hp
    obtain ⟨hp1, hp2⟩ := jobs_cfs c c.pending p hp
    left
    show ∃ k, ∃ v ∈ (c.pending.foldl (fun s job => s.deleteFiles job) c).all k, v.cid = p.1
    rw [jobs_all]
    rcases h.owned p hp1 with hl | ⟨job, hj, v, hv, hc⟩
    · exact hl
    · exact absurd hc.symm (hp2 job hj v hv)
  · intro p hp
    obtain ⟨hp1, hp2⟩ := jobs_cfs c c.pending p hp
    obtain ⟨r, hr, hrc⟩ := h.hasRec p hp1
    exact ⟨r, jobs_recs_keep c c.pending r hr (fun job hj v hv => by rw [hrc]; exact hp2 job hj v hv), hrc⟩

theorem CfsInv.reopen {c : Sys} (i : Inv c) (h : CfsInv c) (f : Bool) : CfsInv (c.reopen f).1 := by
  rw [reopen_eq]
  refine ⟨h.nodup, ?_, h.hasRec⟩
  intro p hp
  obtain ⟨r, hr, hrc⟩ := h.hasRec p hp
  by_cases hk : (c.dom.filterMap (winner c)).any (fun w => w.cid = r.cid) = true
  · left
    obtain ⟨w, hw, hc⟩ := List.any_eq_true.mp hk
    obtain ⟨k, _, hwk⟩ := List.mem_filterMap.mp hw
    refine ⟨k, w, ?_, (by simpa using hc : w.cid = r.cid).trans hrc⟩
    show w ∈ (winner c k).toList
    rw [hwk]; simp
  · right
    have hmem : r ∈ c.recs.filter (fun r => ¬ (c.dom.filterMap (winner c)).any (fun w => w.cid = r.cid)) :=
      List.mem_filter.mpr ⟨hr, by simpa using hk⟩
    have hne : (c.recs.filter (fun r => ¬ (c.dom.filterMap (winner c)).any (fun w => w.cid = r.cid))).isEmpty = false := by
      cases hl : c.recs.filter (fun r => ¬ (c.dom.filterMap (winner c)).any (fun w => w.cid = r.cid)) with
      | nil => rw [hl] at hmem; cases hmem
      | cons a l => rfl
    have hjob : c.recs.filter (fun r => ¬ (c.dom.filterMap (winner c)).any (fun w => w.cid = r.cid)) ∈
        (if (c.recs.filter (fun r => ¬ (c.dom.filterMap (winner c)).any (fun w => w.cid = r.cid))).isEmpty then []
         else [c.recs.filter (fun r => ¬ (c.dom.filterMap (winner c)).any (fun w => w.cid = r.cid))]) := by
      rw [if_neg (by rw [hne]; exact Bool.false_ne_true)]
      exact List.mem_singleton.mpr rfl
    exact ⟨_, hjob, r, hmem, hrc⟩

theorem CfsInv.stepI {c : Sys} (hi : Inv c) (ci : CfsInv c) (op : Op) : CfsInv (c.step op).1 := by
  cases op with
  | begin t l => exact ci.begin t l
  | set t k n => exact CfsInv.set hi ci t k n
  | del t k => exact CfsInv.del hi ci t k
  | get t k => exact ci
  | keys t => exact ci
  | commit t => exact CfsInv.commit hi ci t
  | rollback t => exact ci.rollback t
  | gc => exact CfsInv.gc hi ci
  | drain => exact ci.drain
  | reopen f => exact CfsInv.reopen hi ci f
  | tree => exact ci

theorem CfsInv.step {c : Sys} {s : State} (h : R c s) (ci : CfsInv c) (op : Op) : CfsInv (c.step op).1 :=
  CfsInv.stepI h.inv ci op

/-- the three invariants along every history (reopenings and storage walks included) -/
theorem reach_all {c : Sys} {s : State} (h : R c s) (ri : RecInv c) (ci : CfsInv c) (ops : List Op) :
    (∀ op ∈ ops, op.total = true ∨ op = .tree) →
    R (c.run ops).1 (Spec.run s ops).1 ∧ RecInv (c.run ops).1 ∧ CfsInv (c.run ops).1 := by
  induction ops generalizing c s with
  | nil => intro _; exact ⟨h, ri, ci⟩
  | cons op ops ih =>
    intro hops
    have hci := CfsInv.step h ci op
    simp only [Sys.run, Spec.run]
    rcases hops op (by simp) with hop | rfl
    · have hs := Refine.step_all h ri op hop
      exact ih hs.2.1 hs.2.2 hci (fun o ho => hops o (List.mem_cons_of_mem _ ho))
    · exact ih h ri ci (fun o ho => hops o (List.mem_cons_of_mem _ ho))

/-! ### quiescence: the storage holds exactly the committed values -/

theorem find_of_mem_nodup {l : List (Nat × Nat)} (hn : (l.map (·.1)).Nodup) {p : Nat × Nat} (hp : p ∈ l) :
    l.find? (fun q => decide (q.1 = p.1)) = some p := by
  induction l with
  | nil => cases hp
  | cons a l ih =>
    simp only [List.map_cons, List.nodup_cons] at hn
    rcases List.mem_cons.mp hp with rfl | hp
    · simp
    · have hne : ¬ a.1 = p.1 := by
        intro e; exact hn.1 (List.mem_map.mpr ⟨p, hp, e.symm⟩)
      rw [List.find?_cons_of_neg (by simpa using hne)]
      exact ih hn.2 hp

/-- **Quiescent storage.**  No transaction open, nothing pending, every key holding at most its
    newest version (the state after `drain; gc`): the content records -- one content file each --
    are exactly the committed values of the keys that have one. -/
theorem quiescent_tree {c : Sys} {s : State} (h : R c s) (ci : CfsInv c)
    (hreg : c.reg = []) (hpend : c.pending = []) (hone : ∀ k, c.main k = (Sys.latest (c.main k)).toList) :
    c.tree = (Spec.step s .tree).2 := by
  have i := h.inv
  have hnotx : ∀ t, c.txs t = none := by
    intro t
    cases ht : c.txs t with
    | none => rfl
    | some st =>
      obtain ⟨_, r, hr, _⟩ := i.txsReg t st ht
      rw [hreg] at hr; cases hr
  have hallmain : ∀ k v, v ∈ c.all k → v ∈ c.main k := by
    intro k v hv
    rcases (i.allMem k v).mp hv with hm | ⟨t, st, ht, _⟩
    · exact hm
    · rw [hnotx t] at ht; cases ht
  -- the live contents, as (content id, content number) pairs
  let B : List (Nat × Nat) := c.dom.filterMap (fun k => (Sys.latest (c.main k)).bind (fun v => v.val.map (fun n => (v.cid, n))))
  have hBmem : ∀ p, p ∈ B ↔ ∃ k v, k ∈ c.dom ∧ Sys.latest (c.main k) = some v ∧ v.val = some p.2 ∧ v.cid = p.1 := by
    intro p
    constructor
    · intro hp
      obtain ⟨k, hk, hb⟩ := List.mem_filterMap.mp hp
      cases hl : Sys.latest (c.main k) with
      | none => rw [hl] at hb; cases hb
      | some v =>
        rw [hl] at hb
        simp only [Option.bind_some, Option.map_eq_some_iff] at hb
        obtain ⟨n, hn, rfl⟩ := hb
        exact ⟨k, v, hk, hl, hn, rfl⟩
    · rintro ⟨k, v, hk, hl, hv, hc⟩
      refine List.mem_filterMap.mpr ⟨k, hk, ?_⟩
      rw [hl]
      show (v.val.map (fun n => (v.cid, n))) = some p
      rw [hv, hc]; rfl
  have hmem : ∀ p, p ∈ c.cfs ↔ p ∈ B := by
    intro p
    rw [hBmem]
    constructor
    · intro hp
      rcases ci.owned p hp with ⟨k, v, hv, hc⟩ | ⟨job, hj, _⟩
      · have hvm := hallmain k v hv
        rw [hone k] at hvm
        cases hl : Sys.latest (c.main k) with
        | none => rw [hl] at hvm; cases hvm
        | some L =>
          rw [hl] at hvm; simp at hvm; subst hvm
          have hst := i.stor k v hv
          have hf : c.hasContent v.cid = some p.2 := by
            unfold Sys.hasContent
            rw [hc, find_of_mem_nodup ci.nodup hp]; rfl
          rw [hf] at hst
          exact ⟨k, v, i.domAll k (List.ne_nil_of_mem hv), hl, hst.symm, hc⟩
      · rw [hpend] at hj; cases hj
    · rintro ⟨k, v, _, hl, hv, hc⟩
      have hvall := i.main_sub_all (latest_mem hl)
      have hst := i.stor k v hvall
      rw [hv] at hst
      unfold Sys.hasContent at hst
      simp only [Option.map_eq_some_iff] at hst
      obtain ⟨q, hq, hq2⟩ := hst
      have hqm := List.mem_of_find?_eq_some hq
      have hq1 : q.1 = v.cid := by simpa using List.find?_some hq
      have : q = p := Prod.ext (hq1.trans hc) hq2
      rw [← this]; exact hqm
  have hBnodup : B.Nodup := by
    have hmapnd : (B.map (·.1)).Nodup := by
      -- distinct keys have distinct newest versions, hence distinct content ids
      have : B.map (·.1) = c.dom.filterMap (fun k => (Sys.latest (c.main k)).bind (fun v => v.val.map (fun _ => v.cid))) := by
        simp only [B, List.map_filterMap]
        apply filterMap_congr'
        intro k _
        cases Sys.latest (c.main k) with
        | none => rfl
        | some v =>
          simp only [Option.bind_some, Option.map_map]
          cases v.val <;> rfl
      rw [this]
      apply List.Pairwise.filterMap (R := fun a b => a ≠ b) _ _ i.domNodup
      intro k k' hkk a ha a' ha' haa
      subst haa
      cases hl : Sys.latest (c.main k) with
      | none => rw [hl] at ha; cases ha
      | some v =>
        cases hl' : Sys.latest (c.main k') with
        | none => rw [hl'] at ha'; cases ha'
        | some v' =>
          rw [hl] at ha; rw [hl'] at ha'
          simp only [Option.bind_some, Option.map_eq_some_iff] at ha ha'
          obtain ⟨_, _, rfl⟩ := ha
          obtain ⟨_, _, hcc⟩ := ha'
          have hva := i.main_sub_all (latest_mem hl)
          have hva' := i.main_sub_all (latest_mem hl')
          have := i.cidUnique k' k v' v hva' hva hcc
          subst this
          exact hkk (((i.bounds k v' hva).2.2.2).symm.trans (i.bounds k' v' hva').2.2.2)
    exact List.Pairwise.of_map (·.1) (fun a b hab e => hab (by rw [e])) hmapnd
  have hAnodup : c.cfs.Nodup := List.Pairwise.of_map (·.1) (fun a b hab e => hab (by rw [e])) ci.nodup
  have hperm : c.cfs.Perm B := (List.perm_ext_iff_of_nodup hAnodup hBnodup).mpr hmem
  have hvals : (c.cfs.map (·.2)).Perm (s.dom.filterMap (fun k => (committed s k).bind (·.val))) := by
    have h1 := hperm.map (·.2)
    have h2 : B.map (·.2) = s.dom.filterMap (fun k => (committed s k).bind (·.val)) := by
      simp only [B, List.map_filterMap]
      rw [h.dom]
      apply filterMap_congr'
      intro k _
      rw [committed_eq h k]
      cases Sys.latest (c.main k) with
      | none => rfl
      | some v => cases hv : v.val <;> simp [absV, hv]
    rw [← h2]; exact h1
  show Out.files _ = Out.files _
  congr 1
  apply List.Perm.eq_of_pairwise (le := fun a b => decide (a ≤ b) = true)
  · intro a b _ _ h1 h2
    have h1' : a ≤ b := by simpa using h1
    have h2' : b ≤ a := by simpa using h2
    omega
  · exact List.pairwise_mergeSort (fun a b c h1 h2 => by simp at *; omega) (fun a b => by simp; omega) _
  · exact List.pairwise_mergeSort (fun a b c h1 h2 => by simp at *; omega) (fun a b => by simp; omega) _
  · exact ((List.mergeSort_perm _ _).trans hvals).trans (List.mergeSort_perm _ _).symm

end FsDb
