import FsDb.Proofs.StepClean
/-! Garbage collection (`cleaner.DeleteOld`) is invisible: it preserves the refinement relation. -/
namespace FsDb
open Sys Spec


def gcDels (c : Sys) : List Ver := c.dom.flatMap (fun k => (collect (c.main k) (gcHz c)).1)

/-- the state after the logical part of a collection pass (lists updated, nothing deleted yet) -/
def gcMid (c : Sys) : Sys :=
  { c with counter := (match c.reg.head? with | some _ => c.counter | none => c.counter + 1),
           main := fun k => (collect (c.main k) (gcHz c)).2,
           all := removeLinks c.all (gcDels c) }

theorem gc_eq (c : Sys) : (c.gc).1 = (gcMid c).deleteFiles (gcDels c) := by
  unfold Sys.gc gcMid gcDels gcHz
  cases c.reg.head? <;> rfl

theorem SortedSeq.disjoint_append {a b : List Ver} (h : SortedSeq (a ++ b)) {u : Ver} (h1 : u ∈ a) (h2 : u ∈ b) : False := by
  unfold SortedSeq at h
  rw [List.pairwise_append] at h
  have := h.2.2 u h1 u h2
  omega

theorem mem_gcDels {c : Sys} (i : Inv c) (v : Ver) :
    v ∈ gcDels c ↔ ∃ k, v ∈ (collect (c.main k) (gcHz c)).1 := by
  unfold gcDels
  rw [List.mem_flatMap]
  constructor
  · rintro ⟨k, _, hv⟩; exact ⟨k, hv⟩
  · rintro ⟨k, hv⟩
    refine ⟨k, ?_, hv⟩
    apply i.domAll
    exact List.ne_nil_of_mem (i.main_sub_all ((collect_fst_sublist _ _).subset hv))

theorem gcMid_mem_all {c : Sys} (i : Inv c) (k : Key) (u : Ver) :
    u ∈ (gcMid c).all k ↔ u ∈ c.all k ∧ ∀ k', u ∉ (collect (c.main k') (gcHz c)).1 := by
  show u ∈ removeLinks c.all (gcDels c) k ↔ _
  rw [mem_removeLinks]
  constructor
  · rintro ⟨hu, hne⟩
    refine ⟨hu, ?_⟩
    intro k' hk'
    exact hne u ((mem_gcDels i u).mpr ⟨k', hk'⟩) rfl
  · rintro ⟨hu, hne⟩
    refine ⟨hu, ?_⟩
    intro v hv he
    obtain ⟨k', hk'⟩ := (mem_gcDels i v).mp hv
    have hvall : v ∈ c.all k' := i.main_sub_all ((collect_fst_sublist _ _).subset hk')
    have := i.cidUnique k' k v u hvall hu he
    subst this
    exact hne k' hk'

theorem gcMid_inv {c : Sys} (i : Inv c) : Inv (gcMid c) := by
  have hsub : ∀ k u, u ∈ (gcMid c).all k → u ∈ c.all k := fun k u hu => ((gcMid_mem_all i k u).mp hu).1
  have hmsub : ∀ k u, u ∈ (gcMid c).main k → u ∈ c.main k := fun k u hu => (collect_snd_sublist _ _).subset hu
  have hcnt : c.counter ≤ (gcMid c).counter := by
    show c.counter ≤ (match c.reg.head? with | some _ => c.counter | none => c.counter + 1)
    cases c.reg.head? <;> simp
  constructor
  · intro k; exact List.Pairwise.sublist (collect_snd_sublist _ _) (i.mainSorted k)
  · exact i.txSorted
  · intro k; exact (i.allSorted k).filter _
  · -- allMem
    intro k u
    rw [gcMid_mem_all i]
    unfold Live
    show _ ↔ (u ∈ (collect (c.main k) (gcHz c)).2 ∨ ∃ t st, c.txs t = some st ∧ u ∈ st k)
    constructor
    · rintro ⟨hu, hne⟩
      rcases (i.allMem k u).mp hu with hm | htx
      · left
        have happ := collect_append (c.main k) (gcHz c)
        rw [← happ, List.mem_append] at hm
        rcases hm with hm | hm
        · exact absurd hm (hne k)
        · exact hm
      · exact Or.inr htx
    · rintro (hm | ⟨t, st, hst, hu⟩)
      · have hmain := (collect_snd_sublist _ _).subset hm
        refine ⟨i.main_sub_all hmain, ?_⟩
        intro k' hk'
        have hmain' := (collect_fst_sublist _ _).subset hk'
        have e1 := (i.bounds k u (i.main_sub_all hmain)).2.2.2
        have e2 := (i.bounds k' u (i.main_sub_all hmain')).2.2.2
        have : k' = k := e2.symm.trans e1
        subst this
        have hs := i.mainSorted k'
        rw [← collect_append (c.main k') (gcHz c)] at hs
        exact hs.disjoint_append hk' hm
      · refine ⟨i.tx_sub_all hst hu, ?_⟩
        intro k' hk'
        have hmain' := (collect_fst_sublist _ _).subset hk'
        have h1 := i.tagMain k' u hmain'
        have h2 := i.tagTx t st hst k u hu
        have := (i.txsReg t st hst).1
        rw [h1] at h2; exact this h2.symm
  · intro k u hu
    obtain ⟨a, b, c', d⟩ := i.bounds k u (hsub k u hu)
    exact ⟨a, Nat.le_trans b hcnt, c', d⟩
  · intro k k' u u' hu hu' he; exact i.cidUnique k k' u u' (hsub k u hu) (hsub k' u' hu') he
  · exact i.regIds
  · exact i.regMain
  · exact i.regSorted
  · intro r hr; have := i.regBound r hr; exact ⟨this.1, Nat.le_trans this.2 hcnt⟩
  · exact i.txsReg
  · exact i.ownAfter
  · intro r hr k u hu; exact i.beginNotVer r hr k u (hsub k u hu)
  · intro k u hu; exact i.stor k u (hsub k u hu)
  · exact i.cfsBound
  · intro job hj v hv k w hw; exact i.pendDead job hj v hv k w (hsub k w hw)
  · exact i.pendBound
  · intro k hne
    apply i.domAll
    intro hnil
    apply hne
    show removeLinks c.all (gcDels c) k = []
    simp [removeLinks, hnil]
  · exact i.domNodup
  · intro k u hu; exact i.tagMain k u (hmsub k u hu)
  · exact i.tagTx

theorem reg_head_min {c : Sys} (i : Inv c) {hd : TxRec} (hh : c.reg.head? = some hd) :
    ∀ r ∈ c.reg, hd.seq ≤ r.seq := by
  intro r hr
  cases hreg : c.reg with
  | nil => rw [hreg] at hh; cases hh
  | cons a rs =>
    rw [hreg] at hh hr
    simp at hh; subst hh
    simp only [List.mem_cons] at hr
    rcases hr with rfl | hr
    · exact Nat.le_refl _
    · have := i.regSorted
      rw [hreg] at this
      exact Nat.le_of_lt (List.rel_of_pairwise_cons this hr)

theorem open_empty_iff {c : Sys} {s : State} {cl : List Nat} (h : Rx cl c s) : s.open_.isEmpty = c.reg.head?.isNone := by
  have := h.reg
  cases ho : s.open_ <;> cases hr : c.reg <;> simp_all

theorem gcMid_R {c : Sys} {s : State} {cl : List Nat} (h : Rx cl c s) : Rx cl (gcMid c) (Spec.step s .gc).1 := by
  have i := h.inv
  have i' := gcMid_inv i
  have hspec : (Spec.step s .gc).1 = if s.open_.isEmpty then { s with clock := s.clock + 1 } else s := rfl
  rw [hspec]
  have hrest : ∀ (s' : State), s'.dom = s.dom → s'.open_ = s.open_ → s'.hist = s.hist →
      s'.clock = (gcMid c).counter → Rx cl (gcMid c) s' := by
    intro s' hd ho hh hc
    refine ⟨i', hc, by rw [hd]; exact h.dom, by rw [ho]; exact h.reg, ?_, ?_, ?_⟩
    · intro x hx k
      rw [ho] at hx
      have hne : x.id ≠ mainTx := i.regMain _ (h.mem_open hx)
      rw [h.own x hx k, ownLatest_tx hne, ownLatest_tx hne]
      rfl
    · intro k
      rw [hh]
      obtain ⟨pre, h1, h2, h3⟩ := h.hist k
      have happ := collect_append (c.main k) (gcHz c)
      refine ⟨pre ++ (collect (c.main k) (gcHz c)).1.map absV, ?_, ?_, ?_⟩
      · show s.hist k = _ ++ (collect (c.main k) (gcHz c)).2.map absV
        rw [h1, List.append_assoc, ← List.map_append, happ]
      · intro p hp v hv
        have hv' : v ∈ (collect (c.main k) (gcHz c)).2 := hv
        simp only [List.mem_append, List.mem_map] at hp
        rcases hp with hp | ⟨u, hu, rfl⟩
        · exact h2 p hp v ((collect_snd_sublist _ _).subset hv')
        · have hs := i.mainSorted k
          rw [← happ] at hs
          unfold SortedSeq at hs
          rw [List.pairwise_append] at hs
          exact hs.2.2 u hu v hv'
      · intro hp
        show ∃ hd, (collect (c.main k) (gcHz c)).2.head? = some hd ∧ ∀ r ∈ c.reg, r.id ∉ cl → hd.seq < r.seq
        by_cases hc1 : (collect (c.main k) (gcHz c)).1 = []
        · have hpre : pre ≠ [] := by simpa [hc1] using hp
          have h2eq : (collect (c.main k) (gcHz c)).2 = c.main k := by
            rw [hc1] at happ; simpa using happ
          rw [h2eq]; exact h3 hpre
        · obtain ⟨hd, hh', hle⟩ := collect_head_le (c.main k) (gcHz c) hc1
          refine ⟨hd, hh', ?_⟩
          intro r hr _
          have hdmem : hd ∈ c.main k := by
            apply (collect_snd_sublist (c.main k) (gcHz c)).subset
            cases hc2 : (collect (c.main k) (gcHz c)).2 with
            | nil => rw [hc2] at hh'; cases hh'
            | cons a t => rw [hc2] at hh'; simp at hh'; subst hh'; simp
          have hne := i.beginNotVer r hr k hd (i.main_sub_all hdmem)
          cases hhead : c.reg.head? with
          | none =>
            cases hreg : c.reg with
            | nil => rw [hreg] at hr; cases hr
            | cons a rs => rw [hreg] at hhead; cases hhead
          | some tx =>
            have hmin := reg_head_min i hhead r hr
            have hz : gcHz c = tx.seq := by unfold gcHz; rw [hhead]
            have htxmem : tx ∈ c.reg := by
              cases hreg : c.reg with
              | nil => rw [hreg] at hhead; cases hhead
              | cons a rs => rw [hreg] at hhead; simp at hhead; subst hhead; simp
            have hne2 := i.beginNotVer tx htxmem k hd (i.main_sub_all hdmem)
            omega
    · intro k hne; rw [hh] at hne; exact h.histDom k hne
  have he := open_empty_iff h
  cases hhead : c.reg.head? with
  | none =>
    have : s.open_.isEmpty = true := by rw [he, hhead]; rfl
    rw [if_pos this]
    refine hrest { s with clock := s.clock + 1 } rfl rfl rfl ?_
    show s.clock + 1 = (match c.reg.head? with | some _ => c.counter | none => c.counter + 1)
    rw [hhead, h.clock]
  | some tx =>
    have : s.open_.isEmpty = false := by rw [he, hhead]; rfl
    rw [if_neg (by simp [this])]
    refine hrest s rfl rfl rfl ?_
    show s.clock = (match c.reg.head? with | some _ => c.counter | none => c.counter + 1)
    rw [hhead, h.clock]

theorem step_gc {c : Sys} {s : State} {cl : List Nat} (h : Rx cl c s) :
    (c.gc).2 = (Spec.step s .gc).2 ∧ Rx cl (c.gc).1 (Spec.step s .gc).1 := by
  refine ⟨rfl, ?_⟩
  rw [gc_eq]
  apply deleteFiles_R (gcMid_R h)
  intro v hv k w hw
  have := (mem_removeLinks.mp (show w ∈ removeLinks c.all (gcDels c) k from hw)).2 v hv
  exact fun e => this e.symm

end FsDb
