import FsDb.Spec.Iso
import FsDb.Proofs.SortKeys
/-! Invariants of the abstract specification itself (independent of the concrete model). -/
namespace FsDb.Spec
open FsDb

structure SInv (s : State) : Prop where
  stampsLe : ∀ k, ∀ v ∈ s.hist k, v.stamp ≤ s.clock
  histSorted : ∀ k, (s.hist k).Pairwise (fun a b => a.stamp < b.stamp)
  openIds : s.open_.Pairwise (fun a b => a.id ≠ b.id)
  openMain : ∀ t ∈ s.open_, t.id ≠ mainTx
  beginLe : ∀ t ∈ s.open_, t.beginStamp ≤ s.clock
  domNodup : s.dom.Nodup
  histDom : ∀ k, s.hist k ≠ [] → k ∈ s.dom
  ownDom : ∀ t ∈ s.open_, ∀ k, (t.own k).isSome → k ∈ s.dom

theorem SInv.init : SInv ({} : State) := by
  constructor <;> simp

theorem addDom_mem (s : State) (k k' : Key) : k' ∈ (addDom s k).dom ↔ k' ∈ s.dom ∨ k' = k := by
  unfold addDom
  split
  · rename_i h; constructor
    · exact Or.inl
    · rintro (h1 | rfl); exact h1; exact h
  · simp

theorem addDom_nodup (s : State) (k : Key) (h : s.dom.Nodup) : (addDom s k).dom.Nodup := by
  unfold addDom
  split
  · exact h
  · rename_i hk
    show (s.dom ++ [k]).Nodup
    rw [List.nodup_append]
    refine ⟨h, by simp, ?_⟩
    intro a ha b hb
    simp only [List.mem_singleton] at hb
    subst hb
    intro e; subst e; exact hk ha

@[simp] theorem addDom_clock (s : State) (k : Key) : (addDom s k).clock = s.clock := by unfold addDom; split <;> rfl
@[simp] theorem addDom_hist (s : State) (k : Key) : (addDom s k).hist = s.hist := by unfold addDom; split <;> rfl
@[simp] theorem addDom_open (s : State) (k : Key) : (addDom s k).open_ = s.open_ := by unfold addDom; split <;> rfl

theorem mem_filter_sub {α} {p : α → Bool} {l : List α} {a : α} (h : a ∈ l.filter p) : a ∈ l := (List.mem_filter.mp h).1

theorem SInv.close {s : State} (h : SInv s) (t : Nat) : SInv (Spec.close s t) :=
  ⟨h.stampsLe, h.histSorted, List.Pairwise.sublist List.filter_sublist h.openIds,
   fun x hx => h.openMain x (mem_filter_sub hx), fun x hx => h.beginLe x (mem_filter_sub hx),
   h.domNodup, h.histDom, fun x hx => h.ownDom x (mem_filter_sub hx)⟩

theorem sorted_append_fresh {l : List SVer} {clock : Nat} (hs : l.Pairwise (fun a b => a.stamp < b.stamp))
    (hle : ∀ v ∈ l, v.stamp ≤ clock) (val : Option Nat) :
    (l ++ [(⟨clock + 1, val⟩ : SVer)]).Pairwise (fun a b => a.stamp < b.stamp) := by
  rw [List.pairwise_append]
  refine ⟨hs, by simp, ?_⟩
  intro a ha b hb
  simp only [List.mem_singleton] at hb
  subst hb
  exact Nat.lt_succ_of_le (hle a ha)

theorem le_foldl_max (l : List Nat) (init x : Nat) (h : x ∈ l ∨ x ≤ init) : x ≤ l.foldl max init := by
  induction l generalizing init with
  | nil => rcases h with h | h; cases h; exact h
  | cons a t ih =>
    simp only [List.foldl_cons]
    apply ih
    rcases h with h | h
    · simp only [List.mem_cons] at h
      rcases h with rfl | h
      · exact Or.inr (Nat.le_max_right _ _)
      · exact Or.inl h
    · exact Or.inr (Nat.le_trans h (Nat.le_max_left _ _))

theorem SInv.write {s : State} (h : SInv s) (t : Nat) (k : Key) (val : Option Nat) : SInv (write s t k val).1 := by
  unfold Spec.write
  split
  · -- autocommit
    refine ⟨?_, ?_, ?_, ?_, ?_, ?_, ?_, ?_⟩
    · intro k' v hv
      simp only [addDom_hist, addDom_clock] at hv ⊢
      by_cases hk : k' = k
      · simp only [hk, if_true, List.mem_append, List.mem_singleton] at hv
        rcases hv with hv | rfl
        · exact Nat.le_succ_of_le (h.stampsLe k v hv)
        · exact Nat.le_refl _
      · simp only [hk, if_false] at hv; exact Nat.le_succ_of_le (h.stampsLe k' v hv)
    · intro k'
      simp only [addDom_hist]
      by_cases hk : k' = k
      · simp only [hk, if_true]; exact sorted_append_fresh (h.histSorted k) (h.stampsLe k) val
      · simp only [hk, if_false]; exact h.histSorted k'
    · simpa using h.openIds
    · simpa using h.openMain
    · intro x hx; simp only [addDom_open, addDom_clock] at hx ⊢; exact Nat.le_succ_of_le (h.beginLe x hx)
    · exact addDom_nodup _ k h.domNodup
    · intro k' hne
      rw [addDom_mem]
      simp only [addDom_hist] at hne
      by_cases hk : k' = k
      · exact Or.inr hk
      · simp only [hk, if_false] at hne; exact Or.inl (h.histDom k' hne)
    · intro x hx k' hs
      rw [addDom_mem]
      simp only [addDom_open] at hx
      exact Or.inl (h.ownDom x hx k' hs)
  · split
    · exact h
    · refine ⟨?_, ?_, ?_, ?_, ?_, ?_, ?_, ?_⟩
      · intro k' v hv
        simp only [addDom_hist, addDom_clock] at hv ⊢
        exact Nat.le_succ_of_le (h.stampsLe k' v hv)
      · intro k'; simp only [addDom_hist]; exact h.histSorted k'
      · simp only [addDom_open]
        rw [List.pairwise_map]
        refine List.Pairwise.imp ?_ h.openIds
        intro a b hab
        show (if a.id = t then _ else a).id ≠ (if b.id = t then _ else b).id
        split <;> split <;> exact hab
      · intro x hx
        simp only [addDom_open, List.mem_map] at hx
        obtain ⟨y, hy, rfl⟩ := hx
        show (if y.id = t then _ else y).id ≠ mainTx
        split <;> exact h.openMain y hy
      · intro x hx
        simp only [addDom_open, List.mem_map, addDom_clock] at hx ⊢
        obtain ⟨y, hy, rfl⟩ := hx
        show (if y.id = t then _ else y).beginStamp ≤ s.clock + 1
        split <;> exact Nat.le_succ_of_le (h.beginLe y hy)
      · exact addDom_nodup _ k h.domNodup
      · intro k' hne
        rw [addDom_mem]
        simp only [addDom_hist] at hne
        exact Or.inl (h.histDom k' hne)
      · intro x hx k' hs
        rw [addDom_mem]
        simp only [addDom_open, List.mem_map] at hx
        obtain ⟨y, hy, rfl⟩ := hx
        by_cases hyt : y.id = t
        · simp only [hyt, if_true] at hs
          by_cases hk : k' = k
          · exact Or.inr hk
          · simp only [hk, if_false] at hs; exact Or.inl (h.ownDom y hy k' hs)
        · simp only [hyt, if_false] at hs; exact Or.inl (h.ownDom y hy k' hs)

theorem SInv.publish {s : State} (h : SInv s) (tx : STx) : SInv (publishS s tx) := by
  have hist_eq : ∀ k, (publishS s tx).hist k = (match tx.own k with
      | some w => if k ∈ writtenS s.dom tx.own then s.hist k ++ [(⟨s.clock + 1, w.val⟩ : SVer)] else s.hist k
      | none => s.hist k) := fun _ => rfl
  refine ⟨?_, ?_, h.openIds, h.openMain, fun x hx => Nat.le_succ_of_le (h.beginLe x hx), h.domNodup, ?_, h.ownDom⟩
  · intro k v hv
    rw [hist_eq] at hv
    show v.stamp ≤ s.clock + 1
    split at hv
    · split at hv
      · simp only [List.mem_append, List.mem_singleton] at hv
        rcases hv with hv | rfl
        · exact Nat.le_succ_of_le (h.stampsLe k v hv)
        · exact Nat.le_refl _
      · exact Nat.le_succ_of_le (h.stampsLe k v hv)
    · exact Nat.le_succ_of_le (h.stampsLe k v hv)
  · intro k
    rw [hist_eq]
    split
    · split
      · exact sorted_append_fresh (h.histSorted k) (h.stampsLe k) _
      · exact h.histSorted k
    · exact h.histSorted k
  · intro k hne
    rw [hist_eq] at hne
    show k ∈ s.dom
    split at hne
    · split at hne
      · rename_i hk; exact (List.mem_filter.mp hk).1
      · exact h.histDom k hne
    · exact h.histDom k hne

theorem SInv.step {s : State} (h : SInv s) (op : Op) : SInv (Spec.step s op).1 := by
  cases op with
  | begin t l =>
    show SInv (Spec.begin s t l).1
    unfold Spec.begin
    split
    · exact h
    · rename_i hc
      have hnf : find s t = none := by
        cases hf : find s t with
        | none => rfl
        | some x => exact absurd (Or.inr (by simp [hf])) hc
      have htm : t ≠ mainTx := fun e => hc (Or.inl e)
      refine ⟨fun k v hv => Nat.le_succ_of_le (h.stampsLe k v hv), h.histSorted, ?_, ?_, ?_, h.domNodup, h.histDom, ?_⟩
      · show (s.open_ ++ [_]).Pairwise _
        rw [List.pairwise_append]
        refine ⟨h.openIds, by simp, ?_⟩
        intro a ha b hb
        simp only [List.mem_singleton] at hb
        subst hb
        have := List.find?_eq_none.mp hnf a ha
        simpa using this
      · intro x hx
        have hx' : x ∈ s.open_ ++ [_] := hx
        simp only [List.mem_append, List.mem_singleton] at hx'
        rcases hx' with hx' | rfl
        · exact h.openMain x hx'
        · exact htm
      · intro x hx
        have hx' : x ∈ s.open_ ++ [_] := hx
        simp only [List.mem_append, List.mem_singleton] at hx'
        rcases hx' with hx' | rfl
        · exact Nat.le_succ_of_le (h.beginLe x hx')
        · exact Nat.le_refl _
      · intro x hx k hs
        have hx' : x ∈ s.open_ ++ [_] := hx
        simp only [List.mem_append, List.mem_singleton] at hx'
        rcases hx' with hx' | rfl
        · exact h.ownDom x hx' k hs
        · simp at hs
  | set t k n =>
    show SInv (Spec.set s t k n).1
    unfold Spec.set
    split
    · exact h
    · split
      · exact h
      · exact h.write t k (some n)
  | del t k => exact h.write t k none
  | get t k => exact h
  | keys t => exact h
  | commit t =>
    show SInv (Spec.commit s t).1
    unfold Spec.commit
    split
    · exact h
    · rename_i tx _
      have hc := h.close t
      simp only
      split
      · exact hc
      · split
        · exact hc
        · exact hc.publish tx
  | rollback t => exact h.close t
  | gc =>
    show SInv (if s.open_.isEmpty then { s with clock := s.clock + 1 } else s)
    split
    · exact ⟨fun k v hv => Nat.le_succ_of_le (h.stampsLe k v hv), h.histSorted, h.openIds, h.openMain,
        fun x hx => Nat.le_succ_of_le (h.beginLe x hx), h.domNodup, h.histDom, h.ownDom⟩
    · exact h
  | drain => exact h
  | reopen f =>
    show SInv (Spec.reopen s f).1
    unfold Spec.reopen
    refine ⟨?_, h.histSorted, by simp, by simp, by simp, h.domNodup, h.histDom, by simp⟩
    intro k v hv0
    have hv : v ∈ s.hist k := hv0
    show v.stamp ≤ max (if f = true then 0 else s.clock) _
    -- the clock is never below the newest committed stamp
    have hne : s.hist k ≠ [] := List.ne_nil_of_mem hv
    have hk : k ∈ s.dom := h.histDom k hne
    cases hl : (s.hist k).getLast? with
    | none => exact absurd (List.getLast?_eq_none_iff.mp hl) hne
    | some w =>
      have hvw : v.stamp ≤ w.stamp := by
        obtain ⟨i, hi, rfl⟩ := List.getElem_of_mem hv
        rw [List.getLast?_eq_getElem?] at hl
        have hlen : (s.hist k).length - 1 < (s.hist k).length := by omega
        rw [List.getElem?_eq_getElem hlen] at hl
        cases hl
        rcases Nat.lt_or_eq_of_le (show i ≤ (s.hist k).length - 1 by omega) with h1 | h1
        · exact Nat.le_of_lt ((List.pairwise_iff_getElem.mp (h.histSorted k)) i _ hi hlen h1)
        · subst h1; exact Nat.le_refl _
      have : w.stamp ≤ (s.dom.filterMap (fun k => (committed s k).map (·.stamp))).foldl max 1 := by
        apply le_foldl_max
        left
        rw [List.mem_filterMap]
        exact ⟨k, hk, by simp [committed, hl]⟩
      exact Nat.le_trans (Nat.le_trans hvw this) (Nat.le_max_right _ _)
  | tree => exact h

end FsDb.Spec
