import FsDb.Proofs.SysBasic
/-! The system invariant `Inv` and the refinement relation `R` between the concrete model and the spec. -/
namespace FsDb
open Sys Spec

/-- `v` is a live version of key `k`: in the main store or in some transaction's store -/
def Live (c : Sys) (k : Key) (v : Ver) : Prop :=
  v ∈ c.main k ∨ ∃ t st, c.txs t = some st ∧ v ∈ st k

structure Inv (c : Sys) : Prop where
  mainSorted : ∀ k, SortedSeq (c.main k)
  txSorted : ∀ t st, c.txs t = some st → ∀ k, SortedSeq (st k)
  allSorted : ∀ k, SortedSeq (c.all k)
  allMem : ∀ k v, v ∈ c.all k ↔ Live c k v
  bounds : ∀ k, ∀ v ∈ c.all k, 0 < v.seq ∧ v.seq ≤ c.counter ∧ v.cid < c.nextCid ∧ v.key = k
  cidUnique : ∀ k k' v v', v ∈ c.all k → v' ∈ c.all k' → v.cid = v'.cid → v = v'
  regIds : c.reg.Pairwise (fun a b => a.id ≠ b.id)
  regMain : ∀ r ∈ c.reg, r.id ≠ mainTx
  regSorted : c.reg.Pairwise (fun a b => a.seq < b.seq)
  regBound : ∀ r ∈ c.reg, 0 < r.seq ∧ r.seq ≤ c.counter
  txsReg : ∀ t st, c.txs t = some st → t ≠ mainTx ∧ ∃ r ∈ c.reg, r.id = t
  ownAfter : ∀ r ∈ c.reg, ∀ st, c.txs r.id = some st → ∀ k, ∀ v ∈ st k, r.seq < v.seq
  beginNotVer : ∀ r ∈ c.reg, ∀ k, ∀ v ∈ c.all k, v.seq ≠ r.seq
  stor : ∀ k, ∀ v ∈ c.all k, c.hasContent v.cid = v.val
  cfsBound : ∀ p ∈ c.cfs, p.1 < c.nextCid
  pendDead : ∀ job ∈ c.pending, ∀ v ∈ job, ∀ k, ∀ w ∈ c.all k, w.cid ≠ v.cid
  pendBound : ∀ job ∈ c.pending, ∀ v ∈ job, v.cid < c.nextCid
  domAll : ∀ k, c.all k ≠ [] → k ∈ c.dom
  domNodup : c.dom.Nodup
  tagMain : ∀ k, ∀ v ∈ c.main k, v.tx = mainTx
  tagTx : ∀ t st, c.txs t = some st → ∀ k, ∀ v ∈ st k, v.tx = t

/-- the refinement relation.  `cl`: the transactions that are inside Commit / Rollback (already removed
    from the real registry, their UpdateTx / DeleteTx still to come): they read nothing any more, so
    the collector may already have taken what only they could see -/
structure Rx (cl : List Nat) (c : Sys) (s : State) : Prop where
  inv : Inv c
  clock : s.clock = c.counter
  dom : s.dom = c.dom
  reg : s.open_.map (fun t => (t.id, t.level, t.beginStamp)) = c.reg.map (fun r => (r.id, r.level, r.seq))
  own : ∀ t ∈ s.open_, ∀ k, t.own k = (c.ownLatest t.id k).map absV
  hist : ∀ k, ∃ pre, s.hist k = pre ++ (c.main k).map absV
          ∧ (∀ p ∈ pre, ∀ v ∈ c.main k, p.stamp < v.seq)
          ∧ (pre ≠ [] → ∃ h, (c.main k).head? = some h ∧ ∀ r ∈ c.reg, r.id ∉ cl → h.seq < r.seq)
  histDom : ∀ k, s.hist k ≠ [] → k ∈ c.dom

/-- the refinement relation of the sequential model: no transaction is inside Commit / Rollback -/
abbrev R (c : Sys) (s : State) : Prop := Rx [] c s

theorem Inv.init : Inv ({} : Sys) := by
  constructor <;> simp [Store.empty, SortedSeq, Live, Sys.hasContent]

theorem R.init : R ({} : Sys) ({} : State) := by
  refine ⟨Inv.init, rfl, rfl, rfl, ?_, ?_, ?_⟩
  · intro t ht; simp at ht
  · intro k; exact ⟨[], by simp [Store.empty], by simp, by simp⟩
  · intro k h; simp at h

/-! ### consequences of `Inv` -/

theorem Inv.main_sub_all {c : Sys} (h : Inv c) {k : Key} {v : Ver} (hv : v ∈ c.main k) : v ∈ c.all k :=
  (h.allMem k v).mpr (Or.inl hv)

theorem Inv.tx_sub_all {c : Sys} (h : Inv c) {t : Nat} {st : Store} (ht : c.txs t = some st) {k : Key}
    {v : Ver} (hv : v ∈ st k) : v ∈ c.all k :=
  (h.allMem k v).mpr (Or.inr ⟨t, st, ht, hv⟩)

/-- registry lookups agree between spec and model -/
theorem Rx.find_eq {c : Sys} {s : State} {cl : List Nat} (h : Rx cl c s) (t : Nat) :
    (find s t).map (fun x => (x.id, x.level, x.beginStamp)) = (c.reg.find? (·.id = t)).map (fun r => (r.id, r.level, r.seq)) := by
  have := h.reg
  unfold find
  generalize s.open_ = o at this
  generalize c.reg = r at this
  induction o generalizing r with
  | nil =>
    cases r with
    | nil => rfl
    | cons a r => simp at this
  | cons x o ih =>
    cases r with
    | nil => simp at this
    | cons a r =>
      simp only [List.map_cons, List.cons.injEq, Prod.mk.injEq] at this
      obtain ⟨⟨h1, h2, h3⟩, h4⟩ := this
      simp only [List.find?_cons]
      by_cases hx : x.id = t
      · have ha : a.id = t := by rw [← h1]; exact hx
        simp [hx, ha, h1.symm, h2, h3]
      · have ha : ¬ a.id = t := by rw [← h1]; exact hx
        simp [hx, ha]
        exact ih r h4

theorem Rx.mem_open {c : Sys} {s : State} {cl : List Nat} (h : Rx cl c s) {t : STx} (ht : t ∈ s.open_) :
    (⟨t.id, t.level, t.beginStamp⟩ : TxRec) ∈ c.reg := by
  have := h.reg
  have hm : (t.id, t.level, t.beginStamp) ∈ s.open_.map (fun t => (t.id, t.level, t.beginStamp)) :=
    List.mem_map.mpr ⟨t, ht, rfl⟩
  rw [this] at hm
  obtain ⟨r, hr, he⟩ := List.mem_map.mp hm
  simp only [Prod.mk.injEq] at he
  obtain ⟨h1, h2, h3⟩ := he
  have : r = ⟨t.id, t.level, t.beginStamp⟩ := by cases r; simp_all
  rw [← this]; exact hr

end FsDb
