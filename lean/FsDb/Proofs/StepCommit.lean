import FsDb.Proofs.StepGc
/-! `Commit` (`core.UpdateTx`) preserves the refinement relation. -/
namespace FsDb
open Sys Spec

/-! ### the pieces `UpdateTx` computes from the transaction's store -/

abbrev cWritten (c : Sys) (st : Store) : List Key := Sys.written c.dom st
abbrev cLasts (c : Sys) (st : Store) : List Ver := Sys.lastsOf c.dom st
abbrev cOlds (c : Sys) (st : Store) : List Ver := Sys.oldsOf c.dom st

/-- the version published for key `k` (if the transaction wrote `k`) -/
def pubOf (c : Sys) (st : Store) (k : Key) : List Ver :=
  match Sys.latest (st k) with
  | some v => [Sys.retag (c.counter + 1) v]
  | none => []

theorem mem_cWritten {c : Sys} (i : Inv c) {t : Nat} {st : Store} (hst : c.txs t = some st) (k : Key) :
    k ∈ cWritten c st ↔ st k ≠ [] := by
  unfold cWritten Sys.written
  rw [List.mem_filter]
  constructor
  · rintro ⟨_, h⟩; simpa using h
  · intro h
    refine ⟨?_, by simpa using h⟩
    apply i.domAll
    obtain ⟨v, hv⟩ := List.exists_mem_of_ne_nil _ h
    exact List.ne_nil_of_mem (i.tx_sub_all hst hv)

theorem mem_dropLast_or_last {l : List Ver} {v : Ver} :
    v ∈ l ↔ v ∈ l.dropLast ∨ Sys.latest l = some v := by
  unfold Sys.latest
  constructor
  · intro hv
    cases hl : l.getLast? with
    | none => simp [List.getLast?_eq_none_iff.mp hl] at hv
    | some w =>
      have : l = l.dropLast ++ [w] := by
        have hne : l ≠ [] := List.ne_nil_of_mem hv
        rw [List.getLast?_eq_some_getLast hne] at hl
        cases hl
        exact (List.dropLast_concat_getLast hne).symm
      rw [this] at hv
      simp only [List.mem_append, List.mem_singleton] at hv
      rcases hv with hv | rfl
      · exact Or.inl hv
      · exact Or.inr rfl
  · rintro (h | h)
    · exact (List.dropLast_sublist l).subset h
    · exact List.mem_of_getLast? h

theorem isStoreOf_commit {c : Sys} (i : Inv c) {t : Nat} {st : Store} (hst : c.txs t = some st) :
    IsStoreOf st (cLasts c st ++ cOlds c st) := by
  intro v
  simp only [List.mem_append, cLasts, cOlds, Sys.lastsOf, Sys.oldsOf, List.mem_filterMap, List.mem_flatMap]
  constructor
  · rintro (⟨k, _, hk⟩ | ⟨k, _, hk⟩)
    · exact ⟨k, latest_mem hk⟩
    · exact ⟨k, (List.dropLast_sublist _).subset hk⟩
  · rintro ⟨k, hv⟩
    have hw : k ∈ cWritten c st := (mem_cWritten i hst k).mpr (List.ne_nil_of_mem hv)
    rcases mem_dropLast_or_last.mp hv with h | h
    · exact Or.inr ⟨k, hw, h⟩
    · exact Or.inl ⟨k, hw, h⟩

theorem cLasts_nil_iff {c : Sys} (i : Inv c) {t : Nat} {st : Store} (hst : c.txs t = some st) :
    cLasts c st = [] ↔ cWritten c st = [] := by
  constructor
  · intro h
    cases hw : cWritten c st with
    | nil => rfl
    | cons k ks =>
      have hk : k ∈ cWritten c st := by rw [hw]; simp
      have hne := (mem_cWritten i hst k).mp hk
      cases hl : Sys.latest (st k) with
      | none => exact absurd (latest_none hl) hne
      | some v =>
        have : v ∈ cLasts c st := by
          unfold cLasts Sys.lastsOf; rw [List.mem_filterMap]; exact ⟨k, hk, hl⟩
        rw [h] at this; cases this
  · intro h; show List.filterMap _ (cWritten c st) = []; rw [h]; rfl

/-- the published versions restricted to one key -/
theorem pub_filter_key {c : Sys} (i : Inv c) {t : Nat} {st : Store} (hst : c.txs t = some st) (k : Key) :
    ((cLasts c st).map (Sys.retag (c.counter + 1))).filter (·.key = k)
      = pubOf c st k := by
  have hkey : ∀ k' v, Sys.latest (st k') = some v → v.key = k' := by
    intro k' v hv; exact (i.bounds k' v (i.tx_sub_all hst (latest_mem hv))).2.2.2
  have hnd : (Sys.written c.dom st).Nodup := List.Nodup.sublist List.filter_sublist i.domNodup
  have hmem : k ∈ Sys.written c.dom st ↔ st k ≠ [] := mem_cWritten i hst k
  unfold cLasts Sys.lastsOf pubOf
  generalize Sys.written c.dom st = ws at hnd hmem
  induction ws with
  | nil =>
    have : st k = [] := by
      by_cases h : st k = []
      · exact h
      · exact absurd (hmem.mpr h) (by simp)
    simp [this, Sys.latest]
  | cons a ws ih =>
    have hnd' := (List.nodup_cons.mp hnd)
    simp only [List.filterMap_cons]
    by_cases hak : a = k
    · subst hak
      have hne : st a ≠ [] := hmem.mp (by simp)
      cases hl : Sys.latest (st a) with
      | none => exact absurd (latest_none hl) hne
      | some v =>
        simp only [List.map_cons]
        rw [List.filter_cons_of_pos (by simp [Sys.retag, hkey a v hl])]
        -- nothing else in ws has key a
        have : (List.map (Sys.retag (c.counter + 1))
            (List.filterMap (fun k => Sys.latest (st k)) ws)).filter (fun x => decide (x.key = a)) = [] := by
          rw [List.filter_eq_nil_iff]
          intro x hx
          simp only [List.mem_map, List.mem_filterMap] at hx
          obtain ⟨v', ⟨k', hk', hv'⟩, rfl⟩ := hx
          have := hkey k' v' hv'
          simp only [decide_eq_true_eq, Sys.retag]
          intro e
          have : k' = a := this.symm.trans (of_decide_eq_true e)
          subst this
          exact hnd'.1 hk'
        rw [this]
    · have hrec : (k ∈ ws ↔ st k ≠ []) := by
        constructor
        · intro h; exact hmem.mp (List.mem_cons_of_mem _ h)
        · intro h
          have := hmem.mpr h
          simp only [List.mem_cons] at this
          rcases this with rfl | h'
          · exact absurd rfl hak
          · exact h'
      cases hl : Sys.latest (st a) with
      | none => simp only; exact ih hnd'.2 hrec
      | some v =>
        simp only [List.map_cons]
        rw [List.filter_cons_of_neg (by simp [Sys.retag, hkey a v hl, hak])]
        exact ih hnd'.2 hrec

end FsDb

namespace FsDb
open Sys Spec

/-- the state after a successful commit that published something -/
def pubState (c : Sys) (t : Nat) (st : Store) (recs' : List Ver) : Sys :=
  { discardG c t (cLasts c st ++ cOlds c st) (cOlds c st) with
      counter := c.counter + 1,
      main := fun k => c.main k ++ pubOf c st k,
      all := fun k => (discardG c t (cLasts c st ++ cOlds c st) (cOlds c st)).all k ++ pubOf c st k,
      recs := recs' }

theorem mem_pubOf {c : Sys} {st : Store} {k : Key} {p : Ver} :
    p ∈ pubOf c st k ↔ ∃ v, Sys.latest (st k) = some v ∧ p = Sys.retag (c.counter + 1) v := by
  unfold pubOf
  cases Sys.latest (st k) <;> simp

theorem olds_subset {c : Sys} {st : Store} : ∀ v ∈ cOlds c st, v ∈ cLasts c st ++ cOlds c st :=
  fun v hv => List.mem_append_right _ hv

theorem publish_inv {c : Sys} (i : Inv c) {t : Nat} {st : Store} (hst : c.txs t = some st)
    (recs' : List Ver) : Inv (pubState c t st recs') := by
  have hr := isStoreOf_commit i hst
  have i2 := discard_inv i hst hr olds_subset
  have hsub2 : ∀ k u, u ∈ (discardG c t (cLasts c st ++ cOlds c st) (cOlds c st)).all k → u ∈ c.all k :=
    fun k u => discard_sub
  -- facts about a published version
  have hpub : ∀ k p, p ∈ pubOf c st k → ∃ v, v ∈ st k ∧ Sys.latest (st k) = some v ∧ v ∈ c.all k ∧
      p = Sys.retag (c.counter + 1) v := by
    intro k p hp
    obtain ⟨v, hv, rfl⟩ := mem_pubOf.mp hp
    exact ⟨v, latest_mem hv, hv, i.tx_sub_all hst (latest_mem hv), rfl⟩
  have hmemall : ∀ k u, u ∈ (pubState c t st recs').all k ↔
      u ∈ (discardG c t (cLasts c st ++ cOlds c st) (cOlds c st)).all k ∨ u ∈ pubOf c st k := by
    intro k u; show u ∈ _ ++ _ ↔ _; rw [List.mem_append]
  have hgt : ∀ k, ∀ u ∈ c.all k, ∀ p ∈ pubOf c st k, u.seq < p.seq := by
    intro k u hu p hp
    obtain ⟨v, _, _, _, rfl⟩ := hpub k p hp
    have := (i.bounds k u hu).2.1
    show u.seq < c.counter + 1
    omega
  have hpubSorted : ∀ k, SortedSeq (pubOf c st k) := by
    intro k; unfold pubOf; cases Sys.latest (st k) <;> simp [SortedSeq]
  have happSorted : ∀ (l : List Ver) k, SortedSeq l → (∀ u ∈ l, u ∈ c.all k) → SortedSeq (l ++ pubOf c st k) := by
    intro l k hl hsub
    unfold SortedSeq
    rw [List.pairwise_append]
    exact ⟨hl, hpubSorted k, fun u hu p hp => hgt k u (hsub u hu) p hp⟩
  constructor
  · intro k; exact happSorted _ k (i.mainSorted k) (fun u hu => i.main_sub_all hu)
  · exact i2.txSorted
  · intro k; exact happSorted _ k (i2.allSorted k) (fun u hu => hsub2 k u hu)
  · -- allMem
    intro k u
    rw [hmemall, i2.allMem]
    unfold Live
    show _ ↔ (u ∈ c.main k ++ pubOf c st k ∨ _)
    rw [List.mem_append]
    constructor
    · rintro ((h | h) | h)
      · exact Or.inl (Or.inl h)
      · exact Or.inr h
      · exact Or.inl (Or.inr h)
    · rintro ((h | h) | h)
      · exact Or.inl (Or.inl h)
      · exact Or.inr h
      · exact Or.inl (Or.inr h)
  · -- bounds
    intro k u hu
    show 0 < u.seq ∧ u.seq ≤ c.counter + 1 ∧ u.cid < c.nextCid ∧ u.key = k
    rcases (hmemall k u).mp hu with h | h
    · obtain ⟨a, b, c', d⟩ := i.bounds k u (hsub2 k u h)
      exact ⟨a, Nat.le_succ_of_le b, c', d⟩
    · obtain ⟨v, _, _, hv, rfl⟩ := hpub k u h
      obtain ⟨_, _, c', d⟩ := i.bounds k v hv
      exact ⟨Nat.succ_pos _, Nat.le_refl _, c', d⟩
  · -- cidUnique
    intro k k' u u' hu hu' he
    rcases (hmemall k u).mp hu with h | h <;> rcases (hmemall k' u').mp hu' with h' | h'
    · exact i.cidUnique k k' u u' (hsub2 k u h) (hsub2 k' u' h') he
    · obtain ⟨v, hv, _, _, rfl⟩ := hpub k' u' h'
      have := (mem_removeLinks.mp (show u ∈ removeLinks c.all _ k from h)).2 v ((hr v).mpr ⟨k', hv⟩)
      exact absurd he.symm this
    · obtain ⟨v, hv, _, _, rfl⟩ := hpub k u h
      have := (mem_removeLinks.mp (show u' ∈ removeLinks c.all _ k' from h')).2 v ((hr v).mpr ⟨k, hv⟩)
      exact absurd he this
    · obtain ⟨v, _, _, hva, rfl⟩ := hpub k u h
      obtain ⟨v', _, _, hva', rfl⟩ := hpub k' u' h'
      have : v = v' := i.cidUnique k k' v v' hva hva' he
      rw [this]
  · exact i2.regIds
  · exact i2.regMain
  · exact i2.regSorted
  · intro r hr'; have := i2.regBound r hr'; exact ⟨this.1, Nat.le_succ_of_le this.2⟩
  · exact i2.txsReg
  · exact i2.ownAfter
  · -- beginNotVer
    intro r hr' k u hu
    rcases (hmemall k u).mp hu with h | h
    · exact i2.beginNotVer r hr' k u h
    · obtain ⟨v, _, _, _, rfl⟩ := hpub k u h
      have := (i2.regBound r hr').2
      show c.counter + 1 ≠ r.seq
      have : r.seq ≤ c.counter := this
      omega
  · -- stor
    intro k u hu
    rcases (hmemall k u).mp hu with h | h
    · exact i2.stor k u h
    · obtain ⟨v, _, _, hva, rfl⟩ := hpub k u h
      exact i.stor k v hva
  · exact i2.cfsBound
  · -- pendDead
    intro job hj v hv k w hw
    rcases (hmemall k w).mp hw with h | h
    · exact i2.pendDead job hj v hv k w h
    · obtain ⟨v0, hv0, hl0, hva, rfl⟩ := hpub k w h
      show v0.cid ≠ v.cid
      have hp : job ∈ (if (cOlds c st).isEmpty then c.pending else c.pending ++ [cOlds c st]) := hj
      have hold : job ∈ c.pending → v0.cid ≠ v.cid := fun hjp => i.pendDead job hjp v hv k v0 hva
      split at hp
      · exact hold hp
      · simp only [List.mem_append, List.mem_singleton] at hp
        rcases hp with hp | rfl
        · exact hold hp
        · -- v is an earlier version of some key, v0 the last version of k
          simp only [cOlds, Sys.oldsOf, List.mem_flatMap] at hv
          obtain ⟨k', _, hk'⟩ := hv
          have hv' : v ∈ st k' := (List.dropLast_sublist _).subset hk'
          intro he
          have heq : v0 = v := i.cidUnique k k' v0 v hva (i.tx_sub_all hst hv') he
          subst heq
          have e1 := (i.bounds k v0 hva).2.2.2
          have e2 := (i.bounds k' v0 (i.tx_sub_all hst hv')).2.2.2
          have : k' = k := e2.symm.trans e1
          subst this
          -- v0 is the last of st k' and also in its dropLast: impossible for a strictly sorted list
          have hs := i.txSorted t st hst k'
          have hne : st k' ≠ [] := List.ne_nil_of_mem hv0
          rw [← List.dropLast_concat_getLast hne] at hs
          have hlast : (st k').getLast hne = v0 := by
            have := hl0; unfold Sys.latest at this
            rw [List.getLast?_eq_some_getLast hne] at this; cases this; rfl
          rw [hlast] at hs
          exact hs.disjoint_append hk' (by simp)
  · exact i2.pendBound
  · -- domAll
    intro k hne
    apply i.domAll
    intro hnil
    apply hne
    show removeLinks c.all _ k ++ pubOf c st k = []
    have h1 : removeLinks c.all (cLasts c st ++ cOlds c st) k = [] := by simp [removeLinks, hnil]
    have h2 : pubOf c st k = [] := by
      unfold pubOf
      cases hl : Sys.latest (st k) with
      | none => rfl
      | some v => have := i.tx_sub_all hst (latest_mem hl); rw [hnil] at this; cases this
    rw [h1, h2]; rfl
  · exact i2.domNodup
  · -- tagMain
    intro k u hu
    have hu' : u ∈ c.main k ++ pubOf c st k := hu
    rw [List.mem_append] at hu'
    rcases hu' with h | h
    · exact i.tagMain k u h
    · obtain ⟨v, _, _, _, rfl⟩ := hpub k u h; rfl
  · exact i2.tagTx

end FsDb

