import FsDb.Proofs.StepCommit2
/-! The refinement theorem: every operation of the concrete model answers what the abstract
    specification answers, for every history. -/
namespace FsDb
open Sys Spec

/-- operations covered by the main refinement theorem (`reopen` and the storage walk `tree` are
    treated separately: they need the record / content-file invariants of C05 / C14) -/
def Op.core : Op → Bool
  | .reopen _ => false
  | .tree => false
  | _ => true

/-- the transaction whose view an operation reads -/
def Op.reads : Op → Option Nat
  | .get t _ => some t
  | .keys t => some t
  | _ => none

/-- the step theorem with transactions `cl` inside Commit / Rollback: they read nothing -/
theorem Refine.stepX {c : Sys} {s : State} {cl : List Nat} (h : Rx cl c s) (op : Op) (hop : op.core = true)
    (hcl : ∀ t, op.reads = some t → t ∉ cl) :
    (c.step op).2 = (Spec.step s op).2 ∧ Rx cl (c.step op).1 (Spec.step s op).1 := by
  cases op with
  | begin t l => exact step_begin h t l
  | set t k n => exact step_set h t k n
  | del t k => exact step_del h t k
  | get t k => exact ⟨get_eq h t k (hcl t rfl), h⟩
  | keys t => exact ⟨getKeys_eq h t (hcl t rfl), h⟩
  | commit t => exact step_commit h t
  | rollback t => exact step_rollback h t
  | gc => exact step_gc h
  | drain => exact step_drain h
  | reopen f => simp [Op.core] at hop
  | tree => simp [Op.core] at hop

theorem Refine.step {c : Sys} {s : State} (h : R c s) (op : Op) (hop : op.core = true) :
    (c.step op).2 = (Spec.step s op).2 ∧ R (c.step op).1 (Spec.step s op).1 :=
  Refine.stepX h op hop (fun _ _ => by simp)

/-- for every history of core operations, from related states: same answers, related end states -/
theorem Refine.run {c : Sys} {s : State} (h : R c s) (ops : List Op) (hops : ∀ op ∈ ops, op.core = true) :
    (c.run ops).2 = (Spec.run s ops).2 ∧ R (c.run ops).1 (Spec.run s ops).1 := by
  induction ops generalizing c s with
  | nil => exact ⟨rfl, h⟩
  | cons op ops ih =>
    have hs := Refine.step h op (hops op (by simp))
    have := ih hs.2 (fun o ho => hops o (List.mem_cons_of_mem _ ho))
    simp only [Sys.run, Spec.run]
    exact ⟨by rw [hs.1, this.1], this.2⟩

/-- … in particular from the empty database -/
theorem Refine.run_init (ops : List Op) (hops : ∀ op ∈ ops, op.core = true) :
    (({} : Sys).run ops).2 = (Spec.run {} ops).2 :=
  (Refine.run R.init ops hops).1

/-- every state reachable by core operations satisfies the system invariant -/
theorem Inv.reachable (ops : List Op) (hops : ∀ op ∈ ops, op.core = true) : Inv (({} : Sys).run ops).1 :=
  (Refine.run R.init ops hops).2.inv

end FsDb
