import FsDb.Proofs.StepGc
/-! The collector at an ARBITRARY horizon (`core.DeleteOld(main, hz)` with a horizon that was
    computed earlier, under the horizon lock, and may be stale when the lists are collected):
    invisible as long as the horizon does not exceed the begin number of any registered
    transaction.  Generalises `gcMid_inv` / `gcMid_R` (which fix `hz = gcHz c`).  Used by the
    small-step concurrency model (C06). -/
namespace FsDb
open Sys Spec

/-- the horizon is safe: no registered transaction that still reads (i.e. is not inside Commit /
    Rollback) began before it -/
def SafeHz (cl : List Nat) (c : Sys) (hz : Nat) : Prop := ∀ r ∈ c.reg, r.id ∉ cl → hz ≤ r.seq

theorem mem_delsAt {c : Sys} (i : Inv c) (hz : Nat) (v : Ver) :
    v ∈ delsAt c hz ↔ ∃ k, v ∈ (collect (c.main k) hz).1 := by
  unfold delsAt
  rw [List.mem_flatMap]
  constructor
  · rintro ⟨k, _, hv⟩; exact ⟨k, hv⟩
  · rintro ⟨k, hv⟩
    refine ⟨k, ?_, hv⟩
    apply i.domAll
    exact List.ne_nil_of_mem (i.main_sub_all ((collect_fst_sublist _ _).subset hv))

theorem collectAt_mem_all {c : Sys} (i : Inv c) (hz : Nat) (k : Key) (u : Ver) :
    u ∈ (collectAt c hz).all k ↔ u ∈ c.all k ∧ ∀ k', u ∉ (collect (c.main k') hz).1 := by
  show u ∈ removeLinks c.all (delsAt c hz) k ↔ _
  rw [mem_removeLinks]
  constructor
  · rintro ⟨hu, hne⟩
    refine ⟨hu, ?_⟩
    intro k' hk'
    exact hne u ((mem_delsAt i hz u).mpr ⟨k', hk'⟩) rfl
  · rintro ⟨hu, hne⟩
    refine ⟨hu, ?_⟩
    intro v hv he
    obtain ⟨k', hk'⟩ := (mem_delsAt i hz v).mp hv
    have hvall : v ∈ c.all k' := i.main_sub_all ((collect_fst_sublist _ _).subset hk')
    have := i.cidUnique k' k v u hvall hu he
    subst this
    exact hne k' hk'

theorem collectAt_inv {c : Sys} (i : Inv c) (hz : Nat) : Inv (collectAt c hz) := by
  have hsub : ∀ k u, u ∈ (collectAt c hz).all k → u ∈ c.all k := fun k u hu => ((collectAt_mem_all i hz k u).mp hu).1
  have hmsub : ∀ k u, u ∈ (collectAt c hz).main k → u ∈ c.main k := fun k u hu => (collect_snd_sublist _ _).subset hu
  have hcnt : c.counter ≤ (collectAt c hz).counter := Nat.le_refl _
  constructor
  · intro k; exact List.Pairwise.sublist (collect_snd_sublist _ _) (i.mainSorted k)
  · exact i.txSorted
  · intro k; exact (i.allSorted k).filter _
  · -- allMem
    intro k u
    rw [collectAt_mem_all i hz]
    unfold Live
    show _ ↔ (u ∈ (collect (c.main k) hz).2 ∨ ∃ t st, c.txs t = some st ∧ u ∈ st k)
    constructor
    · rintro ⟨hu, hne⟩
      rcases (i.allMem k u).mp hu with hm | htx
      · left
        have happ := collect_append (c.main k) hz
        rw [← happ, List.mem_append] at hm
        rcases hm with hm | hm
        · exact absurd hm (hne k)
        · exact hm
      · exact Or.inr htx
    · rintro (hm | ⟨t, st, hst, hu⟩)
      · have hmain := (collect_snd_sublist _ _).subset hm
        refine ⟨i.main_sub_all hmain, ?_⟩
        intro k' hk'
        have hmain' := (collect_fst_sublist _ _).subset hk'
        have e1 := (i.bounds k u (i.main_sub_all hmain)).2.2.2
        have e2 := (i.bounds k' u (i.main_sub_all hmain')).2.2.2
        have : k' = k := e2.symm.trans e1
        subst this
        have hs := i.mainSorted k'
        rw [← collect_append (c.main k') hz] at hs
        exact hs.disjoint_append hk' hm
      · refine ⟨i.tx_sub_all hst hu, ?_⟩
        intro k' hk'
        have hmain' := (collect_fst_sublist _ _).subset hk'
        have h1 := i.tagMain k' u hmain'
        have h2 := i.tagTx t st hst k u hu
        have := (i.txsReg t st hst).1
        rw [h1] at h2; exact this h2.symm
  · intro k u hu
    obtain ⟨a, b, c', d⟩ := i.bounds k u (hsub k u hu)
    exact ⟨a, Nat.le_trans b hcnt, c', d⟩
  · intro k k' u u' hu hu' he; exact i.cidUnique k k' u u' (hsub k u hu) (hsub k' u' hu') he
  · exact i.regIds
  · exact i.regMain
  · exact i.regSorted
  · intro r hr; have := i.regBound r hr; exact ⟨this.1, Nat.le_trans this.2 hcnt⟩
  · exact i.txsReg
  · exact i.ownAfter
  · intro r hr k u hu; exact i.beginNotVer r hr k u (hsub k u hu)
  · intro k u hu; exact i.stor k u (hsub k u hu)
  · exact i.cfsBound
  · intro job hj v hv k w hw; exact i.pendDead job hj v hv k w (hsub k w hw)
  · exact i.pendBound
  · intro k hne
    apply i.domAll
    intro hnil
    apply hne
    show removeLinks c.all (delsAt c hz) k = []
    simp [removeLinks, hnil]
  · exact i.domNodup
  · intro k u hu; exact i.tagMain k u (hmsub k u hu)
  · exact i.tagTx

theorem collectAt_R {c : Sys} {s : State} {cl : List Nat} (h : Rx cl c s) {hz : Nat} (hsafe : SafeHz cl c hz) : Rx cl (collectAt c hz) s := by
  have i := h.inv
  have i' := collectAt_inv i hz
  refine ⟨i', h.clock, h.dom, h.reg, ?_, ?_, h.histDom⟩
  · intro x hx k
    have hne : x.id ≠ mainTx := i.regMain _ (h.mem_open hx)
    rw [h.own x hx k, ownLatest_tx hne, ownLatest_tx hne]
    rfl
  · intro k
    obtain ⟨pre, h1, h2, h3⟩ := h.hist k
    have happ := collect_append (c.main k) hz
    refine ⟨pre ++ (collect (c.main k) hz).1.map absV, ?_, ?_, ?_⟩
    · show s.hist k = _ ++ (collect (c.main k) hz).2.map absV
      rw [h1, List.append_assoc, ← List.map_append, happ]
    · intro p hp v hv
      have hv' : v ∈ (collect (c.main k) hz).2 := hv
      simp only [List.mem_append, List.mem_map] at hp
      rcases hp with hp | ⟨u, hu, rfl⟩
      · exact h2 p hp v ((collect_snd_sublist _ _).subset hv')
      · have hs := i.mainSorted k
        rw [← happ] at hs
        unfold SortedSeq at hs
        rw [List.pairwise_append] at hs
        exact hs.2.2 u hu v hv'
    · intro hp
      show ∃ hd, (collect (c.main k) hz).2.head? = some hd ∧ ∀ r ∈ c.reg, r.id ∉ cl → hd.seq < r.seq
      by_cases hc1 : (collect (c.main k) hz).1 = []
      · have hpre : pre ≠ [] := by simpa [hc1] using hp
        have h2eq : (collect (c.main k) hz).2 = c.main k := by
          rw [hc1] at happ; simpa using happ
        rw [h2eq]; exact h3 hpre
      · obtain ⟨hd, hh', hle⟩ := collect_head_le (c.main k) hz hc1
        refine ⟨hd, hh', ?_⟩
        intro r hr hrc
        have hdmem : hd ∈ c.main k := by
          apply (collect_snd_sublist (c.main k) hz).subset
          cases hc2 : (collect (c.main k) hz).2 with
          | nil => rw [hc2] at hh'; cases hh'
          | cons a t => rw [hc2] at hh'; simp at hh'; subst hh'; simp
        have hne := i.beginNotVer r hr k hd (i.main_sub_all hdmem)
        have := hsafe r hr hrc
        omega

/-- the versions handed to deletion by a collection are no longer linked, and their ids are old -/
theorem delsAt_dead {c : Sys} (i : Inv c) (hz : Nat) :
    ∀ v ∈ delsAt c hz, (∀ k, ∀ w ∈ (collectAt c hz).all k, w.cid ≠ v.cid) ∧ v.cid < c.nextCid := by
  intro v hv
  refine ⟨?_, ?_⟩
  · intro k w hw
    have := (mem_removeLinks.mp (show w ∈ removeLinks c.all (delsAt c hz) k from hw)).2 v hv
    exact fun e => this e.symm
  · obtain ⟨k, hk⟩ := (mem_delsAt i hz v).mp hv
    exact (i.bounds k v (i.main_sub_all ((collect_fst_sublist _ _).subset hk))).2.2.1

theorem gcDraw_R {c : Sys} {s : State} {cl : List Nat} (h : Rx cl c s) : Rx cl (gcDraw c) (Spec.step s .gc).1 := by
  have hspec : (Spec.step s .gc).1 = if s.open_.isEmpty then { s with clock := s.clock + 1 } else s := rfl
  rw [hspec]
  have he := open_empty_iff h
  unfold gcDraw
  cases hhead : c.reg.head? with
  | some tx =>
    have : s.open_.isEmpty = false := by rw [he, hhead]; rfl
    rw [if_neg (by simp [this])]; exact h
  | none =>
    have : s.open_.isEmpty = true := by rw [he, hhead]; rfl
    rw [if_pos this]
    have i := h.inv
    have hreg : c.reg = [] := by cases hr : c.reg with
      | nil => rfl
      | cons a t => rw [hr] at hhead; cases hhead
    have i' : Inv { c with counter := c.counter + 1 } := by
      refine ⟨i.mainSorted, i.txSorted, i.allSorted, i.allMem, ?_, i.cidUnique, i.regIds, i.regMain, i.regSorted,
        ?_, i.txsReg, i.ownAfter, i.beginNotVer, i.stor, i.cfsBound, i.pendDead, i.pendBound, i.domAll, i.domNodup,
        i.tagMain, i.tagTx⟩
      · intro k v hv; obtain ⟨a, b, c', d⟩ := i.bounds k v hv; exact ⟨a, Nat.le_succ_of_le b, c', d⟩
      · intro r hr; have := i.regBound r hr; exact ⟨this.1, Nat.le_succ_of_le this.2⟩
    refine ⟨i', ?_, h.dom, h.reg, ?_, h.hist, h.histDom⟩
    · show s.clock + 1 = c.counter + 1; rw [h.clock]
    · intro x hx k
      have hne : x.id ≠ mainTx := i.regMain _ (h.mem_open hx)
      rw [h.own x hx k, ownLatest_tx hne, ownLatest_tx hne]

/-- the horizon computed by the horizon step is safe in the state after it, and stays below the counter -/
theorem gcHz_safe {c : Sys} (i : Inv c) (cl : List Nat) : SafeHz cl (gcDraw c) (gcHz c) ∧ gcHz c ≤ (gcDraw c).counter := by
  unfold gcDraw gcHz SafeHz
  cases hhead : c.reg.head? with
  | some tx =>
    refine ⟨fun r hr _ => reg_head_min i hhead r hr, ?_⟩
    have htxmem : tx ∈ c.reg := by
      cases hreg : c.reg with
      | nil => rw [hreg] at hhead; cases hhead
      | cons a rs => rw [hreg] at hhead; simp at hhead; subst hhead; simp
    exact (i.regBound tx htxmem).2
  | none =>
    have hreg : c.reg = [] := by cases hr : c.reg with
      | nil => rfl
      | cons a t => rw [hr] at hhead; cases hhead
    exact ⟨by intro r hr; simp [hreg] at hr, Nat.le_refl _⟩

def Spec.tick (s : State) (n : Nat) : State := { s with clock := max s.clock n }

theorem Inv.tick {c : Sys} (i : Inv c) (n : Nat) : Inv (c.tick n) := by
  have hle : c.counter ≤ max c.counter n := Nat.le_max_left _ _
  refine ⟨i.mainSorted, i.txSorted, i.allSorted, i.allMem, ?_, i.cidUnique, i.regIds, i.regMain, i.regSorted,
    ?_, i.txsReg, i.ownAfter, i.beginNotVer, i.stor, i.cfsBound, i.pendDead, i.pendBound, i.domAll, i.domNodup,
    i.tagMain, i.tagTx⟩
  · intro k v hv; obtain ⟨a, b, c', d⟩ := i.bounds k v hv; exact ⟨a, Nat.le_trans b hle, c', d⟩
  · intro r hr; have := i.regBound r hr; exact ⟨this.1, Nat.le_trans this.2 hle⟩

theorem Rx.tick {c : Sys} {s : State} {cl : List Nat} (h : Rx cl c s) (n : Nat) : Rx cl (c.tick n) (Spec.tick s n) := by
  refine ⟨h.inv.tick n, ?_, h.dom, h.reg, ?_, h.hist, h.histDom⟩
  · show max s.clock n = max c.counter n; rw [h.clock]
  · intro x hx k
    have hne : x.id ≠ mainTx := h.inv.regMain _ (h.mem_open hx)
    rw [h.own x hx k, ownLatest_tx hne, ownLatest_tx hne]
    rfl


/-! ### the horizon step while transactions are inside Commit / Rollback -/

theorem liveReg_head {c : Sys} (i : Inv c) {cl : List Nat} {tx : TxRec} (h : (liveReg c cl).head? = some tx) :
    tx ∈ c.reg ∧ tx.id ∉ cl ∧ ∀ r ∈ c.reg, r.id ∉ cl → tx.seq ≤ r.seq := by
  have hs : (liveReg c cl).Pairwise (fun a b => a.seq < b.seq) := i.regSorted.filter _
  cases hl : liveReg c cl with
  | nil => rw [hl] at h; cases h
  | cons a rest =>
    rw [hl] at h hs
    simp only [List.head?_cons, Option.some.injEq] at h
    subst h
    have hmem : a ∈ liveReg c cl := by rw [hl]; simp
    have hm := List.mem_filter.mp hmem
    refine ⟨hm.1, by simpa using hm.2, ?_⟩
    intro r hr hrc
    have : r ∈ liveReg c cl := List.mem_filter.mpr ⟨hr, by simpa using hrc⟩
    rw [hl] at this
    rcases List.mem_cons.mp this with rfl | hin
    · exact Nat.le_refl _
    · exact Nat.le_of_lt (List.rel_of_pairwise_cons hs hin)

theorem liveReg_none {c : Sys} {cl : List Nat} (h : (liveReg c cl).head? = none) : ∀ r ∈ c.reg, r.id ∈ cl := by
  intro r hr
  have hnil : liveReg c cl = [] := by cases hl : liveReg c cl with
    | nil => rfl
    | cons a t => rw [hl] at h; cases h
  have := List.filter_eq_nil_iff.mp hnil r hr
  simpa using this

/-- the horizon computed while `cl` are inside Commit / Rollback is safe in the state after the step -/
theorem gcHzX_safe {c : Sys} (i : Inv c) (cl : List Nat) :
    SafeHz cl (gcDrawX c cl) (gcHzX c cl) ∧ gcHzX c cl ≤ (gcDrawX c cl).counter := by
  unfold gcDrawX gcHzX SafeHz
  cases hhead : (liveReg c cl).head? with
  | some tx =>
    obtain ⟨hm, _, hmin⟩ := liveReg_head i hhead
    exact ⟨hmin, (i.regBound tx hm).2⟩
  | none =>
    refine ⟨?_, Nat.le_refl _⟩
    intro r hr hrc
    exact absurd (liveReg_none hhead r hr) hrc

/-- the horizon step as two entries of the log: the collector's own entry (on which the
    specification draws a number exactly when no transaction is open) and the counter's value after
    the step -/
theorem gcDrawX_R {c : Sys} {s : State} {cl : List Nat} (h : Rx cl c s) :
    Rx cl (gcDrawX c cl) (Spec.tick (Spec.step s .gc).1 (gcDrawX c cl).counter) := by
  have hspec : (Spec.step s .gc).1 = if s.open_.isEmpty then { s with clock := s.clock + 1 } else s := rfl
  have he := open_empty_iff h
  have hclk := h.clock
  cases hhead : (liveReg c cl).head? with
  | some tx =>
    obtain ⟨hm, _, _⟩ := liveReg_head h.inv hhead
    have hne : c.reg.head?.isNone = false := by
      cases hr : c.reg with
      | nil => rw [hr] at hm; cases hm
      | cons a t => rfl
    have e1 : gcDrawX c cl = c := by unfold gcDrawX; rw [hhead]
    rw [e1, hspec, if_neg (by rw [he, hne]; simp)]
    have : Spec.tick s c.counter = s := by
      cases s; simp only [Spec.tick] at *; simp [hclk]
    rw [this]; exact h
  | none =>
    have e1 : gcDrawX c cl = c.tick (c.counter + 1) := by
      unfold gcDrawX Sys.tick; rw [hhead]
      simp [Nat.max_eq_right (Nat.le_succ _)]
    have e2 : (gcDrawX c cl).counter = c.counter + 1 := by unfold gcDrawX; rw [hhead]
    rw [e2]
    by_cases hemp : s.open_.isEmpty = true
    · rw [hspec, if_pos hemp]
      have hreg : c.reg = [] := by
        rw [he] at hemp
        cases hr : c.reg with
        | nil => rfl
        | cons a t => rw [hr] at hemp; simp at hemp
      have e3 : gcDrawX c cl = gcDraw c := by
        unfold gcDrawX gcDraw; rw [hhead, hreg]; rfl
      have hd := gcDraw_R h
      rw [hspec, if_pos hemp] at hd
      rw [e3]
      have : Spec.tick { s with clock := s.clock + 1 } (c.counter + 1) = { s with clock := s.clock + 1 } := by
        simp [Spec.tick, hclk]
      rw [this]; exact hd
    · rw [hspec, if_neg hemp, e1]
      exact h.tick _

end FsDb
