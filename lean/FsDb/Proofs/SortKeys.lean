import FsDb.Model.Sys
/-! `sortKeys` (the model of `sort.Strings`): a sorted permutation. -/
namespace FsDb
open Sys

theorem mem_insertKey (k a : Key) (l : List Key) : a ∈ insertKey k l ↔ a = k ∨ a ∈ l := by
  induction l with
  | nil => simp [insertKey]
  | cons h t ih =>
    unfold insertKey
    split
    · simp
    · simp only [List.mem_cons, ih]
      constructor
      · rintro (h1 | h1 | h1)
        · exact Or.inr (Or.inl h1)
        · exact Or.inl h1
        · exact Or.inr (Or.inr h1)
      · rintro (h1 | h1 | h1)
        · exact Or.inr (Or.inl h1)
        · exact Or.inl h1
        · exact Or.inr (Or.inr h1)

theorem mem_sortKeys (a : Key) (l : List Key) : a ∈ sortKeys l ↔ a ∈ l := by
  induction l with
  | nil => simp [sortKeys]
  | cons h t ih =>
    show a ∈ insertKey h (sortKeys t) ↔ _
    rw [mem_insertKey, ih]; simp

theorem sorted_insertKey (k : Key) (l : List Key) (h : l.Pairwise (· ≤ ·)) :
    (insertKey k l).Pairwise (· ≤ ·) := by
  induction l with
  | nil => simp [insertKey]
  | cons a t ih =>
    unfold insertKey
    split
    · rename_i hka
      rw [List.pairwise_cons]
      refine ⟨?_, h⟩
      intro b hb
      simp only [List.mem_cons] at hb
      rcases hb with rfl | hb
      · exact hka
      · exact String.le_trans hka (List.rel_of_pairwise_cons h hb)
    · rename_i hka
      have hak : a ≤ k := Std.le_of_not_ge hka
      rw [List.pairwise_cons]
      refine ⟨?_, ih (List.Pairwise.of_cons h)⟩
      intro b hb
      rw [mem_insertKey] at hb
      rcases hb with rfl | hb
      · exact hak
      · exact List.rel_of_pairwise_cons h hb

/-- the key list is sorted (bytewise / code-point order) -/
theorem sorted_sortKeys (l : List Key) : (sortKeys l).Pairwise (· ≤ ·) := by
  induction l with
  | nil => simp [sortKeys]
  | cons h t ih => exact sorted_insertKey h _ ih

theorem nodup_insertKey (k : Key) (l : List Key) (h : l.Nodup) (hk : k ∉ l) : (insertKey k l).Nodup := by
  induction l with
  | nil => simp [insertKey]
  | cons a t ih =>
    unfold insertKey
    split
    · exact List.nodup_cons.mpr ⟨hk, h⟩
    · have hn := List.nodup_cons.mp h
      rw [List.nodup_cons]
      refine ⟨?_, ih hn.2 (fun hm => hk (List.mem_cons_of_mem _ hm))⟩
      rw [mem_insertKey]
      rintro (rfl | hm)
      · exact hk (by simp)
      · exact hn.1 hm

/-- … and has no duplicates if the input has none -/
theorem nodup_sortKeys (l : List Key) (h : l.Nodup) : (sortKeys l).Nodup := by
  induction l with
  | nil => simp [sortKeys]
  | cons a t ih =>
    have hn := List.nodup_cons.mp h
    exact nodup_insertKey a _ (ih hn.2) (fun hm => hn.1 ((mem_sortKeys a t).mp hm))

end FsDb
