import FsDb.Proofs.RecInv
/-!
  `Close` + `Open` (`core.Load`) refines the specification's `reopen`, in the same process or a
  fresh one; the refinement theorem for every history including reopenings.
-/
namespace FsDb
open Sys Spec

/-! ### `Load` picks the newest main version of every key -/

/-- the comparison `Load` folds over the records of one key -/
def pick (acc : Option Ver) (v : Ver) : Option Ver :=
  match acc with
  | none => some v
  | some a => if v.seq < a.seq then some a else some v

/-- the record `Load` keeps for key `k` -/
def winner (c : Sys) (k : Key) : Option Ver :=
  ((c.recs.filter (·.tx = mainTx)).filter (·.key = k)).foldl pick none

def Dominated (L r : Ver) : Prop := r.seq ≤ L.seq ∧ (r.seq = L.seq → r = L)

theorem fold_pick_unique_max (L : Ver) : ∀ (l : List Ver) (acc : Option Ver),
    (∀ r ∈ l, Dominated L r) → (∀ a, acc = some a → Dominated L a) → (L ∈ l ∨ acc = some L) →
    l.foldl pick acc = some L := by
  intro l
  induction l with
  | nil =>
    intro acc _ _ h
    rcases h with h | h
    · cases h
    · exact h
  | cons v l ih =>
    intro acc hl ha h
    simp only [List.foldl_cons]
    have hv := hl v (by simp)
    apply ih
    · exact fun r hr => hl r (List.mem_cons_of_mem _ hr)
    · intro a' ha'
      cases acc with
      | none => simp only [pick, Option.some.injEq] at ha'; subst ha'; exact hv
      | some a =>
        simp only [pick] at ha'
        split at ha'
        · simp only [Option.some.injEq] at ha'; subst ha'; exact ha a rfl
        · simp only [Option.some.injEq] at ha'; subst ha'; exact hv
    · rcases h with h | h
      · simp only [List.mem_cons] at h
        rcases h with rfl | h
        · right
          cases acc with
          | none => rfl
          | some a =>
            simp only [pick]
            have := (ha a rfl).1
            rw [if_neg (by omega)]
        · exact Or.inl h
      · right
        subst h
        simp only [pick]
        split
        · rfl
        · have h1 := hv.1
          have : v = L := hv.2 (by omega)
          rw [this]

theorem sorted_seq_inj {l : List Ver} (h : SortedSeq l) {a b : Ver} (ha : a ∈ l) (hb : b ∈ l) (he : a.seq = b.seq) : a = b := by
  obtain ⟨i, hi, rfl⟩ := List.getElem_of_mem ha
  obtain ⟨j, hj, rfl⟩ := List.getElem_of_mem hb
  rcases Nat.lt_trichotomy i j with hlt | heq | hgt
  · have := h.lt_of_lt hi hj hlt; omega
  · subst heq; rfl
  · have := h.lt_of_lt hj hi hgt; omega

theorem winner_eq {c : Sys} (i : Inv c) (ri : RecInv c) (k : Key) : winner c k = Sys.latest (c.main k) := by
  unfold winner
  cases hL : Sys.latest (c.main k) with
  | none =>
    have hnil := latest_none hL
    have : (c.recs.filter (·.tx = mainTx)).filter (·.key = k) = [] := by
      rw [List.filter_eq_nil_iff]
      intro r hr hk
      have hr2 := List.mem_filter.mp hr
      have hkey : r.key = k := by simpa using hk
      obtain ⟨w, hw, _⟩ := ri.recMain r hr2.1 (by simpa using hr2.2)
      rw [hkey, hnil] at hw; cases hw
    rw [this]; rfl
  | some L =>
    have hLm := latest_mem hL
    have hLall := i.main_sub_all hLm
    apply fold_pick_unique_max L
    · intro r hr
      have hr1 := List.mem_filter.mp hr
      have hr2 := List.mem_filter.mp hr1.1
      have hkey : r.key = k := by simpa using hr1.2
      obtain ⟨w, hw, h1, h2⟩ := ri.recMain r hr2.1 (by simpa using hr2.2)
      rw [hkey] at hw
      have hwl := latest_max (i.mainSorted k) hL w hw
      refine ⟨by omega, ?_⟩
      intro he
      have hrw : r = w := h2 (by omega)
      rw [hrw]
      exact sorted_seq_inj (i.mainSorted k) hw hLm (by omega)
    · intro a ha; cases ha
    · left
      refine List.mem_filter.mpr ⟨List.mem_filter.mpr ⟨ri.mainRec k L hLm, ?_⟩, ?_⟩
      · simpa using i.tagMain k L hLm
      · simpa using (i.bounds k L hLall).2.2.2

/-! ### the reopened state -/

/-- `Load`'s result, spelled out -/
theorem reopen_eq (c : Sys) (f : Bool) :
    (c.reopen f).1 =
      { c with counter := max (if f then 0 else c.counter) ((c.dom.filterMap (winner c)).foldl (fun m v => max m v.seq) 1),
               main := fun k => (winner c k).toList, all := fun k => (winner c k).toList,
               txs := fun _ => none, reg := [],
               pending := if (c.recs.filter (fun r => ¬ (c.dom.filterMap (winner c)).any (fun w => w.cid = r.cid))).isEmpty then []
                          else [c.recs.filter (fun r => ¬ (c.dom.filterMap (winner c)).any (fun w => w.cid = r.cid))] } := rfl

theorem foldl_max_ge (l : List Ver) (m : Nat) : m ≤ l.foldl (fun m v => max m v.seq) m := by
  induction l generalizing m with
  | nil => exact Nat.le_refl _
  | cons v l ih => exact Nat.le_trans (Nat.le_max_left _ _) (ih _)

theorem foldl_max_mem (l : List Ver) (m : Nat) (v : Ver) (hv : v ∈ l) : v.seq ≤ l.foldl (fun m v => max m v.seq) m := by
  induction l generalizing m with
  | nil => cases hv
  | cons u l ih =>
    simp only [List.foldl_cons]
    rcases List.mem_cons.mp hv with rfl | h
    · exact Nat.le_trans (Nat.le_max_right _ _) (foldl_max_ge l _)
    · exact ih _ h

theorem foldl_max_le (l : List Ver) (m b : Nat) (hm : m ≤ b) (hl : ∀ v ∈ l, v.seq ≤ b) :
    l.foldl (fun m v => max m v.seq) m ≤ b := by
  induction l generalizing m with
  | nil => exact hm
  | cons u l ih =>
    simp only [List.foldl_cons]
    exact ih _ (Nat.max_le.mpr ⟨hm, hl u (by simp)⟩) (fun v hv => hl v (List.mem_cons_of_mem _ hv))

/-- the two folds (`Load`'s over the kept records, the specification's over committed stamps) agree -/
theorem foldl_max_map (l : List Ver) (m : Nat) :
    l.foldl (fun m v => max m v.seq) m = (l.map (·.seq)).foldl max m := by
  induction l generalizing m with
  | nil => rfl
  | cons u l ih => simp only [List.foldl_cons, List.map_cons]; exact ih _

theorem Inv.reopen {c : Sys} (i : Inv c) (ri : RecInv c) (f : Bool) : Inv (c.reopen f).1 := by
  rw [reopen_eq]
  have hw : ∀ k v, v ∈ (winner c k).toList → v ∈ c.main k := by
    intro k v hv
    rw [winner_eq i ri k] at hv
    cases hL : Sys.latest (c.main k) with
    | none => rw [hL] at hv; cases hv
    | some L => rw [hL] at hv; simp at hv; subst hv; exact latest_mem hL
  have hsorted : ∀ k, SortedSeq ((winner c k).toList) := by
    intro k; cases winner c k <;> simp [SortedSeq]
  have hkeep : ∀ k v, v ∈ (winner c k).toList → v ∈ c.dom.filterMap (winner c) := by
    intro k v hv
    have hk : k ∈ c.dom := i.domAll k (List.ne_nil_of_mem (i.main_sub_all (hw k v hv)))
    cases hwk : winner c k with
    | none => rw [hwk] at hv; cases hv
    | some x =>
      rw [hwk] at hv; simp at hv; subst hv
      exact List.mem_filterMap.mpr ⟨k, hk, hwk⟩
  refine ⟨hsorted, ?_, hsorted, ?_, ?_, ?_, ?_, ?_, ?_, ?_, ?_, ?_, ?_, ?_, ?_, ?_, ?_, ?_, ?_, ?_, ?_⟩
  · intro t st h; cases h
  · intro k v
    constructor
    · intro hv; exact Or.inl hv
    · rintro (hv | ⟨t, st, h, _⟩)
      · exact hv
      · cases h
  · intro k v hv
    have hb := i.bounds k v (i.main_sub_all (hw k v hv))
    refine ⟨hb.1, ?_, hb.2.2.1, hb.2.2.2⟩
    exact Nat.le_trans (foldl_max_mem _ 1 v (hkeep k v hv)) (Nat.le_max_right _ _)
  · intro k k' v v' hv hv' he
    exact i.cidUnique k k' v v' (i.main_sub_all (hw k v hv)) (i.main_sub_all (hw k' v' hv')) he
  · exact List.Pairwise.nil
  · intro r hr; cases hr
  · exact List.Pairwise.nil
  · intro r hr; cases hr
  · intro t st h; cases h
  · intro r hr; cases hr
  · intro r hr; cases hr
  · intro k v hv
    exact i.stor k v (i.main_sub_all (hw k v hv))
  · exact i.cfsBound
  · -- the delete job holds exactly the records that were not kept
    intro job hjob v hv k w hw' he
    have hjob' : job ∈ (if (c.recs.filter (fun r => ¬ (c.dom.filterMap (winner c)).any (fun w => w.cid = r.cid))).isEmpty then []
                          else [c.recs.filter (fun r => ¬ (c.dom.filterMap (winner c)).any (fun w => w.cid = r.cid))]) := hjob
    by_cases he0 : (c.recs.filter (fun r => ¬ (c.dom.filterMap (winner c)).any (fun w => w.cid = r.cid))).isEmpty = true
    · rw [if_pos he0] at hjob'; cases hjob'
    · rw [if_neg he0] at hjob'
      simp only [List.mem_singleton] at hjob'
      subst hjob'
      have hvf := (List.mem_filter.mp hv).2
      have hwk := hkeep k w hw'
      have hany : (c.dom.filterMap (winner c)).any (fun w => decide (w.cid = v.cid)) = true :=
        List.any_eq_true.mpr ⟨w, hwk, by simpa using he⟩
      simp [hany] at hvf
  · intro job hjob v hv
    have hjob' : job ∈ (if (c.recs.filter (fun r => ¬ (c.dom.filterMap (winner c)).any (fun w => w.cid = r.cid))).isEmpty then []
                          else [c.recs.filter (fun r => ¬ (c.dom.filterMap (winner c)).any (fun w => w.cid = r.cid))]) := hjob
    by_cases he0 : (c.recs.filter (fun r => ¬ (c.dom.filterMap (winner c)).any (fun w => w.cid = r.cid))).isEmpty = true
    · rw [if_pos he0] at hjob'; cases hjob'
    · rw [if_neg he0] at hjob'
      simp only [List.mem_singleton] at hjob'
      subst hjob'
      have hvr := (List.mem_filter.mp hv).1
      exact ri.recBound v hvr
  · intro k hne
    obtain ⟨v, hv⟩ := List.exists_mem_of_ne_nil _ hne
    exact i.domAll k (List.ne_nil_of_mem (i.main_sub_all (hw k v hv)))
  · exact i.domNodup
  · intro k v hv; exact i.tagMain k v (hw k v hv)
  · intro t st h; cases h

theorem RecInv.reopen {c : Sys} (i : Inv c) (ri : RecInv c) (f : Bool) : RecInv (c.reopen f).1 := by
  rw [reopen_eq]
  refine ⟨?_, ?_, ?_, ri.recBound⟩
  · intro k v hv
    have hv' : v ∈ (winner c k).toList := hv
    rw [winner_eq i ri k] at hv'
    cases hL : Sys.latest (c.main k) with
    | none => rw [hL] at hv'; cases hv'
    | some L =>
      rw [hL] at hv'; simp at hv'; subst hv'
      exact ri.mainRec k v (latest_mem hL)
  · intro t st h; cases h
  · intro r hr ht
    obtain ⟨w, hw, h1, h2⟩ := ri.recMain r hr ht
    show ∃ w ∈ (winner c r.key).toList, _
    rw [winner_eq i ri r.key]
    cases hL : Sys.latest (c.main r.key) with
    | none => rw [latest_none hL] at hw; cases hw
    | some L =>
      have hwl := latest_max (i.mainSorted r.key) hL w hw
      refine ⟨L, by simp, by omega, ?_⟩
      intro he
      have hrw : r = w := h2 (by omega)
      rw [hrw]
      exact sorted_seq_inj (i.mainSorted r.key) hw (latest_mem hL) (by omega)

theorem dropLast_append_latest {l : List Ver} {L : Ver} (h : Sys.latest l = some L) : l = l.dropLast ++ [L] := by
  unfold Sys.latest at h
  have hne : l ≠ [] := by intro e; subst e; cases h
  rw [List.getLast?_eq_some_getLast hne] at h
  cases h
  exact (List.dropLast_concat_getLast hne).symm

theorem filterMap_congr' {α β} {f g : α → Option β} {l : List α} (h : ∀ a ∈ l, f a = g a) :
    l.filterMap f = l.filterMap g := by
  induction l with
  | nil => rfl
  | cons a l ih =>
    simp only [List.filterMap_cons, h a (by simp)]
    rw [ih (fun b hb => h b (List.mem_cons_of_mem _ hb))]

theorem reopen_main {c : Sys} (i : Inv c) (ri : RecInv c) (f : Bool) (k : Key) :
    (c.reopen f).1.main k = (Sys.latest (c.main k)).toList := by
  rw [reopen_eq]; show (winner c k).toList = _; rw [winner_eq i ri k]

theorem reopen_reg (c : Sys) (f : Bool) : (c.reopen f).1.reg = [] := by rw [reopen_eq]
theorem reopen_dom (c : Sys) (f : Bool) : (c.reopen f).1.dom = c.dom := by rw [reopen_eq]

/-- `Close`+`Open` refines the specification's `reopen` -/
theorem R.reopen {c : Sys} {s : State} (h : R c s) (ri : RecInv c) (f : Bool) :
    R (c.reopen f).1 (Spec.reopen s f).1 := by
  have i := h.inv
  have i' := Inv.reopen i ri f
  refine ⟨i', ?_, ?_, ?_, ?_, ?_, ?_⟩
  · -- the clock
    rw [reopen_eq]
    show max (if f then 0 else s.clock) ((s.dom.filterMap (fun k => (committed s k).map (·.stamp))).foldl max 1)
        = max (if f then 0 else c.counter) ((c.dom.filterMap (winner c)).foldl (fun m v => max m v.seq) 1)
    rw [h.clock, h.dom, foldl_max_map, List.map_filterMap]
    congr 2
    apply filterMap_congr'
    intro k _
    rw [committed_eq h k, winner_eq i ri k]
    cases Sys.latest (c.main k) <;> rfl
  · rw [reopen_eq]; exact h.dom
  · rw [reopen_eq]; rfl
  · intro t ht; cases ht
  · intro k
    rw [reopen_main i ri f k, reopen_reg]
    obtain ⟨pre, hh, hlt, hne⟩ := h.hist k
    cases hL : Sys.latest (c.main k) with
    | none =>
      have hm := latest_none hL
      have hp : pre = [] := by
        cases pre with
        | nil => rfl
        | cons p ps =>
          obtain ⟨hd, hhd, _⟩ := hne (by simp)
          rw [hm] at hhd; cases hhd
      refine ⟨[], ?_, ?_, ?_⟩
      · show s.hist k = _
        rw [hh, hp, hm]; rfl
      · intro p hp; cases hp
      · intro hx; exact absurd rfl hx
    | some L =>
      have hsplit := dropLast_append_latest hL
      refine ⟨pre ++ (c.main k).dropLast.map absV, ?_, ?_, ?_⟩
      · show s.hist k = _
        rw [hh]
        conv => lhs; rw [hsplit]
        simp
      · intro p hp v hv
        simp only [Option.toList_some, List.mem_singleton] at hv
        subst hv
        rcases List.mem_append.mp hp with hp | hp
        · exact hlt p hp v (latest_mem hL)
        · obtain ⟨u, hu, rfl⟩ := List.mem_map.mp hp
          have hs := i.mainSorted k
          rw [hsplit] at hs
          unfold SortedSeq at hs
          exact (List.pairwise_append.mp hs).2.2 u hu v (by simp)
      · intro _
        exact ⟨L, rfl, by intro r hr; cases hr⟩
  · intro k hk
    rw [reopen_dom]
    exact h.histDom k hk

/-- every operation except the directory walk -/
def Op.total : Op → Bool
  | .tree => false
  | _ => true

theorem RecInv.step {c : Sys} {s : State} (h : R c s) (ri : RecInv c) (op : Op) (hop : op.total = true) :
    RecInv (c.step op).1 := by
  cases op with
  | begin t l => exact ri.begin t l
  | set t k n => exact ri.set t k n
  | del t k => exact ri.del t k
  | get t k => exact ri
  | keys t => exact ri
  | commit t => exact RecInv.commit h.inv ri t
  | rollback t => exact ri.rollback t
  | gc => exact RecInv.gc h.inv ri
  | drain => exact RecInv.drain h.inv ri
  | reopen f => exact RecInv.reopen h.inv ri f
  | tree => simp [Op.total] at hop

/-- one step of any operation, reopenings included: same answer, related states -/
theorem Refine.step_all {c : Sys} {s : State} (h : R c s) (ri : RecInv c) (op : Op) (hop : op.total = true) :
    (c.step op).2 = (Spec.step s op).2 ∧ R (c.step op).1 (Spec.step s op).1 ∧ RecInv (c.step op).1 := by
  have hri := RecInv.step h ri op hop
  cases op with
  | reopen f => exact ⟨rfl, R.reopen h ri f, hri⟩
  | tree => simp [Op.total] at hop
  | begin t l => exact ⟨(Refine.step h _ rfl).1, (Refine.step h _ rfl).2, hri⟩
  | set t k n => exact ⟨(Refine.step h _ rfl).1, (Refine.step h _ rfl).2, hri⟩
  | del t k => exact ⟨(Refine.step h _ rfl).1, (Refine.step h _ rfl).2, hri⟩
  | get t k => exact ⟨(Refine.step h _ rfl).1, (Refine.step h _ rfl).2, hri⟩
  | keys t => exact ⟨(Refine.step h _ rfl).1, (Refine.step h _ rfl).2, hri⟩
  | commit t => exact ⟨(Refine.step h _ rfl).1, (Refine.step h _ rfl).2, hri⟩
  | rollback t => exact ⟨(Refine.step h _ rfl).1, (Refine.step h _ rfl).2, hri⟩
  | gc => exact ⟨(Refine.step h _ rfl).1, (Refine.step h _ rfl).2, hri⟩
  | drain => exact ⟨(Refine.step h _ rfl).1, (Refine.step h _ rfl).2, hri⟩

/-- **Refinement for every history, reopenings (same or fresh process) included.** -/
theorem Refine.run_all {c : Sys} {s : State} (h : R c s) (ri : RecInv c) (ops : List Op)
    (hops : ∀ op ∈ ops, op.total = true) :
    (c.run ops).2 = (Spec.run s ops).2 ∧ R (c.run ops).1 (Spec.run s ops).1 ∧ RecInv (c.run ops).1 := by
  induction ops generalizing c s with
  | nil => exact ⟨rfl, h, ri⟩
  | cons op ops ih =>
    have hs := Refine.step_all h ri op (hops op (by simp))
    have := ih hs.2.1 hs.2.2 (fun o ho => hops o (List.mem_cons_of_mem _ ho))
    simp only [Sys.run, Spec.run]
    exact ⟨by rw [hs.1, this.1], this.2⟩

theorem Refine.run_all_init (ops : List Op) (hops : ∀ op ∈ ops, op.total = true) :
    (({} : Sys).run ops).2 = (Spec.run {} ops).2 :=
  (Refine.run_all R.init RecInv.init ops hops).1

end FsDb
