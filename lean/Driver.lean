import FsDb.Driver.Main
def main : IO Unit := FsDb.Driver.main
