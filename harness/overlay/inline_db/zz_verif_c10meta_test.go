package db

// Harness-owned (overlay). C10: the metadata store (Badger) refuses a write at one of the stages of a
// store.Set — the fileContent record (stage 2) or the version record (stage 3) — or the batch of a
// Commit.  The failing call must return an error, and nobody may see a trace of it: the key keeps its
// value for every reader (autocommit, the writing transaction itself, after its Commit), a key that
// was never written successfully stays absent from Get and GetKeys, a refused Commit publishes nothing.

import (
	"encoding/json"
	"errors"
	"fmt"
	"io"
	"os"
	"path/filepath"
	"strings"
	"sync/atomic"
	"testing"

	"github.com/glebziz/fs_db"
	"github.com/glebziz/fs_db/internal/model"
	"github.com/glebziz/fs_db/internal/verifhook"
)

func TestVerifC10Meta(t *testing.T) {
	out := os.Getenv("VERIF_OUT")
	if out == "" {
		t.Skip("VERIF_OUT not set")
	}
	var bad []string
	cases := 0
	injected := errors.New("injected metadata failure")
	var armed atomic.Value // string: key prefix ("" = disarmed)
	armed.Store("")
	var fired atomic.Int64
	verifhook.SetFaultMeta(func(kind, key string) error {
		p := armed.Load().(string)
		if p == "" {
			return nil
		}
		if (p == "bbatch" && kind == "bbatch") || (kind == "bset" && p != "bbatch" && strings.HasPrefix(key, p)) {
			fired.Add(1)
			return injected
		}
		return nil
	})
	defer verifhook.SetFaultMeta(nil)
	read := func(st fs_db.Store, im *seqImpl, k string) string {
		b, err := st.Get(im.ctx, k)
		if err != nil {
			return canonErr(err)
		}
		if len(b) < 16 {
			return "v:" + string(b)
		}
		return contentOf(b)
	}
	keysOf := func(st fs_db.Store, im *seqImpl) string {
		ks, err := st.GetKeys(im.ctx)
		if err != nil {
			return canonErr(err)
		}
		return "keys:" + strings.Join(ks, ",")
	}
	for _, target := range []string{"fileContent/", "file/"} {
		for _, via := range []string{"set", "reader", "create"} {
			for _, inTx := range []bool{false, true} {
				cases++
				name := fmt.Sprintf("%s refused, write by %s, in transaction=%v", target+"<id>", via, inTx)
				dir := filepath.Join(out, fmt.Sprintf("c10meta-%d", cases))
				os.RemoveAll(dir)
				im := newSeqImpl(dir, 2)
				if err := im.open(); err != nil {
					t.Fatal(err)
				}
				if err := im.d.Set(im.ctx, "k", []byte("old")); err != nil {
					t.Fatal(err)
				}
				var st fs_db.Store = im.d
				var tx fs_db.Tx
				if inTx {
					tx, _ = im.d.Begin(im.ctx)
					st = tx
				}
				data := payload(1_000_000_000_000 + 70000)
				write := func(key string) error {
					switch via {
					case "reader":
						return st.SetReader(im.ctx, key, &shortReader{b: append([]byte(nil), data...), rng: &seqRng{s: 5}})
					case "create":
						w, err := st.Create(im.ctx, key)
						if err != nil {
							return err
						}
						_, werr := io.Copy(w, &shortReader{b: append([]byte(nil), data...), rng: &seqRng{s: 6}})
						cerr := w.Close()
						if werr != nil {
							return werr
						}
						return cerr
					}
					return st.Set(im.ctx, key, data)
				}
				fired.Store(0)
				armed.Store(target)
				e1 := write("k")
				e2 := write("fresh")
				armed.Store("")
				if fired.Load() == 0 {
					bad = append(bad, name+": the fault was never reached (harness)")
				}
				if e1 == nil || e2 == nil {
					bad = append(bad, fmt.Sprintf("%s: the write returned %v / %v although its metadata write failed", name, e1, e2))
				}
				check := func(who string, s fs_db.Store) {
					if got := read(s, im, "k"); got != "v:old" {
						bad = append(bad, fmt.Sprintf("%s: %s reads k = %.40s after the failed write (expected the old value)", name, who, got))
					}
					if got := read(s, im, "fresh"); got != "e:NotFound" {
						bad = append(bad, fmt.Sprintf("%s: %s reads the never-written key = %.40s", name, who, got))
					}
					if got := keysOf(s, im); got != "keys:k" {
						bad = append(bad, fmt.Sprintf("%s: %s lists %.60s", name, who, got))
					}
				}
				check("an autocommit reader", im.d)
				if inTx {
					check("the writing transaction", tx)
					if err := tx.Commit(im.ctx); err != nil {
						bad = append(bad, fmt.Sprintf("%s: Commit of the transaction (which wrote nothing successfully): %v", name, err))
					}
					check("an autocommit reader after the Commit", im.d)
				}
				drainPool()
				im.close()
				if err := im.open(); err != nil {
					t.Fatal(err)
				}
				check("a reader after reopen", im.d)
				im.close()
				os.RemoveAll(dir)
			}
		}
	}
	// a Commit whose Badger transaction is refused publishes nothing
	for _, lvl := range []int{1, 3} {
		cases++
		name := fmt.Sprintf("Commit refused by the metadata store (level %d)", lvl)
		dir := filepath.Join(out, fmt.Sprintf("c10meta-%d", cases))
		os.RemoveAll(dir)
		im := newSeqImpl(dir, 1)
		if err := im.open(); err != nil {
			t.Fatal(err)
		}
		im.d.Set(im.ctx, "k", []byte("old"))
		tx, _ := im.d.Begin(im.ctx, model.TxIsoLevel(lvl))
		tx.Set(im.ctx, "k", []byte("new"))
		tx.Set(im.ctx, "j", []byte("new-j"))
		fired.Store(0)
		armed.Store("bbatch")
		err := tx.Commit(im.ctx)
		armed.Store("")
		if err == nil || fired.Load() == 0 {
			bad = append(bad, fmt.Sprintf("%s: Commit returned %v (fault reached %d times)", name, err, fired.Load()))
		}
		if got := read(im.d, im, "k"); got != "v:old" {
			bad = append(bad, fmt.Sprintf("%s: k reads %.40s afterwards", name, got))
		}
		if got := keysOf(im.d, im); got != "keys:k" {
			bad = append(bad, fmt.Sprintf("%s: GetKeys = %.60s afterwards", name, got))
		}
		drainPool()
		im.close()
		os.RemoveAll(dir)
	}
	b, _ := json.Marshal(map[string]any{"cases": cases, "bad": bad})
	os.WriteFile(filepath.Join(out, "c10meta.json"), b, 0o644)
}
