package db

// Harness-owned (overlay). C15: free-running concurrent clients on one DB handle, meant to be run
// with the race detector (`go test -race`).  First use of every operation happens right after Open
// from several goroutines at once; collector passes and rollbacks run alongside.

import (
	"fmt"
	"os"
	"path/filepath"
	"strconv"
	"sync"
	"testing"

	"github.com/glebziz/fs_db"
	"github.com/glebziz/fs_db/internal/model"
)

func TestVerifC15(t *testing.T) {
	out := os.Getenv("VERIF_OUT")
	if out == "" {
		t.Skip("VERIF_OUT not set")
	}
	rounds, _ := strconv.Atoi(os.Getenv("VERIF_ROUNDS"))
	if rounds == 0 {
		rounds = 6
	}
	ops := 0
	for r := 0; r < rounds; r++ {
		dir := filepath.Join(out, fmt.Sprintf("c15-%d", r))
		os.RemoveAll(dir)
		im := newSeqImpl(dir, 2)
		if err := im.open(); err != nil {
			t.Fatal(err)
		}
		var wg sync.WaitGroup
		start := make(chan struct{})
		worker := func(id int) {
			defer wg.Done()
			<-start
			ctx := im.ctx
			for i := 0; i < 25; i++ {
				k := fmt.Sprintf("k%d", (id+i)%4)
				switch (id + i) % 7 {
				case 0:
					im.d.Set(ctx, k, []byte(fmt.Sprint(id, i)))
				case 1:
					im.d.Get(ctx, k)
				case 2:
					im.d.GetKeys(ctx)
				case 3:
					tx, err := im.d.Begin(ctx, fs_db.IsoLevelReadUncommitted+model.TxIsoLevel((id+i)%4))
					if err == nil {
						tx.Set(ctx, k, []byte("t"))
						tx.Get(ctx, k)
						tx.GetKeys(ctx)
						if i%2 == 0 {
							tx.Commit(ctx)
						} else {
							tx.Rollback(ctx)
						}
					}
				case 4:
					im.d.Delete(ctx, k)
				case 5:
					w, err := im.d.Create(ctx, k)
					if err == nil {
						w.Write([]byte("abc"))
						w.Write(nil)
						w.Write([]byte("def"))
						w.Close()
					}
				case 6:
					im.d.container.Cleaner().DeleteOld(ctx)
				}
			}
		}
		n := 8
		for id := 0; id < n; id++ {
			wg.Add(1)
			go worker(id + r) // different first operations in different rounds
		}
		// directory rollover (a directory reaches the limit of 100 entries and is replaced) while the
		// collector and the worker pool delete files of superseded versions: the directory table is
		// written by the Sets and by the deletions
		wg.Add(2)
		go func() {
			defer wg.Done()
			<-start
			for i := 0; i < 230; i++ {
				im.d.Set(im.ctx, fmt.Sprintf("roll-%d-%d", r, i), []byte("x"))
				im.d.Set(im.ctx, "hot", []byte(fmt.Sprint(i)))
			}
		}()
		go func() {
			defer wg.Done()
			<-start
			for i := 0; i < 120; i++ {
				im.d.container.Cleaner().DeleteOld(im.ctx)
			}
		}()
		close(start)
		wg.Wait()
		ops += n*25 + 580
		drainPool()
		im.close()
		os.RemoveAll(dir)
	}
	os.WriteFile(filepath.Join(out, "c15.stats.json"), []byte(fmt.Sprintf(`{"rounds": %d, "ops": %d}`, rounds, ops)), 0o644)
}
