package db

// Harness-owned (overlay). Enforced-schedule exploration of small concurrent client programs on the
// real inline database (C06, C07, C08).  Actors are goroutines; every verifhook.Point and every
// operation boundary is a yield point; a schedule is a sequence of actor names.  For every explored
// schedule the harness records the event trace and every operation's answer and enumerates the
// sequential orders of the operations that respect program order and real-time order; the check then
// asks the Lean specification (through the driver) whether one of them explains the answers
// (linearizability against Spec.Iso).

import (
	"encoding/json"
	"fmt"
	"os"
	"path/filepath"
	"runtime"
	"strconv"
	"strings"
	"sync"
	"testing"
	"time"

	"github.com/glebziz/fs_db/internal/verifhook"
)

func goid() int64 {
	var buf [64]byte
	n := runtime.Stack(buf[:], false)
	f := strings.Fields(string(buf[:n]))
	id, _ := strconv.ParseInt(f[1], 10, 64)
	return id
}

type cActor struct {
	name    string
	prog    []string
	results []string
	events  chan string // "park:<point>" | "done"
	resume  chan struct{}
	done    bool
	blocked bool
	pending string // event received while we were not waiting for it
	points  map[string]bool
}

type cSched struct {
	mu     sync.Mutex
	byGid  map[int64]*cActor
	actors []*cActor
	trace  []string
	opSeq  int
}

func (s *cSched) lookup() *cActor {
	g := goid()
	s.mu.Lock()
	defer s.mu.Unlock()
	return s.byGid[g]
}

func (s *cSched) yield(point string) {
	a := s.lookup()
	if a == nil {
		return
	}
	if !strings.HasPrefix(point, "op:") && a.points != nil && !a.points[point] {
		return
	}
	a.events <- "park:" + point
	<-a.resume
}

func (s *cSched) log(ev string) {
	s.mu.Lock()
	s.trace = append(s.trace, ev)
	s.mu.Unlock()
}

type cScenario struct {
	Name   string
	Roots  int
	Setup  []string
	Actors map[string][]string
	Order  []string        // actor names in a fixed order
	Points map[string]bool // hook points that are yield points in this scenario (nil = all)
	Final  []string
}

type cOp struct {
	Actor string `json:"actor"`
	Idx   int    `json:"idx"`
	Op    string `json:"op"`
	Res   string `json:"res"`
	Inv   int    `json:"inv"` // position of the invocation in the trace
	Ret   int    `json:"ret"`
}

type cRun struct {
	Scenario string     `json:"scenario"`
	Sched    []string   `json:"sched"`
	Trace    []string   `json:"trace"`
	Setup    []string   `json:"setup"`
	SetupRes []string   `json:"setup_res"`
	Ops      []cOp      `json:"ops"`
	Final    []string   `json:"final"`
	FinalRes []string   `json:"final_res"`
	Storage  []string   `json:"storage"` // after the final reads: answers of `drain`, `tree` (small-step replay only)
	Hang     bool       `json:"hang"`
	Stacks   string     `json:"stacks,omitempty"`
	Cands    [][]int    `json:"cands"` // candidate linearizations: indices into Ops
	Choices  [][]string `json:"choices"`
}

const stepTimeout = 40 * time.Millisecond

// runSchedule executes one scenario under one schedule prefix; returns the run and, for the DFS, the
// set of enabled actors observed at every decision point.
func runSchedule(dir string, sc cScenario, schedule []string, rng *seqRng) cRun {
	im := newSeqImpl(dir, sc.Roots)
	if err := im.open(); err != nil {
		panic(err)
	}
	run := cRun{Scenario: sc.Name, Setup: sc.Setup, Final: sc.Final}
	for _, l := range sc.Setup {
		run.SetupRes = append(run.SetupRes, im.exec(strings.Fields(l), rng))
	}
	s := &cSched{byGid: map[int64]*cActor{}}
	for _, name := range sc.Order {
		a := &cActor{name: name, prog: sc.Actors[name], events: make(chan string, 4), resume: make(chan struct{}), points: sc.Points}
		s.actors = append(s.actors, a)
	}
	ops := map[string][]*cOp{}
	verifhook.SetAnyPoint(func(name string) { s.yield(name) })
	if sc.Points["mut:bset"] {
		verifhook.SetMut(func(kind, key string, n int) {
			if kind == "bset" && strings.HasPrefix(key, "file/") {
				s.yield("mut:bset")
			}
		})
		defer verifhook.SetMut(nil)
	}
	var wg sync.WaitGroup
	for _, a := range s.actors {
		wg.Add(1)
		a := a
		started := make(chan struct{})
		go func() {
			defer wg.Done()
			s.mu.Lock()
			s.byGid[goid()] = a
			s.mu.Unlock()
			close(started)
			for i, line := range a.prog {
				s.yield(fmt.Sprintf("op:%d", i))
				f := strings.Fields(line)
				op := &cOp{Actor: a.name, Idx: i, Op: line}
				s.mu.Lock()
				op.Inv = len(s.trace)
				s.trace = append(s.trace, fmt.Sprintf("inv %s %s", a.name, line))
				ops[a.name] = append(ops[a.name], op)
				s.mu.Unlock()
				res := im.exec(f, &seqRng{s: uint64(i) + 7})
				s.mu.Lock()
				op.Res = res
				op.Ret = len(s.trace)
				s.trace = append(s.trace, fmt.Sprintf("ret %s %s", a.name, res))
				s.mu.Unlock()
			}
			a.events <- "done"
		}()
		<-started
	}
	byName := map[string]*cActor{}
	for _, a := range s.actors {
		byName[a.name] = a
	}
	// every actor first parks at op:0
	for _, a := range s.actors {
		ev := <-a.events
		a.pending = ev
	}
	enabled := func() []string {
		var e []string
		for _, a := range s.actors {
			if a.done {
				continue
			}
			if a.blocked {
				select {
				case ev := <-a.events:
					a.pending, a.blocked = ev, false
				default:
					continue
				}
			}
			if a.pending == "done" {
				a.done = true
				continue
			}
			e = append(e, a.name)
		}
		return e
	}
	step := func(name string) {
		a := byName[name]
		s.log(fmt.Sprintf("step %s from %s", name, strings.TrimPrefix(a.pending, "park:")))
		a.pending = ""
		a.resume <- struct{}{}
		select {
		case ev := <-a.events:
			if ev == "done" {
				a.done = true
				s.log("done " + name)
			} else {
				a.pending = ev
			}
		case <-time.After(stepTimeout):
			a.blocked = true
			s.log("blocked " + name)
		}
	}
	i := 0
	for {
		en := enabled()
		run.Choices = append(run.Choices, en)
		if len(en) == 0 {
			// everybody done or blocked: wait a little for blocked ones
			allDone := true
			for _, a := range s.actors {
				if !a.done {
					allDone = false
				}
			}
			if allDone {
				break
			}
			deadline := time.After(3 * time.Second)
			woke := false
			for !woke {
				select {
				case <-deadline:
					run.Hang = true
					buf := make([]byte, 1<<16)
					run.Stacks = string(buf[:runtime.Stack(buf, true)])
					woke = true
				default:
					if len(enabled()) > 0 {
						woke = true
					} else {
						ad := true
						for _, a := range s.actors {
							if !a.done {
								ad = false
							}
						}
						if ad {
							woke = true
						}
						time.Sleep(time.Millisecond)
					}
				}
			}
			if run.Hang {
				break
			}
			run.Choices = run.Choices[:len(run.Choices)-1]
			continue
		}
		var pick string
		if i < len(schedule) {
			pick = schedule[i]
			ok := false
			for _, e := range en {
				if e == pick {
					ok = true
				}
			}
			if !ok {
				pick = en[0]
			}
		} else {
			pick = en[0] // default continuation: lowest actor first (run to completion)
		}
		run.Sched = append(run.Sched, pick)
		step(pick)
		i++
	}
	verifhook.SetAnyPoint(nil)
	if !run.Hang {
		wg.Wait()
		for _, l := range sc.Final {
			run.FinalRes = append(run.FinalRes, im.exec(strings.Fields(l), rng))
		}
		for _, l := range []string{"drain", "tree"} {
			run.Storage = append(run.Storage, im.exec(strings.Fields(l), rng))
		}
		im.close()
	}
	s.mu.Lock()
	run.Trace = s.trace
	s.mu.Unlock()
	for _, name := range sc.Order {
		for _, op := range ops[name] {
			run.Ops = append(run.Ops, *op)
		}
	}
	run.Cands = linearizations(run.Ops)
	os.RemoveAll(dir)
	return run
}

// all total orders of ops respecting program order and real-time order (ret(a) < inv(b) => a before b)
func linearizations(ops []cOp) [][]int {
	n := len(ops)
	var res [][]int
	used := make([]bool, n)
	cur := make([]int, 0, n)
	var rec func()
	rec = func() {
		if len(res) > 20000 {
			return
		}
		if len(cur) == n {
			res = append(res, append([]int(nil), cur...))
			return
		}
		for i := 0; i < n; i++ {
			if used[i] {
				continue
			}
			ok := true
			for j := 0; j < n && ok; j++ {
				if used[j] || j == i {
					continue
				}
				// j must come before i?
				if ops[j].Actor == ops[i].Actor && ops[j].Idx < ops[i].Idx {
					ok = false
				}
				if ops[j].Ret != 0 && ops[j].Ret < ops[i].Inv {
					ok = false
				}
			}
			if !ok {
				continue
			}
			used[i] = true
			cur = append(cur, i)
			rec()
			cur = cur[:len(cur)-1]
			used[i] = false
		}
	}
	rec()
	return res
}

func concScenarios(which string) []cScenario {
	k1, k2 := hexKey("k1"), hexKey("k2")
	all := map[string][]cScenario{
		// C07: two / three snapshot committers with intersecting write sets (+ autocommit writer)
		"c07": {
			{Name: "2ser-1key", Roots: 1, Setup: []string{"s 0 " + k1 + " 300"},
				Actors: map[string][]string{"T1": {"b 1 SER", "s 1 " + k1 + " 301", "c 1"}, "T2": {"b 2 SER", "s 2 " + k1 + " 302", "c 2"}},
				Order: []string{"T1", "T2"}, Points: map[string]bool{"utx.start": true, "utx.betweenAB": true, "utx.seqB": true},
				Final: []string{"g 0 " + k1, "k 0"}},
			{Name: "2rr-2keys", Roots: 1, Setup: []string{"s 0 " + k1 + " 300", "s 0 " + k2 + " 310"},
				Actors: map[string][]string{"T1": {"b 1 RR", "s 1 " + k1 + " 301", "s 1 " + k2 + " 311", "c 1"}, "T2": {"b 2 SER", "s 2 " + k2 + " 312", "c 2"}},
				Order: []string{"T1", "T2"}, Points: map[string]bool{"utx.betweenAB": true},
				Final: []string{"g 0 " + k1, "g 0 " + k2}},
			{Name: "2ser+writer", Roots: 1, Setup: []string{"s 0 " + k1 + " 300"},
				Actors: map[string][]string{"T1": {"b 1 SER", "s 1 " + k1 + " 301", "c 1"}, "T2": {"b 2 SER", "d 2 " + k1, "c 2"}, "W": {"s 0 " + k1 + " 303"}},
				Order: []string{"T1", "T2", "W"}, Points: map[string]bool{"utx.betweenAB": true},
				Final: []string{"g 0 " + k1}},
		},
		// C08: snapshot reader vs multi-key committer; Begin racing with GC; stable re-reads
		"c08": {
			{Name: "fractured", Roots: 1, Setup: []string{"s 0 " + k1 + " 300", "s 0 " + k2 + " 310"},
				Actors: map[string][]string{"C": {"b 1 RC", "s 1 " + k1 + " 301", "s 1 " + k2 + " 311", "c 1"}, "R": {"b 2 SER", "g 2 " + k1, "g 2 " + k2, "r 2"}},
				Order: []string{"C", "R"}, Points: map[string]bool{"utx.seqB": true, "utx.betweenAB": true, "txrepo.store": true},
				Final: []string{"g 0 " + k1, "g 0 " + k2}},
			{Name: "begin-vs-gc", Roots: 1, Setup: []string{"s 0 " + k1 + " 300"},
				Actors: map[string][]string{"R": {"b 1 SER", "g 1 " + k1, "g 1 " + k1, "r 1"}, "W": {"s 0 " + k1 + " 301"}, "G": {"gc"}},
				Order: []string{"R", "W", "G"}, Points: map[string]bool{"txrepo.store": true, "gc.horizon": true, "gc.collected": true},
				Final: []string{"g 0 " + k1}},
			{Name: "two-begins-gc", Roots: 1, Setup: []string{"s 0 " + k1 + " 300"},
				Actors: map[string][]string{"R1": {"b 1 RR", "g 1 " + k1, "r 1"}, "R2": {"b 2 RR", "g 2 " + k1, "r 2"}, "W": {"s 0 " + k1 + " 301", "gc"}},
				Order: []string{"R1", "R2", "W"}, Points: map[string]bool{"txrepo.store": true, "gc.horizon": true},
				Final: []string{"g 0 " + k1}},
		},
		// C06: autocommit / RU / RC operations with GC and rollback interleaved
		"c06": {
			{Name: "read-vs-overwrite-gc", Roots: 1, Setup: []string{"s 0 " + k1 + " 300"},
				Actors: map[string][]string{"R": {"g 0 " + k1, "k 0"}, "W": {"s 0 " + k1 + " 301"}, "G": {"gc"}},
				Order: []string{"R", "W", "G"}, Points: map[string]bool{"uget.afterLookup": true, "ukeys.afterLookup": true, "gc.horizon": true, "gc.collected": true},
				Final: []string{"g 0 " + k1}},
			{Name: "commit-window-gc", Roots: 1, Setup: []string{"s 0 " + k1 + " 300"},
				Actors: map[string][]string{"T": {"b 1 SER", "g 1 " + k1, "c 1"}, "W": {"s 0 " + k1 + " 301"}, "G": {"gc"}},
				Order: []string{"T", "W", "G"}, Points: map[string]bool{"utx.start": true, "gc.horizon": true, "gc.collected": true},
				Final: []string{"g 0 " + k1}},
			{Name: "ru-read-vs-rollback", Roots: 1, Setup: []string{"s 0 " + k1 + " 300"},
				Actors: map[string][]string{"R": {"b 1 RU", "g 1 " + k1, "c 1"}, "W": {"b 2 RC", "s 2 " + k1 + " 301", "r 2", "drain"}},
				Order: []string{"R", "W"}, Points: map[string]bool{"uget.afterLookup": true},
				Final: []string{"g 0 " + k1}},
			{Name: "ru-read-vs-commit", Roots: 1, Setup: []string{"s 0 " + k1 + " 300"},
				Actors: map[string][]string{"T": {"b 1 RC", "s 1 " + k1 + " 301", "s 1 " + k2 + " 311", "c 1"}, "R": {"b 2 RU", "g 2 " + k1, "g 2 " + k1, "k 2", "g 2 " + k1, "c 2"}},
				Order: []string{"T", "R"}, Points: map[string]bool{"utx.start": true, "utx.betweenAB": true, "utx.seqB": true, "mut:bset": true},
				Final: []string{"g 0 " + k1, "k 0"}},
			{Name: "store-order", Roots: 1, Setup: []string{"s 0 " + k1 + " 300"},
				Actors: map[string][]string{"A": {"s 0 " + k1 + " 301"}, "T": {"b 1 RC", "s 1 " + k1 + " 302", "g 1 " + k1, "c 1"}, "C": {"g 0 " + k1}},
				Order: []string{"A", "T", "C"}, Points: map[string]bool{"mut:bset": true},
				Final: []string{"g 0 " + k1}},
			{Name: "rc-commit-vs-writers", Roots: 2, Setup: []string{"s 0 " + k1 + " 300"},
				Actors: map[string][]string{"T": {"b 1 RC", "s 1 " + k1 + " 301", "s 1 " + k2 + " 311", "c 1"}, "W": {"s 0 " + k1 + " 302", "d 0 " + k2}, "R": {"g 0 " + k1, "k 0"}},
				Order: []string{"T", "W", "R"}, Points: map[string]bool{"utx.start": true, "utx.betweenAB": true, "utx.seqB": true, "uget.afterLookup": true},
				Final: []string{"g 0 " + k1, "g 0 " + k2, "k 0"}},
		},
	}
	return all[which]
}

// generated scenarios: 2-3 actors with 1-3 operations each over two keys (autocommit and transactional
// operations of all levels, collector, pool drain), yield points outside the critical sections of the
// real code (so that no actor blocks on a lock and the run can be replayed in the small-step model).
func genScenarios(which string, seed uint64, n int) []cScenario {
	rng := &seqRng{s: seed*991 + uint64(len(which))*131 + 17}
	k1, k2 := hexKey("k1"), hexKey("k2")
	keys := []string{k1, k2}
	var out []cScenario
	for g := 0; g < n; g++ {
		sc := cScenario{Name: fmt.Sprintf("gen-%d", g), Roots: 1 + rng.n(2), Actors: map[string][]string{},
			Points: map[string]bool{"uget.afterLookup": true, "ukeys.afterLookup": true, "gc.horizon": true, "gc.collected": true,
				"utx.start": true, "begin.start": true}}
		if rng.n(4) > 0 {
			sc.Setup = append(sc.Setup, fmt.Sprintf("s 0 %s %d", k1, 300+g))
		}
		if rng.n(3) == 0 {
			sc.Setup = append(sc.Setup, fmt.Sprintf("s 0 %s %d", k2, 310+g))
		}
		na := 2 + rng.n(2)
		content := 400 + 10*g
		total := 0
		for a := 0; a < na; a++ {
			name := string(rune('A' + a))
			sc.Order = append(sc.Order, name)
			var prog []string
			kind := rng.n(10)
			if which == "c06" && kind >= 7 {
				kind = rng.n(7) // fewer snapshot transactions in the C06 profile
			}
			tx := a + 1
			key := func() string { return keys[rng.n(2)] }
			switch {
			case kind < 2: // autocommit reader
				prog = append(prog, "g 0 "+key())
				if rng.n(2) == 0 {
					prog = append(prog, "k 0")
				} else {
					prog = append(prog, "g 0 "+key())
				}
			case kind < 4: // autocommit writer
				content++
				prog = append(prog, fmt.Sprintf("s 0 %s %d", key(), content))
				if rng.n(3) == 0 {
					prog = append(prog, "d 0 "+key())
				} else if rng.n(2) == 0 {
					prog = append(prog, "g 0 "+key())
				}
			case kind < 5: // collector (+ pool)
				prog = append(prog, "gc")
				if rng.n(2) == 0 {
					prog = append(prog, "drain")
				}
			case kind < 7: // RU / RC transaction
				lvl := []string{"RU", "RC"}[rng.n(2)]
				prog = append(prog, fmt.Sprintf("b %d %s", tx, lvl))
				if rng.n(3) > 0 {
					content++
					prog = append(prog, fmt.Sprintf("s %d %s %d", tx, key(), content))
				}
				prog = append(prog, fmt.Sprintf("g %d %s", tx, key()))
				prog = append(prog, []string{"c", "c", "r"}[rng.n(3)]+fmt.Sprintf(" %d", tx))
			default: // snapshot transaction
				lvl := []string{"RR", "SER"}[rng.n(2)]
				prog = append(prog, fmt.Sprintf("b %d %s", tx, lvl))
				if rng.n(2) == 0 {
					content++
					prog = append(prog, fmt.Sprintf("s %d %s %d", tx, key(), content))
					prog = append(prog, fmt.Sprintf("c %d", tx))
				} else {
					kk := key()
					prog = append(prog, fmt.Sprintf("g %d %s", tx, kk), fmt.Sprintf("g %d %s", tx, kk), fmt.Sprintf("r %d", tx))
				}
			}
			total += len(prog)
			sc.Actors[name] = prog
		}
		if total > 8 {
			g--
			continue
		}
		sc.Final = []string{"g 0 " + k1, "g 0 " + k2, "k 0"}
		out = append(out, sc)
	}
	return out
}

func TestVerifConc(t *testing.T) {
	out := os.Getenv("VERIF_OUT")
	if out == "" {
		t.Skip("VERIF_OUT not set")
	}
	seed, _ := strconv.ParseUint(os.Getenv("VERIF_SEED"), 10, 64)
	which := os.Getenv("VERIF_PROFILE")
	maxRuns, _ := strconv.Atoi(os.Getenv("VERIF_MAXRUNS"))
	if maxRuns == 0 {
		maxRuns = 150
	}
	rng := &seqRng{s: seed + 4242}
	f, _ := os.Create(filepath.Join(out, which+".runs.jsonl"))
	defer f.Close()
	enc := json.NewEncoder(f)
	total := 0
	var fixed [][]string
	if fs := os.Getenv("VERIF_SCHEDULES"); fs != "" {
		// explicit schedules: "scenario:A,B,A;scenario:…"
		for _, part := range strings.Split(fs, ";") {
			p := strings.SplitN(part, ":", 2)
			if len(p) == 2 {
				fixed = append(fixed, append([]string{p[0]}, strings.Split(p[1], ",")...))
			}
		}
	}
	scenarios := concScenarios(which)
	ngen, _ := strconv.Atoi(os.Getenv("VERIF_GEN"))
	genRuns, _ := strconv.Atoi(os.Getenv("VERIF_GENRUNS"))
	nfixedSc := len(scenarios)
	scenarios = append(scenarios, genScenarios(which, seed, ngen)...)
	hangs := 0
	for si, sc := range scenarios {
		if hangs >= 5 {
			break
		}
		maxRuns := maxRuns
		if si >= nfixedSc && genRuns > 0 {
			maxRuns = genRuns
		}
		if len(fixed) > 0 {
			for _, fx := range fixed {
				if fx[0] == sc.Name {
					r := runSchedule(filepath.Join(out, fmt.Sprintf("cdb-%d", total)), sc, fx[1:], rng)
					enc.Encode(r)
					total++
				}
			}
			continue
		}
		// stateless DFS over schedules: run, then branch on every decision point not yet explored
		type item struct{ prefix []string }
		stack := []item{{nil}}
		seen := map[string]bool{}
		runs := 0
		for len(stack) > 0 && runs < maxRuns {
			it := stack[len(stack)-1]
			stack = stack[:len(stack)-1]
			key := strings.Join(it.prefix, ",")
			if seen[key] {
				continue
			}
			seen[key] = true
			r := runSchedule(filepath.Join(out, fmt.Sprintf("cdb-%d", total)), sc, it.prefix, rng)
			enc.Encode(r)
			runs++
			total++
			if r.Hang {
				hangs++
				if hangs >= 5 {
					break
				}
			}
			// alternatives after the given prefix
			for d := len(it.prefix); d < len(r.Sched) && d < len(r.Choices); d++ {
				for _, alt := range r.Choices[d] {
					if alt != r.Sched[d] {
						np := append(append([]string(nil), r.Sched[:d]...), alt)
						if !seen[strings.Join(np, ",")] {
							stack = append(stack, item{np})
						}
					}
				}
			}
			// random exploration order beyond the first few
			if len(stack) > 1 && runs > 5 {
				j := rng.n(len(stack))
				stack[j], stack[len(stack)-1] = stack[len(stack)-1], stack[j]
			}
		}
	}
	os.WriteFile(filepath.Join(out, which+".conc.stats.json"), []byte(fmt.Sprintf(`{"runs": %d}`, total)), 0o644)
}
