package db

// Harness-owned (overlay). C05: several databases per process, Close/Open at any position, process
// restarts.  A history is split into segments between `restart` ops; each segment is executed by a
// fresh child process (this test binary re-executed), so the process-global sequence counter really
// starts from zero.  Lines: `mdb <db> <op …>` | `mdb restart`.

import (
	"bufio"
	"encoding/json"
	"fmt"
	"os"
	"os/exec"
	"path/filepath"
	"strconv"
	"strings"
	"testing"
)

func c05Child(opsPath, outPath, base string) error {
	b, err := os.ReadFile(opsPath)
	if err != nil {
		return err
	}
	out, _ := os.Create(outPath)
	defer out.Close()
	w := bufio.NewWriter(out)
	defer w.Flush()
	dbs := map[string]*seqImpl{}
	rng := &seqRng{s: 5}
	for _, line := range strings.Split(string(b), "\n") {
		f := strings.Fields(line)
		if len(f) < 3 {
			continue
		}
		d := f[1]
		op := f[2:]
		switch op[0] {
		case "open":
			im := newSeqImpl(filepath.Join(base, "db"+d), 1)
			if err := im.open(); err != nil {
				fmt.Fprintln(w, "e:open:"+err.Error())
				continue
			}
			dbs[d] = im
			fmt.Fprintln(w, "ok")
		case "close":
			if im := dbs[d]; im != nil {
				drainPool()
				fmt.Fprintln(w, canonErr(im.close()))
				delete(dbs, d)
			} else {
				fmt.Fprintln(w, "bad-op")
			}
		default:
			im := dbs[d]
			if im == nil {
				fmt.Fprintln(w, "bad-op")
				continue
			}
			fmt.Fprintln(w, im.exec(op, rng))
		}
		w.Flush()
	}
	for _, im := range dbs {
		drainPool()
		im.close()
	}
	return nil
}

func TestVerifC05Child(t *testing.T) {
	ops := os.Getenv("VERIF_C05_OPS")
	if ops == "" {
		t.Skip()
	}
	if err := c05Child(ops, os.Getenv("VERIF_C05_OUT"), os.Getenv("VERIF_C05_BASE")); err != nil {
		t.Fatal(err)
	}
}

func c05History(rng *seqRng, g *seqGen) []string {
	var lines []string
	ndb := 1 + rng.n(3)
	open := map[int]bool{}
	txs := map[int][]int{} // open transactions per database (gone after Close / restart)
	nextTx := 0
	keys := []string{hexKey("k"), hexKey("j")}
	emit := func(format string, a ...any) { lines = append(lines, fmt.Sprintf(format, a...)) }
	observe := func(d int) {
		for _, k := range keys {
			emit("mdb %d g 0 %s", d, k)
		}
		for _, t := range txs[d] {
			emit("mdb %d g %d %s", d, t, keys[rng.n(2)])
		}
		emit("mdb %d k 0", d)
	}
	n := 25 + rng.n(40)
	for i := 0; i < n; i++ {
		d := rng.n(ndb)
		if !open[d] {
			emit("mdb %d open", d)
			open[d] = true
			observe(d)
			continue
		}
		r := rng.n(100)
		switch {
		case r < 28:
			emit("mdb %d s 0 %s %d set", d, keys[rng.n(2)], g.newContent(false))
		case r < 33:
			emit("mdb %d d 0 %s", d, keys[rng.n(2)])
		case r < 35:
			emit("mdb %d d 0 -", d) // Delete of the empty key is accepted
		case r < 47:
			emit("mdb %d close", d)
			open[d] = false
			delete(txs, d)
		case r < 54:
			emit("mdb restart")
			open = map[int]bool{}
			txs = map[int][]int{}
			continue
		case r < 58:
			emit("mdb %d gc", d)
		case r < 68 && len(txs[d]) < 3:
			nextTx++
			txs[d] = append(txs[d], nextTx)
			emit("mdb %d b %d %s", d, nextTx, seqLevels[rng.n(4)])
		case r < 84 && len(txs[d]) > 0:
			t := txs[d][rng.n(len(txs[d]))]
			if rng.n(5) == 0 {
				emit("mdb %d d %d %s", d, t, keys[rng.n(2)])
			} else {
				emit("mdb %d s %d %s %d set", d, t, keys[rng.n(2)], g.newContent(false))
			}
		case r < 93 && len(txs[d]) > 0:
			x := rng.n(len(txs[d]))
			emit("mdb %d c %d", d, txs[d][x])
			txs[d] = append(txs[d][:x], txs[d][x+1:]...)
		case r < 96 && len(txs[d]) > 0:
			x := rng.n(len(txs[d]))
			emit("mdb %d r %d", d, txs[d][x])
			txs[d] = append(txs[d][:x], txs[d][x+1:]...)
		default:
			observe(d)
		}
		if open[d] {
			observe(d)
		}
	}
	// final: restart, reopen everything, observe
	emit("mdb restart")
	txs = map[int][]int{}
	for d := 0; d < ndb; d++ {
		emit("mdb %d open", d)
		observe(d)
	}
	return lines
}

func TestVerifC05(t *testing.T) {
	out := os.Getenv("VERIF_OUT")
	if out == "" {
		t.Skip("VERIF_OUT not set")
	}
	seed, _ := strconv.ParseUint(os.Getenv("VERIF_SEED"), 10, 64)
	nhist, _ := strconv.Atoi(os.Getenv("VERIF_HISTORIES"))
	if nhist == 0 {
		nhist = 10
	}
	rng := &seqRng{s: seed*31337 + 5}
	g := &seqGen{rng: rng}
	opsF, _ := os.Create(filepath.Join(out, "c05.ops"))
	implF, _ := os.Create(filepath.Join(out, "c05.impl"))
	defer opsF.Close()
	defer implF.Close()
	var histories [][]string
	// corpus first: the witness of the repaired counter defect
	histories = append(histories, []string{
		"mdb 1 open", "mdb 1 s 0 6b 300 set", "mdb 1 s 0 6b 301 set", "mdb 1 s 0 6b 302 set", "mdb 1 s 0 6b 303 set", "mdb 1 close",
		"mdb restart",
		"mdb 0 open", "mdb 1 open", "mdb 1 s 0 6b 304 set", "mdb 1 g 0 6b", "mdb 1 close", "mdb 1 open", "mdb 1 g 0 6b",
		"mdb restart", "mdb 1 open", "mdb 1 g 0 6b"})
	for i := 0; i < nhist; i++ {
		histories = append(histories, c05History(rng, g))
	}
	lines, restarts := 0, 0
	for hi, h := range histories {
		base := filepath.Join(out, fmt.Sprintf("c05-%d", hi))
		os.RemoveAll(base)
		os.MkdirAll(base, 0o755)
		fmt.Fprintln(opsF, "mdb new")
		fmt.Fprintln(implF, "ok")
		// split into segments at restarts
		var seg []string
		flush := func() {
			if len(seg) == 0 {
				return
			}
			op := filepath.Join(base, "seg.ops")
			oo := filepath.Join(base, "seg.out")
			os.WriteFile(op, []byte(strings.Join(seg, "\n")+"\n"), 0o644)
			cmd := exec.Command(os.Args[0], "-test.run=TestVerifC05Child$")
			cmd.Env = append(os.Environ(), "VERIF_C05_OPS="+op, "VERIF_C05_OUT="+oo, "VERIF_C05_BASE="+base)
			co, err := cmd.CombinedOutput()
			res, _ := os.ReadFile(oo)
			rl := strings.Split(strings.TrimRight(string(res), "\n"), "\n")
			for i, l := range seg {
				fmt.Fprintln(opsF, l)
				if i < len(rl) && rl[i] != "" {
					fmt.Fprintln(implF, rl[i])
				} else {
					fmt.Fprintln(implF, "crash:"+strings.ReplaceAll(string(co), "\n", " | ")[:min(200, len(co))])
				}
				lines++
			}
			_ = err
			seg = nil
		}
		for _, l := range h {
			if l == "mdb restart" {
				flush()
				fmt.Fprintln(opsF, l)
				fmt.Fprintln(implF, "ok")
				restarts++
				lines++
				continue
			}
			seg = append(seg, l)
		}
		flush()
		os.RemoveAll(base)
	}
	b, _ := json.Marshal(map[string]any{"lines": lines, "histories": len(histories), "restarts": restarts})
	os.WriteFile(filepath.Join(out, "c05.stats.json"), b, 0o644)
}
