package db

// Harness-owned (overlay). C04: crash-point enumeration.  A child process executes a workload and
// kills itself (SIGKILL) immediately BEFORE its n-th persistent-state mutation (verif hook `Mut`:
// mkdir, create, write, close, remove, Badger set/delete/batch).  The parent enumerates every n,
// lets a fresh process reopen the database and dump what it reads, reopens once more (and, in the
// thorough tier, kills the recovery itself at every mutation), and asks the Lean specification which
// states are allowed: the one after the acknowledged operations, or that plus the operation in flight.

import (
	"bufio"
	"encoding/json"
	"fmt"
	"os"
	"os/exec"
	"path/filepath"
	"strconv"
	"strings"
	"sync"
	"sync/atomic"
	"syscall"
	"testing"

	"github.com/glebziz/fs_db/internal/verifhook"
)

func c04Child(t *testing.T) {
	mode := os.Getenv("VERIF_C04_MODE")
	base := os.Getenv("VERIF_C04_DIR")
	killAt, _ := strconv.ParseInt(os.Getenv("VERIF_KILL_AT"), 10, 64)
	var muts atomic.Int64
	mutLog, _ := os.OpenFile(filepath.Join(base, mode+".muts"), os.O_CREATE|os.O_WRONLY|os.O_APPEND, 0o644)
	verifhook.SetMut(func(kind, key string, n int) {
		c := muts.Add(1)
		if killAt > 0 && c >= killAt {
			syscall.Kill(os.Getpid(), syscall.SIGKILL)
			select {} // never continue past the cut
		}
		// kind, and which stored content (content id) the mutation belongs to
		id := "-"
		switch kind {
		case "create", "write", "close", "remove":
			id = filepath.Base(key)
		case "bset", "bdel":
			switch {
			case strings.HasPrefix(key, "fileContent/"):
				kind, id = kind+"-cf", strings.TrimPrefix(key, "fileContent/")
			case strings.HasPrefix(key, "file/"):
				kind, id = kind+"-rec", strings.TrimPrefix(key, "file/")
			}
		}
		fmt.Fprintf(mutLog, "%d %s %s\n", c, kind, id)
	})
	im := newSeqImpl(filepath.Join(base, "db"), 2)
	if err := im.open(); err != nil {
		os.WriteFile(filepath.Join(base, mode+".err"), []byte(err.Error()), 0o644)
		return
	}
	rng := &seqRng{s: 3}
	switch mode {
	case "work":
		b, _ := os.ReadFile(os.Getenv("VERIF_C04_OPS"))
		ack, _ := os.OpenFile(filepath.Join(base, "acks"), os.O_CREATE|os.O_WRONLY|os.O_APPEND, 0o644)
		for i, line := range strings.Split(strings.TrimSpace(string(b)), "\n") {
			f := strings.Fields(line)
			if len(f) == 0 {
				continue
			}
			fmt.Fprintf(ack, "start %d\n", i)
			res := im.exec(f, rng)
			fmt.Fprintf(ack, "ack %d %s\n", i, res)
		}
		drainPool()
		im.close()
		os.WriteFile(filepath.Join(base, "work.total"), []byte(strconv.FormatInt(muts.Load(), 10)), 0o644)
	case "recover", "recover2":
		drainPool()
		keys := strings.Fields(os.Getenv("VERIF_C04_KEYS"))
		var out []string
		for _, k := range keys {
			out = append(out, im.exec([]string{"g", "0", k}, rng))
		}
		out = append(out, im.exec([]string{"k", "0"}, rng))
		im.close()
		os.WriteFile(filepath.Join(base, mode+".state"), []byte(strings.Join(out, "\n")+"\n"), 0o644)
		os.WriteFile(filepath.Join(base, mode+".total"), []byte(strconv.FormatInt(muts.Load(), 10)), 0o644)
	}
}

func TestVerifC04Child(t *testing.T) {
	if os.Getenv("VERIF_C04_MODE") == "" {
		t.Skip()
	}
	c04Child(t)
}

func c04Workload(rng *seqRng, g *seqGen, keys []string) []string {
	var ops []string
	var open []int
	n := 14 + rng.n(14)
	next := 0
	for i := 0; i < n; i++ {
		r := rng.n(100)
		k := keys[rng.n(len(keys))]
		switch {
		case r < 30:
			ops = append(ops, fmt.Sprintf("s 0 %s %d %s", k, g.newContent(rng.n(4) == 0), g.via()))
		case r < 38:
			ops = append(ops, fmt.Sprintf("d 0 %s", k))
		case r < 50 && len(open) < 3:
			next++
			open = append(open, next)
			ops = append(ops, fmt.Sprintf("b %d %s", next, seqLevels[rng.n(4)]))
		case r < 75 && len(open) > 0:
			t := open[rng.n(len(open))]
			if rng.n(5) == 0 {
				ops = append(ops, fmt.Sprintf("d %d %s", t, k))
			} else {
				ops = append(ops, fmt.Sprintf("s %d %s %d set", t, k, g.newContent(false)))
			}
		case r < 90 && len(open) > 0:
			x := rng.n(len(open))
			ops = append(ops, fmt.Sprintf("c %d", open[x]))
			open = append(open[:x], open[x+1:]...)
		case r < 94 && len(open) > 0:
			x := rng.n(len(open))
			ops = append(ops, fmt.Sprintf("r %d", open[x]))
			open = append(open[:x], open[x+1:]...)
		case r >= 94 && r < 98:
			ops = append(ops, "gc")
		default:
			ops = append(ops, fmt.Sprintf("s 0 %s %d set", k, g.newContent(false)))
		}
	}
	return ops
}

type c04Cut struct {
	Workload int      `json:"workload"`
	Cut      int      `json:"cut"`
	RCut     int      `json:"recovery_cut"`
	Acked    []string `json:"acked"`    // ops acknowledged (with their answers)
	InFlight string   `json:"inflight"` // op started but not acknowledged ("" if none)
	State    []string `json:"state"`    // what the recovered database answers
	State2   []string `json:"state2"`   // … and after a second reopen
	Err      string   `json:"err,omitempty"`
}

func TestVerifC04(t *testing.T) {
	out := os.Getenv("VERIF_OUT")
	if out == "" {
		t.Skip("VERIF_OUT not set")
	}
	seed, _ := strconv.ParseUint(os.Getenv("VERIF_SEED"), 10, 64)
	nwork, _ := strconv.Atoi(os.Getenv("VERIF_WORKLOADS"))
	if nwork == 0 {
		nwork = 2
	}
	recoveryCuts := os.Getenv("VERIF_TIER") == "thorough"
	rng := &seqRng{s: seed*7127 + 4}
	g := &seqGen{rng: rng}
	keys := []string{hexKey("k"), hexKey("j"), hexKey("m")}
	f, _ := os.Create(filepath.Join(out, "c04.cuts.jsonl"))
	defer f.Close()
	var fmu sync.Mutex
	enc := json.NewEncoder(f)
	child := func(base, mode string, killAt int, opsPath string) {
		cmd := exec.Command(os.Args[0], "-test.run=TestVerifC04Child$")
		cmd.Env = append(os.Environ(), "VERIF_C04_MODE="+mode, "VERIF_C04_DIR="+base, "VERIF_KILL_AT="+strconv.Itoa(killAt),
			"VERIF_C04_OPS="+opsPath, "VERIF_C04_KEYS="+strings.Join(keys, " "))
		cmd.Run()
	}
	readLines := func(p string) []string {
		b, err := os.ReadFile(p)
		if err != nil {
			return nil
		}
		return strings.Split(strings.TrimSpace(string(b)), "\n")
	}
	total := 0
	var wfile []map[string]any
	// an extra workload with ONE large transaction (commit of `bigTx` distinct new keys): only the cuts
	// around its commit are enumerated (a commit must be one atomic persistent step whatever its size)
	bigTx, _ := strconv.Atoi(os.Getenv("VERIF_C04_BIGTX"))
	nAll := nwork
	if bigTx > 0 {
		nAll++
	}
	for w := 0; w < nAll; w++ {
		ops := c04Workload(rng, g, keys)
		big := bigTx > 0 && w == nAll-1
		if big {
			ops = []string{"s 0 " + keys[0] + " 1 set", "b 1 " + seqLevels[rng.n(4)]}
			for i := 0; i < bigTx; i++ {
				ops = append(ops, fmt.Sprintf("s 1 %s %d set", hexKey(fmt.Sprintf("big%05d", i)), 1000+i))
			}
			ops = append(ops, "d 1 "+keys[0], "c 1")
		}
		wdir := filepath.Join(out, fmt.Sprintf("c04-w%d", w))
		os.RemoveAll(wdir)
		os.MkdirAll(wdir, 0o755)
		opsPath := filepath.Join(wdir, "ops")
		os.WriteFile(opsPath, []byte(strings.Join(ops, "\n")+"\n"), 0o644)
		// full run: how many mutations are there?
		full := filepath.Join(wdir, "full")
		os.MkdirAll(full, 0o755)
		child(full, "work", 0, opsPath)
		nm, _ := strconv.Atoi(strings.TrimSpace(strings.Join(readLines(filepath.Join(full, "work.total")), "")))
		wfile = append(wfile, map[string]any{"workload": w, "ops": ops, "mutations": nm})
		if b, err := os.ReadFile(filepath.Join(full, "work.muts")); err == nil {
			os.WriteFile(filepath.Join(out, fmt.Sprintf("c04.muts.%d", w)), b, 0o644)
		}
		os.RemoveAll(full)
		var wg sync.WaitGroup
		sem := make(chan struct{}, 8)
		var cutList []int
		for cut := 1; cut <= nm; cut++ {
			if !big || cut > nm-8 || cut%(nm/6+1) == 3 {
				cutList = append(cutList, cut)
			}
		}
		for _, cut := range cutList {
			wg.Add(1)
			sem <- struct{}{}
			go func(cut int) {
				defer wg.Done()
				defer func() { <-sem }()
				base := filepath.Join(wdir, fmt.Sprintf("cut%d", cut))
				os.MkdirAll(base, 0o755)
				child(base, "work", cut, opsPath)
				rec := c04Cut{Workload: w, Cut: cut}
				started := -1
				for _, l := range readLines(filepath.Join(base, "acks")) {
					fl := strings.Fields(l)
					if len(fl) >= 2 && fl[0] == "start" {
						started, _ = strconv.Atoi(fl[1])
					}
					if len(fl) >= 3 && fl[0] == "ack" {
						i, _ := strconv.Atoi(fl[1])
						rec.Acked = append(rec.Acked, ops[i]+" => "+strings.Join(fl[2:], " "))
						if i == started {
							started = -1
						}
					}
				}
				if started >= 0 {
					rec.InFlight = ops[started]
				}
				if recoveryCuts && (!big || cut > nm-4) {
					// kill the recovery itself at its m-th mutation, for every m, then recover again
					probe := filepath.Join(base, "probe")
					exec.Command("cp", "-r", base, probe).Run()
					child(probe, "recover", 0, opsPath)
					rm, _ := strconv.Atoi(strings.TrimSpace(strings.Join(readLines(filepath.Join(probe, "recover.total")), "")))
					os.RemoveAll(probe)
					for m := 1; m <= rm; m++ {
						if rm > 60 && m > 8 && m <= rm-8 && m%(rm/12+1) != 0 {
							continue // a long recovery (large transaction left over): first, last and a sample of its cuts
						}
						cp := filepath.Join(base, fmt.Sprintf("rc%d", m))
						exec.Command("cp", "-r", filepath.Join(base, "db"), cp+"-db").Run()
						os.MkdirAll(cp, 0o755)
						os.Rename(cp+"-db", filepath.Join(cp, "db"))
						child(cp, "recover", m, opsPath)
						os.Remove(filepath.Join(cp, "recover.state"))
						child(cp, "recover2", 0, opsPath)
						for try := 0; try < 2 && readLines(filepath.Join(cp, "recover2.state")) == nil; try++ {
							if _, err := os.Stat(filepath.Join(cp, "recover2.err")); err == nil {
								break
							}
							child(cp, "recover2", 0, opsPath) // the child did not run (fork/exec failure under load): again
						}
						r2 := rec
						r2.RCut = m
						r2.State = readLines(filepath.Join(cp, "recover2.state"))
						r2.State2 = r2.State
						if b, err := os.ReadFile(filepath.Join(cp, "recover2.err")); err == nil {
							r2.Err = string(b)
						}
						fmu.Lock()
						enc.Encode(r2)
						total++
						fmu.Unlock()
						os.RemoveAll(cp)
					}
				}
				child(base, "recover", 0, opsPath)
				for try := 0; try < 2 && readLines(filepath.Join(base, "recover.state")) == nil; try++ {
					if _, err := os.Stat(filepath.Join(base, "recover.err")); err == nil {
						break
					}
					child(base, "recover", 0, opsPath)
				}
				rec.State = readLines(filepath.Join(base, "recover.state"))
				if b, err := os.ReadFile(filepath.Join(base, "recover.err")); err == nil {
					rec.Err = string(b)
				}
				child(base, "recover2", 0, opsPath)
				rec.State2 = readLines(filepath.Join(base, "recover2.state"))
				fmu.Lock()
				enc.Encode(rec)
				total++
				fmu.Unlock()
				os.RemoveAll(base)
			}(cut)
		}
		wg.Wait()
		os.RemoveAll(wdir)
	}
	b, _ := json.Marshal(map[string]any{"cuts": total, "workloads": wfile, "keys": keys})
	os.WriteFile(filepath.Join(out, "c04.stats.json"), b, 0o644)
	_ = bufio.NewReader
}
