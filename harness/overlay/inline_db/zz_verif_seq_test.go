package db

// Harness-owned (overlay, never committed to /repo).
// Sequential-history correspondence for C01, C02, C03, C05, C09, C13, C14: generated histories are
// executed on the real inline database (Badger + content files in a scratch directory) through the
// public API; one canonical answer per op line.  The Lean driver answers the same lines with the
// concrete model and the abstract spec.

import (
	"bufio"
	"bytes"
	"context"
	"encoding/binary"
	"encoding/hex"
	"encoding/json"
	"errors"
	"fmt"
	"io"
	"os"
	"path/filepath"
	"sort"
	"strconv"
	"strings"
	"sync"
	"testing"
	"time"

	"github.com/glebziz/fs_db"
	"github.com/glebziz/fs_db/config"
	"github.com/glebziz/fs_db/internal/model"
	"github.com/glebziz/fs_db/internal/verifhook"
)

type seqRng struct{ s uint64 }

func (r *seqRng) next() uint64 {
	r.s += 0x9e3779b97f4a7c15
	z := r.s
	z = (z ^ (z >> 30)) * 0xbf58476d1ce4e5b9
	z = (z ^ (z >> 27)) * 0x94d049bb133111eb
	return z ^ (z >> 31)
}
func (r *seqRng) n(k int) int       { return int(r.next() % uint64(k)) }
func (r *seqRng) p(percent int) bool { return r.n(100) < percent }

// ---- contents: content number <-> payload (self-identifying) --------------------------------

var seqSizes = []int{8, 9, 64, 2047, 2048, 2049, 4096, 4097, 32767, 32768, 32769, 65536, 102400}

func payload(c uint64) []byte {
	if c == 0 {
		return []byte{}
	}
	if c < 256 {
		return []byte{byte(c)}
	}
	size := seqSizes[int(c%uint64(len(seqSizes)))]
	if c >= 1_000_000_000_000 {
		size = int(c - 1_000_000_000_000) // explicit size: content number 10^12 + size
	}
	b := make([]byte, size)
	binary.LittleEndian.PutUint64(b, c)
	x := c*0x9e3779b97f4a7c15 + 1
	for i := 8; i < size; i++ {
		x ^= x << 13
		x ^= x >> 7
		x ^= x << 17
		b[i] = byte(x)
	}
	return b
}

func contentOf(b []byte) string {
	switch {
	case len(b) == 0:
		return "v:0"
	case len(b) == 1:
		return "v:" + strconv.Itoa(int(b[0]))
	case len(b) < 8:
		return fmt.Sprintf("v:corrupt(%d)", len(b))
	}
	c := binary.LittleEndian.Uint64(b)
	if c >= 1_000_000_000_000 && c-1_000_000_000_000 != uint64(len(b)) {
		return fmt.Sprintf("v:corrupt(%d)", len(b))
	}
	if c >= 256 && bytes.Equal(payload(c), b) {
		return "v:" + strconv.FormatUint(c, 10)
	}
	return fmt.Sprintf("v:corrupt(%d)", len(b))
}

// small contents only (profile with many ops): sizes 8/9/64
func (g *seqGen) newContent(big bool) uint64 {
	g.cseq++
	n := uint64(len(seqSizes))
	idx := uint64(g.rng.n(3))
	if big {
		idx = uint64(g.rng.n(len(seqSizes)))
	}
	switch g.rng.n(40) {
	case 0:
		return 0
	case 1:
		return uint64(1 + g.rng.n(255))
	}
	return 256*n + g.cseq*n + idx // ≡ idx (mod n), unique
}

// ---- error canonicalisation -------------------------------------------------------------------

func canonErr(err error) string {
	switch {
	case err == nil:
		return "ok"
	case errors.Is(err, fs_db.ErrNotFound):
		return "e:NotFound"
	case errors.Is(err, fs_db.ErrEmptyKey):
		return "e:EmptyKey"
	case errors.Is(err, fs_db.ErrTxNotFound):
		return "e:TxNotFound"
	case errors.Is(err, fs_db.ErrTxSerialization):
		return "e:TxSerialization"
	case errors.Is(err, fs_db.ErrTxAlreadyExists):
		return "e:TxAlreadyExists"
	case errors.Is(err, fs_db.ErrNoFreeSpace):
		return "e:NoFreeSpace"
	}
	return "e:Other"
}

func hexKey(k string) string {
	if k == "" {
		return "-"
	}
	return hex.EncodeToString([]byte(k))
}

// ---- the implementation under test ---------------------------------------------------------------

type seqImpl struct {
	mu    sync.Mutex
	dir   string
	cfg   config.Config
	d     *db
	txs   map[int]fs_db.Tx
	ctx   context.Context
	roots []string
}

func newSeqImpl(dir string, roots int) *seqImpl {
	im := &seqImpl{dir: dir, ctx: context.Background(), txs: map[int]fs_db.Tx{}}
	for i := 0; i < roots; i++ {
		// configured spellings need not be clean paths: a trailing slash, a "./" or "x/../" detour
		root := filepath.Join(dir, fmt.Sprintf("root%d", i))
		switch i % 3 {
		case 1:
			root += "/"
		case 2:
			root = dir + "/./" + fmt.Sprintf("root%d", i)
		}
		im.roots = append(im.roots, root)
	}
	im.cfg = config.Config{
		Storage: config.Storage{DbPath: filepath.Join(dir, "badger"), MaxDirCount: 100,
			RootDirs: append([]string(nil), im.roots...), GCPeriod: time.Hour},
		WPool: config.WPool{NumWorkers: 4, SendDuration: time.Millisecond},
	}
	return im
}

func (im *seqImpl) open() error {
	d, err := New(im.ctx, im.cfg)
	if err != nil {
		return err
	}
	im.d = d
	return nil
}

func (im *seqImpl) close() error {
	im.txs = map[int]fs_db.Tx{}
	return im.d.Close()
}

func (im *seqImpl) store(t int) (fs_db.Store, bool) {
	if t == 0 {
		return im.d, true
	}
	im.mu.Lock()
	defer im.mu.Unlock()
	tx, ok := im.txs[t]
	return tx, ok
}

type shortReader struct {
	b   []byte
	rng *seqRng
}

func (r *shortReader) Read(p []byte) (int, error) {
	if len(r.b) == 0 {
		return 0, io.EOF
	}
	n := 1 + r.rng.n(len(p))
	if n > len(r.b) {
		n = len(r.b)
	}
	copy(p, r.b[:n])
	r.b = r.b[n:]
	if len(r.b) == 0 && r.rng.p(50) {
		return n, io.EOF // io.Reader: the last bytes may come together with io.EOF
	}
	return n, nil
}

// drain: wait until every job accepted by a worker pool has been executed
var drainSkew int64 // jobs accepted and never executed, as of the last drain that timed out

func drainPool() bool {
	deadline := time.Now().Add(20 * time.Second)
	for time.Now().Before(deadline) {
		a := verifhook.Counter("wpool.accepted")
		e := verifhook.Counter("wpool.executed")
		if int64(a)-int64(e) == drainSkew {
			time.Sleep(2 * time.Millisecond)
			if verifhook.Counter("wpool.accepted") == a && verifhook.Counter("wpool.executed") == e {
				return true
			}
			continue
		}
		time.Sleep(time.Millisecond)
	}
	drainSkew = int64(verifhook.Counter("wpool.accepted")) - int64(verifhook.Counter("wpool.executed"))
	return false
}

func (im *seqImpl) tree() string {
	var cs []string
	var bad []string
	for _, root := range im.roots {
		ents, _ := os.ReadDir(root)
		for _, e := range ents {
			if !e.IsDir() {
				bad = append(bad, "stray:"+e.Name())
				continue
			}
			fs, _ := os.ReadDir(filepath.Join(root, e.Name()))
			for _, f := range fs {
				b, err := os.ReadFile(filepath.Join(root, e.Name(), f.Name()))
				if err != nil {
					bad = append(bad, "unreadable")
					continue
				}
				cs = append(cs, strings.TrimPrefix(contentOf(b), "v:"))
			}
		}
	}
	sort.Slice(cs, func(i, j int) bool {
		a, e1 := strconv.ParseUint(cs[i], 10, 64)
		b, e2 := strconv.ParseUint(cs[j], 10, 64)
		if e1 != nil || e2 != nil {
			return cs[i] < cs[j]
		}
		return a < b
	})
	return "files:" + strings.Join(append(cs, bad...), ",")
}

func (im *seqImpl) exec(f []string, rng *seqRng) (res string) {
	defer func() {
		if r := recover(); r != nil {
			res = fmt.Sprintf("panic:%v", r)
		}
	}()
	atoi := func(s string) int { n, _ := strconv.Atoi(s); return n }
	key := func(s string) string {
		if s == "-" {
			return ""
		}
		b, _ := hex.DecodeString(s)
		return string(b)
	}
	switch f[0] {
	case "b":
		lvl := map[string]uint8{"RU": 0, "RC": 1, "RR": 2, "SER": 3}[f[2]]
		var tx fs_db.Tx
		var err error
		if f[2] == "RC" && rng.p(50) {
			tx, err = im.d.Begin(im.ctx) // default level
		} else {
			tx, err = im.d.Begin(im.ctx, fs_db.IsoLevelReadUncommitted+model.TxIsoLevel(lvl))
		}
		if err != nil {
			return canonErr(err)
		}
		im.mu.Lock()
		im.txs[atoi(f[1])] = tx
		im.mu.Unlock()
		return "ok"
	case "s":
		st, ok := im.store(atoi(f[1]))
		if !ok {
			return "bad-op"
		}
		c, _ := strconv.ParseUint(f[3], 10, 64)
		data := payload(c)
		via := "set"
		if len(f) > 4 {
			via = f[4]
		}
		switch via {
		case "reader":
			return canonErr(st.SetReader(im.ctx, key(f[2]), &shortReader{b: data, rng: rng}))
		case "create":
			w, err := st.Create(im.ctx, key(f[2]))
			if err != nil {
				return canonErr(err)
			}
			scratch := make([]byte, 0, 4096)
			for len(data) > 0 {
				n := 1 + rng.n(len(data))
				if rng.p(20) {
					n = len(data)
				}
				if rng.p(8) {
					n = 0 // an empty write
				}
				// the caller's buffer is reused for every Write (io.Writer must not retain it)
				scratch = append(scratch[:0], data[:n]...)
				if _, err = w.Write(scratch); err != nil {
					w.Close()
					return canonErr(err)
				}
				for j := range scratch {
					scratch[j] = 0xEE
				}
				data = data[n:]
			}
			return canonErr(w.Close())
		default:
			ctx, cancel := context.WithCancel(im.ctx) // the caller's context ends when the call has returned
			defer cancel()
			return canonErr(st.Set(ctx, key(f[2]), data))
		}
	case "d":
		st, ok := im.store(atoi(f[1]))
		if !ok {
			return "bad-op"
		}
		ctx, cancel := context.WithCancel(im.ctx)
		defer cancel()
		return canonErr(st.Delete(ctx, key(f[2])))
	case "g":
		st, ok := im.store(atoi(f[1]))
		if !ok {
			return "bad-op"
		}
		if rng.p(30) {
			r, err := st.GetReader(im.ctx, key(f[2]))
			if err != nil {
				return canonErr(err)
			}
			b, err := io.ReadAll(r)
			r.Close()
			if err != nil {
				return canonErr(err)
			}
			return contentOf(b)
		}
		b, err := st.Get(im.ctx, key(f[2]))
		if err != nil {
			return canonErr(err)
		}
		return contentOf(b)
	case "k":
		st, ok := im.store(atoi(f[1]))
		if !ok {
			return "bad-op"
		}
		ks, err := st.GetKeys(im.ctx)
		if err != nil {
			return canonErr(err)
		}
		hs := make([]string, len(ks))
		for i, k := range ks {
			hs[i] = hexKey(k)
		}
		return "keys:" + strings.Join(hs, ",")
	case "c":
		im.mu.Lock()
		tx, ok := im.txs[atoi(f[1])]
		im.mu.Unlock()
		if !ok {
			return "bad-op"
		}
		// the usual `ctx, cancel := context.WithTimeout(…); defer cancel()` of a request: the context is
		// cancelled right after Commit has returned, while the clean-up it handed over may still be queued
		ctx, cancel := context.WithCancel(im.ctx)
		defer cancel()
		if rng.p(35) { // … or has already ended when Commit is called (a request whose deadline has passed)
			cancel()
		}
		return canonErr(tx.Commit(ctx))
	case "r":
		im.mu.Lock()
		tx, ok := im.txs[atoi(f[1])]
		im.mu.Unlock()
		if !ok {
			return "bad-op"
		}
		ctx, cancel := context.WithCancel(im.ctx)
		defer cancel()
		if rng.p(35) { // `defer tx.Rollback(ctx)` after the request's context has ended
			cancel()
		}
		return canonErr(tx.Rollback(ctx))
	case "gc":
		return canonErr(im.d.container.Cleaner().DeleteOld(im.ctx))
	case "drain":
		if !drainPool() {
			return "e:drain-timeout"
		}
		return "ok"
	case "reopen":
		if err := im.close(); err != nil {
			return canonErr(err)
		}
		return canonErr(im.open())
	case "tree":
		return im.tree()
	}
	return "bad-op"
}



// ---- generator ----------------------------------------------------------------------------------

type genTx struct {
	id    int
	level string
}

type seqGen struct {
	rng      *seqRng
	profile  string
	keys     []string
	open     []genTx
	finished []int
	nextTx   int
	cseq     uint64
	written  map[string]bool
	lines    []string
}

var seqKeyTable = []string{"k", "ka", "kb", strings.Repeat("M", 120), "ké", "日本", strings.Repeat("L", 255), "z", "a/b",
	strings.Repeat("N", 89), "k ", "\U0001F600", strings.Repeat("O", 200)}
var seqLevels = []string{"RU", "RC", "RR", "SER"}

func (g *seqGen) emit(format string, a ...any) { g.lines = append(g.lines, fmt.Sprintf(format, a...)) }

func (g *seqGen) pickKey() string {
	return g.keys[g.rng.n(len(g.keys))]
}

func (g *seqGen) via() string {
	switch g.rng.n(5) {
	case 0:
		return "reader"
	case 1:
		return "create"
	}
	return "set"
}

func (g *seqGen) observers() {
	// every open transaction and the autocommit caller read every key and list keys
	ids := []int{0}
	for _, t := range g.open {
		ids = append(ids, t.id)
	}
	for _, id := range ids {
		for _, k := range g.keys {
			g.emit("g %d %s", id, hexKey(k))
		}
		g.emit("k %d", id)
	}
}

func (g *seqGen) pickTx(lateP int) (int, bool) {
	// (id, isOpen); with probability lateP a finished handle
	if len(g.finished) > 0 && g.rng.p(lateP) {
		return g.finished[g.rng.n(len(g.finished))], false
	}
	if len(g.open) == 0 {
		return 0, true
	}
	return g.open[g.rng.n(len(g.open))].id, true
}

func (g *seqGen) finish(id int) {
	for i, t := range g.open {
		if t.id == id {
			g.open = append(g.open[:i], g.open[i+1:]...)
			g.finished = append(g.finished, id)
			return
		}
	}
}

// one history; profiles: c01 (autocommit, big contents), c02 (isolation + gc), c03 (commit conflicts),
// c09 (gc/drain at every position), c13 (late use of finished handles), c14 (quiescence + tree)
func (g *seqGen) history(nops int) {
	p := g.profile
	nk := 1 + g.rng.n(4)
	if p == "c01" {
		nk = 1 + g.rng.n(6)
	}
	perm := g.rng.n(len(seqKeyTable))
	g.keys = nil
	for i := 0; i < nk; i++ {
		g.keys = append(g.keys, seqKeyTable[(perm+i*3)%len(seqKeyTable)])
	}
	g.open, g.finished = nil, nil
	late := map[string]int{"c13": 30, "c02": 3, "c03": 3, "c09": 3, "c14": 5}[p]
	gcP := map[string]int{"c02": 25, "c09": 100, "c03": 10, "c13": 10, "c14": 10, "c01": 5}[p]
	for i := 0; i < nops; i++ {
		if g.rng.p(gcP) {
			g.emit("gc")
			if p == "c09" || g.rng.p(40) {
				g.emit("drain")
			}
		}
		r := g.rng.n(100)
		switch {
		case p == "c01":
			k := g.pickKey()
			switch {
			case r < 45:
				g.emit("s 0 %s %d %s", hexKey(k), g.newContent(true), g.via())
			case r < 60:
				g.emit("d 0 %s", hexKey(k))
			case r < 62:
				g.emit("s 0 - %d %s", g.newContent(false), g.via()) // empty key
			case r < 63:
				g.emit("d 0 -") // Delete accepts the empty key: a tombstone nobody can read
			case r < 66:
				g.emit("g 0 %s", hexKey("never-written"))
			case r < 90:
				g.emit("g 0 %s", hexKey(k))
			default:
				g.emit("k 0")
			}
			if g.rng.p(30) {
				g.observers()
			}
			continue
		case r < 14 && len(g.open) < 5:
			g.nextTx++
			lvl := seqLevels[g.rng.n(4)]
			if p == "c03" && g.rng.p(60) {
				lvl = seqLevels[2+g.rng.n(2)]
			}
			g.open = append(g.open, genTx{g.nextTx, lvl})
			g.emit("b %d %s", g.nextTx, lvl)
		case r < 50:
			id, _ := g.pickTx(late)
			if g.rng.p(25) {
				id = 0
			}
			g.emit("s %d %s %d %s", id, hexKey(g.pickKey()), g.newContent(false), g.via())
		case r < 60:
			id, _ := g.pickTx(late)
			if g.rng.p(25) {
				id = 0
			}
			if g.rng.p(8) {
				g.emit("d %d -", id) // empty key
			} else {
				g.emit("d %d %s", id, hexKey(g.pickKey()))
			}
		case r < 72:
			id, _ := g.pickTx(late)
			g.emit("g %d %s", id, hexKey(g.pickKey()))
		case r < 76:
			id, _ := g.pickTx(late)
			g.emit("k %d", id)
		case r < 90:
			id, isOpen := g.pickTx(late)
			if id != 0 {
				g.emit("c %d", id)
				if isOpen {
					g.finish(id)
				}
			}
		default:
			id, isOpen := g.pickTx(late)
			if id != 0 {
				g.emit("r %d", id)
				if isOpen {
					g.finish(id)
				}
			}
		}
		if p == "c02" || p == "c09" || p == "c13" || (p == "c03" && g.rng.p(50)) {
			g.observers()
		} else if p == "c03" || p == "c14" {
			for _, k := range g.keys {
				g.emit("g 0 %s", hexKey(k))
			}
			g.emit("k 0")
		}
	}
	// quiescence: end all transactions, drain, collect, drain; the disk must hold live data only
	for len(g.open) > 0 {
		id := g.open[0].id
		if g.rng.p(50) {
			g.emit("c %d", id)
		} else {
			g.emit("r %d", id)
		}
		g.finish(id)
	}
	g.emit("drain")
	g.emit("gc")
	g.emit("drain")
	g.observers()
	g.emit("tree")
	if p == "c14" || p == "c05" || g.rng.p(30) {
		g.emit("reopen 0")
		g.emit("drain")
		g.observers()
		g.emit("tree")
	}
}

func TestVerifSeq(t *testing.T) {
	out := os.Getenv("VERIF_OUT")
	if out == "" {
		t.Skip("VERIF_OUT not set")
	}
	seed, _ := strconv.ParseUint(os.Getenv("VERIF_SEED"), 10, 64)
	profile := os.Getenv("VERIF_PROFILE")
	nhist, _ := strconv.Atoi(os.Getenv("VERIF_HISTORIES"))
	if nhist == 0 {
		nhist = 20
	}
	if nhist < 0 {
		nhist = 0
	}
	guard := os.Getenv("VERIF_GUARD_WRITES")
	if guard == "" {
		guard = "0"
	}
	pfx := filepath.Join(out, profile)
	opsF, _ := os.Create(pfx + ".ops")
	implF, _ := os.Create(pfx + ".impl")
	ops, impl := bufio.NewWriterSize(opsF, 1<<20), bufio.NewWriterSize(implF, 1<<20)
	rng := &seqRng{s: seed*1000003 + uint64(len(profile))*77 + uint64(profile[len(profile)-1])}
	execRng := &seqRng{s: seed + 99}
	g := &seqGen{rng: rng, profile: profile}
	counts := map[string]int{}
	answers := map[string]int{}
	lines, hist := 0, 0

	// corpus of minimised past failures runs first
	var corpus [][]string
	if cp := os.Getenv("VERIF_CORPUS"); cp != "" {
		if b, err := os.ReadFile(cp); err == nil {
			var cur []string
			for _, l := range strings.Split(string(b), "\n") {
				l = strings.TrimSpace(l)
				if l == "" || strings.HasPrefix(l, "#") {
					if len(cur) > 0 {
						corpus = append(corpus, cur)
						cur = nil
					}
					continue
				}
				cur = append(cur, strings.TrimPrefix(l, "sys "))
			}
			if len(cur) > 0 {
				corpus = append(corpus, cur)
			}
		}
	}

	for h := 0; h < nhist+len(corpus); h++ {
		dir := filepath.Join(out, fmt.Sprintf("db-%s-%d", profile, h))
		os.RemoveAll(dir)
		im := newSeqImpl(dir, 1+rng.n(3))
		// configuration varies between histories: 1-5 workers; every third database defers (almost) every
		// cleanup job (the Send timeout is shorter than a channel hand-over)
		im.cfg.WPool.NumWorkers = 1 + h%5
		if h%3 == 0 {
			im.cfg.WPool.SendDuration = time.Nanosecond
		}
		if err := im.open(); err != nil {
			t.Fatalf("open: %v", err)
		}
		if h < len(corpus) {
			g.lines = corpus[h]
		} else {
			g.lines = nil
			n := 20 + rng.n(45)
			if profile == "c01" {
				n = 20 + rng.n(40)
			}
			g.history(n)
		}
		fmt.Fprintf(ops, "sys new %s\n", guard)
		fmt.Fprintln(impl, "ok")
		lines++
		for _, line := range g.lines {
			f := strings.Fields(line)
			if len(f) == 0 || f[0] == "new" {
				continue
			}
			counts[f[0]]++
			res := im.exec(f, execRng)
			if f[0] == "tree" {
				fmt.Fprintln(ops, "sys tree")
			} else {
				fmt.Fprintln(ops, "sys "+line)
			}
			fmt.Fprintln(impl, res)
			answers[strings.SplitN(res, ":", 2)[0]+":"+func() string {
				if strings.HasPrefix(res, "e:") {
					return res[2:]
				}
				return ""
			}()]++
			lines++
		}
		hist++
		im.close()
		os.RemoveAll(dir)
	}
	ops.Flush()
	impl.Flush()
	opsF.Close()
	implF.Close()
	b, _ := json.MarshalIndent(map[string]any{"lines": lines, "histories": hist, "corpus_histories": len(corpus),
		"ops_by_kind": counts, "answers_by_kind": answers, "profile": profile}, "", " ")
	os.WriteFile(pfx+".stats.json", b, 0o644)
}
