package db

// Harness-owned (overlay). C10 inline: source reader failing at every interesting offset, and
// no-space (ENOSPC, fully or after a partial write) on any subset of the roots with a free-space
// override, through Set / SetReader / Create.  Oracle lines: `<write result> <value read afterwards>`.

import (
	"time"
	"context"
	"io"
	"bufio"
	"bytes"
	"errors"
	"fmt"
	"os"
	"path/filepath"
	"strings"
	"sync"
	"syscall"
	"testing"

	"github.com/glebziz/fs_db/internal/verifhook"
)

type c10Fail struct {
	b      []byte
	failAt int
	pos    int
}

// the errors a failing source may return: none of them is a clean end of the stream
var c10SourceErrs = []error{errors.New("source reader failed"), io.ErrUnexpectedEOF,
	fmt.Errorf("body shorter than announced: %w", io.EOF), io.ErrClosedPipe}

func (r *c10Fail) Read(p []byte) (int, error) {
	if r.pos >= r.failAt {
		return 0, c10SourceErrs[(len(r.b)+r.failAt)%len(c10SourceErrs)]
	}
	n := len(p)
	if r.pos+n > r.failAt {
		n = r.failAt - r.pos
	}
	copy(p, r.b[r.pos:r.pos+n])
	r.pos += n
	return n, nil
}

func TestVerifC10Inline(t *testing.T) {
	out := os.Getenv("VERIF_OUT")
	if out == "" {
		t.Skip("VERIF_OUT not set")
	}
	thorough := os.Getenv("VERIF_TIER") == "thorough"
	opsF, _ := os.Create(filepath.Join(out, "c10i.ops"))
	implF, _ := os.Create(filepath.Join(out, "c10i.impl"))
	ops, impl := bufio.NewWriter(opsF), bufio.NewWriter(implF)
	lines := 0
	old := []byte("OLD-VALUE-0123456789")
	rng := &seqRng{s: 77}

	// ---- (1) failing source reader ----
	{
		dir := filepath.Join(out, "c10i-a")
		os.RemoveAll(dir)
		im := newSeqImpl(dir, 2)
		if err := im.open(); err != nil {
			t.Fatal(err)
		}
		for ki, ln := range []int{1, 2049, 32768, 32769, 102400} {
			for _, pos := range []int{0, 1, ln / 2, ln - 1, 32767, 32768} {
				if pos < 0 || pos >= ln {
					continue
				}
				for _, via := range []string{"reader", "create"} {
					key := fmt.Sprintf("k%d-%d-%s", ki, pos, via)
					if err := im.d.Set(im.ctx, key, old); err != nil {
						t.Fatal(err)
					}
					data := payloadLen(ln)
					var werr error
					if via == "reader" {
						werr = im.d.SetReader(im.ctx, key, &c10Fail{b: data, failAt: pos})
					} else {
						// Create: the caller's context is cancelled after `pos` bytes; the rest is still
						// written and the file closed.  Whatever Write / Close then report: an error means the
						// key keeps its old value, nil means the whole content — and nobody ever reads a part.
						ctx, cancel := context.WithCancel(im.ctx)
						f, cerr := im.d.Create(ctx, key)
						if cerr != nil {
							cancel()
							t.Fatalf("create: %v", cerr)
						}
						var anyErr error
						if pos > 0 {
							if _, e := f.Write(data[:pos]); e != nil {
								anyErr = e
							}
						}
						cancel()
						partial := false
						for w := 0; w < 15; w++ { // watch the key while the upload is in limbo
							if b, e := im.d.Get(im.ctx, key); e == nil && !bytes.Equal(b, old) && !bytes.Equal(b, data) {
								partial = true
							}
							time.Sleep(time.Millisecond)
						}
						if _, e := f.Write(data[pos:]); e != nil && anyErr == nil {
							anyErr = e
						}
						if e := f.Close(); e != nil && anyErr == nil {
							anyErr = e
						}
						got, gerr := im.d.Get(im.ctx, key)
						after := "old"
						switch {
						case gerr != nil:
							after = canonErr(gerr)
						case bytes.Equal(got, data):
							after = "new"
						case !bytes.Equal(got, old):
							after = fmt.Sprintf("CHANGED(len=%d)", len(got))
						}
						if partial {
							after += "+PARTIAL-SEEN"
						}
						w := "ok"
						if anyErr != nil {
							w = "err"
						}
						fmt.Fprintf(ops, "c10 createcancel %d %d\n", ln, pos)
						fmt.Fprintf(impl, "%s %s\n", w, after)
						lines++
						continue
					}
					got, gerr := im.d.Get(im.ctx, key)
					after := "old"
					if gerr != nil {
						after = canonErr(gerr)
					} else if !bytes.Equal(got, old) {
						after = fmt.Sprintf("CHANGED(len=%d)", len(got))
					}
					w := "ok"
					if werr != nil {
						w = "err"
					}
					fmt.Fprintf(ops, "c10 readerr %d %d\n", ln, pos)
					fmt.Fprintf(impl, "%s %s\n", w, after)
					lines++
				}
			}
		}
		im.close()
		os.RemoveAll(dir)
	}

	// ---- (2) no space on some roots ----
	type rootCfg struct {
		free uint64 // reported free space (order of preference)
		cap  int    // bytes a file in this root can take before ENOSPC (-1: unlimited)
	}
	var mu sync.Mutex
	written := map[string]int{}
	var roots []string
	var cfg []rootCfg
	partial := true
	rootOf := func(path string) int {
		for i, r := range roots {
			if strings.HasPrefix(filepath.Clean(path), filepath.Clean(r)+string(os.PathSeparator)) {
				return i
			}
		}
		return -1
	}
	verifhook.SetFaultWrite(func(path string, p []byte) (int, error, bool) {
		mu.Lock()
		defer mu.Unlock()
		i := rootOf(path)
		if i < 0 || cfg[i].cap < 0 {
			return 0, nil, false
		}
		room := cfg[i].cap - written[path]
		if len(p) <= room {
			written[path] += len(p)
			return 0, nil, false
		}
		if !partial || room <= 0 {
			return 0, syscall.ENOSPC, true
		}
		written[path] += room
		return room, syscall.ENOSPC, true
	})
	verifhook.SetDiskFree(func(root string, real uint64) uint64 {
		for i, r := range roots {
			if filepath.Clean(r) == filepath.Clean(root) && i < len(cfg) {
				return cfg[i].free
			}
		}
		return real
	})
	defer verifhook.SetFaultWrite(nil)
	defer verifhook.SetDiskFree(nil)

	lens := []int{1, 100, 32768, 40000, 65536, 100000}
	caps := []int{0, 1, 50, 32767, 32768, 32769, 40000, 70000}
	if !thorough {
		lens = []int{100, 40000, 100000}
		caps = []int{0, 50, 32768, 40000, 70000}
	}
	scen := 0
	for _, nroots := range []int{2, 3} {
		for _, ln := range lens {
			for _, c1 := range caps {
				for _, c2 := range caps {
					if nroots == 2 && c2 != caps[0] {
						continue
					}
					for _, part := range []bool{true, false} {
						for _, lastHasRoom := range []bool{true, false} {
							if !thorough && scen%3 != 0 {
								scen++
								continue
							}
							scen++
							dir := filepath.Join(out, fmt.Sprintf("c10i-b%d", scen))
							os.RemoveAll(dir)
							im := newSeqImpl(dir, nroots)
							roots = im.roots
							// ascending free space; the root reporting the most free space is tried last
							cfg = []rootCfg{{1000, -1}, {2000, -1}, {3000, -1}}[:nroots]
							partial = part
							mu.Lock()
							written = map[string]int{}
							mu.Unlock()
							if err := im.open(); err != nil {
								t.Fatal(err)
							}
							if err := im.d.Set(im.ctx, "k", old); err != nil {
								t.Fatal(err)
							}
							cfg[0].cap = c1
							if nroots == 3 {
								cfg[1].cap = c2
							}
							if lastHasRoom {
								cfg[nroots-1].cap = -1
							} else {
								cfg[nroots-1].cap = ln / 2
							}
							data := payloadLen(ln)
							via := []string{"set", "reader", "create"}[scen%3]
							var werr error
							switch via {
							case "set":
								werr = im.d.Set(im.ctx, "k", data)
							case "reader":
								werr = im.d.SetReader(im.ctx, "k", &shortReader{b: append([]byte(nil), data...), rng: rng})
							case "create":
								w, err := im.d.Create(im.ctx, "k")
								if err == nil {
									rest := data
									for len(rest) > 0 && err == nil {
										n := 1 + rng.n(len(rest))
										_, err = w.Write(rest[:n])
										rest = rest[n:]
									}
									cerr := w.Close()
									if err == nil {
										err = cerr
									}
								}
								werr = err
							}
							for i := range cfg {
								cfg[i].cap = -1
							}
							got, gerr := im.d.Get(im.ctx, "k")
							after := ""
							switch {
							case gerr != nil:
								after = canonErr(gerr)
							case bytes.Equal(got, old):
								after = "old"
							case bytes.Equal(got, data):
								after = "new"
							default:
								fd := 0
								for fd < len(got) && fd < len(data) && got[fd] == data[fd] {
									fd++
								}
								after = fmt.Sprintf("CORRUPT(len=%d,want=%d,firstdiff=%d)", len(got), len(data), fd)
							}
							fmt.Fprintf(ops, "c10 nospace %d %d %d %d %v %v\n", nroots, ln, c1, c2, part, lastHasRoom)
							fmt.Fprintf(impl, "%s %s\n", canonErr(werr), after)
							lines++
							im.close()
							os.RemoveAll(dir)
						}
					}
				}
			}
		}
	}
	ops.Flush()
	impl.Flush()
	opsF.Close()
	implF.Close()
	os.WriteFile(filepath.Join(out, "c10i.stats.json"), []byte(fmt.Sprintf(`{"lines": %d}`, lines)), 0o644)
}

func payloadLen(n int) []byte {
	b := make([]byte, n)
	x := uint64(n)*0x9e3779b97f4a7c15 + 7
	for i := range b {
		x ^= x << 13
		x ^= x >> 7
		x ^= x << 17
		b[i] = byte(x)
	}
	return b
}
